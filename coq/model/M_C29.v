(** C29 — name publishing is monotone and resolution is consistent (namesys).

    Executable model of the mechanism, transcribed from the Go sources:
      namesys/ipns_publisher.go  updateRecord (sequence selection), Publish,
                                 PublishIPNSRecord -> routing PutValue
      routing/offline + kad-dht records.ValueStore.Put (validator.Select:
                                 ipns compare = sequence, then EOL)
      namesys/namesys.go         Publish (publish-time cache fill / invalidate),
                                 resolveOnceAsync (cache lookup, resolver choice,
                                 cacheSet of the best result, capTTL)
      namesys/namesys_cache.go   cacheGet / cacheSet / cacheInvalidate / capTTL over
                                 hashicorp/golang-lru (recency list)
      namesys/ipns_resolver.go   resolveOnceAsync, calculateBestTTL
      namesys/dns_resolver.go    resolveOnceAsync / workDomain (fake TXT lookup)
      namesys/utilities.go       resolve, resolveAsync (depth), minNonZeroTTL, joinPaths

    Abstractions (all of them tied by the correspondence run):
      - IPNS names are key ids [k : N]; a name occurs in a path in one of three
        textual forms ([enc]); CIDs, DNS names, path segments are ids; distinct ids
        / forms render to distinct strings (the harness' tables are injective);
      - a content path is (root, remainder segments, trailing slash);
      - signatures, protobuf/CBOR encoding of records are not modelled: a record is
        (value, sequence, ttl, eol);
      - time: a model clock advanced only by [OSleep]; TTLs / EOLs in nanoseconds.
        Real time runs at least as fast as the model clock; the TTL reported by a
        cache hit is compared with a tolerance ([FUZZ]);
      - [lastMod] of results / cache entries is not observed.

    Defect switches ([flags]): on = what the code does (or did), off = what the
    property demands.  No proofs in this file. *)
From Coq Require Import List ZArith Bool NArith.
From V Require Import lib.Verdict.
Import ListNotations.
Open Scope Z_scope.

(** ---------- defect switches ---------- *)
Record flags := mkFlags {
  f_cache_key : bool;   (* C29-1: Publish fills/invalidates the cache under name.String()
                           ("k51..."), Resolve looks up "/ipns/"+<root as typed> *)
  f_seq_wrap : bool;    (* C29-2: seq++ wraps at 2^64-1 (off: ErrInvalidSequence) *)
  f_ttl0_stale : bool   (* C29-3 (latent, masked by C29-1): a successful Publish whose cache
                           TTL is <= 0 leaves the previous cache entry in place
                           (cacheSet returns early) instead of dropping it *)
}.
Definition ideal : flags := mkFlags false false false.

(** ---------- paths ---------- *)
Inductive enc := EB36 | EB58 | EB32.   (* k51... (CIDv1 base36) | peer-id base58 | bafz... (CIDv1 base32) *)
Inductive root :=
| RImm (ld : bool) (c : N)              (* /ipfs/<cid c> (ld = false) or /ipld/<cid c> *)
| RName (k : N) (e : enc)               (* /ipns/<name k in form e> *)
| RDns (d : N)                          (* /ipns/<domain d> *)
| RBad (b : N).                         (* /ipns/<neither a name nor a domain name> *)
Record path := mkPath { p_root : root; p_segs : list N; p_slash : bool }.

Definition enc_eq_dec : forall a b : enc, {a = b} + {a <> b}.
Proof. decide equality. Defined.
Definition root_eq_dec : forall a b : root, {a = b} + {a <> b}.
Proof. decide equality; try apply N.eq_dec; try apply bool_dec; apply enc_eq_dec. Defined.
Definition path_eq_dec : forall a b : path, {a = b} + {a <> b}.
Proof. decide equality; try apply bool_dec; try apply (list_eq_dec N.eq_dec); apply root_eq_dec. Defined.
Definition path_eqb (a b : path) : bool := if path_eq_dec a b then true else false.

Definition mutable (p : path) : bool :=
  match p_root p with RImm _ _ => false | _ => true end.
Definition is_ipld (p : path) : bool :=
  match p_root p with RImm true _ => true | _ => false end.

(** utilities.go joinPaths(resolvedBase, unresolvedPath): the segments after
    /ns/root of the unresolved path (and its trailing slash) are appended to the
    segments of the base; with nothing to append the base is returned as it is
    (keeping its own trailing slash). *)
Definition join (b p : path) : path :=
  match p_segs p, p_slash p with
  | [], false => b
  | _, _ => mkPath (p_root b) (p_segs b ++ p_segs p) (p_slash p)
  end.

(** ---------- records, stores, cache ---------- *)
Record rec := mkRec { r_val : path; r_seq : Z; r_ttl : Z; r_eol : Z }.
Record entry := mkEntry { e_val : path; e_ttl : Z; e_eol : Z }.   (* e_eol = cacheEOL *)
Inductive ckey := KBare (k : N) | KPath (r : root).
Definition ckey_eq_dec : forall a b : ckey, {a = b} + {a <> b}.
Proof. decide equality; try apply N.eq_dec; apply root_eq_dec. Defined.

Fixpoint alookup {A} (k : N) (l : list (N * A)) : option A :=
  match l with
  | [] => None
  | (k', v) :: r => if N.eqb k k' then Some v else alookup k r
  end.
Definition aset {A} (k : N) (v : A) (l : list (N * A)) : list (N * A) := (k, v) :: l.

(** hashicorp/golang-lru: a recency list, most recently used first *)
Fixpoint c_find (k : ckey) (c : list (ckey * entry)) : option entry :=
  match c with
  | [] => None
  | (k', e) :: r => if ckey_eq_dec k k' then Some e else c_find k r
  end.
Fixpoint c_remove (k : ckey) (c : list (ckey * entry)) : list (ckey * entry) :=
  match c with
  | [] => []
  | (k', e) :: r => if ckey_eq_dec k k' then c_remove k r else (k', e) :: c_remove k r
  end.
Definition c_touch (k : ckey) (c : list (ckey * entry)) : list (ckey * entry) :=
  match c_find k c with Some e => (k, e) :: c_remove k c | None => c end.
Definition c_add (size : Z) (k : ckey) (e : entry) (c : list (ckey * entry)) :=
  firstn (Z.to_nat size) ((k, e) :: c_remove k c).

(** configuration of one name system + the (fixed) DNS table of the fake resolver *)
Record cfg := mkCfg {
  c_size : Z;                        (* WithCache(size); 0 = no cache *)
  c_max : option Z;                  (* WithMaxCacheTTL *)
  c_dns : list (N * (path * Z))      (* domain d -> (dnslink value, TXT TTL); absent = no TXT record *)
}.

Record state := mkSt {
  s_rt : list (N * rec);             (* routing value store (offline router), by key id *)
  s_ds : list (N * rec);             (* the publisher's datastore (IpnsDsKey) *)
  s_cache : list (ckey * entry);
  s_now : Z
}.
Definition st0 : state := mkSt [] [] [] 0.

Definition MINUTE : Z := 60000000000.
Definition FUZZ : Z := 30000000000.      (* tolerance for TTLs that come out of a cache hit *)
Definition U64MAX : Z := 18446744073709551615.

Definition with_cache (st : state) (c : list (ckey * entry)) : state :=
  mkSt (s_rt st) (s_ds st) c (s_now st).

(** namesys_cache.go cacheGet: (value, ttl) on a live hit.  [lru.Get] refreshes the
    recency of the entry even when it turns out to be expired. *)
Definition cache_get (cf : cfg) (st : state) (k : ckey) : state * option (path * Z) :=
  if c_size cf <=? 0 then (st, None) else
  match c_find k (s_cache st) with
  | None => (st, None)
  | Some e =>
      let st' := with_cache st (c_touch k (s_cache st)) in
      let remaining := e_eol e - s_now st in
      if 0 <? remaining then (st', Some (e_val e, Z.min (e_ttl e) remaining)) else (st', None)
  end.

(** namesys_cache.go cacheSet *)
Definition cache_set (cf : cfg) (st : state) (k : ckey) (v : path) (ttl : Z) : state :=
  if (c_size cf <=? 0) || (ttl <=? 0) then st else
  let cttl := match c_max cf with None => ttl | Some m => Z.min ttl (Z.max 0 m) end in
  with_cache st (c_add (c_size cf) k (mkEntry v ttl (s_now st + cttl)) (s_cache st)).

Definition cache_invalidate (cf : cfg) (st : state) (k : ckey) : state :=
  if c_size cf <=? 0 then st else with_cache st (c_remove k (s_cache st)).

Definition cap_ttl (cf : cfg) (ttl : Z) : Z :=
  match c_max cf with
  | Some m => if (0 <? m) && (m <? ttl) then m else ttl
  | None => ttl
  end.

(** the two cache keys *)
Definition pub_key (f : flags) (k : N) : ckey :=
  if f_cache_key f then KBare k else KPath (RName k EB36).
Definition res_key (f : flags) (r : root) : ckey :=
  if f_cache_key f then KPath r else
  match r with RName k _ => KPath (RName k EB36) | _ => KPath r end.

(** ---------- publishing ---------- *)
Inductive perr := PNone | PInvalidSeq | POld | POther.   (* POther: any other error; never produced by the model *)

(** ipns_publisher.go GetPublished(name, checkRouting = true) *)
Definition get_published (st : state) (k : N) : option rec :=
  match alookup k (s_ds st) with
  | Some r => Some r
  | None => alookup k (s_rt st)
  end.

(** ipns_publisher.go updateRecord: the sequence number of the new record;
    [None] = ErrInvalidSequence *)
Definition choose_seq (f : flags) (cur : option rec) (v : path) (seqopt : option Z) : option Z :=
  match cur with
  | Some r =>
      match seqopt with
      | Some s => if s <=? r_seq r then None else Some s
      | None =>
          if path_eqb v (r_val r) then Some (r_seq r)
          else if r_seq r =? U64MAX then (if f_seq_wrap f then Some 0 else None)
          else Some (r_seq r + 1)
      end
  | None =>
      match seqopt with
      | Some s => if s =? 0 then None else Some s
      | None => Some 0
      end
  end.

(** records.ValueStore.Put + ipns.Validator.Select: the new record replaces the
    stored one unless the stored one is better (higher sequence, then later EOL).
    Equal sequence and equal EOL is decided by byte comparison in the code; the
    harness never produces that situation with different records. *)
Definition rt_accepts (new : rec) (old : option rec) : bool :=
  match old with
  | None => true
  | Some o => (r_seq o <? r_seq new) || ((r_seq o =? r_seq new) && (r_eol o <=? r_eol new))
  end.

Definition publish (f : flags) (cf : cfg) (st : state) (k : N) (v : path) (ttl eol : Z)
           (seqopt : option Z) : state * perr :=
  let ck := pub_key f k in
  match choose_seq f (get_published st k) v seqopt with
  | None => (cache_invalidate cf st ck, PInvalidSeq)
  | Some s =>
      let r := mkRec v s (Z.max 0 ttl) eol in
      let st1 := mkSt (s_rt st) (aset k r (s_ds st)) (s_cache st) (s_now st) in
      if rt_accepts r (alookup k (s_rt st)) then
        let st2 := mkSt (aset k r (s_rt st1)) (s_ds st1) (s_cache st1) (s_now st1) in
        let cttl := if 0 <=? ttl then ttl else MINUTE in
        if 0 <? cttl then (cache_set cf st2 ck v cttl, PNone)
        else if f_ttl0_stale f then (st2, PNone)
        else (cache_invalidate cf st2 ck, PNone)
      else (cache_invalidate cf st1 ck, POld)
  end.

(** ---------- resolving ---------- *)
Inductive err := ENone | ERecursion | EFailed | EOther | EDiverge.
(* EFailed = errors.Is(err, ErrResolveFailed) (nothing resolved / no DNSLink record);
   EDiverge is the model running out of fuel (unlimited depth on a cycle); never observed *)
Record res := mkRes { o_path : option path; o_ttl : Z; o_err : err; o_fuzzy : bool }.

(** namesys.go resolveOnceAsync (with the IPNS / DNS resolvers inlined).
    [None] = the result channel is closed without a result. *)
Definition resolve_once (f : flags) (cf : cfg) (st : state) (p : path) : state * option res :=
  if negb (mutable p) then (st, Some (mkRes (Some p) 0 ENone false)) else
  let key := res_key f (p_root p) in
  match cache_get cf st key with
  | (st1, Some (v, ttl)) => (st1, Some (mkRes (Some (join v p)) ttl ENone true))
  | (st1, None) =>
      match p_root p with
      | RName k _ =>
          match alookup k (s_rt st1) with
          | None => (st1, None)
          | Some r =>
              let ttl := Z.max 0 (r_ttl r) in
              (cache_set cf st1 key (r_val r) ttl,
               Some (mkRes (Some (join (r_val r) p)) (cap_ttl cf ttl) ENone false))
          end
      | RDns d =>
          match alookup d (c_dns cf) with
          | None => (st1, Some (mkRes None 0 EFailed false))
          | Some (v, ttl) =>
              if is_ipld v then (st1, Some (mkRes None 0 EFailed false))
              else (cache_set cf st1 key v ttl,
                    Some (mkRes (Some (join v p)) (cap_ttl cf ttl) ENone false))
          end
      | _ => (st1, Some (mkRes None 0 EOther false))
      end
  end.

(** utilities.go minNonZeroTTL *)
Definition min_nz (a b : Z) : Z :=
  let t := Z.min a b in
  if t <=? 0 then Z.max 0 (Z.max a b) else t.

(** utilities.go resolveAsync.  [depth] as in ResolveOptions.Depth (0 = unlimited). *)
Fixpoint resolve_rec (fuel : nat) (f : flags) (cf : cfg) (st : state) (p : path) (depth : Z)
  : state * option res :=
  match fuel with
  | O => (st, Some (mkRes None 0 EDiverge false))
  | S fuel' =>
      match resolve_once f cf st p with
      | (st1, None) => (st1, None)
      | (st1, Some r) =>
          match o_err r, o_path r with
          | ENone, Some q =>
              if negb (mutable q) then (st1, Some r)
              else if depth =? 1 then (st1, Some (mkRes (o_path r) (o_ttl r) ERecursion (o_fuzzy r)))
              else
                let depth' := if 1 <? depth then depth - 1 else depth in
                match resolve_rec fuel' f cf st1 q depth' with
                | (st2, None) => (st2, None)
                | (st2, Some r2) =>
                    (st2, Some (mkRes (o_path r2) (min_nz (o_ttl r) (o_ttl r2)) (o_err r2)
                                      (o_fuzzy r || o_fuzzy r2)))
                end
          | _, _ => (st1, Some r)
          end
      end
  end.

Definition UNLIMITED_FUEL : nat := 64.
Definition fuel_of (depth : Z) : nat := if depth =? 0 then UNLIMITED_FUEL else Z.to_nat depth.

(** utilities.go resolve: the last result, or ErrResolveFailed with a zero Result *)
Definition resolve (f : flags) (cf : cfg) (st : state) (p : path) (depth : Z) : state * res :=
  match resolve_rec (fuel_of depth) f cf st p depth with
  | (st', Some r) => (st', r)
  | (st', None) => (st', mkRes None 0 EFailed false)
  end.

(** ---------- histories ---------- *)
Inductive op :=
| OPublish (k : N) (v : path) (ttl eol : Z) (seq : option Z)
| OResolve (p : path) (depth : Z)
| OSleep (d : Z)
| ORestart                  (* a new name system (fresh publisher datastore and cache) over the same routing *)
| OOverlap (k : N) (vA : path) (ttlA eolA : Z) (seqA : option Z) (vB : path) (ttlB eolB : Z) (seqB : option Z).
     (* two publishes of the same key that overlap in time: B is started while A is parked
        inside its datastore Put.  IPNSPublisher.mu covers all of updateRecord, so the code
        must behave as A followed by B. *)

Inductive ob :=
| BPub (e : perr) (rt : option (Z * path * Z)) (ds : option (Z * path))
     (* after Publish(k, ...): the routing record of k (sequence, value, ttl) and the
        publisher-datastore record of k (sequence, value) *)
| BRes (p : option path) (ttl : Z) (e : err) (fuzzy : bool)
| BUnit
| BOverlap (eA eB : perr) (rt : option (Z * path * Z)) (ds : option (Z * path))
           (writes : list (Z * path))   (* the records handed to the publisher's datastore, in call order *)
           (inside : bool).             (* B got past the mutex while A was parked in its Put *)

Definition rt_view (r : option rec) := option_map (fun r => (r_seq r, r_val r, r_ttl r)) r.
Definition ds_view (r : option rec) := option_map (fun r => (r_seq r, r_val r)) r.

Definition step (f : flags) (cf : cfg) (st : state) (o : op) : state * ob :=
  match o with
  | OPublish k v ttl eol seq =>
      let (st', e) := publish f cf st k v ttl eol seq in
      (st', BPub e (rt_view (alookup k (s_rt st'))) (ds_view (alookup k (s_ds st'))))
  | OResolve p depth =>
      let (st', r) := resolve f cf st p depth in
      (st', BRes (o_path r) (o_ttl r) (o_err r) (o_fuzzy r))
  | OSleep d => (mkSt (s_rt st) (s_ds st) (s_cache st) (s_now st + Z.max 0 d), BUnit)
  | ORestart => (mkSt (s_rt st) [] [] (s_now st), BUnit)
  | OOverlap k vA ttlA eolA seqA vB ttlB eolB seqB =>
      let (st1, eA) := publish f cf st k vA ttlA eolA seqA in
      let (st2, eB) := publish f cf st1 k vB ttlB eolB seqB in
      let w (e : perr) (s : state) := match e with
                                      | PInvalidSeq => []
                                      | _ => match ds_view (alookup k (s_ds s)) with Some x => [x] | None => [] end
                                      end in
      (st2, BOverlap eA eB (rt_view (alookup k (s_rt st2))) (ds_view (alookup k (s_ds st2)))
                     (w eA st1 ++ w eB st2) false)
  end.

Fixpoint run (f : flags) (cf : cfg) (st : state) (ops : list op) : state * list ob :=
  match ops with
  | [] => (st, [])
  | o :: r => let (st', b) := step f cf st o in
              let (st'', bs) := run f cf st' r in (st'', b :: bs)
  end.

(** ---------- specification (evaluated on what the implementation answered) ---------- *)

(** The reference resolution: no cache, over a routing table; the property's third
    sentence defines it: follow the chain hop by hop appending the unresolved
    remainder, stop at an immutable path, recursion error when the depth runs out,
    least non-zero TTL.  It is [resolve] of the ideal model with the cache off. *)
Definition nocache (cf : cfg) : cfg := mkCfg 0 (c_max cf) (c_dns cf).
Definition ref_resolve (cf : cfg) (rt : list (N * rec)) (p : path) (depth : Z) : res :=
  snd (resolve ideal (nocache cf) (mkSt rt [] [] 0) p depth).

Definition opath_eqb (a b : option path) : bool :=
  match a, b with
  | Some x, Some y => path_eqb x y
  | None, None => true
  | _, _ => false
  end.
Definition err_eqb (a b : err) : bool :=
  match a, b with
  | ENone, ENone | ERecursion, ERecursion | EFailed, EFailed | EOther, EOther | EDiverge, EDiverge => true
  | _, _ => false
  end.
Definition perr_eqb (a b : perr) : bool :=
  match a, b with
  | PNone, PNone | PInvalidSeq, PInvalidSeq | POld, POld | POther, POther => true
  | _, _ => false
  end.

(** shadow of the two stores rebuilt from the observations only *)
Record shadow := mkSh { h_rt : list (N * (Z * path * Z)); h_ds : list (N * (Z * path)) }.

Definition seq_mono {A} (seq : A -> Z) (old new : option A) : bool :=
  match old, new with
  | Some o, Some n => seq o <=? seq n
  | Some _, None => false
  | None, _ => true
  end.
Definition rtv_eqb (a b : option (Z * path * Z)) : bool :=
  match a, b with
  | Some (s, v, t), Some (s', v', t') => (s =? s') && path_eqb v v' && (t =? t')
  | None, None => true
  | _, _ => false
  end.
Definition dsv_eqb (a b : option (Z * path)) : bool :=
  match a, b with
  | Some (s, v), Some (s', v') => (s =? s') && path_eqb v v'
  | None, None => true
  | _, _ => false
  end.

(** first sentence of the property, for one Publish(k, v, seq) and what was stored
    before / after it:
      - neither stored sequence number decreases (nor does a record disappear);
      - a successful publish stores [v] in both stores, under the explicit sequence if
        one was given; when the routing value changes (and no explicit sequence is
        given) the routing sequence strictly increases;
      - an explicit sequence that is not greater than the current one (datastore
        record, else routing record) is rejected and nothing changes. *)
Definition spec_publish (k : N) (v : path) (seqopt : option Z) (e : perr)
           (ort nrt : option (Z * path * Z)) (ods nds : option (Z * path)) : bool :=
  seq_mono (fun x => fst (fst x)) ort nrt && seq_mono fst ods nds &&
  (match e with
   | PNone =>
       match nrt, nds with
       | Some (s, v', _), Some (s2, v2) =>
           path_eqb v' v && path_eqb v2 v && (s =? s2) &&
           (match seqopt with Some x => s =? x | None => true end) &&
           (match ort, seqopt with
            | Some (so, vo, _), None => if path_eqb vo v then true else so <? s
            | _, _ => true
            end)
       | _, _ => false
       end
   | _ => true
   end) &&
  (match seqopt with
   | Some x =>
       let cur := match ods with Some (s, _) => Some s
                               | None => match ort with Some (s, _, _) => Some s | None => None end end in
       match cur with
       | Some s => if x <=? s then perr_eqb e PInvalidSeq && rtv_eqb ort nrt && dsv_eqb ods nds else true
       | None => true
       end
   | None => true
   end).

(** second and third sentence: a resolve answers what the reference resolution over
    the records now in routing answers (path and error class); the TTL is the
    chain's least non-zero TTL — exactly without a cache, and with a cache (where a
    hit legitimately reports the remaining cache lifetime) positive and not above it. *)
Definition spec_resolve (cf : cfg) (sh : shadow) (p : path) (depth : Z)
           (op : option path) (ttl : Z) (e : err) : bool :=
  let rt := map (fun kv => let '(k, (s, v, t)) := kv in (k, mkRec v s t 0)) (h_rt sh) in
  let r := ref_resolve cf rt p depth in
  opath_eqb (o_path r) op && err_eqb (o_err r) e &&
  (if c_size cf <=? 0 then ttl =? o_ttl r
   else if 0 <? o_ttl r then (0 <? ttl) && (ttl <=? o_ttl r) else true).

(** overlapping publishes (first sentence of the property, for publishes that overlap in
    time): neither stored sequence number decreases; among the records handed to the
    datastore, in order, a record whose value differs from the one before it (the stored
    one, for the first) carries a strictly larger sequence number, and none a smaller one. *)
Fixpoint writes_increasing (prev : option (Z * path)) (ws : list (Z * path)) : bool :=
  match ws with
  | [] => true
  | (s, v) :: r =>
      (match prev with
       | Some (s0, v0) => if path_eqb v0 v then s0 <=? s else s0 <? s
       | None => true
       end) && writes_increasing (Some (s, v)) r
  end.
Definition spec_overlap (ort nrt : option (Z * path * Z)) (ods nds : option (Z * path))
           (writes : list (Z * path)) : bool :=
  seq_mono (fun x => fst (fst x)) ort nrt && seq_mono fst ods nds &&
  writes_increasing (match ods with
                     | Some x => Some x
                     | None => match ort with Some (s, v, _) => Some (s, v) | None => None end
                     end) writes.

Fixpoint spec_run (cf : cfg) (sh : shadow) (ops : list op) (obs : list ob) : bool :=
  match ops, obs with
  | [], [] => true
  | OPublish k v _ _ seqopt :: ops', BPub e nrt nds :: obs' =>
      spec_publish k v seqopt e (alookup k (h_rt sh)) nrt (alookup k (h_ds sh)) nds &&
      spec_run cf (mkSh (match nrt with Some x => aset k x (h_rt sh) | None => h_rt sh end)
                        (match nds with Some x => aset k x (h_ds sh) | None => h_ds sh end)) ops' obs'
  | OResolve p depth :: ops', BRes op ttl e _ :: obs' =>
      spec_resolve cf sh p depth op ttl e && spec_run cf sh ops' obs'
  | OSleep _ :: ops', BUnit :: obs' => spec_run cf sh ops' obs'
  | ORestart :: ops', BUnit :: obs' => spec_run cf (mkSh (h_rt sh) []) ops' obs'
  | OOverlap k _ _ _ _ _ _ _ _ :: ops', BOverlap _ _ nrt nds writes _ :: obs' =>
      spec_overlap (alookup k (h_rt sh)) nrt (alookup k (h_ds sh)) nds writes &&
      spec_run cf (mkSh (match nrt with Some x => aset k x (h_rt sh) | None => h_rt sh end)
                        (match nds with Some x => aset k x (h_ds sh) | None => h_ds sh end)) ops' obs'
  | _, _ => false
  end.

(** ---------- correspondence ---------- *)
Definition ttl_match (fuzzy : bool) (m o : Z) : bool :=
  (o =? m) || (fuzzy && (m - FUZZ <? o) && (o <? m)).

Definition ob_match (m o : ob) : bool :=
  match m, o with
  | BPub e rt ds, BPub e' rt' ds' => perr_eqb e e' && rtv_eqb rt rt' && dsv_eqb ds ds'
  | BRes p t e fz, BRes p' t' e' _ => opath_eqb p p' && err_eqb e e' && ttl_match fz t t'
  | BUnit, BUnit => true
  | BOverlap eA eB rt ds ws ins, BOverlap eA' eB' rt' ds' ws' ins' =>
      perr_eqb eA eA' && perr_eqb eB eB' && rtv_eqb rt rt' && dsv_eqb ds ds' && Bool.eqb ins ins' &&
      (fix weq (a c : list (Z * path)) : bool :=
         match a, c with
         | [], [] => true
         | x :: a', y :: c' => dsv_eqb (Some x) (Some y) && weq a' c'
         | _, _ => false
         end) ws ws'
  | _, _ => false
  end.
Fixpoint obs_match (ms os : list ob) : bool :=
  match ms, os with
  | [], [] => true
  | m :: ms', o :: os' => ob_match m o && obs_match ms' os'
  | _, _ => false
  end.

(** one case written by the harness: configuration, operations, and what the real
    name system answered *)
Inductive case := Case (cf : cfg) (ops : list op) (obs : list ob).

Definition matches (f : flags) (cf : cfg) (ops : list op) (obs : list ob) : bool :=
  obs_match (snd (run f cf st0 ops)) obs.

(** Classification.  Observationally, with [f_cache_key] on, [f_ttl0_stale] makes no
    difference (a publish then never touches a key that a resolve reads), so
    "C29-1 present" is tried as {cache_key, ttl0_stale}. *)
Definition check_case (c : case) : verdict :=
  let 'Case cf ops obs := c in
  let spec := spec_run cf (mkSh [] []) ops obs in
  if matches ideal cf ops obs then verdict_of true spec
  else if matches (mkFlags true false true) cf ops obs then (if spec then VOk else VKnown 1)
  else if matches (mkFlags false false true) cf ops obs then (if spec then VOk else VKnown 3)
  else if matches (mkFlags false true false) cf ops obs then (if spec then VOk else VKnown 2)
  else if matches (mkFlags true true true) cf ops obs then (if spec then VOk else VKnown 2)
  else if matches (mkFlags false true true) cf ops obs then (if spec then VOk else VKnown 2)
  else verdict_of false spec.
