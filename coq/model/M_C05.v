(** C05 — block service returns exactly the requested blocks and caches fetched ones.

    The mechanism (getBlock / getBlocks of blockservice/blockservice.go: local-first lookup,
    fetch of the misses, Put -> NotifyNewBlocks -> hand over) is modelled in lib/BlockSvc.v; the
    exchange is an adversarial oracle carried by each operation (any blocks, any order, any bytes).
    This file adds the specification of C05, the defect switches and the correspondence cases.
    No proofs in this file.

    Defect switches ([BlockSvc.flags]):
      trust_cid  = true : blocks answered by the exchange are not compared with the request
                          (finding C05-1, repaired in /repo by fixes/C05-1.patch)
      trust_hash = true : bytes of blocks answered by the exchange are not re-hashed
                          (finding C05-2, present in /repo)
    Both false = the behaviour the property demands. *)
From Coq Require Import List ZArith Bool NArith.
From V Require Import lib.Verdict lib.BlockSvc model.M_C04.
Import ListNotations.
Open Scope Z_scope.

Definition fl_spec : flags := {| trust_cid := false; trust_hash := false |}.   (* what the property demands *)
Definition fl_code : flags := {| trust_cid := false; trust_hash := true |}.    (* /repo now: C05-1 fixed, C05-2 present *)
Definition fl_old : flags := {| trust_cid := true; trust_hash := true |}.      (* /repo before fix C05-1 *)
Definition fl_cid : flags := {| trust_cid := true; trust_hash := false |}.

(** ---------- specification, per operation ---------- *)
Definition out_blocks (r : out) : list blk :=
  match r with RGet _ (Some b) => [b] | RGetMany l => map fst l | _ => [] end.
Definition req_of (o : op) : list cid :=
  match o with OGet _ c _ => [c] | OGetMany _ ks _ => ks | _ => [] end.
(** CIDs asked from an exchange during the call — ANY exchange: a request that reaches another block
    service's exchange ([EvForeign]) counts as well *)
Fixpoint ev_fetched (e : ev) : list cid :=
  match e with EvFetch1 _ c => [c] | EvFetchN _ cs => cs | EvForeign e' => ev_fetched e' | _ => [] end.
Definition fetched (evs : list ev) : list cid := flat_map ev_fetched evs.

(** only requested CIDs are returned / emitted — and only requested CIDs are asked from the exchange *)
Definition req_ok (o : op) (evs : list ev) (r : out) : bool :=
  forallb (fun b => cid_in (b_cid b) (req_of o)) (out_blocks r) &&
  forallb (fun c => cid_in c (req_of o)) (fetched evs).
(** every returned / emitted block's bytes hash to its CID *)
Definition hash_ok (r : out) : bool := forallb good (out_blocks r).
(** every block handed to the caller is in the blockstore at that moment *)
Definition cached_ok (r : out) (post : store) : bool :=
  match r with
  | RGet _ (Some b) => has post (bmh b)
  | RGetMany l => forallb snd l
  | _ => true
  end.
(** nothing stored locally is asked from the exchange (unless the store failed to read it) *)
Definition miss_ok (pre : store) (ft : faults) (evs : list ev) : bool :=
  forallb (fun c => negb (has pre (mh_of c)) || inl (mh_of c) (f_get ft)) (fetched evs).

Definition spec_step (chk_hash : bool) (pre : store) (o : op) (ft : faults) (evs : list ev) (r : out) (post : store) : bool :=
  req_ok o evs r && (negb chk_hash || hash_ok r) && cached_ok r post && miss_ok pre ft evs.

(** the hash clause presupposes that callers add blocks whose bytes hash to their CID (the block
    service never verifies what AddBlock is given; blocks.NewBlockWithCid's contract) and that the
    store was good to begin with *)
Definition op_good (o : op) : bool :=
  match o with OAdd b => good b | OAddMany bs => forallb good bs | _ => true end.
Definition store_good (s : store) : bool :=
  forallb (fun e => let '(_, _, g) := fst e in (g =? snd e)%N) s.

Section Runs.
Variable validate : Z -> Z -> verr.
Variable checkfirst : bool.
Variable ex : exkind.
Variable fl : flags.

(** a property of every step of a model run *)
Fixpoint run_all (Q : store -> op -> faults -> list ev -> out -> store -> bool)
                 (s : store) (h : list (op * faults)) : bool :=
  match h with
  | [] => true
  | (o, ft) :: r =>
      let '(s', evs, res) := step validate checkfirst ex fl ft s o in
      Q s o ft evs res s' && run_all Q s' r
  end.
End Runs.

(** ---------- correspondence cases ---------- *)
Inductive case := CHist (cf : config) (h : list obs).

(** does the observed history equal the model with flags [fl], step by step (each step started
    from the observed store before it) *)
Fixpoint matches (cf : config) (fl : flags) (s : store) (h : list obs) : bool :=
  match h with
  | [] => true
  | o :: r =>
      let '(s', evs, res) := step (validate (cf_al cf)) (cf_checkfirst cf) (cf_ex cf) fl (o_faults o) s (o_op o) in
      list_eqb ev_eqb evs (o_evs o) && out_eqb res (o_out o) && store_eqb s' (o_store o) &&
      matches cf fl (o_store o) r
  end.

(** the specification on what the implementation did *)
Fixpoint obs_spec (chk : bool) (pre : store) (h : list obs) : bool :=
  match h with
  | [] => true
  | o :: r => spec_step chk pre (o_op o) (o_faults o) (o_evs o) (o_out o) (o_store o) && obs_spec chk (o_store o) r
  end.

Definition check_case (c : case) : verdict :=
  match c with
  | CHist cf h =>
      let chk := forallb (fun o => op_good (o_op o)) h in
      let ops := map (fun o => (o_op o, o_faults o)) h in
      let m fl := matches cf fl [] h in
      let spec_impl := obs_spec chk [] h in
      let spec_off := run_all (validate (cf_al cf)) (cf_checkfirst cf) (cf_ex cf) fl_spec (spec_step chk) [] ops in
      if spec_impl then (if m fl_code || m fl_spec || m fl_old || m fl_cid then VOk else VModelMismatch)
      else if negb spec_off then VSpecFail
      else if m fl_code && obs_spec false [] h then VKnown 2   (* only the hash clause fails *)
      else if m fl_old || m fl_cid then VKnown 1
      else VSpecFail
  end.
