(** C20 — MFS locking: lock-acquisition transition system with Go's
    writer-preferring RWMutex, and the lock programs of the MFS file API.
    No proofs in this file.

    GENERIC PART.  A thread is a program: a list of lock actions.  The state of a
    lock is not stored; it is what the threads hold/announce:
      RLock l    possible iff no thread holds l for writing and NO WRITER IS WAITING for l
                 (sync.RWMutex: a pending Lock blocks new readers)
      Lock l     two steps: announce (always possible), then acquire, possible iff no
                 thread holds l in any mode (a sync.Mutex is an RWMutex used with Lock only)
      RUnlock/Unlock  always possible.
    Re-entrant acquisition is not special-cased: a thread that RLocks a lock it already
    holds is blocked by a waiting writer like anybody else — that is the defect.

    MFS PART, transcribed from mfs/file.go, mfs/fd.go, mfs/dir.go: the locks are
    File.desclock, fileDescriptor.mu, Directory.lock (by depth) and File.nodeLock;
    every API call is the sequence of acquisitions/releases it performs, each
    acquisition in file.go/fd.go tagged with the name of the verifhook.Point that
    precedes it in the code (the harness observes exactly these). *)
From Coq Require Import List ZArith Bool NArith Arith.
From V Require Import lib.Verdict.
Import ListNotations.

(** ---------- generic lock LTS ---------- *)
Inductive lock :=
| LDesc (f : nat)            (* File.desclock of file f *)
| LFd (t : nat)              (* fileDescriptor.mu of the descriptor opened by thread t *)
| LDir (depth : nat)         (* Directory.lock of the directory at that depth on the file's path *)
| LNode (f : nat).           (* File.nodeLock of file f *)

Definition lock_eqb (a b : lock) : bool :=
  match a, b with
  | LDesc x, LDesc y | LFd x, LFd y | LDir x, LDir y | LNode x, LNode y => Nat.eqb x y
  | _, _ => false
  end.

(** acquisition order: descriptor lock < descriptor mutex < directories top-down < node lock *)
Definition rank (l : lock) : nat :=
  match l with LDesc _ => 0 | LFd _ => 1 | LDir d => 2 + d | LNode _ => 1000 end.
Definition RANK_BOUND : nat := 1001.

Inductive act := ARLock (l : lock) | ARUnlock (l : lock) | ALock (l : lock) | AUnlock (l : lock).

Record thread := mkT {
  held : list (lock * bool);   (* (lock, held for writing?) *)
  waiting : bool;              (* the Lock at the head of [prog] has been announced *)
  prog : list act
}.
Definition state := list thread.

Definition holds_mode (l : lock) (w : bool) (th : thread) : bool :=
  existsb (fun h => lock_eqb (fst h) l && Bool.eqb (snd h) w) (held th).
Definition holds_any (l : lock) (th : thread) : bool :=
  existsb (fun h => lock_eqb (fst h) l) (held th).
Definition waits_for (l : lock) (th : thread) : bool :=
  waiting th && match prog th with ALock l' :: _ => lock_eqb l' l | _ => false end.

Definition can_step (S : state) (th : thread) : bool :=
  match prog th with
  | [] => false
  | ARLock l :: _ => negb (existsb (holds_mode l true) S) && negb (existsb (waits_for l) S)
  | ALock l :: _ => if waiting th then negb (existsb (holds_any l) S) else true
  | ARUnlock _ :: _ | AUnlock _ :: _ => true
  end.

Fixpoint drop_held (l : lock) (w : bool) (h : list (lock * bool)) : list (lock * bool) :=
  match h with
  | [] => []
  | x :: r => if lock_eqb (fst x) l && Bool.eqb (snd x) w then r else x :: drop_held l w r
  end.

(** what the thread looks like after its next action *)
Definition do_act (th : thread) : thread :=
  match prog th with
  | [] => th
  | ARLock l :: r => mkT ((l, false) :: held th) false r
  | ARUnlock l :: r => mkT (drop_held l false (held th)) false r
  | ALock l :: r => if waiting th then mkT ((l, true) :: held th) false r
                    else mkT (held th) true (prog th)
  | AUnlock l :: r => mkT (drop_held l true (held th)) false r
  end.

Fixpoint set_nth {A} (i : nat) (x : A) (l : list A) : list A :=
  match l, i with
  | [], _ => []
  | _ :: r, O => x :: r
  | y :: r, S j => y :: set_nth j x r
  end.

(** thread [i] takes its next action, if it can *)
Definition step (S : state) (i : nat) : option state :=
  match nth_error S i with
  | None => None
  | Some th => if can_step S th then Some (set_nth i (do_act th) S) else None
  end.
Fixpoint run (S : state) (sched : list nat) : option state :=
  match sched with
  | [] => Some S
  | i :: r => match step S i with Some S' => run S' r | None => None end
  end.

Definition all_done (S : state) : bool := forallb (fun th => match prog th with [] => true | _ => false end) S.
Definition deadlocked (S : state) : bool :=
  negb (all_done S) && forallb (fun th => negb (can_step S th)) S.

(** the discipline: every acquisition is of a lock ranked above everything the thread
    holds (so never of a lock it holds), releases release what is held, and the program
    ends holding nothing *)
Fixpoint okb (h : list (lock * bool)) (p : list act) : bool :=
  match p with
  | [] => match h with [] => true | _ => false end
  | ARLock l :: r =>
      forallb (fun x => Nat.ltb (rank (fst x)) (rank l)) h && Nat.ltb (rank l) RANK_BOUND && okb ((l, false) :: h) r
  | ALock l :: r =>
      forallb (fun x => Nat.ltb (rank (fst x)) (rank l)) h && Nat.ltb (rank l) RANK_BOUND && okb ((l, true) :: h) r
  | ARUnlock l :: r => existsb (fun x => lock_eqb (fst x) l && Bool.eqb (snd x) false) h && okb (drop_held l false h) r
  | AUnlock l :: r => existsb (fun x => lock_eqb (fst x) l && Bool.eqb (snd x) true) h && okb (drop_held l true h) r
  end.
Definition ok_thread (th : thread) : bool :=
  okb (held th) (prog th) &&
  (negb (waiting th) || match prog th with ALock _ :: _ => true | _ => false end).

Definition start (p : list act) : thread := mkT [] false p.

(** ---------- the MFS file API as lock programs ---------- *)

(** schedule points (verifhook.Point names) *)
Inductive point :=
| POpenDescLock | POpenDescRLock | POpenNodeRLock | PSizeNodeRLock | PGetNodeRLock
| PModeNodeRLock | PModTimeNodeRLock | PSetNodeDataLock
| PFdWrite | PFdRead | PFdClose | PFdFlush | PFdTruncate | PFlushUpNodeLock
| PGetNodeRLockOpt      (* model only: a File.GetNode:nodeLock.RLock that is passed iff the file is in the directory's cache *)
| PDirGetNode           (* Directory.getNode:lock.Lock      — only with the optional hook fixes/hook-C20-dir.patch *)
| PDirLocalUpdate.      (* Directory.localUpdate:lock.Lock  — only with the optional hook fixes/hook-C20-dir.patch *)

Definition point_eqb (a b : point) : bool :=
  match a, b with
  | POpenDescLock, POpenDescLock | POpenDescRLock, POpenDescRLock | POpenNodeRLock, POpenNodeRLock
  | PSizeNodeRLock, PSizeNodeRLock | PGetNodeRLock, PGetNodeRLock | PModeNodeRLock, PModeNodeRLock
  | PModTimeNodeRLock, PModTimeNodeRLock | PSetNodeDataLock, PSetNodeDataLock | PFdWrite, PFdWrite
  | PFdRead, PFdRead | PFdClose, PFdClose | PFdFlush, PFdFlush | PFdTruncate, PFdTruncate
  | PFlushUpNodeLock, PFlushUpNodeLock | PGetNodeRLockOpt, PGetNodeRLockOpt
  | PDirGetNode, PDirGetNode | PDirLocalUpdate, PDirLocalUpdate => true
  | _, _ => false
  end.

(** an action, with the point that precedes it in the code (directory locks have none) *)
Definition pact := (act * option point)%type.

(** the files of the harness universe: file f lives in the directory at depth [fdepth f]
    (0 = directly under the root: /g; 1 = /d/f) *)
Definition fdepth (f : nat) : nat := match f with O => 1 | _ => 0 end.

Fixpoint seqn (n : nat) : list nat := match n with O => [] | S k => seqn k ++ [k] end.

(** DirLookup of the file: Child() on every directory of the path, one after the other *)
Definition p_lookup (f : nat) : list pact :=
  flat_map (fun d => [(ALock (LDir d), None); (AUnlock (LDir d), None)]) (seqn (S (fdepth f))).
(** updateChildEntry: localUpdate on the parent, then on its parent, ... up to the root *)
Definition p_propagate (f : nat) : list pact :=
  flat_map (fun d => [(ALock (LDir d), Some PDirLocalUpdate); (AUnlock (LDir d), None)]) (rev (seqn (S (fdepth f)))).
(** Directory.getNode on /d: lock it, cacheSync re-links its (only possible) cached child, file 0 *)
Definition p_dirgetnode : list pact :=
  [(ALock (LDir 1), Some PDirGetNode); (ARLock (LNode 0), Some PGetNodeRLockOpt); (ARUnlock (LNode 0), None);
   (AUnlock (LDir 1), None)].
(** flushUp on a fresh or dirty descriptor *)
Definition p_flushup (f : nat) (sync : bool) : list pact :=
  [(ALock (LNode f), Some PFlushUpNodeLock); (AUnlock (LNode f), None)] ++ (if sync then p_propagate f else []).
Definition p_getnode (f : nat) : list pact :=
  [(ARLock (LNode f), Some PGetNodeRLock); (ARUnlock (LNode f), None)].

Inductive op :=
| OWrite (f : nat) (sync : bool)   (* Lookup; Open(Write,Sync); Truncate(0); Write; Close *)
| ORead (f : nat)                  (* Lookup; Open(Read); Read; Close *)
| OMode (f : nat)                  (* Lookup; File.Mode *)
| OModTime (f : nat)               (* Lookup; File.ModTime *)
| OChmod (f : nat)                 (* mfs.Chmod *)
| OTouch (f : nat)                 (* mfs.Touch *)
| OSize (f : nat)                  (* Lookup; File.Size *)
| OFlushFile (f : nat)             (* Lookup; File.Flush *)
| OWriteFlush (f : nat) (sync : bool) (* Lookup; Open(Write,Sync); Truncate(0); Write; fd.Flush; Close *)
| OListD                           (* Lookup /d; List (ForEachEntry over its one entry, file 0) *)
| OFlushDir                        (* Lookup /d; Directory.Flush: getNode(clean) then parent.updateChildEntry *)
| OFlushPathD.                     (* mfs.FlushPath(/d): Directory.Flush, WaitPub, Directory.GetNode *)

(** [reentrant] = the defect switch: File.Mode/ModTime take nodeLock.RLock and then call
    GetNode, which takes it again *)
(** [rmw] = the second switch (finding C20-2): SetMode/SetModTime read the node under the read
    lock (GetNode), release it, and take the write lock only to store the node they built;
    repaired, the write lock is held from reading the node to storing the new one *)
Definition p_op_g (reentrant rmw : bool) (t : nat) (o : op) : list pact :=
  match o with
  | OWrite f sync =>
      p_lookup f ++
      [(ALock (LDesc f), Some POpenDescLock); (ARLock (LNode f), Some POpenNodeRLock); (ARUnlock (LNode f), None);
       (ALock (LFd t), Some PFdTruncate); (AUnlock (LFd t), None);
       (ALock (LFd t), Some PFdWrite); (AUnlock (LFd t), None);
       (ALock (LFd t), Some PFdClose)] ++ p_flushup f sync ++
      [(AUnlock (LDesc f), None); (AUnlock (LFd t), None)]
  | ORead f =>
      p_lookup f ++
      [(ARLock (LDesc f), Some POpenDescRLock); (ARLock (LNode f), Some POpenNodeRLock); (ARUnlock (LNode f), None);
       (ALock (LFd t), Some PFdRead); (AUnlock (LFd t), None);
       (ALock (LFd t), Some PFdClose)] ++ p_flushup f false ++
      [(ARUnlock (LDesc f), None); (AUnlock (LFd t), None)]
  | OMode f =>
      p_lookup f ++
      (if reentrant
       then [(ARLock (LNode f), Some PModeNodeRLock)] ++ p_getnode f ++ [(ARUnlock (LNode f), None)]
       else p_getnode f)
  | OModTime f =>
      p_lookup f ++
      (if reentrant
       then [(ARLock (LNode f), Some PModTimeNodeRLock)] ++ p_getnode f ++ [(ARUnlock (LNode f), None)]
       else p_getnode f)
  | OChmod f | OTouch f =>
      p_lookup f ++ (if rmw then p_getnode f else []) ++
      [(ALock (LNode f), Some PSetNodeDataLock); (AUnlock (LNode f), None)] ++ p_propagate f
  | OSize f => p_lookup f ++ [(ARLock (LNode f), Some PSizeNodeRLock); (ARUnlock (LNode f), None)]
  | OFlushFile f =>
      p_lookup f ++
      [(ALock (LDesc f), Some POpenDescLock); (ARLock (LNode f), Some POpenNodeRLock); (ARUnlock (LNode f), None);
       (ALock (LFd t), Some PFdFlush)] ++ p_flushup f true ++
      [(AUnlock (LFd t), None); (ALock (LFd t), Some PFdClose); (AUnlock (LDesc f), None); (AUnlock (LFd t), None)]
  | OWriteFlush f _ =>
      (* fd.Flush is flushUp(true) whatever the Sync flag; the Close then finds stateFlushed *)
      p_lookup f ++
      [(ALock (LDesc f), Some POpenDescLock); (ARLock (LNode f), Some POpenNodeRLock); (ARUnlock (LNode f), None);
       (ALock (LFd t), Some PFdTruncate); (AUnlock (LFd t), None);
       (ALock (LFd t), Some PFdWrite); (AUnlock (LFd t), None);
       (ALock (LFd t), Some PFdFlush)] ++ p_flushup f true ++
      [(AUnlock (LFd t), None); (ALock (LFd t), Some PFdClose); (AUnlock (LDesc f), None); (AUnlock (LFd t), None)]
  | OListD =>
      [(ALock (LDir 0), None); (AUnlock (LDir 0), None); (ALock (LDir 1), None)] ++
      p_getnode 0 ++ [(ARLock (LNode 0), Some PSizeNodeRLock); (ARUnlock (LNode 0), None); (AUnlock (LDir 1), None)]
  | OFlushDir =>
      [(ALock (LDir 0), None); (AUnlock (LDir 0), None)] ++ p_dirgetnode ++
      [(ALock (LDir 0), Some PDirLocalUpdate); (AUnlock (LDir 0), None)]
  | OFlushPathD =>
      [(ALock (LDir 0), None); (AUnlock (LDir 0), None)] ++ p_dirgetnode ++
      [(ALock (LDir 0), Some PDirLocalUpdate); (AUnlock (LDir 0), None)] ++ p_dirgetnode
  end.

Definition p_op (reentrant : bool) (t : nat) (o : op) : list pact := p_op_g reentrant false t o.
Definition p_thread_g (reentrant rmw : bool) (t : nat) (ops : list op) : list pact :=
  flat_map (p_op_g reentrant rmw t) ops.
Definition p_thread (reentrant : bool) (t : nat) (ops : list op) : list pact :=
  flat_map (p_op reentrant t) ops.

Definition all_ops : list op :=
  flat_map (fun f => [OWrite f true; OWrite f false; ORead f; OMode f; OModTime f; OChmod f; OTouch f; OSize f; OFlushFile f;
                     OWriteFlush f true; OWriteFlush f false])
           [0; 1] ++ [OListD; OFlushDir; OFlushPathD].

(** ---------- correspondence ---------- *)

(** the points a program passes, in order *)
Definition points_of (p : list pact) : list point :=
  flat_map (fun a => match snd a with Some x => [x] | None => [] end) p.

Definition is_dir_point (p : point) : bool :=
  match p with PDirGetNode | PDirLocalUpdate => true | _ => false end.

(** [obs] against the model's points: a [PGetNodeRLockOpt] of the model may be absent or
    appear as [PGetNodeRLock]; with [full = false] only a prefix of the model is required *)
Fixpoint match_points (full : bool) (obs model : list point) : bool :=
  match model with
  | [] => match obs with [] => true | _ => false end
  | m :: r =>
      match m with
      | PGetNodeRLockOpt =>
          match_points full obs r ||
          match obs with PGetNodeRLock :: o' => match_points full o' r | _ => false end
      | _ =>
          match obs with
          | [] => negb full
          | a :: o' => point_eqb a m && match_points full o' r
          end
      end
  end.
Definition eq_points (a b : list point) : bool := match_points true a b.
Definition prefix_points (a b : list point) : bool := match_points false a b.

Definition exec_held (h : list (lock * bool)) (a : act) : list (lock * bool) :=
  match a with
  | ARLock l => (l, false) :: h
  | ALock l => (l, true) :: h
  | ARUnlock l => drop_held l false h
  | AUnlock l => drop_held l true h
  end.
Definition is_lock (a : act) : bool := match a with ALock _ => true | _ => false end.

(** the thread after it has PASSED [n] points and is stuck at the acquisition behind the
    last one: everything before that action is done, a Lock has been announced *)
Fixpoint advance (n : nat) (h : list (lock * bool)) (p : list pact) : thread :=
  match p with
  | [] => mkT h false []
  | (a, pt) :: r =>
      match pt with
      | None => advance n (exec_held h a) r
      | Some _ =>
          match n with
          | O => mkT h false (map fst p)
          | S O => mkT h (is_lock a) (map fst p)
          | S k => advance k (exec_held h a) r
          end
      end
  end.

(** A case: per thread its operations, the points it was seen passing (in order) and
    whether it finished; a run in which not every thread finished within the watchdog is hung. *)
Inductive case := Case (threads : list (list op)) (traces : list (list point)) (dones : list bool).

Fixpoint zip3 {A B C} (a : list A) (b : list B) (c : list C) : list (A * B * C) :=
  match a, b, c with
  | x :: a', y :: b', z :: c' => (x, y, z) :: zip3 a' b' c'
  | _, _, _ => []
  end.
Fixpoint indexed {A} (i : nat) (l : list A) : list (nat * A) :=
  match l with [] => [] | x :: r => (i, x) :: indexed (S i) r end.

Definition row := (nat * (list op * list point * bool))%type.
(** the directory hooks are optional: when no directory point was observed at all the
    code under test does not have them, and they are dropped from the model side *)
Definition traces_match (reentrant rmw : bool) (rows : list row) : bool :=
  let with_dir := existsb (fun r : row => let '(_, (_, obs, _)) := r in existsb is_dir_point obs) rows in
  forallb (fun r : row => let '(t, (ops, obs, done)) := r in
                    let m0 := points_of (p_thread_g reentrant rmw t ops) in
                    let m := if with_dir then m0 else filter (fun p => negb (is_dir_point p)) m0 in
                    if done then eq_points obs m else prefix_points obs m) rows.

Definition stuck_config (rows : list row) : state :=
  map (fun r : row => let '(t, (ops, obs, done)) := r in
                if done then mkT [] false [] else advance (length obs) [] (p_thread_g true true t ops)) rows.

Definition check_case (c : case) : verdict :=
  match c with
  | Case threads traces dones =>
      let rows := indexed 0 (zip3 threads traces dones) in
      let sizes_ok := Nat.eqb (length threads) (length traces) && Nat.eqb (length threads) (length dones) in
      if negb sizes_ok then VModelMismatch else
      if forallb (fun d => d) dones
      then (if traces_match false false rows || traces_match false true rows ||
               traces_match true true rows || traces_match true false rows then VOk else VModelMismatch)
      else (* hung: a deadlock of the real code *)
        let off_ok := forallb (fun r : row => let '(t, (ops, _, _)) := r in
                                        ok_thread (start (map fst (p_thread false t ops)))) rows in
        if traces_match true true rows && deadlocked (stuck_config rows) && off_ok then VKnown 1 else VSpecFail
  end.
