(** C03 — verified reads: blockstore/validating_blockstore.go (Get re-hashes with
    c.Prefix().Sum), filestore/fsrefstore.go (readFileDataObj / readURLDataObj read
    [size] bytes at [offset] and re-hash them against the stored multihash) and
    filestore/filestore.go (Get: main blockstore first, the FileManager on NotFound).

    The hash is NOT modelled: [H : N -> B -> option bytes] (prefix id -> data ->
    digest, or [None] when the digest cannot be computed: Prefix().Sum fails for an
    unknown / hasher-less multihash code or a digest length the function cannot
    deliver) is a Section variable the theorems quantify over; a CID is its prefix
    id and its digest, and [Prefix().Sum(data)] is [(pref, H pref data)].  For the
    correspondence check [H] is instantiated by a table of digests that the
    harness computed with an independent hash implementation.
    No proofs in this file. *)
From Coq Require Import List NArith ZArith Bool.
From V Require Import lib.Verdict.
Import ListNotations.
Open Scope N_scope.

Definition bytes := list N.

Fixpoint bytes_eqb (a b : bytes) : bool :=
  match a, b with
  | [], [] => true
  | x :: a', y :: b' => (x =? y) && bytes_eqb a' b'
  | _, _ => false
  end.

(** a CID as far as re-hashing is concerned: prefix (version, codec, hash
    function, digest length — an opaque id) and digest *)
Record cid := Cid { c_pref : N; c_digest : bytes }.
Definition cid_eqb (a b : cid) : bool := (c_pref a =? c_pref b) && bytes_eqb (c_digest a) (c_digest b).

(** CorruptReferenceError status codes (filestore/util.go) *)
Inductive status := StFileError | StFileNotFound | StFileChanged.

(** outcome of a read *)
Inductive outcome (B : Type) :=
| OOk (b : B)                 (* a block with these bytes *)
| OHashMismatch               (* blockstore.ErrHashMismatch *)
| ONotFound                   (* ipld.ErrNotFound *)
| OCorrupt (s : status)       (* filestore.CorruptReferenceError *)
| ONotEnabled                 (* ErrFilestoreNotEnabled / ErrUrlstoreNotEnabled *)
| OOther.                     (* any other error *)
Arguments OOk {B} b.
Arguments OHashMismatch {B}.
Arguments ONotFound {B}.
Arguments OCorrupt {B} s.
Arguments ONotEnabled {B}.
Arguments OOther {B}.

Section Hash.
  Variable B : Type.                     (* block contents *)
  Variable H : N -> B -> option bytes.   (* prefix id -> data -> digest, if computable *)

  Definition sum (pref : N) (b : B) : option cid := option_map (Cid pref) (H pref b).

  (** validating_blockstore.go Get: whatever the backing store answers for [c];
      an error of Prefix().Sum is an error of Get — the bytes are NOT handed out *)
  Definition vget (backing : option B) (c : cid) : outcome B :=
    match backing with
    | None => ONotFound
    | Some b =>
        match sum (c_pref c) b with
        | None => OOther
        | Some c' => if cid_eqb c' c then OOk b else OHashMismatch
        end
    end.
End Hash.

(** ---------- filestore references ---------- *)
(** what is found at the referenced path when Get runs *)
Inductive fstate := FGone | FDir | FFile (content : bytes).
Inductive reader := RStd | RMmap.       (* newStdReader / WithMMapReader *)

Definition region (content : bytes) (off size : N) : bytes :=
  firstn (N.to_nat size) (skipn (N.to_nat off) content).

(** makeReader + ReadAt(outbuf[size], offset): the bytes, or the error class *)
Definition read_at (r : reader) (f : fstate) (off size : N) : bytes + status :=
  match f with
  | FGone => inr StFileNotFound                        (* os.IsNotExist *)
  | FDir =>
      match r with
      | RStd => if size =? 0 then inl [] else inr StFileError      (* read of a directory; an empty read succeeds *)
      | RMmap => inr StFileError                                    (* mmap of a directory fails *)
      end
  | FFile content =>
      let len := N.of_nat (length content) in
      match r with
      | RStd =>
          if size =? 0 then inl []                                  (* os.File.ReadAt with an empty buffer *)
          else if off + size <=? len then inl (region content off size)
          else inr StFileChanged                                    (* io.EOF / short read *)
      | RMmap =>
          if len <? off then inr StFileError                        (* "mmap: invalid ReadAt offset" *)
          else if off + size <=? len then inl (region content off size)
          else inr StFileChanged
      end
  end.

Section FsHash.
  Variable H : N -> bytes -> option bytes.

  (** readFileDataObj: the stored multihash is re-wrapped as CIDv1-raw, so only the
      hash function/length part of the prefix matters: [want] = (pref, digest) *)
  Definition fs_read (allow : bool) (r : reader) (f : fstate) (off size : N) (want : cid) : outcome bytes :=
    if negb allow then ONotEnabled else
    match read_at r f off size with
    | inr s => OCorrupt s
    | inl b =>
        match sum bytes H (c_pref want) b with
        | None => OOther                                   (* "return nil, err" of Prefix().Sum *)
        | Some c' => if cid_eqb c' want then OOk b else OCorrupt StFileChanged
        end
    end.

  (** readURLDataObj: the HTTP answer is (status code, body) *)
  Definition url_read (allow : bool) (code : N) (body : bytes) (size : N) (want : cid) : outcome bytes :=
    if negb allow then ONotEnabled else
    if negb ((code =? 200) || (code =? 206)) then OCorrupt StFileError else
    if N.of_nat (length body) <? size then OCorrupt StFileChanged           (* io.ReadFull: EOF / ErrUnexpectedEOF *)
    else
      let b := firstn (N.to_nat size) body in
      match sum bytes H (c_pref want) b with
      | None => OOther
      | Some c' => if cid_eqb c' want then OOk b else OCorrupt StFileChanged
      end.

  (** filestore.go Get: the main blockstore first, the reference on NotFound *)
  Definition filestore_get (main : option bytes) (ref : outcome bytes) : outcome bytes :=
    match main with Some b => OOk b | None => ref end.
End FsHash.

(** the Range header readURLDataObj sends: bytes=off-(off+size-1), in uint64 arithmetic *)
Definition two64 : N := 18446744073709551616.
Definition range_of (off size : N) : N * N := (off, (off + size + (two64 - 1)) mod two64).

(** ---------- correspondence ---------- *)
(** digests computed by the harness with an independent implementation:
    (prefix id, data) -> digest, or [None] when no digest exists for that prefix
    (unknown hash code, digest longer than the function delivers).  Data absent
    from the table hashes to [0xFFFF] (not a byte string, so it matches no
    digest). *)
Definition tab_lookup {B} (eqb : B -> B -> bool) (tab : list (N * B * option bytes)) (pref : N) (b : B)
  : option (option bytes) :=
  match find (fun e => (fst (fst e) =? pref) && eqb (snd (fst e)) b) tab with
  | Some e => Some (snd e)
  | None => None
  end.
Definition tab_hash {B} (eqb : B -> B -> bool) (tab : list (N * B * option bytes)) (pref : N) (b : B) : option bytes :=
  match tab_lookup eqb tab pref b with Some d => d | None => Some [65535] end.

Definition status_eqb (a b : status) : bool :=
  match a, b with
  | StFileError, StFileError | StFileNotFound, StFileNotFound | StFileChanged, StFileChanged => true
  | _, _ => false
  end.

Definition outcome_eqb {B} (eqb : B -> B -> bool) (a b : outcome B) : bool :=
  match a, b with
  | OOk x, OOk y => eqb x y
  | OHashMismatch, OHashMismatch | ONotFound, ONotFound | ONotEnabled, ONotEnabled | OOther, OOther => true
  | OCorrupt s, OCorrupt t => status_eqb s t
  | _, _ => false
  end.

(** A case written by the harness.
    - [CVal]: a ValidatingBlockstore over a backing store that holds [stored]
      (a block content, named by an interned id: equal ids = equal bytes) under
      the requested CID's key; [tab] holds the independent digests of every
      content that occurs.
    - [CFile]: a FileManager reference (offset, size) whose file is now in state
      [f]; read through FileManager.Get and through Filestore.Get (empty main
      blockstore): both outcomes.
    - [CUrl]: a URL reference answered by an HTTP server with (code, body); the
      Range header that arrived.
    - [CHeld]: a block that a Get (validating blockstore, FileManager, Filestore;
      file or URL reference) handed out was kept by the caller while further
      reads, failing reads of modified files, Verify / VerifyAll ran; [at_return]
      and [at_end] name (interned: equal ids = equal bytes) the bytes the caller's
      block held when it was returned and at the end of the history.  In the
      model an outcome [OOk b] is a value: nothing later changes it. *)
Inductive case :=
| CVal (want : cid) (stored : option N) (tab : list (N * N * option bytes)) (got : outcome N)
| CFile (allow : bool) (r : reader) (f : fstate) (off size : N) (want : cid)
        (tab : list (N * bytes * option bytes)) (got got_fs : outcome bytes)
| CUrl (allow : bool) (code : N) (body : bytes) (off size : N) (want : cid)
       (tab : list (N * bytes * option bytes)) (range : option (N * N)) (got got_fs : outcome bytes)
| CHeld (want : cid) (tab : list (N * N * option bytes)) (at_return at_end : N).

(** the specification: bytes are only handed out if they are KNOWN to hash to the
    requested CID — when no digest can be computed for the CID's prefix the answer
    must be an error *)
Definition sound {B} (eqb : B -> B -> bool) (tab : list (N * B * option bytes)) (want : cid) (got : outcome B) : bool :=
  match got with
  | OOk b => match tab_lookup eqb tab (c_pref want) b with
             | Some (Some d) => bytes_eqb d (c_digest want)
             | _ => false
             end
  | _ => true
  end.

(** ... and a reference whose file is gone, shrank below the region, or whose
    region no longer hashes to the CID is reported as corrupt *)
Definition fs_reported (tab : list (N * bytes * option bytes)) (r : reader) (f : fstate) (off size : N) (want : cid)
           (got : outcome bytes) : bool :=
  let bad :=
    match f with
    | FGone => true
    | FDir => negb (size =? 0)
    | FFile content =>
        if N.of_nat (length content) <? off + size then negb (size =? 0) || match r with RMmap => true | RStd => false end && (N.of_nat (length content) <? off)
        else match tab_hash bytes_eqb tab (c_pref want) (region content off size) with
             | Some d => negb (bytes_eqb d (c_digest want))
             | None => false          (* no digest computable: an error, but not a CorruptReferenceError *)
             end
    end in
  if bad then match got with OCorrupt _ => true | _ => false end else true.

Definition check_case (k : case) : verdict :=
  match k with
  | CVal want stored tab got =>
      verdict_of (outcome_eqb N.eqb (vget N (tab_hash N.eqb tab) stored want) got)
                 (sound N.eqb tab want got)
  | CFile allow r f off size want tab got got_fs =>
      let m := fs_read (tab_hash bytes_eqb tab) allow r f off size want in
      verdict_of (outcome_eqb bytes_eqb m got && outcome_eqb bytes_eqb (filestore_get None m) got_fs)
                 (sound bytes_eqb tab want got && sound bytes_eqb tab want got_fs &&
                  (if allow then fs_reported tab r f off size want got && fs_reported tab r f off size want got_fs else true))
  | CUrl allow code body off size want tab range got got_fs =>
      let m := url_read (tab_hash bytes_eqb tab) allow code body size want in
      verdict_of (outcome_eqb bytes_eqb m got && outcome_eqb bytes_eqb (filestore_get None m) got_fs &&
                  match range with
                  | Some (a, b) => (a =? fst (range_of off size)) && (b =? snd (range_of off size))
                  | None => negb allow
                  end)
                 (sound bytes_eqb tab want got && sound bytes_eqb tab want got_fs)
  | CHeld want tab at_return at_end =>
      (* model: the block is the value that was returned; spec: what the caller holds hashes to the CID *)
      verdict_of (at_return =? at_end) (sound N.eqb tab want (OOk at_end))
  end.
