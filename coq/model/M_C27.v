(** C27 — IPNS record selection (ipns/record.go compare, ipns/validation.go
    selectRecord / Validator.Select).

    A record is abstracted to exactly what the selection code reads from it:
      r_v2   : [pb.GetSignatureV2() != nil]  (protobuf field 8 present, even if empty)
      r_seq  : what the CBOR key "Sequence" holds as an int64 ([None] = [Sequence()]
               returns an error: key missing, not an int, or a CBOR unsigned above
               MaxInt64).  [Sequence()] converts it with [uint64(.)]: written out as
               the explicit two's-complement reinterpretation [u64].
      r_eol  : the instant [Validity()] returns, in nanoseconds since the Unix epoch
               ([None] = [Validity()] errors: validity type not EOL, not RFC3339, ...).
      r_raw  : the marshalled bytes handed to [Select] (tie-break by [bytes.Compare]).
    No proofs in this file. *)
From Coq Require Import List ZArith Bool.
From V Require Import lib.Verdict lib.Lex.
Import ListNotations.
Open Scope Z_scope.

Record rec := mkRec {
  r_v2 : bool;
  r_seq : option Z;
  r_eol : option Z;
  r_raw : list Z
}.

(** [uint64(x)] for an int64 [x] *)
Definition u64 (x : Z) : Z := x mod 18446744073709551616.

(** [bytes.Compare] *)
Definition bcmp (a b : list Z) : comparison := lex_list Z.compare a b.

(** record.go [compare]: [Some Gt] = +1 (a newer), [Some Lt] = -1, [Some Eq] = 0,
    [None] = error.  The order of the accessor calls (and so which error surfaces)
    is the code's. *)
Definition compare (a b : rec) : option comparison :=
  if r_v2 a && negb (r_v2 b) then Some Gt
  else if negb (r_v2 a) && r_v2 b then Some Lt
  else
    match r_seq a with
    | None => None
    | Some sa =>
      match r_seq b with
      | None => None
      | Some sb =>
        if u64 sa >? u64 sb then Some Gt
        else if u64 sa <? u64 sb then Some Lt
        else
          match r_eol a with
          | None => None
          | Some ta =>
            match r_eol b with
            | None => None
            | Some tb =>
              if ta >? tb then Some Gt          (* at.After(bt) *)
              else if tb >? ta then Some Lt     (* bt.After(at) *)
              else Some Eq
            end
          end
      end
    end.

(** one iteration of selectRecord's loop: compare, tie-break on the raw bytes *)
Definition cmp_tie (cur x : rec) : option comparison :=
  match compare cur x with
  | None => None
  | Some Eq => Some (bcmp (r_raw cur) (r_raw x))
  | Some c => Some c
  end.

(** the loop [for j := 1; j < len; j++]; [i] = index of the current best [cur] *)
Fixpoint scan (cur : rec) (i j : nat) (l : list rec) : option nat :=
  match l with
  | [] => Some i
  | x :: r =>
      match cmp_tie cur x with
      | None => None
      | Some Lt => scan x j (S j) r
      | Some _ => scan cur i (S j) r
      end
  end.

(** selectRecord: [None] = (-1, error) *)
Definition select (l : list rec) : option nat :=
  match l with
  | [] => None                 (* "no usable records in given set" *)
  | [_] => Some O              (* case 1: no comparison at all *)
  | x :: r => scan x 0 1 r
  end.

(** ---------- specification ---------- *)
(** a record whose sequence number and expiry are defined *)
Definition wfb (r : rec) : bool :=
  match r_seq r, r_eol r with Some _, Some _ => true | _, _ => false end.

(** the order of the property: (has v2 signature, sequence number, expiry), ties
    broken by the record bytes — a lexicographic product *)
Definition key : Type := bool * (Z * (Z * list Z)).
Definition key_of (r : rec) : key :=
  (r_v2 r, (u64 (match r_seq r with Some s => s | None => 0 end),
            (match r_eol r with Some t => t | None => 0 end, r_raw r))).
Definition kcmp : key -> key -> comparison :=
  lex_pair bool_cmp (lex_pair Z.compare (lex_pair Z.compare (lex_list Z.compare))).

Definition maximal_in (m : rec) (l : list rec) : bool :=
  forallb (fun x => match kcmp (key_of x) (key_of m) with Gt => false | _ => true end) l.

(** ---------- correspondence cases ---------- *)
(** what [Validator.Select] answered: an index, or an error *)
Inductive obs := OIdx (i : nat) | OErr.

(** Cases:
    [CSel recs perms obs]: a multiset of records (with the generator's ground truth
      for each record's key), a list of orders in which it was handed to [Select]
      (lists of indices into [recs]) and what [Select] returned for each order.
    [CAcc r seq eol]: the generator's ground truth [r] for one record next to what
      the public accessors [Sequence()] (a uint64) and [Validity()] (instant in ns)
      of the unmarshalled record returned ([None] = error) — ties "sequence number"
      and "expiry" of the model's key to the code's accessors. *)
Inductive case :=
| CSel (c_recs : list rec) (c_perms : list (list nat)) (c_obs : list obs)
| CAcc (r : rec) (seq : option Z) (eol : option Z).

Definition dummy : rec := mkRec false None None [].
Definition permute (recs : list rec) (p : list nat) : list rec :=
  map (fun i => nth i recs dummy) p.

Definition obs_eqb (m : option nat) (o : obs) : bool :=
  match m, o with
  | Some i, OIdx j => Nat.eqb i j
  | None, OErr => true
  | _, _ => false
  end.

Fixpoint zlist_eqb (a b : list Z) : bool :=
  match a, b with
  | [], [] => true
  | x :: r, y :: s => (x =? y) && zlist_eqb r s
  | _, _ => false
  end.

(** raw bytes selected under order [p] with observation [o] *)
Definition selected_raw (recs : list rec) (p : list nat) (o : obs) : option (list Z) :=
  match o with
  | OIdx i => if Nat.ltb i (length p) then Some (r_raw (nth i (permute recs p) dummy)) else None
  | OErr => None
  end.

Definition opt_raw_eqb (a b : option (list Z)) : bool :=
  match a, b with
  | Some x, Some y => zlist_eqb x y
  | _, _ => false
  end.

Fixpoint all2 {A B} (f : A -> B -> bool) (l : list A) (l' : list B) : bool :=
  match l, l' with
  | [], [] => true
  | a :: r, b :: r' => f a b && all2 f r r'
  | _, _ => false
  end.

Definition optZ_eqb (a b : option Z) : bool :=
  match a, b with
  | Some x, Some y => x =? y
  | None, None => true
  | _, _ => false
  end.

Definition check_case (c : case) : verdict :=
  match c with
  | CAcc r seq eol =>
      verdict_of (optZ_eqb (option_map u64 (r_seq r)) seq && optZ_eqb (r_eol r) eol) true
  | CSel recs perms obs =>
  let model_ok := all2 (fun p o => obs_eqb (select (permute recs p)) o) perms obs in
  (* the property speaks about records that have a sequence number and an expiry *)
  let applicable := forallb wfb recs && negb (Nat.eqb (length recs) 0) in
  let spec_ok :=
    if applicable then
      match perms, obs with
      | p0 :: _, o0 :: _ =>
          let first := selected_raw recs p0 o0 in
          all2 (fun p o =>
                  match o with
                  | OIdx i =>
                      Nat.ltb i (length p) &&
                      maximal_in (nth i (permute recs p) dummy) recs &&
                      opt_raw_eqb (selected_raw recs p o) first
                  | OErr => false
                  end) perms obs
      | _, _ => true
      end
    else true in
  verdict_of model_ok spec_ok
  end.
