(** C37 — the bitswap client's request path
    (bitswap/client/internal/getter/getter.go AsyncGetBlocks + handleIncoming,
     bitswap/client/internal/notifications/notifications.go Subscribe/Publish over
     cskr/pubsub AddSubOnceEach, and the session's want bookkeeping reached through the
     want / cancel callbacks: session.go opWant / opCancel / handleReceive).

    Keys are small ids.  A request subscribes once to each DISTINCT key; a published block
    reaches every open subscription that still waits for its key, which then drops the key;
    when no key is left the output channel is closed and the cancel callback is called with
    the (empty) remaining set; on cancellation it is called with the keys not yet received.
    A session keeps one set of live wants; the node's want-list is the union over sessions.

    Defect switch ([true] = what the code does):
      f_shared_cancel   a request's cancel callback removes its remaining keys from the session's
                        wants even when another open request of the SAME session still waits
                        for them (that request then never gets the block)            (C37-1)
    No proofs in this file. *)
From Coq Require Import List Bool Arith NArith.
From V Require Import lib.Verdict.
Import ListNotations.

Definition nmem (k : nat) (s : list nat) : bool := existsb (Nat.eqb k) s.
Definition nrem (k : nat) (s : list nat) : list nat := filter (fun x => negb (x =? k)) s.
Fixpoint dedup (l : list nat) : list nat :=
  match l with [] => [] | x :: r => x :: nrem x (dedup r) end.
Definition ndiff (a b : list nat) : list nat := filter (fun x => negb (nmem x b)) a.

(** ---------- one request (getter + subscription) ---------- *)
Record req := {
  q_sess : nat;              (* session the request belongs to *)
  q_keys : list nat;         (* keys as given by the caller (duplicates allowed) *)
  q_sub : list nat;          (* keys still subscribed = the getter's [remaining] set *)
  q_out : list nat;          (* blocks written to the output channel, in order *)
  q_done : bool;             (* output channel closed *)
  q_cb : option (list nat) }. (* argument of the cancel callback, once called *)

Definition start (sess : nat) (ks : list nat) : req :=
  {| q_sess := sess; q_keys := ks; q_sub := dedup ks; q_out := [];
     q_done := match ks with [] => true | _ => false end; q_cb := None |}.

Definition arrive (k : nat) (r : req) : req :=
  if q_done r then r
  else if nmem k (q_sub r) then
    let sub' := nrem k (q_sub r) in
    {| q_sess := q_sess r; q_keys := q_keys r; q_sub := sub'; q_out := q_out r ++ [k];
       q_done := match sub' with [] => true | _ => false end;
       q_cb := match sub' with [] => Some [] | _ => None end |}
  else r.

Definition cancel (r : req) : req :=
  if q_done r then r
  else {| q_sess := q_sess r; q_keys := q_keys r; q_sub := q_sub r; q_out := q_out r;
          q_done := true; q_cb := Some (q_sub r) |}.

(** unit level: several requests on one PubSub *)
Inductive uev := UPub (k : nat) | UCancel (i : nat).

Fixpoint upd {A} (l : list A) (i : nat) (f : A -> A) : list A :=
  match l, i with
  | [], _ => []
  | a :: r, O => f a :: r
  | a :: r, S j => a :: upd r j f
  end.

Definition ustep (rs : list req) (e : uev) : list req :=
  match e with
  | UPub k => map (arrive k) rs
  | UCancel i => upd rs i cancel
  end.
Definition urun (rs : list req) (evs : list uev) : list req := fold_left ustep evs rs.

(** ---------- a node: sessions' live wants ---------- *)
Record node := {
  n_reqs : list req;
  n_sw : list (nat * list nat);     (* session -> live wants *)
  n_stale : list nat }.             (* wants registered with the peers that no session tracks *)

Fixpoint sw_get (sw : list (nat * list nat)) (s : nat) : list nat :=
  match sw with [] => [] | (s', l) :: r => if s' =? s then l else sw_get r s end.
Fixpoint sw_set (sw : list (nat * list nat)) (s : nat) (l : list nat) : list (nat * list nat) :=
  match sw with
  | [] => [(s, l)]
  | (s', l') :: r => if s' =? s then (s, l) :: r else (s', l') :: sw_set r s l
  end.
Definition nunion (a b : list nat) : list nat := a ++ ndiff b a.
Definition wantlist (n : node) : list nat :=
  dedup (flat_map (fun sl => sw_get (n_sw n) (fst sl)) (n_sw n) ++ n_stale n).

Inductive nev :=
| NStart (sess : nat) (ks : list nat)     (* session.GetBlocks: subscribe, then opWant *)
| NBlock (k : nat)                        (* a block for k reaches the node *)
| NCancel (i : nat)                       (* the context of request i is cancelled *)
| NTick                                   (* time passes: idle ticks / periodic searches of the sessions fire *)
| NLate (k : nat).                        (* the session want sender sends a want-block for k that it
                                             computed before k was received (C37-2); only with [f_late_want] *)

(** keys other open requests of the same session still wait for *)
Fixpoint others_wait (rs : list req) (skip i : nat) (sess : nat) : list nat :=
  match rs with
  | [] => []
  | r :: rest =>
      (if (negb (i =? skip)) && (q_sess r =? sess) && negb (q_done r) then q_sub r else [])
      ++ others_wait rest skip (S i) sess
  end.

Record flags := { f_shared_cancel : bool; f_late_want : bool }.
Definition flags_off := {| f_shared_cancel := false; f_late_want := false |}.

Definition nstep (fl : flags) (n : node) (e : nev) : node :=
  let shared_cancel := f_shared_cancel fl in
  match e with
  | NStart s ks =>
      {| n_reqs := n_reqs n ++ [start s ks];
         n_sw := match ks with [] => n_sw n | _ => sw_set (n_sw n) s (nunion (sw_get (n_sw n) s) (dedup ks)) end;
         n_stale := n_stale n |}
  | NBlock k =>
      if nmem k (wantlist n)                     (* unwanted blocks are dropped, not published *)
      then {| n_reqs := map (arrive k) (n_reqs n);
              n_sw := map (fun sl => (fst sl, nrem k (snd sl))) (n_sw n);
              n_stale := n_stale n |}
      else n
  | NTick => n                                   (* re-broadcasts concern live wants only *)
  | NLate k =>
      if f_late_want fl && negb (nmem k (wantlist n))
      then {| n_reqs := n_reqs n; n_sw := n_sw n; n_stale := k :: n_stale n |}
      else n
  | NCancel i =>
      match nth_error (n_reqs n) i with
      | None => n
      | Some r =>
          if q_done r then n
          else
            let s := q_sess r in
            let gone := if shared_cancel then q_sub r else ndiff (q_sub r) (others_wait (n_reqs n) i 0 s) in
            {| n_reqs := upd (n_reqs n) i cancel; n_sw := sw_set (n_sw n) s (ndiff (sw_get (n_sw n) s) gone);
               n_stale := n_stale n |}
      end
  end.
Definition node0 : node := {| n_reqs := []; n_sw := []; n_stale := [] |}.
Definition nrun (f : flags) (n : node) (evs : list nev) : node := fold_left (nstep f) evs n.
Fixpoint ntrace (f : flags) (n : node) (evs : list nev) : list (list nat) :=
  match evs with
  | [] => []
  | e :: r => let n' := nstep f n e in wantlist n' :: ntrace f n' r
  end.

(** ---------- specification ---------- *)
Fixpoint nodupb (l : list nat) : bool :=
  match l with [] => true | x :: r => negb (nmem x r) && nodupb r end.
Definition subsetb (a b : list nat) : bool := forallb (fun x => nmem x b) a.
Definition seteqb (a b : list nat) : bool := subsetb a b && subsetb b a.

(** what one request may deliver: each distinct requested key at most once, nothing else *)
Definition delivered_ok (keys out : list nat) : bool := nodupb out && subsetb out keys.

(** a starving request: open, waits for a key the node no longer asks for *)
Definition starving (n : node) : bool :=
  existsb (fun r => negb (q_done r) && negb (subsetb (q_sub r) (sw_get (n_sw n) (q_sess r)))) (n_reqs n).
(** leaked wants: a session want no open request of that session waits for *)
Definition leaking (n : node) : bool :=
  existsb (fun sl => negb (subsetb (sw_get (n_sw n) (fst sl))
                                   (others_wait (n_reqs n) (length (n_reqs n)) 0 (fst sl)))) (n_sw n) ||
  match n_stale n with [] => false | _ => true end.

(** keys that open requests still wait for *)
Definition awaited (n : node) : list nat :=
  flat_map (fun r => if q_done r then [] else q_sub r) (n_reqs n).

(** every observed want-list holds only keys that an open request waits for ("after the request
    completes or its context is cancelled the want-list no longer contains those CIDs"), at every
    point at which the harness looked, ticks included *)
Fixpoint obs_within (late : list nat) (n : node) (eos : list (nev * option (list nat))) : bool :=
  match eos with
  | [] => true
  | (e, o) :: rest =>
      let n' := nstep flags_off n e in
      match o with Some l => subsetb (ndiff l late) (awaited n') | None => true end && obs_within late n' rest
  end.

(** ---------- cases ---------- *)
Fixpoint sortn (l : list nat) : list nat :=
  let fix ins (x : nat) (l : list nat) :=
    match l with [] => [x] | y :: r => if x <=? y then x :: l else y :: ins x r end in
  match l with [] => [] | x :: r => ins x (sortn r) end.
Fixpoint list_eqb {A B} (eqb : A -> B -> bool) (l1 : list A) (l2 : list B) : bool :=
  match l1, l2 with
  | [], [] => true
  | a :: r1, b :: r2 => eqb a b && list_eqb eqb r1 r2
  | _, _ => false
  end.
Definition nl_eqb := list_eqb Nat.eqb.
Definition optl_eqb (a b : option (list nat)) : bool :=
  match a, b with
  | None, None => true
  | Some x, Some y => nl_eqb (sortn x) (sortn y)
  | _, _ => false
  end.

(** observation of one request at unit level: output, closed?, cancel-callback argument,
    and the keys handed to the want callback *)
Record uobs := { uo_out : list nat; uo_closed : bool; uo_cb : option (list nat); uo_want : list nat }.

(** observation of one request at system level *)
Record sreq := {
  s_node : nat; s_sess : nat; s_keys : list nat; s_out : list nat;
  s_cancelled : bool;        (* the harness cancelled the context before the channel closed *)
  s_closed : bool;           (* the output channel was closed in the end *)
  s_avail : bool }.          (* every key is held by some other connected node *)

Inductive case :=
(* several requests on one real PubSub driven by AsyncGetBlocks; [evs] in the order executed *)
| CUnit (reqs : list (list nat)) (evs : list uev) (obs : list uobs)
(* one node driven through a sequenced history; where the harness waited for the node to
   settle, the want-list it then observed; what each request delivered in the end; and [late]: keys
   that the harness saw come back as want-BLOCKs (GetWantBlocks) after they had been received or
   cancelled - the want sender's late want of C37-2; a re-broadcast want-have is not one of these *)
| CNode (evs : list (nev * option (list nat))) (outs : list (list nat)) (late : list nat)
(* a virtual network run: requests with their outcome, final want-list of every node *)
| CSys (reqs : list sreq) (final_wl : list (list nat))
(* a lagging reader: a request for [keys0] whose output channel is not read while [pubs] are published
   (it is drained afterwards unless [cancelled0]); meanwhile the [others] (keys, delivered) - requests on
   the same PubSub / node whose keys are all published and which are read with a deadline - must be served *)
| CLag (keys0 pubs out0 : list nat) (cancelled0 : bool) (others : list (list nat * list nat)).

Definition ureq_eqb (r : req) (o : uobs) : bool :=
  nl_eqb (q_out r) (uo_out o) && Bool.eqb (q_done r) (uo_closed o) && optl_eqb (q_cb r) (uo_cb o) &&
  nl_eqb (q_keys r) (uo_want o).

Definition uspec (keys : list nat) (o : uobs) : bool :=
  delivered_ok keys (uo_out o) &&
  match uo_cb o with
  | Some l => uo_closed o && seteqb l (ndiff (dedup keys) (uo_out o))
  | None => match keys with [] => uo_closed o | _ => negb (uo_closed o) end
  end.

(** a request shares a key and a session with a cancelled request of the same node *)
Definition shares_cancelled (rs : list sreq) (r : sreq) : bool :=
  existsb (fun r' => s_cancelled r' && (s_node r' =? s_node r) && (s_sess r' =? s_sess r) &&
                     existsb (fun k => nmem k (s_keys r)) (s_keys r')) rs.

Definition sys_safe (r : sreq) : bool := delivered_ok (s_keys r) (s_out r) && s_closed r.
Definition sys_complete (r : sreq) : bool := seteqb (s_out r) (dedup (s_keys r)).
Definition sys_live (r : sreq) : bool := s_cancelled r || negb (s_avail r) || sys_complete r.

(** what may be left in the want-lists at the end because of C37-2 (a want sent by the session
    want sender after the session cancelled the key, on receipt or on cancellation): keys that
    some request of that node asked for.  Anything else in a final want-list is a failure. *)
Fixpoint leaks_known (rs : list sreq) (n : nat) (wl : list (list nat)) : bool :=
  match wl with
  | [] => true
  | l :: rest =>
      forallb (fun k => existsb (fun r => (s_node r =? n) && nmem k (s_keys r)) rs) l &&
      leaks_known rs (S n) rest
  end.

(** C37-3: every key that request number [i] did not get is also asked for by ANOTHER request of the
    same node (any session).  The client sends a broadcast want-have for a key once for all sessions; when
    the peer's answer to the earlier request is dropped or consumed, the later request's identical want is
    not sent again before the message queue's periodic rebroadcast. *)
Fixpoint covered_by_other (rs : list sreq) (skip i : nat) (n k : nat) : bool :=
  match rs with
  | [] => false
  | r :: rest =>
      (negb (i =? skip) && (s_node r =? n) && nmem k (s_keys r)) || covered_by_other rest skip (S i) n k
  end.
Fixpoint live_or_overlap (all rs : list sreq) (i : nat) : bool :=
  match rs with
  | [] => true
  | r :: rest =>
      (sys_live r ||
       forallb (fun k => nmem k (s_out r) || covered_by_other all i 0 (s_node r) k) (s_keys r)) &&
      live_or_overlap all rest (S i)
  end.

Definition check_case (c : case) : verdict :=
  match c with
  | CUnit reqs evs obs =>
      let rs := urun (map (start 0) reqs) evs in
      verdict_of (list_eqb ureq_eqb rs obs)
                 (list_eqb (fun k o => uspec k o) reqs obs)
  | CNode eos outs late =>
      let evs := map fst eos in
      let f1 := {| f_shared_cancel := true; f_late_want := false |} in
      let spec := fun f => let n := nrun f node0 evs in negb (starving n) && negb (leaking n) in
      let same := fun f =>
        list_eqb (fun w o => match o with
                             | Some l => nl_eqb (sortn (ndiff w late)) (sortn (ndiff l late))
                             | None => true
                             end)
                 (ntrace f node0 evs) (map snd eos) &&
        list_eqb (fun r o => nl_eqb (sortn (q_out r)) (sortn o)) (n_reqs (nrun f node0 evs)) outs in
      let asked := flat_map (fun e => match e with NStart _ ks => ks | _ => [] end) evs in
      let known2 := fun v => match late, v with [], _ => v | _, VOk => VKnown 2 | _, _ => v end in
      if negb (obs_within late node0 eos) || negb (subsetb late asked) then VSpecFail
      else if same flags_off then known2 (verdict_of true (spec flags_off))
      else if same f1 then known2 (if spec f1 then VOk else if spec flags_off then VKnown 1 else VSpecFail)
      else VModelMismatch
  | CSys reqs wl =>
      let safe := forallb sys_safe reqs in
      let live_ok := forallb sys_live reqs in
      let live_known := forallb (fun r => sys_live r || shares_cancelled reqs r) reqs in
      let wl_ok := forallb (fun l => match l with [] => true | _ => false end) wl in
      if negb safe then VSpecFail
      else if live_ok && wl_ok then VOk
      else if live_ok && leaks_known reqs 0 wl then VKnown 2
      else if live_known && leaks_known reqs 0 wl then VKnown 1
      else if live_or_overlap reqs reqs 0 && leaks_known reqs 0 wl then VKnown 3
      else VSpecFail
  | CLag keys0 pubs out0 cancelled0 others =>
      (* delivery: every other request got each of its keys (once); the lagging one, once drained, too *)
      let spec :=
        delivered_ok keys0 out0 && (cancelled0 || seteqb out0 (dedup keys0)) &&
        forallb (fun ko => delivered_ok (fst ko) (snd ko) && seteqb (snd ko) (dedup (fst ko))) others in
      let model := cancelled0 || nl_eqb (q_out (fold_left (fun r k => arrive k r) pubs (start 0 keys0))) out0 in
      verdict_of model spec
  end.
