(** C31 — trustless gateway responses (CAR) are verifiable and sufficient.

    Executable model of WHICH BLOCKS the gateway puts into a CAR response, transcribed from

      gateway/backend_blocks.go   GetCAR (path resolution through a block getter that records every block it
                                  hands out, CAR root = resolved terminal CID, AllowDuplicatePuts(dups)),
                                  walkGatewaySimpleSelector (dag-scope block / entity / all, the entity-bytes
                                  arithmetic: from/to relative to the end, numToRead = 1 + to - from)
      path/resolver/resolver.go   ResolveToLastNode (loads every directory block on the path, HAMT shards on
                                  the way to the entry; the terminal block itself is loaded by the walk)
      go-unixfsnode file/shard.go makeReader (children that end before the offset are skipped without being
                                  loaded, the others are loaded when the read reaches them),
                                  hamt/shardeddir.go NewUnixFSHAMTShardWithPreload (all shards of the directory)

    A UnixFS DAG is a rose tree whose nodes are blocks; block ids are small numbers the harness assigns to CIDs.
    The hash function is outside: the harness re-hashes every block of the response and reports the result.
    No proofs in this file. *)
From Coq Require Import List ZArith Bool.
From V Require Import lib.Verdict.
Import ListNotations.
Open Scope Z_scope.

Inductive kind :=
| KRaw      (* raw-codec block: file bytes *)
| KLeaf     (* dag-pb block, UnixFS File/Raw without links: file bytes inline *)
| KFile     (* dag-pb block, UnixFS File with links: kids = the linked file nodes in order *)
| KDir      (* dag-pb block, UnixFS Directory: kids = the entries (their [name]s) *)
| KShard.   (* dag-pb block, UnixFS HAMTShard: kids = sub-shards (name -1) and entries (name >= 0) *)

(** [name]: the name under which the parent directory links to this block (-1 for sub-shards and file-internal
    blocks); [len]: number of file bytes in a KRaw/KLeaf block (ignored otherwise) *)
Inductive node := Nd (k : kind) (id name len : Z) (kids : list node).

Definition nid (t : node) : Z := match t with Nd _ i _ _ _ => i end.
Definition nname (t : node) : Z := match t with Nd _ _ n _ _ => n end.
Definition nkind (t : node) : kind := match t with Nd k _ _ _ _ => k end.
Definition nkids (t : node) : list node := match t with Nd _ _ _ _ l => l end.

Fixpoint zsum (l : list Z) : Z := match l with [] => 0 | x :: r => x + zsum r end.

(** file size below a block (what the parent records as the block size) *)
Fixpoint size (t : node) : Z :=
  match t with
  | Nd KRaw _ _ len _ | Nd KLeaf _ _ len _ => len
  | Nd KFile _ _ _ kids => zsum (map size kids)
  | Nd _ _ _ _ _ => 0
  end.

(** every block below (dag-scope=all) *)
Fixpoint ids_all (t : node) : list Z :=
  match t with Nd _ i _ _ kids => i :: flat_map ids_all kids end.

Definition is_sub (t : node) : bool :=
  match t with Nd KShard _ n _ _ => n <? 0 | _ => false end.

(** the shards of one HAMT directory (not the blocks its entries point to) *)
Fixpoint shard_ids (t : node) : list Z :=
  match t with
  | Nd _ i _ _ kids => i :: flat_map (fun c => if is_sub c then shard_ids c else []) kids
  end.

(** the blocks a read of the file bytes [lo, hi) touches: the root block always, a child block iff its span
    [off, off + size) meets a non-empty [lo, hi) *)
Definition meets (lo hi off sz : Z) : bool := (lo <? hi) && (off <? hi) && (lo <? off + sz).

Fixpoint covering (lo hi base : Z) (t : node) : list Z :=
  match t with
  | Nd k i _ _ kids =>
      i :: match k with
           | KFile =>
               (fix go (l : list node) (off : Z) : list Z :=
                  match l with
                  | [] => []
                  | c :: r => (if meets lo hi off (size c) then covering lo hi off c else []) ++ go r (off + size c)
                  end) kids base
           | _ => []
           end
  end.

(** ---------- path resolution ---------- *)
(** the entry [nm] of a directory block: (shards loaded below the directory's root block, target) *)
Fixpoint find_ent (nm : Z) (t : node) : option (list Z * node) :=
  match t with
  | Nd k _ _ _ kids =>
      match k with
      | KDir | KShard =>
          (fix go (l : list node) : option (list Z * node) :=
             match l with
             | [] => None
             | c :: r =>
                 if is_sub c then
                   match find_ent nm c with
                   | Some (p, x) => Some (nid c :: p, x)
                   | None => go r
                   end
                 else if nname c =? nm then Some ([], c) else go r
             end) kids
      | _ => None
      end
  end.

(** (blocks the resolver loads, terminal block) *)
Fixpoint resolve (path : list Z) (t : node) : option (list Z * node) :=
  match path with
  | [] => Some ([], t)
  | nm :: rest =>
      match find_ent nm t with
      | None => None
      | Some (p, c) =>
          match resolve rest c with
          | None => None
          | Some (q, x) => Some (nid t :: p ++ q, x)
          end
      end
  end.

(** ---------- entity-bytes ---------- *)
Inductive nres :=
| NErr                              (* "tried to read less than zero bytes": the stream ends with an error *)
| NRead (from : Z) (cnt : option Z).   (* Seek(from); copy cnt bytes (None: until EOF) *)

(** walkGatewaySimpleSelector, case Data_File; [rng] = (From, To), None = no entity-bytes parameter *)
Definition norm (fsize : Z) (rng : option (Z * option Z)) : nres :=
  match rng with
  | None => NRead 0 None
  | Some (f, t) =>
      let from := if f <? 0 then Z.max (fsize + f) 0 else f in
      match t with
      | None => NRead from None
      | Some t0 =>
          let to := if t0 <? 0 then fsize + t0 else t0 in
          let num := 1 + to - from in
          if num <? 0 then NErr else NRead from (Some num)
      end
  end.

Definition read_ids (t : node) (r : nres) : list Z :=
  match r with
  | NErr => [nid t]
  | NRead from None => covering from (Z.max from (size t)) 0 t
  | NRead from (Some n) => covering from (from + n) 0 t
  end.

Inductive scope := SBlock | SEntity | SAll.

Record creq := {
  c_path : list Z;                      (* entry names below the root CID *)
  c_scope : scope;
  c_range : option (Z * option Z);      (* entity-bytes *)
  c_dups : bool;
  (* gateway configuration and the rest of the request *)
  c_limit : Z;                          (* Config.MaxUnixFSDAGResponseSize, 0 = off *)
  c_hsize : Z;                          (* size of the terminal entity as backend.Head reports it: file bytes, or the
                                           cumulative DAG size of a directory (taken from the harness for directories) *)
  c_badparam : bool                     (* a dag-scope / car-order / car-dups / car-version value or an entity-bytes
                                           string the handler does not accept *)
}.

Definition entity_ids (t : node) (rng : option (Z * option Z)) : list Z :=
  match nkind t with
  | KRaw | KDir => [nid t]
  | KLeaf | KFile => read_ids t (norm (size t) rng)
  | KShard => shard_ids t
  end.

Definition scope_ids (t : node) (rq : creq) : list Z :=
  match c_scope rq with
  | SBlock => [nid t]
  | SEntity => entity_ids t (c_range rq)
  | SAll => ids_all t
  end.

(** every block the response contains (as a set) *)
Definition needed (w : node) (rq : creq) : option (list Z) :=
  match resolve (c_path rq) w with
  | None => None
  | Some (p, t) => Some (p ++ scope_ids t rq)
  end.

(** does the stream end with an error? *)
Definition stream_err (w : node) (rq : creq) : bool :=
  match resolve (c_path rq) w with
  | Some (_, t) =>
      match c_scope rq, nkind t with
      | SEntity, KLeaf | SEntity, KFile =>
          match norm (size t) (c_range rq) with NErr => true | _ => false end
      | _, _ => false
      end
  | None => false
  end.

(** ---------- specification ---------- *)
(** the byte positions an entity-bytes parameter asks for (trustless gateway spec: From/To relative to the end
    when negative, To inclusive, absent To = until the end) *)
Definition sem_lo (fsize f : Z) : Z := if f <? 0 then fsize + f else f.
Definition sem_hi (fsize : Z) (t : option Z) : Z :=      (* exclusive *)
  match t with None => fsize | Some t0 => (if t0 <? 0 then fsize + t0 else t0) + 1 end.
Definition in_sem (fsize : Z) (rng : option (Z * option Z)) (p : Z) : bool :=
  (0 <=? p) && (p <? fsize) &&
  match rng with None => true | Some (f, t) => (sem_lo fsize f <=? p) && (p <? sem_hi fsize t) end.

(** the blocks needed to verify the requested bytes of a file: those whose span contains a requested position *)
Definition required_file (t : node) (rng : option (Z * option Z)) : list Z :=
  match rng with
  | None => covering 0 (size t) 0 t
  | Some (f, to) => covering (Z.max (sem_lo (size t) f) 0) (Z.min (sem_hi (size t) to) (size t)) 0 t
  end.

Definition required_scope (t : node) (rq : creq) : list Z :=
  match c_scope rq with
  | SBlock => [nid t]
  | SAll => ids_all t
  | SEntity =>
      match nkind t with
      | KRaw | KDir => [nid t]
      | KLeaf | KFile => required_file t (c_range rq)
      | KShard => shard_ids t
      end
  end.

Definition required (w : node) (rq : creq) : option (list Z) :=
  match resolve (c_path rq) w with
  | None => None
  | Some (p, t) => Some (p ++ required_scope t rq)
  end.

Fixpoint memZ (x : Z) (l : list Z) : bool :=
  match l with [] => false | y :: r => if x =? y then true else memZ x r end.
Definition subset (a b : list Z) : bool := forallb (fun x => memZ x b) a.
Fixpoint nodupb (l : list Z) : bool :=
  match l with [] => true | x :: r => negb (memZ x r) && nodupb r end.

(** what the harness saw: HTTP status, the CAR root (block id, -1 = not a block of the world), the blocks of the
    CAR in order, whether every block's bytes hash to its CID, whether the stream ended with an error *)
Record cobs := {
  o_status : Z; o_root : Z; o_blocks : list Z; o_hashes : bool; o_err : bool
}.

Definition term_id (w : node) (rq : creq) : Z :=
  match resolve (c_path rq) w with Some (_, t) => nid t | None => -1 end.

Definition spec_ok (w : node) (rq : creq) (o : cobs) : bool :=
  match required w rq with
  | None => false
  | Some req =>
      (o_status o =? 200) && o_hashes o && (o_root o =? term_id w rq) &&
      forallb (fun x => 0 <=? x) (o_blocks o) &&
      subset req (o_blocks o) &&
      (c_dups rq || nodupb (o_blocks o)) &&
      (* an error at the end of the stream is acceptable only when no byte was asked for *)
      (negb (o_err o) ||
       match resolve (c_path rq) w with
       | Some (_, t) => subset (required_scope t rq) [nid t]
       | None => false
       end)
  end.

Definition model_ok (w : node) (rq : creq) (o : cobs) : bool :=
  match needed w rq with
  | None => false
  | Some l =>
      (o_status o =? 200) && (o_root o =? term_id w rq) &&
      subset l (o_blocks o) && subset (o_blocks o) l && Bool.eqb (o_err o) (stream_err w rq)
  end.

(** NewDagByteRange rejects from > to when both have the same sign *)
Definition range_bad (rng : option (Z * option Z)) : bool :=
  match rng with
  | Some (f, Some t) => ((0 <=? f) && (0 <=? t) && (t <? f)) || ((f <? 0) && (t <? 0) && (t <? f))
  | _ => false
  end.

(** serveCAR before any block is sent: buildCarParams (400), then, when MaxUnixFSDAGResponseSize is set, the Head
    pre-check (410 when the content is larger than the limit); a limit that is not exceeded changes nothing *)
Definition expected_status (rq : creq) : Z :=
  if c_badparam rq || range_bad (c_range rq) then 400
  else if (0 <? c_limit rq) && (c_limit rq <? c_hsize rq) then 410
  else 200.

(** for file terminals the size Head reports is the file size of the tree *)
Definition hsize_ok (w : node) (rq : creq) : bool :=
  match resolve (c_path rq) w with
  | Some (_, t) => match nkind t with KRaw | KLeaf | KFile => c_hsize rq =? size t | _ => true end
  | None => false
  end.

Inductive case := Case (w : node) (rq : creq) (o : cobs).

Definition check_case (c : case) : verdict :=
  match c with
  | Case w rq o =>
      let st := expected_status rq in
      if st =? 200 then verdict_of (model_ok w rq o && hsize_ok w rq) (spec_ok w rq o)
      else verdict_of (hsize_ok w rq) ((o_status o =? st) && match o_blocks o with [] => true | _ => false end)
  end.
