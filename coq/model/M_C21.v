(** C21 — MFS republisher (mfs/repub.go): labelled transition system of the
    [Republisher] and its clients.  No proofs in this file.

    The atomic steps are the code's: a client call of [Update] (drain-and-replace
    on the 1-slot channel = "the slot holds the latest value", single updater), a
    client entering [WaitPub], a WaitPub context expiring, and the branches of the
    [run] loop's select:
      ERecv    case newValue := <-rp.update   (duplicate of lastPublished: forget the
                                               pending value, stop timers, notify;
                                               else arm timers and remember it)
      EImm w   case waiter = <-immediatePublish (only while immediatePublish is enabled;
                                               grabs the slot, drops a duplicate)
      EQuick / ELong   timer channels
    each followed by the cleanup block (stop both timers), and, when there is a
    value to publish, the call of the user's publish function, during which the
    loop is blocked ([pubbing]) and clients keep running:
      EPubOk   pubfunc returned nil   (lastPublished := value, re-enable immediate, notify)
      EPubFail pubfunc returned error (re-arm long timer, DISABLE immediate, keep waiter)
      ECloseRet  Close: after its WaitPub, cancel; the loop stops.
    Timers may fire at any moment while armed: the LTS is timing-agnostic.

    Values are CIDs ([Z], 0 = cid.Undef).  Ghost fields (not in the code) carry the
    update index of every value, so the theorems can talk about "older/newer". *)
From Coq Require Import List ZArith Bool NArith Arith.
From V Require Import lib.Verdict.
Import ListNotations.

Definition val := (nat * Z)%type.          (* (update index, cid) *)

Record st := mk {
  slot : option val;        (* rp.update (capacity 1) *)
  topub : option val;       (* toPublish *)
  lastpub : Z;              (* lastPublished *)
  waiter : option nat;      (* waiter (id of the WaitPub call) *)
  imm : bool;               (* immediatePublish != nil *)
  quick : bool;             (* quick timer armed *)
  long : bool;              (* longer timer armed *)
  pubbing : bool;           (* the loop is inside pubfunc(toPublish) *)
  stopped : bool;           (* run returned *)
  pending : list nat;       (* WaitPub calls blocked on the immediatePublish send *)
  released : list nat;      (* WaitPub calls whose wait channel was closed *)
  (* ghost *)
  nupd : nat;               (* number of Update calls so far *)
  hist : list Z;            (* their cids, newest first *)
  recvd : nat;              (* index of the newest update the loop has taken from the slot *)
  fresh : nat;              (* newest update index accounted for by lastPublished:
                               published, or dropped as a duplicate of lastPublished *)
  kw : list (nat * nat);    (* WaitPub id -> nupd when it was called *)
  publog : list nat         (* update indices successfully published, newest first *)
}.

Definition init (c0 : Z) : st :=
  mk None None c0 None true false false false false [] [] 0 [] 0 0 [] [].

Inductive ev :=
| EUpd (c : Z) | EWait (w : nat) | ETimeout (w : nat)
| ERecv | EImm (w : nat) | EQuick | ELong
| EPubOk | EPubFail | ECloseRet.

Fixpoint remove_nat (w : nat) (l : list nat) : list nat :=
  match l with [] => [] | x :: r => if Nat.eqb w x then remove_nat w r else x :: remove_nat w r end.
Definition mem_nat (w : nat) (l : list nat) : bool := existsb (Nat.eqb w) l.

(** notify the waiter, if any *)
Definition notify (s : st) : st :=
  match waiter s with
  | None => s
  | Some w => mk (slot s) (topub s) (lastpub s) None (imm s) (quick s) (long s) (pubbing s) (stopped s)
                 (pending s) (w :: released s) (nupd s) (hist s) (recvd s) (fresh s) (kw s) (publog s)
  end.

(** the block after the select: stop both timers; publish if there is something, else notify *)
Definition cleanup (s : st) : st :=
  let s1 := mk (slot s) (topub s) (lastpub s) (waiter s) (imm s) false false (pubbing s) (stopped s)
               (pending s) (released s) (nupd s) (hist s) (recvd s) (fresh s) (kw s) (publog s) in
  match topub s1 with
  | Some _ => mk (slot s1) (topub s1) (lastpub s1) (waiter s1) (imm s1) false false true (stopped s1)
                 (pending s1) (released s1) (nupd s1) (hist s1) (recvd s1) (fresh s1) (kw s1) (publog s1)
  | None => notify s1
  end.

Definition idle (s : st) : bool := negb (pubbing s) && negb (stopped s).

Definition step (s : st) (e : ev) : option st :=
  match e with
  | EUpd c =>
      Some (mk (Some (S (nupd s), c)) (topub s) (lastpub s) (waiter s) (imm s) (quick s) (long s) (pubbing s)
               (stopped s) (pending s) (released s) (S (nupd s)) (c :: hist s) (recvd s) (fresh s) (kw s) (publog s))
  | EWait w =>
      if mem_nat w (map fst (kw s)) then None else
      Some (mk (slot s) (topub s) (lastpub s) (waiter s) (imm s) (quick s) (long s) (pubbing s) (stopped s)
               (w :: pending s) (released s) (nupd s) (hist s) (recvd s) (fresh s) ((w, nupd s) :: kw s) (publog s))
  | ETimeout w =>
      Some (mk (slot s) (topub s) (lastpub s) (waiter s) (imm s) (quick s) (long s) (pubbing s) (stopped s)
               (remove_nat w (pending s)) (released s) (nupd s) (hist s) (recvd s) (fresh s) (kw s) (publog s))
  | ERecv =>
      if negb (idle s) then None else
      match slot s with
      | None => None
      | Some (i, c) =>
          if Z.eqb c (lastpub s)
          then (* already published: toPublish = Undef, break to the cleanup *)
            Some (cleanup (mk None None (lastpub s) (waiter s) (imm s) (quick s) (long s) (pubbing s) (stopped s)
                              (pending s) (released s) (nupd s) (hist s) i i (kw s) (publog s)))
          else
            Some (mk None (Some (i, c)) (lastpub s) (waiter s) (imm s) true
                     (match topub s with None => true | Some _ => long s end) (pubbing s) (stopped s)
                     (pending s) (released s) (nupd s) (hist s) i (fresh s) (kw s) (publog s))
      end
  | EImm w =>
      if negb (idle s) || negb (imm s) || negb (mem_nat w (pending s)) then None else
      let tp := match slot s with Some v => Some v | None => topub s end in
      let rc := match slot s with Some (i, _) => i | None => recvd s end in
      let dup := match tp with Some (_, c) => Z.eqb c (lastpub s) | None => false end in
      Some (cleanup (mk None (if dup then None else tp) (lastpub s) (Some w) (imm s) (quick s) (long s) (pubbing s)
                        (stopped s) (remove_nat w (pending s)) (released s) (nupd s) (hist s) rc
                        (if dup then match tp with Some (i, _) => i | None => fresh s end else fresh s)
                        (kw s) (publog s)))
  | EQuick => if negb (idle s) || negb (quick s) then None else Some (cleanup s)
  | ELong => if negb (idle s) || negb (long s) then None else Some (cleanup s)
  | EPubOk =>
      if negb (pubbing s) then None else
      match topub s with
      | None => None
      | Some (i, c) =>
          Some (notify (mk (slot s) None c (waiter s) true (quick s) (long s) false (stopped s)
                           (pending s) (released s) (nupd s) (hist s) (recvd s) i (kw s) (i :: publog s)))
      end
  | EPubFail =>
      if negb (pubbing s) then None else
      Some (mk (slot s) (topub s) (lastpub s) (waiter s) false (quick s) true false (stopped s)
               (pending s) (released s) (nupd s) (hist s) (recvd s) (fresh s) (kw s) (publog s))
  | ECloseRet =>
      if pubbing s || stopped s then None else
      Some (mk (slot s) (topub s) (lastpub s) (waiter s) (imm s) (quick s) (long s) false true
               (pending s) (released s) (nupd s) (hist s) (recvd s) (fresh s) (kw s) (publog s))
  end.

Fixpoint run (s : st) (es : list ev) : option st :=
  match es with
  | [] => Some s
  | e :: r => match step s e with Some s' => run s' r | None => None end
  end.

(** cid of update number [i] (1-based; 0 = the initial lastPublished [c0]) *)
Definition cid_of (c0 : Z) (s : st) (i : nat) : Z :=
  match i with
  | O => c0
  | S _ => nth (nupd s - i) (hist s) 0%Z
  end.

Fixpoint lookup_kw (w : nat) (l : list (nat * nat)) : option nat :=
  match l with [] => None | (x, k) :: r => if Nat.eqb w x then Some k else lookup_kw w r end.

(** the loop's own steps that need no environment choice (liveness) *)
Definition internal (e : ev) : bool :=
  match e with ERecv | EImm _ | EQuick | ELong | EPubOk => true | _ => false end.
Definition quiescent (s : st) : bool :=
  match slot s, topub s with
  | None, None => negb (pubbing s) && (negb (imm s) || match pending s with [] => true | _ => false end)
  | _, _ => false
  end.
Definition rank (s : st) : nat :=
  (match slot s with Some _ => 3 | None => 0 end) +
  (if pubbing s then 1 else match topub s with Some _ => 2 | None => 0 end) +
  length (pending s).

(** =====================  trace membership (correspondence)  ===================== *)

(** what the harness observes, in the order it logged it *)
Inductive obs :=
| OUpd (c : Z)                 (* about to call Update(c) *)
| OWait (w : nat)              (* about to call WaitPub (goroutine w) *)
| OTimeout (w : nat)           (* WaitPub w returned its context's error *)
| ORet (w : nat)               (* WaitPub w returned nil *)
| OPub (c : Z) (ok : bool)     (* the publish function was called with c and answered ok / error *)
| OCloseRet.                   (* Close returned *)

Definition opt_eqb {A} (eqb : A -> A -> bool) (a b : option A) : bool :=
  match a, b with Some x, Some y => eqb x y | None, None => true | _, _ => false end.
Definition val_eqb (a b : val) : bool := Nat.eqb (fst a) (fst b) && Z.eqb (snd a) (snd b).
Fixpoint list_eqb {A} (eqb : A -> A -> bool) (l1 l2 : list A) : bool :=
  match l1, l2 with
  | [], [] => true
  | a :: r1, b :: r2 => eqb a b && list_eqb eqb r1 r2
  | _, _ => false
  end.
(** equality of the non-ghost part (the ghost part is a function of the observed prefix
    except [recvd]/[fresh], which are compared too) *)
Definition st_eqb (a b : st) : bool :=
  opt_eqb val_eqb (slot a) (slot b) && opt_eqb val_eqb (topub a) (topub b) && Z.eqb (lastpub a) (lastpub b) &&
  opt_eqb Nat.eqb (waiter a) (waiter b) && Bool.eqb (imm a) (imm b) && Bool.eqb (quick a) (quick b) &&
  Bool.eqb (long a) (long b) && Bool.eqb (pubbing a) (pubbing b) && Bool.eqb (stopped a) (stopped b) &&
  list_eqb Nat.eqb (pending a) (pending b) && list_eqb Nat.eqb (released a) (released b) &&
  Nat.eqb (recvd a) (recvd b) && Nat.eqb (fresh a) (fresh b).

Fixpoint add_st (s : st) (l : list st) : list st :=
  match l with
  | [] => [s]
  | x :: r => if st_eqb s x then l else x :: add_st s r
  end.
Definition union_st (a b : list st) : list st := fold_right add_st b a.

(** the silent moves of the loop *)
Definition taus (s : st) : list st :=
  let evs := [ERecv; EQuick; ELong] ++ map EImm (pending s) in
  flat_map (fun e => match step s e with Some s' => [s'] | None => [] end) evs.

Definition mem_st (s : st) (l : list st) : bool := existsb (st_eqb s) l.
(** states reachable by silent moves: frontier exploration, stops when nothing new appears
    ([fuel] bounds the depth; every silent move lowers [rank], so depth <= 5 + waiters) *)
Fixpoint closure_from (fuel : nat) (frontier seen : list st) : list st :=
  match fuel with
  | O => seen
  | S f =>
      let fresh_states :=
        fold_right (fun s acc => if mem_st s seen || mem_st s acc then acc else s :: acc) []
                   (flat_map taus frontier) in
      match fresh_states with
      | [] => seen
      | _ => closure_from f fresh_states (fresh_states ++ seen)
      end
  end.
Definition closure (fuel : nat) (ss : list st) : list st := closure_from fuel ss ss.

Definition apply_obs (s : st) (o : obs) : list st :=
  let one e := match step s e with Some s' => [s'] | None => [] end in
  match o with
  | OUpd c => one (EUpd c)
  | OWait w => one (EWait w)
  | OTimeout w => one (ETimeout w)
  | ORet w => if mem_nat w (released s) then [s] else []
  | OPub c ok =>
      match topub s with
      | Some (_, c') => if pubbing s && Z.eqb c c' then one (if ok then EPubOk else EPubFail) else []
      | None => []
      end
  | OCloseRet => one ECloseRet
  end.

Fixpoint accepts (ss : list st) (tr : list obs) : bool :=
  match tr with
  | [] => match ss with [] => false | _ => true end
  | o :: r =>
      let ss1 := closure 12 ss in
      let ss2 := fold_right (fun s acc => union_st (apply_obs s o) acc) [] ss1 in
      match ss2 with [] => false | _ => accepts ss2 r end
  end.

(** A case: the initial lastPublished, the observed trace, and the harness's end-of-run
    observations: [final_ok] = after the script, with publishing succeeding, the system
    came to rest with nothing owed ([want_final] says whether that was to be expected). *)
Inductive case := Case (c0 : Z) (tr : list obs).

Definition check_case (c : case) : verdict :=
  match c with
  | Case c0 tr => if accepts [init c0] tr then VOk else VSpecFail
  end.
