(** C33 — path resolution over UnixFS trees (path/resolver/resolver.go).

    Executable model of the mechanism, transcribed from the Go source:
      ResolveToLastNode      [resolve_to_last]: a selector built from all but the last
                             segment (pathAllSelector: match every node on the way,
                             explore the named field) yields the list of matched nodes;
                             [len(nodes) < len(remainder)] -> ErrNoLink{remainder[len(nodes)-1]},
                             otherwise one more lookup of the last segment in nodes[len-1]
      ResolvePath            [resolve_path]: pathLeafSelector, only the leaf matches
      ResolvePathComponents  [resolve_components]: pathAllSelector over all segments
    The selector engine (go-ipld-prime traversal), the UnixFS reifier and the HAMT
    lookup (go-unixfsnode) are dependencies: a directory is a name -> entry list
    whatever its on-disk shape ([d_sharded] only records how the harness built it),
    a lookup is the first entry with that name, anything that is not a directory
    (file, raw leaf, symlink) has no entries.  CIDs are abstract ids.
    No proofs in this file. *)
From Coq Require Import List String Bool NArith Arith.
From V Require Import lib.Verdict.
Import ListNotations.
Open Scope string_scope.

Inductive node :=
| Leaf (id : N) (bytes : bool)       (* bytes: reified as a bytes node (UnixFS file, raw block); false: a symlink (a dag-pb node without links) *)
| Dir (id : N) (sharded : bool) (entries : list (string * node)).

Definition nid (n : node) : N :=
  match n with Leaf i _ => i | Dir i _ _ => i end.

Fixpoint assoc (k : string) (l : list (string * node)) : option node :=
  match l with
  | [] => None
  | (k', v) :: r => if String.eqb k' k then Some v else assoc k r
  end.

(** LookupBySegment on the reified node *)
Definition lookup (n : node) (name : string) : option node :=
  match n with
  | Dir _ _ es => assoc name es
  | Leaf _ _ => None
  end.

(** the traversal of pathAllSelector(segs) from [n]: how many nodes match (the
    start node always does) and the last of them.  A field that cannot be looked up
    is skipped silently by the selector engine, which ends the walk. *)
Fixpoint walk (n : node) (segs : list string) : nat * node :=
  match segs with
  | [] => (1, n)
  | s :: r =>
      match lookup n s with
      | Some c => let (k, l) := walk c r in (S k, l)
      | None => (1, n)
      end
  end.

Inductive res :=
| ROk (c : N) (remainder : list string)
| RNoLink (name : string) (under : N)      (* ErrNoLink{Name, Node} *)
| RErr.                                    (* any other error *)

Record flags := { f_leaf_last : bool }.
(** defect switch 1: when everything but the last segment resolves to a bytes node (a
    file or raw block), the final LookupBySegment fails with the node's own wrong-kind
    error instead of ErrNoLink *)
Definition flags_off : flags := {| f_leaf_last := false |}.
Definition flags_on : flags := {| f_leaf_last := true |}.

Definition resolve_to_last (fl : flags) (root : node) (segs : list string) : res :=
  match segs with
  | [] => ROk (nid root) []
  | _ =>
      let n := List.length segs in
      let (k, parent) := walk root (removelast segs) in
      if Nat.ltb k n then RNoLink (nth (k - 1) segs "") (nid parent)
      else
        let name := last segs "" in
        match parent with
        | Dir _ _ es =>
            match assoc name es with
            | Some c => ROk (nid c) []
            | None => RNoLink name (nid parent)
            end
        | Leaf _ b => if f_leaf_last fl && b then RErr else RNoLink name (nid parent)
        end
  end.

(** ResolvePath: Some (cid of the block of the named node), None = error *)
Definition resolve_path (root : node) (segs : list string) : option N :=
  let (k, l) := walk root segs in
  if Nat.eqb k (S (List.length segs)) then Some (nid l) else None.

(** ResolvePathComponents: number of nodes returned (never an error for a missing name) *)
Definition resolve_components (root : node) (segs : list string) : nat :=
  fst (walk root segs).

(** ---------- specification: successive lookup in name -> entry maps ---------- *)
Fixpoint spec_resolve (n : node) (segs : list string) : res :=
  match segs with
  | [] => ROk (nid n) []
  | s :: r =>
      match lookup n s with
      | Some c => spec_resolve c r
      | None => RNoLink s (nid n)          (* the first missing segment, under the node that lacks it *)
      end
  end.

(** ---------- cases ---------- *)
Fixpoint list_eqb {A} (e : A -> A -> bool) (a b : list A) : bool :=
  match a, b with
  | [], [] => true
  | x :: r, y :: s => e x y && list_eqb e r s
  | _, _ => false
  end.

Definition res_eqb (a b : res) : bool :=
  match a, b with
  | ROk c r, ROk c' r' => N.eqb c c' && list_eqb String.eqb r r'
  | RNoLink s u, RNoLink s' u' => String.eqb s s' && N.eqb u u'
  | RErr, RErr => true
  | _, _ => false
  end.

Definition optN_eqb (a b : option N) : bool :=
  match a, b with
  | Some x, Some y => N.eqb x y
  | None, None => true
  | _, _ => false
  end.

(** one resolved path: the segments and what the three entry points answered *)
Record obs := {
  o_segs : list string;
  o_last : res;              (* ResolveToLastNode *)
  o_path : option N;         (* ResolvePath: CID of the returned link *)
  o_comps : nat              (* ResolvePathComponents: len(nodes); 0 = error *)
}.

Inductive case := CTree (root : node) (paths : list obs).

Definition model_obs (fl : flags) (root : node) (o : obs) : bool :=
  res_eqb (resolve_to_last fl root (o_segs o)) (o_last o) &&
  optN_eqb (resolve_path root (o_segs o)) (o_path o) &&
  Nat.eqb (resolve_components root (o_segs o)) (o_comps o).

(** the property: ResolveToLastNode answers what successive lookup says, and
    ResolvePath finds exactly the existing paths *)
Definition spec_obs (root : node) (o : obs) : bool :=
  res_eqb (spec_resolve root (o_segs o)) (o_last o) &&
  optN_eqb (match spec_resolve root (o_segs o) with ROk c _ => Some c | _ => None end) (o_path o).

Definition check_case (c : case) : verdict :=
  match c with
  | CTree root paths =>
      let m_off := forallb (model_obs flags_off root) paths in
      let m_on := forallb (model_obs flags_on root) paths in
      let spec := forallb (spec_obs root) paths in
      if spec then (if m_off || m_on then VOk else VModelMismatch)
      else if m_on && negb m_off then VKnown 1
      else VSpecFail
  end.
