(** C25 — IPNS validation (ipns/validation.go Validate, ValidateWithName,
    Validator.Validate, validateCborDataMatchesPbData; ipns/record.go
    UnmarshalRecord, ExtractPublicKey, accessors).  The mechanism itself is
    [lib/Ipns.v]; this file adds the specification of the property, the defect
    switch for the one clause the current code does not meet, and the
    correspondence cases.  No proofs in this file.

    Defect switch [legacy_gate]:
      on  = the code today: the legacy protobuf fields (Value, Validity,
            ValidityType, Sequence, TTL) are compared with the signed DAG-CBOR
            document only when [Value] or [SignatureV1] is non-empty (as the IPNS
            specification prescribes);
      off = what the property demands: every legacy field that is present must agree
            with the signed document. *)
From Coq Require Import ZArith List Bool.
From V Require Import lib.Verdict lib.Varint lib.Pb lib.CborScalar lib.Ipns.
Import ListNotations.
Open Scope Z_scope.

(** every PRESENT legacy field equals its counterpart in the signed document *)
Definition legacy_agrees (r : record) : bool :=
  let pb := r_pb r in
  let nd := r_node r in
  match p_value pb with
  | None => true
  | Some v => match get_bytes kValue nd with Some x => bytes_eqb v x | None => false end
  end &&
  match p_validity pb with
  | None => true
  | Some v => match get_bytes kValidity nd with Some x => bytes_eqb v x | None => false end
  end &&
  match p_vtype pb with
  | None => true
  | Some t => match get_int kValidityType nd with Some x => t =? x | None => false end
  end &&
  match p_seq pb with
  | None => true
  | Some s => match get_int kSequence nd with Some x => s =? to_u64 x | None => false end
  end &&
  match p_ttl pb with
  | None => true
  | Some t => match get_int kTTL nd with Some x => t =? to_u64 x | None => false end
  end.

Section Flagged.
  Variable pk : Type.
  Variable parse_pk : bytes -> option pk.
  Variable marshal_pk : pk -> bytes.
  Variable verify : pk -> bytes -> bytes -> bool.
  Variable sha256 : bytes -> bytes.
  Variable parse_time : bytes -> option Z.

  (** Validate with the defect switch *)
  Definition validate_f (legacy_gate : bool) (now : Z) (r : record) (k : pk) : result unit :=
    match validate pk verify parse_time now r k with
    | Ok _ => if legacy_gate then Ok tt else if legacy_agrees r then Ok tt else Err EOther
    | Err e => Err e
    end.

  Definition validate_with_name_f (g : bool) (now : Z) (r : record) (n : name) : result unit :=
    match extract_pk pk parse_pk marshal_pk sha256 r n return result unit with
    | Err e => Err e
    | Ok k => validate_f g now r k
    end.

  Definition validator_validate_f (g : bool) (now : Z) (n : name) (value : bytes) : result unit :=
    match unmarshal_record value return result unit with
    | Err e => Err e
    | Ok r =>
        match extract_pk pk parse_pk marshal_pk sha256 r n return result unit with
        | Err ENoPk => Err EPkNotFound
        | Err e => Err e
        | Ok k => validate_f g now r k
        end
    end.

  (** "the key of that name", as far as a record and a name determine it: the
      embedded key if it hashes to the name, else the key inlined in the name *)
  Definition key_bound (r : record) (n : name) (k : pk) : Prop :=
    (olen (p_pubkey (r_pb r)) <> 0 /\
     parse_pk (oget (p_pubkey (r_pb r))) = Some k /\ pid_of pk marshal_pk sha256 k = n) \/
    (olen (p_pubkey (r_pb r)) = 0 /\ exists d, n = NInline d /\ parse_pk d = Some k).

  (** everything Validate has checked when it returns nil: within the size limit,
      v2 signature and Data present, the signature verifies under [k] on exactly
      "ipns-signature:" ++ Data, the legacy fields match when Value or SignatureV1 is
      present, the expiry is readable and not passed, a readable TTL is not negative *)
  Definition validated (now : Z) (r : record) (k : pk) : Prop :=
    pb_size (r_pb r) <= max_record_size /\
    olen (p_sigv2 (r_pb r)) <> 0 /\ olen (p_data (r_pb r)) <> 0 /\
    verify k (sig_prefix ++ oget (p_data (r_pb r))) (oget (p_sigv2 (r_pb r))) = true /\
    (olen (p_sigv1 (r_pb r)) <> 0 \/ olen (p_value (r_pb r)) <> 0 -> match_pb r = true) /\
    (exists eol, acc_validity parse_time r = Ok eol /\ now <= eol) /\
    (forall t, acc_ttl r = Some t -> 0 <= t).
End Flagged.

(** ---------- correspondence cases ---------- *)
Fixpoint assoc {A} (k : bytes) (l : list (bytes * A)) : option A :=
  match l with
  | [] => None
  | (k', v) :: r => if bytes_eqb k k' then Some v else assoc k r
  end.

(** what libp2p, SHA-256 and the Go time package say about the byte strings that
    occur in this case (computed by the harness directly, not through boxo) *)
Record oracle := mkOracle {
  q_keys : list (bytes * bytes);        (* ic.UnmarshalPublicKey: bytes as found -> canonical marshalling *)
  q_sha : list (bytes * bytes);         (* canonical key (longer than 42 bytes) -> SHA-256 digest of its peer ID *)
  q_verify : list (bytes * bool);       (* canonical key -> pk.Verify("ipns-signature:" ++ Data, SignatureV2) of THIS record *)
  q_data : bytes;                       (* the Data and SignatureV2 the verify answers refer to *)
  q_sig : bytes;
  q_times : list (bytes * option Z)     (* Validity strings -> time.Parse(RFC3339Nano) as instant *)
}.

(** accessors of the unmarshalled record as boxo answered *)
Record accs := mkAccs {
  a_value_skip : bool;                  (* Value() went through path parsing that the model does not cover
                                           (invalid path, empty value -> NoopValue, binary CID): not compared *)
  a_value : option bytes;
  a_seq : option Z;
  a_eol : option Z;
  a_ttl : option Z;
  a_vtype : option Z;
  a_pubkey : bool
}.

Record observed := mkObs {
  v_unmarshal : result unit;            (* UnmarshalRecord(raw): ok or error class *)
  v_acc : option accs;                  (* accessors, when it unmarshalled *)
  v_vwn : option (result unit);         (* ValidateWithName(rec, name), when it unmarshalled *)
  v_vv : result unit                    (* Validator{}.Validate(routing key of name, raw) *)
}.

Inductive case :=
| CVal (n : name) (future : bool) (raw : bytes) (q : oracle) (o : observed)
(** a record that reaches validation WITHOUT UnmarshalRecord: built by NewRecord,
    [raw] = MarshalRecord of it (so the in-memory envelope is [unmarshal_pb raw] and
    its node the decoding of Data), [kb] the canonical bytes of the public key;
    [vwn] = ValidateWithName(rec, n), [vk] = Validate(rec, pk) *)
| CMem (n : name) (future : bool) (raw : bytes) (kb : bytes) (q : oracle) (vwn vk : result unit).

(** run-length shorthand used by the harness for padded records *)
Definition rep (x n : Z) : bytes := List.repeat x (Z.to_nat n).

Definition c_parse_pk (q : oracle) (b : bytes) : option bytes := assoc b (q_keys q).
Definition c_sha (q : oracle) (b : bytes) : bytes :=
  match assoc b (q_sha q) with Some d => d | None => [] end.
Definition c_verify (q : oracle) (k msg sg : bytes) : bool :=
  match assoc k (q_verify q) with
  | Some b => b && bytes_eqb msg (sig_prefix ++ q_data q) && bytes_eqb sg (q_sig q)
  | None => false
  end.
Definition c_parse_time (q : oracle) (b : bytes) : option Z :=
  match assoc b (q_times q) with Some t => t | None => None end.

Definition opt_eqb {A} (eqb : A -> A -> bool) (a b : option A) : bool :=
  match a, b with
  | Some x, Some y => eqb x y
  | None, None => true
  | _, _ => false
  end.
Definition err_eqb (a b : err) : bool :=
  match a, b with
  | ERecordSize, ERecordSize | EInvalidRecord, EInvalidRecord | ESignature, ESignature
  | EPkMismatch, EPkMismatch | EInvalidPk, EInvalidPk | ENoPk, ENoPk | EPkNotFound, EPkNotFound
  | EExpired, EExpired | EUnrecValidity, EUnrecValidity | EInvalidValidity, EInvalidValidity
  | EInvalidName, EInvalidName | EOther, EOther => true
  | _, _ => false
  end.
Definition res_eqb (a b : result unit) : bool :=
  match a, b with
  | Ok _, Ok _ => true
  | Err x, Err y => err_eqb x y
  | _, _ => false
  end.
Definition is_ok (r : result unit) : bool := match r with Ok _ => true | Err _ => false end.
Definition resZ_opt (r : result Z) : option Z := match r with Ok z => Some z | Err _ => None end.

Definition accs_of (q : oracle) (r : record) : accs :=
  mkAccs false (acc_value r) (acc_sequence r) (resZ_opt (acc_validity (c_parse_time q) r)) (acc_ttl r)
         (acc_validity_type r) (negb (olen (p_pubkey (r_pb r)) =? 0)).

Definition accs_eqb (a b : accs) : bool :=
  (a_value_skip a || a_value_skip b || opt_eqb bytes_eqb (a_value a) (a_value b)) &&
  opt_eqb Z.eqb (a_seq a) (a_seq b) &&
  opt_eqb Z.eqb (a_eol a) (a_eol b) && opt_eqb Z.eqb (a_ttl a) (a_ttl b) &&
  opt_eqb Z.eqb (a_vtype a) (a_vtype b) && Bool.eqb (a_pubkey a) (a_pubkey b).

(** the accessor values "that were signed": read off the Data field with the Coq
    DAG-CBOR decoder, nothing else of the record is looked at *)
Definition signed_accs (q : oracle) (data : bytes) (has_pk : bool) : option accs :=
  match dec_map data with
  | None => None
  | Some nd =>
      let r := mkRecord pb_empty nd in
      Some (mkAccs false (acc_value r) (acc_sequence r) (resZ_opt (acc_validity (c_parse_time q) r))
                   (acc_ttl r) (acc_validity_type r) has_pk)
  end.

Definition check_case (c : case) : verdict :=
  match c with
  | CVal n future raw q o =>
      let ppk := c_parse_pk q in
      let mpk := fun k : bytes => k in
      let vfy := c_verify q in
      let sha := c_sha q in
      let ptm := c_parse_time q in
      let um := unmarshal_record raw in
      (* "now" relative to the record's own expiry: the harness only uses expiries
         far in the future or far in the past *)
      let now_of (r : record) :=
        match acc_validity ptm r with
        | Ok eol => if future then eol else eol + 1
        | Err _ => 0
        end in
      let now := match um with Ok r => now_of r | Err _ => 0 end in
      let vv_on := validator_validate_f bytes ppk mpk vfy sha ptm true now n raw in
      let vv_off := validator_validate_f bytes ppk mpk vfy sha ptm false now n raw in
      let um_ok := res_eqb (match um with Ok _ => Ok tt | Err e => Err e end) (v_unmarshal o) in
      match um with
      | Err _ =>
          (* nothing unmarshalled: nothing may be accepted *)
          verdict_of (um_ok && res_eqb vv_on (v_vv o) &&
                      match v_acc o, v_vwn o with None, None => true | _, _ => false end)
                     (negb (is_ok (v_vv o)))
      | Ok r =>
          let vwn_on := validate_with_name_f bytes ppk mpk vfy sha ptm true now r n in
          let vwn_off := validate_with_name_f bytes ppk mpk vfy sha ptm false now r n in
          let acc_ok := match v_acc o with Some a => accs_eqb a (accs_of q r) | None => false end in
          let on_ok := res_eqb vv_on (v_vv o) && opt_eqb res_eqb (Some vwn_on) (v_vwn o) in
          let off_ok := res_eqb vv_off (v_vv o) && opt_eqb res_eqb (Some vwn_off) (v_vwn o) in
          let accepted := is_ok (v_vv o) || match v_vwn o with Some x => is_ok x | None => false end in
          (* the specification, on what boxo answered *)
          let bound_verified :=
            match extract_pk bytes ppk mpk sha r n with
            | Ok k => vfy k (sig_prefix ++ oget (p_data (r_pb r))) (oget (p_sigv2 (r_pb r)))
            | Err _ => false
            end in
          let fresh := match acc_validity ptm r with Ok _ => future | Err _ => false end in
          let size_ok := (blen raw <=? max_record_size) && (pb_size (r_pb r) <=? max_record_size) in
          let signed_ok :=
            match v_acc o, signed_accs q (oget (p_data (r_pb r))) (negb (olen (p_pubkey (r_pb r)) =? 0)) with
            | Some a, Some s => accs_eqb a s
            | _, _ => false
            end in
          let base_ok := bound_verified && fresh && size_ok && signed_ok in
          if negb accepted then verdict_of (um_ok && acc_ok && (on_ok || off_ok)) true
          else if base_ok && legacy_agrees r then verdict_of (um_ok && acc_ok && (on_ok || off_ok)) true
          else if base_ok && um_ok && acc_ok && on_ok && negb (is_ok vv_off) && negb (is_ok vwn_off)
               then VKnown 1
          else VSpecFail
      end
  | CMem n future raw kb q vwn vk =>
      let ppk := c_parse_pk q in
      let mpk := fun k : bytes => k in
      let vfy := c_verify q in
      let sha := c_sha q in
      let ptm := c_parse_time q in
      match unmarshal_pb raw with
      | None => VModelMismatch
      | Some pb =>
          match dec_map (oget (p_data pb)) with
          | None => VModelMismatch
          | Some nd =>
              let r := mkRecord pb nd in
              let now := match acc_validity ptm r with
                         | Ok eol => if future then eol else eol + 1
                         | Err _ => 0
                         end in
              let m_ok (g : bool) :=
                res_eqb (validate_with_name_f bytes ppk mpk vfy sha ptm g now r n) vwn &&
                res_eqb (validate_f bytes vfy ptm g now r kb) vk in
              let model_ok := bytes_eqb (marshal pb) raw && (m_ok true || m_ok false) in
              (* the specification: accepted only if the signature verifies under the key
                 used, not expired, and the SERIALIZED record is within the size limit *)
              let sigmsg := sig_prefix ++ oget (p_data pb) in
              let fresh := match acc_validity ptm r with Ok _ => future | Err _ => false end in
              let size_ok := (blen raw <=? max_record_size) && (pb_size pb <=? max_record_size) in
              let vwn_spec :=
                negb (is_ok vwn) ||
                (match extract_pk bytes ppk mpk sha r n with
                 | Ok k => vfy k sigmsg (oget (p_sigv2 pb))
                 | Err _ => false
                 end && fresh && size_ok && legacy_agrees r) in
              let vk_spec :=
                negb (is_ok vk) ||
                (vfy kb sigmsg (oget (p_sigv2 pb)) && fresh && size_ok && legacy_agrees r) in
              verdict_of model_ok (vwn_spec && vk_spec)
          end
      end
  end.
