// Package pinh holds what the C22 and C23 harnesses share: a small DAG of real
// merkledag nodes, a datastore wrapper that logs every write, a DAG service wrapper
// that can fail chosen fetches, and the projection of the pinner's /pins keys to the
// store of the Coq model (lib/PinModel.v).
package pinh

import (
	"context"
	"errors"
	"fmt"
	"math/rand"
	"sort"
	"strings"
	"sync"

	bs "github.com/ipfs/boxo/blockservice"
	blockstore "github.com/ipfs/boxo/blockstore"
	offline "github.com/ipfs/boxo/exchange/offline"
	mdag "github.com/ipfs/boxo/ipld/merkledag"
	"github.com/ipfs/go-cid"
	ds "github.com/ipfs/go-datastore"
	"github.com/ipfs/go-datastore/query"
	dssync "github.com/ipfs/go-datastore/sync"
	ipld "github.com/ipfs/go-ipld-format"
	"github.com/multiformats/go-multibase"
	"github.com/polydawn/refmt/cbor"

	"verif/harness/vh"
)

// ---------- DAG ----------

// DAG is a set of real ProtoNodes; node i links only to nodes with a smaller index
// (leaves first), so index n-1 is typically a root.
type DAG struct {
	Nodes []*mdag.ProtoNode
	Cids  []cid.Cid
	Links [][]int // Links[i] = indices of the children of node i
	Index map[cid.Cid]int
}

// BuildDAG makes n nodes with random links to earlier nodes (shared subtrees are likely).
func BuildDAG(r *rand.Rand, n int, tag string) *DAG {
	d := &DAG{Index: map[cid.Cid]int{}}
	for i := 0; i < n; i++ {
		nd := mdag.NodeWithData([]byte(fmt.Sprintf("verif-%s-%d", tag, i)))
		var ls []int
		if i > 0 {
			k := r.Intn(4) // 0..3 children
			seen := map[int]bool{}
			for j := 0; j < k; j++ {
				ch := r.Intn(i)
				if seen[ch] {
					continue
				}
				seen[ch] = true
				ls = append(ls, ch)
				if err := nd.AddNodeLink(fmt.Sprintf("l%d", ch), d.Nodes[ch]); err != nil {
					panic(err)
				}
			}
		}
		sort.Ints(ls)
		d.Nodes = append(d.Nodes, nd)
		d.Cids = append(d.Cids, nd.Cid())
		d.Links = append(d.Links, ls)
		d.Index[nd.Cid()] = i
	}
	return d
}

// LinksCoq renders the DAG as a Coq list of child lists (N literals).
func (d *DAG) LinksCoq() string {
	return vh.ListOf(d.Links, func(l []int) string {
		return vh.ListOf(l, func(i int) string { return fmt.Sprint(i) })
	})
}

// ErrInjected is the error of an injected fetch failure.
var ErrInjected = errors.New("verif: injected fetch failure")

// FailDAG wraps a DAGService; while armed it fails the Get/GetMany of chosen CIDs.
type FailDAG struct {
	ipld.DAGService
	mu   sync.Mutex
	fail     map[cid.Cid]bool
	Gets     int
	injected int
}

// Arm makes Get fail for the given CIDs until Disarm.
func (f *FailDAG) Arm(cs ...cid.Cid) {
	f.mu.Lock()
	defer f.mu.Unlock()
	f.fail = map[cid.Cid]bool{}
	for _, c := range cs {
		f.fail[c] = true
	}
}

// Disarm stops injecting failures.
func (f *FailDAG) Disarm() {
	f.mu.Lock()
	defer f.mu.Unlock()
	f.fail = nil
}

func (f *FailDAG) failing(c cid.Cid) bool {
	f.mu.Lock()
	defer f.mu.Unlock()
	f.Gets++
	if f.fail[c] {
		f.injected++
		return true
	}
	return false
}

func (f *FailDAG) Get(ctx context.Context, c cid.Cid) (ipld.Node, error) {
	if f.failing(c) {
		return nil, ErrInjected
	}
	return f.DAGService.Get(ctx, c)
}

func (f *FailDAG) GetMany(ctx context.Context, cs []cid.Cid) <-chan *ipld.NodeOption {
	out := make(chan *ipld.NodeOption, len(cs))
	go func() {
		defer close(out)
		for _, c := range cs {
			nd, err := f.Get(ctx, c)
			out <- &ipld.NodeOption{Node: nd, Err: err}
		}
	}()
	return out
}

// NewDAGService returns a DAG service over a fresh in-memory blockstore holding all nodes of d.
func NewDAGService(ctx context.Context, d *DAG) *FailDAG {
	bstore := blockstore.NewBlockstore(dssync.MutexWrap(ds.NewMapDatastore()))
	dserv := mdag.NewDAGService(bs.New(bstore, offline.Exchange(bstore)))
	for _, nd := range d.Nodes {
		if err := dserv.Add(ctx, nd); err != nil {
			panic(err)
		}
	}
	return &FailDAG{DAGService: dserv}
}

// ---------- logging datastore ----------

// Write is one datastore write of the pinner.
type Write struct {
	Del   bool
	Key   string
	Value []byte
}

// LogDS logs every Put/Delete that reaches the wrapped datastore.
type LogDS struct {
	ds.Datastore
	mu  sync.Mutex
	Log []Write
}

func NewLogDS() *LogDS { return &LogDS{Datastore: dssync.MutexWrap(ds.NewMapDatastore())} }

func (l *LogDS) Put(ctx context.Context, k ds.Key, v []byte) error {
	l.mu.Lock()
	l.Log = append(l.Log, Write{Key: k.String(), Value: append([]byte(nil), v...)})
	l.mu.Unlock()
	return l.Datastore.Put(ctx, k, v)
}

func (l *LogDS) Delete(ctx context.Context, k ds.Key) error {
	l.mu.Lock()
	l.Log = append(l.Log, Write{Del: true, Key: k.String()})
	l.mu.Unlock()
	return l.Datastore.Delete(ctx, k)
}

// Take returns and clears the log.
func (l *LogDS) Take() []Write {
	l.mu.Lock()
	defer l.mu.Unlock()
	w := l.Log
	l.Log = nil
	return w
}

// Snapshot copies the whole content.
func Snapshot(ctx context.Context, d ds.Datastore) map[string][]byte {
	res, err := d.Query(ctx, query.Query{})
	if err != nil {
		panic(err)
	}
	ents, err := res.Rest()
	if err != nil {
		panic(err)
	}
	m := map[string][]byte{}
	for _, e := range ents {
		m[e.Key] = append([]byte(nil), e.Value...)
	}
	return m
}

// Rebuild makes a fresh datastore holding snap with the writes ws applied in order.
func Rebuild(ctx context.Context, snap map[string][]byte, ws []Write) ds.Datastore {
	d := dssync.MutexWrap(ds.NewMapDatastore())
	keys := make([]string, 0, len(snap))
	for k := range snap {
		keys = append(keys, k)
	}
	sort.Strings(keys)
	for _, k := range keys {
		if err := d.Put(ctx, ds.NewKey(k), snap[k]); err != nil {
			panic(err)
		}
	}
	for _, w := range ws {
		var err error
		if w.Del {
			err = d.Delete(ctx, ds.NewKey(w.Key))
		} else {
			err = d.Put(ctx, ds.NewKey(w.Key), w.Value)
		}
		if err != nil {
			panic(err)
		}
	}
	return d
}

// ---------- projection to the model's store ----------

// Names are the pin names the harnesses use; index 0 is the empty name.
var Names = []string{"", "n1", "n2", "name/3"}

// Ctx maps the implementation's CIDs, random pin ids and names to the model's numbers.
type Ctx struct {
	Dag *DAG
	ids map[string]int
}

func NewCtx(d *DAG) *Ctx { return &Ctx{Dag: d, ids: map[string]int{}} }

// ID numbers pin ids 1, 2, ... in order of first appearance.
func (c *Ctx) ID(s string) int {
	if v, ok := c.ids[s]; ok {
		return v
	}
	v := len(c.ids) + 1
	c.ids[s] = v
	return v
}

func (c *Ctx) cidOfKeyString(s string) int {
	k, err := cid.Cast([]byte(s))
	if err != nil {
		return 9999
	}
	if i, ok := c.Dag.Index[k]; ok {
		return i
	}
	return 9998
}

func nameIndex(s string) int {
	for i, n := range Names {
		if n == s {
			return i
		}
	}
	return 9997
}

type rec struct{ id, cid, mode, name int }

func (c *Ctx) decodeRec(id string, data []byte) (rec, error) {
	var m map[string]any
	if err := cbor.Unmarshal(cbor.DecodeOptions{}, data, &m); err != nil {
		return rec{}, err
	}
	r := rec{id: c.ID(id), cid: 9996, mode: 9}
	if b, ok := m["cid"].([]byte); ok {
		var k cid.Cid
		if err := k.UnmarshalBinary(b); err == nil {
			if i, ok := c.Dag.Index[k]; ok {
				r.cid = i
			}
		}
	}
	switch v := m["mode"].(type) {
	case int:
		r.mode = v
	case int64:
		r.mode = int(v)
	case uint64:
		r.mode = int(v)
	}
	if s, ok := m["name"].(string); ok {
		r.name = nameIndex(s)
	}
	return r, nil
}

func (r rec) coq() string {
	m := "MRec"
	if r.mode == 1 {
		m = "MDir"
	}
	return fmt.Sprintf("(mkrec %d %d %s %d)", r.id, r.cid, m, r.name)
}

func decodeComp(s string) (string, error) {
	_, b, err := multibase.Decode(s)
	return string(b), err
}

// parseIndexKey splits /pins/index/<which>/<enc key>/<enc value>.
func (c *Ctx) parseIndexKey(key string) (which string, k, id int, err error) {
	parts := strings.Split(key, "/")
	if len(parts) != 6 {
		return "", 0, 0, fmt.Errorf("unexpected index key %q", key)
	}
	ks, err := decodeComp(parts[4])
	if err != nil {
		return "", 0, 0, err
	}
	vs, err := decodeComp(parts[5])
	if err != nil {
		return "", 0, 0, err
	}
	switch parts[3] {
	case "cidRindex":
		return "IR", c.cidOfKeyString(ks), c.ID(vs), nil
	case "cidDindex":
		return "ID", c.cidOfKeyString(ks), c.ID(vs), nil
	case "nameIndex":
		return "IN", nameIndex(ks), c.ID(vs), nil
	}
	return "", 0, 0, fmt.Errorf("unexpected index %q", key)
}

// Store is the projection of the /pins keys.
type Store struct {
	Recs             []rec
	IdxR, IdxD, IdxN [][2]int
	Dirty            int // -1 absent, 0, 1
}

// Dump projects the /pins content of a datastore. Unknown keys under /pins are an error.
func (c *Ctx) Dump(ctx context.Context, d ds.Datastore) (*Store, error) {
	snap := Snapshot(ctx, d)
	keys := make([]string, 0, len(snap))
	for k := range snap {
		keys = append(keys, k)
	}
	sort.Strings(keys)
	s := &Store{Dirty: -1}
	for _, k := range keys {
		v := snap[k]
		switch {
		case k == "/pins/state/dirty":
			if len(v) != 1 || v[0] > 1 {
				return nil, fmt.Errorf("dirty flag value %v", v)
			}
			s.Dirty = int(v[0])
		case strings.HasPrefix(k, "/pins/pin/"):
			r, err := c.decodeRec(strings.TrimPrefix(k, "/pins/pin/"), v)
			if err != nil {
				return nil, err
			}
			s.Recs = append(s.Recs, r)
		case strings.HasPrefix(k, "/pins/index/"):
			w, a, b, err := c.parseIndexKey(k)
			if err != nil {
				return nil, err
			}
			switch w {
			case "IR":
				s.IdxR = append(s.IdxR, [2]int{a, b})
			case "ID":
				s.IdxD = append(s.IdxD, [2]int{a, b})
			default:
				s.IdxN = append(s.IdxN, [2]int{a, b})
			}
		default:
			return nil, fmt.Errorf("unexpected key %q", k)
		}
	}
	sort.Slice(s.Recs, func(i, j int) bool { return s.Recs[i].id < s.Recs[j].id })
	for _, l := range [][][2]int{s.IdxR, s.IdxD, s.IdxN} {
		sort.Slice(l, func(i, j int) bool {
			if l[i][0] != l[j][0] {
				return l[i][0] < l[j][0]
			}
			return l[i][1] < l[j][1]
		})
	}
	return s, nil
}

func pairs(l [][2]int) string {
	return vh.ListOf(l, func(p [2]int) string { return fmt.Sprintf("(%d, %d)", p[0], p[1]) })
}

// Coq renders the store as a PinModel.store term.
func (s *Store) Coq() string {
	fl := "None"
	switch s.Dirty {
	case 0:
		fl = "(Some false)"
	case 1:
		fl = "(Some true)"
	}
	return "(mkstore " + vh.ListOf(s.Recs, rec.coq) + " " + pairs(s.IdxR) + " " + pairs(s.IdxD) + " " + pairs(s.IdxN) + " " + fl + ")"
}

// Pinned reports whether the projection has a cid-index entry for node i.
func (s *Store) Pinned(i int, recursive bool) bool {
	l := s.IdxD
	if recursive {
		l = s.IdxR
	}
	for _, p := range l {
		if p[0] == i {
			return true
		}
	}
	return false
}

// WriteCoq renders one logged write as a PinModel.write term; newID reports the id of a
// pin record that was put.
func (c *Ctx) WriteCoq(w Write) (term string, newID int, err error) {
	switch {
	case w.Key == "/pins/state/dirty":
		if w.Del || len(w.Value) != 1 || w.Value[0] > 1 {
			return "", 0, fmt.Errorf("unexpected write to the dirty flag: %+v", w)
		}
		return fmt.Sprintf("(WDirty %s)", vh.Bool(w.Value[0] == 1)), 0, nil
	case strings.HasPrefix(w.Key, "/pins/pin/"):
		id := strings.TrimPrefix(w.Key, "/pins/pin/")
		if w.Del {
			return fmt.Sprintf("(WDelRec %d)", c.ID(id)), 0, nil
		}
		r, err := c.decodeRec(id, w.Value)
		if err != nil {
			return "", 0, err
		}
		return "(WPutRec " + r.coq() + ")", r.id, nil
	case strings.HasPrefix(w.Key, "/pins/index/"):
		which, k, id, err := c.parseIndexKey(w.Key)
		if err != nil {
			return "", 0, err
		}
		if w.Del {
			return fmt.Sprintf("(WDelIdx %s %d %d)", which, k, id), 0, nil
		}
		if len(w.Value) != 0 {
			return "", 0, fmt.Errorf("index entry with a value: %+v", w)
		}
		return fmt.Sprintf("(WAddIdx %s %d %d)", which, k, id), 0, nil
	}
	return "", 0, fmt.Errorf("write outside /pins: %q", w.Key)
}

// Injected reports how many injected failures have been delivered so far.
func (f *FailDAG) Injected() int {
	f.mu.Lock()
	defer f.mu.Unlock()
	return f.injected
}

// BuildFixed makes n nodes with the given child lists (children must have smaller indices).
func BuildFixed(n int, children func(i int) []int) *DAG {
	d := &DAG{Index: map[cid.Cid]int{}}
	for i := 0; i < n; i++ {
		nd := mdag.NodeWithData([]byte(fmt.Sprintf("verif-fixed-%d", i)))
		ls := append([]int(nil), children(i)...)
		sort.Ints(ls)
		for _, ch := range ls {
			if err := nd.AddNodeLink(fmt.Sprintf("l%d", ch), d.Nodes[ch]); err != nil {
				panic(err)
			}
		}
		d.Nodes = append(d.Nodes, nd)
		d.Cids = append(d.Cids, nd.Cid())
		d.Links = append(d.Links, ls)
		d.Index[nd.Cid()] = i
	}
	return d
}
