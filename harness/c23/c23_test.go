// Correspondence harness for C23 (dspinner crash consistency): histories of pin
// operations run on a real dspinner over a datastore that logs every write; for every
// operation and every prefix of its writes a fresh MapDatastore holding exactly that
// prefix is opened with dspinner.New (dirty-flag recovery) and its /pins content is
// dumped.  Writes, results and dumps are compared inside Coq with the model
// (lib/PinModel.v, model/M_C23.v) and checked against the specification.
package c23

import (
	"context"
	"errors"
	"fmt"
	"strings"
	"testing"

	ipfspinner "github.com/ipfs/boxo/pinning/pinner"
	"github.com/ipfs/boxo/pinning/pinner/dspinner"
	logging "github.com/ipfs/go-log/v2"

	"verif/harness/c23/pinh"
	"verif/harness/vh"
)

type op struct {
	kind  string // pin pinmode unpin update auto flush
	c, c2 int
	rec   bool
	name  int
	mode  int
	flag  bool
}

func (o op) coq() string {
	switch o.kind {
	case "pin":
		return fmt.Sprintf("(OPin %d %s %d true)", o.c, vh.Bool(o.rec), o.name)
	case "pinmode":
		return fmt.Sprintf("(OPinMode %d %d %d)", o.c, o.mode, o.name)
	case "unpin":
		return fmt.Sprintf("(OUnpin %d %s)", o.c, vh.Bool(o.rec))
	case "update":
		return fmt.Sprintf("(OUpdate %d %d %s true)", o.c, o.c2, vh.Bool(o.flag))
	case "auto":
		return fmt.Sprintf("(OSetAuto %s)", vh.Bool(o.flag))
	}
	return "OFlush"
}

func (o op) short() string {
	switch o.kind {
	case "pin":
		return fmt.Sprintf("pin(%d,rec=%v,n%d)", o.c, o.rec, o.name)
	case "pinmode":
		return fmt.Sprintf("pinmode(%d,m%d,n%d)", o.c, o.mode, o.name)
	case "unpin":
		return fmt.Sprintf("unpin(%d,rec=%v)", o.c, o.rec)
	case "update":
		return fmt.Sprintf("update(%d->%d,unpin=%v)", o.c, o.c2, o.flag)
	case "auto":
		return fmt.Sprintf("autosync(%v)", o.flag)
	}
	return "flush"
}

func resClass(err error) string {
	switch {
	case err == nil:
		return "ROk"
	case errors.Is(err, ipfspinner.ErrNotPinned):
		return "RNotPinned"
	case errors.Is(err, pinh.ErrInjected):
		return "RFetch"
	}
	return "RErr"
}

func genHistory(e *vh.Env, nNodes, maxLen int) []op {
	r := e.Rng
	n := 1 + r.Intn(maxLen)
	ops := make([]op, 0, n)
	// few distinct CIDs so that re-pins, mode changes and updates of pinned CIDs are frequent
	pool := []int{r.Intn(nNodes), r.Intn(nNodes), r.Intn(nNodes)}
	c := func() int {
		if r.Intn(6) == 0 {
			return r.Intn(nNodes)
		}
		return pool[r.Intn(len(pool))]
	}
	for i := 0; i < n; i++ {
		switch x := r.Intn(100); {
		case x < 40:
			ops = append(ops, op{kind: "pin", c: c(), rec: r.Intn(3) != 0, name: r.Intn(len(pinh.Names))})
		case x < 52:
			ops = append(ops, op{kind: "pinmode", c: c(), mode: []int{0, 0, 1, 1, 2, 5, 7}[r.Intn(7)], name: r.Intn(len(pinh.Names))})
		case x < 72:
			ops = append(ops, op{kind: "unpin", c: c(), rec: r.Intn(4) != 0})
		case x < 90:
			ops = append(ops, op{kind: "update", c: c(), c2: c(), flag: r.Intn(3) != 0})
		case x < 96:
			ops = append(ops, op{kind: "auto", flag: r.Intn(2) == 0})
		default:
			ops = append(ops, op{kind: "flush"})
		}
	}
	return ops
}

func corpus() [][]op {
	return [][]op{
		// C23-1: recursive re-pin with a new name; crash after the old record is deleted
		{{kind: "pin", c: 5, rec: true, name: 1}, {kind: "pin", c: 5, rec: true, name: 2}},
		// direct re-pin, direct -> recursive, recursive -> direct (rejected)
		{{kind: "pin", c: 3, rec: false, name: 1}, {kind: "pin", c: 3, rec: false, name: 0}, {kind: "pin", c: 3, rec: true, name: 2},
			{kind: "pin", c: 3, rec: false, name: 1}},
		// unpin: direct with recursive=false/true, recursive with recursive=false (rejected), not pinned
		{{kind: "pin", c: 2, rec: false, name: 1}, {kind: "unpin", c: 2, rec: false}, {kind: "pin", c: 4, rec: true, name: 0},
			{kind: "unpin", c: 4, rec: false}, {kind: "unpin", c: 4, rec: true}, {kind: "unpin", c: 4, rec: true}},
		// update with and without unpin, onto a directly pinned CID, onto itself
		{{kind: "pin", c: 5, rec: true, name: 3}, {kind: "pin", c: 4, rec: false, name: 1}, {kind: "update", c: 5, c2: 4, flag: true},
			{kind: "update", c: 4, c2: 3, flag: false}, {kind: "update", c: 4, c2: 4, flag: true}, {kind: "unpin", c: 4, rec: true}},
		// autosync off: the dirty flag stays set until Flush
		{{kind: "auto", flag: false}, {kind: "pin", c: 1, rec: true, name: 1}, {kind: "pin", c: 2, rec: false, name: 2}, {kind: "unpin", c: 1, rec: true},
			{kind: "flush"}, {kind: "auto", flag: true}, {kind: "pinmode", c: 2, mode: 0, name: 0}, {kind: "pinmode", c: 2, mode: 2, name: 0}},
	}
}

func TestC23(t *testing.T) {
	logging.SetLogLevel("pin", "fatal")
	e := vh.Load(t)
	ctx := context.Background()
	st := vh.NewStats("histories (1..8 operations) of Pin/PinWithMode/Unpin/Update/SetAutosync/Flush on a real dspinner over a write-logging " +
		"datastore; for every operation and every prefix of its datastore writes a fresh MapDatastore with that prefix is opened with " +
		"dspinner.New and dumped; evaluations = reopen cycles; non-trivial = history of at least 3 operations containing an operation " +
		"with at least 5 writes; distinct by the operation list")
	cs := vh.NewCases(e, "From V Require Import lib.PinModel model.M_C23.\nOpen Scope N_scope.", "case", "check_case", 25)
	nHist := e.Pick(90, 900)
	corp := corpus()
	const nNodes = 6
	reopens := 0
	for h := 0; h < nHist; h++ {
		var ops []op
		if h < len(corp) {
			ops = corp[h]
		} else {
			ops = genHistory(e, nNodes, 8)
		}
		dag := pinh.BuildDAG(e.Rng, nNodes, fmt.Sprint(h))
		dserv := pinh.NewDAGService(ctx, dag)
		pc := pinh.NewCtx(dag)
		lds := pinh.NewLogDS()
		p, err := dspinner.New(ctx, lds, dserv)
		if err != nil {
			t.Fatal(err)
		}
		var terms, shorts []string
		maxWrites := 0
		for _, o := range ops {
			snap := pinh.Snapshot(ctx, lds.Datastore)
			lds.Take()
			var err error
			switch o.kind {
			case "pin":
				err = p.Pin(ctx, dag.Nodes[o.c], o.rec, pinh.Names[o.name])
			case "pinmode":
				err = p.PinWithMode(ctx, dag.Cids[o.c], ipfspinner.Mode(o.mode), pinh.Names[o.name])
			case "unpin":
				err = p.Unpin(ctx, dag.Cids[o.c], o.rec)
			case "update":
				err = p.Update(ctx, dag.Cids[o.c], dag.Cids[o.c2], o.flag)
			case "auto":
				p.SetAutosync(o.flag)
			case "flush":
				err = p.Flush(ctx)
			}
			ws := lds.Take()
			if len(ws) > maxWrites {
				maxWrites = len(ws)
			}
			newID := 0
			wterms := make([]string, len(ws))
			for i, w := range ws {
				tm, id, werr := pc.WriteCoq(w)
				if werr != nil {
					t.Fatalf("history %d %s: %v", h, o.short(), werr)
				}
				if id != 0 {
					newID = id
				}
				wterms[i] = tm
			}
			after, derr := pc.Dump(ctx, lds.Datastore)
			if derr != nil {
				t.Fatalf("history %d %s: %v", h, o.short(), derr)
			}
			crashes := make([]string, 0, len(ws)+1)
			for n := 0; n <= len(ws); n++ {
				d2 := pinh.Rebuild(ctx, snap, ws[:n])
				p2, oerr := dspinner.New(ctx, d2, dserv)
				rp := map[string]any{"history": shorts, "op": o.short(), "crash_after_writes": n}
				if oerr != nil {
					st.Violate("dspinner.New fails on the datastore left by a crash", "", rp)
					crashes = append(crashes, "empty_store")
					continue
				}
				dump, derr := pc.Dump(ctx, d2)
				if derr != nil {
					t.Fatalf("history %d %s crash %d: %v", h, o.short(), n, derr)
				}
				// the reopened pinner's own answers must agree with the dumped indexes
				for i, c := range dag.Cids {
					_, isR, e1 := p2.IsPinnedWithType(ctx, c, ipfspinner.Recursive)
					_, isD, e2 := p2.IsPinnedWithType(ctx, c, ipfspinner.Direct)
					if e1 != nil || e2 != nil || isR != dump.Pinned(i, true) || isD != dump.Pinned(i, false) {
						st.Violate("IsPinnedWithType on the reopened pinner disagrees with the index keys in its datastore", "", rp)
					}
				}
				p2.Close()
				crashes = append(crashes, dump.Coq())
				reopens++
				st.Case(fmt.Sprintf("%d|%s|%s|%d", h, strings.Join(shorts, ";"), o.short(), n), false)
			}
			shorts = append(shorts, o.short())
			terms = append(terms, fmt.Sprintf("(mkobs %s %d %s %s %s %s)", o.coq(), newID, resClass(err), vh.List(wterms), after.Coq(), vh.List(crashes)))
			st.Count("op=" + o.kind)
			st.Count("res=" + resClass(err))
			st.Count(fmt.Sprintf("writes=%d", len(ws)))
		}
		p.Close()
		rp := map[string]any{"nodes": nNodes, "links": dag.Links, "ops": shorts}
		cs.Add("(Case "+vh.List(terms)+")", rp)
		st.Case("H|"+strings.Join(shorts, ";"), len(ops) >= 3 && maxWrites >= 5)
		st.Count(fmt.Sprintf("histlen=%d", len(ops)))
		st.Sample(rp, 4)
	}
	st.Extra["reopen_cycles"] = reopens
	cs.Close()
	st.Write(e)
}
