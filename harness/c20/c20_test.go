// Correspondence harness for C20 (mfs locking): 2-3 goroutines run short lists of
// MFS file operations on shared files while a controller decides, at every
// verifhook.Point placed before a lock acquisition in mfs/file.go and mfs/fd.go,
// which goroutine goes next (one chosen schedule at a time).  Per goroutine the
// sequence of points it passed and whether it finished are written into cases_*.v;
// Coq checks them against the lock programs of model/M_C20.v, and classifies a run
// in which the goroutines stop making progress (watchdog) as a deadlock.
// Acknowledged writes are checked here: what was closed/flushed is what later
// reads and the root DAG show.
package c20

import (
	"bytes"
	"context"
	"fmt"
	"io"
	"runtime"
	"strconv"
	"strings"
	"sync"
	"testing"
	"time"

	bserv "github.com/ipfs/boxo/blockservice"
	bstore "github.com/ipfs/boxo/blockstore"
	offline "github.com/ipfs/boxo/exchange/offline"
	dag "github.com/ipfs/boxo/ipld/merkledag"
	ft "github.com/ipfs/boxo/ipld/unixfs"
	uio "github.com/ipfs/boxo/ipld/unixfs/io"
	"github.com/ipfs/boxo/mfs"
	cid "github.com/ipfs/go-cid"
	ds "github.com/ipfs/go-datastore"
	dssync "github.com/ipfs/go-datastore/sync"
	ipld "github.com/ipfs/go-ipld-format"

	"verif/harness/vh"
)

const (
	settle   = 1500 * time.Microsecond // how long a released goroutine gets to reach its next point
	watchdog = 8 * time.Second         // no progress for this long with unfinished goroutines = deadlock
)

var files = []string{"/d/f", "/g"}

var pointNames = map[string]string{
	"File.Open:desclock.Lock":        "POpenDescLock",
	"File.Open:desclock.RLock":       "POpenDescRLock",
	"File.Open:nodeLock.RLock":       "POpenNodeRLock",
	"File.Size:nodeLock.RLock":       "PSizeNodeRLock",
	"File.GetNode:nodeLock.RLock":    "PGetNodeRLock",
	"File.Mode:nodeLock.RLock":       "PModeNodeRLock",
	"File.ModTime:nodeLock.RLock":    "PModTimeNodeRLock",
	"File.setNodeData:nodeLock.Lock": "PSetNodeDataLock",
	"fd.Write:mu.Lock":               "PFdWrite",
	"fd.Read:mu.Lock":                "PFdRead",
	"fd.Close:mu.Lock":               "PFdClose",
	"fd.Flush:mu.Lock":               "PFdFlush",
	"fd.Truncate:mu.Lock":            "PFdTruncate",
	"fd.flushUp:nodeLock.Lock":       "PFlushUpNodeLock",
	// only present when the optional hook fixes/hook-C20-dir.patch is applied
	"Directory.getNode:lock.Lock":     "PDirGetNode",
	"Directory.localUpdate:lock.Lock": "PDirLocalUpdate",
}

type op struct {
	Kind string `json:"op"` // write read mode modtime chmod touch size flushfile listd flushdir flushpathd
	F    int    `json:"f"`
	Sync bool   `json:"sync,omitempty"`
	Flush bool  `json:"fdflush,omitempty"` // write: explicit fd.Flush() before the Close
	Data string `json:"data,omitempty"`
}

func (o op) coq() string {
	f := strconv.Itoa(o.F) + "%nat"
	switch o.Kind {
	case "write":
		if o.Flush {
			return vh.App("OWriteFlush", f, vh.Bool(o.Sync))
		}
		return vh.App("OWrite", f, vh.Bool(o.Sync))
	case "read":
		return vh.App("ORead", f)
	case "mode":
		return vh.App("OMode", f)
	case "modtime":
		return vh.App("OModTime", f)
	case "chmod":
		return vh.App("OChmod", f)
	case "touch":
		return vh.App("OTouch", f)
	case "size":
		return vh.App("OSize", f)
	case "flushfile":
		return vh.App("OFlushFile", f)
	case "flushdir":
		return "OFlushDir"
	case "flushpathd":
		return "OFlushPathD"
	}
	return "OListD"
}

func goid() int64 {
	var buf [64]byte
	n := runtime.Stack(buf[:], false)
	s := strings.TrimPrefix(string(buf[:n]), "goroutine ")
	s = s[:strings.IndexByte(s, ' ')]
	id, _ := strconv.ParseInt(s, 10, 64)
	return id
}

// ---------- the controller ----------

type tstate struct {
	parked  bool
	point   string
	resume  chan struct{}
	done    bool
	trace   []string
	reads   []string // what its read operations returned
	unknown []string
}

// one entry of the global log: a point pass (released by the controller), or the begin/end of
// an operation (logged by the goroutine itself)
type pass struct {
	T     int    `json:"t"`
	Point string `json:"point,omitempty"`
	Begin int    `json:"begin_op,omitempty"` // 1-based index of the operation that begins
	End   int    `json:"end_op,omitempty"`   // 1-based index of the operation that ended
}

type sched struct {
	order   []pass // every point pass, in the order the controller released them
	mu      sync.Mutex
	cond    chan struct{} // signalled on every park / finish
	threads []*tstate
	byGoid  map[int64]int
}

func (s *sched) signal() {
	select {
	case s.cond <- struct{}{}:
	default:
	}
}

// hook is called by verifhook.Point: goroutines of the case park until released.
func (s *sched) hook(name string) {
	id := goid()
	s.mu.Lock()
	i, ok := s.byGoid[id]
	if !ok {
		s.mu.Unlock()
		return
	}
	th := s.threads[i]
	th.parked, th.point = true, name
	s.mu.Unlock()
	s.signal()
	<-th.resume
}

// runCase runs the threads under the schedule preference `pref` (thread indices, consumed
// one per decision; when exhausted or the preferred thread is not parked, rnd decides).
func runCase(fsys *world, threads [][]op, pref []int, rnd func(n int) int) (traces [][]string, dones []bool, reads [][]string, hung bool, unknown []string, order []pass) {
	s := &sched{cond: make(chan struct{}, 1), byGoid: map[int64]int{}}
	for range threads {
		s.threads = append(s.threads, &tstate{resume: make(chan struct{})})
	}
	mfs.VerifSetHook(s.hook)
	defer mfs.VerifSetHook(nil)
	for i := range threads {
		i := i
		started := make(chan struct{})
		go func() {
			s.mu.Lock()
			s.byGoid[goid()] = i
			s.mu.Unlock()
			close(started)
			for k, o := range threads[i] {
				s.mu.Lock()
				s.order = append(s.order, pass{T: i, Begin: k + 1})
				s.mu.Unlock()
				r := fsys.exec(i, o)
				s.mu.Lock()
				s.order = append(s.order, pass{T: i, End: k + 1})
				if o.Kind == "read" {
					s.threads[i].reads = append(s.threads[i].reads, r)
				}
				if strings.HasPrefix(r, "ERR ") {
					s.threads[i].unknown = append(s.threads[i].unknown, "operation "+o.Kind+" failed: "+r)
				}
				s.mu.Unlock()
			}
			s.mu.Lock()
			s.threads[i].done = true
			s.mu.Unlock()
			s.signal()
		}()
		<-started
	}
	waitChange := func(d time.Duration) bool {
		select {
		case <-s.cond:
			return true
		case <-time.After(d):
			return false
		}
	}
	lastProgress := time.Now()
	for {
		s.mu.Lock()
		var parked []int
		alldone := true
		for i, th := range s.threads {
			if th.parked {
				parked = append(parked, i)
			}
			if !th.done {
				alldone = false
			}
		}
		s.mu.Unlock()
		if alldone {
			break
		}
		if len(parked) == 0 {
			if waitChange(50 * time.Millisecond) {
				lastProgress = time.Now()
			} else if time.Since(lastProgress) > watchdog {
				hung = true
				break
			}
			continue
		}
		lastProgress = time.Now()
		pick := -1
		if len(pref) > 0 {
			want := pref[0]
			pref = pref[1:]
			// the preferred goroutine may still be on its way to its next point
			for t0 := time.Now(); want < len(s.threads) && time.Since(t0) < 25*time.Millisecond; {
				s.mu.Lock()
				arrived := s.threads[want].parked || s.threads[want].done
				if arrived && s.threads[want].parked {
					parked = append(parked, want)
				}
				s.mu.Unlock()
				if arrived {
					break
				}
				waitChange(2 * time.Millisecond)
			}
			for _, p := range parked {
				if p == want {
					pick = p
				}
			}
		}
		if pick < 0 {
			pick = parked[rnd(len(parked))]
		}
		s.mu.Lock()
		th := s.threads[pick]
		th.parked = false
		th.trace = append(th.trace, th.point)
		s.order = append(s.order, pass{T: pick, Point: th.point})
		if _, ok := pointNames[th.point]; !ok {
			th.unknown = append(th.unknown, th.point)
		}
		s.mu.Unlock()
		th.resume <- struct{}{}
		// let it run to its next point (or block in the lock, or finish)
		deadline := time.Now().Add(settle)
		for time.Now().Before(deadline) {
			waitChange(time.Until(deadline))
			s.mu.Lock()
			moved := th.parked || th.done
			s.mu.Unlock()
			if moved {
				break
			}
		}
	}
	s.mu.Lock()
	defer s.mu.Unlock()
	for _, th := range s.threads {
		traces = append(traces, append([]string{}, th.trace...))
		dones = append(dones, th.done)
		reads = append(reads, append([]string{}, th.reads...))
		unknown = append(unknown, th.unknown...)
	}
	order = append([]pass{}, s.order...)
	return
}

// evictedUnderOperation reports whether the run has the signature of finding C20-3 on file f:
// a cache-cleaning flush of the file's directory (flushdir / flushpathd, file 0 only) ran while
// another goroutine was inside an operation that keeps using the *File it looked up before and
// does not link its own fresh content itself: a non-sync write, File.Flush, Chmod or Touch.
func evictedUnderOperation(threads [][]op, order []pass, f int) bool {
	if f != 0 {
		return false
	}
	type win struct{ t, from, to int }
	window := func(t, k int) win {
		w := win{t, -1, len(order)}
		for i, p := range order {
			if p.T == t && p.Begin == k+1 {
				w.from = i
			}
			if p.T == t && p.End == k+1 {
				w.to = i
			}
		}
		return w
	}
	var flushes, victims, syncVictims, lookups []win
	for t, ops := range threads {
		for k, o := range ops {
			switch {
			case o.Kind == "flushdir" || o.Kind == "flushpathd":
				flushes = append(flushes, window(t, k))
			case o.F == 0 && (o.Kind == "flushfile" || o.Kind == "chmod" || o.Kind == "touch" || (o.Kind == "write" && !o.Sync && !o.Flush)):
				victims = append(victims, window(t, k))
			case o.F == 0 && o.Kind == "write" && (o.Sync || o.Flush): // links its node itself (sync Close / explicit fd.Flush)
				syncVictims = append(syncVictims, window(t, k))
			}
			if o.F == 0 && o.Kind != "flushdir" && o.Kind != "flushpathd" {
				lookups = append(lookups, window(t, k)) // every operation on file 0 starts by looking it up
			}
		}
	}
	overlap := func(a, b win) bool {
		return a.t != b.t && a.from >= 0 && b.from >= 0 && a.from < b.to && b.from < a.to
	}
	for _, fl := range flushes {
		for _, v := range victims {
			if overlap(fl, v) {
				return true
			}
		}
		// a sync Close through the orphan does link its node, but it is shadowed (and later
		// overwritten) if somebody else re-loaded the file into the cache in the meantime
		for _, v := range syncVictims {
			if !overlap(fl, v) {
				continue
			}
			for _, l := range lookups {
				// the re-load happens somewhere inside the other operation: after the flush began, before the close ended
				if l.t != v.t && l.from >= 0 && l.to > fl.from && l.from < v.to {
					return true
				}
			}
		}
	}
	return false
}

// staleMetaWriteback reports whether the run has the signature of finding C20-2 on file f:
// a goroutine's SetMode/SetModTime read the file's node (GetNode point) and wrote a node
// derived from it back (setNodeData point) while, in between, another goroutine's
// descriptor flushed a write of the same file.
func staleMetaWriteback(threads [][]op, order []pass, f int) bool {
	// k-th setNodeData pass of a goroutine belongs to its k-th chmod/touch; k-th flushUp pass to its k-th write/read/flushfile
	nth := func(t int, kinds map[string]bool, k int) (op, bool) {
		for _, o := range threads[t] {
			if kinds[o.Kind] {
				if k == 0 {
					return o, true
				}
				k--
			}
		}
		return op{}, false
	}
	metaKinds := map[string]bool{"chmod": true, "touch": true}
	flushKinds := map[string]bool{"write": true, "read": true, "flushfile": true}
	setSeen := map[int]int{}
	for i, p := range order {
		if p.Point != "File.setNodeData:nodeLock.Lock" {
			continue
		}
		o, ok := nth(p.T, metaKinds, setSeen[p.T])
		setSeen[p.T]++
		if !ok || o.F != f {
			continue
		}
		// the GetNode pass of the same goroutine right before
		g := -1
		for j := i - 1; j >= 0; j-- {
			if order[j].T == p.T {
				if order[j].Point == "File.GetNode:nodeLock.RLock" {
					g = j
				}
				break
			}
		}
		if g < 0 {
			continue
		}
		flushSeen := map[int]int{}
		for j, q := range order {
			if q.Point != "fd.flushUp:nodeLock.Lock" {
				continue
			}
			o2, ok2 := nth(q.T, flushKinds, flushSeen[q.T])
			flushSeen[q.T]++
			if ok2 && q.T != p.T && o2.F == f && (o2.Kind == "write" || o2.Kind == "flushfile") && j > g && j < i {
				return true
			}
		}
	}
	return false
}

// ---------- the filesystem under test ----------

type world struct {
	ctx   context.Context
	dserv ipld.DAGService
	rt    *mfs.Root
}

const initial = "initial"

func newWorld() (*world, error) {
	db := dssync.MutexWrap(ds.NewMapDatastore())
	bs := bstore.NewBlockstore(db)
	w := &world{ctx: context.Background(), dserv: dag.NewDAGService(bserv.New(bs, offline.Exchange(bs)))}
	rt, err := mfs.NewEmptyRoot(w.ctx, w.dserv, func(context.Context, cid.Cid) error { return nil }, nil)
	if err != nil {
		return nil, err
	}
	w.rt = rt
	if err := mfs.Mkdir(rt, "/d", mfs.MkdirOpts{}); err != nil {
		return nil, err
	}
	for _, p := range files {
		if err := mfs.PutNode(rt, p, dag.NodeWithData(ft.FilePBData(nil, 0))); err != nil {
			return nil, err
		}
		n, err := mfs.Lookup(rt, p)
		if err != nil {
			return nil, err
		}
		fd, err := n.(*mfs.File).Open(w.ctx, mfs.Flags{Write: true, Sync: true})
		if err != nil {
			return nil, err
		}
		fd.Write([]byte(initial))
		if err := fd.Close(); err != nil {
			return nil, err
		}
	}
	return w, nil
}

func (w *world) file(f int) *mfs.File {
	n, err := mfs.Lookup(w.rt, files[f])
	if err != nil {
		panic(err)
	}
	return n.(*mfs.File)
}

// exec runs one operation (thread t); returns what a read saw.
func (w *world) exec(t int, o op) string {
	switch o.Kind {
	case "write":
		fd, err := w.file(o.F).Open(w.ctx, mfs.Flags{Write: true, Sync: o.Sync})
		if err != nil {
			return "ERR " + err.Error()
		}
		fd.Truncate(0)
		fd.Write([]byte(o.Data))
		if o.Flush {
			if err := fd.Flush(); err != nil {
				fd.Close()
				return "ERR " + err.Error()
			}
		}
		fd.Close()
	case "read":
		fd, err := w.file(o.F).Open(w.ctx, mfs.Flags{Read: true})
		if err != nil {
			return "ERR " + err.Error()
		}
		buf := make([]byte, 256)
		n, _ := fd.Read(buf)
		fd.Close()
		return string(buf[:n])
	case "mode":
		w.file(o.F).Mode()
	case "modtime":
		w.file(o.F).ModTime()
	case "chmod":
		mfs.Chmod(w.rt, files[o.F], 0o640)
	case "touch":
		mfs.Touch(w.rt, files[o.F], time.Unix(1000, 0))
	case "size":
		w.file(o.F).Size()
	case "flushfile":
		w.file(o.F).Flush()
	case "listd":
		n, err := mfs.Lookup(w.rt, "/d")
		if err == nil {
			n.(*mfs.Directory).List(w.ctx)
		}
	case "flushdir": // cache-cleaning flush of the parent directory of file 0
		n, err := mfs.Lookup(w.rt, "/d")
		if err == nil {
			if err := n.(*mfs.Directory).Flush(); err != nil {
				return "ERR " + err.Error()
			}
		}
	case "flushpathd":
		if _, err := mfs.FlushPath(w.ctx, w.rt, "/d"); err != nil {
			return "ERR " + err.Error()
		}
	}
	return ""
}

// content of file f as MFS shows it, and as the DAG under the root node holds it
func (w *world) contents(f int) (shown, persisted string, err error) {
	fd, err := w.file(f).Open(w.ctx, mfs.Flags{Read: true})
	if err != nil {
		return "", "", err
	}
	b, err := io.ReadAll(fd)
	fd.Close()
	if err != nil {
		return "", "", err
	}
	root, err := w.rt.GetDirectory().GetNode()
	if err != nil {
		return "", "", err
	}
	cur := root
	for _, name := range strings.Split(strings.Trim(files[f], "/"), "/") {
		d, err := uio.NewDirectoryFromNode(w.dserv, cur)
		if err != nil {
			return "", "", err
		}
		cur, err = d.Find(w.ctx, name)
		if err != nil {
			return "", "", err
		}
	}
	r, err := uio.NewDagReader(w.ctx, cur, w.dserv)
	if err != nil {
		return "", "", err
	}
	pb, err := io.ReadAll(r)
	return string(b), string(pb), err
}

// ---------- generator ----------

func genThreads(e *vh.Env, caseNo int) [][]op {
	r := e.Rng
	nth := 2 + r.Intn(2)
	kinds := []string{"write", "write", "write", "read", "mode", "modtime", "chmod", "touch", "size", "flushfile", "listd", "flushdir", "flushdir", "flushpathd"}
	// most threads work on the same file so that they meet on its locks
	hot := r.Intn(3) / 2 // file 0 (/d/f, the one directory flushes concern) twice as often
	out := make([][]op, nth)
	for t := range out {
		n := 1 + r.Intn(3)
		for k := 0; k < n; k++ {
			o := op{Kind: kinds[r.Intn(len(kinds))], F: hot}
			if r.Intn(5) == 0 {
				o.F = 1 - hot
			}
			if o.Kind == "write" {
				o.Sync = r.Intn(2) == 0
				o.Flush = r.Intn(3) == 0
				o.Data = fmt.Sprintf("c%d-t%d-op%d", caseNo, t, k)
			}
			if o.Kind == "listd" || o.Kind == "flushdir" || o.Kind == "flushpathd" {
				o.F = 0
			}
			out[t] = append(out[t], o)
		}
	}
	return out
}

type replay struct {
	Threads [][]op     `json:"threads"`
	Pref    []int      `json:"schedule_preference"`
	Traces  [][]string `json:"points_passed"`
	Done    []bool     `json:"finished"`
	Hung    bool       `json:"hung"`
	Order   []pass     `json:"global_order"`
}

func TestC20(t *testing.T) {
	e := vh.Load(t)
	st := vh.NewStats("2-3 goroutines with 1-3 operations each (write sync/non-sync, read, Mode, ModTime, Chmod, Touch, Size, File.Flush, List) mostly on one shared " +
		"file of a fresh MFS root (/d/f, /g), plus cache-cleaning flushes of the directory /d (Directory.Flush, FlushPath), one schedule per case chosen at the verifhook points before the lock acquisitions of mfs/file.go and mfs/fd.go " +
		"(corpus: the Mode/ModTime-versus-writer schedules, then a descriptor Flush / sync Close / non-sync Close / non-Sync descriptor with explicit fd.Flush parked at each of its points against a directory flush; then seeded random schedules); non-trivial = at least two goroutines use the same file and " +
		"one of them takes its node lock for writing; distinct by (operations, points passed per goroutine)")
	cs := vh.NewCases(e, "From V Require Import model.M_C20.", "case", "check_case", 100)
	n := e.Pick(260, 5000)
	type fixed struct {
		threads [][]op
		pref    []int
	}
	w := func(f int, sync bool) op { return op{Kind: "write", F: f, Sync: sync, Data: "corpus"} }
	corpus := []fixed{
		// finding C20-1: Mode / ModTime hold nodeLock.RLock, a writer announces, the nested GetNode RLock blocks
		{[][]op{{{Kind: "mode", F: 0}}, {{Kind: "chmod", F: 0}}}, []int{0, 1, 1, 0, 0}},
		{[][]op{{{Kind: "modtime", F: 1}}, {{Kind: "touch", F: 1}}}, []int{0, 1, 1, 0, 0}},
		{[][]op{{{Kind: "mode", F: 0}}, {w(0, true)}}, []int{0, 1, 1, 1, 1, 1, 1, 0, 0}},
		{[][]op{{{Kind: "modtime", F: 0}}, {{Kind: "flushfile", F: 0}}}, []int{0, 1, 1, 1, 1, 0, 0}},
		// finding C20-2: Touch reads the node, a write is closed, Touch writes the stale node back
		{[][]op{{{Kind: "touch", F: 1}}, {w(1, false)}}, []int{0, 1, 1, 1, 1, 1, 1, 0}},
		// writers and readers of one file, metadata, listing
		{[][]op{{w(0, true)}, {w(0, false)}, {{Kind: "read", F: 0}}}, []int{0, 1, 2, 0, 1, 2, 0, 1, 2}},
		{[][]op{{w(0, false), {Kind: "read", F: 0}}, {{Kind: "listd"}, {Kind: "size", F: 0}}}, []int{0, 0, 1, 0, 1, 0, 1}},
		{[][]op{{{Kind: "flushfile", F: 1}}, {{Kind: "chmod", F: 1}}, {{Kind: "mode", F: 1}}}, []int{2, 0, 1, 2, 1, 0}},
	}
	// a descriptor Flush / sync Close parked at each of its points while the parent directory is
	// flushed with cache cleaning (Directory.Flush, FlushPath): the other goroutine waits at a point
	// of its own first operation (Size of /g) — outside the directory lock — until the descriptor
	// has passed k points, then runs its directory flush to the end
	for _, fl := range []string{"flushdir", "flushpathd"} {
		for _, wr := range []op{w(0, true), {Kind: "flushfile", F: 0}, w(0, false), {Kind: "write", F: 0, Flush: true}, {Kind: "write", F: 0, Sync: true, Flush: true}} {
			for k := 1; k <= 7; k++ {
				pref := []int{}
				for j := 0; j < k; j++ {
					pref = append(pref, 0)
				}
				pref = append(pref, 1, 1, 1, 1, 1, 0, 0, 0, 0, 0, 0, 0, 0, 0, 0)
				wr := wr
				wr.Data = fmt.Sprintf("%s-vs-%s-%d", wr.Kind, fl, k)
				if wr.Kind != "write" {
					wr.Data = ""
				}
				corpus = append(corpus, fixed{[][]op{{wr}, {{Kind: "size", F: 1}, {Kind: fl, F: 0}}}, pref})
			}
		}
	}
	hangs := 0
	for i := 0; i < n; i++ {
		var threads [][]op
		var pref []int
		if i < len(corpus) {
			threads, pref = corpus[i].threads, corpus[i].pref
		} else {
			threads = genThreads(e, i)
			for k := e.Rng.Intn(6); k > 0; k-- {
				pref = append(pref, e.Rng.Intn(len(threads)))
			}
		}
		if hangs >= 8 {
			// every hang costs a watchdog period; a handful is enough to report
			st.Count("stopped-early-after-8-hangs")
			break
		}
		fsys, err := newWorld()
		if err != nil {
			t.Fatal(err)
		}
		traces, dones, reads, hung, unknown, order := runCase(fsys, threads, pref, e.Rng.Intn)
		rp := replay{threads, pref, traces, dones, hung, order}
		for _, u := range unknown {
			st.Violate("a schedule point the model does not know was passed: "+u, "", rp)
		}
		if hung {
			hangs++
			st.Count("hung")
		} else {
			// acknowledged writes: every read saw the initial content or one of the writes; at the end
			// MFS shows, and the root DAG holds, one of the writes to the file (the only one if only one
			// goroutine wrote it), or the initial content if nobody wrote
			for f := range files {
				var datas []string
				writers := map[int]bool{}
				lastOf := map[int]string{}
				for ti, ops := range threads {
					for _, o := range ops {
						if o.Kind == "write" && o.F == f {
							datas = append(datas, o.Data)
							writers[ti] = true
							lastOf[ti] = o.Data
						}
					}
				}
				shown, persisted, err := fsys.contents(f)
				if err != nil {
					st.Violate("reading the final state failed: "+err.Error(), "", rp)
					continue
				}
				okFinal := len(datas) == 0 && shown == initial
				for _, d := range datas {
					okFinal = okFinal || shown == d
				}
				if len(writers) == 1 {
					for ti := range writers {
						okFinal = shown == lastOf[ti]
					}
				}
				if !okFinal {
					fid := ""
					if staleMetaWriteback(threads, order, f) {
						fid = "C20-2"
					} else if evictedUnderOperation(threads, order, f) {
						fid = "C20-3"
					}
					st.Violate(fmt.Sprintf("after all descriptors were closed %s shows %q, which is not an acknowledged write", files[f], shown), fid, rp)
				}
				if shown != persisted {
					st.Violate(fmt.Sprintf("%s shows %q but the root DAG holds %q", files[f], shown, persisted), "", rp)
				}
			}
			for ti, ops := range threads {
				ri := 0
				own := map[int]string{}
				for _, o := range ops {
					if o.Kind == "write" {
						own[o.F] = o.Data
					}
					if o.Kind != "read" {
						continue
					}
					got := reads[ti][ri]
					ri++
					ok := got == initial
					others := false
					for tj, ops2 := range threads {
						for _, o2 := range ops2 {
							if o2.Kind == "write" && o2.F == o.F {
								ok = ok || got == o2.Data
								others = others || tj != ti
							}
						}
					}
					if d, mine := own[o.F]; mine && !others {
						ok = got == d
					}
					if !ok {
						fid := ""
						if staleMetaWriteback(threads, order, o.F) {
							fid = "C20-2"
						} else if evictedUnderOperation(threads, order, o.F) {
							fid = "C20-3"
						}
						st.Violate(fmt.Sprintf("goroutine %d read %q from %s: not the data it closed itself / not an acknowledged write", ti, got, files[o.F]), fid, rp)
					}
				}
			}
		}
		if !hung {
			fsys.rt.Close() // stops the republisher goroutine of this root
		}
		var thr, trc, dn []string
		nontriv := false
		for ti, ops := range threads {
			thr = append(thr, vh.ListOf(ops, func(o op) string { return o.coq() }))
			var pts []string
			for _, p := range traces[ti] {
				if c, ok := pointNames[p]; ok {
					pts = append(pts, c)
				}
			}
			trc = append(trc, vh.List(pts))
			dn = append(dn, vh.Bool(dones[ti]))
			for _, o := range ops {
				st.Count("op:" + o.Kind)
				if o.Kind == "write" || o.Kind == "chmod" || o.Kind == "touch" || o.Kind == "flushfile" {
					for tj, ops2 := range threads {
						for _, o2 := range ops2 {
							if tj != ti && o2.F == o.F {
								nontriv = true
							}
						}
					}
				}
			}
		}
		cs.Add(vh.App("Case", vh.List(thr), vh.List(trc), vh.List(dn)), rp)
		var key bytes.Buffer
		fmt.Fprint(&key, thr, trc)
		st.Case(key.String(), nontriv)
		st.Count(fmt.Sprintf("goroutines:%d", len(threads)))
		if i%17 == 0 {
			st.Sample(rp, 5)
		}
	}
	cs.Close()
	st.Write(e)
}
