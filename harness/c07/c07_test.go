// Correspondence harness for C07 (UnixFS file import, balanced and trickle
// layouts).  For generated (data, chunker, width, leaf type, CID builder,
// mode/mtime) it runs the real importer, reads the DAG back node by node from the
// DAGService, reads the file through the DagReader, imports a second time into
// another store, and writes everything it saw into cases_*.v, where the Coq model
// (model/M_C07.v) rebuilds the tree from the chunk list and the specification is
// evaluated.  Byte-level content equality is decided here (payloads are too big
// for Coq); shapes, sizes, metadata and leaf order (length + fingerprint) go
// through Coq.
package c07

import (
	"bytes"
	"context"
	"fmt"
	"hash/fnv"
	"io"
	"math/rand"
	"os"
	"path/filepath"
	"strings"
	"testing"
	"time"

	chunker "github.com/ipfs/boxo/chunker"
	"github.com/ipfs/boxo/files"
	dag "github.com/ipfs/boxo/ipld/merkledag"
	mdtest "github.com/ipfs/boxo/ipld/merkledag/test"
	ft "github.com/ipfs/boxo/ipld/unixfs"
	"github.com/ipfs/boxo/ipld/unixfs/importer/balanced"
	h "github.com/ipfs/boxo/ipld/unixfs/importer/helpers"
	"github.com/ipfs/boxo/ipld/unixfs/importer/trickle"
	uio "github.com/ipfs/boxo/ipld/unixfs/io"
	cid "github.com/ipfs/go-cid"
	ipld "github.com/ipfs/go-ipld-format"
	mh "github.com/multiformats/go-multihash"

	"verif/harness/vh"
)

// ---------- configuration of one import ----------
type config struct {
	Layout  string `json:"layout"` // balanced | trickle
	Width   int    `json:"width"`
	Raw     bool   `json:"raw_leaves"`
	Chunker string `json:"chunker"`
	Cid     string `json:"cid"`   // nil | v0 | v1-sha256 | v1-blake2b | v1-sha512
	Perms   uint32 `json:"perms"` // unix permission word, 0 = none
	HasMt   bool   `json:"has_mtime"`
	Sec     int64  `json:"mtime_sec"`
	Nsec    int64  `json:"mtime_nsec"`
	DataLen int    `json:"data_len"`
	DataGen string `json:"data_gen"` // random | zero | period-K
	DataSd  int64  `json:"data_seed"`
	Reader  string `json:"reader"`  // kind of input stream of the import that is observed: bytes | short | pathfile | serial
	Reader2 string `json:"reader2"` // kind of input stream of the second import (always a different kind)
}

// Input streams.  The importer must not care how the bytes arrive: a plain
// bytes.Reader, irregular short reads, a files.ReaderFile that knows a source path
// (files.NewReaderPathFile) or a files.NewSerialFile over a real file on disk; the
// last two implement files.FileInfo, which only matters with NoCopy (never set here).
var readerKinds = []string{"bytes", "short", "pathfile", "serial"}

var tmpDir string // set by TestC07

func mkReader(kind string, data []byte, rng *rand.Rand) (io.Reader, func(), error) {
	switch kind {
	case "short":
		return &shortReader{r: bytes.NewReader(data), rng: rng}, func() {}, nil
	case "pathfile":
		f, err := files.NewReaderPathFile("/verif-c07/source/input.bin", io.NopCloser(bytes.NewReader(data)), nil)
		if err != nil {
			return nil, nil, err
		}
		return f, func() { f.Close() }, nil
	case "serial":
		path := filepath.Join(tmpDir, "input.bin")
		if err := os.WriteFile(path, data, 0o640); err != nil {
			return nil, nil, err
		}
		stat, err := os.Lstat(path)
		if err != nil {
			return nil, nil, err
		}
		nd, err := files.NewSerialFile(path, false, stat)
		if err != nil {
			return nil, nil, err
		}
		f, ok := nd.(files.File)
		if !ok {
			return nil, nil, fmt.Errorf("NewSerialFile on a regular file did not return a files.File")
		}
		return f, func() { f.Close() }, nil
	}
	return bytes.NewReader(data), func() {}, nil
}

func genReaders(r *rand.Rand, c *config) {
	switch x := r.Intn(20); {
	case x < 7:
		c.Reader = "bytes"
	case x < 10:
		c.Reader = "short"
	case x < 16:
		c.Reader = "pathfile"
	default:
		c.Reader = "serial"
	}
	for {
		c.Reader2 = readerKinds[r.Intn(len(readerKinds))]
		if c.Reader2 != c.Reader {
			return
		}
	}
}

func (c config) builder() cid.Builder {
	switch c.Cid {
	case "v0":
		return cid.V0Builder{}
	case "v1-sha256":
		return cid.V1Builder{Codec: cid.DagProtobuf, MhType: mh.SHA2_256}
	case "v1-blake2b":
		return cid.V1Builder{Codec: cid.DagProtobuf, MhType: mh.BLAKE2B_MIN + 31}
	case "v1-sha512":
		return cid.V1Builder{Codec: cid.DagProtobuf, MhType: mh.SHA2_512}
	}
	return nil
}

func (c config) mtime() time.Time {
	if !c.HasMt {
		return time.Time{}
	}
	return time.Unix(c.Sec, c.Nsec)
}

func (c config) data() []byte {
	b := make([]byte, c.DataLen)
	switch {
	case c.DataGen == "random":
		rand.New(rand.NewSource(c.DataSd)).Read(b)
	case strings.HasPrefix(c.DataGen, "period-"):
		var p int
		fmt.Sscanf(c.DataGen, "period-%d", &p)
		if p < 1 {
			p = 1
		}
		for i := range b {
			b[i] = byte(i%p + 1)
		}
	}
	return b
}

func (c config) metaCoq() string {
	return vh.App("Meta", vh.Z(int64(c.Perms)), vh.Bool(c.HasMt), vh.Z(c.Sec), vh.Z(c.Nsec))
}

func (c config) coq() string {
	lk := "Balanced"
	if c.Layout == "trickle" {
		lk = "Trickle"
	}
	return vh.App("Config", lk, vh.Nat(c.Width), vh.Bool(c.Raw), c.metaCoq())
}

// shortReader delivers the data in irregular short reads.
type shortReader struct {
	r   io.Reader
	rng *rand.Rand
}

func (s *shortReader) Read(p []byte) (int, error) {
	if len(p) > 1 {
		n := 1 + s.rng.Intn(len(p))
		if s.rng.Intn(3) == 0 {
			n = 1 + s.rng.Intn(7)
			if n > len(p) {
				n = len(p)
			}
		}
		p = p[:n]
	}
	return s.r.Read(p)
}

// fp is a 16-bit fingerprint (folded FNV-1a) of a payload; Coq compares (length,
// fingerprint) pairs, the bytes themselves are compared here.
func fp(b []byte) uint32 {
	f := fnv.New32a()
	f.Write(b)
	s := f.Sum32()
	return (s >> 16) ^ (s & 0xffff)
}

func chunkCoq(n int, f uint32) string { return "(" + vh.Z(int64(n)) + ", " + vh.Z(int64(f)) + ")" }

// ---------- running the importer ----------
func doImport(c config, data []byte, ds ipld.DAGService, r io.Reader) (ipld.Node, error) {
	spl, err := chunker.FromString(r, c.Chunker)
	if err != nil {
		return nil, err
	}
	dbp := h.DagBuilderParams{
		Maxlinks:    c.Width,
		RawLeaves:   c.Raw,
		CidBuilder:  c.builder(),
		Dagserv:     ds,
		FileMode:    files.UnixPermsToModePerms(c.Perms),
		FileModTime: c.mtime(),
	}
	db, err := dbp.New(spl)
	if err != nil {
		return nil, err
	}
	if c.Layout == "trickle" {
		return trickle.Layout(db)
	}
	return balanced.Layout(db)
}

// ---------- reading the DAG back ----------
type walker struct {
	ctx    context.Context
	ds     ipld.DAGService
	c      config
	anoms  map[int]bool
	leaves [][]byte
	nodes  int
	height int
}

func (w *walker) checkPrefix(n ipld.Node, raw bool) {
	p := n.Cid().Prefix()
	wantVer, wantCodec, wantMh := uint64(0), uint64(cid.DagProtobuf), uint64(mh.SHA2_256)
	switch w.c.Cid {
	case "v1-sha256":
		wantVer = 1
	case "v1-blake2b":
		wantVer, wantMh = 1, mh.BLAKE2B_MIN+31
	case "v1-sha512":
		wantVer, wantMh = 1, mh.SHA2_512
	}
	if raw {
		wantVer, wantCodec = 1, cid.Raw
	}
	if p.Version != wantVer || p.Codec != wantCodec || p.MhType != wantMh {
		w.anoms[5] = true
	}
}

// tree renders the node as a lib/Tree.v term.  A dag-pb node without links is a
// leaf holding its inline data (an empty File node included: same block).
func (w *walker) tree(n ipld.Node, depth int, root bool) string {
	w.nodes++
	if depth > w.height {
		w.height = depth
	}
	switch nd := n.(type) {
	case *dag.RawNode:
		w.checkPrefix(n, true)
		d := nd.RawData()
		w.leaves = append(w.leaves, d)
		return vh.App("Leaf", "KRaw", vh.Z(int64(len(d))), chunkCoq(len(d), fp(d)))
	case *dag.ProtoNode:
		w.checkPrefix(n, false)
		fsn, err := ft.FSNodeFromBytes(nd.Data())
		if err != nil {
			w.anoms[6] = true
			return vh.App("Leaf", "KPbFile", "0", chunkCoq(0, fp(nil)))
		}
		if !root && (fsn.Mode() != 0 || !fsn.ModTime().IsZero()) {
			w.anoms[4] = true
		}
		if len(nd.Links()) == 0 {
			k := "KPbFile"
			switch fsn.Type() {
			case ft.TRaw:
				k = "KPbRaw"
			case ft.TFile:
			default:
				w.anoms[6] = true
			}
			if len(fsn.BlockSizes()) != 0 {
				w.anoms[3] = true
			}
			d := fsn.Data()
			w.leaves = append(w.leaves, d)
			return vh.App("Leaf", k, vh.ZU(fsn.FileSize()), chunkCoq(len(d), fp(d)))
		}
		if fsn.Type() != ft.TFile {
			w.anoms[1] = true
		}
		if len(fsn.Data()) != 0 {
			w.anoms[2] = true
		}
		if len(fsn.BlockSizes()) != len(nd.Links()) {
			w.anoms[3] = true
		}
		kids := make([]string, 0, len(nd.Links()))
		for _, l := range nd.Links() {
			if l.Name != "" {
				w.anoms[7] = true
			}
			ch, err := l.GetNode(w.ctx, w.ds)
			if err != nil {
				w.anoms[9] = true
				continue
			}
			if sz, err := ch.Size(); err != nil || sz != l.Size {
				w.anoms[8] = true
			}
			kids = append(kids, w.tree(ch, depth+1, false))
		}
		bs := vh.ListOf(fsn.BlockSizes(), func(u uint64) string { return vh.ZU(u) })
		return vh.App("Node", vh.ZU(fsn.FileSize()), bs, vh.List(kids))
	}
	w.anoms[6] = true
	return vh.App("Leaf", "KPbFile", "0", chunkCoq(0, fp(nil)))
}

// ---------- one case ----------
type result struct {
	term      string
	nchunks   int
	height    int
	nodes     int
	goViol    string // Go-side (byte level) specification failure, "" if none
	metaLost  bool
	rawRoot   bool
	fatal     error
	anomalies []int
}

func runCase(c config, rng *rand.Rand) result {
	ctx := context.Background()
	data := c.data()
	var res result

	// the chunk list: the same splitter, run on its own
	spl, err := chunker.FromString(bytes.NewReader(data), c.Chunker)
	if err != nil {
		res.fatal = err
		return res
	}
	var chunks [][]byte
	for {
		b, err := spl.NextBytes()
		if err == io.EOF {
			break
		}
		if err != nil {
			res.fatal = err
			return res
		}
		chunks = append(chunks, b)
	}
	res.nchunks = len(chunks)

	ds := mdtest.Mock()
	rd1, close1, err := mkReader(c.Reader, data, rng)
	if err != nil {
		res.fatal = fmt.Errorf("input stream: %w", err)
		return res
	}
	root, err := doImport(c, data, ds, rd1)
	close1()
	if err != nil {
		res.fatal = fmt.Errorf("import: %w", err)
		return res
	}
	// read everything back from the store, starting from the root CID only
	stored, err := ds.Get(ctx, root.Cid())
	if err != nil {
		res.fatal = fmt.Errorf("root not in the DAGService: %w", err)
		return res
	}
	w := &walker{ctx: ctx, ds: ds, c: c, anoms: map[int]bool{}}
	tree := w.tree(stored, 0, true)
	res.height, res.nodes = w.height, w.nodes
	_, res.rawRoot = stored.(*dag.RawNode)

	// leaves vs chunks, byte for byte
	if len(w.leaves) != len(chunks) && !(len(chunks) == 0 && len(w.leaves) == 1 && len(w.leaves[0]) == 0) {
		res.goViol = fmt.Sprintf("DAG has %d leaves, the chunker produced %d chunks", len(w.leaves), len(chunks))
	} else {
		for i := range chunks {
			if !bytes.Equal(w.leaves[i], chunks[i]) {
				res.goViol = fmt.Sprintf("leaf %d differs from chunk %d", i, i)
				break
			}
		}
	}

	// DagReader
	rd, err := uio.NewDagReader(ctx, stored, ds)
	if err != nil {
		res.fatal = fmt.Errorf("NewDagReader: %w", err)
		return res
	}
	got, err := io.ReadAll(rd)
	if err != nil {
		res.fatal = fmt.Errorf("DagReader read: %w", err)
		return res
	}
	readEq := bytes.Equal(got, data)
	if !readEq && res.goViol == "" {
		res.goViol = fmt.Sprintf("DagReader returned %d bytes that differ from the %d input bytes", len(got), len(data))
	}
	mode, mt := rd.Mode(), rd.ModTime()
	om := vh.App("Meta", vh.Z(int64(files.ModePermsToUnixPerms(mode))), vh.Bool(!mt.IsZero()), "0", "0")
	if !mt.IsZero() {
		om = vh.App("Meta", vh.Z(int64(files.ModePermsToUnixPerms(mode))), "true", vh.Z(mt.Unix()), vh.Z(int64(mt.Nanosecond())))
	}
	if mode&^(os.ModePerm|os.ModeSetuid|os.ModeSetgid|os.ModeSticky) != 0 {
		w.anoms[10] = true
	}
	wantAttrs := c.Perms != 0 || c.HasMt
	res.metaLost = wantAttrs && mode == 0 && mt.IsZero()

	// second import: other store, the same bytes through another kind of input stream
	ds2 := mdtest.Mock()
	rd2, close2, err := mkReader(c.Reader2, data, rng)
	if err != nil {
		res.fatal = fmt.Errorf("input stream: %w", err)
		return res
	}
	root2, err := doImport(c, data, ds2, rd2)
	close2()
	if err != nil {
		res.fatal = fmt.Errorf("second import: %w", err)
		return res
	}
	stable := root2.Cid().Equals(root.Cid()) && stored.Cid().Equals(root.Cid())

	verify := true
	if c.Layout == "trickle" {
		var pfx *cid.Prefix
		if b := c.builder(); b != nil {
			if p, ok := b.(cid.Prefix); ok {
				pfx = &p
			} else if v1, ok := b.(cid.V1Builder); ok {
				pfx = &cid.Prefix{Version: 1, Codec: v1.Codec, MhType: v1.MhType, MhLength: -1}
			} else {
				pfx = &cid.Prefix{Version: 0, Codec: cid.DagProtobuf, MhType: mh.SHA2_256, MhLength: -1}
			}
		}
		verify = trickle.VerifyTrickleDagStructure(stored, trickle.VerifyParams{
			Getter: ds, Direct: c.Width, LayerRepeat: 4, RawLeaves: c.Raw, Prefix: pfx}) == nil
	}

	var an []int
	for k := 1; k <= 10; k++ {
		if w.anoms[k] {
			an = append(an, k)
		}
	}
	res.anomalies = an
	obs := vh.App("Obs", tree, om, vh.ZU(rd.Size()), vh.Z(int64(len(got))), vh.Bool(readEq), vh.Bool(stable),
		vh.Bool(verify), vh.ListOf(an, func(i int) string { return vh.Z(int64(i)) }))
	cl := vh.ListOf(chunks, func(b []byte) string { return chunkCoq(len(b), fp(b)) })
	res.term = vh.App("CImport", c.coq(), cl, obs)
	return res
}

// ---------- generators ----------
var cidKinds = []string{"nil", "v0", "v1-sha256", "v1-blake2b", "v1-sha512"}

func genMeta(r *rand.Rand, c *config) {
	switch r.Intn(8) {
	case 0, 1, 2: // none
	case 3: // mode only
		c.Perms = []uint32{0o644, 0o755, 0o600, 0o7777, 0o1, 0o4000, 0o2000, 0o1000, 0o777}[r.Intn(9)]
	case 4: // mtime only
		c.HasMt = true
	default:
		c.Perms = uint32(1 + r.Intn(0o7777))
		c.HasMt = true
	}
	if c.HasMt {
		c.Sec = []int64{0, 1, -1, 1700000000, 4102444800, -86400, int64(r.Intn(2000000000))}[r.Intn(7)]
		c.Nsec = []int64{0, 0, 1, 999999999, int64(r.Intn(1000000000))}[r.Intn(5)]
	}
}

func genWidth(r *rand.Rand) int {
	switch x := r.Intn(20); {
	case x < 12:
		return 2 + r.Intn(7) // dense 2..8
	case x < 15:
		return 9 + r.Intn(24)
	case x < 17:
		return []int{174, 1024, 256, 64}[r.Intn(4)]
	default:
		return 2 + r.Intn(1023)
	}
}

func ipow(b, e int) int {
	p := 1
	for i := 0; i < e; i++ {
		p *= b
		if p > 1<<20 {
			return p
		}
	}
	return p
}

// chunk counts at which the shape changes: balanced w^k, trickle layer capacities
func boundaryCount(r *rand.Rand, layout string, w, max int) int {
	var cands []int
	if layout == "balanced" {
		for k := 1; ipow(w, k) <= max+1; k++ {
			cands = append(cands, ipow(w, k))
			for j := 2; j < w; j++ { // j complete subtrees
				cands = append(cands, j*ipow(w, k))
			}
		}
	} else {
		// capacity of fillTrickleRec(maxDepth = m): cap(1) = w, cap(m+1) = cap(m) + 4*cap(m) ... per layer
		capm := []int{w}
		for len(capm) < 12 && capm[len(capm)-1] <= max {
			s := w
			for _, cm := range capm {
				s += 4 * cm
			}
			capm = append(capm, s)
		}
		// root: after the leaves, layer d holds 4 subtrees of capacity capm[d-1]
		tot := w
		cands = append(cands, tot)
		for d := 0; d < len(capm) && tot <= max; d++ {
			for j := 0; j < 4 && tot <= max; j++ {
				tot += capm[d]
				cands = append(cands, tot)
			}
		}
	}
	var ok []int
	for _, c := range cands {
		if c-1 <= max {
			ok = append(ok, c)
		}
	}
	if len(ok) == 0 {
		return r.Intn(max + 1)
	}
	n := ok[r.Intn(len(ok))] + r.Intn(3) - 1
	if n < 0 {
		n = 0
	}
	if n > max {
		n = max
	}
	return n
}

func genSmall(r *rand.Rand, maxChunks int) config {
	c := config{Layout: []string{"balanced", "trickle"}[r.Intn(2)], Width: genWidth(r), Raw: r.Intn(2) == 0,
		Cid: cidKinds[r.Intn(len(cidKinds))], DataGen: "random", DataSd: r.Int63()}
	if r.Intn(5) == 0 {
		c.DataGen = []string{"zero", "period-1", "period-3", "period-7"}[r.Intn(4)]
	}
	cs := 1 + r.Intn(4)
	if r.Intn(3) == 0 {
		cs = 1
	}
	c.Chunker = fmt.Sprintf("size-%d", cs)
	// most cases stay small (the cost of a case in Coq is linear in its chunks);
	// depth comes from small widths, a few cases are long
	limit := maxChunks
	switch x := r.Intn(20); {
	case x < 10:
		limit = 40
	case x < 16:
		limit = 120
	case x < 19:
		limit = 200
	}
	if limit > maxChunks {
		limit = maxChunks
	}
	var n int
	switch x := r.Intn(20); {
	case x < 8:
		n = boundaryCount(r, c.Layout, c.Width, limit)
	case x < 11:
		n = r.Intn(6)
	default:
		n = r.Intn(limit + 1)
	}
	c.DataLen = n * cs
	if n > 0 && cs > 1 && r.Intn(2) == 0 {
		c.DataLen -= r.Intn(cs) // short last chunk
	}
	genMeta(r, &c)
	genReaders(r, &c)
	return c
}

func genBig(r *rand.Rand, maxLen int) config {
	c := config{Layout: []string{"balanced", "trickle"}[r.Intn(2)], Width: genWidth(r), Raw: r.Intn(2) == 0,
		Cid: cidKinds[r.Intn(len(cidKinds))], DataGen: "random", DataSd: r.Int63()}
	if r.Intn(6) == 0 {
		c.DataGen = []string{"zero", "period-251"}[r.Intn(2)]
	}
	switch r.Intn(6) {
	case 0:
		c.Chunker = "rabin-512-1024-2048"
	case 1:
		c.Chunker = "buzhash"
	case 2:
		c.Chunker = []string{"size-65536", "size-65535", "size-1024", "size-4096", "size-262144"}[r.Intn(5)]
	default:
		c.Chunker = fmt.Sprintf("size-%d", 256+r.Intn(65536-255))
	}
	c.DataLen = r.Intn(maxLen + 1)
	var csz int
	if n, _ := fmt.Sscanf(c.Chunker, "size-%d", &csz); n == 1 {
		// keep the chunk count moderate; 1 in 12 may exceed 1024 chunks (two levels at width 1024)
		lim := 150
		if r.Intn(12) == 0 {
			lim = 1300
		}
		if c.DataLen > csz*lim {
			c.DataLen = r.Intn(csz*lim + 1)
		}
	} else if c.Chunker != "buzhash" && c.DataLen > 150*1024 {
		c.DataLen = r.Intn(150*1024 + 1)
	}
	if r.Intn(4) == 0 {
		c.DataLen = []int{0, 1, 65535, 65536, 65537, 262144, 1 << 20}[r.Intn(7)]
		if c.DataLen > maxLen {
			c.DataLen = maxLen
		}
	}
	if c.Chunker == "buzhash" && c.DataLen < 1<<18 && r.Intn(2) == 0 {
		c.DataLen += 1 << 19 // buzhash chunks are >= 128 KiB
	}
	genMeta(r, &c)
	genReaders(r, &c)
	return c
}

func corpus() []config {
	cs := []config{
		// finding C07-1: balanced + raw leaves + at most one chunk + attributes
		{Layout: "balanced", Width: 174, Raw: true, Chunker: "size-262144", Cid: "nil", Perms: 0o644, DataLen: 5, DataGen: "random", DataSd: 1},
		{Layout: "balanced", Width: 2, Raw: true, Chunker: "size-4", Cid: "v1-sha256", HasMt: true, Sec: 1700000000, Nsec: 5, DataLen: 4, DataGen: "random", DataSd: 2},
		{Layout: "balanced", Width: 3, Raw: true, Chunker: "size-4", Cid: "v0", Perms: 0o755, HasMt: true, Sec: 1, DataLen: 0, DataGen: "random", DataSd: 3},
		// the same inputs where the code is fine
		{Layout: "balanced", Width: 174, Raw: false, Chunker: "size-262144", Cid: "nil", Perms: 0o644, DataLen: 5, DataGen: "random", DataSd: 1},
		{Layout: "trickle", Width: 174, Raw: true, Chunker: "size-262144", Cid: "nil", Perms: 0o644, DataLen: 5, DataGen: "random", DataSd: 1},
		{Layout: "balanced", Width: 2, Raw: true, Chunker: "size-4", Cid: "v1-sha256", Perms: 0o644, DataLen: 5, DataGen: "random", DataSd: 4},
		{Layout: "trickle", Width: 2, Raw: false, Chunker: "size-1", Cid: "nil", DataLen: 0, DataGen: "random", DataSd: 5},
		{Layout: "trickle", Width: 2, Raw: true, Chunker: "size-1", Cid: "v1-blake2b", HasMt: true, Sec: -1, Nsec: 999999999, DataLen: 0, DataGen: "random", DataSd: 5},
		{Layout: "balanced", Width: 2, Raw: false, Chunker: "size-1", Cid: "nil", DataLen: 0, DataGen: "random", DataSd: 5},
	}
	// deep trees at small widths
	for _, w := range []int{2, 3, 4} {
		for _, l := range []string{"balanced", "trickle"} {
			ns := []int{ipow(w, 4), ipow(w, 4) + 1, 250}
			if w == 2 {
				ns = append(ns, 600) // balanced: height 10; trickle: depth 5
			}
			for _, n := range ns {
				cs = append(cs, config{Layout: l, Width: w, Raw: n%2 == 0, Chunker: "size-1", Cid: "v1-sha256",
					Perms: 0o640, HasMt: true, Sec: 1234567890, Nsec: 1, DataLen: n, DataGen: "random", DataSd: int64(n)})
			}
		}
	}
	// input streams that know a source path, attributes requested, roots that are ProtoNodes
	for i, rk := range []string{"pathfile", "serial"} {
		for _, l := range []string{"balanced", "trickle"} {
			cs = append(cs,
				config{Layout: l, Width: 3, Raw: i == 0, Chunker: "size-2", Cid: "v1-sha256", Perms: 0o644, DataLen: 9, DataGen: "random", DataSd: 11, Reader: rk, Reader2: "bytes"},
				config{Layout: l, Width: 174, Raw: false, Chunker: "size-262144", Cid: "nil", HasMt: true, Sec: 1700000000, Nsec: 1, DataLen: 7, DataGen: "random", DataSd: 12, Reader: rk, Reader2: "short"},
				config{Layout: l, Width: 2, Raw: true, Chunker: "size-1", Cid: "v0", Perms: 0o755, HasMt: true, Sec: 5, DataLen: 0 + 3*i, DataGen: "random", DataSd: 13, Reader: "bytes", Reader2: rk})
		}
	}
	for i := range cs {
		if cs[i].Reader == "" {
			cs[i].Reader = readerKinds[i%4]
			cs[i].Reader2 = readerKinds[(i+1+i/4%3)%4]
			if cs[i].Reader2 == cs[i].Reader {
				cs[i].Reader2 = readerKinds[(i+2)%4]
			}
		}
	}
	return cs
}

func TestC07(t *testing.T) {
	e := vh.Load(t)
	tmpDir = t.TempDir()
	st := vh.NewStats("real balanced.Layout / trickle.Layout on generated (data, chunker, width, leaf type, CID builder, mode/mtime); " +
		"input delivered as bytes.Reader / short reads / files.NewReaderPathFile / files.NewSerialFile over a temp file (NoCopy false); DAG read back from the store node by node, DagReader output, second import into another store through a different kind of input stream (root CID must not depend on it); " +
		"non-trivial = at least 2 chunks and a tree of height >= 2, or attributes requested; distinct by configuration")
	cs := vh.NewCases(e, "From V Require Import lib.Tree model.M_C07.\nOpen Scope Z_scope.", "case", "check_case", 60)
	nSmall, nBig := e.Pick(320, 4000), e.Pick(30, 250)
	maxChunks := e.Pick(400, 700)
	maxBig := e.Pick(1<<20, 4<<20)
	var cfgs []config
	cfgs = append(cfgs, corpus()...)
	for i := 0; i < nSmall; i++ {
		cfgs = append(cfgs, genSmall(e.Rng, maxChunks))
	}
	for i := 0; i < nBig; i++ {
		cfgs = append(cfgs, genBig(e.Rng, maxBig))
	}
	aux := rand.New(rand.NewSource(e.Seed ^ 0x5eed))
	for _, c := range cfgs {
		res := runCase(c, aux)
		if res.fatal != nil {
			st.Violate("importer or reader failed: "+res.fatal.Error(), "", c)
			continue
		}
		cs.Add(res.term, c)
		key := fmt.Sprintf("%+v", c)
		st.Case(key, (res.nchunks >= 2 && res.height >= 2) || c.Perms != 0 || c.HasMt)
		st.Count("layout=" + c.Layout)
		st.Count("reader=" + c.Reader + "/" + c.Reader2)
		st.Count(fmt.Sprintf("raw=%v", c.Raw))
		st.Count("cid=" + c.Cid)
		st.Count(fmt.Sprintf("height=%d", res.height))
		st.Count("chunker=" + strings.SplitN(c.Chunker, "-", 2)[0])
		switch {
		case c.Width <= 8:
			st.Count(fmt.Sprintf("width=%d", c.Width))
		case c.Width <= 32:
			st.Count("width=9..32")
		default:
			st.Count("width>32")
		}
		switch {
		case res.nchunks == 0:
			st.Count("chunks=0")
		case res.nchunks == 1:
			st.Count("chunks=1")
		case res.nchunks <= 16:
			st.Count("chunks=2..16")
		case res.nchunks <= 128:
			st.Count("chunks=17..128")
		default:
			st.Count("chunks>128")
		}
		if c.Perms != 0 || c.HasMt {
			st.Count("attrs=yes")
		} else {
			st.Count("attrs=no")
		}
		if len(res.anomalies) > 0 {
			st.Count("anomalies")
		}
		if res.goViol != "" {
			// content is decided here; a finding id is attached only for the exact
			// signature of a listed finding (none for content)
			st.Violate(res.goViol, "", c)
		}
		st.Sample(c, 6)
	}
	cs.Close()
	st.Write(e)
}
