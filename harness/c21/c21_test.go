// Correspondence harness for C21 (mfs/repub.go): scripts of Update / WaitPub / sleep /
// publish-failure / Close actions are run against the real Republisher with a fake
// publish function and short timers.  Everything observable is logged in one
// totally ordered trace (client calls before they are made, publish attempts and
// returns after they happened); Coq checks that the trace is a run of the LTS of
// model/M_C21.v, which lets timers fire at any moment — so acceptance never depends
// on scheduling.  Timing is only used for lower bounds (a timer never fires early)
// and for generous eventual-publication deadlines, both checked here.
package c21

import (
	"context"
	"errors"
	"fmt"
	"strings"
	"sync"
	"testing"
	"time"

	"github.com/ipfs/boxo/mfs"
	cid "github.com/ipfs/go-cid"
	mh "github.com/multiformats/go-multihash"

	"verif/harness/vh"
)

const (
	tQuick   = 25 * time.Millisecond
	tLong    = 100 * time.Millisecond
	deadline = 20 * time.Second // eventual-publication deadline (generous: the machine may be loaded)
	closeID  = 1000
	freshCid = 9
)

var cids = func() []cid.Cid {
	out := make([]cid.Cid, 10)
	for i := range out {
		h, _ := mh.Sum([]byte{byte(i)}, mh.SHA2_256, -1)
		out[i] = cid.NewCidV1(cid.Raw, h)
	}
	out[0] = cid.Undef
	return out
}()

func cidID(c cid.Cid) int {
	for i, x := range cids {
		if x.Equals(c) || (!x.Defined() && !c.Defined()) {
			return i
		}
	}
	return -1
}

type action struct {
	Kind string `json:"a"`           // upd wait waitshort sleep fail close
	C    int    `json:"c,omitempty"` // cid id / number of failures
	D    int    `json:"ms,omitempty"`
}

type script struct {
	C0      int      `json:"c0"`
	PubMs   int      `json:"pub_ms"` // how long the publish function takes
	Acts    []action `json:"acts"`
	Close   bool     `json:"close"`
	Trace   []string `json:"trace,omitempty"`
	Verdict string   `json:"go_oracles,omitempty"`
}

type runner struct {
	mu       sync.Mutex
	trace    []string
	failLeft int
	pubMs    int
	// timing oracle state (all under mu)
	updTimes  []time.Time // when each Update call was logged
	batchFrom int         // first update that may still be unpublished / unreceived
	tLastFail  time.Time
	lastPubEnd time.Time
	waitSince  bool // a WaitPub/Close was started since the last completed publish attempt
	outstanding int
	early      []string
	afterStop  bool
	stopped    bool
	published  []int
}

func (r *runner) log(s string) { r.trace = append(r.trace, s) }

func (r *runner) pubfunc(_ context.Context, c cid.Cid) error {
	start := time.Now()
	r.mu.Lock()
	if r.stopped {
		r.afterStop = true
	}
	// lower bound that holds for every scheduling: without a waiter, a publish needs an expired
	// timer, and every timer was armed no earlier than the oldest possibly-unpublished Update was
	// called (quick) or the last failure happened (long): so it cannot come sooner than `quick`
	// after that Update.
	nStart := len(r.updTimes)
	if !r.waitSince && r.outstanding == 0 {
		ok := r.batchFrom < len(r.updTimes) && start.Sub(r.updTimes[r.batchFrom]) >= tQuick
		ok = ok || (!r.tLastFail.IsZero() && start.Sub(r.tLastFail) >= tLong)
		if !ok {
			r.early = append(r.early, fmt.Sprintf("publish of %d without a waiter sooner than the quick timeout after the oldest unpublished Update", cidID(c)))
		}
	}
	ms := r.pubMs
	r.mu.Unlock()
	if ms > 0 {
		time.Sleep(time.Duration(ms) * time.Millisecond)
	}
	r.mu.Lock()
	defer r.mu.Unlock()
	ok := true
	if r.failLeft > 0 {
		r.failLeft--
		ok = false
	}
	r.log(fmt.Sprintf("OPub %d %v", cidID(c), ok))
	r.lastPubEnd = time.Now()
	r.waitSince = false
	// the slot holds at most one value: only the last Update before this publish began can still be unreceived
	if nStart > 0 && nStart-1 > r.batchFrom {
		r.batchFrom = nStart - 1
	}
	if ok {
		r.published = append(r.published, cidID(c))
		r.tLastFail = time.Time{}
		return nil
	}
	r.tLastFail = r.lastPubEnd
	return errors.New("injected publish failure")
}

func (r *runner) update(rp *mfs.Republisher, c int) {
	r.mu.Lock()
	r.updTimes = append(r.updTimes, time.Now())
	r.log(fmt.Sprintf("OUpd %d", c))
	r.mu.Unlock()
	rp.Update(cids[c])
}

func (r *runner) waitpub(rp *mfs.Republisher, id int, timeout time.Duration, wg *sync.WaitGroup) {
	r.mu.Lock()
	r.log(fmt.Sprintf("OWait %d", id))
	r.waitSince = true
	r.outstanding++
	r.mu.Unlock()
	wg.Add(1)
	go func() {
		defer wg.Done()
		ctx, cancel := context.WithTimeout(context.Background(), timeout)
		defer cancel()
		err := rp.WaitPub(ctx)
		r.mu.Lock()
		defer r.mu.Unlock()
		r.outstanding--
		if err == nil {
			r.log(fmt.Sprintf("ORet %d", id))
		} else {
			r.log(fmt.Sprintf("OTimeout %d", id))
		}
	}()
}

// runScript executes one script and returns the trace plus the verdicts of the Go-side oracles.
func runScript(s *script) (trace []string, problems []string) {
	r := &runner{pubMs: s.PubMs}
	rp := mfs.NewRepublisher(r.pubfunc, tQuick, tLong, cids[s.C0])
	var wg sync.WaitGroup
	nextID := 1
	failed := false
	shortWaits := false
	for _, a := range s.Acts {
		switch a.Kind {
		case "upd":
			r.update(rp, a.C)
		case "wait":
			r.waitpub(rp, nextID, deadline, &wg)
			nextID++
		case "waitshort":
			shortWaits = true
			r.waitpub(rp, nextID, time.Duration(a.D)*time.Millisecond, &wg)
			nextID++
		case "sleep":
			time.Sleep(time.Duration(a.D) * time.Millisecond)
		case "fail":
			r.mu.Lock()
			r.failLeft = a.C
			failed = failed || a.C > 0
			r.mu.Unlock()
		}
	}
	// from here on publishing succeeds
	r.mu.Lock()
	r.failLeft = 0
	r.mu.Unlock()
	if !s.Close || failed {
		// a brand-new value forces a real publish (and re-enables immediate publishing
		// if an earlier failure left it disabled); it must be published, and every
		// WaitPub without a short deadline must return nil
		r.update(rp, freshCid)
		t0 := time.Now()
		for {
			r.mu.Lock()
			done := len(r.published) > 0 && r.published[len(r.published)-1] == freshCid
			r.mu.Unlock()
			if done {
				break
			}
			if time.Since(t0) > deadline {
				problems = append(problems, "the latest value was not published within the deadline although publishing succeeds")
				break
			}
			time.Sleep(2 * time.Millisecond)
		}
	}
	// every WaitPub must have returned by now or return shortly (immediate publishing is enabled
	// again after the successful publish above; without failures it was never disabled).
	// Waiting here also keeps Close's own WaitPub from racing with them: a WaitPub that is
	// still unreceived when the loop stops blocks until its context expires.
	for t0 := time.Now(); ; time.Sleep(time.Millisecond) {
		r.mu.Lock()
		n := r.outstanding
		r.mu.Unlock()
		if n == 0 {
			break
		}
		if time.Since(t0) > deadline {
			problems = append(problems, "a WaitPub call did not return within the deadline although publishing succeeds and immediate publishing is enabled")
			break
		}
	}
	// Close: logs its own WaitPub as waiter closeID
	r.mu.Lock()
	r.log(fmt.Sprintf("OWait %d", closeID))
	r.waitSince = true
	r.outstanding++
	latest := -1
	for i := len(r.trace) - 1; i >= 0; i-- {
		if strings.HasPrefix(r.trace[i], "OUpd ") {
			fmt.Sscanf(r.trace[i], "OUpd %d", &latest)
			break
		}
	}
	r.mu.Unlock()
	closed := make(chan error, 1)
	go func() { closed <- rp.Close() }()
	select {
	case err := <-closed:
		r.mu.Lock()
		r.outstanding--
		if err == nil {
			r.log(fmt.Sprintf("ORet %d", closeID))
		} else {
			r.log(fmt.Sprintf("OTimeout %d", closeID))
			problems = append(problems, "Close returned an error although publishing succeeds: "+err.Error())
		}
		r.log("OCloseRet")
		r.stopped = true
		// Close publishes pending work before returning: the latest value is out or equals lastPublished
		last := s.C0
		if len(r.published) > 0 {
			last = r.published[len(r.published)-1]
		}
		if err == nil && latest >= 0 && last != latest {
			problems = append(problems, fmt.Sprintf("Close returned nil but the latest value %d is not the last published one (%d)", latest, last))
		}
		r.mu.Unlock()
	case <-time.After(deadline):
		problems = append(problems, "Close did not return within the deadline")
	}
	waited := make(chan struct{})
	go func() { wg.Wait(); close(waited) }()
	select {
	case <-waited:
	case <-time.After(deadline + time.Second):
		problems = append(problems, "a WaitPub call never returned")
	}
	time.Sleep(2 * tQuick) // nothing may be published after Close returned
	r.mu.Lock()
	defer r.mu.Unlock()
	if r.afterStop {
		problems = append(problems, "the publish function was called after Close returned")
	}
	if !shortWaits {
		problems = append(problems, r.early...)
	}
	for _, t := range r.trace {
		if strings.HasPrefix(t, "OTimeout ") && !shortWaits && !strings.HasPrefix(t, fmt.Sprintf("OTimeout %d", closeID)) {
			problems = append(problems, "a WaitPub with the generous deadline timed out: "+t)
		}
	}
	return append([]string{}, r.trace...), problems
}

func traceCoq(tr []string) string {
	items := make([]string, len(tr))
	for i, t := range tr {
		f := strings.Fields(t)
		switch f[0] {
		case "OPub":
			items[i] = vh.App("OPub", f[1], f[2])
		case "OCloseRet":
			items[i] = "OCloseRet"
		default:
			items[i] = vh.App(f[0], f[1]+"%nat")
		}
		if f[0] == "OUpd" {
			items[i] = vh.App("OUpd", f[1])
		}
	}
	return vh.List(items)
}

func genScript(e *vh.Env) *script {
	r := e.Rng
	s := &script{C0: []int{0, 0, 1, 5}[r.Intn(4)], PubMs: []int{0, 0, 3, 15}[r.Intn(4)], Close: r.Intn(3) == 0}
	n := 2 + r.Intn(10)
	budget := 450 // ms of scripted sleeping per case
	for i := 0; i < n; i++ {
		switch x := r.Intn(20); {
		case x < 8:
			c := 1 + r.Intn(4)
			if r.Intn(6) == 0 {
				c = 5
			}
			if r.Intn(8) == 0 && s.C0 != 0 {
				c = s.C0
			}
			s.Acts = append(s.Acts, action{Kind: "upd", C: c})
		case x < 11:
			s.Acts = append(s.Acts, action{Kind: "wait"})
		case x < 12:
			s.Acts = append(s.Acts, action{Kind: "waitshort", D: []int{1, 5, 30}[r.Intn(3)]})
		case x < 18:
			d := []int{1, 4, 12, 35, 35, 120}[r.Intn(6)]
			if d > budget {
				d = 1
			}
			budget -= d
			s.Acts = append(s.Acts, action{Kind: "sleep", D: d})
		default:
			s.Acts = append(s.Acts, action{Kind: "fail", C: 1 + r.Intn(2)})
		}
	}
	return s
}

func corpus() []*script {
	u := func(c int) action { return action{Kind: "upd", C: c} }
	sl := func(d int) action { return action{Kind: "sleep", D: d} }
	w := action{Kind: "wait"}
	fail := func(n int) action { return action{Kind: "fail", C: n} }
	batch := []action{}
	for i := 0; i < 16; i++ {
		batch = append(batch, u(1+i%4), sl(8))
	}
	return []*script{
		{Acts: []action{u(1), sl(60), u(2), u(3), sl(60)}},                         // quick timer; coalescing
		{Acts: batch},                                                                // long timer under a stream of updates
		{Acts: []action{u(1), w, sl(5)}},                                             // immediate publish
		{Acts: []action{fail(1), u(1), w, sl(150)}},                                  // failure, retry on the long timer
		{C0: 5, Acts: []action{fail(1), u(1), w, sl(10), u(5), sl(10), w, sl(40)}},   // immediate publishing left disabled (DESIGN §4.3 observation)
		{C0: 1, Acts: []action{u(1), w, sl(40)}},                                     // already published value
		{Acts: []action{u(1), u(2)}, Close: true},                                    // Close publishes pending work
		{PubMs: 15, Acts: []action{u(1), w, sl(5), u(2), w, u(3), sl(5), w}, Close: true}, // clients act while publishing
		{Acts: []action{fail(2), u(1), w, w, sl(5), u(2), sl(250)}},                  // two failures, two waiters, newer value
		{C0: 1, Acts: []action{u(2), sl(5), u(1), sl(60), w}},                        // pending value superseded by the published one
	}
}

func TestC21(t *testing.T) {
	e := vh.Load(t)
	st := vh.NewStats("scripts of 2..11 actions over Update(5 cids incl. the initial lastPublished) / WaitPub / WaitPub with a 1..30 ms deadline / " +
		"sleep(1..120 ms around the 25 ms quick and 100 ms long timers) / inject 1..2 publish failures, optional Close, run against mfs.NewRepublisher " +
		"with a fake publish function taking 0..15 ms; 10 corpus scripts first; non-trivial = trace has >= 2 publish attempts or a failed one, and a WaitPub; " +
		"distinct by trace")
	cs := vh.NewCases(e, "From V Require Import model.M_C21.\nOpen Scope Z_scope.", "case", "check_case", 40)
	n := e.Pick(160, 2500)
	scripts := corpus()
	for len(scripts) < n {
		scripts = append(scripts, genScript(e))
	}
	type result struct {
		trace    []string
		problems []string
	}
	results := make([]result, len(scripts))
	sem := make(chan struct{}, 12)
	var wg sync.WaitGroup
	for i := range scripts {
		wg.Add(1)
		sem <- struct{}{}
		go func(i int) {
			defer wg.Done()
			defer func() { <-sem }()
			tr, pr := runScript(scripts[i])
			results[i] = result{tr, pr}
		}(i)
	}
	wg.Wait()
	for i, s := range scripts {
		res := results[i]
		s.Trace = res.trace
		for _, p := range res.problems {
			st.Violate(p, "", s)
		}
		npub, nfail, nwait := 0, 0, 0
		for _, x := range res.trace {
			switch {
			case strings.HasPrefix(x, "OPub"):
				npub++
				if strings.HasSuffix(x, "false") {
					nfail++
				}
			case strings.HasPrefix(x, "OWait") && !strings.HasSuffix(x, fmt.Sprint(closeID)):
				nwait++
			}
			st.Count("obs:" + strings.Fields(x)[0])
		}
		cs.Add(vh.App("Case", vh.Z(int64(s.C0)), traceCoq(res.trace)), s)
		st.Case(strings.Join(res.trace, ";"), (npub >= 2 || nfail >= 1) && nwait >= 1)
		st.Count(fmt.Sprintf("publish-attempts:%d", min(npub, 6)))
		if i%9 == 4 {
			st.Sample(s, 5)
		}
	}
	cs.Close()
	st.Write(e)
}
