module verif/harness

go 1.25.7

require (
	github.com/ipfs/bbloom v0.1.0
	github.com/ipfs/boxo v0.41.0
	github.com/ipfs/go-bitfield v1.1.0
	github.com/ipfs/go-block-format v0.2.4
	github.com/ipfs/go-cid v0.6.2
	github.com/ipfs/go-datastore v0.9.2
	github.com/ipfs/go-ipfs-delay v0.0.1
	github.com/ipfs/go-ipld-format v0.6.4
	github.com/ipfs/go-log/v2 v2.9.2
	github.com/ipfs/go-unixfsnode v1.10.5
	github.com/ipld/go-car/v2 v2.17.0
	github.com/ipld/go-codec-dagpb v1.7.0
	github.com/ipld/go-ipld-prime v0.24.0
	github.com/libp2p/go-libp2p v0.48.1-0.20260709142922-ec408fcc60c9
	github.com/libp2p/go-libp2p-kad-dht v0.42.1
	github.com/libp2p/go-libp2p-record v0.3.1
	github.com/miekg/dns v1.1.72
	github.com/multiformats/go-multiaddr v0.16.1
	github.com/multiformats/go-multibase v0.3.0
	github.com/multiformats/go-multihash v0.2.3
	github.com/polydawn/refmt v0.90.0
	github.com/prometheus/client_golang v1.23.2
	golang.org/x/crypto v0.54.0
	golang.org/x/sys v0.47.0
	google.golang.org/protobuf v1.36.11
)

require (
	github.com/Jorropo/jsync v1.0.1 // indirect
	github.com/benbjohnson/clock v1.3.5 // indirect
	github.com/beorn7/perks v1.0.1 // indirect
	github.com/cespare/xxhash/v2 v2.3.0 // indirect
	github.com/crackcomm/go-gitignore v0.0.0-20241020182519-7843d2ba8fdf // indirect
	github.com/cskr/pubsub v1.0.2 // indirect
	github.com/decred/dcrd/dcrec/secp256k1/v4 v4.4.1 // indirect
	github.com/dustin/go-humanize v1.0.1 // indirect
	github.com/felixge/httpsnoop v1.0.4 // indirect
	github.com/filecoin-project/go-clock v0.1.0 // indirect
	github.com/gabriel-vasile/mimetype v1.4.13 // indirect
	github.com/gammazero/chanqueue v1.1.2 // indirect
	github.com/gammazero/deque v1.2.1 // indirect
	github.com/go-logr/logr v1.4.3 // indirect
	github.com/go-logr/stdr v1.2.2 // indirect
	github.com/google/gopacket v1.1.19 // indirect
	github.com/google/uuid v1.6.0 // indirect
	github.com/gorilla/mux v1.8.1 // indirect
	github.com/hashicorp/golang-lru v1.0.2 // indirect
	github.com/hashicorp/golang-lru/v2 v2.0.7 // indirect
	github.com/huin/goupnp v1.3.0 // indirect
	github.com/ipfs/go-cidutil v0.1.2 // indirect
	github.com/ipfs/go-dsqueue v0.2.0 // indirect
	github.com/ipfs/go-ipfs-pq v0.0.4 // indirect
	github.com/ipfs/go-ipfs-redirects-file v0.1.2 // indirect
	github.com/ipfs/go-ipld-cbor v0.2.1 // indirect
	github.com/ipfs/go-ipld-legacy v0.3.0 // indirect
	github.com/ipfs/go-metrics-interface v0.3.0 // indirect
	github.com/ipfs/go-peertaskqueue v0.8.3 // indirect
	github.com/ipfs/go-test v0.4.1 // indirect
	github.com/jackpal/go-nat-pmp v1.0.2 // indirect
	github.com/klauspost/cpuid/v2 v2.3.0 // indirect
	github.com/koron/go-ssdp v0.0.6 // indirect
	github.com/libp2p/go-buffer-pool v0.1.0 // indirect
	github.com/libp2p/go-cidranger v1.1.0 // indirect
	github.com/libp2p/go-doh-resolver v0.6.0 // indirect
	github.com/libp2p/go-flow-metrics v0.3.0 // indirect
	github.com/libp2p/go-libp2p-asn-util v0.4.1 // indirect
	github.com/libp2p/go-libp2p-kbucket v0.9.0 // indirect
	github.com/libp2p/go-libp2p-routing-helpers v0.7.5 // indirect
	github.com/libp2p/go-libp2p-testing v0.12.0 // indirect
	github.com/libp2p/go-msgio v0.3.0 // indirect
	github.com/libp2p/go-netroute v0.4.0 // indirect
	github.com/mattn/go-isatty v0.0.22 // indirect
	github.com/minio/sha256-simd v1.0.1 // indirect
	github.com/mr-tron/base58 v1.3.0 // indirect
	github.com/multiformats/go-base32 v0.1.0 // indirect
	github.com/multiformats/go-base36 v0.2.0 // indirect
	github.com/multiformats/go-multiaddr-dns v0.6.0 // indirect
	github.com/multiformats/go-multiaddr-fmt v0.1.0 // indirect
	github.com/multiformats/go-multicodec v0.10.0 // indirect
	github.com/multiformats/go-multistream v0.6.1 // indirect
	github.com/multiformats/go-varint v0.1.0 // indirect
	github.com/munnerz/goautoneg v0.0.0-20191010083416-a7dc8b61c822 // indirect
	github.com/petar/GoLLRB v0.0.0-20210522233825-ae3b015fd3e9 // indirect
	github.com/prometheus/client_model v0.6.2 // indirect
	github.com/prometheus/common v0.67.5 // indirect
	github.com/prometheus/procfs v0.20.1 // indirect
	github.com/slok/go-http-metrics v0.13.0 // indirect
	github.com/spaolacci/murmur3 v1.1.0 // indirect
	github.com/ucarion/urlpath v0.0.0-20200424170820-7ccc79b76bbb // indirect
	github.com/whyrusleeping/cbor v0.0.0-20171005072247-63513f603b11 // indirect
	github.com/whyrusleeping/cbor-gen v0.3.1 // indirect
	github.com/whyrusleeping/chunker v0.0.0-20181014151217-fe64bd25879f // indirect
	github.com/whyrusleeping/go-keyspace v0.0.0-20160322163242-5b898ac5add1 // indirect
	go.opencensus.io v0.24.0 // indirect
	go.opentelemetry.io/auto/sdk v1.2.1 // indirect
	go.opentelemetry.io/contrib/instrumentation/net/http/otelhttp v0.69.0 // indirect
	go.opentelemetry.io/otel v1.44.0 // indirect
	go.opentelemetry.io/otel/metric v1.44.0 // indirect
	go.opentelemetry.io/otel/trace v1.44.0 // indirect
	go.uber.org/multierr v1.11.0 // indirect
	go.uber.org/zap v1.28.0 // indirect
	go.yaml.in/yaml/v2 v2.4.4 // indirect
	golang.org/x/exp v0.0.0-20260718201538-764159d718ef // indirect
	golang.org/x/net v0.57.0 // indirect
	golang.org/x/sync v0.22.0 // indirect
	golang.org/x/time v0.12.0 // indirect
	golang.org/x/xerrors v0.0.0-20240903120638-7835f813f4da // indirect
	gonum.org/v1/gonum v0.17.0 // indirect
	lukechampine.com/blake3 v1.4.1 // indirect
)

replace github.com/ipfs/boxo => /repo
