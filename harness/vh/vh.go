// Package vh is the shared plumbing of the correspondence harness: it reads the
// run parameters from the environment, renders Go values as Coq terms, writes the
// sharded cases_*.v files that coqc evaluates against the model, and writes
// stats.json for the evidence file.
package vh

import (
	"encoding/json"
	"fmt"
	"math/big"
	"math/rand"
	"os"
	"path/filepath"
	"sort"
	"strconv"
	"strings"
	"testing"
)

// Env carries the parameters of one check run.
type Env struct {
	Seed  int64
	Tier  string          // "quick" or "thorough"
	Out   string          // directory for cases_*.v, cases.json, stats.json
	Known map[string]bool // ids of known_findings.json entries with status "known"
	Rng   *rand.Rand
}

// Load reads VERIF_SEED, VERIF_TIER, VERIF_OUT, VERIF_KNOWN.
func Load(t testing.TB) *Env {
	e := &Env{Tier: "quick", Known: map[string]bool{}}
	if s := os.Getenv("VERIF_SEED"); s != "" {
		v, err := strconv.ParseInt(s, 10, 64)
		if err != nil {
			t.Fatalf("VERIF_SEED: %v", err)
		}
		e.Seed = v
	}
	if s := os.Getenv("VERIF_TIER"); s == "thorough" {
		e.Tier = s
	}
	e.Out = os.Getenv("VERIF_OUT")
	if e.Out == "" {
		e.Out = t.TempDir()
	}
	if err := os.MkdirAll(e.Out, 0o755); err != nil {
		t.Fatal(err)
	}
	for _, k := range strings.Split(os.Getenv("VERIF_KNOWN"), ",") {
		if k = strings.TrimSpace(k); k != "" {
			e.Known[k] = true
		}
	}
	e.Rng = rand.New(rand.NewSource(e.Seed))
	return e
}

// Thorough reports whether the thorough tier was requested.
func (e *Env) Thorough() bool { return e.Tier == "thorough" }

// Pick returns q in the quick tier and th in the thorough tier.
func (e *Env) Pick(q, th int) int {
	if e.Thorough() {
		return th
	}
	return q
}

// ---------- Coq term rendering ----------

// Z renders an integer as a Coq Z literal (Z_scope assumed open).
func Z(i int64) string {
	if i < 0 {
		return "(" + strconv.FormatInt(i, 10) + ")"
	}
	return strconv.FormatInt(i, 10)
}

// ZU renders an unsigned integer as a Z literal.
func ZU(u uint64) string { return strconv.FormatUint(u, 10) }

// ZBig renders a big integer as a Z literal.
func ZBig(b *big.Int) string {
	if b.Sign() < 0 {
		return "(" + b.String() + ")"
	}
	return b.String()
}

// N renders an unsigned integer as an N literal.
func N(u uint64) string { return strconv.FormatUint(u, 10) + "%N" }

// Nat renders a small non-negative integer as a nat literal (keep it below a few thousand).
func Nat(u int) string { return strconv.Itoa(u) + "%nat" }

// Bool renders a Coq bool.
func Bool(b bool) string {
	if b {
		return "true"
	}
	return "false"
}

// List renders a Coq list.
func List(items []string) string { return "[" + strings.Join(items, "; ") + "]" }

// ListOf renders a Coq list from a slice with a per-element renderer.
func ListOf[T any](xs []T, f func(T) string) string {
	items := make([]string, len(xs))
	for i, x := range xs {
		items[i] = f(x)
	}
	return List(items)
}

// Bytes renders a byte string as a list of Z literals (0..255).
func Bytes(b []byte) string {
	items := make([]string, len(b))
	for i, x := range b {
		items[i] = strconv.Itoa(int(x))
	}
	return List(items)
}

// BytesN renders a byte string as a list of N literals.
func BytesN(b []byte) string {
	items := make([]string, len(b))
	for i, x := range b {
		items[i] = strconv.Itoa(int(x)) + "%N"
	}
	return List(items)
}

// Str renders a Go string as a Coq [string] literal when it is printable ASCII
// (Coq doubles the quote character); otherwise the caller should use Bytes.
func Str(s string) (string, bool) {
	for i := 0; i < len(s); i++ {
		if s[i] < 0x20 || s[i] > 0x7e {
			return "", false
		}
	}
	return "\"" + strings.ReplaceAll(s, "\"", "\"\"") + "\"", true
}

// Opt renders a Coq option.
func Opt(present bool, v string) string {
	if present {
		return "(Some " + v + ")"
	}
	return "None"
}

// Pair renders a Coq pair.
func Pair(a, b string) string { return "(" + a + ", " + b + ")" }

// App renders a constructor/function application with parenthesised arguments.
func App(head string, args ...string) string {
	if len(args) == 0 {
		return head
	}
	return "(" + head + " " + strings.Join(args, " ") + ")"
}

// ---------- cases files ----------

// Cases accumulates the cases of one run and writes them as sharded Coq files.
type Cases struct {
	env      *Env
	preamble string // imports and scopes
	caseType string
	checkFn  string
	shard    int
	terms    []string
	replays  []json.RawMessage
	nshards  int
	index    []caseIndex
}

type caseIndex struct {
	File    string            `json:"file"`
	Replays []json.RawMessage `json:"replays"`
}

// NewCases starts a cases writer. preamble is the Coq header (Require/Import/Open
// Scope lines), caseType the Coq type of one case, checkFn the name of the
// function of type caseType -> verdict, shard the number of cases per file.
func NewCases(env *Env, preamble, caseType, checkFn string, shard int) *Cases {
	if shard <= 0 {
		shard = 250
	}
	old, _ := filepath.Glob(filepath.Join(env.Out, "cases_*.v"))
	for _, f := range old {
		os.Remove(f)
	}
	return &Cases{env: env, preamble: preamble, caseType: caseType, checkFn: checkFn, shard: shard}
}

// Add appends one case: term is its Coq rendering, replay any JSON-able
// description sufficient to re-run the case on the implementation.
func (c *Cases) Add(term string, replay any) {
	r, err := json.Marshal(replay)
	if err != nil {
		panic(err)
	}
	c.terms = append(c.terms, term)
	c.replays = append(c.replays, r)
	if len(c.terms) >= c.shard {
		c.flush()
	}
}

// Len is the number of cases added so far.
func (c *Cases) Len() int { return c.nshards*c.shard + len(c.terms) }

func (c *Cases) flush() {
	if len(c.terms) == 0 {
		return
	}
	name := fmt.Sprintf("cases_%03d.v", c.nshards)
	var b strings.Builder
	b.WriteString("(* written by the harness; evaluated by coqc against the model *)\n")
	b.WriteString("From Coq Require Import List ZArith NArith Bool String.\nImport ListNotations.\n")
	b.WriteString("From V Require Import lib.Verdict.\n")
	b.WriteString(c.preamble)
	b.WriteString("\n")
	for i, t := range c.terms {
		fmt.Fprintf(&b, "Definition c%d : %s := %s.\n", i, c.caseType, t)
	}
	b.WriteString("Definition cases : list " + c.caseType + " := [")
	for i := range c.terms {
		if i > 0 {
			b.WriteString("; ")
		}
		fmt.Fprintf(&b, "c%d", i)
	}
	b.WriteString("].\n")
	b.WriteString("Definition R := Eval vm_compute in (failing " + c.checkFn + " cases).\nPrint R.\n")
	if err := os.WriteFile(filepath.Join(c.env.Out, name), []byte(b.String()), 0o644); err != nil {
		panic(err)
	}
	c.index = append(c.index, caseIndex{File: name, Replays: c.replays})
	c.terms, c.replays = nil, nil
	c.nshards++
}

// Close flushes the last shard and writes cases.json.
func (c *Cases) Close() {
	c.flush()
	writeJSON(filepath.Join(c.env.Out, "cases.json"), c.index)
}

// ---------- stats ----------

// Violation is a specification failure found by a Go-side oracle (used where the
// payload is too large to evaluate inside Coq).
type Violation struct {
	Desc    string `json:"desc"`
	Finding string `json:"finding,omitempty"` // id of the known finding it matches, if any
	Replay  any    `json:"replay"`
}

// Stats is what the harness measured in this run.
type Stats struct {
	Evaluations  int            `json:"evaluations"`
	Rule         string         `json:"rule"`
	Samples      []any          `json:"samples"`
	Distribution map[string]int `json:"distribution"`
	Violations   []Violation    `json:"violations"`
	KnownHits    map[string]int `json:"known_finding_hits"`
	Extra        map[string]any `json:"extra,omitempty"`
	distinct     map[string]struct{}
}

// NewStats creates an empty Stats with the given rule text.
func NewStats(rule string) *Stats {
	return &Stats{Rule: rule, Distribution: map[string]int{}, KnownHits: map[string]int{},
		Extra: map[string]any{}, distinct: map[string]struct{}{}}
}

// Case records one evaluated case; key identifies it for distinctness and
// nontrivial says whether it is non-trivial by the stated rule.
func (s *Stats) Case(key string, nontrivial bool) {
	s.Evaluations++
	if nontrivial {
		s.distinct[key] = struct{}{}
	}
}

// Count increments a distribution bucket.
func (s *Stats) Count(bucket string) { s.Distribution[bucket]++ }

// Sample keeps up to max sample cases.
func (s *Stats) Sample(v any, max int) {
	if len(s.Samples) < max {
		s.Samples = append(s.Samples, v)
	}
}

// Violate records a Go-side specification failure.
func (s *Stats) Violate(desc, finding string, replay any) {
	s.Violations = append(s.Violations, Violation{Desc: desc, Finding: finding, Replay: replay})
}

// Write writes stats.json.
func (s *Stats) Write(env *Env) {
	out := map[string]any{
		"evaluations":         s.Evaluations,
		"distinct_nontrivial": len(s.distinct),
		"rule":                s.Rule,
		"samples":             s.Samples,
		"distribution":        sortedCounts(s.Distribution),
		"violations":          s.Violations,
		"known_finding_hits":  s.KnownHits,
		"extra":               s.Extra,
	}
	if s.Violations == nil {
		out["violations"] = []Violation{}
	}
	if s.Samples == nil {
		out["samples"] = []any{}
	}
	writeJSON(filepath.Join(env.Out, "stats.json"), out)
}

func sortedCounts(m map[string]int) map[string]int {
	keys := make([]string, 0, len(m))
	for k := range m {
		keys = append(keys, k)
	}
	sort.Strings(keys)
	out := make(map[string]int, len(m))
	for _, k := range keys {
		out[k] = m[k]
	}
	return out
}

func writeJSON(path string, v any) {
	b, err := json.MarshalIndent(v, "", " ")
	if err != nil {
		panic(err)
	}
	if err := os.WriteFile(path, b, 0o644); err != nil {
		panic(err)
	}
}
