// Correspondence harness for C02 (caching blockstore layers are transparent).
//
// Sequential part: the real CachedBlockstore (2Q sizes 2..64, Bloom filters
// 512/1024 bits with 1..200 hash locations so that small universes saturate
// them, initial build and Rebuild with enumerations that fail / are cancelled
// at every position) is driven op by op next to an uncached twin
// (NewBlockstore on a second fake datastore).  Answers of both, and the
// datastore keys the cached store touched, go into cases_*.v where Coq
// evaluates the model and the map specification on them.
//
// Concurrent part: see conc_test.go.
package c02

import (
	"context"
	"encoding/json"
	"fmt"
	"sort"
	"strings"
	"testing"

	bbloom "github.com/ipfs/bbloom"
	bstore "github.com/ipfs/boxo/blockstore"
	dshelp "github.com/ipfs/boxo/datastore/dshelp"
	blocks "github.com/ipfs/go-block-format"
	cid "github.com/ipfs/go-cid"
	ipld "github.com/ipfs/go-ipld-format"
	mh "github.com/multiformats/go-multihash"

	"verif/harness/vh"
)

// ---------- key universe ----------

type universe struct {
	n       int
	data    [][]byte
	hash    []mh.Multihash
	byData  map[string]int
	dsIdx   map[string]int // datastore key string (with and without /blocks prefix) -> key index
	sizesZ  string
}

func newUniverse(n int) *universe {
	type kv struct {
		data []byte
		h    mh.Multihash
	}
	var all []kv
	for i := 0; i < n; i++ {
		// distinct payloads with distinct lengths 0..n-1 (an empty block included)
		d := make([]byte, i)
		for j := range d {
			d[j] = byte(0x41 + i)
		}
		h, err := mh.Sum(d, mh.SHA2_256, -1)
		if err != nil {
			panic(err)
		}
		all = append(all, kv{d, h})
	}
	// key index order = multihash byte order (tqcache sorts PutMany by cache key)
	sort.Slice(all, func(a, b int) bool { return string(all[a].h) < string(all[b].h) })
	u := &universe{n: n, byData: map[string]int{}, dsIdx: map[string]int{}}
	var sz []string
	for i, e := range all {
		u.data = append(u.data, e.data)
		u.hash = append(u.hash, e.h)
		u.byData[string(e.data)] = i
		k := dshelp.MultihashToDsKey(e.h)
		u.dsIdx[k.String()] = i
		u.dsIdx[bstore.BlockPrefix.Child(k).String()] = i
		sz = append(sz, zlit(len(e.data)))
	}
	u.sizesZ = vh.List(sz)
	return u
}

// cidOf addresses key k through one of three aliases of the same multihash.
func (u *universe) cidOf(k, variant int) cid.Cid {
	switch variant % 3 {
	case 0:
		return cid.NewCidV1(cid.Raw, u.hash[k])
	case 1:
		return cid.NewCidV1(cid.DagProtobuf, u.hash[k])
	}
	return cid.NewCidV0(u.hash[k])
}

func (u *universe) block(k, variant int) blocks.Block {
	b, err := blocks.NewBlockWithCid(u.data[k], u.cidOf(k, variant))
	if err != nil {
		panic(err)
	}
	return b
}

func zlit(i int) string { return fmt.Sprintf("(%d)%%Z", i) }

// posBits measures the bit positions bbloom sets for a key (rendered as a Coq list of N).
func posBits(bits, hashes int, h mh.Multihash) string {
	bl, err := bbloom.New(float64(bits), float64(hashes))
	if err != nil {
		panic(err)
	}
	bl.Add(h)
	var ex struct{ FilterSet []byte }
	if err := json.Unmarshal(bl.JSONMarshal(), &ex); err != nil {
		panic(err)
	}
	var out []string
	for w := 0; w*8 < len(ex.FilterSet); w++ {
		for b := 0; b < 64; b++ {
			// big-endian word w, bit b
			byteIdx := w*8 + 7 - b/8
			if ex.FilterSet[byteIdx]&(1<<(uint(b)%8)) != 0 {
				out = append(out, fmt.Sprintf("%d%%N", w*64+b))
			}
		}
	}
	return vh.List(out)
}

var bloomSizes = []int{1, 2, 8, 64, 128}
var bloomHashes = []int{1, 2, 3, 7, 20, 64, 200}

// bbloom rounds every size below 512 bits up to 512: those filters are identical.
func bloomBits(sizeBytes int) int {
	if sizeBytes*8 < 512 {
		return 512
	}
	return sizeBytes * 8
}

func posName(u *universe, sizeBytes, hashes int) string {
	return fmt.Sprintf("pos_%d_%d_%d", u.n, bloomBits(sizeBytes), hashes)
}

// posTables renders, once per cases file, the measured Bloom positions of every
// key for every distinct (filter bits, hash count) the generators use.
func posTables(u6, u10 *universe) string {
	var b strings.Builder
	b.WriteString("Definition pos_none : list (list N) := [].\n")
	seen := map[string]bool{}
	emit := func(u *universe, sz, h int) {
		name := posName(u, sz, h)
		if seen[name] {
			return
		}
		seen[name] = true
		rows := make([]string, u.n)
		for i := range rows {
			rows[i] = posBits(sz*8, h, u.hash[i])
		}
		fmt.Fprintf(&b, "Definition %s : list (list N) := %s.\n", name, vh.List(rows))
	}
	for _, sz := range bloomSizes {
		for _, h := range bloomHashes {
			emit(u10, sz, h)
		}
	}
	for _, sh := range [][2]int{{1, 1}, {1, 3}, {1, 7}, {8, 64}} {
		emit(u6, sh[0], sh[1])
	}
	return b.String()
}

// ---------- results ----------

func resErr(err error) string {
	switch {
	case err == nil:
		return "ROk"
	case ipld.IsNotFound(err):
		return "RNotFound"
	}
	return "RErr"
}

func (u *universe) resBlock(b blocks.Block, err error, want cid.Cid) string {
	if err != nil {
		return resErr(err)
	}
	if b == nil {
		return "RErr"
	}
	id, ok := u.byData[string(b.RawData())]
	if !ok {
		id = 255
	}
	if !b.Cid().Equals(want) {
		id = 254
	}
	return fmt.Sprintf("(RBlock %d %s)", id, zlit(len(b.RawData())))
}

func (u *universe) resBytes(data []byte, called bool, err error) string {
	if err != nil {
		return resErr(err)
	}
	if !called {
		return "RErr"
	}
	id, ok := u.byData[string(data)]
	if !ok {
		id = 255
	}
	return fmt.Sprintf("(RBlock %d %s)", id, zlit(len(data)))
}

// ---------- viewer wrapper (lets the caches take their Viewer paths) ----------

type viewerBS struct{ bstore.Blockstore }

func (v viewerBS) View(ctx context.Context, c cid.Cid, cb func([]byte) error) error {
	b, err := v.Blockstore.Get(ctx, c)
	if err != nil {
		return err
	}
	return cb(b.RawData())
}
func (v viewerBS) AllKeysChanWithErr(ctx context.Context) (<-chan cid.Cid, func() error, error) {
	return v.Blockstore.(bstore.AllKeysChanWithErrer).AllKeysChanWithErr(ctx)
}

// ---------- operations ----------

type sop struct {
	Kind    string `json:"kind"` // has get getsize view put delete putmany rebuild rebuildc active
	K       int    `json:"k"`
	Ks      []int  `json:"ks,omitempty"`
	Variant int    `json:"variant"`
	Fault   bool   `json:"fault,omitempty"`
	QKind   string `json:"qkind,omitempty"` // rebuild: "", err, cancel, setup
	QPos    int    `json:"qpos,omitempty"`
}

func (o sop) rk() string {
	return map[string]string{"has": "KHas", "get": "KGet", "getsize": "KGetSize", "view": "KView"}[o.Kind]
}

// coq renders the model op; rebuildOK is the observed outcome (the oracle of a cancelled enumeration).
func (o sop) coq(rebuildOK bool) string {
	switch o.Kind {
	case "has", "get", "getsize", "view":
		return fmt.Sprintf("(ORead %s %d)", o.rk(), o.K)
	case "put":
		return fmt.Sprintf("(OPut %d %s)", o.K, vh.Bool(o.Fault))
	case "delete":
		return fmt.Sprintf("(ODelete %d %s)", o.K, vh.Bool(o.Fault))
	case "putmany":
		return fmt.Sprintf("(OPutMany %s %s)", vh.ListOf(o.Ks, func(k int) string { return fmt.Sprint(k) }), vh.Bool(o.Fault))
	case "rebuild":
		n, c := enumOutcome(o.QKind, o.QPos, rebuildOK)
		return fmt.Sprintf("(ORebuild %d %s)", n, vh.Bool(c))
	case "rebuildc":
		return "ORebuildCancelled"
	}
	return "OActive"
}

// enumOutcome maps a query plan to the model's (delivered prefix, complete) pair.
// A cancelled enumeration races inside the implementation (select between the
// key channel and ctx.Done()); its observed outcome is the oracle.
func enumOutcome(kind string, pos int, observedOK bool) (int, bool) {
	switch kind {
	case "err":
		return pos, false
	case "setup":
		return 0, false
	case "cancel":
		if observedOK {
			return 30, true
		}
		return pos, false
	}
	return 30, true
}

type store struct {
	bs  bstore.Blockstore
	d   *fds
	bcs bstore.BloomCacheStatus
}

// apply runs one data operation on a blockstore and projects the answer.
func (u *universe) apply(ctx context.Context, s *store, o sop) string {
	s.d.mu.Lock()
	s.d.readonly = o.Fault
	s.d.mu.Unlock()
	defer func() {
		s.d.mu.Lock()
		s.d.readonly = false
		s.d.mu.Unlock()
	}()
	return u.applyRaw(ctx, s, o)
}

func (u *universe) applyRaw(ctx context.Context, s *store, o sop) string {
	c := cid.Undef
	if o.Kind != "putmany" && o.Kind != "rebuild" && o.Kind != "rebuildc" && o.Kind != "active" {
		c = u.cidOf(o.K, o.Variant)
	}
	switch o.Kind {
	case "has":
		b, err := s.bs.Has(ctx, c)
		if err != nil {
			return resErr(err)
		}
		return "(RBool " + vh.Bool(b) + ")"
	case "get":
		b, err := s.bs.Get(ctx, c)
		return u.resBlock(b, err, c)
	case "getsize":
		n, err := s.bs.GetSize(ctx, c)
		if err != nil {
			return resErr(err)
		}
		return "(RSize " + zlit(n) + ")"
	case "view":
		var got []byte
		called := false
		cb := func(b []byte) error { got = append([]byte(nil), b...); called = true; return nil }
		var err error
		if v, ok := s.bs.(bstore.Viewer); ok {
			err = v.View(ctx, c, cb)
		} else {
			var b blocks.Block
			b, err = s.bs.Get(ctx, c)
			if err == nil {
				cb(b.RawData())
			}
		}
		return u.resBytes(got, called, err)
	case "put":
		return resErr(s.bs.Put(ctx, u.block(o.K, o.Variant)))
	case "delete":
		return resErr(s.bs.DeleteBlock(ctx, c))
	case "putmany":
		var bl []blocks.Block
		for i, k := range o.Ks {
			bl = append(bl, u.block(k, o.Variant+i))
		}
		return resErr(s.bs.PutMany(ctx, bl))
	}
	panic("apply: " + o.Kind)
}

// applyCtl runs Rebuild / BloomActive on the cached store.
func (u *universe) applyCtl(ctx context.Context, s *store, o sop) string {
	switch o.Kind {
	case "rebuild":
		rctx, cancel := context.WithCancel(ctx)
		defer cancel()
		s.d.mu.Lock()
		s.d.plans[tidOf(rctx)] = qplan{kind: o.QKind, pos: o.QPos, cancel: cancel}
		s.d.mu.Unlock()
		return resErr(s.bcs.Rebuild(rctx))
	case "rebuildc":
		rctx, cancel := context.WithCancel(ctx)
		cancel()
		return resErr(s.bcs.Rebuild(rctx))
	case "active":
		return "(RBool " + vh.Bool(s.bcs != nil && s.bcs.BloomActive()) + ")"
	}
	panic("applyCtl: " + o.Kind)
}

func isCtl(kind string) bool { return kind == "rebuild" || kind == "rebuildc" || kind == "active" }

// ---------- a sequential case ----------

type seqCfg struct {
	TQ      int    `json:"tq"`     // HasTwoQueueCacheSize (0 = no 2Q layer)
	Bloom   int    `json:"bloom"`  // HasBloomFilterSize in bytes (0 = no Bloom layer)
	Hashes  int    `json:"hashes"` // HasBloomFilterHashes
	Viewer  bool   `json:"viewer"`
	WT      bool   `json:"write_through"`
	NoPfx   bool   `json:"no_prefix"`
	Init    []int  `json:"init"`
	BKind   string `json:"build_kind"` // query plan of the initial build
	BPos    int    `json:"build_pos"`
	NKeys   int    `json:"nkeys"`
}

func (u *universe) baseStore(c seqCfg) *store {
	d := newFds(u.dsIdx)
	var opts []bstore.Option
	if c.WT {
		opts = append(opts, bstore.WriteThrough(true))
	}
	if c.NoPfx {
		opts = append(opts, bstore.NoPrefix())
	}
	var bs bstore.Blockstore = bstore.NewBlockstore(d, opts...)
	if c.Viewer {
		bs = viewerBS{bs}
	}
	return &store{bs: bs, d: d}
}

type seqResult struct {
	term    string
	key     string
	nontriv bool
	replay  map[string]any
	mix     map[string]int
}

// runSeq executes one sequential history on a fresh cached store and its twin.
func runSeq(t *testing.T, u *universe, c seqCfg, ops []sop) seqResult {
	ctx := context.Background()
	cached, twin := u.baseStore(c), u.baseStore(c)
	for _, k := range c.Init {
		for _, s := range []*store{cached, twin} {
			if err := s.bs.Put(ctx, u.block(k, 0)); err != nil {
				t.Fatal(err)
			}
		}
	}
	cached.d.takeTouched()
	bctx, bcancel := context.WithCancel(ctx)
	defer bcancel()
	cached.d.plans[-1] = qplan{kind: c.BKind, pos: c.BPos, cancel: bcancel}
	cbs, err := bstore.CachedBlockstore(bctx, cached.bs, bstore.CacheOpts{
		HasBloomFilterSize: c.Bloom, HasBloomFilterHashes: c.Hashes, HasTwoQueueCacheSize: c.TQ})
	if err != nil {
		t.Fatalf("CachedBlockstore(%+v): %v", c, err)
	}
	cached.bs = cbs
	bres := "RNone"
	if st, ok := cbs.(bstore.BloomCacheStatus); ok {
		cached.bcs = st
		bres = resErr(st.Wait(ctx))
		if bres == "RNotFound" {
			bres = "RErr"
		}
	}
	if (c.Bloom != 0) != (cached.bcs != nil) {
		t.Fatalf("BloomCacheStatus presence does not match options %+v", c)
	}
	buildOK := bres == "ROk"
	cached.d.takeTouched()

	var obs []string
	mix := map[string]int{}
	sawHit, sawEvictable, sawBloomNeg := false, false, false
	for _, o := range ops {
		var r, tw string
		if isCtl(o.Kind) {
			if o.Kind == "rebuild" && (o.QKind == "err" || o.QKind == "cancel") {
				twin.d.mu.Lock()
				size := len(twin.d.data)
				twin.d.mu.Unlock()
				if o.QPos > size { // a position the enumeration never reaches: no fault
					o.QKind, o.QPos = "", 0
				}
			}
			r = u.applyCtl(ctx, cached, o)
			tw = "RNone"
		} else {
			r = u.apply(bctxOr(ctx), cached, o)
			tw = u.apply(ctx, twin, o)
		}
		touched := cached.d.takeTouched()
		twin.d.takeTouched()
		if len(touched) == 0 && !isCtl(o.Kind) {
			sawHit = true
		}
		_ = sawEvictable
		if r == "RNotFound" && len(touched) == 0 {
			sawBloomNeg = true
		}
		mix[o.Kind]++
		if o.Fault {
			mix["fault"]++
		}
		obs = append(obs, fmt.Sprintf("mkObs %s %s %s %s", o.coq(r == "ROk"), r,
			vh.ListOf(touched, func(k int) string { return fmt.Sprint(k) }), tw))
	}
	bn, bc := enumOutcome(c.BKind, c.BPos, buildOK)
	masks := "pos_none"
	if c.Bloom != 0 {
		masks = posName(u, c.Bloom, c.Hashes)
	}
	term := fmt.Sprintf("CSeq (mkSeq (Build_cfg %s %s) %s %s %s %d %s %s %s)",
		vh.Bool(c.TQ > 0), vh.Bool(c.Bloom != 0), masks, u.sizesZ,
		vh.ListOf(c.Init, func(k int) string { return fmt.Sprint(k) }), bn, vh.Bool(bc), bres, vh.List(obs))
	var sb strings.Builder
	for _, o := range ops {
		fmt.Fprintf(&sb, "%s%d%v%v%s%d;", o.Kind, o.K, o.Ks, o.Fault, o.QKind, o.QPos)
	}
	return seqResult{
		term: term, key: fmt.Sprintf("%+v|%s", c, sb.String()),
		nontriv: sawHit && len(ops) >= 5 && (c.Bloom == 0 || sawBloomNeg || c.BKind != ""),
		replay:  map[string]any{"kind": "seq", "cfg": c, "ops": ops}, mix: mix,
	}
}

func bctxOr(ctx context.Context) context.Context { return ctx }

// ---------- generators ----------

func genOps(e *vh.Env, nkeys, n int, bloom bool) []sop {
	r := e.Rng
	var ops []sop
	probe := func() {
		for k := 0; k < nkeys; k++ {
			ops = append(ops, sop{Kind: []string{"has", "get", "getsize", "view"}[r.Intn(4)], K: k, Variant: r.Intn(3)})
		}
	}
	for len(ops) < n {
		x := r.Intn(100)
		k := r.Intn(nkeys)
		if r.Intn(3) == 0 {
			k = r.Intn(1 + nkeys/3) // hot keys: repeated hits
		}
		v := r.Intn(3)
		fault := r.Intn(8) == 0
		switch {
		case x < 14:
			ops = append(ops, sop{Kind: "has", K: k, Variant: v})
		case x < 26:
			ops = append(ops, sop{Kind: "get", K: k, Variant: v})
		case x < 38:
			ops = append(ops, sop{Kind: "getsize", K: k, Variant: v})
		case x < 46:
			ops = append(ops, sop{Kind: "view", K: k, Variant: v})
		case x < 64:
			ops = append(ops, sop{Kind: "put", K: k, Variant: v, Fault: fault})
		case x < 78:
			ops = append(ops, sop{Kind: "delete", K: k, Variant: v, Fault: fault})
		case x < 87:
			m := r.Intn(5)
			ks := make([]int, m)
			for i := range ks {
				ks[i] = r.Intn(nkeys)
			}
			ops = append(ops, sop{Kind: "putmany", Ks: ks, Variant: v, Fault: fault})
		case x < 95:
			if !bloom {
				continue
			}
			o := sop{Kind: "rebuild"}
			switch r.Intn(5) {
			case 0, 1:
				o.QKind, o.QPos = "err", r.Intn(nkeys+1)
			case 2:
				o.QKind, o.QPos = "cancel", r.Intn(nkeys+1)
			case 3:
				if r.Intn(3) == 0 {
					o.QKind = "setup"
				}
			}
			ops = append(ops, o)
			if o.QKind != "" {
				probe()
			}
		case x < 97:
			if bloom {
				ops = append(ops, sop{Kind: "rebuildc"})
			}
		default:
			if bloom {
				ops = append(ops, sop{Kind: "active"})
			}
		}
	}
	return ops
}

func genCfg(e *vh.Env, nkeys int) seqCfg {
	r := e.Rng
	c := seqCfg{NKeys: nkeys, Viewer: r.Intn(2) == 0, WT: r.Intn(2) == 0, NoPfx: r.Intn(3) == 0}
	switch r.Intn(10) {
	case 0, 1, 2: // 2Q only
		c.TQ = 2 + r.Intn(63)
	case 3, 4: // Bloom only
		c.Bloom = bloomSizes[r.Intn(len(bloomSizes))]
	default:
		c.TQ = 2 + r.Intn(63)
		c.Bloom = bloomSizes[r.Intn(len(bloomSizes))]
	}
	if r.Intn(2) == 0 && c.TQ > 0 {
		c.TQ = 2 + r.Intn(8) // small caches: evictions
	}
	if c.Bloom != 0 {
		c.Hashes = bloomHashes[r.Intn(len(bloomHashes))]
	}
	for k := 0; k < nkeys; k++ {
		if r.Intn(2) == 0 {
			c.Init = append(c.Init, k)
		}
	}
	if c.Bloom != 0 {
		switch r.Intn(6) {
		case 0, 1:
			c.BKind, c.BPos = "err", r.Intn(len(c.Init)+1)
		case 2:
			c.BKind, c.BPos = "cancel", r.Intn(len(c.Init)+1)
		case 3:
			if r.Intn(3) == 0 {
				c.BKind = "setup"
			}
		}
	}
	return c
}

// corpusSeq: enumeration failing / cancelled at EVERY position, for the initial
// build and for Rebuild, each followed by probes of every key through every read.
func corpusSeq(u *universe) (cfgs []seqCfg, opss [][]sop) {
	nkeys := 6
	initKeys := []int{0, 1, 2, 4, 5}
	probeAll := func(ops []sop) []sop {
		for _, kind := range []string{"has", "get", "getsize", "view"} {
			for k := 0; k < nkeys; k++ {
				ops = append(ops, sop{Kind: kind, K: k, Variant: k})
			}
		}
		return ops
	}
	for _, tq := range []int{0, 2, 64} {
		for _, kind := range []string{"err", "cancel"} {
			for pos := 0; pos <= len(initKeys); pos++ {
				c := seqCfg{NKeys: nkeys, TQ: tq, Bloom: 1, Hashes: 3, Init: initKeys, BKind: kind, BPos: pos, Viewer: pos%2 == 0, WT: pos%2 == 1}
				ops := probeAll([]sop{{Kind: "active"}})
				ops = append(ops, sop{Kind: "put", K: 3}, sop{Kind: "has", K: 3}, sop{Kind: "delete", K: 0}, sop{Kind: "has", K: 0})
				ops = append(ops, sop{Kind: "rebuild", QKind: kind, QPos: pos}, sop{Kind: "active"})
				ops = probeAll(ops)
				ops = append(ops, sop{Kind: "rebuild"}, sop{Kind: "active"})
				ops = probeAll(ops)
				ops = append(ops, sop{Kind: "rebuildc"}, sop{Kind: "active"}, sop{Kind: "put", K: 0}, sop{Kind: "getsize", K: 0})
				cfgs, opss = append(cfgs, c), append(opss, ops)
			}
		}
	}
	// setup failure, 2Q paths with faults, PutMany shapes
	c := seqCfg{NKeys: nkeys, TQ: 3, Bloom: 8, Hashes: 64, Init: []int{1, 3}, BKind: "setup", Viewer: true}
	ops := probeAll(nil)
	ops = append(ops,
		sop{Kind: "put", K: 0, Fault: true}, sop{Kind: "has", K: 0}, sop{Kind: "put", K: 0}, sop{Kind: "getsize", K: 0},
		sop{Kind: "delete", K: 0, Fault: true}, sop{Kind: "has", K: 0}, sop{Kind: "delete", K: 0}, sop{Kind: "get", K: 0},
		sop{Kind: "putmany", Ks: []int{5, 1, 5, 2}}, sop{Kind: "putmany", Ks: []int{1, 5}}, sop{Kind: "putmany", Ks: []int{4, 0}, Fault: true},
		sop{Kind: "putmany", Ks: nil}, sop{Kind: "putmany", Ks: []int{4}}, sop{Kind: "rebuild"})
	ops = probeAll(ops)
	cfgs, opss = append(cfgs, c), append(opss, ops)
	return
}

func TestC02(t *testing.T) {
	e := vh.Load(t)
	st := vh.NewStats("sequential: random histories (<=60 ops quick / <=120 thorough, 10 keys addressed through 3 CID aliases, 2Q sizes 2..64, " +
		"Bloom 512/1024 bits with 1..200 hash locations, read-only datastore faults, Rebuild/initial build with enumerations failing or " +
		"cancelled at every position) on the real CachedBlockstore next to an uncached twin; non-trivial = >=5 ops, at least one answer " +
		"served without touching the datastore and (with a Bloom layer) a Bloom-negative answer or a faulty initial build. " +
		"concurrent: see extra.concurrent")
	u6 := newUniverse(6)
	u10 := newUniverse(10)
	cs := vh.NewCases(e, "From V Require Import model.M_C02.\n"+posTables(u6, u10), "case", "check_case", 200)
	cfgs, opss := corpusSeq(u6)
	for i := range cfgs {
		r := runSeq(t, u6, cfgs[i], opss[i])
		cs.Add(r.term, r.replay)
		st.Case(r.key, r.nontriv)
		st.Count("seq/corpus")
	}
	nseq := e.Pick(700, 6000)
	maxLen := e.Pick(60, 120)
	for i := 0; i < nseq; i++ {
		c := genCfg(e, 10)
		n := 5 + e.Rng.Intn(maxLen-4)
		if e.Rng.Intn(4) == 0 {
			n = 3 + e.Rng.Intn(12)
		}
		ops := genOps(e, 10, n, c.Bloom != 0)
		r := runSeq(t, u10, c, ops)
		cs.Add(r.term, r.replay)
		st.Case(r.key, r.nontriv)
		st.Count("seq/random")
		for k, v := range r.mix {
			st.Distribution["seq/op/"+k] += v
		}
		switch {
		case c.TQ > 0 && c.Bloom != 0:
			st.Count("seq/cfg/2q+bloom")
		case c.TQ > 0:
			st.Count("seq/cfg/2q")
		default:
			st.Count("seq/cfg/bloom")
		}
		if c.TQ > 0 && c.TQ < 10 {
			st.Count("seq/cfg/2q-smaller-than-universe")
		}
		if c.BKind != "" {
			st.Count("seq/build/" + c.BKind)
		}
		st.Sample(r.replay, 2)
	}
	runConcurrent(t, e, cs, st)
	cs.Close()
	st.Write(e)
}
