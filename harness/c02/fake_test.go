// Fake datastore shared by the sequential and the concurrent part of the C02
// harness.  It is a map with (a) a log of the keys each blockstore operation
// touched (the witness of cache hits), (b) a "read-only" fault (state-changing
// writes fail, no-op writes succeed), (c) a plan for the next Query (fail or
// cancel at a chosen position, or fail at setup), and (d) optional parking of
// every call on a scheduler the harness controls (concurrent part).
package c02

import (
	"context"
	"errors"
	"sort"
	"sync"

	ds "github.com/ipfs/go-datastore"
	dsq "github.com/ipfs/go-datastore/query"
)

var errInjected = errors.New("injected datastore fault")

const qmark = 30 // the model's QMARK

type qplan struct {
	kind   string // "", "err", "cancel", "setup"
	pos    int
	cancel context.CancelFunc
}

type tidKey struct{}

func withTid(ctx context.Context, tid int) context.Context {
	return context.WithValue(ctx, tidKey{}, tid)
}
func tidOf(ctx context.Context) int {
	if v, ok := ctx.Value(tidKey{}).(int); ok {
		return v
	}
	return -1
}

type fds struct {
	mu       sync.Mutex
	data     map[string][]byte
	idx      map[string]int // datastore key -> key index
	touched  []int
	readonly bool
	plans    map[int]qplan // per calling thread (-1 = sequential mode)
	sch      *sched
}

func newFds(idx map[string]int) *fds {
	return &fds{data: map[string][]byte{}, idx: idx, plans: map[int]qplan{}}
}

func (d *fds) keyIdx(k ds.Key) int {
	if i, ok := d.idx[k.String()]; ok {
		return i
	}
	return 999
}

func (d *fds) touch(i int) {
	for _, x := range d.touched {
		if x == i {
			return
		}
	}
	d.touched = append(d.touched, i)
}

func (d *fds) takeTouched() []int {
	d.mu.Lock()
	defer d.mu.Unlock()
	t := d.touched
	d.touched = nil
	return t
}

func (d *fds) park(ctx context.Context, phase, call string, key int, val string) {
	if d.sch == nil {
		return
	}
	if tid := tidOf(ctx); tid >= 0 {
		d.sch.park(tid, phase, call, key, val)
	}
}

func bstr(b bool) string {
	if b {
		return "1"
	}
	return "0"
}

func (d *fds) Get(ctx context.Context, key ds.Key) ([]byte, error) {
	i := d.keyIdx(key)
	d.park(ctx, "pre", "Get", i, "")
	d.mu.Lock()
	d.touch(i)
	v, ok := d.data[key.String()]
	d.mu.Unlock()
	d.park(ctx, "post", "Get", i, bstr(ok))
	if !ok {
		return nil, ds.ErrNotFound
	}
	return append([]byte(nil), v...), nil
}

func (d *fds) Has(ctx context.Context, key ds.Key) (bool, error) {
	i := d.keyIdx(key)
	d.park(ctx, "pre", "Has", i, "")
	d.mu.Lock()
	d.touch(i)
	_, ok := d.data[key.String()]
	d.mu.Unlock()
	d.park(ctx, "post", "Has", i, bstr(ok))
	return ok, nil
}

func (d *fds) GetSize(ctx context.Context, key ds.Key) (int, error) {
	i := d.keyIdx(key)
	d.park(ctx, "pre", "GetSize", i, "")
	d.mu.Lock()
	d.touch(i)
	v, ok := d.data[key.String()]
	d.mu.Unlock()
	d.park(ctx, "post", "GetSize", i, bstr(ok))
	if !ok {
		return -1, ds.ErrNotFound
	}
	return len(v), nil
}

func (d *fds) Put(ctx context.Context, key ds.Key, value []byte) error {
	i := d.keyIdx(key)
	d.park(ctx, "pre", "Put", i, "")
	d.mu.Lock()
	d.touch(i)
	var err error
	if _, ok := d.data[key.String()]; !ok {
		if d.readonly {
			err = errInjected
		} else {
			d.data[key.String()] = append([]byte(nil), value...)
		}
	}
	d.mu.Unlock()
	d.park(ctx, "post", "Put", i, bstr(err == nil))
	return err
}

func (d *fds) Delete(ctx context.Context, key ds.Key) error {
	i := d.keyIdx(key)
	d.park(ctx, "pre", "Delete", i, "")
	d.mu.Lock()
	d.touch(i)
	var err error
	if _, ok := d.data[key.String()]; ok {
		if d.readonly {
			err = errInjected
		} else {
			delete(d.data, key.String())
		}
	}
	d.mu.Unlock()
	d.park(ctx, "post", "Delete", i, bstr(err == nil))
	return err
}

func (d *fds) Sync(ctx context.Context, prefix ds.Key) error { return nil }
func (d *fds) Close() error                                  { return nil }

// Query takes a point-in-time snapshot of the keys (ascending key index) when
// it is called; the results are then delivered one NextSync at a time.
func (d *fds) Query(ctx context.Context, q dsq.Query) (dsq.Results, error) {
	d.park(ctx, "pre", "Query", qmark, "")
	d.mu.Lock()
	d.touch(qmark)
	plan := d.plans[tidOf(ctx)]
	delete(d.plans, tidOf(ctx))
	type ent struct {
		i int
		k string
	}
	var snap []ent
	for k := range d.data {
		i := 999
		if x, ok := d.idx[k]; ok {
			i = x
		}
		snap = append(snap, ent{i, k})
	}
	d.mu.Unlock()
	sort.Slice(snap, func(a, b int) bool { return snap[a].i < snap[b].i })
	d.park(ctx, "post", "Query", qmark, "")
	if plan.kind == "setup" {
		return nil, errInjected
	}
	n := 0
	next := func() (dsq.Result, bool) {
		p := n
		n++
		d.park(ctx, "pre", "Next", p, "")
		if plan.kind == "err" && (p == plan.pos || p >= len(snap)) {
			// fails at the planned position, or at the end if there are fewer keys
			return dsq.Result{Error: errInjected}, true
		}
		if plan.kind == "cancel" && p == plan.pos && plan.cancel != nil {
			plan.cancel()
		}
		if p >= len(snap) {
			return dsq.Result{}, false
		}
		return dsq.Result{Entry: dsq.Entry{Key: snap[p].k}}, true
	}
	return dsq.ResultsFromIterator(q, dsq.Iterator{Next: next}), nil
}

type fbatch struct {
	d    *fds
	puts []struct {
		k ds.Key
		v []byte
	}
	dels []ds.Key
}

func (d *fds) Batch(ctx context.Context) (ds.Batch, error) { return &fbatch{d: d}, nil }

func (b *fbatch) Put(ctx context.Context, key ds.Key, value []byte) error {
	b.d.mu.Lock()
	b.d.touch(b.d.keyIdx(key))
	b.d.mu.Unlock()
	b.puts = append(b.puts, struct {
		k ds.Key
		v []byte
	}{key, append([]byte(nil), value...)})
	return nil
}
func (b *fbatch) Delete(ctx context.Context, key ds.Key) error {
	b.dels = append(b.dels, key)
	return nil
}

// Commit is atomic: under the read-only fault it fails without applying
// anything if any of its writes would change the state.
func (b *fbatch) Commit(ctx context.Context) error {
	d := b.d
	first := qmark
	if len(b.puts) > 0 {
		first = d.keyIdx(b.puts[0].k)
	}
	d.park(ctx, "pre", "Commit", first, "")
	d.mu.Lock()
	var err error
	if d.readonly {
		for _, p := range b.puts {
			if _, ok := d.data[p.k.String()]; !ok {
				err = errInjected
			}
		}
		for _, k := range b.dels {
			if _, ok := d.data[k.String()]; ok {
				err = errInjected
			}
		}
	}
	if err == nil {
		for _, p := range b.puts {
			if _, ok := d.data[p.k.String()]; !ok {
				d.data[p.k.String()] = p.v
			}
		}
		for _, k := range b.dels {
			delete(d.data, k.String())
		}
	}
	d.mu.Unlock()
	d.park(ctx, "post", "Commit", first, bstr(err == nil))
	return err
}

var _ ds.Batching = (*fds)(nil)
