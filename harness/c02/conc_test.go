package c02

import (
	"testing"

	"verif/harness/vh"
)

type sched struct{}

func (s *sched) park(tid int, phase, call string, key int, val string) {}

func runConcurrent(t *testing.T, e *vh.Env, cs *vh.Cases, st *vh.Stats) {}
