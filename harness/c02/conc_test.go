// Concurrent part of the C02 harness: schedule replay.
//
// 2-3 goroutines run short programs against the real CachedBlockstore over the
// fake datastore, every call of which parks on the scheduler below (before it
// takes effect and again before it returns).  The scheduler performs ONE action
// at a time (start a thread's next call, or release a parked thread), waits
// until every thread is parked, idle or blocked on a mutex, and logs where each
// thread is.  Coq replays the model along the logged schedule (model = code
// step by step) and decides whether the observed history is linearizable
// against the map.
package c02

import (
	"context"
	"fmt"
	"regexp"
	"runtime"
	"strconv"
	"strings"
	"sync"
	"sync/atomic"
	"testing"
	"time"

	bstore "github.com/ipfs/boxo/blockstore"
	blocks "github.com/ipfs/go-block-format"
	ds "github.com/ipfs/go-datastore"
	dssync "github.com/ipfs/go-datastore/sync"

	"verif/harness/vh"
)

type parkInfo struct {
	phase, call string
	key         int
	val         string
	resume      chan struct{}
}

type event struct {
	tid  int
	park *parkInfo
	res  string // response of a call (park == nil)
}

type cthread struct {
	tid    int
	gid    int64 // goroutine id of the worker (0: unknown, never blocked)
	ops    []sop
	next   int
	cmd    chan int
	state  string // "idle", "running", "park"
	park   *parkInfo
	res    []string
	isBlkd bool
}

type sched struct {
	ev   chan event
	thr  []*cthread
	self int64 // goroutine id of the scheduler
}

func (s *sched) park(tid int, phase, call string, key int, val string) {
	pi := &parkInfo{phase: phase, call: call, key: key, val: val, resume: make(chan struct{})}
	s.ev <- event{tid: tid, park: pi}
	<-pi.resume
}

var gidRe = regexp.MustCompile(`(?m)^goroutine (\d+) \[([^\],]+)`)

func curGid() int64 {
	buf := make([]byte, 64)
	n := runtime.Stack(buf, false)
	m := gidRe.FindSubmatch(buf[:n])
	id, _ := strconv.ParseInt(string(m[1]), 10, 64)
	return id
}

type gstate struct {
	state string
	frame string // top frame
}

var gblockRe = regexp.MustCompile(`(?m)^goroutine (\d+) \[([^\],]+)[^\]]*\]:\n([^\n]*)`)

func goroutineStates() map[int64]gstate {
	buf := make([]byte, 4<<20)
	n := runtime.Stack(buf, true)
	out := map[int64]gstate{}
	for _, m := range gblockRe.FindAllSubmatch(buf[:n], -1) {
		id, _ := strconv.ParseInt(string(m[1]), 10, 64)
		out[id] = gstate{state: string(m[2]), frame: string(m[3])}
	}
	return out
}

func isMutexWait(state string) bool {
	switch state {
	case "sync.Mutex.Lock", "sync.RWMutex.RLock", "sync.RWMutex.Lock":
		return true
	}
	return false
}

// allWaiting: in this snapshot no goroutine other than the scheduler's own can
// make progress by itself (helper goroutines of the implementation included:
// the key-enumeration producer, populate's consumer, the initial build).  Only
// wait states that need another goroutine to end count as waiting; runtime
// waits that resolve by themselves ("semacquire" inside the allocator / GC,
// "GC assist wait", "sleep", ...) do not.
func allWaiting(states map[int64]gstate, self int64) bool {
	for id, g := range states {
		if id == self {
			continue
		}
		switch g.state {
		case "chan receive", "select", "sync.Mutex.Lock", "sync.RWMutex.RLock", "sync.RWMutex.Lock",
			"finalizer wait", "cleanup wait", "sync.Cond.Wait":
		case "syscall":
			if !strings.HasPrefix(g.frame, "os/signal.") {
				return false
			}
		default:
			return false
		}
	}
	return true
}

func (s *sched) drain() {
	for {
		select {
		case e := <-s.ev:
			th := s.thr[e.tid]
			if e.park != nil {
				th.state, th.park = "park", e.park
			} else {
				th.state = "idle"
				th.res = append(th.res, e.res)
			}
		default:
			return
		}
	}
}

// settle waits until nothing can move without the scheduler: no event is
// pending and, in ONE stack snapshot (taken with the world stopped), every
// goroutine of the process except the scheduler's is waiting.  Parked and idle
// threads wait for the scheduler; a thread that has not reported is then
// "blocked" and must be waiting for a mutex.
func (s *sched) settle(t *testing.T) {
	deadline := time.Now().Add(180 * time.Second)
	nextSnap := 40
	for spins := 0; ; spins++ {
		s.drain()
		running := false
		for _, th := range s.thr {
			th.isBlkd = false
			if th.state == "running" {
				running = true
			}
		}
		if !running {
			// every thread has reported (parked or returned): they all wait for the scheduler
			return
		}
		if spins >= nextSnap {
			nextSnap = spins + 40 + spins/2
			states := goroutineStates()
			if allWaiting(states, s.self) {
				s.drain() // events sent before the snapshot
				if len(s.ev) == 0 {
					ok := true
					for _, th := range s.thr {
						th.isBlkd = false
						if th.state == "running" {
							if th.gid != 0 && isMutexWait(states[th.gid].state) {
								th.isBlkd = true
							} else {
								ok = false
							}
						}
					}
					if ok {
						return
					}
				}
			}
		}
		if time.Now().After(deadline) {
			t.Fatalf("scheduler: threads did not settle")
		}
		if spins < 30 {
			runtime.Gosched()
		} else {
			time.Sleep(20 * time.Microsecond)
		}
	}
}

func callCoq(c string) string {
	return map[string]string{"Has": "CHas", "Get": "CGet", "GetSize": "CGetSize", "Put": "CPut", "Delete": "CDelete",
		"Commit": "CCommit", "Query": "CQuery", "Next": "CNext"}[c]
}

func (s *sched) statuses() []string {
	out := make([]string, len(s.thr))
	for i, th := range s.thr {
		switch {
		case th.state == "park" && th.park.phase == "pre":
			out[i] = fmt.Sprintf("TPre %s %d", callCoq(th.park.call), th.park.key)
		case th.state == "park":
			out[i] = fmt.Sprintf("TPost %s %d %s", callCoq(th.park.call), th.park.key, vh.Bool(th.park.val == "1"))
		case th.state == "running" && th.isBlkd:
			out[i] = "TBlocked"
		default:
			out[i] = fmt.Sprintf("TIdle %d", len(th.res))
		}
	}
	return out
}

// ---------- one concurrent case ----------

type concCfg struct {
	TQ     int    `json:"tq"`
	Bloom  int    `json:"bloom"`
	Hashes int    `json:"hashes"`
	Viewer bool   `json:"viewer"`
	Init   []int  `json:"init"`
	BKind  string `json:"build_kind"`
	BPos   int    `json:"build_pos"`
}

// chooser decides the next scheduler action among n options.
type chooser func(opts []string) int

type concResult struct {
	term    string
	replay  map[string]any
	nsteps  int
	blocked bool
	key     string
}

func runConc(t *testing.T, u *universe, c concCfg, progs [][]sop, choose chooser) concResult {
	ctx := context.Background()
	sc := &sched{ev: make(chan event, 256), self: curGid()}
	base := u.baseStore(seqCfg{WT: true, NoPfx: true, Viewer: c.Viewer})
	for _, k := range c.Init {
		if err := base.bs.Put(ctx, u.block(k, 0)); err != nil {
			t.Fatal(err)
		}
	}
	base.d.takeTouched()
	off := 0
	if c.Bloom != 0 {
		off = 1
		sc.thr = append(sc.thr, &cthread{tid: 0, state: "running"})
	}
	for i, p := range progs {
		sc.thr = append(sc.thr, &cthread{tid: i + off, ops: p, cmd: make(chan int), state: "idle"})
	}
	base.d.sch = sc
	bctx, bcancel := context.WithCancel(withTid(ctx, 0))
	defer bcancel()
	if c.Bloom != 0 {
		base.d.plans[0] = qplan{kind: c.BKind, pos: c.BPos}
	}
	cbs, err := bstore.CachedBlockstore(bctx, base.bs, bstore.CacheOpts{
		HasBloomFilterSize: c.Bloom, HasBloomFilterHashes: c.Hashes, HasTwoQueueCacheSize: c.TQ})
	if err != nil {
		t.Fatal(err)
	}
	cached := &store{bs: cbs, d: base.d}
	if st, ok := cbs.(bstore.BloomCacheStatus); ok {
		cached.bcs = st
		go func() { // the "response" of the initial build
			r := resErr(st.Wait(ctx))
			if r == "RNotFound" {
				r = "RErr"
			}
			sc.ev <- event{tid: 0, res: r}
		}()
	}
	for _, th := range sc.thr {
		if th.cmd == nil {
			continue
		}
		th := th
		ready := make(chan struct{})
		go func() {
			th.gid = curGid()
			close(ready)
			tctx := withTid(ctx, th.tid)
			for i := range th.cmd {
				o := th.ops[i]
				var r string
				switch {
				case o.Kind == "rebuild":
					base.d.mu.Lock()
					base.d.plans[th.tid] = qplan{kind: o.QKind, pos: o.QPos}
					base.d.mu.Unlock()
					r = resErr(cached.bcs.Rebuild(tctx))
				case isCtl(o.Kind):
					r = u.applyCtl(tctx, cached, o)
				default:
					r = u.applyNoFault(tctx, cached, o)
				}
				sc.ev <- event{tid: th.tid, res: r}
			}
		}()
		<-ready
	}
	defer func() {
		for _, th := range sc.thr {
			if th.cmd != nil {
				close(th.cmd)
			}
		}
	}()
	sc.settle(t)
	st0 := sc.statuses()
	var steps []string
	var acts []string
	anyBlocked := false
	for {
		var opts []string
		for _, th := range sc.thr {
			switch {
			case th.state == "idle" && th.next < len(th.ops):
				opts = append(opts, fmt.Sprintf("S%d", th.tid))
			case th.state == "park":
				opts = append(opts, fmt.Sprintf("R%d", th.tid))
			}
		}
		if len(opts) == 0 {
			break
		}
		a := opts[choose(opts)]
		tid, _ := strconv.Atoi(a[1:])
		th := sc.thr[tid]
		var act string
		if a[0] == 'S' {
			th.state = "running"
			th.cmd <- th.next
			th.next++
			act = fmt.Sprintf("AStart %d", tid)
		} else {
			pi := th.park
			th.state, th.park = "running", nil
			close(pi.resume)
			act = fmt.Sprintf("ARel %d", tid)
		}
		sc.settle(t)
		sts := sc.statuses()
		if dbgTrail != nil {
			dbgTrail(len(steps), a, strings.Join(sts, " | "))
		}
		for _, x := range sts {
			if x == "TBlocked" {
				anyBlocked = true
			}
		}
		steps = append(steps, fmt.Sprintf("mkStep (%s) %s", act, vh.ListOf(sts, func(x string) string { return "(" + x + ")" })))
		acts = append(acts, a)
		if len(steps) > 400 {
			t.Fatalf("schedule does not terminate: %v", acts)
		}
	}
	for _, th := range sc.thr {
		if th.state != "idle" {
			t.Fatalf("deadlock: thread %d is %s (blocked=%v) after %v", th.tid, th.state, th.isBlkd, acts)
		}
	}
	masks := "pos_none"
	if c.Bloom != 0 {
		masks = posName(u, c.Bloom, c.Hashes)
	}
	bn, bc := enumOutcome(c.BKind, c.BPos, true)
	var results, progsCoq []string
	for _, th := range sc.thr {
		results = append(results, vh.List(th.res))
	}
	for _, p := range progs {
		progsCoq = append(progsCoq, vh.ListOf(p, func(o sop) string { return o.coq(true) }))
	}
	term := fmt.Sprintf("CConc (mkConc (Build_cfg %s %s) %s %s %s %d %s %s %s %s %s)",
		vh.Bool(c.TQ > 0), vh.Bool(c.Bloom != 0), masks, u.sizesZ,
		vh.ListOf(c.Init, func(k int) string { return fmt.Sprint(k) }), bn, vh.Bool(bc),
		vh.List(progsCoq), vh.ListOf(st0, func(x string) string { return "(" + x + ")" }), vh.List(steps), vh.List(results))
	return concResult{term: term, nsteps: len(steps), blocked: anyBlocked,
		key:    fmt.Sprintf("%+v|%v|%s", c, progs, strings.Join(acts, "")),
		replay: map[string]any{"kind": "conc", "cfg": c, "progs": progs, "schedule": strings.Join(acts, " ")}}
}

// applyNoFault is apply without touching the datastore's fault switch (threads run concurrently).
func (u *universe) applyNoFault(ctx context.Context, s *store, o sop) string {
	o.Fault = false
	return u.applyRaw(ctx, s, o)
}

var dbgTrail func(depth int, act, sts string)

// ---------- schedules ----------

func scripted(script []string, fallback chooser) chooser {
	i := 0
	return func(opts []string) int {
		for i < len(script) {
			want := script[i]
			i++
			for j, o := range opts {
				if o == want {
					return j
				}
			}
			panic(fmt.Sprintf("scripted schedule: %q not enabled among %v", want, opts))
		}
		return fallback(opts)
	}
}

func firstEnabled(opts []string) int { return 0 }

func randomChooser(e *vh.Env) chooser {
	// sticky random: keeps running the same thread for a while, so that both long
	// uninterrupted stretches and fine interleavings occur
	last := ""
	stick := e.Rng.Intn(4)
	return func(opts []string) int {
		if last != "" && e.Rng.Intn(4) < stick {
			for j, o := range opts {
				if o[1:] == last {
					return j
				}
			}
		}
		j := e.Rng.Intn(len(opts))
		last = opts[j][1:]
		return j
	}
}

// dfs enumerates schedules exhaustively (depth first) up to a budget.
type dfs struct {
	prefix []int
	nopts  []int
	depth  int
}

func (d *dfs) choose(opts []string) int {
	c := 0
	if d.depth < len(d.prefix) {
		c = d.prefix[d.depth]
		if c >= len(opts) || (d.depth < len(d.nopts) && d.nopts[d.depth] != len(opts)) {
			panic(fmt.Sprintf("schedule replay is not deterministic: depth %d prefix %v recorded options %v now %v", d.depth, d.prefix, d.nopts, opts))
		}
	} else {
		d.prefix = append(d.prefix, 0)
	}
	if d.depth < len(d.nopts) {
		d.nopts[d.depth] = len(opts)
	} else {
		d.nopts = append(d.nopts, len(opts))
	}
	d.depth++
	return c
}

// next advances to the next schedule; false when the space is exhausted.
func (d *dfs) next() bool {
	d.prefix, d.nopts = d.prefix[:d.depth], d.nopts[:d.depth]
	for i := len(d.prefix) - 1; i >= 0; i-- {
		if d.prefix[i]+1 < d.nopts[i] {
			d.prefix[i]++
			d.prefix, d.nopts = d.prefix[:i+1], d.nopts[:i+1]
			d.depth = 0
			return true
		}
	}
	return false
}

func genProg(e *vh.Env, nkeys, n int, bloom bool) []sop {
	r := e.Rng
	var ops []sop
	for len(ops) < n {
		k := r.Intn(nkeys)
		v := r.Intn(3)
		switch x := r.Intn(100); {
		case x < 22:
			ops = append(ops, sop{Kind: "has", K: k, Variant: v})
		case x < 34:
			ops = append(ops, sop{Kind: "get", K: k, Variant: v})
		case x < 44:
			ops = append(ops, sop{Kind: "getsize", K: k, Variant: v})
		case x < 50:
			ops = append(ops, sop{Kind: "view", K: k, Variant: v})
		case x < 70:
			ops = append(ops, sop{Kind: "put", K: k, Variant: v})
		case x < 84:
			ops = append(ops, sop{Kind: "delete", K: k, Variant: v})
		case x < 91:
			m := 1 + r.Intn(3)
			ks := make([]int, m)
			for i := range ks {
				ks[i] = r.Intn(nkeys)
			}
			ops = append(ops, sop{Kind: "putmany", Ks: ks, Variant: v})
		default:
			if bloom {
				o := sop{Kind: "rebuild"}
				if r.Intn(4) == 0 {
					o.QKind, o.QPos = "err", r.Intn(nkeys+1)
				}
				ops = append(ops, o)
			}
		}
	}
	return ops
}

func runConcurrent(t *testing.T, e *vh.Env, cs *vh.Cases, st *vh.Stats) {
	u := newUniverse(6) // concurrent programs use keys 0..2 of the 6-key universe
	add := func(r concResult, bucket string) {
		cs.Add(r.term, r.replay)
		st.Case(r.key, r.nsteps >= 8)
		st.Count(bucket)
		if r.blocked {
			st.Count("conc/with-a-thread-blocked-on-a-lock")
		}
	}
	// corpus: the witness of finding C02-1 (activation while a Put is between its
	// store write and its filter add), with and without the 2Q layer
	// (with the 2Q layer in between the same window exists but contains no datastore
	// call, so the scheduler cannot hold a thread inside it)
	{
		c := concCfg{Bloom: 1, Hashes: 3}
		progs := [][]sop{{{Kind: "put", K: 0}}, {{Kind: "has", K: 0}, {Kind: "has", K: 0}}}
		script := []string{"R0", "R0", "S1", "R1", "S2", "R2", "R2", "R0", "S2"}
		add(runConc(t, u, c, progs, scripted(script, firstEnabled)), "conc/corpus")
	}
	// corpus: a PutMany (multi-block batch, and single-element batch = the store's Put
	// path) that starts before a Rebuild swaps the filter and whose datastore write
	// lands after the Rebuild's snapshot query; the Rebuild then activates and the
	// same thread reads the key back after its PutMany has returned.  The filter
	// must be loaded AFTER the store write (bloomcache.PutMany: b.bloom.Load() per
	// block); a PutMany that adds to a filter pointer captured before the write
	// loses the keys in the discarded filter and the read answers "missing".
	for _, tq := range []int{0, 8} {
		for _, ks := range [][]int{{0, 1}, {0}} {
			c := concCfg{TQ: tq, Bloom: 1, Hashes: 3}
			progs := [][]sop{{{Kind: "putmany", Ks: ks}, {Kind: "has", K: 0}, {Kind: "get", K: 0}}, {{Kind: "rebuild"}}}
			script := []string{"R0", "R0", "R0", "S1", "S2", "R2", "R1", "R1", "R2", "R2", "S1"}
			add(runConc(t, u, c, progs, scripted(script, firstEnabled)), "conc/corpus")
		}
	}
	n := 0
	// exhaustive schedules of small programs; [pre] = scripted prefix (lets the
	// initial build finish first), [budget] overrides the default number of schedules
	small := []struct {
		c      concCfg
		progs  [][]sop
		pre    []string
		budget int
	}{
		{c: concCfg{Bloom: 1, Hashes: 3}, pre: []string{"R0", "R0", "R0"}, budget: 600,
			progs: [][]sop{{{Kind: "putmany", Ks: []int{0, 1}}, {Kind: "has", K: 0}}, {{Kind: "rebuild"}}}},
		{c: concCfg{Bloom: 1, Hashes: 3}, pre: []string{"R0", "R0", "R0"}, budget: 600,
			progs: [][]sop{{{Kind: "putmany", Ks: []int{0}}, {Kind: "getsize", K: 0}}, {{Kind: "rebuild"}}}},
		{c: concCfg{TQ: 8, Bloom: 1, Hashes: 3}, pre: []string{"R0", "R0", "R0"}, budget: 600,
			progs: [][]sop{{{Kind: "putmany", Ks: []int{1, 0}}, {Kind: "get", K: 1}}, {{Kind: "rebuild"}}}},
		{c: concCfg{TQ: 8, Bloom: 1, Hashes: 3, Viewer: true}, pre: []string{"R0", "R0", "R0"}, budget: 600,
			progs: [][]sop{{{Kind: "putmany", Ks: []int{0}}, {Kind: "view", K: 0}}, {{Kind: "rebuild"}}}},
		{c: concCfg{Bloom: 1, Hashes: 3}, pre: []string{"R0", "R0", "R0"}, budget: 600,
			progs: [][]sop{{{Kind: "put", K: 0}, {Kind: "has", K: 0}}, {{Kind: "rebuild"}}}},
		{c: concCfg{TQ: 8}, progs: [][]sop{{{Kind: "put", K: 0}}, {{Kind: "has", K: 0}, {Kind: "get", K: 0}}}},
		{c: concCfg{TQ: 8, Init: []int{0}}, progs: [][]sop{{{Kind: "delete", K: 0}}, {{Kind: "getsize", K: 0}, {Kind: "has", K: 0}}}},
		{c: concCfg{TQ: 8, Init: []int{0}}, progs: [][]sop{{{Kind: "delete", K: 0}, {Kind: "put", K: 0}}, {{Kind: "put", K: 0}, {Kind: "has", K: 0}}}},
		{c: concCfg{TQ: 8, Viewer: true}, progs: [][]sop{{{Kind: "putmany", Ks: []int{1, 0}}}, {{Kind: "put", K: 1}, {Kind: "view", K: 0}}}},
		{c: concCfg{Bloom: 1, Hashes: 3, Init: []int{1}}, progs: [][]sop{{{Kind: "put", K: 0}}, {{Kind: "has", K: 0}}}},
		{c: concCfg{Bloom: 1, Hashes: 3, Init: []int{0}}, progs: [][]sop{{{Kind: "rebuild"}}, {{Kind: "get", K: 0}, {Kind: "delete", K: 0}}}},
		{c: concCfg{TQ: 8, Bloom: 1, Hashes: 3}, progs: [][]sop{{{Kind: "put", K: 0}}, {{Kind: "rebuild"}}}},
	}
	defBudget := e.Pick(150, 1500)
	for i, sm := range small {
		d := &dfs{}
		var prev []string
		budget := defBudget
		if sm.budget > budget {
			budget = sm.budget
		}
		for k := 0; k < budget; k++ {
			d.depth = 0
			var cur []string
			npre := len(sm.pre) + len(d.prefix) - 1
			dbgTrail = func(depth int, act, sts string) {
				line := act + ": " + sts
				cur = append(cur, line)
				if depth < npre && depth < len(prev) && prev[depth] != line {
					t.Fatalf("replay diverged at depth %d (prefix %v):\n  before: %s\n  now:    %s", depth, d.prefix, prev[depth], line)
				}
			}
			add(runConc(t, u, sm.c, sm.progs, scripted(sm.pre, d.choose)), fmt.Sprintf("conc/exhaustive/prog%d", i))
			prev = cur
			dbgTrail = nil
			n++
			if !d.next() {
				st.Count(fmt.Sprintf("conc/exhaustive/prog%d-complete", i))
				break
			}
		}
	}
	// seeded schedules of random programs: 2-3 goroutines x <= 4 calls over 2-3 keys
	nrand := e.Pick(500, 8000)
	for i := 0; i < nrand; i++ {
		c := concCfg{Viewer: e.Rng.Intn(2) == 0}
		switch e.Rng.Intn(5) {
		case 0, 1:
			c.TQ = 8
		case 2:
			c.Bloom, c.Hashes = 1, []int{1, 3, 7}[e.Rng.Intn(3)]
		default:
			c.TQ, c.Bloom, c.Hashes = 8, 1, []int{1, 3, 7}[e.Rng.Intn(3)]
		}
		nkeys := 2 + e.Rng.Intn(2)
		for k := 0; k < nkeys; k++ {
			if e.Rng.Intn(3) == 0 {
				c.Init = append(c.Init, k)
			}
		}
		if c.Bloom != 0 && e.Rng.Intn(6) == 0 {
			c.BKind, c.BPos = "err", e.Rng.Intn(len(c.Init)+1)
		}
		nthr := 2 + e.Rng.Intn(2)
		progs := make([][]sop, nthr)
		for j := range progs {
			progs[j] = genProg(e, nkeys, 1+e.Rng.Intn(4), c.Bloom != 0)
		}
		add(runConc(t, u, c, progs, randomChooser(e)), "conc/random")
		n++
	}
	stressToctou(t, e, st)
	st.Extra["concurrent"] = fmt.Sprintf("%d executed schedules (2-3 goroutines x <=4 calls over 2-3 keys, 2Q and/or Bloom layer, initial build and Rebuild "+
		"running concurrently, enumeration errors); every datastore call parks before and after its effect; each schedule is replayed on the "+
		"LTS model step by step in Coq and its history is checked for linearizability against the map by exhaustive search in Coq", n+5)
}

// stressToctou looks for finding C02-2 on the real code: a block is stored once
// and never deleted; readers call Has in a loop while Rebuild runs in a loop.
// bloomcache.hasCached reads `active` and then loads the filter pointer; a
// Rebuild that deactivates and swaps in between makes the reader consult the
// fresh, still empty filter and answer "missing".  The window has no datastore
// call in it, so the scheduler above cannot hold a thread there; this part is
// therefore a plain stress run (free-running goroutines) whose only possible
// report is exactly that signature: Has == false for a stored, never deleted
// key with no writer running.  It can only confirm the finding, never excuse
// anything else: all other checks are deterministic.
func stressToctou(t *testing.T, e *vh.Env, st *vh.Stats) {
	ctx := context.Background()
	base := bstore.NewBlockstore(dssync.MutexWrap(ds.NewMapDatastore()))
	cbs, err := bstore.CachedBlockstore(ctx, base, bstore.CacheOpts{HasBloomFilterSize: 64, HasBloomFilterHashes: 7})
	if err != nil {
		t.Fatal(err)
	}
	bcs := cbs.(bstore.BloomCacheStatus)
	if err := bcs.Wait(ctx); err != nil {
		t.Fatal(err)
	}
	blk := blocks.NewBlock([]byte("c02 stress block"))
	if err := cbs.Put(ctx, blk); err != nil {
		t.Fatal(err)
	}
	var stop atomic.Bool
	var missing, calls atomic.Int64
	var wg sync.WaitGroup
	for i := 0; i < 8; i++ {
		wg.Add(1)
		go func() {
			defer wg.Done()
			n := int64(0)
			for !stop.Load() {
				has, err := cbs.Has(ctx, blk.Cid())
				n++
				if err == nil && !has {
					missing.Add(1)
				}
			}
			calls.Add(n)
		}()
	}
	rebuilds := e.Pick(20000, 100000)
	for i := 0; i < rebuilds; i++ {
		if err := bcs.Rebuild(ctx); err != nil {
			t.Fatal(err)
		}
	}
	stop.Store(true)
	wg.Wait()
	st.Count("stress/toctou-runs")
	st.Extra["stress_toctou"] = fmt.Sprintf("%d Rebuilds against 8 goroutines calling Has on a stored, never deleted block (%d calls): %d answered false",
		rebuilds, calls.Load(), missing.Load())
	if missing.Load() > 0 {
		st.Violate("Has answered false for a block whose Put had returned and which was never deleted, while Rebuild was running (no writer running)",
			"C02-2", map[string]any{"kind": "stress-toctou", "rebuilds": rebuilds, "readers": 8, "missing": missing.Load()})
	}
}
