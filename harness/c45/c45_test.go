// Correspondence harness for C45 (autoconf cache crash safety).
//
// For 0..3 earlier successful updates, one further update is executed by the REAL client in a
// child process under strace; the file-system operation log of that update on the cache
// directory (creates, writes with their bytes, renames, unlinks) is reconstructed from the
// syscall trace.  Every crash point of that log — every prefix of the operations and every
// byte-level cut of every write — is materialised in a fresh directory, the real
// Client.GetCached is called on it, and (operation log, observations) are written into
// cases_*.v, where Coq replays the log on the model and judges every observation against the
// reader model and the specification (model/M_C45.v).
package c45

import (
	"bytes"
	"context"
	"encoding/json"
	"fmt"
	"io"
	"net/http"
	"os"
	"os/exec"
	"path/filepath"
	"reflect"
	"regexp"
	"sort"
	"strconv"
	"strings"
	"testing"
	"time"

	"github.com/ipfs/boxo/autoconf"

	"verif/harness/vh"
)

const confURL = "https://conf.example.net/autoconf.json"

func payload(ver int, pad int) []byte {
	rs := []string{fmt.Sprintf("https://r%d.example.net/dns-query", ver)}
	for i := 0; i < pad; i++ {
		rs = append(rs, fmt.Sprintf("https://p%d.example.net/q", i))
	}
	b, err := json.Marshal(map[string]any{
		"AutoConfVersion": 2025010000 + ver,
		"AutoConfSchema":  autoconf.SupportedAutoConfSchema,
		"DNSResolvers":    map[string][]string{"eth.": rs},
	})
	if err != nil {
		panic(err)
	}
	return b
}

type fixedRT struct {
	body []byte
	etag string
}

func (r fixedRT) RoundTrip(req *http.Request) (*http.Response, error) {
	h := http.Header{}
	h.Set("ETag", r.etag)
	h.Set("Last-Modified", "Mon, 02 Jan 2006 15:04:05 GMT")
	h.Set("Content-Type", "application/json")
	return &http.Response{StatusCode: 200, Status: "200 OK", Header: h, Body: io.NopCloser(bytes.NewReader(r.body)),
		ContentLength: int64(len(r.body)), Request: req, Proto: "HTTP/1.1", ProtoMajor: 1, ProtoMinor: 1}, nil
}

var sentinel = &autoconf.Config{AutoConfVersion: -1}

// cacheSize is the number of versions the client keeps (0 = the library default).
var cacheSize = 0

func newClient(dir string, body []byte, etag string) (*autoconf.Client, error) {
	var extra []autoconf.Option
	if cacheSize > 0 {
		extra = append(extra, autoconf.WithCacheSize(cacheSize))
	}
	return autoconf.NewClient(append(extra,
		autoconf.WithCacheDir(dir),
		autoconf.WithURL(confURL),
		autoconf.WithHTTPClient(&http.Client{Transport: fixedRT{body, etag}}),
		autoconf.WithRefreshInterval(time.Nanosecond),
		autoconf.WithFallback(func() *autoconf.Config { return sentinel }),
	)...)
}

// TestC45Helper performs exactly one update; it is run by TestC45 under strace.
func TestC45Helper(t *testing.T) {
	dir := os.Getenv("C45_HELPER_DIR")
	if dir == "" {
		t.Skip("helper only")
	}
	cacheSize, _ = strconv.Atoi(os.Getenv("C45_HELPER_CACHESIZE"))
	body, err := os.ReadFile(os.Getenv("C45_HELPER_PAYLOAD"))
	if err != nil {
		t.Fatal(err)
	}
	if pp := os.Getenv("C45_HELPER_PREV_PAYLOAD"); pp != "" {
		// the previous successful update happens in this process, right before the traced one and early
		// in a wall-clock second, so that both updates (almost always) target the same autoconf-<unix>.json
		prev, err := os.ReadFile(pp)
		if err != nil {
			t.Fatal(err)
		}
		if ns := time.Now().Nanosecond(); ns > 300_000_000 {
			time.Sleep(time.Duration(1_000_000_000-ns) + 5*time.Millisecond)
		}
		pc, err := newClient(dir, prev, os.Getenv("C45_HELPER_PREV_ETAG"))
		if err != nil {
			t.Fatal(err)
		}
		if _, err := pc.GetLatest(context.Background()); err != nil {
			t.Fatal(err)
		}
		subs, _ := os.ReadDir(dir)
		if len(subs) != 1 {
			t.Fatalf("expected one cache subdirectory, got %d", len(subs))
		}
		if err := os.WriteFile(filepath.Join(dir, subs[0].Name(), markerName), []byte("x"), 0o600); err != nil {
			t.Fatal(err)
		}
	}
	c, err := newClient(dir, body, os.Getenv("C45_HELPER_ETAG"))
	if err != nil {
		t.Fatal(err)
	}
	if _, err := c.GetLatest(context.Background()); err != nil {
		t.Fatal(err)
	}
}

// markerName separates, in the traced log, the previous update from the update under test.
const markerName = ".c45-marker"

// ---- strace log -> operation log ----
type op struct {
	kind string // create write rename remove
	name string
	dst  string
	data []byte
}

var (
	reLine    = regexp.MustCompile(`^(\d+)\s+(.*)$`)
	reResumed = regexp.MustCompile(`^<\.\.\. (\w+) resumed>(.*)$`)
	reStr     = regexp.MustCompile(`"((?:\\x[0-9a-f]{2})*)"`)
)

func unhex(s string) []byte {
	out := make([]byte, 0, len(s)/4)
	for i := 0; i+3 < len(s); i += 4 {
		v, _ := strconv.ParseUint(s[i+2:i+4], 16, 8)
		out = append(out, byte(v))
	}
	return out
}

func parseTrace(t *testing.T, log string, root string) []op {
	pending := map[string]string{}
	fds := map[string]string{}
	var ops []op
	for _, raw := range strings.Split(log, "\n") {
		m := reLine.FindStringSubmatch(raw)
		if m == nil {
			continue
		}
		pid, rest := m[1], m[2]
		if strings.HasSuffix(rest, "<unfinished ...>") {
			pending[pid] = strings.TrimSuffix(rest, "<unfinished ...>")
			continue
		}
		if r := reResumed.FindStringSubmatch(rest); r != nil {
			rest = pending[pid] + r[2]
			delete(pending, pid)
		}
		par := strings.Index(rest, "(")
		eq := strings.LastIndex(rest, " = ")
		if par < 0 || eq < 0 {
			continue
		}
		call, args, ret := rest[:par], rest[par+1:eq], strings.Fields(rest[eq+3:])[0]
		strs := reStr.FindAllStringSubmatch(args, -1)
		inRoot := func(p string) (string, bool) {
			if strings.HasPrefix(p, root+"/") {
				return strings.TrimPrefix(p, root+"/"), true
			}
			return "", false
		}
		switch call {
		case "openat", "open":
			if len(strs) == 0 || strings.HasPrefix(ret, "-") {
				continue
			}
			name, ok := inRoot(string(unhex(strs[0][1])))
			if !ok {
				continue
			}
			if strings.Contains(args, "O_WRONLY") || strings.Contains(args, "O_RDWR") {
				fds[ret] = name
				if strings.Contains(args, "O_TRUNC") || strings.Contains(args, "O_CREAT") {
					ops = append(ops, op{kind: "create", name: name})
				}
			}
		case "write", "pwrite64":
			fd := strings.TrimSpace(strings.SplitN(args, ",", 2)[0])
			name, ok := fds[fd]
			if !ok || strings.HasPrefix(ret, "-") || len(strs) == 0 {
				continue
			}
			n, _ := strconv.Atoi(ret)
			data := unhex(strs[0][1])
			if n > len(data) {
				t.Fatalf("strace truncated a write: %s", raw[:min(len(raw), 120)])
			}
			ops = append(ops, op{kind: "write", name: name, data: data[:n]})
		case "close":
			delete(fds, strings.TrimSpace(args))
		case "rename", "renameat", "renameat2":
			if len(strs) < 2 || strings.HasPrefix(ret, "-") {
				continue
			}
			a, oka := inRoot(string(unhex(strs[0][1])))
			b, okb := inRoot(string(unhex(strs[1][1])))
			if oka && okb {
				ops = append(ops, op{kind: "rename", name: a, dst: b})
			} else if oka || okb {
				t.Fatalf("rename across the cache directory boundary: %s", raw)
			}
		case "unlink", "unlinkat":
			if len(strs) == 0 || strings.HasPrefix(ret, "-") {
				continue
			}
			if name, ok := inRoot(string(unhex(strs[0][1]))); ok {
				ops = append(ops, op{kind: "remove", name: name})
			}
		}
	}
	return ops
}

type fsState map[string][]byte

func (s fsState) clone() fsState {
	c := fsState{}
	for k, v := range s {
		c[k] = append([]byte(nil), v...)
	}
	return c
}
func (s fsState) apply(o op, cut int) {
	switch o.kind {
	case "create":
		s[o.name] = []byte{}
	case "write":
		if cur, ok := s[o.name]; ok {
			d := o.data
			if cut >= 0 {
				d = d[:cut]
			}
			s[o.name] = append(append([]byte(nil), cur...), d...)
		}
	case "rename":
		if cur, ok := s[o.name]; ok {
			delete(s, o.name)
			s[o.dst] = cur
		}
	case "remove":
		delete(s, o.name)
	}
}

// classify runs the real GetCached on a materialised state.
func classify(t *testing.T, st fsState, sub string, payloads map[int][]byte) string {
	dir := t.TempDir()
	if err := os.MkdirAll(filepath.Join(dir, sub), 0o755); err != nil {
		t.Fatal(err)
	}
	for name, data := range st {
		if err := os.WriteFile(filepath.Join(dir, sub, name), data, 0o600); err != nil {
			t.Fatal(err)
		}
	}
	c, err := newClient(dir, nil, "")
	if err != nil {
		t.Fatal(err)
	}
	got := c.GetCached()
	os.RemoveAll(dir)
	if got == sentinel || (got != nil && got.AutoConfVersion == -1) {
		return "RFallback"
	}
	for v, p := range payloads {
		var want autoconf.Config
		if json.Unmarshal(p, &want) == nil && reflect.DeepEqual(&want, got) {
			return fmt.Sprintf("(RVer %d)", v)
		}
	}
	return "RCorrupt"
}

func contentCoq(data []byte, payloads map[int][]byte) string {
	if len(data) == 0 {
		return "(CPre 0 0)"
	}
	vs := make([]int, 0, len(payloads))
	for v := range payloads {
		vs = append(vs, v)
	}
	sort.Ints(vs)
	// complete payloads first (unique), then proper prefixes
	for _, v := range vs {
		if bytes.Equal(payloads[v], data) {
			return fmt.Sprintf("(CPre %d %d)", v, len(data))
		}
	}
	return "CGarbage"
}

func strCoq(s string) string {
	q, ok := vh.Str(s)
	if !ok {
		panic("non-printable file name: " + strconv.Quote(s))
	}
	return q + "%string"
}

func TestC45(t *testing.T) {
	if os.Getenv("C45_HELPER_DIR") != "" {
		t.Skip("helper run")
	}
	e := vh.Load(t)
	if _, err := exec.LookPath("strace"); err != nil {
		t.Fatalf("strace is required to capture the writer's operation log: %v", err)
	}
	st := vh.NewStats("for k = 0..3 earlier successful updates and several payload sizes: one real update traced with strace; " +
		"EVERY crash point of its operation log on the cache directory (every prefix, every byte cut of every write) is materialised " +
		"and the real GetCached called on it; a case = one (history, operation log, <=60 crash observations); " +
		"non-trivial = at least one earlier version exists and the observations include a cut inside the payload write; distinct by (k, payload sizes, observation range)")
	cs := vh.NewCases(e, "From V Require Import model.M_C45.\nOpen Scope N_scope.", "case", "check_case", 40)
	rounds := e.Pick(3, 12)
	totalStates := 0
	for round := 0; round < rounds; round++ {
		// the retained-version count: the default, the minimum (1) and 2, so that pruning happens within the traced update
		cacheSize = []int{0, 1, 2}[round%3]
		for k := 0; k <= 3; k++ {
			payloads := map[int][]byte{}
			for v := 1; v <= k+1; v++ {
				payloads[v] = payload(v, e.Rng.Intn(3))
			}
			dir := t.TempDir()
			var sub string
			// same-second variant: update k is made by the traced process itself, immediately before update k+1
			sameSecond := k >= 1 && (round+k)%2 == 1
			inProc := k
			if sameSecond {
				inProc = k - 1
			}
			for i := 1; i <= inProc; i++ {
				c, err := newClient(dir, payloads[i], fmt.Sprintf("\"v%d\"", i))
				if err != nil {
					t.Fatal(err)
				}
				if _, err := c.GetLatest(context.Background()); err != nil {
					t.Fatalf("earlier update %d: %v", i, err)
				}
				// give the file written by this update an old, distinct timestamp name
				subs, _ := os.ReadDir(dir)
				if len(subs) != 1 {
					t.Fatalf("expected one cache subdirectory, got %d", len(subs))
				}
				sub = subs[0].Name()
				files, _ := filepath.Glob(filepath.Join(dir, sub, "autoconf-*.json"))
				sort.Strings(files)
				newest := files[len(files)-1]
				if err := os.Rename(newest, filepath.Join(dir, sub, fmt.Sprintf("autoconf-%d.json", 1700000000+1000*i))); err != nil {
					t.Fatal(err)
				}
			}
			if inProc == 0 {
				// learn the subdirectory name the client uses, without writing anything
				c, _ := newClient(t.TempDir(), payloads[1], "\"probe\"")
				_, _ = c.GetLatest(context.Background())
			}
			// base snapshot
			base := fsState{}
			if sub != "" {
				ents, _ := os.ReadDir(filepath.Join(dir, sub))
				for _, en := range ents {
					b, err := os.ReadFile(filepath.Join(dir, sub, en.Name()))
					if err != nil {
						t.Fatal(err)
					}
					base[en.Name()] = b
				}
			}
			// the traced update
			vnew := k + 1
			pf := filepath.Join(t.TempDir(), "payload.json")
			os.WriteFile(pf, payloads[vnew], 0o600)
			logf := filepath.Join(t.TempDir(), "strace.log")
			cmd := exec.Command("strace", "-f", "-xx", "-s", "4000000", "-o", logf,
				"-e", "trace=open,openat,write,pwrite64,close,rename,renameat,renameat2,unlink,unlinkat",
				os.Args[0], "-test.run", "^TestC45Helper$", "-test.count=1")
			cmd.Env = append(os.Environ(), "C45_HELPER_DIR="+dir, "C45_HELPER_PAYLOAD="+pf,
				fmt.Sprintf("C45_HELPER_ETAG=\"v%d\"", vnew), fmt.Sprintf("C45_HELPER_CACHESIZE=%d", cacheSize))
			if sameSecond {
				ppf := filepath.Join(t.TempDir(), "prev.json")
				os.WriteFile(ppf, payloads[k], 0o600)
				cmd.Env = append(cmd.Env, "C45_HELPER_PREV_PAYLOAD="+ppf, fmt.Sprintf("C45_HELPER_PREV_ETAG=\"v%d\"", k))
			}
			if out, err := cmd.CombinedOutput(); err != nil {
				t.Fatalf("traced update failed: %v\n%s", err, out)
			}
			subs, _ := os.ReadDir(dir)
			if len(subs) != 1 {
				t.Fatalf("expected one cache subdirectory after the update, got %d", len(subs))
			}
			sub = subs[0].Name()
			logb, _ := os.ReadFile(logf)
			ops := parseTrace(t, string(logb), filepath.Join(dir, sub))
			if len(ops) == 0 {
				t.Fatalf("no file-system operation on the cache directory was traced")
			}
			// sanity: replaying the whole log on the base state reproduces the directory on disk
			fin := base.clone()
			for _, o := range ops {
				fin.apply(o, -1)
			}
			ents, _ := os.ReadDir(filepath.Join(dir, sub))
			if len(ents) != len(fin) {
				t.Fatalf("trace replay disagrees with the directory on disk: %d vs %d entries", len(fin), len(ents))
			}
			for _, en := range ents {
				b, _ := os.ReadFile(filepath.Join(dir, sub, en.Name()))
				if !bytes.Equal(b, fin[en.Name()]) {
					t.Fatalf("trace replay disagrees with the directory on disk for %s", en.Name())
				}
			}

			sameName := false
			if sameSecond {
				// split the log at the marker: what precedes it is update k and becomes part of the base state
				mi, mj := -1, -1
				for i, o := range ops {
					if o.name == markerName {
						if mi < 0 {
							mi = i
						}
						mj = i
					}
				}
				if mi < 0 {
					t.Fatalf("the marker between the two updates was not traced")
				}
				for _, o := range ops[:mi] {
					base.apply(o, -1)
				}
				ops = ops[mj+1:]
				newestBefore := ""
				for n := range base {
					if strings.HasSuffix(n, ".json") && strings.Contains(n, "autoconf-") && n > newestBefore {
						newestBefore = n
					}
				}
				for _, o := range ops {
					if o.kind == "rename" && o.dst == newestBefore {
						sameName = true
					}
				}
			}
			before := classify(t, base, sub, payloads)
			// Coq rendering of lens, dir0, ops
			var lens []string
			for v := 1; v <= vnew; v++ {
				lens = append(lens, fmt.Sprintf("(%d, %d)", v, len(payloads[v])))
			}
			names := make([]string, 0, len(base))
			for n := range base {
				names = append(names, n)
			}
			sort.Strings(names)
			var d0 []string
			for _, n := range names {
				d0 = append(d0, "("+strCoq(n)+", "+contentCoq(base[n], payloads)+")")
			}
			var opsCoq, opsDesc []string
			offs := map[string]int{} // bytes of payload vnew written so far per file
			for _, o := range ops {
				switch o.kind {
				case "create":
					opsCoq = append(opsCoq, vh.App("FCreate", strCoq(o.name)))
					offs[o.name] = 0
					opsDesc = append(opsDesc, "create "+o.name)
				case "write":
					ver := 0
					off := offs[o.name]
					if off >= 0 && off+len(o.data) <= len(payloads[vnew]) && bytes.Equal(payloads[vnew][off:off+len(o.data)], o.data) {
						ver = vnew
						offs[o.name] = off + len(o.data)
					} else {
						offs[o.name] = -1 << 30
					}
					opsCoq = append(opsCoq, vh.App("FWrite", strCoq(o.name), strconv.Itoa(ver), strconv.Itoa(len(o.data))))
					opsDesc = append(opsDesc, fmt.Sprintf("write %s %dB(ver %d)", o.name, len(o.data), ver))
				case "rename":
					opsCoq = append(opsCoq, vh.App("FRename", strCoq(o.name), strCoq(o.dst)))
					offs[o.dst] = offs[o.name]
					opsDesc = append(opsDesc, "rename "+o.name+" -> "+o.dst)
				case "remove":
					opsCoq = append(opsCoq, vh.App("FRemove", strCoq(o.name)))
					opsDesc = append(opsDesc, "remove "+o.name)
				}
			}
			// every crash point
			type ob struct {
				k, cut int
				res    string
			}
			var obsl []ob
			cur := base.clone()
			payloadCut := false
			for i := 0; i <= len(ops); i++ {
				obsl = append(obsl, ob{i, 0, classify(t, cur, sub, payloads)})
				if i == len(ops) {
					break
				}
				if ops[i].kind == "write" {
					for cut := 1; cut < len(ops[i].data); cut++ {
						s := cur.clone()
						s.apply(ops[i], cut)
						obsl = append(obsl, ob{i, cut, classify(t, s, sub, payloads)})
						if len(ops[i].data) > 64 {
							payloadCut = true
						}
					}
				}
				cur.apply(ops[i], -1)
			}
			totalStates += len(obsl)
			// emit in groups
			const group = 60
			for g := 0; g < len(obsl); g += group {
				hi := min(g+group, len(obsl))
				var oc []string
				for _, o := range obsl[g:hi] {
					oc = append(oc, fmt.Sprintf("(%d%%nat, %d, %s)", o.k, o.cut, o.res))
				}
				term := fmt.Sprintf("{| c_lens := %s; c_dir0 := %s; c_before := %s; c_vnew := %d; c_ops := %s; c_obs := %s |}",
					vh.List(lens), vh.List(d0), before, vnew, vh.List(opsCoq), vh.List(oc))
				rp := map[string]any{"previous_update_in_same_second": sameName, "cache_size(0=default)": cacheSize, "earlier_updates": k, "payload_lengths": lens, "dir_before": names, "read_before": before,
					"ops": opsDesc, "observations": fmt.Sprintf("crash points %d..%d of %d: (complete ops, byte cut, GetCached result) = %v",
						g, hi-1, len(obsl), oc)}
				cs.Add(term, rp)
				st.Case(fmt.Sprintf("cs=%d|k=%d|%v|%d", cacheSize, k, lens, g), k >= 1 && payloadCut)
				st.Count(fmt.Sprintf("cache-size=%d", cacheSize))
				st.Count(fmt.Sprintf("earlier-updates=%d", k))
				st.Count(fmt.Sprintf("new-version-replaces-file-of-same-name=%v", sameName))
				if g == 0 {
					st.Sample(map[string]any{"earlier_updates": k, "ops": opsDesc, "crash_states": len(obsl), "read_before": before}, 4)
				}
			}
			for _, o := range obsl {
				st.Count("result=" + strings.Trim(strings.Fields(o.res)[0], "()"))
			}
		}
	}
	st.Extra["crash_states_materialised"] = totalStates
	cs.Close()
	st.Write(e)
}
