package c36

import (
	"encoding/json"
	"fmt"
	"os"
	"testing"
)

func TestReplayTmp(t *testing.T) {
	var b []byte
	b = append(b, "From V Require Import model.M_C36.\nOpen Scope nat_scope.\n"...)
	for i := 0; i < 3; i++ {
		raw, err := os.ReadFile(fmt.Sprintf("/verif/out/replays/C36-1-%d.json", i))
		if err != nil {
			t.Fatal(err)
		}
		var r struct {
			Replay struct {
				Config config `json:"config"`
				Ops    []op   `json:"ops"`
			} `json:"replay"`
		}
		if err := json.Unmarshal(raw, &r); err != nil {
			t.Fatal(err)
		}
		out := runCase(t, r.Replay.Config, r.Replay.Ops, nil)
		b = append(b, fmt.Sprintf("Definition r%d : case := %s.\n", i, out.term)...)
	}
	os.WriteFile("/tmp/c36replay.v", b, 0o644)
}
