// Correspondence harness for C36 (bitswap/server/internal/decision): a real
// decision engine is driven, one call at a time, with generated want-list
// messages (full / incremental, cancels, re-sent CIDs, identity and oversize
// CIDs, denied CIDs) from 1-3 peers interleaved with block additions, removals
// and queue drains. After every call the peer ledger (both maps), the pending
// task topics and, on a drain, everything put into envelopes are written into
// cases_*.v; Coq replays the model (model/M_C36.v) along the same calls and
// evaluates the specification on what the engine did.
package c36

import (
	"context"
	"encoding/binary"
	"fmt"
	"sort"
	"strings"
	"testing"
	"time"

	bsmsg "github.com/ipfs/boxo/bitswap/message"
	pb "github.com/ipfs/boxo/bitswap/message/pb"
	"github.com/ipfs/boxo/bitswap/server"
	"github.com/ipfs/boxo/blockstore"
	blocks "github.com/ipfs/go-block-format"
	"github.com/ipfs/go-cid"
	ds "github.com/ipfs/go-datastore"
	dssync "github.com/ipfs/go-datastore/sync"
	"github.com/libp2p/go-libp2p/core/peer"
	mh "github.com/multiformats/go-multihash"

	"verif/harness/vh"
)

// ---------- the case language mirrored in M_C36.v ----------

type want struct {
	Cid    int   `json:"cid"`
	Prio   int32 `json:"prio"`
	Block  bool  `json:"block"`
	Cancel bool  `json:"cancel,omitempty"`
	Sdh    bool  `json:"sdh,omitempty"`
}

type op struct {
	Kind string `json:"op"` // msg add rm drain
	Peer int    `json:"peer,omitempty"`
	Full bool   `json:"full,omitempty"`
	Ents []want `json:"ents,omitempty"`
	Cid  int    `json:"cid,omitempty"`
}

type config struct {
	Limit   int      `json:"limit"`
	Replace int      `json:"replace"`
	SendDH  bool     `json:"send_dont_have"`
	MaxCid  bool     `json:"max_cid"`
	Deny    [][2]int `json:"deny,omitempty"`
	Sizes   []int    `json:"sizes"` // size of normal cid i
	Target  int      `json:"target_msg_size"`
	NP      int      `json:"peers"`
	BS0     []int    `json:"initial_blocks,omitempty"`
}

type lentry struct {
	cid   int
	prio  int32
	block bool
}

type pobs struct {
	pl, inv []lentry
	topics  []int
}

type resp struct{ blocks, haves, donthaves []int }

type sobs struct {
	peers []pobs
	drain []resp // nil unless the op was a drain
}

const maxCidSize = 64

// ---------- CIDs ----------

type universe struct {
	sizes []int
	byCid map[cid.Cid]int
	byID  map[int]cid.Cid
	blk   map[int]blocks.Block
}

func newUniverse(sizes []int) *universe {
	u := &universe{sizes: sizes, byCid: map[cid.Cid]int{}, byID: map[int]cid.Cid{}, blk: map[int]blocks.Block{}}
	for i, s := range sizes {
		data := make([]byte, s)
		for j := range data {
			data[j] = 0xAA
		}
		if s > 0 {
			data[0] = byte(i)
		}
		h, err := mh.Sum(data, mh.SHA2_256, -1)
		if err != nil {
			panic(err)
		}
		c := cid.NewCidV1(cid.Raw, h)
		b, err := blocks.NewBlockWithCid(data, c)
		if err != nil {
			panic(err)
		}
		u.add(i, c)
		u.blk[i] = b
	}
	for j := 0; j < 3; j++ { // identity CIDs 100..102
		var hash mh.Multihash
		hash = binary.AppendUvarint(hash, mh.IDENTITY)
		hash = binary.AppendUvarint(hash, 8)
		hash = append(hash, byte(j), 1, 2, 3, 4, 5, 6, 7)
		u.add(100+j, cid.NewCidV1(cid.Raw, hash))
	}
	for j := 0; j < 3; j++ { // CIDs longer than maxCidSize 200..202
		var hash mh.Multihash
		hash = binary.AppendUvarint(hash, mh.BLAKE3)
		hash = binary.AppendUvarint(hash, maxCidSize)
		d := make([]byte, maxCidSize)
		d[0] = byte(j)
		hash = append(hash, d...)
		u.add(200+j, cid.NewCidV1(cid.Raw, hash))
	}
	return u
}

func (u *universe) add(id int, c cid.Cid) {
	if _, dup := u.byCid[c]; dup {
		panic("duplicate cid in universe")
	}
	u.byCid[c] = id
	u.byID[id] = c
}

func (u *universe) ids() []int {
	out := make([]int, 0, len(u.byID))
	for id := range u.byID {
		out = append(out, id)
	}
	sort.Ints(out)
	return out
}

// ---------- a BitSwapMessage whose want-list keeps its order ----------

// ordered wraps a real message (built with AddEntry / Cancel) and returns its
// entries in insertion order instead of Go map order, so that a case replays.
type ordered struct {
	bsmsg.BitSwapMessage
	order []cid.Cid
}

func (m *ordered) Wantlist() []bsmsg.Entry {
	byCid := map[cid.Cid]bsmsg.Entry{}
	for _, e := range m.BitSwapMessage.Wantlist() {
		byCid[e.Cid] = e
	}
	out := make([]bsmsg.Entry, 0, len(m.order))
	for _, c := range m.order {
		out = append(out, byCid[c])
	}
	return out
}

func (m *ordered) FillWantlist(out []bsmsg.Entry) []bsmsg.Entry {
	return append(out[:0], m.Wantlist()...)
}

func buildMsg(u *universe, full bool, ents []want) bsmsg.BitSwapMessage {
	m := bsmsg.New(full)
	o := &ordered{BitSwapMessage: m}
	for _, e := range ents {
		c := u.byID[e.Cid]
		if e.Cancel {
			m.Cancel(c)
		} else {
			t := pb.Message_Wantlist_Have
			if e.Block {
				t = pb.Message_Wantlist_Block
			}
			m.AddEntry(c, e.Prio, t, e.Sdh)
		}
		o.order = append(o.order, c)
	}
	return o
}

// ---------- the engine under test ----------

type nopTagger struct{}

func (nopTagger) TagPeer(peer.ID, string, int) {}
func (nopTagger) UntagPeer(peer.ID, string)    {}

type rig struct {
	u     *universe
	cfg   config
	e     *server.VerifEngine
	bs    blockstore.Blockstore
	peers []peer.ID
	stop  context.CancelFunc
}

func newRig(cfg config) *rig {
	u := newUniverse(cfg.Sizes)
	bs := blockstore.NewBlockstore(dssync.MutexWrap(ds.NewMapDatastore()))
	for _, id := range cfg.BS0 {
		if err := bs.Put(context.Background(), u.blk[id]); err != nil {
			panic(err)
		}
	}
	r := &rig{u: u, cfg: cfg, bs: bs}
	for i := 0; i < cfg.NP; i++ {
		r.peers = append(r.peers, peer.ID(fmt.Sprintf("peer-%d", i)))
	}
	deny := map[[2]int]bool{}
	for _, d := range cfg.Deny {
		deny[d] = true
	}
	pidx := map[peer.ID]int{}
	for i, p := range r.peers {
		pidx[p] = i
	}
	ec := server.VerifEngineConfig{
		MaxQueuedWantlistEntriesPerPeer: uint(cfg.Limit),
		WantHaveReplaceSize:             cfg.Replace,
		TargetMessageSize:               cfg.Target,
		SendDontHaves:                   cfg.SendDH,
	}
	if cfg.MaxCid {
		ec.MaxCidSize = maxCidSize
	}
	if len(deny) != 0 {
		ec.Filter = func(p peer.ID, c cid.Cid) bool { return !deny[[2]int{pidx[p], u.byCid[c]}] }
	}
	ctx, cancel := context.WithCancel(context.Background())
	r.stop = cancel
	r.e = server.VerifNewEngine(ctx, bs, nopTagger{}, peer.ID("self"), ec)
	return r
}

func (r *rig) close() {
	r.stop()
	r.e.Close()
}

func (r *rig) snapshot() []pobs {
	out := make([]pobs, len(r.peers))
	for i, p := range r.peers {
		for _, e := range r.e.WantlistForPeer(p) {
			out[i].pl = append(out[i].pl, lentry{r.u.byCid[e.Cid], e.Priority, e.WantType == pb.Message_Wantlist_Block})
		}
		for _, c := range r.e.VerifPendingTopics(p) {
			out[i].topics = append(out[i].topics, r.u.byCid[c])
		}
		sort.Ints(out[i].topics)
	}
	pidx := map[peer.ID]int{}
	for i, p := range r.peers {
		pidx[p] = i
	}
	for _, id := range r.u.ids() {
		for _, pe := range r.e.VerifLedgerPeers(r.u.byID[id]) {
			i, ok := pidx[pe.Peer]
			if !ok {
				panic("ledger holds an unknown peer")
			}
			out[i].inv = append(out[i].inv, lentry{id, pe.Priority, pe.WantType == pb.Message_Wantlist_Block})
		}
	}
	for i := range out {
		sort.Slice(out[i].pl, func(a, b int) bool { return out[i].pl[a].cid < out[i].pl[b].cid })
		sort.Slice(out[i].inv, func(a, b int) bool { return out[i].inv[a].cid < out[i].inv[b].cid })
	}
	return out
}

// drain builds envelopes until the request queue is empty. The queue decides
// which peer is served next and how the tasks are cut into envelopes; what is
// recorded is, per peer, everything that was put into its envelopes.
func (r *rig) drain(t *testing.T) []resp {
	out := make([]resp, len(r.peers))
	pidx := map[peer.ID]int{}
	for i, p := range r.peers {
		pidx[p] = i
	}
	idle := func() bool {
		p, a := r.e.VerifQueueStats()
		return p == 0 && a == 0
	}
	for guard := 0; !idle(); guard++ {
		if guard > 10000 {
			t.Fatalf("request queue does not drain")
		}
		ctx, cancel := context.WithCancel(context.Background())
		ch := make(chan *server.VerifEnvelope, 1)
		go func() {
			env, err := r.e.VerifNextEnvelope(ctx)
			if err != nil {
				env = nil
			}
			ch <- env
		}()
		var env *server.VerifEnvelope
		deadline := time.Now().Add(60 * time.Second)
	wait:
		for {
			select {
			case env = <-ch:
				break wait
			case <-time.After(100 * time.Microsecond):
				// nothing pending and nothing popped: every task was dropped silently
				// (block gone, no DONT_HAVE requested) and nextEnvelope is waiting for work
				if idle() {
					cancel()
					env = <-ch
					break wait
				}
				if time.Now().After(deadline) {
					t.Fatalf("nextEnvelope neither returns nor empties the queue")
				}
			}
		}
		cancel()
		if env == nil {
			continue
		}
		i, ok := pidx[env.Peer]
		if !ok {
			t.Fatalf("envelope for unknown peer %q", env.Peer)
		}
		for _, b := range env.Message.Blocks() {
			id, ok := r.u.byCid[b.Cid()]
			if !ok || string(b.RawData()) != string(r.u.blk[id].RawData()) {
				t.Fatalf("envelope carries a block that is not in the universe")
			}
			out[i].blocks = append(out[i].blocks, id)
		}
		for _, c := range env.Message.Haves() {
			out[i].haves = append(out[i].haves, r.u.byCid[c])
		}
		for _, c := range env.Message.DontHaves() {
			out[i].donthaves = append(out[i].donthaves, r.u.byCid[c])
		}
		r.e.MessageSent(env.Peer, env.Message)
		env.Sent()
	}
	for i := range out {
		sort.Ints(out[i].blocks)
		sort.Ints(out[i].haves)
		sort.Ints(out[i].donthaves)
	}
	return out
}

func (r *rig) apply(t *testing.T, o op) sobs {
	ctx := context.Background()
	var so sobs
	switch o.Kind {
	case "msg":
		if r.e.MessageReceived(ctx, r.peers[o.Peer], buildMsg(r.u, o.Full, o.Ents)) {
			t.Fatalf("MessageReceived asked to close the connection")
		}
	case "add":
		b := r.u.blk[o.Cid]
		if err := r.bs.Put(ctx, b); err != nil {
			t.Fatal(err)
		}
		r.e.NotifyNewBlocks([]blocks.Block{b})
	case "rm":
		if err := r.bs.DeleteBlock(ctx, r.u.byID[o.Cid]); err != nil {
			t.Fatal(err)
		}
	case "drain":
		so.drain = r.drain(t)
	}
	so.peers = r.snapshot()
	return so
}

// ---------- Coq rendering (all numerals are nat; the constructors W, LE, CFG, K of M_C36.v convert) ----------

func nats(xs []int) string {
	return vh.ListOf(xs, func(x int) string { return fmt.Sprint(x) })
}
func (w want) coq() string {
	return fmt.Sprintf("(W %d %d %s %s %s)", w.Cid, w.Prio, vh.Bool(w.Block), vh.Bool(w.Cancel), vh.Bool(w.Sdh))
}
func (o op) coq() string {
	switch o.Kind {
	case "msg":
		return fmt.Sprintf("(OMsg %d %s %s)", o.Peer, vh.Bool(o.Full), vh.ListOf(o.Ents, want.coq))
	case "add":
		return fmt.Sprintf("(OAdd %d)", o.Cid)
	case "rm":
		return fmt.Sprintf("(ORemove %d)", o.Cid)
	}
	return "ODrain"
}
func lentsCoq(l []lentry) string {
	return vh.ListOf(l, func(e lentry) string {
		return fmt.Sprintf("(LE %d %d %s)", e.cid, e.prio, vh.Bool(e.block))
	})
}
func (p pobs) coq() string {
	a, b := lentsCoq(p.pl), lentsCoq(p.inv)
	if a == b {
		return fmt.Sprintf("(PEq %s %s)", a, nats(p.topics))
	}
	return fmt.Sprintf("(PFull %s %s %s)", a, b, nats(p.topics))
}

// obsCoq renders the observations; a peer whose observation equals the one of
// the previous step is written PSame.
func obsCoq(obs []sobs) string {
	var prev []string
	steps := make([]string, len(obs))
	for i, s := range obs {
		cur := make([]string, len(s.peers))
		out := make([]string, len(s.peers))
		for j, p := range s.peers {
			cur[j] = p.coq()
			out[j] = cur[j]
			if prev != nil && prev[j] == cur[j] {
				out[j] = "PSame"
			}
		}
		prev = cur
		dr := vh.ListOf(s.drain, func(r resp) string {
			return fmt.Sprintf("(%s, %s, %s)", nats(r.blocks), nats(r.haves), nats(r.donthaves))
		})
		steps[i] = fmt.Sprintf("(%s, %s)", vh.List(out), dr)
	}
	return vh.List(steps)
}
func (c config) coq() string {
	deny := vh.ListOf(c.Deny, func(d [2]int) string { return fmt.Sprintf("(%d, %d)", d[0], d[1]) })
	var sizes []string
	for i, s := range c.Sizes {
		if s != 1 {
			sizes = append(sizes, fmt.Sprintf("(%d, %d)", i, s))
		}
	}
	return fmt.Sprintf("(CFG %d %d %s %s %s %s)", c.Limit, c.Replace, vh.Bool(c.SendDH), vh.Bool(c.MaxCid), deny, vh.List(sizes))
}

// The wide printing width keeps coqc from breaking the printed result list inside a
// pair ("( 8%N, 106%N)"), which the driver's pattern for failing cases does not match.
const preamble = "From V Require Import model.M_C36.\nOpen Scope nat_scope.\nSet Printing Width 1000000."

// knownIdx: the numbers of the findings currently listed as known (VERIF_KNOWN), set by TestC36. Coq
// prefers an explanation of a deviation by these over one by a repaired defect.
var knownIdx []int

// ---------- running one case ----------

type outcome struct {
	term   string
	replay map[string]any
	obs    []sobs
}

func runCase(t *testing.T, cfg config, ops []op, gen func(r *rig, step int) (op, bool)) outcome {
	r := newRig(cfg)
	defer r.close()
	var obs []sobs
	if gen != nil {
		for step := 0; ; step++ {
			o, ok := gen(r, step)
			if !ok {
				break
			}
			ops = append(ops, o)
			obs = append(obs, r.apply(t, o))
		}
	} else {
		for _, o := range ops {
			obs = append(obs, r.apply(t, o))
		}
	}
	term := fmt.Sprintf("(K %s %s %d %s %s %s)", nats(knownIdx), cfg.coq(), cfg.NP, nats(cfg.BS0),
		vh.ListOf(ops, op.coq), obsCoq(obs))
	return outcome{term: term, replay: map[string]any{"config": cfg, "ops": ops}, obs: obs}
}

// ---------- generator ----------

type gen struct {
	e                              *vh.Env
	cfg                            config
	nops                           int
	present                        map[int]bool
	view                           []map[int]bool // cids each peer has asked for and not cancelled (approximation used only to aim cancels)
	sawOverflow, sawFull, sawEvict bool
	scen                           *scenario
	tiedEnd                        bool
}

func pick[T any](e *vh.Env, xs []T) T { return xs[e.Rng.Intn(len(xs))] }

func genConfig(e *vh.Env, big bool) config {
	r := e.Rng
	var c config
	c.Limit = pick(e, []int{1, 2, 2, 3, 3, 3, 4, 4, 4, 5, 5, 6, 8})
	if big {
		c.Limit = pick(e, []int{12, 16, 24, 31, 32})
	}
	c.Replace = pick(e, []int{0, 4, 4, 4, 1024})
	c.SendDH = r.Intn(7) != 0
	c.MaxCid = r.Intn(5) != 0
	c.NP = 1 + r.Intn(3)
	if big {
		c.NP = 1 + r.Intn(2)
	}
	k := c.Limit + 2 + r.Intn(5)
	c.Sizes = make([]int, k)
	for i := range c.Sizes {
		c.Sizes[i] = 1 + r.Intn(8) // around the replace threshold 4
	}
	if r.Intn(8) == 0 {
		c.Sizes[r.Intn(k)] = 0 // one zero-length block
	}
	for p := 0; p < c.NP; p++ {
		for i := 0; i < k; i++ {
			if r.Intn(12) == 0 {
				c.Deny = append(c.Deny, [2]int{p, i})
			}
		}
	}
	for i := 0; i < k; i++ {
		if r.Intn(2) == 0 {
			c.BS0 = append(c.BS0, i)
		}
	}
	c.Target = pick(e, []int{1, 12, 16384, 16384})
	return c
}

func newGen(e *vh.Env, cfg config) *gen {
	g := &gen{e: e, cfg: cfg, present: map[int]bool{}}
	g.nops = 4 + e.Rng.Intn(18)
	if cfg.Limit > 8 {
		g.nops = 4 + e.Rng.Intn(8)
	}
	for _, b := range cfg.BS0 {
		g.present[b] = true
	}
	for i := 0; i < cfg.NP; i++ {
		g.view = append(g.view, map[int]bool{})
	}
	return g
}

// next picks the next call, looking at the engine's current ledger so that the
// priorities in a ledger stay distinct (ties make the engine's choice depend on
// Go map order) and cancels mostly hit something.
// genScenarioConfig / scenario steps: a ledger filled to the limit in which a run of 2-4 wants adjacent in
// priority order has no local block, followed by one message with more newcomers than there are such
// wants (priorities above, between and below the existing ones). This is the shape in which handleOverflow's
// two phases interact (indices of cancelled wants, replacement order, rejection).
func genScenarioConfig(e *vh.Env) (config, *scenario) {
	r := e.Rng
	var c config
	c.Limit = 3 + r.Intn(6)
	sc := &scenario{}
	sc.k = 2 + r.Intn(3)
	if sc.k >= c.Limit {
		sc.k = c.Limit - 1
	}
	sc.start = 0
	if r.Intn(5) < 2 {
		sc.start = r.Intn(c.Limit - sc.k + 1)
	}
	sc.extra = 1 + r.Intn(3)
	c.Replace = pick(e, []int{0, 4, 1024})
	c.SendDH = r.Intn(7) != 0
	c.MaxCid = true
	c.NP = 1 + r.Intn(2)
	k := c.Limit + sc.k + sc.extra + 1
	c.Sizes = make([]int, k)
	for i := range c.Sizes {
		c.Sizes[i] = 1 + r.Intn(8)
	}
	// cids 0..limit-1 fill the ledger; the ones at sorted positions start..start+k-1 have no block
	for i := 0; i < k; i++ {
		absent := i >= sc.start && i < sc.start+sc.k
		if i >= c.Limit {
			absent = r.Intn(6) == 0
		}
		if !absent {
			c.BS0 = append(c.BS0, i)
		}
	}
	c.Target = pick(e, []int{1, 16384})
	return c, sc
}

type scenario struct {
	k, start, extra int
	phase           int
}

func (g *gen) scenarioStep(r *rig) (op, bool) {
	rng := g.e.Rng
	sc := g.scen
	lim := g.cfg.Limit
	switch sc.phase {
	case 0: // fill the ledger: cid i gets the (i+1)-th lowest priority; entries in random order
		sc.phase = 1
		o := op{Kind: "msg", Peer: 0}
		for _, i := range rng.Perm(lim) {
			o.Ents = append(o.Ents, want{Cid: i, Prio: int32(10 * (i + 1)), Block: rng.Intn(4) != 0, Sdh: rng.Intn(2) == 0})
		}
		return o, true
	case 1:
		sc.phase = 2
		if rng.Intn(3) == 0 {
			return op{Kind: "drain"}, true
		}
		fallthrough
	case 2: // the overflowing message
		sc.phase = 3
		o := op{Kind: "msg", Peer: 0}
		used := map[int32]bool{}
		n := sc.k + sc.extra
		for j := 0; j < n; j++ {
			var p int32
			for {
				p = int32(10*rng.Intn(lim+2) + 1 + rng.Intn(9)) // never a multiple of 10: no ties with the ledger
				if !used[p] {
					break
				}
			}
			used[p] = true
			o.Ents = append(o.Ents, want{Cid: lim + j, Prio: p, Block: rng.Intn(4) != 0, Sdh: rng.Intn(2) == 0})
		}
		return o, true
	}
	return op{}, false
}

// tiedLedger: some peer's ledger holds two wants of equal priority. From then on which want the engine
// evicts depends on Go map order, so a generated history ends there.
func tiedLedger(r *rig) bool {
	for _, p := range r.peers {
		seen := map[int32]bool{}
		for _, e := range r.e.WantlistForPeer(p) {
			if seen[e.Priority] {
				return true
			}
			seen[e.Priority] = true
		}
	}
	return false
}

func (g *gen) next(r *rig, step int) (op, bool) {
	rng := g.e.Rng
	if tiedLedger(r) {
		g.tiedEnd = true
		return op{}, false
	}
	if g.scen != nil && g.scen.phase < 3 {
		if o, ok := g.scenarioStep(r); ok {
			return o, true
		}
	}
	if step > g.nops {
		return op{}, false
	}
	if step == g.nops {
		return op{Kind: "drain"}, true
	}
	k := len(g.cfg.Sizes)
	switch x := rng.Intn(100); {
	case x < 58:
		return g.msg(r), true
	case x < 72:
		c := rng.Intn(k)
		g.present[c] = true
		return op{Kind: "add", Cid: c}, true
	case x < 82:
		c := rng.Intn(k)
		delete(g.present, c)
		return op{Kind: "rm", Cid: c}, true
	}
	return op{Kind: "drain"}, true
}

func (g *gen) msg(r *rig) op {
	rng := g.e.Rng
	k := len(g.cfg.Sizes)
	lim := g.cfg.Limit
	p := rng.Intn(g.cfg.NP)
	o := op{Kind: "msg", Peer: p, Full: rng.Intn(8) == 0}
	ledger := r.e.WantlistForPeer(r.peers[p])
	used := map[int32]bool{}
	inLedger := map[int]bool{}
	var minPrio int32
	allHaveBlocks := true
	for i, e := range ledger {
		used[e.Priority] = true
		id := r.u.byCid[e.Cid]
		inLedger[id] = true
		if i == 0 || e.Priority < minPrio {
			minPrio = e.Priority
		}
		if !g.present[id] || (id < k && g.cfg.Sizes[id] == 0) {
			allHaveBlocks = false
		}
	}
	var n int
	switch x := rng.Intn(10); {
	case x == 0:
		n = 0
	case x < 6:
		n = 1 + rng.Intn(3)
	case x < 9:
		n = 1 + rng.Intn(lim+2)
	default:
		n = lim + 1 + rng.Intn(3)
	}
	if n > k+4 {
		n = k + 4
	}
	chosen := map[int]bool{}
	tied := false
	span := int32(2*lim + 14)
	for len(o.Ents) < n {
		var c int
		switch x := rng.Intn(20); {
		case x == 0:
			c = 100 + rng.Intn(3)
		case x == 1:
			c = 200 + rng.Intn(3)
		default:
			c = rng.Intn(k)
		}
		w := want{Block: rng.Intn(5) < 3, Sdh: rng.Intn(5) < 3}
		if rng.Intn(5) == 0 {
			w.Cancel = true
			// aim the cancel: something in the ledger, or something asked for earlier
			var cand []int
			for id := range inLedger {
				cand = append(cand, id)
			}
			if rng.Intn(3) == 0 {
				for id := range g.view[p] {
					cand = append(cand, id)
				}
			}
			sort.Ints(cand)
			if len(cand) != 0 && rng.Intn(5) != 0 {
				c = pick(g.e, cand)
			}
		}
		if chosen[c] {
			if len(chosen) >= k+6 {
				break
			}
			continue
		}
		chosen[c] = true
		w.Cid = c
		if w.Cancel {
			w.Block, w.Sdh, w.Prio = true, false, 0 // what Cancel() builds
		} else {
			for {
				w.Prio = 1 + rng.Int31n(span)
				if !used[w.Prio] {
					break
				}
			}
			used[w.Prio] = true
		}
		o.Ents = append(o.Ents, w)
	}
	// boundary: one newcomer exactly as important as the least important existing want (it must replace
	// it). Only when the ledger is full of wants with blocks and the message updates no existing want:
	// then the tie is resolved inside this message and no two ledger entries end up with equal
	// priorities (which would make the engine's next eviction depend on Go map order).
	if !tied && !o.Full && len(ledger) == lim && allHaveBlocks && rng.Intn(3) == 0 {
		updates, newcomer := false, -1
		for i, w := range o.Ents {
			if !w.Cancel && inLedger[w.Cid] {
				updates = true
			}
			if !w.Cancel && !inLedger[w.Cid] && w.Cid < 100 && newcomer < 0 {
				newcomer = i
			}
		}
		if !updates && newcomer >= 0 {
			o.Ents[newcomer].Prio = minPrio
			tied = true
		}
	}
	if o.Full && len(o.Ents) != 0 {
		g.view[p] = map[int]bool{}
		g.sawFull = true
	}
	for _, w := range o.Ents {
		if w.Cancel {
			delete(g.view[p], w.Cid)
		} else {
			g.view[p][w.Cid] = true
		}
	}
	return o
}

// ---------- corpus: boundary histories and the witnesses of the findings ----------

func W(c int, prio int32, block, sdh bool) want {
	return want{Cid: c, Prio: prio, Block: block, Sdh: sdh}
}
func X(c int) want             { return want{Cid: c, Block: true, Cancel: true} }
func M(p int, ents ...want) op { return op{Kind: "msg", Peer: p, Ents: ents} }
func F(p int, ents ...want) op { return op{Kind: "msg", Peer: p, Full: true, Ents: ents} }
func A(c int) op               { return op{Kind: "add", Cid: c} }
func R(c int) op               { return op{Kind: "rm", Cid: c} }

var D = op{Kind: "drain"}

type corpusCase struct {
	name string
	cfg  config
	ops  []op
}

func ones(n int) []int {
	s := make([]int, n)
	for i := range s {
		s[i] = 1
	}
	return s
}

func corpus() []corpusCase {
	base := func(limit int, bs0 ...int) config {
		return config{Limit: limit, Replace: 1024, SendDH: true, MaxCid: true, Sizes: ones(8), Target: 16384, NP: 1, BS0: bs0}
	}
	return []corpusCase{
		// C36-1: existing wants 0,1 (prio 1, 5; blocks present); newcomer prio 3 must replace the prio-1 want
		{"overflow-replaces-lowest", base(2, 0, 1, 2), []op{M(0, W(0, 1, true, true), W(1, 5, true, true)), M(0, W(2, 3, true, true)), D}},
		// C36-1: newcomer prio 9 must evict the prio-1 want, not the prio-5 one
		{"overflow-evicts-lowest", base(2, 0, 1, 2), []op{M(0, W(0, 1, true, true), W(1, 5, true, true)), M(0, W(2, 9, true, true)), D}},
		// newcomer of too low priority is rejected; tie with the lowest replaces it
		{"overflow-rejects-low", base(2, 0, 1, 2, 3), []op{M(0, W(0, 4, true, true), W(1, 5, true, true)), M(0, W(2, 3, true, true)), M(0, W(3, 4, true, true)), D}},
		// wants without blocks go first, lowest priority first
		{"overflow-blockless-first", base(3, 0, 4), []op{M(0, W(0, 1, true, true), W(1, 7, true, false), W(2, 6, true, false)), M(0, W(4, 2, true, true)), D, M(0, W(5, 3, false, true)), D}},
		// C36-2: a full want-list replaces the ledger
		{"full-replaces", base(3, 0, 1, 2, 3), []op{M(0, W(0, 1, false, true), W(1, 2, true, true)), F(0, W(2, 3, true, true)), M(0, W(3, 4, true, true), W(4, 5, true, true)), D}},
		// C36-3: tasks queued for the old list are not sent after a full want-list
		{"full-drops-tasks", base(3, 0, 1), []op{M(0, W(0, 1, true, true)), F(0, W(1, 2, true, true)), D}},
		// C36-4: re-sent wants must not crowd out the task of a new want
		{"resend-keeps-new-task", base(4, 0, 1, 2, 3), []op{M(0, W(0, 4, true, true), W(1, 3, true, true), W(2, 2, true, true)), M(0, W(0, 4, true, true), W(1, 3, true, true), W(2, 2, true, true), W(3, 1, true, true)), D}},
		// C36-5: a zero-length block is present
		{"zero-length-block", config{Limit: 3, Replace: 1024, SendDH: true, MaxCid: true, Sizes: []int{0, 1, 1}, Target: 16384, NP: 1, BS0: []int{0, 1}},
			[]op{M(0, W(0, 2, true, true), W(1, 1, true, true)), D}},
		// C36-6: a cancel takes back a denied want's DONT_HAVE
		{"cancel-denied", func() config { c := base(3, 0); c.Deny = [][2]int{{0, 0}}; return c }(), []op{M(0, W(0, 1, true, true)), M(0, X(0)), D}},
		// C36-6: a want evicted by a newcomer of the same message, then cancelled
		{"cancel-evicted-newcomer", base(2, 0, 1, 2), []op{M(0, W(0, 5, true, true)), M(0, W(1, 1, true, true), W(2, 9, true, true)), M(0, X(1)), D}},
		// handleOverflow's second phase must skip EVERY want that the first phase cancelled: a(1) b(2) have no
		// block, c(3) d(4) have; newcomers x(10) y(9) z(8): a, b and then c go, the want-list ends as {d,x,y,z}
		{"overflow-skips-all-cancelled", base(4, 2, 3, 4, 5, 6), []op{M(0, W(0, 1, true, true), W(1, 2, true, true), W(2, 3, true, true), W(3, 4, true, true)),
			M(0, W(4, 10, true, true), W(5, 9, true, true), W(6, 8, true, true)), D}},
		// the same with the wants without blocks in the middle of the priority order and a newcomer that is rejected
		{"overflow-skips-cancelled-middle", base(5, 0, 3, 4, 5, 6, 7), []op{M(0, W(0, 10, true, true), W(1, 20, true, false), W(2, 30, false, true), W(3, 40, true, true), W(4, 50, true, true)),
			M(0, W(5, 45, true, true), W(6, 35, false, true), W(7, 15, true, true), W(8, 5, true, true)), D}},
		// identity / oversize CIDs are ignored, also as cancels; limit 1
		{"ignored-cids", base(1, 0), []op{M(0, W(100, 3, true, true), W(200, 2, true, true), W(0, 1, false, true)), M(0, X(100), X(200)), D}},
		// want-have upgrade to want-block while queued; block removed before the envelope
		{"upgrade-and-remove", config{Limit: 4, Replace: 4, SendDH: true, MaxCid: true, Sizes: []int{8, 3, 5, 4}, Target: 1, NP: 2, BS0: []int{0, 1, 2, 3}},
			[]op{M(0, W(0, 1, false, true), W(1, 2, false, false), W(2, 3, false, false)), M(1, W(0, 1, false, false)), M(0, W(0, 4, true, false)), R(2), D, A(2), D}},
		// block arrives after the want: NotifyNewBlocks
		{"notify", base(3), []op{M(0, W(0, 1, true, true), W(1, 2, false, false)), D, A(0), A(1), D}},
		// more wants than the limit in one message; empty full message
		{"truncated-message", base(2, 0, 1, 2, 3), []op{M(0, W(0, 1, true, true), W(1, 2, true, true), W(2, 3, true, true), W(3, 4, true, true)), F(0), D}},
	}
}

// ---------- entry point ----------

func nontrivial(obs []sobs, ops []op) bool {
	// a case is non-trivial when at least two messages were received and at least
	// one envelope with content was produced
	msgs, sent := 0, false
	for i, o := range ops {
		if o.Kind == "msg" && len(o.Ents) > 0 {
			msgs++
		}
		for _, r := range obs[i].drain {
			if len(r.blocks)+len(r.haves)+len(r.donthaves) > 0 {
				sent = true
			}
		}
	}
	return msgs >= 2 && sent
}

func TestC36(t *testing.T) {
	e := vh.Load(t)
	st := vh.NewStats("call sequences on a real decision engine (limits 1..32, 1-3 peers): want-list messages (full/incremental, cancels, " +
		"re-sent, identity, oversize and denied CIDs, distinct priorities), block add(+notify)/remove, queue drains; " +
		"non-trivial = at least two non-empty messages and at least one non-empty envelope; distinct by (config, calls)")
	cs := vh.NewCases(e, preamble, "case", "check_case", 100)
	knownIdx = nil
	for id := range e.Known {
		var n int
		if _, err := fmt.Sscanf(id, "C36-%d", &n); err == nil {
			knownIdx = append(knownIdx, n)
		}
	}
	sort.Ints(knownIdx)
	for _, c := range corpus() {
		out := runCase(t, c.cfg, c.ops, nil)
		out.replay["corpus"] = c.name
		cs.Add(out.term, out.replay)
		st.Case("corpus|"+c.name, true)
		st.Count("corpus")
		st.Sample(out.replay, 2)
	}
	n := e.Pick(500, 8000)
	for i := 0; i < n; i++ {
		var cfg config
		var sc *scenario
		if i%5 == 3 {
			cfg, sc = genScenarioConfig(e)
		} else {
			cfg = genConfig(e, i%25 == 24)
		}
		g := newGen(e, cfg)
		g.scen = sc
		if sc != nil {
			st.Count("scenario.full-ledger-with-absent-run")
		}
		out := runCase(t, cfg, nil, g.next)
		if g.tiedEnd {
			st.Count("history-ended-at-tied-ledger")
		}
		ops := out.replay["ops"].([]op)
		cs.Add(out.term, out.replay)
		st.Case(out.term, nontrivial(out.obs, ops))
		st.Count(fmt.Sprintf("limit=%d", cfg.Limit))
		st.Count(fmt.Sprintf("peers=%d", cfg.NP))
		for j, o := range ops {
			st.Count("op=" + o.Kind)
			if o.Kind == "msg" {
				if o.Full {
					st.Count("msg.full")
				}
				if len(o.Ents) > cfg.Limit {
					st.Count("msg.longer-than-limit")
				}
				for _, w := range o.Ents {
					switch {
					case w.Cancel:
						st.Count("entry.cancel")
					case w.Cid >= 200:
						st.Count("entry.oversize")
					case w.Cid >= 100:
						st.Count("entry.identity")
					case w.Block:
						st.Count("entry.want-block")
					default:
						st.Count("entry.want-have")
					}
				}
			}
			for _, r := range out.obs[j].drain {
				if len(r.blocks) > 0 {
					st.Count("sent.block")
				}
				if len(r.haves) > 0 {
					st.Count("sent.have")
				}
				if len(r.donthaves) > 0 {
					st.Count("sent.dont-have")
				}
			}
		}
		st.Sample(out.replay, 6)
	}
	_ = strings.Join
	cs.Close()
	st.Write(e)
}
