// Correspondence harness for C12 (ipld/merkledag walks).  Random link graphs
// (sharing, cycles, missing / failing blocks) are walked by the real
// merkledag.WalkDepth (sequential and with 2..32 workers; the visit function is
// a logging twin of FetchGraphWithDepthLimit's) and by the real
// FetchGraphWithDepthLimit over a fake DAGService, with every combination of
// SkipRoot / IgnoreErrors / IgnoreMissing / OnMissing / OnError / WithProvider.
// Observed: the visit calls in the walk's own serialisation, handler and
// OnMissing callback arguments, provider calls, successful Gets, the returned
// error.  Every walk runs in a child process (a composed error handler that
// recurses without bound dies with a fatal stack overflow); the parent turns
// inputs + observations into cases_*.v, evaluated in Coq against model/M_C12.v.
package c12

import (
	"bufio"
	"context"
	"crypto/sha256"
	"encoding/json"
	"errors"
	"fmt"
	"os"
	"os/exec"
	"path/filepath"
	"runtime/debug"
	"strings"
	"sync"
	"testing"
	"time"

	"github.com/ipfs/boxo/ipld/merkledag"
	cid "github.com/ipfs/go-cid"
	format "github.com/ipfs/go-ipld-format"
	mh "github.com/multiformats/go-multihash"

	"verif/harness/vh"
)

// ---------- case inputs (JSON between parent and child) ----------

type nodeIn struct {
	ID    int    `json:"id"`
	Links []int  `json:"links"`
	Fail  string `json:"fail"` // "" ok, ENotFound, EOther
}

type caseIn struct {
	Kind     string   `json:"kind"` // walk | fetch
	Nodes    []nodeIn `json:"nodes"`
	Root     int      `json:"root"`
	Lim      int      `json:"lim"`
	SkipRoot bool     `json:"skip"`
	Handlers []string `json:"handlers"` // IgnoreErrors IgnoreMissing OnMissing OnError:PSwallow|PKeep|PReplace, in option order
	Provider bool     `json:"provider"`
	ProvFail []int    `json:"provfail"` // nodes for which StartProviding returns an error (the code only logs it)
	Conc     int      `json:"conc"`     // 0 = no concurrency option
	Tag      int64    `json:"tag"`
	Label    string   `json:"label"`
}

type visitRec struct {
	C int  `json:"c"`
	D int  `json:"d"`
	B bool `json:"b"`
}
type hcallRec struct {
	Kind string `json:"k"` // missing | error
	C    int    `json:"c"`
	E    string `json:"e"` // error class given to an OnError handler ("" = nil)
}
type caseOut struct {
	Idx     int        `json:"idx"`
	Vlog    []visitRec `json:"vlog"`
	Hcalls  []hcallRec `json:"hcalls"`
	Prov    []int      `json:"prov"`
	Fetched []int      `json:"fetched"`
	ErrC    int        `json:"errc"`
	ErrK    string     `json:"errk"` // "" = nil
	Bad     string     `json:"bad"`  // harness-level failure (timeout, unknown CID ...)
}

// ---------- the fake graph ----------

type fetchErr struct{ c cid.Cid }

func (e fetchErr) Error() string { return "c12: fetch failed" }

type provErr struct{ c cid.Cid }

func (e provErr) Error() string { return "c12: provide queue full" }

type customErr struct{ orig error }

func (e customErr) Error() string { return "c12: replaced" }

type world struct {
	in    *caseIn
	cids  []cid.Cid
	byKey map[string]int
	byMh  map[string]int
	mu    sync.Mutex
	out   caseOut
}

func newWorld(in *caseIn) *world {
	w := &world{in: in, byKey: map[string]int{}, byMh: map[string]int{}}
	maxID := 0
	for _, n := range in.Nodes {
		if n.ID > maxID {
			maxID = n.ID
		}
		for _, l := range n.Links {
			if l > maxID {
				maxID = l
			}
		}
	}
	if in.Root > maxID {
		maxID = in.Root
	}
	w.cids = make([]cid.Cid, maxID+1)
	for i := range w.cids {
		sum := sha256.Sum256([]byte(fmt.Sprintf("c12-%d-%d", in.Tag, i)))
		h, _ := mh.Encode(sum[:], mh.SHA2_256)
		w.cids[i] = cid.NewCidV1(cid.Raw, h)
		w.byKey[w.cids[i].KeyString()] = i
		w.byMh[string(h)] = i
	}
	return w
}

func (w *world) node(id int) *nodeIn {
	for i := range w.in.Nodes {
		if w.in.Nodes[i].ID == id {
			return &w.in.Nodes[i]
		}
	}
	return nil
}

func (w *world) id(c cid.Cid) int {
	if i, ok := w.byKey[c.KeyString()]; ok {
		return i
	}
	w.mu.Lock()
	w.out.Bad = "a CID outside the graph was used: " + c.String()
	w.mu.Unlock()
	return 0
}

func (w *world) fetch(c cid.Cid) ([]*format.Link, error) {
	i := w.id(c)
	n := w.node(i)
	// a little scheduling noise so that worker interleavings vary
	if w.in.Conc > 1 && (i+int(w.in.Tag))%3 == 0 {
		time.Sleep(time.Duration((i*7+int(w.in.Tag))%5) * 20 * time.Microsecond)
	}
	if n == nil || n.Fail == "ENotFound" {
		return nil, format.ErrNotFound{Cid: c}
	}
	if n.Fail == "EOther" {
		return nil, fetchErr{c}
	}
	links := make([]*format.Link, len(n.Links))
	for k, l := range n.Links {
		links[k] = &format.Link{Cid: w.cids[l]}
	}
	return links, nil
}

func classOf(err error) string {
	var ce customErr
	switch {
	case err == nil:
		return ""
	case errors.As(err, &ce):
		return "ECustom"
	case format.IsNotFound(err):
		return "ENotFound"
	}
	var fe fetchErr
	if errors.As(err, &fe) {
		return "EOther"
	}
	var pe provErr
	if errors.As(err, &pe) {
		return "EProvider"
	}
	return "UNEXPECTED:" + err.Error()
}

// the node an error is about (through a replacement)
func (w *world) nodeOf(err error) int {
	var ce customErr
	if errors.As(err, &ce) {
		return w.nodeOf(ce.orig)
	}
	var nf format.ErrNotFound
	if errors.As(err, &nf) {
		return w.id(nf.Cid)
	}
	var fe fetchErr
	if errors.As(err, &fe) {
		return w.id(fe.c)
	}
	var pe provErr
	if errors.As(err, &pe) {
		return w.id(pe.c)
	}
	return -1
}

func (w *world) options() []merkledag.WalkOption {
	in := w.in
	var opts []merkledag.WalkOption
	if in.SkipRoot {
		opts = append(opts, merkledag.SkipRoot())
	}
	for _, h := range in.Handlers {
		switch {
		case h == "IgnoreErrors":
			opts = append(opts, merkledag.IgnoreErrors())
		case h == "IgnoreMissing":
			opts = append(opts, merkledag.IgnoreMissing())
		case h == "OnMissing":
			opts = append(opts, merkledag.OnMissing(func(c cid.Cid) {
				i := w.id(c)
				w.mu.Lock()
				w.out.Hcalls = append(w.out.Hcalls, hcallRec{Kind: "missing", C: i})
				w.mu.Unlock()
			}))
		case strings.HasPrefix(h, "OnError:"):
			pol := strings.TrimPrefix(h, "OnError:")
			opts = append(opts, merkledag.OnError(func(c cid.Cid, err error) error {
				i := w.id(c)
				w.mu.Lock()
				w.out.Hcalls = append(w.out.Hcalls, hcallRec{Kind: "error", C: i, E: classOf(err)})
				w.mu.Unlock()
				switch pol {
				case "PSwallow":
					return nil
				case "PKeep":
					return err
				}
				if err == nil {
					return nil
				}
				return customErr{err}
			}))
		}
	}
	if in.Provider {
		failing := map[int]bool{}
		for _, i := range in.ProvFail {
			failing[i] = true
		}
		opts = append(opts, merkledag.WithProvider(provFunc(func(keys ...mh.Multihash) error {
			w.mu.Lock()
			defer w.mu.Unlock()
			var err error
			for _, k := range keys {
				if i, ok := w.byMh[string(k)]; ok {
					w.out.Prov = append(w.out.Prov, i)
					if failing[i] {
						err = provErr{w.cids[i]}
					}
				} else {
					w.out.Bad = "provider asked for an unknown multihash"
				}
			}
			return err
		})))
	}
	switch {
	case in.Conc == 32:
		opts = append(opts, merkledag.Concurrent())
	case in.Conc > 0:
		opts = append(opts, merkledag.Concurrency(in.Conc))
	}
	return opts
}

type provFunc func(keys ...mh.Multihash) error

func (p provFunc) StartProviding(force bool, keys ...mh.Multihash) error { return p(keys...) }

// fake DAGService for FetchGraph: Get answers from the graph and records successes
type fakeDAG struct{ w *world }

func (f fakeDAG) Get(ctx context.Context, c cid.Cid) (format.Node, error) {
	links, err := f.w.fetch(c)
	if err != nil {
		return nil, err
	}
	nd := merkledag.NodeWithData(nil)
	for i, l := range links {
		if err := nd.AddRawLink(fmt.Sprintf("%04d", i), l); err != nil {
			return nil, err
		}
	}
	f.w.mu.Lock()
	f.w.out.Fetched = append(f.w.out.Fetched, f.w.id(c))
	f.w.mu.Unlock()
	return nd, nil
}
func (f fakeDAG) GetMany(ctx context.Context, cs []cid.Cid) <-chan *format.NodeOption {
	ch := make(chan *format.NodeOption, len(cs))
	for _, c := range cs {
		nd, err := f.Get(ctx, c)
		ch <- &format.NodeOption{Node: nd, Err: err}
	}
	close(ch)
	return ch
}
func (fakeDAG) Add(context.Context, format.Node) error       { return nil }
func (fakeDAG) AddMany(context.Context, []format.Node) error { return nil }
func (fakeDAG) Remove(context.Context, cid.Cid) error        { return nil }
func (fakeDAG) RemoveMany(context.Context, []cid.Cid) error  { return nil }

// the logging twin of the visit function inside FetchGraphWithDepthLimit
func (w *world) visitFn() func(cid.Cid, int) bool {
	set := map[cid.Cid]int{}
	depthLim := w.in.Lim
	return func(c cid.Cid, depth int) bool {
		oldDepth, ok := set[c]
		ret := false
		if (ok && depthLim < 0) || (depthLim >= 0 && depth > depthLim) {
			ret = false
		} else if !ok || oldDepth > depth {
			set[c] = depth
			ret = true
		}
		i := w.id(c)
		w.mu.Lock()
		w.out.Vlog = append(w.out.Vlog, visitRec{C: i, D: depth, B: ret})
		w.mu.Unlock()
		return ret
	}
}

func runOne(in *caseIn, idx int) caseOut {
	w := newWorld(in)
	w.out.Idx = idx
	ctx, cancel := context.WithTimeout(context.Background(), 30*time.Second)
	defer cancel()
	var err error
	if in.Kind == "fetch" {
		err = merkledag.FetchGraphWithDepthLimit(ctx, w.cids[in.Root], in.Lim, fakeDAG{w}, w.options()...)
	} else {
		err = merkledag.WalkDepth(ctx, func(_ context.Context, c cid.Cid) ([]*format.Link, error) { return w.fetch(c) },
			w.cids[in.Root], w.visitFn(), w.options()...)
	}
	w.mu.Lock()
	defer w.mu.Unlock()
	if err != nil {
		k := classOf(err)
		if strings.HasPrefix(k, "UNEXPECTED") {
			w.out.Bad = "walk returned " + k
		}
		w.out.ErrK, w.out.ErrC = k, w.nodeOf(err)
	}
	return w.out
}

// ---------- child process ----------

func TestC12Child(t *testing.T) {
	inPath := os.Getenv("VERIF_C12_IN")
	if inPath == "" {
		t.Skip("child entry point")
	}
	debug.SetMaxStack(48 << 20) // die quickly on unbounded recursion
	var from int
	fmt.Sscan(os.Getenv("VERIF_C12_FROM"), &from)
	b, err := os.ReadFile(inPath)
	if err != nil {
		t.Fatal(err)
	}
	var ins []caseIn
	if err := json.Unmarshal(b, &ins); err != nil {
		t.Fatal(err)
	}
	f, err := os.OpenFile(os.Getenv("VERIF_C12_OUT"), os.O_APPEND|os.O_CREATE|os.O_WRONLY, 0o644)
	if err != nil {
		t.Fatal(err)
	}
	defer f.Close()
	for i := from; i < len(ins); i++ {
		// announce the case before running it: if the process dies here the parent knows where
		fmt.Fprintf(f, "{\"start\":%d}\n", i)
		out := runOne(&ins[i], i)
		line, _ := json.Marshal(out)
		f.Write(append(line, '\n'))
	}
}

// runAll runs the cases in child processes, restarting after a fatal crash.
func runAll(t *testing.T, e *vh.Env, ins []caseIn) ([]caseOut, []bool) {
	inPath := filepath.Join(e.Out, "c12_inputs.json")
	outPath := filepath.Join(e.Out, "c12_results.jsonl")
	b, _ := json.Marshal(ins)
	if err := os.WriteFile(inPath, b, 0o644); err != nil {
		t.Fatal(err)
	}
	os.Remove(outPath)
	outs := make([]caseOut, len(ins))
	done := make([]bool, len(ins))
	crashed := make([]bool, len(ins))
	from := 0
	for restarts := 0; from < len(ins); restarts++ {
		if restarts > len(ins)+2 {
			t.Fatal("child process keeps dying without progress")
		}
		cmd := exec.Command(os.Args[0], "-test.run", "^TestC12Child$", "-test.timeout", "1800s")
		cmd.Env = append(os.Environ(), "VERIF_C12_IN="+inPath, "VERIF_C12_OUT="+outPath, fmt.Sprintf("VERIF_C12_FROM=%d", from))
		outb, runErr := cmd.CombinedOutput()
		started := -1
		if f, err := os.Open(outPath); err == nil {
			sc := bufio.NewScanner(f)
			sc.Buffer(make([]byte, 1<<20), 1<<26)
			for sc.Scan() {
				var probe struct {
					Start *int `json:"start"`
				}
				line := sc.Bytes()
				if json.Unmarshal(line, &probe) == nil && probe.Start != nil {
					started = *probe.Start
					continue
				}
				var o caseOut
				if json.Unmarshal(line, &o) == nil && o.Idx >= 0 && o.Idx < len(ins) {
					outs[o.Idx], done[o.Idx] = o, true
				}
			}
			f.Close()
		}
		if runErr == nil {
			break
		}
		// the child died: the case it had announced last and not finished is the culprit
		if started < from || done[started] {
			t.Fatalf("child process failed outside a case: %v\n%s", runErr, tail(string(outb), 2000))
		}
		overflow := strings.Contains(string(outb), "stack overflow") || strings.Contains(string(outb), "goroutine stack exceeds")
		if !overflow {
			t.Fatalf("child process died in case %d for another reason than a stack overflow: %v\n%s", started, runErr, tail(string(outb), 3000))
		}
		crashed[started], done[started] = true, true
		outs[started] = caseOut{Idx: started}
		from = started + 1
	}
	for i := range ins {
		if !done[i] {
			t.Fatalf("no result for case %d", i)
		}
	}
	os.Remove(inPath)
	os.Remove(outPath)
	return outs, crashed
}

func tail(s string, n int) string {
	if len(s) > n {
		return s[len(s)-n:]
	}
	return s
}

// ---------- rendering ----------

func ek(s string) string {
	if s == "" {
		return "None"
	}
	return "(Some " + s + ")"
}

func nlist(xs []int) string {
	return vh.ListOf(xs, func(x int) string { return vh.N(uint64(x)) })
}

func (in *caseIn) graphCoq() string {
	return vh.ListOf(in.Nodes, func(n nodeIn) string {
		return fmt.Sprintf("(%s, mkNode %s %s)", vh.N(uint64(n.ID)), nlist(n.Links), ek(n.Fail))
	})
}

func (in *caseIn) cfgCoq() string {
	hs := vh.ListOf(in.Handlers, func(h string) string {
		switch {
		case h == "IgnoreErrors":
			return "HIgnoreErrors"
		case h == "IgnoreMissing":
			return "HIgnoreMissing"
		case h == "OnMissing":
			return "HOnMissing"
		}
		return "(HOnError " + strings.TrimPrefix(h, "OnError:") + ")"
	})
	return fmt.Sprintf("(mkCfg %s %s %s %s %s)", vh.Z(int64(in.Lim)), vh.Bool(in.SkipRoot), hs, vh.Bool(in.Provider), vh.Bool(in.Conc > 1))
}

func obsCoq(o *caseOut, crashed bool) string {
	vl := vh.ListOf(o.Vlog, func(v visitRec) string {
		return fmt.Sprintf("(%s, %s, %s)", vh.N(uint64(v.C)), vh.Z(int64(v.D)), vh.Bool(v.B))
	})
	hc := vh.ListOf(o.Hcalls, func(h hcallRec) string {
		if h.Kind == "missing" {
			return "(CMissing " + vh.N(uint64(h.C)) + ")"
		}
		return "(CError " + vh.N(uint64(h.C)) + " " + ek(h.E) + ")"
	})
	er := "None"
	if o.ErrK != "" {
		er = fmt.Sprintf("(Some (%s, %s))", vh.N(uint64(max(o.ErrC, 0))), o.ErrK)
	}
	return fmt.Sprintf("(mkObs %s %s %s %s %s)", vl, hc, nlist(o.Prov), er, vh.Bool(crashed))
}

// ---------- generators ----------

var handlerPool = []string{"IgnoreErrors", "IgnoreMissing", "OnMissing", "OnError:PSwallow", "OnError:PKeep", "OnError:PReplace"}

func genGraph(e *vh.Env, n int, cyclic bool, failRate int) []nodeIn {
	r := e.Rng
	nodes := make([]nodeIn, 0, n)
	for i := 0; i < n; i++ {
		nl := r.Intn(5)
		if r.Intn(6) == 0 {
			nl = 0
		}
		links := make([]int, 0, nl)
		for k := 0; k < nl; k++ {
			var l int
			switch {
			case cyclic:
				l = r.Intn(n + 1) // any node (also itself, also one outside the table = missing)
			case i+1 < n:
				l = i + 1 + r.Intn(min(n-i-1, 8)) // forward edges: a DAG with sharing
			default:
				l = n // the node after the last: a missing block
			}
			links = append(links, l)
		}
		fail := ""
		if failRate > 0 && r.Intn(failRate) == 0 {
			fail = []string{"ENotFound", "ENotFound", "EOther"}[r.Intn(3)]
		}
		nodes = append(nodes, nodeIn{ID: i, Links: links, Fail: fail})
	}
	return nodes
}

func genHandlers(e *vh.Env) []string {
	r := e.Rng
	var hs []string
	switch r.Intn(6) {
	case 0:
		return nil
	case 1, 2:
		return []string{handlerPool[r.Intn(len(handlerPool))]}
	}
	perm := r.Perm(len(handlerPool))
	k := 2 + r.Intn(3)
	for _, p := range perm[:k] {
		hs = append(hs, handlerPool[p])
	}
	return hs
}

func genCase(e *vh.Env) caseIn {
	r := e.Rng
	n := 1 + r.Intn(40)
	if r.Intn(5) == 0 {
		n = 1 + r.Intn(5)
	}
	failRate := []int{0, 0, 12, 6, 3}[r.Intn(5)]
	in := caseIn{
		Nodes: genGraph(e, n, r.Intn(4) == 0, failRate), Root: 0, Lim: r.Intn(8) - 1,
		SkipRoot: r.Intn(4) == 0, Handlers: genHandlers(e), Provider: r.Intn(2) == 0,
		Conc: []int{0, 1, 2, 8, 32, 3}[r.Intn(6)], Tag: r.Int63n(1 << 40), Kind: "walk", Label: "random",
	}
	if r.Intn(3) == 0 {
		in.Lim = -1
	}
	if in.Provider && r.Intn(2) == 0 { // a provider that fails for some nodes: the walk must not notice
		leaves := r.Intn(3) == 0
		for _, nd := range in.Nodes {
			if (leaves && len(nd.Links) == 0) || (!leaves && r.Intn(4) == 0) {
				in.ProvFail = append(in.ProvFail, nd.ID)
			}
		}
		if r.Intn(4) == 0 {
			in.ProvFail = append(in.ProvFail, n) // the missing node behind the last one
		}
	}
	if r.Intn(3) == 0 {
		in.Kind = "fetch"
		if in.Conc == 0 { // FetchGraph is concurrent unless told otherwise
			in.Conc = 32
		}
	}
	return in
}

func corpus() []caseIn {
	// C12-1 witness: root 0 -> 1 -> 2(missing); workers > 1; the callbacks must name 2, the provider 0 and 1
	w1 := []nodeIn{{ID: 0, Links: []int{1}}, {ID: 1, Links: []int{2, 3}}, {ID: 3}}
	// C12-2 witness: two handler options and one failing node
	var cs []caseIn
	for _, kind := range []string{"walk", "fetch"} {
		for _, conc := range []int{2, 32} {
			cs = append(cs,
				caseIn{Kind: kind, Nodes: w1, Lim: -1, Handlers: []string{"OnMissing"}, Provider: true, Conc: conc, Tag: 1, Label: "corpus-C12-1-onmissing"},
				caseIn{Kind: kind, Nodes: w1, Lim: -1, Handlers: []string{"OnError:PSwallow"}, Provider: false, Conc: conc, Tag: 2, Label: "corpus-C12-1-onerror"},
				caseIn{Kind: kind, Nodes: w1, Lim: -1, Handlers: []string{"IgnoreMissing"}, Provider: true, Conc: conc, Tag: 3, Label: "corpus-C12-1-provider"},
				caseIn{Kind: kind, Nodes: w1, Lim: -1, Handlers: nil, Provider: true, Conc: conc, Tag: 4, Label: "corpus-abort"},
			)
		}
		for _, conc := range []int{0, 1, 2} {
			cs = append(cs,
				caseIn{Kind: kind, Nodes: w1, Lim: -1, Handlers: []string{"OnMissing", "IgnoreMissing"}, Provider: true, Conc: conc, Tag: 5, Label: "corpus-C12-2-two-handlers"},
				caseIn{Kind: kind, Nodes: w1, Lim: -1, Handlers: []string{"IgnoreErrors", "OnError:PKeep", "OnMissing"}, Conc: conc, Tag: 6, Label: "corpus-C12-2-three-handlers"},
			)
		}
	}
	// a provider that fails on a leaf (and on an interior node, and on a forgiven missing node) while other
	// nodes are still to be walked: the provider's error is only logged, the walk goes on and returns nil
	pf := []nodeIn{{ID: 0, Links: []int{1, 4, 5}}, {ID: 1, Links: []int{3, 2}}, {ID: 3}, {ID: 4, Links: []int{6}}, {ID: 5}, {ID: 6}}
	for _, kind := range []string{"walk", "fetch"} {
		for _, conc := range []int{0, 1, 2, 32} {
			if kind == "fetch" && conc == 0 {
				continue
			}
			for _, fail := range [][]int{{3}, {1}, {2, 6}, {0, 1, 2, 3, 4, 5, 6}} {
				cs = append(cs, caseIn{Kind: kind, Nodes: pf, Lim: -1, Handlers: []string{"IgnoreMissing"}, Provider: true, ProvFail: fail,
					Conc: conc, Tag: 10, Label: "corpus-failing-provider"})
			}
			cs = append(cs, caseIn{Kind: kind, Nodes: pf, Lim: 2, SkipRoot: true, Handlers: []string{"OnMissing", "IgnoreErrors"}, Provider: true,
				ProvFail: []int{3, 5}, Conc: conc, Tag: 11, Label: "corpus-failing-provider"})
		}
	}
	// depth limits: a diamond with a long and a short way to node 3, limits around the distances
	dia := []nodeIn{{ID: 0, Links: []int{1, 3}}, {ID: 1, Links: []int{2}}, {ID: 2, Links: []int{3}}, {ID: 3, Links: []int{4}}, {ID: 4, Links: []int{5}}, {ID: 5}}
	for lim := -1; lim <= 4; lim++ {
		for _, conc := range []int{0, 8} {
			cs = append(cs, caseIn{Kind: "walk", Nodes: dia, Lim: lim, Provider: true, Conc: conc, Tag: 7, Label: "corpus-diamond"},
				caseIn{Kind: "fetch", Nodes: dia, Lim: lim, Provider: true, Conc: max(conc, 1), Tag: 8, Label: "corpus-diamond"},
				caseIn{Kind: "walk", Nodes: dia, Lim: lim, SkipRoot: true, Provider: true, Conc: conc, Tag: 9, Label: "corpus-diamond-skiproot"})
		}
	}
	return cs
}

func TestC12(t *testing.T) {
	if os.Getenv("VERIF_C12_IN") != "" {
		t.Skip("child process")
	}
	e := vh.Load(t)
	st := vh.NewStats("random link graphs up to 40 nodes (DAGs with sharing and forward edges; one in four arbitrary, with cycles and self links), " +
		"missing/failing nodes at rates 0..1/3, depth limits -1..6, SkipRoot, 0..4 handler options in random order " +
		"(half of the provider cases with a StartProviding that fails for random nodes / all leaves) " +
		"(IgnoreErrors, IgnoreMissing, OnMissing, OnError swallow/keep/replace), provider on/off, concurrency none/1/2/3/8/32; " +
		"two thirds through WalkDepth with a logging twin of the depth-aware visit function, one third through FetchGraphWithDepthLimit over a fake DAGService. " +
		"Non-trivial = at least 5 visit calls or Gets and (a failing node was met or a node was visited more than once or concurrency > 1). Distinct by input and observation.")
	cs := vh.NewCases(e, "From V Require Import model.M_C12.\nOpen Scope Z_scope.", "case", "check_case", 250)
	ins := corpus()
	n := e.Pick(1200, 20000)
	if v := os.Getenv("VERIF_C12_N"); v != "" { // debugging aid
		fmt.Sscan(v, &n)
	}
	for len(ins) < n {
		ins = append(ins, genCase(e))
	}
	for i := range ins {
		if ins[i].Kind == "fetch" && ins[i].Conc == 0 { // FetchGraph is concurrent unless told otherwise
			ins[i].Conc = 32
		}
	}
	outs, crashed := runAll(t, e, ins)
	for i := range ins {
		in, o := &ins[i], &outs[i]
		if o.Bad != "" {
			st.Violate("harness-level failure: "+o.Bad, "", map[string]any{"label": in.Label, "case": in})
			continue
		}
		var term string
		if in.Kind == "fetch" {
			term = vh.App("CFetch", in.graphCoq(), in.cfgCoq(), vh.N(uint64(in.Root)), obsCoq(o, crashed[i]), nlist(o.Fetched))
		} else {
			term = vh.App("CWalk", in.graphCoq(), in.cfgCoq(), vh.N(uint64(in.Root)), obsCoq(o, crashed[i]))
		}
		rp := map[string]any{"label": in.Label, "input": in, "error": o.ErrK, "error_node": o.ErrC, "crashed": crashed[i],
			"visits": len(o.Vlog), "callbacks": len(o.Hcalls), "provided": len(o.Prov)}
		cs.Add(term, rp)
		work := len(o.Vlog) + len(o.Fetched)
		seen := map[int]int{}
		revisit := false
		for _, v := range o.Vlog {
			if v.B {
				seen[v.C]++
				if seen[v.C] > 1 {
					revisit = true
				}
			}
		}
		st.Case(term, work >= 5 && (len(o.Hcalls) > 0 || o.ErrK != "" || revisit || in.Conc > 1))
		st.Count(in.Kind)
		st.Count(fmt.Sprintf("concurrency=%d", in.Conc))
		st.Count(fmt.Sprintf("handlers=%d", len(in.Handlers)))
		st.Count(fmt.Sprintf("lim=%d", in.Lim))
		if in.SkipRoot {
			st.Count("skiproot")
		}
		if len(in.ProvFail) > 0 {
			st.Count("provider fails for some nodes")
		}
		if o.ErrK != "" {
			st.Count("returned " + o.ErrK)
		}
		if crashed[i] {
			st.Count("crashed (stack overflow)")
		}
		if revisit {
			st.Count("revisited at a smaller depth")
		}
		st.Sample(map[string]any{"label": in.Label, "kind": in.Kind, "nodes": len(in.Nodes), "lim": in.Lim, "handlers": in.Handlers,
			"conc": in.Conc, "visits": len(o.Vlog), "error": o.ErrK}, 6)
	}
	cs.Close()
	st.Write(e)
}
