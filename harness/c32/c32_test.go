// Correspondence harness for C32 (gateway/hostname.go): the real
// NewHostnameHandler is driven through net/http/httptest with a fake backend that
// answers DNSLink lookups, redirects are followed, and every answer (redirect
// Location, path seen by the next handler, 404/400) is written into cases_*.v
// together with what the dependencies (go-cid, peer, miekg/dns, net, net/url)
// say about every string involved; Coq evaluates the model (M_C32.handler) and
// the content-identity specification on them.  InlineDNSLink/UninlineDNSLink are
// called directly (CStr cases).
package c32

import (
	"context"
	"errors"
	"fmt"
	"net"
	"net/http"
	"net/http/httptest"
	"net/url"
	"sort"
	"strings"
	"testing"

	"github.com/ipfs/boxo/gateway"
	"github.com/ipfs/boxo/path"
	cid "github.com/ipfs/go-cid"
	"github.com/libp2p/go-libp2p/core/peer"
	"github.com/miekg/dns"
	mbase "github.com/multiformats/go-multibase"
	mh "github.com/multiformats/go-multihash"

	"verif/harness/vh"
)

// ---------- fake backend ----------
type fakeBackend struct {
	gateway.IPFSBackend // nil: any other method would panic (and is never called by the hostname handler)
	recs                map[string]bool
}

func (f *fakeBackend) GetDNSLinkRecord(ctx context.Context, h string) (path.Path, error) {
	if f.recs[h] {
		return path.NewPath("/ipfs/bafkqaaa")
	}
	return nil, errors.New("no DNSLink record")
}

// ---------- request / outcome ----------
type req struct {
	Host, XHost       string
	HTTPS             bool
	Path, Query, Frag string
	viaProto          bool // https announced by X-Forwarded-Proto instead of the URL scheme
}

type outcome struct {
	Kind                    string // redirect next notfound badrequest other
	HTTPS                   bool
	Host, Path, Query, Frag string
	K, Ctx                  string
	Code                    int
}

func (o outcome) coq() string {
	switch o.Kind {
	case "redirect":
		return vh.App("ORedirect", vh.Bool(o.HTTPS), str(o.Host), str(o.Path), str(o.Query), str(o.Frag))
	case "next":
		return vh.App("ONext", o.K, str(o.Ctx), str(o.Path), str(o.Query))
	case "notfound":
		return "ONotFound"
	case "badrequest":
		return "OBadRequest"
	}
	return "OOther"
}

func (r req) coq() string {
	return vh.App("Build_request", str(r.Host), str(r.XHost), vh.Bool(r.HTTPS), str(r.Path), str(r.Query), str(r.Frag))
}

func printable(s string) bool { _, ok := vh.Str(s); return ok }
func str(s string) string {
	v, ok := vh.Str(s)
	if !ok {
		panic("non-printable string reached the Coq renderer: " + fmt.Sprintf("%q", s))
	}
	return v
}

func ctxString(r *http.Request, k gateway.RequestContextKey) (string, bool) {
	v := r.Context().Value(k)
	if v == nil {
		return "", false
	}
	s, ok := v.(string)
	return s, ok
}

func serve(h http.Handler, seen **http.Request, rq req) outcome {
	r := httptest.NewRequest(http.MethodGet, "/", nil)
	// a real request line where the path survives escaping unchanged, otherwise the fields directly
	target := (&url.URL{Path: rq.Path}).EscapedPath()
	if rq.Query != "" {
		target += "?" + rq.Query
	}
	if strings.HasPrefix(rq.Path, "/") {
		func() {
			defer func() { recover() }()
			r2 := httptest.NewRequest(http.MethodGet, target, nil)
			if r2.URL.Path == rq.Path && r2.URL.RawQuery == rq.Query {
				r = r2
			}
		}()
	}
	r.URL.Path, r.URL.RawQuery = rq.Path, rq.Query
	r.URL.Fragment, r.URL.RawFragment = rq.Frag, ""
	r.Host = rq.Host
	if rq.XHost != "" {
		r.Header.Set("X-Forwarded-Host", rq.XHost)
	}
	if rq.HTTPS {
		if rq.viaProto {
			r.Header.Set("X-Forwarded-Proto", "https")
		} else {
			r.URL.Scheme = "https"
		}
	}
	*seen = nil
	w := httptest.NewRecorder()
	h.ServeHTTP(w, r)
	if n := *seen; n != nil {
		o := outcome{Kind: "next", Path: n.URL.Path, Query: n.URL.RawQuery, K: "KPlain"}
		if g, ok := ctxString(n, gateway.GatewayHostnameKey); ok {
			o.Ctx, o.K = g, "KHost"
		}
		if _, ok := ctxString(n, gateway.DNSLinkHostnameKey); ok {
			o.K = "KDns"
		}
		if _, ok := ctxString(n, gateway.SubdomainHostnameKey); ok {
			o.K = "KSub"
		}
		return o
	}
	switch w.Code {
	case http.StatusMovedPermanently:
		u, err := url.Parse(w.Header().Get("Location"))
		if err != nil || (u.Scheme != "http" && u.Scheme != "https") {
			return outcome{Kind: "other", Code: w.Code}
		}
		return outcome{Kind: "redirect", HTTPS: u.Scheme == "https", Host: u.Host, Path: u.Path, Query: u.RawQuery, Frag: u.Fragment}
	case http.StatusNotFound:
		return outcome{Kind: "notfound"}
	case http.StatusBadRequest:
		return outcome{Kind: "badrequest"}
	}
	return outcome{Kind: "other", Code: w.Code}
}

// ---------- gateway configuration ----------
type gwc struct {
	Host                   string // exact hostname, or "*" + suffix
	Paths                  []string
	Sub, NoDNSLink, Inline bool
}

type config struct {
	Gws       []gwc
	NoDNSLink bool
}

func (c config) boxo() gateway.Config {
	m := map[string]*gateway.PublicGateway{}
	for _, g := range c.Gws {
		m[g.Host] = &gateway.PublicGateway{Paths: g.Paths, UseSubdomains: g.Sub, NoDNSLink: g.NoDNSLink, InlineDNSLink: g.Inline}
	}
	return gateway.Config{PublicGateways: m, NoDNSLink: c.NoDNSLink}
}

func (c config) coq() string {
	var exact, wild []string
	for _, g := range c.Gws {
		gw := vh.App("Build_gw", vh.ListOf(g.Paths, str), vh.Bool(g.Sub), vh.Bool(g.NoDNSLink), vh.Bool(g.Inline))
		if strings.HasPrefix(g.Host, "*") {
			wild = append(wild, vh.Pair(str(g.Host[1:]), gw))
		} else {
			exact = append(exact, vh.Pair(str(g.Host), gw))
		}
	}
	return vh.App("Build_config", vh.List(exact), vh.List(wild), vh.Bool(c.NoDNSLink))
}

// ---------- the oracle: what the dependencies say about every string involved ----------
type sinfo struct {
	hasCid     bool
	codec, mhc uint64
	base       int
	hasPeer    bool
	peerMh     uint64
	dom, ip    bool
	rec, hostk bool
}

type oracle struct {
	recs  map[string]bool
	mhIDs map[string]uint64
	order []string
	infos map[string]sinfo
	peer  bool // the case uses a peer namespace (ipns/p2p)
	plain bool // the case uses ipfs/ipld
}

func newOracle(recs map[string]bool) *oracle {
	return &oracle{recs: recs, mhIDs: map[string]uint64{}, infos: map[string]sinfo{}}
}

func (o *oracle) mhID(m mh.Multihash) uint64 {
	k := string(m)
	if id, ok := o.mhIDs[k]; ok {
		return id
	}
	id := uint64(len(o.mhIDs) + 1)
	o.mhIDs[k] = id
	return id
}

// the specification's own three-liners (hostname.go quotes them as the reference)
func inlineRef(s string) string {
	return strings.ReplaceAll(strings.ReplaceAll(s, "-", "--"), ".", "-")
}
func uninlineRef(s string) string {
	s = strings.ReplaceAll(s, "--", "@")
	s = strings.ReplaceAll(s, "-", ".")
	return strings.ReplaceAll(s, "@", "-")
}

func stripPortRef(h string) string {
	if x, _, err := net.SplitHostPort(h); err == nil {
		return x
	}
	return h
}

// add records what the dependencies say about s (and about the CID texts the code can derive from it)
func (o *oracle) add(s string) {
	if _, ok := o.infos[s]; ok || !printable(s) {
		return
	}
	var i sinfo
	var derived []string
	if c, err := cid.Decode(s); err == nil {
		i.hasCid, i.codec, i.mhc = true, c.Type(), o.mhID(c.Hash())
		if c.Version() == 1 {
			if t, _ := c.StringOfBase(mbase.Base32); t == s {
				i.base = 32
			} else if t, _ := c.StringOfBase(mbase.Base36); t == s {
				i.base = 36
			}
		}
		derived = append(derived, o.encodings(c.Type(), c.Hash(), len(s) > 63)...)
	}
	if p, err := peer.Decode(s); err == nil {
		if m, err := mh.Cast([]byte(p)); err == nil {
			i.hasPeer, i.peerMh = true, o.mhID(m)
			derived = append(derived, o.encodings(cid.Libp2pKey, m, false)...)
		}
	}
	_, i.dom = dns.IsDomainName(s)
	i.ip = net.ParseIP(s) != nil
	i.rec = o.recs[s]
	if u, err := url.Parse("http://" + s + ".x/"); err == nil && u.Host == s+".x" {
		i.hostk = true
	}
	o.infos[s] = i
	o.order = append(o.order, s)
	for _, d := range derived {
		o.add(d)
	}
}

// addRoot: a root identifier as toSubdomainURL / the subdomain branch see it, with the names they derive
func (o *oracle) addRoot(s string) {
	o.add(s)
	o.add(stripPortRef(s))
	names := []string{s}
	if !strings.Contains(s, ".") && strings.Contains(s, "-") {
		u := uninlineRef(s)
		o.add(u)
		o.add(stripPortRef(u))
		names = append(names, u)
	}
	for _, n := range names {
		if strings.Contains(n, ".") && len(n) <= 200 {
			o.add(inlineRef(n))
		}
	}
}

// the CIDv1 texts toSubdomainURL / toDNSLabel can ask for, for a CID (codec, m)
func (o *oracle) encodings(codec uint64, m mh.Multihash, long bool) []string {
	var out []string
	enc := func(codec uint64, b mbase.Encoding) string {
		t, err := cid.NewCidV1(codec, m).StringOfBase(b)
		if err != nil {
			panic(err)
		}
		return t
	}
	if long {
		out = append(out, enc(codec, mbase.Base36))
	}
	if o.peer {
		out = append(out, enc(cid.Libp2pKey, mbase.Base36))
	}
	if o.plain {
		b32 := enc(codec, mbase.Base32)
		out = append(out, b32)
		if len(b32) > 63 {
			out = append(out, enc(codec, mbase.Base36))
		}
	}
	return out
}

func (o *oracle) addHost(h string) {
	o.add(h)
	o.add(stripPortRef(h))
	labels := strings.Split(h, ".")
	for i := 1; i < len(labels); i++ {
		if isSubNs(labels[i]) { // labels[:i] can be what knownSubdomainDetails takes as the root identifier
			o.addRoot(strings.Join(labels[:i], "."))
		}
	}
}

func (o *oracle) addPath(p string) {
	parts := strings.SplitN(p, "/", 4)
	if len(parts) >= 3 {
		o.addRoot(parts[2])
	}
}

func optN(ok bool, v string) string { return vh.Opt(ok, v) }

func (o *oracle) coq() string {
	items := make([]string, 0, len(o.order))
	for _, s := range o.order {
		i := o.infos[s]
		if !i.hasCid && !i.hasPeer && !i.dom && !i.ip && !i.rec && !i.hostk {
			continue // equals the model's default entry
		}
		items = append(items, vh.Pair(str(s), vh.App("Build_sinfo",
			optN(i.hasCid, vh.Pair(vh.N(i.codec), vh.N(i.mhc))), vh.N(uint64(i.base)),
			optN(i.hasPeer, vh.N(i.peerMh)), vh.Bool(i.dom), vh.Bool(i.ip), vh.Bool(i.rec), vh.Bool(i.hostk))))
	}
	return vh.List(items)
}

// ---------- generators ----------
type gen struct {
	e *vh.Env
}

func (g *gen) n(k int) int       { return g.e.Rng.Intn(k) }
func (g *gen) chance(k int) bool { return g.e.Rng.Intn(k) == 0 }
func (g *gen) pick(xs ...string) string {
	return xs[g.n(len(xs))]
}
func (g *gen) bytes(n int) []byte {
	b := make([]byte, n)
	g.e.Rng.Read(b)
	return b
}

func mkMh(code uint64, digest []byte) mh.Multihash {
	b, err := mh.Encode(digest, code)
	if err != nil {
		panic(err)
	}
	return b
}

// a multihash: mostly short identity digests (cheap in Coq), sometimes the real sizes and the
// lengths whose base32/base36 text is around the 63-character limit
func (g *gen) multihash() mh.Multihash {
	switch x := g.n(20); {
	case x < 11:
		return mkMh(mh.IDENTITY, g.bytes(g.n(7)))
	case x < 14:
		return mkMh(mh.SHA2_256, g.bytes(32))
	case x < 15:
		return mkMh(mh.SHA1, g.bytes(20))
	case x < 16:
		return mkMh(mh.SHA2_512, g.bytes(64))
	default:
		return mkMh(mh.IDENTITY, g.bytes(30+g.n(14))) // base32 59..82 chars, base36 57..79
	}
}

var codecs = []uint64{cid.Raw, cid.DagProtobuf, cid.DagCBOR, cid.Libp2pKey, cid.DagJSON}

// a CIDv1 whose text in the given base has exactly the wanted length (identity multihash of a
// fitting digest length), to sit on both sides of the 63-character limit in every base
func (g *gen) cidOfTextLen(b mbase.Encoding, want int) (string, bool) {
	codec := codecs[g.n(len(codecs))]
	for n := 20; n <= 48; n++ {
		for try := 0; try < 4; try++ {
			t, err := cid.NewCidV1(codec, mkMh(mh.IDENTITY, g.bytes(n))).StringOfBase(b)
			if err == nil && len(t) == want {
				return t, true
			}
		}
	}
	return "", false
}

func (g *gen) cidText() (string, string) {
	if g.chance(7) {
		b := []mbase.Encoding{mbase.Base16, mbase.Base58BTC, mbase.Base36, mbase.Base64url, mbase.Base32}[g.n(5)]
		want := 61 + g.n(5)
		if t, ok := g.cidOfTextLen(b, want); ok {
			return t, fmt.Sprintf("cidv1-len%d-base%c", want, rune(b))
		}
	}
	m := g.multihash()
	if g.chance(6) {
		m = mkMh(mh.SHA2_256, g.bytes(32))
		return cid.NewCidV0(m).String(), "cidv0"
	}
	c := cid.NewCidV1(codecs[g.n(len(codecs))], m)
	bases := []mbase.Encoding{mbase.Base32, mbase.Base32, mbase.Base32, mbase.Base36, mbase.Base36, mbase.Base58BTC, mbase.Base16, mbase.Base32Upper, mbase.Base64url}
	b := bases[g.n(len(bases))]
	t, err := c.StringOfBase(b)
	if err != nil {
		panic(err)
	}
	return t, fmt.Sprintf("cidv1-codec%x-base%c", c.Type(), rune(b))
}

func (g *gen) peerText() (string, string) {
	var m mh.Multihash
	if g.chance(3) {
		m = mkMh(mh.SHA2_256, g.bytes(32)) // RSA-style peer id: Qm...
	} else {
		m = mkMh(mh.IDENTITY, append([]byte{0x08, 0x01, 0x12, 0x20}, g.bytes(32)...)) // ed25519: 12D3KooW...
	}
	p := peer.ID(string(m))
	switch g.n(5) {
	case 0, 1:
		return p.String(), "peer-b58"
	case 2:
		t, _ := peer.ToCid(p).StringOfBase(mbase.Base36)
		return t, "peer-cid-b36"
	case 3:
		return peer.ToCid(p).String(), "peer-cid-b32"
	default:
		return cid.NewCidV1(cid.DagProtobuf, m).String(), "peer-cid-dagpb"
	}
}

const alnum = "abcdefghijklmnopqrstuvwxyz0123456789"

func (g *gen) label(maxLen int) string {
	n := 1 + g.n(maxLen)
	b := make([]byte, n)
	for i := range b {
		if i > 0 && i < n-1 && g.chance(4) {
			b[i] = '-'
		} else {
			b[i] = alnum[g.n(len(alnum))]
		}
	}
	return string(b)
}

// a valid FQDN with hyphens (also doubled) inside its labels
func (g *gen) fqdn() string {
	k := 2 + g.n(3)
	ls := make([]string, k)
	for i := range ls {
		ls[i] = g.label(8)
	}
	if g.chance(8) { // long: inlined form around 63
		ls[0] = g.label(3) + strings.Repeat("x", 40+g.n(16)) + "-y"
	}
	return strings.Join(ls, ".")
}

func (g *gen) name() (string, string) {
	switch x := g.n(20); {
	case x < 12:
		return g.fqdn(), "fqdn"
	case x < 14:
		return g.pick("en.wikipedia-on-ipfs.org", "my.v-long.example.com", "a--b.c-d.org", "docs.ipfs.tech"), "fqdn-corpus"
	case x < 16:
		return inlineRef(g.fqdn()), "inlined-label"
	case x < 18:
		return g.pick("localhost", "a-b", "a--b", "x-y-z", "singlelabel"), "single-label"
	default:
		return g.pick("a..b", "a.-b.c", "-a.b", "a-.b", "a.b.", ".", "-", "a b", "UPPER.Example.COM", ""), "hostile-name"
	}
}

// remainders as the handler sees them (decoded r.URL.Path): plain segments, and everything that
// URL escaping / path cleaning treats specially — literal '%' (also in forms that would decode a
// second time, and a lone trailing one), empty, "." and ".." segments, reserved characters
var oddRests = []string{
	"a b/c", "this is ? a file.png", "50%/x#y", "a+b&c=d", "dir/",
	"enc/%41.txt", "sale/100%.txt", "a//b.txt", "%", "x%", "%25", "%2F", "a%2Fb/c", "%zz/q", "100%25 sure", "%%", "a/%/b",
	"a///b", "a//", "a/./b", "a/../b", "./x", "../x", "a/.", "a/..",
	"a;b=c/d", "a:b@c", "x=1&y=2", "[v6]", "q?r#s", "it's \"q\"", "~t!$*(),",
}

func (g *gen) rest() string {
	switch g.n(8) {
	case 0:
		return ""
	case 1:
		return "/"
	case 2, 3, 4:
		return "/" + oddRests[g.n(len(oddRests))]
	case 5:
		return "//" + g.label(4)
	default:
		k := 1 + g.n(3)
		s := ""
		for i := 0; i < k; i++ {
			s += "/" + g.label(5)
			if g.chance(6) {
				s += g.pick("%", "%41", "%25", "/", " ", "?")
			}
		}
		if g.chance(4) {
			s += "/"
		}
		return s
	}
}

func (g *gen) query() string {
	return g.pick("", "", "", "a=1", "filename=x%20y.txt&download=true", "format=car&dag-scope=entity", "q=a/b?c", "x")
}

func (g *gen) frag() string {
	if g.chance(3) {
		return g.pick("top", "a/b", "L10-L20")
	}
	return ""
}

var hostPool = []string{"dweb.link", "localhost", "example.org", "gw.example.net", "link", "a-b.example", "cf-ipfs.com"}

func (g *gen) config() config {
	var c config
	c.NoDNSLink = g.chance(5)
	used := map[string]bool{}
	k := 1 + g.n(3)
	for i := 0; i < k; i++ {
		h := hostPool[g.n(len(hostPool))]
		switch g.n(8) {
		case 0:
			h = "*." + h
		case 1:
			h += ":" + g.pick("8080", "443")
		}
		if used[h] {
			continue
		}
		used[h] = true
		paths := [][]string{{"/ipfs", "/ipns"}, {"/ipfs", "/ipns"}, {"/ipfs/", "/ipns/"}, {"/ipfs"}, {"/ipfs", "/ipns", "/p2p", "/ipld"}, {"/ipns", "/api/v0"}}[g.n(6)]
		c.Gws = append(c.Gws, gwc{Host: h, Paths: paths, Sub: !g.chance(4), NoDNSLink: g.chance(4), Inline: g.chance(2)})
	}
	return c
}

// a concrete host served by gateway entry gw
func (g *gen) hostOf(gw gwc) string {
	h := gw.Host
	if strings.HasPrefix(h, "*") {
		h = "w" + g.label(5) + h[1:] // never a namespace name
	}
	if !strings.Contains(h, ":") && g.chance(4) {
		h += ":" + g.pick("8080", "80", "1")
	}
	return h
}

type intent struct {
	Gw, Ns, Root, Rest, Query, Frag string
	HTTPS                           bool
}

func (t *intent) coq() string {
	if t == nil {
		return "None"
	}
	return "(Some " + vh.App("Build_intent", str(t.Gw), str(t.Ns), str(t.Root), str(t.Rest), str(t.Query), str(t.Frag), vh.Bool(t.HTTPS)) + ")"
}

type scenario struct {
	cfg    config
	recs   map[string]bool
	first  req
	intent *intent
	ns     []string
	tag    string
}

func isSubNs(ns string) bool { return ns == "ipfs" || ns == "ipns" || ns == "p2p" || ns == "ipld" }

func hasPathPrefix(ns string, paths []string) bool {
	for _, p := range paths {
		if strings.TrimSuffix(p, "/") == "/"+ns {
			return true
		}
	}
	return false
}

func (g *gen) scenario() scenario {
	cfg := g.config()
	sc := scenario{cfg: cfg, recs: map[string]bool{}}
	gw := cfg.Gws[g.n(len(cfg.Gws))]
	ns := g.pick("ipfs", "ipfs", "ipns", "ipns", "ipns", "p2p", "ipld")
	if g.chance(10) {
		ns = g.pick("api", "ipfs2", "ipfsx", "ipn", "")
	}
	sc.ns = []string{ns}
	// the root identifier
	var root, kind string
	switch x := g.n(10); {
	case x < 4:
		root, kind = g.cidText()
	case x < 6 && (ns == "ipns" || ns == "p2p" || g.chance(4)):
		root, kind = g.peerText()
	case x < 6:
		root, kind = g.cidText()
	default:
		root, kind = g.name()
		// DNSLink records for the name in both spellings — the FQDN and its inlined single
		// label — in all four combinations: FQDN only / label only / both / neither
		fq, lab := root, inlineRef(root)
		if !strings.Contains(root, ".") {
			fq, lab = uninlineRef(root), root
		}
		switch g.n(8) {
		case 0, 1, 2:
			sc.recs[fq] = true
		case 3, 4:
			sc.recs[lab] = true
		case 5, 6:
			sc.recs[fq], sc.recs[lab] = true, true
		}
		switch {
		case sc.recs[fq] && sc.recs[lab]:
			kind += "/rec-both"
		case sc.recs[fq]:
			kind += "/rec-fqdn"
		case sc.recs[lab]:
			kind += "/rec-label"
		default:
			kind += "/rec-none"
		}
	}
	rest, query, frag := g.rest(), g.query(), g.frag()
	https := g.chance(3)
	rq := req{HTTPS: https, viaProto: g.chance(2), Query: query, Frag: frag}
	style := g.n(10)
	switch {
	case style < 5: // path request to a gateway host
		host := g.hostOf(gw)
		rq.Host, rq.Path = host, "/"+ns+"/"+root+rest
		if g.chance(6) { // behind a reverse proxy
			rq.XHost, rq.Host = host, g.pick("internal:8080", "10.0.0.1", root+"."+ns+"."+host)
		}
		sc.tag = "path/" + kind
		if hasPathPrefix(ns, gw.Paths) && isSubNs(ns) {
			sc.intent = &intent{Gw: host, Ns: ns, Root: root, Rest: strings.TrimPrefix(rest, "/"), Query: query, Frag: frag, HTTPS: https}
		}
	case style < 8: // subdomain request
		host := g.hostOf(gw)
		label := root
		if strings.Contains(root, ".") && g.chance(2) {
			label = inlineRef(root)
		}
		rq.Host, rq.Path = label+"."+ns+"."+host, rest
		if rest == "" {
			rq.Path = "/"
		}
		if g.chance(8) {
			rq.XHost, rq.Host = rq.Host, g.pick("internal:8080", host)
		}
		sc.tag = "subdomain/" + kind
		if isSubNs(ns) {
			sc.intent = &intent{Gw: host, Ns: ns, Root: label, Rest: strings.TrimPrefix(rq.Path, "/"), Query: query, Frag: frag, HTTPS: https}
		}
	case style < 9: // DNSLink host (a name that is not a gateway), or a gateway host outside its paths
		host := g.fqdn()
		fresh := true
		if !g.chance(4) {
			sc.recs[host] = true
		}
		if g.chance(4) {
			fresh = false
			host = g.hostOf(gw)
			if !g.chance(3) {
				sc.recs[stripPortRef(host)] = true
			}
		}
		rq.Host, rq.Path = host, g.pick("/", "/docs/x", "/ipfs/bafkqaaa", "/index.html")+strings.TrimSuffix(rest, "/")
		if g.chance(3) && !strings.Contains(host, ":") {
			rq.Host += ":8080"
		}
		sc.tag = "dnslink-host"
		if fresh && sc.recs[host] && !cfg.NoDNSLink {
			// an FQDN that is no gateway and has a DNSLink record is served as /ipns/<fqdn>/<path>
			sc.intent = &intent{Ns: "ipns", Root: host, Rest: strings.TrimPrefix(rq.Path, "/"), Query: query, Frag: frag, HTTPS: https}
		}
		sc.ns = []string{"ipfs", "ipns"}
	default: // unknown / odd hosts
		rq.Host = g.pick("127.0.0.1:8080", "ipfs."+gw.Host, "."+ns+"."+gw.Host, ns+"."+gw.Host, "x.y."+ns+".unknown.example", root+"."+ns, "")
		rq.Path = "/" + ns + "/" + root + rest
		sc.tag = "odd-host"
	}
	sc.first = rq
	return sc
}

// runScenario drives the real handler, follows redirects, and renders the case.
func runScenario(sc scenario) (term string, hops []map[string]any, outs []outcome, ok bool) {
	be := &fakeBackend{recs: sc.recs}
	var seen *http.Request
	next := http.HandlerFunc(func(w http.ResponseWriter, r *http.Request) { seen = r })
	h := gateway.NewHostnameHandler(sc.cfg.boxo(), be, next)
	orc := newOracle(sc.recs)
	for _, ns := range sc.ns {
		if ns == "ipns" || ns == "p2p" {
			orc.peer = true
		} else {
			orc.plain = true
		}
	}
	if sc.intent != nil {
		orc.addRoot(sc.intent.Root)
	}
	var hopTerms []string
	rq := sc.first
	for hop := 0; hop < 5; hop++ {
		for _, s := range []string{rq.Host, rq.XHost, rq.Path, rq.Query, rq.Frag} {
			if !printable(s) {
				return "", nil, nil, false
			}
		}
		o := serve(h, &seen, rq)
		for _, s := range []string{o.Host, o.Path, o.Query, o.Frag, o.Ctx} {
			if !printable(s) {
				return "", nil, nil, false
			}
		}
		orc.addHost(rq.Host)
		orc.addHost(rq.XHost)
		orc.addPath(rq.Path)
		if o.Kind == "next" {
			orc.addPath(o.Path)
		}
		if o.Kind == "redirect" {
			orc.addHost(o.Host)
		}
		hopTerms = append(hopTerms, vh.Pair(rq.coq(), o.coq()))
		hops = append(hops, map[string]any{"request": rq, "https_via_proto": rq.viaProto, "answer": o})
		outs = append(outs, o)
		if o.Kind != "redirect" {
			break
		}
		rq = req{Host: o.Host, HTTPS: o.HTTPS, Path: o.Path, Query: o.Query, Frag: o.Frag}
	}
	term = vh.App("CChain", sc.cfg.coq(), orc.coq(), sc.intent.coq(), vh.List(hopTerms))
	return term, hops, outs, true
}

func recList(m map[string]bool) []string {
	var out []string
	for k := range m {
		out = append(out, k)
	}
	sort.Strings(out)
	return out
}

// ---------- corpus ----------
func corpus() []scenario {
	sub := config{Gws: []gwc{{Host: "dweb.link", Paths: []string{"/ipfs", "/ipns"}, Sub: true}}}
	subInline := config{Gws: []gwc{{Host: "dweb.link", Paths: []string{"/ipfs", "/ipns"}, Sub: true, Inline: true}}}
	nested := config{Gws: []gwc{{Host: "link", Paths: []string{"/ipfs"}, Sub: false}, {Host: "dweb.link", Paths: []string{"/ipfs", "/ipns"}, Sub: true}}}
	wild := config{Gws: []gwc{{Host: "*.gw.example.net", Paths: []string{"/ipfs", "/ipns"}, Sub: true}}}
	pathgw := config{Gws: []gwc{{Host: "ipfs.io", Paths: []string{"/ipfs", "/ipns"}}}}
	mk := func(cfg config, recs []string, host, p, q, frag string, https bool, it *intent, ns ...string) scenario {
		m := map[string]bool{}
		for _, r := range recs {
			m[r] = true
		}
		return scenario{cfg: cfg, recs: m, first: req{Host: host, Path: p, Query: q, Frag: frag, HTTPS: https, viaProto: true}, intent: it, ns: ns, tag: "corpus"}
	}
	const v0 = "QmbCMUZw6JFeZ7Wp9jkzbye3Fzp2GGcPgC3nmeUjfVF87n"
	const ed = "12D3KooWFB51PRY9BxcXSH6khFXw1BZeszeLDy7C8GciskqCTZn5"
	const long512 = "bafkrgqe3ohjcjplc6n4f3fwunlj6upltggn7xqujbsvnvyw764srszz4u4rshq6ztos4chl4plgg4ffyyxnayrtdi5oc4xb2332g645433aeg"
	// CID texts exactly at / just above the 63-character limit, found deterministically
	textOfLen := func(cs []uint64, b mbase.Encoding, want int) string {
		for _, codec := range cs {
			for n := 10; n <= 60; n++ {
				for fill := 1; fill < 40; fill++ {
					d := make([]byte, n)
					for i := range d {
						d[i] = byte(fill * (i + 1))
					}
					if t, err := cid.NewCidV1(codec, mkMh(mh.IDENTITY, d)).StringOfBase(b); err == nil && len(t) == want {
						return t
					}
				}
			}
		}
		return "" // this length does not occur in this base (e.g. base36 texts of 1-byte codecs skip 64)
	}
	var boundary []scenario
	for _, bl := range []struct {
		b    mbase.Encoding
		want int
		ns   string
	}{{mbase.Base16, 63, "ipfs"}, {mbase.Base16, 65, "ipfs"}, {mbase.Base58BTC, 63, "ipfs"}, {mbase.Base58BTC, 64, "ipfs"},
		{mbase.Base64url, 63, "ipfs"}, {mbase.Base36, 63, "ipfs"}, {mbase.Base36, 64, "ipfs"}, {mbase.Base36, 63, "ipns"}, {mbase.Base36, 64, "ipns"},
		{mbase.Base32, 62, "ipfs"}, {mbase.Base32, 64, "ipfs"}} {
		cs := []uint64{cid.Raw, cid.DagJSON, cid.DagCBOR}
		if bl.ns == "ipns" {
			cs = []uint64{cid.Libp2pKey, cid.DagJSON}
		}
		t := textOfLen(cs, bl.b, bl.want)
		if t == "" {
			continue
		}
		// as a subdomain label and as a path root
		boundary = append(boundary,
			mk(sub, nil, t+"."+bl.ns+".dweb.link", "/x", "", "", false, &intent{Gw: "dweb.link", Ns: bl.ns, Root: t, Rest: "x"}, bl.ns),
			mk(sub, nil, "dweb.link", "/"+bl.ns+"/"+t+"/x", "", "", false, &intent{Gw: "dweb.link", Ns: bl.ns, Root: t, Rest: "x"}, bl.ns))
	}
	const fq, lab = "my.v-long.example.com", "my-v--long-example-com"
	both := []string{fq, lab}
	// remainders with a literal '%' (sent as %25), an empty segment, dot segments: the redirect keeps them
	var rests []scenario
	for _, rest := range []string{"enc/%41.txt", "sale/100%.txt", "a//b.txt", "x%", "a/../b", "q?r#s/"} {
		rests = append(rests, mk(sub, nil, "dweb.link", "/ipfs/bafkqaaa/"+rest, "", "", false, &intent{Gw: "dweb.link", Ns: "ipfs", Root: "bafkqaaa", Rest: rest}, "ipfs"))
	}
	return append(append(rests, []scenario{
		// FQDN and its inlined label BOTH have a DNSLink record: the FQDN takes precedence in host -> path
		// (https redirect, inlining gateway, direct subdomain request; then label-only / neither)
		mk(sub, both, "dweb.link", "/ipns/"+fq+"/dir/file", "x=1", "", true, &intent{Gw: "dweb.link", Ns: "ipns", Root: fq, Rest: "dir/file", Query: "x=1", HTTPS: true}, "ipns"),
		mk(subInline, both, "dweb.link", "/ipns/"+fq+"/dir/file", "x=1", "", false, &intent{Gw: "dweb.link", Ns: "ipns", Root: fq, Rest: "dir/file", Query: "x=1"}, "ipns"),
		mk(sub, both, lab+".ipns.dweb.link", "/a", "", "", false, &intent{Gw: "dweb.link", Ns: "ipns", Root: lab, Rest: "a"}, "ipns"),
		mk(sub, []string{lab}, lab+".ipns.dweb.link", "/a", "", "", false, &intent{Gw: "dweb.link", Ns: "ipns", Root: lab, Rest: "a"}, "ipns"),
		mk(subInline, []string{lab}, "dweb.link", "/ipns/"+fq+"/a", "", "", false, &intent{Gw: "dweb.link", Ns: "ipns", Root: fq, Rest: "a"}, "ipns"),
		mk(subInline, nil, "dweb.link", "/ipns/"+fq+"/a", "", "", false, &intent{Gw: "dweb.link", Ns: "ipns", Root: fq, Rest: "a"}, "ipns"),
		// the fragment of the request URL (finding C32-1 when it is dropped)
		mk(sub, nil, "dweb.link", "/ipfs/bafkqaaa/a", "x=1", "top", false, &intent{Gw: "dweb.link", Ns: "ipfs", Root: "bafkqaaa", Rest: "a", Query: "x=1", Frag: "top"}, "ipfs"),
		mk(sub, nil, "dweb.link", "/ipfs/"+v0+"/this is ? a file.png", "", "", false, &intent{Gw: "dweb.link", Ns: "ipfs", Root: v0, Rest: "this is ? a file.png"}, "ipfs"),
		mk(sub, nil, "dweb.link", "/ipfs/"+long512, "", "", false, &intent{Gw: "dweb.link", Ns: "ipfs", Root: long512}, "ipfs"),
		mk(sub, nil, "dweb.link:8080", "/ipns/"+ed+"/x", "", "", false, &intent{Gw: "dweb.link:8080", Ns: "ipns", Root: ed, Rest: "x"}, "ipns"),
		mk(sub, nil, "dweb.link", "/ipns/"+v0, "", "", false, &intent{Gw: "dweb.link", Ns: "ipns", Root: v0}, "ipns"),
		mk(sub, []string{"my.v-long.example.com"}, "dweb.link", "/ipns/my.v-long.example.com/p", "", "", true, &intent{Gw: "dweb.link", Ns: "ipns", Root: "my.v-long.example.com", Rest: "p", HTTPS: true}, "ipns"),
		mk(subInline, []string{"en.wikipedia-on-ipfs.org"}, "dweb.link", "/ipns/en.wikipedia-on-ipfs.org/wiki/", "a=1", "", false, &intent{Gw: "dweb.link", Ns: "ipns", Root: "en.wikipedia-on-ipfs.org", Rest: "wiki/", Query: "a=1"}, "ipns"),
		mk(sub, []string{"my.v-long.example.com"}, "dweb.link", "/ipns/my-v--long-example-com", "", "", false, &intent{Gw: "dweb.link", Ns: "ipns", Root: "my-v--long-example-com"}, "ipns"),
		mk(sub, []string{"my.v-long.example.com"}, "my-v--long-example-com.ipns.dweb.link", "/a", "", "", true, &intent{Gw: "dweb.link", Ns: "ipns", Root: "my-v--long-example-com", Rest: "a", HTTPS: true}, "ipns"),
		mk(sub, nil, "no-record-at-all.ipns.dweb.link", "/", "", "", false, &intent{Gw: "dweb.link", Ns: "ipns", Root: "no-record-at-all"}, "ipns"),
		mk(nested, nil, "dweb.link", "/ipfs/bafkqaaa", "", "", false, &intent{Gw: "dweb.link", Ns: "ipfs", Root: "bafkqaaa"}, "ipfs"),
		mk(wild, nil, "abc.gw.example.net:8080", "/ipfs/"+v0+"/", "", "", false, &intent{Gw: "abc.gw.example.net:8080", Ns: "ipfs", Root: v0}, "ipfs"),
		mk(pathgw, nil, "ipfs.io", "/ipfs/"+v0+"/x", "", "", false, &intent{Gw: "ipfs.io", Ns: "ipfs", Root: v0, Rest: "x"}, "ipfs"),
		mk(pathgw, []string{"docs.ipfs.tech"}, "docs.ipfs.tech", "/install/", "", "", false, &intent{Ns: "ipns", Root: "docs.ipfs.tech", Rest: "install/"}, "ipns"),
		mk(sub, nil, "bafybeickencdqw37dpz3ha36ewrh4undfjt2do52chtcky4rxkj447qhdm.ipns.dweb.link", "/", "", "", false, &intent{Gw: "dweb.link", Ns: "ipns", Root: "bafybeickencdqw37dpz3ha36ewrh4undfjt2do52chtcky4rxkj447qhdm"}, "ipns"),
	}...), boundary...)
}

func TestC32(t *testing.T) {
	e := vh.Load(t)
	g := &gen{e: e}
	st := vh.NewStats("request chains through the real NewHostnameHandler (httptest, fake DNSLink backend), redirects followed up to 4 hops; " +
		"roots: CIDv0/v1 x 5 codecs x 6 multibases x identity/sha1/sha2-256/sha2-512 multihashes (text lengths around 63), peer ids in b58 and CID forms, " +
		"valid/inlined/single-label/hostile DNS names; configs: 1-3 gateways, exact/port/wildcard hosts, +-subdomains, +-inlining, +-DNSLink; " +
		"plus direct InlineDNSLink/UninlineDNSLink calls (CStr). non-trivial = a chain whose first answer is a redirect or a rewritten path, " +
		"or a CStr with a '-' or '.'; distinct by rendered case")
	cs := vh.NewCases(e, "From V Require Import model.M_C32.\nOpen Scope string_scope.", "case", "check_case", 200)

	// ---- InlineDNSLink / UninlineDNSLink ----
	strCase := func(s string) {
		if !printable(s) {
			return
		}
		inl, err := gateway.InlineDNSLink(s)
		un, inlT := "", "None"
		if err == nil {
			un = gateway.UninlineDNSLink(inl)
			inlT = "(Some " + str(inl) + ")"
		}
		unS := gateway.UninlineDNSLink(s)
		cs.Add(vh.App("CStr", str(s), inlT, str(un), str(unS)), map[string]any{"kind": "str", "s": s})
		st.Case("S|"+s, strings.ContainsAny(s, "-."))
		st.Count("str")
		if err != nil {
			st.Count("str/too-long")
		}
	}
	for _, s := range []string{"", "a", "-", ".", "--", "a-b", "a--b", "a---b", "a.b", "a.-b", "a-.b", "a..b", "my.v-long.example.com",
		"en.wikipedia-on-ipfs.org", "dnslink-long--name-example-com", strings.Repeat("a", 63), strings.Repeat("a", 64),
		strings.Repeat("a", 61) + ".b", strings.Repeat("a", 62) + ".b", strings.Repeat("a", 60) + "-b", strings.Repeat("a", 61) + "-b",
		strings.Repeat("a-", 21), strings.Repeat("a-", 21) + "b", strings.Repeat("-", 31), strings.Repeat("-", 32), strings.Repeat(".", 63), strings.Repeat(".", 64)} {
		strCase(s)
	}
	nStr := e.Pick(120, 2500)
	for i := 0; i < nStr; i++ {
		var s string
		switch g.n(4) {
		case 0:
			s = g.fqdn()
		case 1: // anything over a small alphabet
			b := make([]byte, g.n(12))
			for j := range b {
				b[j] = "ab-."[g.n(4)]
			}
			s = string(b)
		case 2: // around the limit: length + number of '-' near 63
			n := 55 + g.n(12)
			b := make([]byte, n)
			for j := range b {
				b[j] = "abc-."[g.n(5)]
			}
			s = string(b)
		default:
			s, _ = g.name()
		}
		strCase(s)
	}

	// ---- request chains ----
	n := e.Pick(320, 6000)
	cp := corpus()
	for i := 0; i < n+len(cp); i++ {
		var sc scenario
		if i < len(cp) {
			sc = cp[i]
		} else {
			sc = g.scenario()
		}
		term, hops, outs, ok := runScenario(sc)
		if !ok {
			st.Count("skipped-nonprintable")
			continue
		}
		rp := map[string]any{"kind": "chain", "config": sc.cfg, "dnslink_records": recList(sc.recs), "intent": sc.intent, "hops": hops}
		cs.Add(term, rp)
		first := outs[0]
		nontrivial := first.Kind == "redirect" || (first.Kind == "next" && first.Path != sc.first.Path)
		st.Case(term, nontrivial)
		st.Count("chain/" + sc.tag)
		st.Count(fmt.Sprintf("hops=%d", len(outs)))
		for _, o := range outs {
			st.Count("answer/" + o.Kind)
			if o.Kind == "next" {
				st.Count("next/" + o.K)
			}
		}
		if sc.intent == nil {
			st.Count("no-intent")
		}
		if nontrivial {
			st.Sample(rp, 6)
		}
	}
	cs.Close()
	st.Write(e)
}
