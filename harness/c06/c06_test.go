// Correspondence harness for C06 (chunker): FromString on generated and
// hostile specification strings, and every accepted splitter drained over
// generated inputs under many read fragmentations.  What the real code
// answered is written into cases_*.v and judged inside Coq against the model
// and the specification of model/M_C06.v.  Byte-level losslessness and
// determinism of MiB inputs (too large to write down in Coq) are checked here
// and reported with st.Violate; their chunk-length lists still go through Coq.
package c06

import (
	"bytes"
	"fmt"
	"io"
	"math/bits"
	"math/rand"
	"strconv"
	"strings"
	"testing"

	chunk "github.com/ipfs/boxo/chunker"

	"verif/harness/vh"
)

// ---------- fragmented reader (the Go twin of M_C06.reader) ----------

type frag struct {
	k int  // at most k bytes (0 = zero-length read with nil error)
	e bool // io.EOF together with the last byte
}

type fragReader struct {
	data []byte
	pos  int
	frs  []frag               // explicit script, then ...
	gen  func() (int, bool)   // ... generated entries (nil: fill the whole buffer)
	fi   int
}

func (r *fragReader) Read(p []byte) (int, error) {
	if r.pos >= len(r.data) {
		return 0, io.EOF
	}
	k, e := len(p), false
	if r.fi < len(r.frs) {
		k, e = r.frs[r.fi].k, r.frs[r.fi].e
		r.fi++
	} else if r.gen != nil {
		k, e = r.gen()
	}
	if k > len(p) {
		k = len(p)
	}
	n := copy(p[:k], r.data[r.pos:])
	r.pos += n
	if e && r.pos >= len(r.data) {
		return n, io.EOF
	}
	return n, nil
}

// ---------- what FromString answered ----------

type ires struct {
	kind string // err size rabin buz panic other
	e    string // error class
	a, b uint64
}

func (i ires) coq() string {
	switch i.kind {
	case "err":
		return vh.App("IErr", i.e)
	case "size":
		return vh.App("ISize", strconv.FormatUint(i.a, 10))
	case "rabin":
		return vh.App("IRabin", strconv.FormatUint(i.a, 10), strconv.FormatUint(i.b, 10))
	case "buz":
		return "IBuz"
	case "panic":
		return "IPanic"
	}
	return "IOther"
}
func (i ires) String() string { return fmt.Sprintf("%s %s %d %d", i.kind, i.e, i.a, i.b) }

func fromString(r io.Reader, spec string) (s chunk.Splitter, res ires) {
	defer func() {
		if p := recover(); p != nil {
			s, res = nil, ires{kind: "panic"}
		}
	}()
	s, err := chunk.FromString(r, spec)
	if err != nil {
		cls := "EOther"
		switch err {
		case chunk.ErrSize:
			cls = "ESize"
		case chunk.ErrSizeMax:
			cls = "ESizeMax"
		case chunk.ErrRabinMin:
			cls = "ERabinMin"
		}
		return nil, ires{kind: "err", e: cls}
	}
	kind, a, b := chunk.VerifSplitterParams(s)
	switch kind {
	case "size":
		return s, ires{kind: "size", a: a}
	case "rabin":
		return s, ires{kind: "rabin", a: a, b: b}
	case "buzhash":
		return s, ires{kind: "buz"}
	}
	return s, ires{kind: "other"}
}

func specCoq(s string) string {
	if lit, ok := vh.Str(s); ok {
		return vh.App("bos", lit)
	}
	return bytesCoq([]byte(s))
}

func bytesCoq(b []byte) string {
	if len(b) == 0 {
		return "[]"
	}
	var sb strings.Builder
	sb.WriteString("[")
	for i, x := range b {
		if i > 0 {
			sb.WriteString(";")
		}
		sb.WriteString(strconv.Itoa(int(x)))
	}
	sb.WriteString("]%N")
	return sb.String()
}

func lensCoq(ls []int) string {
	if len(ls) == 0 {
		return "[]"
	}
	var sb strings.Builder
	sb.WriteString("[")
	for i, x := range ls {
		if i > 0 {
			sb.WriteString(";")
		}
		sb.WriteString(strconv.Itoa(x))
	}
	sb.WriteString("]%N")
	return sb.String()
}

// drain runs the splitter to EOF. ok=false: it did not finish within the chunk
// budget (empty chunks / no progress) or returned an unexpected error.
func drain(s chunk.Splitter, total int) (out [][]byte, why string) {
	budget := total + 3
	for n := 0; ; n++ {
		if n > budget {
			return out, "no termination: more chunks than input bytes"
		}
		b, err := s.NextBytes()
		if err == io.EOF {
			return out, ""
		}
		if err != nil {
			return out, "unexpected error class from NextBytes"
		}
		out = append(out, b)
	}
}

func drainSafe(s chunk.Splitter, total int) (out [][]byte, why string) {
	defer func() {
		if p := recover(); p != nil {
			why = "panic in NextBytes"
		}
	}()
	return drain(s, total)
}

func lensOf(cs [][]byte) []int {
	ls := make([]int, len(cs))
	for i, c := range cs {
		ls[i] = len(c)
	}
	return ls
}

// ---------- buzhash helpers of the harness (used to BUILD inputs and to search
// for suspicious windows; the judgement is made in Coq) ----------

var (
	buzTab            [256]uint32
	buzMin, buzMax    int
	buzMask           uint32
)

func winHash(w []byte) uint32 {
	var s uint32
	for _, b := range w {
		s = bits.RotateLeft32(s, 1) ^ buzTab[b]
	}
	return s
}

// zeroWindow finds 32 random bytes whose hash is zero under the mask.
func zeroWindow(r *rand.Rand) []byte {
	w := make([]byte, 32)
	for {
		r.Read(w)
		if winHash(w)&buzMask == 0 {
			return append([]byte(nil), w...)
		}
	}
}

// fillerByte returns a byte whose constant window hashes to non-zero (cut=false)
// or zero (cut=true) under the mask.
func fillerByte(r *rand.Rand, cut bool) byte {
	for {
		b := byte(r.Intn(256))
		w := bytes.Repeat([]byte{b}, 32)
		if (winHash(w)&buzMask == 0) == cut {
			return b
		}
	}
}

// ---------- segment data (M_C06.data) ----------

type seg struct {
	run bool
	b   byte
	n   int
	lit []byte
}

func segsBytes(ss []seg) []byte {
	var out []byte
	for _, s := range ss {
		if s.run {
			out = append(out, bytes.Repeat([]byte{s.b}, s.n)...)
		} else {
			out = append(out, s.lit...)
		}
	}
	return out
}
func segsCoq(ss []seg) string {
	return vh.App("DSegs", vh.ListOf(ss, func(s seg) string {
		if s.run {
			return vh.App("Run", strconv.Itoa(int(s.b))+"%N", strconv.Itoa(s.n)+"%N")
		}
		return vh.App("Lit", bytesCoq(s.lit))
	}))
}

// ---------- case collection (heavy cases are spread over the shards) ----------

type pending struct {
	term   string
	replay any
	heavy  bool
}

// ---------- generators ----------

var sizeBoundaries = []int64{-1, 0, 1, 2, 15, 16, 17, 31, 32, 33, 47, 48, 49, 50, 63, 64, 255, 256, 1000, 4096, 65535, 65536,
	131071, 131072, 262144, 524288, 1048576, 1397930, 1397931, 1397932, 1398016, 2096895, 2096896, 2096897, 2097152, 4194304,
	4294967295, 4294967296, 4294967297, 6148914691236517205, 7000000000000000000, 9223372036854775807}

func genInt(r *rand.Rand) string {
	switch r.Intn(12) {
	case 0, 1, 2, 3:
		return strconv.FormatInt(sizeBoundaries[r.Intn(len(sizeBoundaries))], 10)
	case 4, 5:
		return strconv.Itoa(r.Intn(200))
	case 6:
		return strconv.Itoa(r.Intn(3000000))
	case 7:
		return "+" + strconv.Itoa(r.Intn(3000))
	case 8:
		return strings.Repeat("0", r.Intn(22)) + strconv.Itoa(r.Intn(100000))
	case 9:
		return []string{"9223372036854775808", "18446744073709551616", "99999999999999999999", "", "+", "0x10", "1_0", "1e3", " 5", "5 ", "٣"}[r.Intn(11)]
	case 10:
		return strconv.FormatInt(r.Int63(), 10)
	}
	return strconv.Itoa(1 << uint(r.Intn(23)))
}

func genSpec(r *rand.Rand) string {
	switch r.Intn(16) {
	case 0, 1, 2:
		return "size-" + genInt(r)
	case 3, 4, 5:
		return "rabin-" + genInt(r)
	case 6, 7, 8, 9:
		// 4-part rabin, mostly ordered, boundaries around 16 and the limit
		mn := []int{14, 15, 16, 17, 18, 32, 100, 87381, 262144, 2096894}[r.Intn(10)]
		avg := mn + []int{-1, 0, 1, 2, 16, 1000, 100000}[r.Intn(7)]
		mx := avg + []int{-1, 0, 1, 2, 16, 1000, 2000000}[r.Intn(7)]
		if r.Intn(5) == 0 {
			mx = []int{2096895, 2096896, 2096897}[r.Intn(3)]
		}
		lab := func(l string, v int) string {
			switch r.Intn(6) {
			case 0:
				return l + ":" + strconv.Itoa(v)
			case 1:
				return []string{"min", "avg", "max", "x", ""}[r.Intn(5)] + ":" + strconv.Itoa(v)
			case 2:
				return l + ":junk:" + strconv.Itoa(v)
			}
			return strconv.Itoa(v)
		}
		s := "rabin-" + lab("min", mn) + "-" + lab("avg", avg) + "-" + lab("max", mx)
		if r.Intn(12) == 0 {
			s = "rabin-" + genInt(r) + "-" + genInt(r) + "-" + genInt(r)
		}
		return s
	case 10:
		return []string{"", "default", "buzhash", "rabin", "size", "buzhash-", "buzhash-1-2", "rabin-", "size-", "default-", "Default",
			"buzhashx", "sizes-5", "rabin-1-2", "rabin-1-2-3-4", "size-5-6", "-", "--", "size--5", "rabin--5", "rabin-16-32-64-",
			"rabin-min:16-avg:32-max:64", "rabin-min:16:32-avg:33-max:64", "rabin-:16-:32-:64", "rabin-max:16-avg:32-min:64"}[r.Intn(25)]
	}
	// hostile: mutate a valid string
	base := []byte([]string{"size-262144", "rabin-262144", "rabin-16-32-64", "rabin-min:128-avg:256-max:512", "buzhash", "default"}[r.Intn(6)])
	for m := 1 + r.Intn(3); m > 0; m-- {
		pos := r.Intn(len(base) + 1)
		switch r.Intn(4) {
		case 0:
			c := []byte("-:+0159 _x\x00\xff")[r.Intn(12)]
			base = append(base[:pos], append([]byte{c}, base[pos:]...)...)
		case 1:
			if pos < len(base) {
				base = append(base[:pos], base[pos+1:]...)
			}
		case 2:
			if pos < len(base) {
				base[pos] = byte(r.Intn(256))
			}
		case 3:
			if pos < len(base) {
				base[pos] = []byte("-:0123456789")[r.Intn(12)]
			}
		}
	}
	return string(base)
}

// explicit fragment script for a small input
func genFrags(r *rand.Rand, total int) []frag {
	var frs []frag
	switch r.Intn(6) {
	case 0: // no script: whole-buffer reads
	case 1: // 1-byte reads
		for i := 0; i < total+2; i++ {
			frs = append(frs, frag{1, r.Intn(4) == 0})
		}
	case 2: // short reads incl. zero-length
		for i := 0; i < total+4; i++ {
			frs = append(frs, frag{r.Intn(5), r.Intn(2) == 0})
		}
	case 3: // a few larger reads, EOF with data
		for i := 0; i < 6; i++ {
			frs = append(frs, frag{1 + r.Intn(total+2), true})
		}
	default:
		for i, n := 0, r.Intn(total+3); i < n; i++ {
			frs = append(frs, frag{r.Intn(40), r.Intn(3) == 0})
		}
	}
	return frs
}

func fragsCoq(frs []frag) string {
	if len(frs) == 0 {
		return "[]"
	}
	var sb strings.Builder
	sb.WriteString("[")
	for i, f := range frs {
		if i > 0 {
			sb.WriteString(";")
		}
		fmt.Fprintf(&sb, "(%d,%s)", f.k, vh.Bool(f.e))
	}
	sb.WriteString("]%N")
	return sb.String()
}

// generated fragmentation for a large input
func bigFragGen(mode int, seed int64) (string, func() (int, bool)) {
	r := rand.New(rand.NewSource(seed))
	switch mode {
	case 0:
		return "whole", nil
	case 1:
		return "1-byte", func() (int, bool) { return 1, false }
	case 2:
		return "1-byte+eof", func() (int, bool) { return 1, true }
	case 3:
		return "short(0..7)", func() (int, bool) { return r.Intn(8), r.Intn(2) == 0 }
	case 4:
		return "medium(1..4096)", func() (int, bool) { return 1 + r.Intn(4096), true }
	case 5:
		return "large(1..400000)", func() (int, bool) { return 1 + r.Intn(400000), r.Intn(2) == 0 }
	case 6:
		return "pow2-ish", func() (int, bool) { return 1 << uint(r.Intn(20)), true }
	}
	return "mixed", func() (int, bool) {
		if r.Intn(3) == 0 {
			return r.Intn(3), false
		}
		return 1 + r.Intn(200000), r.Intn(2) == 0
	}
}

func genData(r *rand.Rand, kind string, n int) []byte {
	d := make([]byte, n)
	switch kind {
	case "random":
		r.Read(d)
	case "constant":
		b := byte(r.Intn(256))
		for i := range d {
			d[i] = b
		}
	case "periodic":
		p := make([]byte, 1+r.Intn(97))
		r.Read(p)
		for i := range d {
			d[i] = p[i%len(p)]
		}
	case "lowentropy":
		for i := range d {
			d[i] = byte(r.Intn(3))
		}
	}
	return d
}

func TestC06(t *testing.T) {
	e := vh.Load(t)
	r := e.Rng
	buzTab = chunk.VerifBuzhashTable()
	buzMin, buzMax, buzMask = chunk.VerifBuzhashParams()

	st := vh.NewStats("FromString on corpus/boundary/hostile spec strings (CParse); accepted splitters drained on small inputs under explicit " +
		"read scripts with full chunk bytes (CBytes) and on inputs up to 4 MiB (random/constant/periodic/crafted buzhash windows) under 4-8 " +
		"fragmentations each, chunk-length lists (CLens); 32-byte windows at and before real buzhash cuts (CBuzWin). " +
		"non-trivial = a parse case whose string has a registered name and at least one parameter, or a drain producing >= 2 chunks; distinct by (spec, data id, fragmentation)")
	var all []pending
	add := func(term string, replay any, heavy bool) { all = append(all, pending{term, replay, heavy}) }

	// --- constants and table of the implementation
	tab := make([]string, 256)
	for i, v := range buzTab {
		tab[i] = strconv.FormatUint(uint64(v), 10)
	}
	add(vh.App("CConsts", strconv.Itoa(buzMin), strconv.Itoa(buzMax), strconv.FormatUint(uint64(buzMask), 10),
		"["+strings.Join(tab, ";")+"]%N", strconv.Itoa(chunk.ChunkSizeLimit), strconv.FormatInt(chunk.DefaultBlockSize, 10)),
		map[string]any{"kind": "consts"}, false)
	st.Case("consts", true)

	// --- 1. parser
	parseCase := func(spec string) {
		_, res := fromString(bytes.NewReader(nil), spec)
		add(vh.App("CParse", specCoq(spec), res.coq()), map[string]any{"kind": "parse", "spec": spec, "result": res.String()}, false)
		name, _, _ := strings.Cut(spec, "-")
		st.Case("P|"+spec, (name == "size" || name == "rabin" || name == "buzhash") && strings.Contains(spec, "-"))
		st.Count("parse:" + res.kind + res.e)
		st.Sample(map[string]any{"kind": "parse", "spec": spec, "result": res.String()}, 2)
	}
	corpus := []string{"rabin-47", "rabin-0", "rabin-7000000000000000000", "rabin-9223372036854775807", "rabin-48", "rabin-49", "rabin-46",
		"rabin-1", "rabin-15", "rabin-16", "rabin-45", "rabin-+47", "rabin-047", "rabin-+48",
		"rabin-6148914691236517205", "rabin-6200000000000000000", "rabin-6000000000000000000", "rabin-2096896", "rabin-2096897",
		"rabin-1397930", "rabin-1397931", "rabin-1397932", "rabin-1398016", "rabin-4194304",
		"size-0", "size-1", "size--1", "size-2096896", "size-2096897", "size-+5", "size-05", "size-4294967296", "size-4294967297",
		"size-9223372036854775807", "size-9223372036854775808", "size-123-extra", "size",
		"rabin-15-23-31", "rabin-16-17-18", "rabin-16-16-18", "rabin-16-17-17", "rabin-18-25-32", "rabin-20-20-21", "rabin-19-21-21",
		"rabin-19-21-2096896", "rabin-19-21-2096897", "rabin-min:16-avg:17-max:18", "rabin-min:x:16-avg:17-max:18", "rabin-x:16-17-18",
		"rabin-16-x:17-18", "rabin-16-17-x:18", "rabin-avg:16-17-18", "rabin-min:-avg:17-max:18", "rabin-16-17", "rabin-1-2-3-4",
		"", "default", "buzhash", "buzhash-xyz", "buzhashx", "default-1", "unknown-chunker", "rabin", "Rabin", "rabin-", "rabin-99999999999999999999"}
	for _, s := range corpus {
		parseCase(s)
	}
	for _, n := range sizeBoundaries {
		parseCase("size-" + strconv.FormatInt(n, 10))
		parseCase("rabin-" + strconv.FormatInt(n, 10))
	}
	for i, n := 0, e.Pick(2500, 30000); i < n; i++ {
		parseCase(genSpec(r))
	}

	// --- 2. small inputs, full bytes, explicit read scripts
	smallSpecs := func() string {
		switch r.Intn(10) {
		case 0, 1, 2, 3:
			return "size-" + strconv.Itoa(1+r.Intn(40))
		case 4:
			return "size-" + strconv.Itoa([]int{1, 2, 255, 256, 257, 300, 2096896}[r.Intn(7)])
		case 5, 6:
			mn := 16 + r.Intn(20)
			avg := mn + 1 + r.Intn(40)
			return fmt.Sprintf("rabin-%d-%d-%d", mn, avg, avg+1+r.Intn(60))
		case 7:
			return "rabin-" + strconv.Itoa(48+r.Intn(100))
		case 8:
			return []string{"buzhash", "", "default", "rabin"}[r.Intn(4)]
		}
		return "rabin-" + strconv.Itoa(r.Intn(48)) // the C06-1 family (rejected once repaired)
	}
	bytesCase := func(spec string, data []byte, frs []frag) {
		rd := &fragReader{data: data, frs: frs}
		s, res := fromString(rd, spec)
		rp := map[string]any{"kind": "bytes", "spec": spec, "data": data, "frags": fmt.Sprint(frs), "result": res.String()}
		if s == nil {
			add(vh.App("CParse", specCoq(spec), res.coq()), rp, false)
			st.Case("P|"+spec, false)
			return
		}
		out, why := drainSafe(s, len(data))
		if why != "" {
			st.Violate("draining "+spec+": "+why, "", rp)
			return
		}
		add(vh.App("CBytes", specCoq(spec), res.coq(), bytesCoq(data), fragsCoq(frs),
			vh.ListOf(out, func(c []byte) string { return bytesCoq(c) })), rp, false)
		st.Case(fmt.Sprintf("B|%s|%x|%v", spec, data, frs), len(out) >= 2)
		st.Count("bytes:" + res.kind)
		st.Count(fmt.Sprintf("bytes-chunks:%s", bucket(len(out))))
		st.Sample(rp, 4)
	}
	bytesCase("size-3", []byte{1, 2, 3, 4, 5, 6, 7}, []frag{{1, false}, {0, false}, {5, true}})
	bytesCase("size-3", []byte{1, 2, 3, 4, 5, 6}, []frag{{6, true}})
	bytesCase("size-1", []byte{9, 8, 7}, nil)
	bytesCase("size-5", nil, nil)
	bytesCase("buzhash", nil, nil)
	bytesCase("rabin-16-32-64", nil, nil)
	bytesCase("rabin-47", bytes.Repeat([]byte{0}, 200), nil)
	for i, n := 0, e.Pick(600, 9000); i < n; i++ {
		ln := r.Intn(260)
		if r.Intn(6) == 0 {
			ln = r.Intn(4)
		}
		kind := []string{"random", "constant", "periodic", "lowentropy"}[r.Intn(4)]
		data := genData(r, kind, ln)
		spec := smallSpecs()
		if i%2 == 0 && strings.HasPrefix(spec, "size-") && ln > 0 {
			// input length around a multiple of the size
			sz, _ := strconv.Atoi(spec[5:])
			if sz < 100 {
				ln = sz*(1+r.Intn(4)) + r.Intn(3) - 1
				data = genData(r, kind, ln)
			}
		}
		bytesCase(spec, data, genFrags(r, ln))
	}

	// --- 3. large inputs, chunk-length lists under several fragmentations
	lensCase := func(spec string, id string, data []byte, dcoq string, heavy bool, nfr int) [][]byte {
		var runs [][]int
		var first [][]byte
		var res0 ires
		var modes []string
		for k := 0; k < nfr; k++ {
			mode := k
			if k >= 3 {
				mode = 3 + r.Intn(5)
			}
			name, gen := bigFragGen(mode, r.Int63())
			rd := &fragReader{data: data, gen: gen}
			s, res := fromString(rd, spec)
			rp := map[string]any{"kind": "lens", "spec": spec, "data": id, "frag": name, "result": res.String()}
			if s == nil {
				add(vh.App("CParse", specCoq(spec), res.coq()), rp, false)
				st.Case("P|"+spec, false)
				return nil
			}
			out, why := drainSafe(s, len(data))
			if why != "" {
				st.Violate("draining "+spec+" on "+id+" ("+name+"): "+why, "", rp)
				return nil
			}
			// byte-level oracle (the payload does not go through Coq)
			if !bytes.Equal(bytes.Join(out, nil), data) {
				st.Violate("chunks of "+spec+" on "+id+" ("+name+") do not concatenate to the input", "", rp)
			}
			if k == 0 {
				first, res0 = out, res
			} else if res != res0 {
				st.Violate("FromString("+spec+") is not a function of the string", "", rp)
			}
			runs = append(runs, lensOf(out))
			modes = append(modes, name)
		}
		rp := map[string]any{"kind": "lens", "spec": spec, "data": id, "frags": modes, "result": res0.String(), "lens": clip(runs[0], 12)}
		add(vh.App("CLens", specCoq(spec), res0.coq(), dcoq, vh.ListOf(runs, lensCoq)), rp, heavy)
		st.Case(fmt.Sprintf("L|%s|%s|%v", spec, id, modes), len(runs[0]) >= 2)
		st.Count("lens:" + res0.kind)
		st.Count("lens-chunks:" + bucket(len(runs[0])))
		st.Sample(rp, 6)
		return first
	}
	dlen := func(n int) string { return vh.App("DLen", strconv.Itoa(n)+"%N") }

	// finding witnesses first (C06-1: 4 MB through rabin-47 / rabin-0)
	zeros4 := make([]byte, 4000000)
	lensCase("rabin-47", "zeros:4000000", zeros4, dlen(len(zeros4)), false, 2)
	lensCase("rabin-0", "zeros:4000000", zeros4, dlen(len(zeros4)), false, 2)

	bigSpec := func(total int) string {
		switch r.Intn(12) {
		case 0, 1:
			// keep the number of chunks moderate
			lo := total/1500 + 1
			return "size-" + strconv.Itoa(lo+r.Intn(300000))
		case 2:
			return "size-" + strconv.Itoa([]int{262144, 2096896, 1048576, 65536}[r.Intn(4)])
		case 3:
			return []string{"", "default"}[r.Intn(2)]
		case 4, 5:
			return "buzhash"
		case 6:
			return "rabin"
		case 7:
			return "rabin-" + strconv.Itoa(total/1000+48+r.Intn(1397000))
		case 8:
			return "rabin-" + strconv.Itoa([]int{1397931, 1397930, 262144, 16384}[r.Intn(4)])
		case 9:
			mn := total/1500 + 16 + r.Intn(100000)
			avg := mn + 1 + r.Intn(200000)
			return fmt.Sprintf("rabin-%d-%d-%d", mn, avg, avg+1+r.Intn(1000000))
		case 10:
			return fmt.Sprintf("rabin-min:%d-avg:%d-max:%d", 2096894, 2096895, 2096896)
		}
		return "rabin-" + strconv.Itoa(total/1000+48+r.Intn(3000))
	}
	buzWindows := func(id string, data []byte, out [][]byte) {
		off := 0
		for ci, c := range out {
			L := len(c)
			last := ci == len(out)-1
			emit := func(p int, z bool) { // window ending at chunk position p
				w := data[off+p-32 : off+p]
				add(vh.App("CBuzWin", bytesCoq(w), vh.Bool(z)), map[string]any{"kind": "buzwin", "data": id, "chunk": ci, "pos": p, "cut": z}, false)
				st.Case(fmt.Sprintf("W|%x|%v", w, z), true)
				st.Count("buzwin:" + vh.Bool(z))
			}
			if L >= buzMin && L <= buzMax {
				if !last && L < buzMax {
					emit(L, true)
				}
				if L > buzMin {
					emit(L-1, false)
					emit(buzMin+r.Intn(L-buzMin), false)
				}
				// search every earlier admissible position for a window the implementation should have cut at
				for p := buzMin; p < L; p++ {
					if winHash(data[off+p-32:off+p])&buzMask == 0 {
						emit(p, false)
						break
					}
				}
			}
			off += L
		}
	}
	for i, n := 0, e.Pick(36, 320); i < n; i++ {
		total := []int{0, 1, buzMin - 1, buzMin, buzMin + 1, buzMax - 1, buzMax, buzMax + 1, 262144, 262145, 1 << 20, 2096896, 2096897, 3 << 20, 4 << 20}[r.Intn(15)]
		if r.Intn(2) == 0 {
			total = r.Intn(3 << 20)
		}
		kind := []string{"random", "random", "constant", "periodic", "lowentropy"}[r.Intn(5)]
		seed := r.Int63()
		data := genData(rand.New(rand.NewSource(seed)), kind, total)
		id := fmt.Sprintf("%s:%d:seed=%d", kind, total, seed)
		spec := bigSpec(total)
		if i < 8 {
			spec = []string{"buzhash", "size-262144", "rabin", "rabin-16-32-2096896", "buzhash", "", "rabin-48", "buzhash"}[i]
			if spec == "rabin-48" || spec == "rabin-16-32-2096896" {
				total = 40000 + r.Intn(1000)
				data = genData(rand.New(rand.NewSource(seed)), kind, total)
				id = fmt.Sprintf("%s:%d:seed=%d", kind, total, seed)
			}
		}
		out := lensCase(spec, id, data, dlen(total), false, e.Pick(4, 8))
		if spec == "buzhash" && out != nil {
			buzWindows(id, data, out)
		}
	}

	// --- 4. crafted buzhash inputs at the real parameters, evaluated by the model inside Coq
	nocut := fillerByte(r, false)
	cut := fillerByte(r, true)
	run := func(b byte, n int) seg { return seg{run: true, b: b, n: n} }
	lit := func(w []byte) seg { return seg{lit: w} }
	crafted := [][]seg{
		{run(nocut, buzMin-32), lit(zeroWindow(r)), run(nocut, 5000)},                                   // cut exactly at min
		{run(nocut, buzMin-33), lit(zeroWindow(r)), run(nocut, 700), lit(zeroWindow(r)), run(nocut, 9)}, // window ending at min-1 is ignored
		{run(nocut, buzMin-31), lit(zeroWindow(r)), run(nocut, buzMin-32+3), lit(zeroWindow(r)), run(nocut, 40)}, // cut at min+1, then again in the carried-over part
		{run(nocut, buzMin-1)},
		{run(nocut, buzMin)},
		{run(nocut, buzMin+1)},
		{run(cut, buzMin*2+77)},                                                                         // every window cuts: chunks of exactly min
		{run(nocut, buzMin+200), lit(zeroWindow(r))},                                                    // hit exactly at end of input
		{run(nocut, buzMin+1000), lit(zeroWindow(r)[:31])},
	}
	// the forced cut at max costs ~400k hash steps inside Coq: always in the thorough tier, one run in three in the quick tier
	maxCases := [][]seg{
		{run(nocut, buzMax-32), lit(zeroWindow(r)), run(nocut, buzMin-32), lit(zeroWindow(r)), run(nocut, 100)}, // forced at max although a window ends there
		{run(nocut, buzMax-33), lit(zeroWindow(r)), run(nocut, 1000)},                                            // cut at max-1
	}
	if !e.Thorough() {
		// quick tier: the three boundary inputs plus three of the others
		rest := crafted[3:]
		r.Shuffle(len(rest), func(i, j int) { rest[i], rest[j] = rest[j], rest[i] })
		crafted = crafted[:6]
		if r.Intn(3) == 0 {
			crafted = append(crafted, maxCases[r.Intn(2)])
		}
	} else {
		crafted = append(crafted, maxCases...)
	}
	for k := 0; k < e.Pick(1, 30); k++ {
		// random placement of 1..3 windows shortly after min
		var ss []seg
		ss = append(ss, run(nocut, buzMin-32+r.Intn(1500)))
		for j, m := 0, 1+r.Intn(3); j < m; j++ {
			ss = append(ss, lit(zeroWindow(r)))
			if r.Intn(2) == 0 {
				ss = append(ss, run(byte(r.Intn(256)), r.Intn(300)))
			} else {
				ss = append(ss, run(nocut, buzMin-32+r.Intn(1500)))
			}
		}
		crafted = append(crafted, ss)
	}
	for ci, ss := range crafted {
		data := segsBytes(ss)
		id := fmt.Sprintf("crafted#%d:%d", ci, len(data))
		lensCase("buzhash", id, data, segsCoq(ss), true, e.Pick(4, 8))
	}

	// --- emit: heavy cases (model evaluation at the real buzhash parameters) are
	// spread one per shard, the shards are evaluated in parallel by the driver
	var heavy, light []pending
	for _, p := range all {
		if p.heavy {
			heavy = append(heavy, p)
		} else {
			light = append(light, p)
		}
	}
	nsh := (len(all) + 199) / 200
	if nsh < len(heavy) {
		nsh = len(heavy)
	}
	shard := (len(all) + nsh - 1) / nsh
	cs := vh.NewCases(e, "From V Require Import model.M_C06.", "case", "check_case", shard)
	li := 0
	for s := 0; s < nsh; s++ {
		k := 0
		if len(heavy) > 0 {
			cs.Add(heavy[0].term, heavy[0].replay)
			heavy = heavy[1:]
			k++
		}
		for ; k < shard && li < len(light); k++ {
			cs.Add(light[li].term, light[li].replay)
			li++
		}
	}
	cs.Close()
	st.Write(e)
}

func bucket(n int) string {
	switch {
	case n == 0:
		return "0"
	case n == 1:
		return "1"
	case n <= 4:
		return "2-4"
	case n <= 32:
		return "5-32"
	}
	return ">32"
}

func clip(ls []int, n int) []int {
	if len(ls) > n {
		return ls[:n]
	}
	return ls
}
