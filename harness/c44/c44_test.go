// Correspondence harness for C44 (provider.Reprovide and NewPrioritizedProvider):
// the real reprovider is run once per generated (configuration, key stream) with a
// recording router; the batches it handed to the router and whether it terminated are
// written into cases_*.v and judged inside Coq against the model (model/M_C44.v) and
// the specification of the property.
package c44

import (
	"context"
	"errors"
	"fmt"
	"math"
	"sort"
	"sync"
	"testing"
	"time"

	"github.com/ipfs/boxo/provider"
	"github.com/ipfs/go-cid"
	"github.com/ipfs/go-datastore"
	dssync "github.com/ipfs/go-datastore/sync"
	mh "github.com/multiformats/go-multihash"

	"verif/harness/vh"
)

// pool of multihashes: ids 1..nGood allowed (sha2-256), the rest rejected by the default allowlist
const nGood = 10

var (
	pool   []mh.Multihash // index = id-1
	badIDs []uint64
	idOf   = map[string]uint64{}
)

func init() {
	for i := 0; i < nGood; i++ {
		h, err := mh.Sum([]byte{byte(i), 0x42}, mh.SHA2_256, -1)
		if err != nil {
			panic(err)
		}
		pool = append(pool, h)
	}
	mk := func(code uint64, length int) {
		h, err := mh.Sum([]byte{byte(len(pool)), 0x43}, code, length)
		if err != nil {
			panic(fmt.Sprintf("%x: %v", code, err))
		}
		pool = append(pool, h)
		badIDs = append(badIDs, uint64(len(pool)))
	}
	mk(mh.BLAKE2B_MIN+7, -1) // blake2b-64: below the allowed blake2b range
	mk(mh.MURMUR3X64_64, -1) // not in the allowlist
	mk(mh.SHA2_256, 10)      // allowed function, digest shorter than the minimum of 20
	mk(mh.MD5, -1)           // not in the allowlist
	for i, h := range pool {
		idOf[string(h)] = uint64(i + 1)
	}
}

type key struct {
	tag uint64 // 0 = CIDv0, 1 = CIDv1 raw, 2 = CIDv1 dag-pb
	id  uint64
}

func (k key) cid() cid.Cid {
	h := pool[k.id-1]
	switch k.tag {
	case 0:
		return cid.NewCidV0(h)
	case 1:
		return cid.NewCidV1(cid.Raw, h)
	}
	return cid.NewCidV1(cid.DagProtobuf, h)
}
func (k key) coq() string { return "(" + vh.N(k.tag) + ", " + vh.N(k.id) + ")" }

func genKey(e *vh.Env, badShare int) key {
	if e.Rng.Intn(100) < badShare {
		return key{tag: 1 + uint64(e.Rng.Intn(2)), id: badIDs[e.Rng.Intn(len(badIDs))]}
	}
	return key{tag: uint64(e.Rng.Intn(3)), id: 1 + uint64(e.Rng.Intn(nGood))}
}

func genStream(e *vh.Env, maxLen int) []key {
	n := e.Rng.Intn(maxLen + 1)
	if e.Rng.Intn(6) == 0 {
		n = e.Rng.Intn(4)
	}
	bad := []int{0, 10, 30, 100}[e.Rng.Intn(4)]
	s := make([]key, n)
	for i := range s {
		s[i] = genKey(e, bad)
		if i > 0 && e.Rng.Intn(5) == 0 {
			s[i] = s[e.Rng.Intn(i)] // duplicates
		}
	}
	return s
}

func keysCoq(s []key) string { return vh.ListOf(s, key.coq) }

// ---- recording routers ----
// A call whose index (0-based, in arrival order) is in fail is recorded and then answered with an
// error: a router fault. The reprovider only logs it, so the calls it makes must not depend on it.
type manyRouter struct {
	mu      sync.Mutex
	batches [][]uint64
	fail    map[int]bool
}

var errRouter = errors.New("router fault")

func (r *manyRouter) verdict() error {
	if r.fail[len(r.batches)-1] {
		return errRouter
	}
	return nil
}

func (r *manyRouter) Provide(ctx context.Context, c cid.Cid, _ bool) error {
	r.mu.Lock()
	defer r.mu.Unlock()
	r.batches = append(r.batches, []uint64{idOf[string(c.Hash())]})
	return r.verdict()
}
func (r *manyRouter) ProvideMany(ctx context.Context, keys []mh.Multihash) error {
	r.mu.Lock()
	defer r.mu.Unlock()
	b := make([]uint64, len(keys))
	for i, k := range keys {
		b[i] = idOf[string(k)]
	}
	sort.Slice(b, func(i, j int) bool { return b[i] < b[j] })
	r.batches = append(r.batches, b)
	return r.verdict()
}

type singleRouter struct{ m *manyRouter }

func (r singleRouter) Provide(ctx context.Context, c cid.Cid, a bool) error {
	return r.m.Provide(ctx, c, a)
}

type config struct {
	maxBatch    uint64 // math.MaxUint64 = option not given
	setMax      bool
	provideMany bool
	hasCb       bool
	minProvides uint64
}

func (c config) coq() string {
	mb := "18446744073709551615"
	if c.setMax {
		mb = vh.ZU(c.maxBatch)
	}
	return fmt.Sprintf("{| max_batch := %s; provide_many := %s; has_cb := %s; min_provides := %s |}",
		mb, vh.Bool(c.provideMany), vh.Bool(c.hasCb), vh.ZU(c.minProvides))
}

// effective batch size as the options combine (only used to pick a short watchdog
// for configurations that cannot make progress before the repair)
func (c config) effective() uint64 {
	b := uint64(math.MaxUint64)
	if c.setMax {
		b = c.maxBatch
	}
	if !c.provideMany {
		b = 1
	}
	if c.hasCb && c.minProvides < b {
		b = c.minProvides
	}
	return b
}

func runReprovide(t *testing.T, c config, stream []key, fail map[int]bool) (terminated bool, batches [][]uint64) {
	rec := &manyRouter{fail: fail}
	var router provider.Provide = rec
	if !c.provideMany {
		router = singleRouter{rec}
	}
	opts := []provider.Option{
		provider.Online(router),
		provider.ReproviderInterval(0), // no automatic reprovides: exactly one pass, started below
		provider.KeyProvider(func(ctx context.Context) (<-chan cid.Cid, error) {
			ch := make(chan cid.Cid)
			go func() {
				defer close(ch)
				for _, k := range stream {
					select {
					case ch <- k.cid():
					case <-ctx.Done():
						return
					}
				}
			}()
			return ch, nil
		}),
	}
	if c.setMax {
		opts = append(opts, provider.MaxBatchSize(uint(c.maxBatch)))
	}
	if c.hasCb {
		opts = append(opts, provider.ThroughputReport(func(bool, bool, uint, time.Duration) bool { return true }, uint(c.minProvides)))
	}
	sys, err := provider.New(dssync.MutexWrap(datastore.NewMapDatastore()), opts...)
	if err != nil {
		t.Fatalf("provider.New: %v", err)
	}
	defer sys.Close()
	limit := 20 * time.Second
	if c.effective() == 0 {
		limit = 150 * time.Millisecond
	}
	ctx, cancel := context.WithTimeout(context.Background(), limit)
	defer cancel()
	err = sys.Reprovide(ctx)
	rec.mu.Lock()
	defer rec.mu.Unlock()
	return err == nil, rec.batches
}

func batchesCoq(bs [][]uint64) string {
	return vh.ListOf(bs, func(b []uint64) string { return vh.ListOf(b, vh.N) })
}

func genConfig(e *vh.Env) config {
	r := e.Rng
	c := config{provideMany: r.Intn(5) != 0}
	if r.Intn(4) != 0 {
		c.setMax = true
		c.maxBatch = uint64(r.Intn(12))
		if r.Intn(8) == 0 {
			c.maxBatch = uint64(50 + r.Intn(300))
		}
	}
	if r.Intn(3) == 0 {
		c.hasCb = true
		c.minProvides = uint64(r.Intn(10))
	}
	// batch size 0 cannot finish before the repair and costs a watchdog interval: keep it rare
	if c.effective() == 0 && r.Intn(20) != 0 {
		if c.setMax && c.maxBatch == 0 {
			c.maxBatch = 1 + uint64(r.Intn(5))
		}
		if c.hasCb && c.minProvides == 0 {
			c.minProvides = 1 + uint64(r.Intn(5))
		}
	}
	return c
}

func TestC44(t *testing.T) {
	e := vh.Load(t)
	st := vh.NewStats("one real Reprovide pass per generated (MaxBatchSize 0..11/large/unset, ThroughputReport threshold 0..9/absent, " +
		"ProvideMany or single-Provide router, key stream of 0..200 CIDs over 10 allowed + 4 rejected multihashes in CIDv0/v1-raw/v1-dag-pb forms, with duplicates); " +
		"plus NewPrioritizedProvider over 1..4 streams (some failing); non-trivial = stream has >= 3 keys with a duplicate or a rejected key, or >= 2 prioritized streams sharing a key")
	cs := vh.NewCases(e, "From V Require Import model.M_C44.\nOpen Scope Z_scope.", "case", "check_case", 200)
	badCoq := vh.ListOf(badIDs, vh.N)

	type rcase struct {
		c    config
		s    []key
		fail []int // router calls answered with an error
	}
	// corpus: boundaries and the witness of finding C44-1 (batch size 0)
	k := func(tag, id uint64) key { return key{tag, id} }
	corpus := []rcase{
		{config{setMax: true, maxBatch: 0, provideMany: true}, []key{k(1, 1)}, nil},                               // C44-1
		{config{provideMany: true, hasCb: true, minProvides: 0}, []key{k(1, 1), k(1, 2)}, nil},                    // C44-1 via ThroughputReport(f, 0)
		{config{setMax: true, maxBatch: 1, provideMany: true}, []key{k(1, 1), k(1, 2), k(1, 3)}, nil},             // exact multiple of the batch
		{config{setMax: true, maxBatch: 3, provideMany: true}, []key{k(1, 1), k(1, 2), k(1, 3)}, nil},             // stream = one full batch
		{config{setMax: true, maxBatch: 2, provideMany: true}, []key{k(1, 11), k(1, 12), k(1, 1), k(2, 13)}, nil}, // rejected keys fill a batch
		{config{setMax: true, maxBatch: 2, provideMany: true}, []key{k(0, 1), k(1, 1), k(2, 1)}, nil},             // aliases of one multihash
		{config{provideMany: true}, nil, nil},
		{config{provideMany: false, setMax: true, maxBatch: 7}, []key{k(1, 1), k(1, 2), k(1, 11), k(0, 3)}, nil}, // single Provide router ignores MaxBatchSize
		{config{provideMany: true, setMax: true, maxBatch: 5, hasCb: true, minProvides: 2}, []key{k(1, 1), k(1, 2), k(1, 3), k(1, 4), k(1, 5)}, nil},
		// router faults: a failed batch is logged and dropped; later batches keep the configured size
		{config{setMax: true, maxBatch: 2, provideMany: true}, []key{k(1, 1), k(1, 2), k(1, 3), k(1, 4), k(1, 5), k(1, 6), k(1, 7)}, []int{1}},
		{config{setMax: true, maxBatch: 3, provideMany: true}, []key{k(1, 1), k(1, 2), k(1, 3), k(1, 4), k(1, 5), k(1, 6), k(1, 7), k(1, 8), k(1, 9)}, []int{0, 1}},
		{config{provideMany: false}, []key{k(1, 1), k(1, 2), k(1, 3), k(1, 4)}, []int{0, 2}},
		{config{setMax: true, maxBatch: 2, provideMany: true, hasCb: true, minProvides: 4}, []key{k(1, 1), k(1, 2), k(1, 11), k(1, 3), k(1, 4), k(1, 5)}, []int{0}},
	}
	n := e.Pick(400, 6000)
	hung := 0
	for i := 0; i < n && hung < 3; i++ {
		var rc rcase
		if i < len(corpus) {
			rc = corpus[i]
		} else {
			maxLen := 40
			if e.Rng.Intn(10) == 0 {
				maxLen = 200
			}
			rc = rcase{c: genConfig(e), s: genStream(e, maxLen)}
			if e.Rng.Intn(3) == 0 {
				// router faults on a few of the first calls
				for j := 0; j < 1+e.Rng.Intn(3); j++ {
					rc.fail = append(rc.fail, e.Rng.Intn(8))
				}
			}
		}
		failSet := map[int]bool{}
		for _, j := range rc.fail {
			failSet[j] = true
		}
		term, batches := runReprovide(t, rc.c, rc.s, failSet)
		if !term && rc.c.effective() != 0 {
			// a pass that should finish hit the 20 s watchdog: a few such cases establish the violation,
			// more of them would only burn the time budget
			hung++
		}
		cs.Add(vh.App("CReprovide", rc.c.coq(), badCoq, keysCoq(rc.s), vh.Bool(term), batchesCoq(batches)),
			map[string]any{"kind": "reprovide", "config": rc.c.coq(), "bad_multihash_ids": badIDs, "stream": keysCoq(rc.s),
				"terminated": term, "batches": batches, "router_calls_answered_with_error": rc.fail})
		seen, nontriv := map[key]bool{}, false
		for _, x := range rc.s {
			if seen[x] || x.id > nGood {
				nontriv = true
			}
			seen[x] = true
		}
		st.Case("R|"+rc.c.coq()+"|"+keysCoq(rc.s), nontriv && len(rc.s) >= 3)
		st.Count("reprovide")
		st.Count(fmt.Sprintf("effective-batch=%s", bucket(rc.c.effective())))
		st.Count(fmt.Sprintf("stream-len=%s", bucket(uint64(len(rc.s)))))
		if !rc.c.provideMany {
			st.Count("single-provide-router")
		}
		if len(rc.fail) > 0 {
			st.Count("router-faults")
		}
		st.Sample(map[string]any{"config": rc.c.coq(), "stream": keysCoq(rc.s), "batches": batches, "terminated": term}, 4)
	}

	// prioritized provider
	np := e.Pick(300, 5000)
	for i := 0; i < np; i++ {
		ns := 1 + e.Rng.Intn(4)
		streams := make([][]key, ns)
		failing := make([]bool, ns)
		for j := range streams {
			streams[j] = genStream(e, 12)
			failing[j] = e.Rng.Intn(7) == 0
		}
		out := runPrioritized(t, streams, failing)
		terms := make([]string, ns)
		shared := false
		seen := map[key]int{}
		for j := range streams {
			if failing[j] {
				terms[j] = "None"
				continue
			}
			terms[j] = vh.App("Some", keysCoq(streams[j]))
			for _, x := range streams[j] {
				if s, ok := seen[x]; ok && s != j {
					shared = true
				}
				seen[x] = j
			}
		}
		cs.Add(vh.App("CPrio", vh.List(terms), keysCoq(out)),
			map[string]any{"kind": "prioritized", "streams": terms, "out": keysCoq(out)})
		st.Case("P|"+vh.List(terms), ns >= 2 && shared)
		st.Count("prioritized")
		st.Sample(map[string]any{"streams": terms, "out": keysCoq(out)}, 6)
	}
	cs.Close()
	st.Write(e)
}

func bucket(n uint64) string {
	switch {
	case n == 0:
		return "0"
	case n == 1:
		return "1"
	case n <= 4:
		return "2-4"
	case n <= 16:
		return "5-16"
	case n <= 64:
		return "17-64"
	case n <= 1024:
		return "65-1024"
	}
	return "huge"
}

func runPrioritized(t *testing.T, streams [][]key, failing []bool) []key {
	fs := make([]provider.KeyChanFunc, len(streams))
	for j := range streams {
		s, fail := streams[j], failing[j]
		fs[j] = func(ctx context.Context) (<-chan cid.Cid, error) {
			if fail {
				return nil, errors.New("stream failed")
			}
			ch := make(chan cid.Cid)
			go func() {
				defer close(ch)
				for _, k := range s {
					select {
					case ch <- k.cid():
					case <-ctx.Done():
						return
					}
				}
			}()
			return ch, nil
		}
	}
	ctx, cancel := context.WithTimeout(context.Background(), 20*time.Second)
	defer cancel()
	ch, err := provider.NewPrioritizedProvider(fs...)(ctx)
	if err != nil {
		t.Fatalf("prioritized provider: %v", err)
	}
	var out []key
	for c := range ch {
		k := key{id: idOf[string(c.Hash())]}
		switch {
		case c.Version() == 0:
			k.tag = 0
		case c.Type() == cid.Raw:
			k.tag = 1
		default:
			k.tag = 2
		}
		out = append(out, k)
	}
	if ctx.Err() != nil {
		t.Fatalf("prioritized provider did not finish")
	}
	return out
}
