// Correspondence harness for C14 (ipld/merkledag/dagutils Diff / ApplyChange):
// pairs of dag-pb directory trees, the second derived from the first by random
// edits, are stored in one DAGService; Diff(a, b) and ApplyChange(a, Diff(a, b))
// run on the real code; the reported changes and the resulting tree are written
// into cases_*.v and compared inside Coq with the model (model/M_C14.v) and with
// the property (result CID = CID of b, Diff(a, a) empty).
package c14

import (
	"context"
	"fmt"
	"sort"
	"strings"
	"testing"

	"github.com/ipfs/boxo/ipld/merkledag"
	"github.com/ipfs/boxo/ipld/merkledag/dagutils"
	mdtest "github.com/ipfs/boxo/ipld/merkledag/test"
	ft "github.com/ipfs/boxo/ipld/unixfs"
	cid "github.com/ipfs/go-cid"
	ipld "github.com/ipfs/go-ipld-format"

	"verif/harness/vh"
)

// ---------- tree descriptions ----------
type gn struct {
	raw  bool
	data []byte
	kids map[string]*gn
}

func dir(kids map[string]*gn) *gn {
	if kids == nil {
		kids = map[string]*gn{}
	}
	return &gn{data: ft.FolderPBData(), kids: kids}
}
func file(content string) *gn { return &gn{data: ft.FilePBData([]byte(content), uint64(len(content)))} }
func rawLeaf(content string) *gn { return &gn{raw: true, data: []byte(content)} }

// chunked: a file node with links (UnixFS file with two leaf chunks)
func chunked(content string) *gn {
	return &gn{data: ft.FilePBData(nil, uint64(2*len(content))), kids: map[string]*gn{"c0": file(content), "c1": file(content + "'")}}
}

func (g *gn) clone() *gn {
	c := &gn{raw: g.raw, data: g.data}
	if g.kids != nil {
		c.kids = map[string]*gn{}
		for k, v := range g.kids {
			c.kids[k] = v.clone()
		}
	}
	return c
}
func (g *gn) names() []string {
	ns := make([]string, 0, len(g.kids))
	for k := range g.kids {
		ns = append(ns, k)
	}
	sort.Strings(ns)
	return ns
}
func (g *gn) isDir() bool  { return !g.raw && string(g.data) == string(ft.FolderPBData()) }
func (g *gn) hasRaw() bool {
	if g.raw {
		return true
	}
	for _, k := range g.kids {
		if k.hasRaw() {
			return true
		}
	}
	return false
}
func (g *gn) String() string {
	if g.raw {
		return fmt.Sprintf("raw(%q)", g.data)
	}
	var b strings.Builder
	if g.isDir() {
		b.WriteString("dir{")
	} else {
		fmt.Fprintf(&b, "file%x{", g.data)
	}
	for i, n := range g.names() {
		if i > 0 {
			b.WriteString(" ")
		}
		b.WriteString(n + ":" + g.kids[n].String())
	}
	b.WriteString("}")
	return b.String()
}

// build stores the tree bottom-up with AddNodeLink (so Tsize is the real cumulative size).
func build(t *testing.T, ctx context.Context, ds ipld.DAGService, g *gn) ipld.Node {
	if g.raw {
		n := merkledag.NewRawNode(g.data)
		if err := ds.Add(ctx, n); err != nil {
			t.Fatal(err)
		}
		return n
	}
	n := merkledag.NodeWithData(g.data)
	for _, name := range g.names() {
		if err := n.AddNodeLink(name, build(t, ctx, ds, g.kids[name])); err != nil {
			t.Fatal(err)
		}
	}
	if err := ds.Add(ctx, n); err != nil {
		t.Fatal(err)
	}
	return n
}

// ---------- rendering ----------
type render struct {
	cids map[string]int
	data map[string]int
}

func newRender() *render {
	return &render{cids: map[string]int{}, data: map[string]int{"D" + string(ft.FolderPBData()): 0}}
}
func (r *render) cid(c cid.Cid) int {
	if !c.Defined() {
		return 0
	}
	s := c.KeyString()
	if id, ok := r.cids[s]; ok {
		return id
	}
	r.cids[s] = len(r.cids) + 1
	return r.cids[s]
}
func (r *render) dataID(d []byte) int {
	k := "N"
	if d != nil {
		k = "D" + string(d)
	}
	if id, ok := r.data[k]; ok {
		return id
	}
	r.data[k] = len(r.data)
	return r.data[k]
}

var dbg string

// tree renders the DAG below c as it is stored in ds; ok = false when a block is missing.
func (r *render) tree(t *testing.T, ctx context.Context, ds ipld.DAGService, c cid.Cid) (string, bool) {
	n, err := ds.Get(ctx, c)
	if err != nil {
		if ipld.IsNotFound(err) {
			return "", false
		}
		t.Fatalf("get %s: %v (%s)", c, err, dbg)
	}
	switch n := n.(type) {
	case *merkledag.RawNode:
		return vh.App("ARaw", vh.Z(int64(r.cid(c))), vh.Z(int64(r.dataID(n.RawData())))), true
	case *merkledag.ProtoNode:
		kids := make([]string, 0, len(n.Links()))
		for _, l := range n.Links() {
			sub, ok := r.tree(t, ctx, ds, l.Cid)
			if !ok {
				return "", false
			}
			kids = append(kids, "("+vh.Bytes([]byte(l.Name))+", "+sub+")")
		}
		return vh.App("APB", vh.Z(int64(r.cid(c))), vh.Z(int64(r.dataID(n.Data()))), vh.List(kids)), true
	}
	t.Fatalf("unexpected node type %T", n)
	return "", false
}

func pathCoq(p string) string {
	if p == "" {
		return "[]"
	}
	return vh.ListOf(strings.Split(p, "/"), func(s string) string { return vh.Bytes([]byte(s)) })
}

// ---------- generators ----------
var namePool = []string{"a", "b", "c", "d", "e", "f", "g", "aa", "x.txt", "é", "z z", "B", "0"}

type gen struct {
	e      *vh.Env
	serial int
	raws   bool
}

func (g *gen) content() string {
	g.serial++
	return fmt.Sprintf("f%d", g.serial%7) // few distinct contents: equal subtrees do occur
}
func (g *gen) leaf() *gn {
	if g.raws && g.e.Rng.Intn(3) == 0 {
		return rawLeaf(g.content())
	}
	if g.e.Rng.Intn(12) == 0 {
		return chunked(g.content())
	}
	return file(g.content())
}
func (g *gen) tree(depth int, budget *int) *gn {
	r := g.e.Rng
	d := dir(nil)
	fan := r.Intn(7)
	if r.Intn(3) == 0 {
		fan = r.Intn(3)
	}
	for i := 0; i < fan && *budget > 0; i++ {
		name := namePool[r.Intn(len(namePool))]
		if _, dup := d.kids[name]; dup {
			continue
		}
		*budget--
		if depth > 1 && r.Intn(5) < 2 {
			d.kids[name] = g.tree(depth-1, budget)
		} else {
			d.kids[name] = g.leaf()
		}
	}
	return d
}

// dirs lists every directory node of the tree (for picking an edit site)
func dirsOf(g *gn, acc []*gn) []*gn {
	if g.isDir() {
		acc = append(acc, g)
		for _, n := range g.names() {
			acc = dirsOf(g.kids[n], acc)
		}
	}
	return acc
}

func (g *gen) edit(root *gn) string {
	r := g.e.Rng
	ds := dirsOf(root, nil)
	site := ds[r.Intn(len(ds))]
	if r.Intn(3) == 0 {
		site = ds[len(ds)-1-r.Intn((len(ds)+1)/2)] // bias towards deep sites
	}
	names := site.names()
	pick := func() string { return names[r.Intn(len(names))] }
	small := 4
	switch x := r.Intn(20); {
	case x < 4 || len(names) == 0: // add
		name := namePool[r.Intn(len(namePool))]
		if r.Intn(3) == 0 {
			site.kids[name] = g.tree(2, &small)
			return "add-dir"
		}
		site.kids[name] = g.leaf()
		return "add-file"
	case x < 8:
		delete(site.kids, pick())
		return "remove"
	case x < 12: // replace by a file (file->file or dir->file)
		n := pick()
		was := site.kids[n]
		if len(was.kids) > 0 && r.Intn(3) != 0 { // keep the known kind change (finding C14-1) in the minority
			was.kids[namePool[r.Intn(len(namePool))]] = g.leaf()
			return "add-file-nested"
		}
		site.kids[n] = g.leaf()
		if was.isDir() && len(was.kids) > 0 {
			return "dir-with-links->file"
		}
		if was.isDir() {
			return "emptydir->file"
		}
		return "file->file"
	case x < 15: // replace by a directory
		n := pick()
		was := site.kids[n]
		if !was.isDir() && r.Intn(3) != 0 {
			site.kids[n] = g.leaf()
			return "file->file"
		}
		site.kids[n] = g.tree(2, &small)
		if !was.isDir() && len(site.kids[n].kids) > 0 {
			return "file->dir-with-links"
		}
		if !was.isDir() {
			return "file->emptydir"
		}
		return "dir->dir"
	case x < 17:
		n := pick()
		was := site.kids[n]
		site.kids[n] = dir(nil)
		if was.isDir() {
			return "dir->emptydir"
		}
		return "file->emptydir"
	case x < 18 && r.Intn(3) == 0: // chunked file <-> directory with the same link names
		n := pick()
		site.kids[n] = &gn{data: ft.FolderPBData(), kids: chunked(g.content()).kids}
		return "to-dir-with-chunk-names"
	default: // move a subtree to another name
		n := pick()
		site.kids[namePool[r.Intn(len(namePool))]] = site.kids[n].clone()
		return "copy-subtree"
	}
}

type pair struct {
	a, b  *gn
	edits []string
}

func (g *gen) pair() pair {
	r := g.e.Rng
	budget := 6 + r.Intn(30)
	anc := g.tree(1+r.Intn(4), &budget)
	a, b := anc.clone(), anc.clone()
	var edits []string
	for i, n := 0, r.Intn(4); i < n; i++ { // a also moves away from the ancestor
		edits = append(edits, "a:"+g.edit(a))
	}
	for i, n := 0, r.Intn(9); i < n; i++ {
		edits = append(edits, "b:"+g.edit(b))
	}
	return pair{a, b, edits}
}


// ---------- twins: the same subtree at several paths, edited identically ----------

func at(root *gn, path []string) *gn {
	for _, n := range path {
		if root == nil || root.kids == nil {
			return nil
		}
		root = root.kids[n]
	}
	return root
}

// twinPair stores one subtree (a file, a chunked file or a small directory) at 2-3
// different paths, at different depths and partly under different names, and gives
// every copy the same edit in b, so that the same (before, after) pair of children
// occurs at several paths of one Diff.  Independent edits are mixed in.
func (g *gen) twinPair() pair {
	r := g.e.Rng
	budget := 3 + r.Intn(14)
	anc := g.tree(1+r.Intn(3), &budget)
	small := 2 + r.Intn(4)
	var twin *gn
	switch r.Intn(5) {
	case 0, 1:
		twin = file(g.content() + "-twin")
	case 2:
		twin = chunked(g.content() + "-twin")
	default:
		twin = g.tree(1+r.Intn(2), &small)
		twin.kids["t"] = file("twin-marker") // never empty, never equal to another directory by accident
	}
	// host directories: existing ones and fresh nested ones at growing depth
	var hosts [][]string
	var walk func(n *gn, p []string)
	walk = func(n *gn, p []string) {
		if n.isDir() {
			hosts = append(hosts, append([]string(nil), p...))
			for _, k := range n.names() {
				walk(n.kids[k], append(p, k))
			}
		}
	}
	walk(anc, nil)
	deep := []string{}
	for i, n := 0, 1+r.Intn(3); i < n; i++ {
		deep = append(deep, []string{"n1", "n2", "n3"}[i])
		cur := at(anc, deep[:len(deep)-1])
		if _, ok := cur.kids[deep[len(deep)-1]]; !ok || !cur.kids[deep[len(deep)-1]].isDir() {
			cur.kids[deep[len(deep)-1]] = dir(nil)
		}
		hosts = append(hosts, append([]string(nil), deep...))
	}
	copies := 2 + r.Intn(2)
	var places [][]string
	sameName := r.Intn(2) == 0
	for i := 0; i < copies; i++ {
		h := hosts[r.Intn(len(hosts))]
		name := "tw"
		if !sameName {
			name = []string{"tw", "tw2", "copy"}[i]
		}
		full := append(append([]string(nil), h...), name)
		dupe := false
		for _, q := range places {
			if strings.Join(q, "/") == strings.Join(full, "/") || strings.HasPrefix(strings.Join(full, "/")+"/", strings.Join(q, "/")+"/") ||
				strings.HasPrefix(strings.Join(q, "/")+"/", strings.Join(full, "/")+"/") {
				dupe = true
			}
		}
		if dupe || at(anc, h) == nil || !at(anc, h).isDir() {
			continue
		}
		at(anc, h).kids[name] = twin.clone()
		places = append(places, full)
	}
	a, b := anc.clone(), anc.clone()
	edits := []string{fmt.Sprintf("t:twin-copies=%d", len(places))}
	// the identical edit, drawn once
	kind := r.Intn(5)
	c1, c2 := g.content()+"-new", g.content()+"-new2"
	var victim string
	if tn := twin.names(); len(tn) > 0 {
		victim = tn[r.Intn(len(tn))]
	}
	same := func(t *gn) *gn {
		if len(t.kids) == 0 || !t.isDir() { // a file (or chunked file): new content
			if kind == 0 && len(t.kids) > 0 {
				return chunked(c1)
			}
			return file(c1)
		}
		n := t.clone()
		victim := victim
		if _, ok := n.kids[victim]; !ok { // an independent edit replaced this copy
			victim = n.names()[0]
		}
		switch kind {
		case 0:
			n.kids["added"] = file(c1)
		case 1:
			delete(n.kids, victim)
			n.kids["added"] = file(c2)
		case 2:
			n.kids[victim] = file(c1)
		case 3:
			n.kids[victim] = file(c1)
			n.kids["sub"] = dir(map[string]*gn{"x": file(c2)})
		default:
			n.kids["t"] = file(c1)
			n.kids["sub"] = dir(map[string]*gn{"x": file(c2), "y": file(c1)})
		}
		return n
	}
	for i, n := 0, r.Intn(3); i < n; i++ {
		edits = append(edits, "b:"+g.edit(b))
	}
	for i, q := range places {
		host := at(b, q[:len(q)-1])
		if host == nil || !host.isDir() {
			continue // an independent edit removed the host
		}
		cur := host.kids[q[len(q)-1]]
		if cur == nil {
			continue
		}
		if i == len(places)-1 && len(places) == 3 && r.Intn(3) == 0 {
			host.kids[q[len(q)-1]] = file(c2) // one copy changed differently
			edits = append(edits, "b:twin-edited-differently")
			continue
		}
		host.kids[q[len(q)-1]] = same(cur)
		edits = append(edits, "b:twin-same-edit")
	}
	if r.Intn(3) == 0 {
		edits = append(edits, "a:"+g.edit(a))
	}
	return pair{a, b, edits}
}

func corpus() []pair {
	d := dir
	m := func(kv ...any) map[string]*gn {
		o := map[string]*gn{}
		for i := 0; i < len(kv); i += 2 {
			o[kv[i].(string)] = kv[i+1].(*gn)
		}
		return o
	}
	deep := func(x *gn) *gn { return d(m("p", d(m("q", d(m("r", x)))))) }
	base := d(m("a", file("1"), "b", d(m("x", file("2"), "y", d(m("z", file("3"))))), "c", file("4")))
	return []pair{
		// finding C14-1: directory with links <-> leaf file under the same name, both directions
		{a: d(m("x", d(m("y", file("1"))))), b: d(m("x", file("2")))},
		{a: d(m("x", file("2"))), b: d(m("x", d(m("y", file("1")))))},
		{a: d(m("k", d(m("x", d(m("y", file("1"), "z", file("2"))), "w", file("3"))))), b: d(m("k", d(m("x", file("9"), "w", file("3")))))},
		// chunked file (links) <-> directory with links
		{a: d(m("x", chunked("q"))), b: d(m("x", d(m("c0", file("q")))))},
		// property holds
		{a: base, b: base.clone()},
		{a: d(nil), b: base},
		{a: base, b: d(nil)},
		{a: base, b: d(m("a", file("1"), "b", d(m("x", file("2'"), "y", d(m("z", file("3"), "n", file("5"))))), "d", file("4")))},
		{a: base, b: d(m("a", file("1"), "b", d(nil), "c", file("4")))},
		{a: d(m("a", d(nil))), b: d(m("a", file("1")))},
		{a: d(m("a", file("1"))), b: d(m("a", d(nil)))},
		{a: d(m("a", file("1"), "b", file("1"))), b: d(m("a", file("2"), "c", file("1")))},
		{a: deep(d(m("s", file("1")))), b: deep(d(m("s", file("2"), "t", file("1"))))},
		// the same (before, after) pair of children at several paths
		{a: d(m("d1", d(m("f", file("1"))), "d2", d(m("f", file("1"))))), b: d(m("d1", d(m("f", file("2"))), "d2", d(m("f", file("2")))))},
		{a: d(m("f", file("1"), "p", d(m("q", d(m("g", file("1"), "h", file("7"))))))), b: d(m("f", file("2"), "p", d(m("q", d(m("g", file("2"), "h", file("8")))))))},
		{a: d(m("s", d(m("x", file("1"), "y", file("2"))), "u", d(m("s", d(m("x", file("1"), "y", file("2"))), "v", d(m("w", d(m("x", file("1"), "y", file("2"))))))))),
			b: d(m("s", d(m("x", file("3"), "z", file("4"))), "u", d(m("s", d(m("x", file("3"), "z", file("4"))), "v", d(m("w", d(m("x", file("3"), "z", file("4")))))))))},
		// raw leaves: ApplyChange refuses them
		{a: d(m("a", rawLeaf("1"))), b: d(m("a", rawLeaf("2")))},
		{a: d(m("a", file("1"))), b: d(m("a", file("1"), "r", rawLeaf("2")))},
		{a: d(m("a", rawLeaf("1"), "b", file("1"))), b: d(m("a", rawLeaf("1"), "b", file("2")))},
	}
}

// repeatedPair walks a and b the way Diff does and reports whether one (before CID,
// after CID) pair of differing same-named children is met at two different paths.
func repeatedPair(ctx context.Context, ds ipld.DAGService, a, b ipld.Node, seen map[[2]string]bool) bool {
	pa, oka := a.(*merkledag.ProtoNode)
	pb, okb := b.(*merkledag.ProtoNode)
	if !oka || !okb || (len(pa.Links()) == 0 && len(pb.Links()) == 0) {
		return false
	}
	for _, la := range pa.Links() {
		lb, err := pb.GetNodeLink(la.Name)
		if err != nil || la.Cid == lb.Cid {
			continue
		}
		k := [2]string{la.Cid.KeyString(), lb.Cid.KeyString()}
		if seen[k] {
			return true
		}
		seen[k] = true
		ca, err1 := la.GetNode(ctx, ds)
		cb, err2 := lb.GetNode(ctx, ds)
		if err1 == nil && err2 == nil && repeatedPair(ctx, ds, ca, cb, seen) {
			return true
		}
	}
	return false
}

// ---------- entry point ----------
func TestC14(t *testing.T) {
	e := vh.Load(t)
	ctx := context.Background()
	st := vh.NewStats("pairs of dag-pb directory trees (depth <= 4, fan-out <= 6, <= ~40 nodes; leaf files, chunked files, empty dirs; " +
		"a separate 10% stream with raw leaves) derived from a common ancestor by 0..3 + 0..8 random edits (add, remove, replace " +
		"file<->file, dir<->file, dir<->empty dir, copy subtree, nested); Diff(a,b), ApplyChange(a, Diff(a,b)) on the real code; " +
		"non-trivial = at least 2 changes one of which is nested (path length >= 2); distinct by (a, b)")
	cs := vh.NewCases(e, "From V Require Import lib.C11_DagPb model.M_C14.\nOpen Scope Z_scope.", "case", "check_case", 250)
	n := e.Pick(1500, 15000)
	cp := corpus()
	for i := 0; i < n; i++ {
		var p pair
		g := &gen{e: e, raws: i%10 == 9}
		if i < len(cp) {
			p = cp[i]
			st.Count("corpus")
		} else {
			if i%4 == 2 {
				p = g.twinPair()
				st.Count("twins")
			} else {
				p = g.pair()
			}
		}
		if i%17 == 3 && i >= len(cp) {
			p.b = p.a.clone() // Diff(a, a)
			p.edits = append(p.edits, "b:=a")
		}
		dbg = p.a.String() + " => " + p.b.String()
		ds := mdtest.Mock()
		na := build(t, ctx, ds, p.a)
		nb := build(t, ctx, ds, p.b)
		// work on nodes as a client gets them from the DAG service
		a, err := ds.Get(ctx, na.Cid())
		if err != nil {
			t.Fatal(err)
		}
		b, err := ds.Get(ctx, nb.Cid())
		if err != nil {
			t.Fatal(err)
		}
		r := newRender()
		ta, oka := r.tree(t, ctx, ds, na.Cid())
		tb, okb := r.tree(t, ctx, ds, nb.Cid())
		if !oka || !okb {
			t.Fatalf("input trees incomplete: %s", dbg)
		}
		changes, err := dagutils.Diff(ctx, ds, a, b)
		if err != nil {
			t.Fatalf("Diff: %v", err)
		}
		var os, human []string
		nested := false
		for _, c := range changes {
			ty := []string{"CAdd", "CRemove", "CMod"}[c.Type]
			os = append(os, "("+ty+", "+pathCoq(c.Path)+", "+vh.Z(int64(r.cid(c.Before)))+", "+vh.Z(int64(r.cid(c.After)))+")")
			human = append(human, ty[1:]+" "+c.Path)
			if strings.Contains(c.Path, "/") {
				nested = true
			}
		}
		if repeatedPair(ctx, ds, a, b, map[[2]string]bool{}) {
			st.Count("same-(before,after)-child-pair-at-two-paths")
		}
		fresh, err := ds.Get(ctx, na.Cid())
		if err != nil {
			t.Fatal(err)
		}
		res := "None"
		resKind := "error"
		out, err := dagutils.ApplyChange(ctx, ds, fresh.(*merkledag.ProtoNode), changes)
		if err == nil {
			rt, ok := r.tree(t, ctx, ds, out.Cid())
			if !ok {
				st.Count("result-dag-incomplete-in-dagservice")
			}
			res = "(Some (" + vh.Z(int64(r.cid(out.Cid()))) + ", " + vh.Opt(ok, rt) + "))"
			if out.Cid() == nb.Cid() {
				resKind = "equal-b"
			} else {
				resKind = "differs-from-b"
			}
		}
		term := vh.App("CDiff", ta, tb, vh.List(os), res)
		rp := map[string]any{"a": p.a.String(), "b": p.b.String(), "edits": p.edits, "changes": human, "apply": resKind}
		cs.Add(term, rp)
		st.Case(p.a.String()+"|"+p.b.String(), len(changes) >= 2 && nested)
		st.Count("apply:" + resKind)
		st.Count(fmt.Sprintf("changes=%d", min(len(changes), 10)))
		if p.a.hasRaw() || p.b.hasRaw() {
			st.Count("with-raw-leaves")
		}
		for _, ed := range p.edits {
			st.Count("edit:" + strings.SplitN(ed, ":", 2)[1])
		}
		if len(changes) >= 2 {
			st.Sample(rp, 6)
		}
	}
	cs.Close()
	st.Write(e)
}
