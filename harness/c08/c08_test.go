// Correspondence harness for C08 (trickle.Append).  A base file is built with the
// real trickle.Layout, then a history of real trickle.Append calls is applied to
// it; after every append the DAG is read back node by node, verified with the real
// VerifyTrickleDagStructure and read through the DagReader.  Everything observed
// goes into cases_*.v where the Coq model (model/M_C08.v) replays each append on
// the previous tree and the specification (content, sizes, trickle shape) is
// evaluated.  Byte equality is decided here.
package c08

import (
	"bytes"
	"context"
	"fmt"
	"hash/fnv"
	"io"
	"math/rand"
	"strings"
	"testing"

	chunker "github.com/ipfs/boxo/chunker"
	dag "github.com/ipfs/boxo/ipld/merkledag"
	mdtest "github.com/ipfs/boxo/ipld/merkledag/test"
	ft "github.com/ipfs/boxo/ipld/unixfs"
	h "github.com/ipfs/boxo/ipld/unixfs/importer/helpers"
	"github.com/ipfs/boxo/ipld/unixfs/importer/trickle"
	uio "github.com/ipfs/boxo/ipld/unixfs/io"
	cid "github.com/ipfs/go-cid"
	ipld "github.com/ipfs/go-ipld-format"
	mh "github.com/multiformats/go-multihash"

	"verif/harness/vh"
)

// ---------- configuration of one history ----------
type config struct {
	Width   int    `json:"width"`
	Raw     bool   `json:"raw_leaves"`
	Chunker string `json:"chunker"`
	Cid     string `json:"cid"` // nil | v1-sha256
	Base    int    `json:"base_len"`    // bytes of the base file
	Appends []int  `json:"append_lens"` // bytes of each appended stream
	DataSd  int64  `json:"data_seed"`
}

func (c config) builder() cid.Builder {
	if c.Cid == "v1-sha256" {
		return cid.V1Builder{Codec: cid.DagProtobuf, MhType: mh.SHA2_256}
	}
	return nil
}

// fp is a 16-bit fingerprint (folded FNV-1a) of a payload; Coq compares (length,
// fingerprint) pairs, the bytes themselves are compared here.
func fp(b []byte) uint32 {
	f := fnv.New32a()
	f.Write(b)
	s := f.Sum32()
	return (s >> 16) ^ (s & 0xffff)
}

func chunkCoq(n int, f uint32) string { return "(" + vh.Z(int64(n)) + ", " + vh.Z(int64(f)) + ")" }

// ---------- reading the DAG back ----------
type walker struct {
	ctx    context.Context
	ds     ipld.DAGService
	c      config
	anoms  map[int]bool
	leaves [][]byte
	nodes  int
	height int
}

func (w *walker) checkPrefix(n ipld.Node, raw bool) {
	p := n.Cid().Prefix()
	wantVer, wantCodec, wantMh := uint64(0), uint64(cid.DagProtobuf), uint64(mh.SHA2_256)
	if w.c.Cid == "v1-sha256" {
		wantVer = 1
	}
	if raw {
		wantVer, wantCodec = 1, cid.Raw
	}
	if p.Version != wantVer || p.Codec != wantCodec || p.MhType != wantMh {
		w.anoms[5] = true
	}
}

// tree renders the node as a lib/Tree.v term.  A dag-pb node without links is a
// leaf holding its inline data (an empty File node included: same block).
func (w *walker) tree(n ipld.Node, depth int, root bool) string {
	w.nodes++
	if depth > w.height {
		w.height = depth
	}
	switch nd := n.(type) {
	case *dag.RawNode:
		w.checkPrefix(n, true)
		d := nd.RawData()
		w.leaves = append(w.leaves, d)
		return vh.App("Leaf", "KRaw", vh.Z(int64(len(d))), chunkCoq(len(d), fp(d)))
	case *dag.ProtoNode:
		w.checkPrefix(n, false)
		fsn, err := ft.FSNodeFromBytes(nd.Data())
		if err != nil {
			w.anoms[6] = true
			return vh.App("Leaf", "KPbFile", "0", chunkCoq(0, fp(nil)))
		}
		if !root && (fsn.Mode() != 0 || !fsn.ModTime().IsZero()) {
			w.anoms[4] = true
		}
		if len(nd.Links()) == 0 {
			k := "KPbFile"
			switch fsn.Type() {
			case ft.TRaw:
				k = "KPbRaw"
			case ft.TFile:
			default:
				w.anoms[6] = true
			}
			if len(fsn.BlockSizes()) != 0 {
				w.anoms[3] = true
			}
			d := fsn.Data()
			w.leaves = append(w.leaves, d)
			return vh.App("Leaf", k, vh.ZU(fsn.FileSize()), chunkCoq(len(d), fp(d)))
		}
		if fsn.Type() != ft.TFile {
			w.anoms[1] = true
		}
		if len(fsn.Data()) != 0 {
			w.anoms[2] = true
		}
		if len(fsn.BlockSizes()) != len(nd.Links()) {
			w.anoms[3] = true
		}
		kids := make([]string, 0, len(nd.Links()))
		for _, l := range nd.Links() {
			if l.Name != "" {
				w.anoms[7] = true
			}
			ch, err := l.GetNode(w.ctx, w.ds)
			if err != nil {
				w.anoms[9] = true
				continue
			}
			if sz, err := ch.Size(); err != nil || sz != l.Size {
				w.anoms[8] = true
			}
			kids = append(kids, w.tree(ch, depth+1, false))
		}
		bs := vh.ListOf(fsn.BlockSizes(), func(u uint64) string { return vh.ZU(u) })
		return vh.App("Node", vh.ZU(fsn.FileSize()), bs, vh.List(kids))
	}
	w.anoms[6] = true
	return vh.App("Leaf", "KPbFile", "0", chunkCoq(0, fp(nil)))
}


func split(c config, data []byte) ([][]byte, error) {
	spl, err := chunker.FromString(bytes.NewReader(data), c.Chunker)
	if err != nil {
		return nil, err
	}
	var chunks [][]byte
	for {
		b, err := spl.NextBytes()
		if err == io.EOF {
			return chunks, nil
		}
		if err != nil {
			return nil, err
		}
		chunks = append(chunks, b)
	}
}

func newDB(c config, ds ipld.DAGService, data []byte) (*h.DagBuilderHelper, error) {
	spl, err := chunker.FromString(bytes.NewReader(data), c.Chunker)
	if err != nil {
		return nil, err
	}
	dbp := h.DagBuilderParams{Maxlinks: c.Width, RawLeaves: c.Raw, CidBuilder: c.builder(), Dagserv: ds}
	return dbp.New(spl)
}

type result struct {
	term     string
	fatal    error
	goViol   string
	verifyNo int // appends after which the real verifier rejected the DAG
	maxH     int
	nleaves  int
}

func chunksCoq(chunks [][]byte) string {
	return vh.ListOf(chunks, func(b []byte) string { return chunkCoq(len(b), fp(b)) })
}

func runCase(c config) result {
	ctx := context.Background()
	var res result
	rng := rand.New(rand.NewSource(c.DataSd))
	all := make([]byte, 0, c.Base)
	baseData := make([]byte, c.Base)
	rng.Read(baseData)
	all = append(all, baseData...)
	baseChunks, err := split(c, baseData)
	if err != nil {
		res.fatal = err
		return res
	}
	ds := mdtest.Mock()
	db, err := newDB(c, ds, baseData)
	if err != nil {
		res.fatal = err
		return res
	}
	cur, err := trickle.Layout(db)
	if err != nil {
		res.fatal = fmt.Errorf("Layout: %w", err)
		return res
	}
	var steps []string
	for _, alen := range c.Appends {
		ad := make([]byte, alen)
		rng.Read(ad)
		all = append(all, ad...)
		achunks, err := split(c, ad)
		if err != nil {
			res.fatal = err
			return res
		}
		db, err := newDB(c, ds, ad)
		if err != nil {
			res.fatal = err
			return res
		}
		next, err := trickle.Append(ctx, cur, db)
		if err != nil {
			res.fatal = fmt.Errorf("Append: %w", err)
			return res
		}
		cur = next
		w := &walker{ctx: ctx, ds: ds, c: c, anoms: map[int]bool{}}
		tree := w.tree(cur, 0, true)
		if w.height > res.maxH {
			res.maxH = w.height
		}
		res.nleaves = len(w.leaves)
		// leaves, byte for byte, are the old content followed by the new chunks
		if !bytes.Equal(bytes.Join(w.leaves, nil), all) && res.goViol == "" {
			res.goViol = "leaves of the appended DAG, concatenated, differ from old content ++ appended bytes"
		}
		verify := trickle.VerifyTrickleDagStructure(cur, trickle.VerifyParams{
			Getter: ds, Direct: c.Width, LayerRepeat: 4, RawLeaves: c.Raw}) == nil
		if !verify {
			res.verifyNo++
		}
		rd, err := uio.NewDagReader(ctx, cur, ds)
		if err != nil {
			res.fatal = fmt.Errorf("NewDagReader: %w", err)
			return res
		}
		got, err := io.ReadAll(rd)
		if err != nil {
			res.fatal = fmt.Errorf("DagReader read: %w", err)
			return res
		}
		readEq := bytes.Equal(got, all)
		if !readEq && res.goViol == "" {
			res.goViol = fmt.Sprintf("DagReader returned %d bytes that differ from the %d bytes old ++ appended", len(got), len(all))
		}
		var an []int
		for k := 1; k <= 10; k++ {
			if w.anoms[k] {
				an = append(an, k)
			}
		}
		steps = append(steps, vh.App("Step", chunksCoq(achunks), tree, vh.Bool(verify), vh.ZU(rd.Size()),
			vh.Z(int64(len(got))), vh.Bool(readEq), vh.ListOf(an, func(i int) string { return vh.Z(int64(i)) })))
	}
	res.term = vh.App("CAppend", vh.Nat(c.Width), vh.Bool(c.Raw), chunksCoq(baseChunks), vh.List(steps))
	return res
}

// ---------- generators ----------
// chunk counts at which the trickle shape changes (root level), see c07
func boundaries(w, max int) []int {
	capm := []int{w}
	for len(capm) < 10 && capm[len(capm)-1] <= max {
		s := w
		for _, cm := range capm {
			s += 4 * cm
		}
		capm = append(capm, s)
	}
	tot := w
	out := []int{0, 1, w - 1, w, w + 1}
	for d := 0; d < len(capm) && tot <= max; d++ {
		for j := 0; j < 4 && tot <= max; j++ {
			tot += capm[d]
			out = append(out, tot-1, tot, tot+1)
		}
	}
	var ok []int
	for _, x := range out {
		if x >= 0 && x <= max {
			ok = append(ok, x)
		}
	}
	return ok
}

func genWidth(r *rand.Rand) int {
	switch x := r.Intn(10); {
	case x < 6:
		return 2 + r.Intn(4) // 2..5
	default:
		return 2 + r.Intn(15) // 2..16
	}
}

func gen(r *rand.Rand, maxBase, maxApp int) config {
	c := config{Width: genWidth(r), Raw: r.Intn(2) == 0, Cid: []string{"nil", "nil", "v1-sha256"}[r.Intn(3)], DataSd: r.Int63()}
	cs := 1
	if r.Intn(4) == 0 {
		cs = 2 + r.Intn(3)
	}
	c.Chunker = fmt.Sprintf("size-%d", cs)
	bs := boundaries(c.Width, maxBase)
	pick := func(max int) int {
		if r.Intn(5) < 2 {
			return bs[r.Intn(len(bs))] % (max + 1)
		}
		if r.Intn(3) == 0 {
			return r.Intn(max/4 + 1)
		}
		return r.Intn(max + 1)
	}
	nb := pick(maxBase)
	c.Base = nb * cs
	if nb > 0 && cs > 1 && r.Intn(2) == 0 {
		c.Base -= r.Intn(cs)
	}
	nsteps := 1
	if r.Intn(3) == 0 {
		nsteps = 2 + r.Intn(3)
	}
	for i := 0; i < nsteps; i++ {
		limit := maxApp
		if nsteps > 1 {
			limit = maxApp / 3
		}
		na := 1 + pick(limit)
		if r.Intn(25) == 0 {
			na = 0 // appending nothing
		}
		alen := na * cs
		if na > 0 && cs > 1 && r.Intn(2) == 0 {
			alen -= r.Intn(cs)
		}
		c.Appends = append(c.Appends, alen)
	}
	return c
}

func genCDC(r *rand.Rand) config {
	c := config{Width: 2 + r.Intn(7), Raw: r.Intn(2) == 0, Cid: "nil", DataSd: r.Int63()}
	if r.Intn(4) == 0 {
		c.Chunker = "buzhash"
		c.Base = r.Intn(1 << 20)
		c.Appends = []int{1 + r.Intn(1<<20)}
		return c
	}
	c.Chunker = "rabin-16-32-64"
	c.Base = r.Intn(4000)
	c.Appends = []int{1 + r.Intn(3000)}
	if r.Intn(2) == 0 {
		c.Appends = append(c.Appends, 1+r.Intn(1000))
	}
	return c
}

func corpus() []config {
	one := func(w, b int, raw bool, apps ...int) config {
		return config{Width: w, Raw: raw, Chunker: "size-1", Cid: "nil", Base: b, Appends: apps, DataSd: int64(w*1000 + b)}
	}
	cs := []config{
		one(2, 1, false, 4), // finding C08-1: first failing pair at width 2
		one(2, 0, true, 5),
		one(2, 2, false, 11),
		one(2, 10, true, 30), // root has exactly w + 4 children
		one(3, 3, false, 16),
		one(2, 1, false, 3), // the same bases where the code is fine
		one(2, 3, true, 40),
		one(2, 11, false, 60),
		one(4, 0, false, 0),
		one(4, 7, true, 0, 1, 0),
		one(2, 30, false, 1, 1, 1, 1, 1, 1, 1, 1, 1, 1, 1, 1), // one byte at a time (boxo's TestMultipleAppends)
		one(3, 0, true, 1, 1, 1, 1, 1, 1, 1, 1, 1, 1, 1, 1, 1, 1, 1, 1, 1, 1, 1, 1),
		one(2, 50, true, 200),
		one(5, 24, false, 120),
		one(16, 15, true, 2, 70),
	}
	return cs
}

func TestC08(t *testing.T) {
	e := vh.Load(t)
	st := vh.NewStats("real trickle.Layout then a history of real trickle.Append calls (widths 2..16, base 0..200 chunks at and around the layer boundaries, " +
		"1..120 appended chunks, 1-4 appends, fixed-size and rabin/buzhash chunkers, raw and dag-pb leaves); after every append the DAG is read back, " +
		"verified with VerifyTrickleDagStructure and read through the DagReader; non-trivial = base has more than width chunks (the append descends into the last sub-tree) " +
		"and at least 2 chunks are appended; distinct by configuration")
	cs := vh.NewCases(e, "From V Require Import lib.Tree model.M_C07 model.M_C08.\nOpen Scope Z_scope.", "case", "check_case", 50)
	n, ncdc := e.Pick(330, 2400), e.Pick(12, 80)
	maxBase, maxApp := e.Pick(120, 200), e.Pick(80, 120)
	cfgs := corpus()
	for i := 0; i < n; i++ {
		cfgs = append(cfgs, gen(e.Rng, maxBase, maxApp))
	}
	for i := 0; i < ncdc; i++ {
		cfgs = append(cfgs, genCDC(e.Rng))
	}
	for _, c := range cfgs {
		res := runCase(c)
		if res.fatal != nil {
			st.Violate("Layout, Append or the reader failed: "+res.fatal.Error(), "", c)
			continue
		}
		cs.Add(res.term, c)
		tot := 0
		for _, a := range c.Appends {
			tot += a
		}
		st.Case(fmt.Sprintf("%+v", c), c.Base > c.Width && tot >= 2)
		st.Count(fmt.Sprintf("raw=%v", c.Raw))
		st.Count("chunker=" + strings.SplitN(c.Chunker, "-", 2)[0])
		st.Count(fmt.Sprintf("appends=%d", min(len(c.Appends), 5)))
		st.Count(fmt.Sprintf("height=%d", res.maxH))
		if c.Width <= 5 {
			st.Count(fmt.Sprintf("width=%d", c.Width))
		} else {
			st.Count("width=6..16")
		}
		if res.verifyNo > 0 {
			st.Count("verifier-rejects")
		} else {
			st.Count("verifier-accepts")
		}
		if res.goViol != "" {
			st.Violate(res.goViol, "", c)
		}
		st.Sample(c, 6)
	}
	cs.Close()
	st.Write(e)
}
