// Correspondence harness for C15 (UnixFS directories behave as name-to-entry
// maps).  Random edit histories are run on the real BasicDirectory, HAMTDirectory
// and DynamicDirectory of ipld/unixfs/io (shard widths 8..1024, max-links limits,
// per-directory thresholds, the three size-estimation modes), with lookups, the
// three enumeration APIs, reloads from the root node and dumps of the shard DAG
// in between.  Everything observed goes into cases_*.v and is compared inside Coq
// with the model (model/M_C15.v: the transcribed swapValue/getValue/walkTrie/
// Node()/NewHamtFromDag and the conversion logic) and with the map specification.
// The digests of the names used are passed as data; they are the real murmur3
// digests (name pools contain brute-forced prefix-colliding names) or, in a second
// stream, synthetic digests installed through the package's own hash-function
// injection point so that collisions of every depth up to identical digests occur.
package c15

import (
	"context"
	"encoding/binary"
	"errors"
	"fmt"
	"math/rand"
	"os"
	"sort"
	"strings"
	"testing"

	bitfield "github.com/ipfs/go-bitfield"
	cid "github.com/ipfs/go-cid"
	ipld "github.com/ipfs/go-ipld-format"
	mh "github.com/multiformats/go-multihash"

	mdag "github.com/ipfs/boxo/ipld/merkledag"
	mdtest "github.com/ipfs/boxo/ipld/merkledag/test"
	ft "github.com/ipfs/boxo/ipld/unixfs"
	"github.com/ipfs/boxo/ipld/unixfs/hamt"
	uio "github.com/ipfs/boxo/ipld/unixfs/io"

	"verif/harness/vh"
)

var ctx = context.Background()

// faultDS is a DAGService whose writes can be made to fail (store-write fault injection).
type faultDS struct {
	ipld.DAGService
	fail bool
}

var errInjected = errors.New("injected store write failure")

func (f *faultDS) Add(c context.Context, n ipld.Node) error {
	if f.fail {
		return errInjected
	}
	return f.DAGService.Add(c, n)
}

func (f *faultDS) AddMany(c context.Context, ns []ipld.Node) error {
	if f.fail {
		return errInjected
	}
	return f.DAGService.AddMany(c, ns)
}

// goViolate records a violation of the map specification found by the Go-side oracle.
var goViolate func(desc string, replay any)

// ---------- child nodes (the values) ----------

type valT struct {
	id     int
	cidlen int
	tsize  uint64
}

type pool struct {
	ds    ipld.DAGService
	nodes []ipld.Node
	byCid map[string]int
}

func newPool(ds ipld.DAGService, n int) *pool {
	p := &pool{ds: ds, byCid: map[string]int{}}
	for i := 0; i < n; i++ {
		nd := ft.EmptyFileNode()
		// data of different lengths: Tsize 6.. (one- and two-byte varints)
		nd.SetData([]byte(strings.Repeat("x", (i*37)%300) + fmt.Sprint(i)))
		switch i % 3 {
		case 1:
			nd.SetCidBuilder(cid.V1Builder{Codec: cid.DagProtobuf, MhType: mh.SHA2_256})
		case 2:
			if i%2 == 0 {
				nd = ft.EmptyFileNode()
				nd.SetData([]byte(fmt.Sprintf("i%d", i)))
				nd.SetCidBuilder(cid.Prefix{Version: 1, Codec: cid.DagProtobuf, MhType: mh.IDENTITY, MhLength: -1})
			}
		}
		if err := ds.Add(ctx, nd); err != nil {
			panic(err)
		}
		p.byCid[nd.Cid().KeyString()] = i
		p.nodes = append(p.nodes, nd)
	}
	return p
}

func (p *pool) valOfLink(l *ipld.Link) valT {
	id, ok := p.byCid[l.Cid.KeyString()]
	if !ok {
		id = -1
	}
	return valT{id: id, cidlen: len(l.Cid.Bytes()), tsize: l.Size}
}

func (p *pool) valOfNode(i int) valT {
	l, err := ipld.MakeLink(p.nodes[i])
	if err != nil {
		panic(err)
	}
	return p.valOfLink(l)
}

func (v valT) lit() string {
	return vh.App("mkval", vh.Z(int64(v.id)), vh.Z(int64(v.cidlen)), vh.ZU(v.tsize))
}

func (v valT) coq() string {
	if v.id >= 0 && v.id < len(curVals) && curVals[v.id] == v {
		return fmt.Sprintf("v%d", v.id)
	}
	return v.lit()
}

func nameLit(s string) string {
	if lit, ok := vh.Str(s); ok {
		return lit
	}
	return vh.App("bs", vh.Bytes([]byte(s)))
}

// Within one case the names of the pool and the pool values are let-bound
// (n0, n1, ... / v0, v1, ...) so that the case term stays small.
var (
	curNames map[string]int
	curVals  []valT
)

func nameCoq(s string) string {
	if i, ok := curNames[s]; ok {
		return fmt.Sprintf("n%d", i)
	}
	return nameLit(s)
}

// a link name of a shard node: hex prefix ++ key
func linkNameCoq(s string, pad int) string {
	if len(s) > pad {
		if i, ok := curNames[s[pad:]]; ok {
			return fmt.Sprintf("(%s ++ n%d)", nameLit(s[:pad]), i)
		}
	}
	return nameLit(s)
}

type entry struct {
	name string
	v    valT
}

func entriesCoq(es []entry) string {
	return vh.ListOf(es, func(e entry) string { return vh.Pair(nameCoq(e.name), e.v.coq()) })
}

// ---------- configuration ----------

type config struct {
	width    int
	maxLinks int
	mode     uio.SizeEstimationMode
	thresh   int  // per-directory HAMTShardingSize (0 = unset)
	global   int  // value of the global uio.HAMTShardingSize during the history
	kind     int  // 0 dynamic, 1 pure HAMT, 2 pure basic
	hamt0    bool // starts as a HAMT
}

func lg2(w int) int {
	n := 0
	for 1<<n < w {
		n++
	}
	return n
}
func padlen(w int) int { return len(fmt.Sprintf("%X", w-1)) }

func (c config) enabled() bool { return c.thresh > 0 || c.global != 0 }

func (c config) coq() string {
	return vh.App("mkcfg", vh.Z(int64(lg2(c.width))), vh.Nat(padlen(c.width)), vh.Z(int64(c.maxLinks)),
		vh.Bool(c.enabled()), vh.Bool(c.mode == uio.SizeEstimationDisabled), vh.Bool(c.kind == 0))
}

func (c config) String() string {
	return fmt.Sprintf("w=%d ml=%d mode=%d th=%d glob=%d kind=%d", c.width, c.maxLinks, c.mode, c.thresh, c.global, c.kind)
}

func (c config) apply(d uio.Directory) {
	d.SetMaxLinks(c.maxLinks)
	d.SetMaxHAMTFanout(c.width)
	d.SetSizeEstimationMode(c.mode)
	d.SetHAMTShardingSize(c.thresh)
}

func (c config) fresh(ds ipld.DAGService) (uio.Directory, error) {
	opts := []uio.DirectoryOption{uio.WithMaxHAMTFanout(c.width), uio.WithMaxLinks(c.maxLinks), uio.WithSizeEstimationMode(c.mode)}
	var d uio.Directory
	var err error
	switch c.kind {
	case 0:
		d, err = uio.NewDirectory(ds, opts...)
	case 1:
		d, err = uio.NewHAMTDirectory(ds, 0, opts...)
	default:
		d, err = uio.NewBasicDirectory(ds, opts...)
	}
	if err != nil {
		return nil, err
	}
	d.SetHAMTShardingSize(c.thresh)
	return d, nil
}

func (c config) reload(ds ipld.DAGService, d uio.Directory) (uio.Directory, error) {
	nd, err := d.GetNode()
	if err != nil {
		return nil, err
	}
	if err := ds.Add(ctx, nd); err != nil {
		return nil, err
	}
	// read it back from the DAG service so nothing in memory is shared
	nd, err = ds.Get(ctx, nd.Cid())
	if err != nil {
		return nil, err
	}
	var d2 uio.Directory
	switch c.kind {
	case 0:
		d2, err = uio.NewDirectoryFromNode(ds, nd)
	case 1:
		d2, err = uio.NewHAMTDirectoryFromNode(ds, nd)
	default:
		d2 = uio.NewBasicDirectoryFromNode(ds, nd.(*mdag.ProtoNode).Copy().(*mdag.ProtoNode))
	}
	if err != nil {
		return nil, err
	}
	c.apply(d2)
	return d2, nil
}

func isHamt(d uio.Directory) bool {
	switch v := d.(type) {
	case *uio.DynamicDirectory:
		_, ok := v.Directory.(*uio.HAMTDirectory)
		return ok
	case *uio.HAMTDirectory:
		return true
	}
	return false
}

// ---------- error classes ----------

func errClass(err error) string {
	switch {
	case err == nil:
		return "None"
	case errors.Is(err, os.ErrNotExist):
		return "(Some ENotExist)"
	case strings.Contains(err.Error(), "maxLinks reached"):
		return "(Some EMaxLinks)"
	case strings.Contains(err.Error(), "too deep"):
		return "(Some ETooDeep)"
	}
	return "(Some EOther)"
}

// ---------- dump of the node DAG ----------

func dumpHamt(t *testing.T, p *pool, nd ipld.Node, nm string, pad int) string {
	pn, ok := nd.(*mdag.ProtoNode)
	if !ok {
		t.Fatalf("dump: not a ProtoNode")
	}
	fsn, err := ft.FSNodeFromBytes(pn.Data())
	if err != nil {
		t.Fatalf("dump: %v", err)
	}
	if fsn.Type() != ft.THAMTShard {
		t.Fatalf("dump: not a shard")
	}
	bf, err := bitfield.NewBitfield(int(fsn.Fanout()))
	if err != nil {
		t.Fatalf("dump: %v", err)
	}
	bf.SetBytes(fsn.Data())
	var bits []string
	for i := 0; i < int(fsn.Fanout()); i++ {
		if bf.Bit(i) {
			bits = append(bits, vh.Z(int64(i)))
		}
	}
	var links []string
	for _, l := range pn.Links() {
		if len(l.Name) == pad {
			ch, err := p.ds.Get(ctx, l.Cid)
			if err != nil {
				t.Fatalf("dump: child shard missing: %v", err)
			}
			links = append(links, dumpHamt(t, p, ch, l.Name, pad))
		} else {
			links = append(links, vh.App("PLeaf", linkNameCoq(l.Name, pad), p.valOfLink(l).coq()))
		}
	}
	return vh.App("PNode", nameLit(nm), vh.List(bits), vh.List(links))
}

func dump(t *testing.T, p *pool, d uio.Directory, pad int) string {
	nd, err := d.GetNode()
	if err != nil {
		t.Fatalf("GetNode: %v", err)
	}
	pn := nd.(*mdag.ProtoNode)
	fsn, err := ft.FSNodeFromBytes(pn.Data())
	if err != nil {
		t.Fatalf("dump: %v", err)
	}
	if fsn.Type() == ft.TDirectory {
		var es []entry
		for _, l := range pn.Links() {
			es = append(es, entry{l.Name, p.valOfLink(l)})
		}
		return vh.App("BDumpBasic", entriesCoq(es))
	}
	return vh.App("BDumpHamt", dumpHamt(t, p, nd, "", pad))
}

// ---------- names ----------

type digested struct {
	name string
	h    uint64
}

// murmurSorted: many short names with their real digests, sorted by digest, so
// that neighbours share long digest prefixes.
func murmurSorted(n int) []digested {
	out := make([]digested, n)
	for i := range out {
		nm := fmt.Sprintf("k%d", i)
		out[i] = digested{nm, binary.BigEndian.Uint64(hamt.VerifHashOf(nm))}
	}
	sort.Slice(out, func(i, j int) bool { return out[i].h < out[j].h })
	return out
}

func commonBits(a, b uint64) int {
	x := a ^ b
	n := 0
	for n < 64 && x&(1<<uint(63-n)) == 0 {
		n++
	}
	return n
}

// groups of names whose digests agree on at least `bits` leading bits
func collidingGroups(sorted []digested, bits int) [][]string {
	var out [][]string
	i := 0
	for i < len(sorted) {
		j := i + 1
		for j < len(sorted) && commonBits(sorted[i].h, sorted[j].h) >= bits {
			j++
		}
		if j-i >= 2 {
			g := []string{}
			for k := i; k < j; k++ {
				g = append(g, sorted[k].name)
			}
			out = append(out, g)
		}
		i = j
	}
	return out
}

const alphabet = "abcdefghijklmnopqrstuvwxyzABCDEFGHIJKLMNOPQRSTUVWXYZ0123456789._- "

func randName(r *rand.Rand) string {
	switch r.Intn(20) {
	case 0:
		return string(alphabet[r.Intn(len(alphabet)-1)]) // one character
	case 1:
		return strings.Repeat(string(alphabet[r.Intn(26)]), 255) // 255 bytes
	case 2:
		return "caf\xc3\xa9-" + fmt.Sprint(r.Intn(50)) // UTF-8
	case 3:
		return "a\"b'" + fmt.Sprint(r.Intn(9)) // quote characters
	case 4:
		return strings.Repeat("F", 1+r.Intn(3)) // looks like a shard prefix
	case 5:
		return fmt.Sprintf("%02X", r.Intn(256)) // looks like a shard prefix
	}
	n := 1 + r.Intn(12)
	b := make([]byte, n)
	for i := range b {
		b[i] = alphabet[r.Intn(len(alphabet))]
	}
	return string(b)
}

type names struct {
	list   []string
	digest map[string][]byte // what the HAMT hash function answers for each name
}

func (n *names) tableCoq() string {
	return vh.ListOf(n.list, func(s string) string { return vh.Pair(nameCoq(s), vh.Bytes(n.digest[s])) })
}

// ---------- one history ----------

type history struct {
	cfg   config
	ops   []string
	obs   []string
	log   []string
	kinds map[string]int
}

func listOb(p *pool, ls []*ipld.Link) string {
	es := make([]entry, len(ls))
	for i, l := range ls {
		es[i] = entry{l.Name, p.valOfLink(l)}
	}
	return vh.App("BList", entriesCoq(es))
}

func runHistory(t *testing.T, r *rand.Rand, p *pool, c config, nm *names, nops int, script []string) *history {
	h := &history{cfg: c, kinds: map[string]int{}}
	nm.bind(p)
	saved := uio.HAMTShardingSize
	uio.HAMTShardingSize = c.global
	defer func() { uio.HAMTShardingSize = saved }()

	d, err := c.fresh(p.ds)
	if err != nil {
		t.Fatalf("fresh %v: %v", c, err)
	}
	present := map[string]bool{}
	presentList := func() []string {
		var l []string
		for _, n := range nm.list {
			if present[n] {
				l = append(l, n)
			}
		}
		return l
	}
	pad := padlen(c.width)
	cut := false // after a change of MaxLinks the model's (constant) configuration no longer applies: Go-side oracle only
	emit := func(op, ob, lg string) {
		h.log = append(h.log, lg)
		if cut {
			return
		}
		h.ops = append(h.ops, op)
		h.obs = append(h.obs, ob)
		h.kinds[strings.SplitN(lg, " ", 2)[0]]++
	}
	oracle := func(before, after bool, cls string) bool {
		return before != after || (before && cls == "(Some EMaxLinks)") || (!before && cls == "(Some ETooDeep)")
	}
	doAdd := func(name string, vi int) {
		before := isHamt(d)
		err := d.AddChild(ctx, name, p.nodes[vi])
		cls := errClass(err)
		if err == nil {
			present[name] = true
		}
		o := oracle(before, isHamt(d), cls)
		if o {
			h.kinds["switch"]++
		}
		emit(vh.App("OAdd", nameCoq(name), p.valOfNode(vi).coq(), vh.Bool(o)), vh.App("BRes", cls),
			fmt.Sprintf("add %q %d -> %s", name, vi, cls))
	}
	// AddChild while the DAG service refuses every write.  A directory that does not write the child
	// (BasicDirectory) simply succeeds: an ordinary add.  An AddChild that reports the store error must
	// leave the map as it was (model op OAddFail: nothing changes).
	doAddFail := func(name string, vi int) {
		fds, ok := p.ds.(*faultDS)
		if !ok {
			return
		}
		before := isHamt(d)
		fds.fail = true
		err := d.AddChild(ctx, name, p.nodes[vi])
		fds.fail = false
		h.kinds["storefault"]++
		if errors.Is(err, errInjected) {
			emit(vh.App("OAddFail", nameCoq(name), p.valOfNode(vi).coq()), "(BRes (Some EOther))",
				fmt.Sprintf("add %q %d with failing store -> store error", name, vi))
			return
		}
		cls := errClass(err)
		if err == nil {
			present[name] = true
		}
		o := oracle(before, isHamt(d), cls)
		emit(vh.App("OAdd", nameCoq(name), p.valOfNode(vi).coq(), vh.Bool(o)), vh.App("BRes", cls),
			fmt.Sprintf("add %q %d with failing store -> %s", name, vi, cls))
	}
	listing := func() string {
		ls, err := d.Links(ctx)
		if err != nil {
			return "ERR " + err.Error()
		}
		var out []string
		for _, l := range ls {
			out = append(out, fmt.Sprintf("%q=%s", l.Name, l.Cid))
		}
		sort.Strings(out)
		return strings.Join(out, ",")
	}
	doRemove := func(name string) {
		before := isHamt(d)
		missing := !present[name]
		var was string
		if missing {
			was = listing()
		}
		err := d.RemoveChild(ctx, name)
		cls := errClass(err)
		// Go-side map oracle (also where the Coq model is cut off): removing a missing name reports
		// not-exist and changes nothing
		if missing && goViolate != nil {
			if !errors.Is(err, os.ErrNotExist) {
				goViolate(fmt.Sprintf("RemoveChild of the missing name %q answered %s instead of not-exist", name, cls),
					map[string]any{"config": c.String(), "names": nm.list, "ops": append(append([]string(nil), h.log...), fmt.Sprintf("remove %q", name))})
			} else if now := listing(); now != was {
				goViolate(fmt.Sprintf("RemoveChild of the missing name %q changed the listing", name),
					map[string]any{"config": c.String(), "names": nm.list, "ops": append(append([]string(nil), h.log...), fmt.Sprintf("remove %q", name))})
			}
		}
		if err == nil {
			delete(present, name)
		}
		o := oracle(before, isHamt(d), cls)
		if o {
			h.kinds["switch"]++
		}
		emit(vh.App("ORemove", nameCoq(name), vh.Bool(o)), vh.App("BRes", cls), fmt.Sprintf("remove %q -> %s", name, cls))
	}
	doFind := func(name string) {
		nd, err := d.Find(ctx, name)
		var ob string
		switch {
		case err == nil:
			id, ok := p.byCid[nd.Cid().KeyString()]
			if !ok {
				id = -1
			}
			ob = vh.App("BFind", vh.Opt(true, vh.Z(int64(id))))
		case errors.Is(err, os.ErrNotExist):
			ob = vh.App("BFind", "None")
		default:
			ob = vh.App("BRes", errClass(err))
		}
		emit(vh.App("OFind", nameCoq(name)), ob, fmt.Sprintf("find %q", name))
	}
	doList := func(which int) {
		switch which {
		case 0:
			ls, err := d.Links(ctx)
			if err != nil {
				emit("OLinks", vh.App("BRes", errClass(err)), "links ERR")
				return
			}
			emit("OLinks", listOb(p, ls), "links")
		case 1:
			var ls []*ipld.Link
			err := d.ForEachLink(ctx, func(l *ipld.Link) error {
				ls = append(ls, &ipld.Link{Name: l.Name, Size: l.Size, Cid: l.Cid})
				return nil
			})
			if err != nil {
				emit("OForEach", vh.App("BRes", errClass(err)), "foreach ERR")
				return
			}
			emit("OForEach", listOb(p, ls), "foreach")
		default:
			var ls []*ipld.Link
			var lerr error
			for lr := range d.EnumLinksAsync(ctx) {
				if lr.Err != nil {
					lerr = lr.Err
					continue
				}
				ls = append(ls, lr.Link)
			}
			if lerr != nil {
				emit("OEnumAsync", vh.App("BRes", errClass(lerr)), "enum ERR")
				return
			}
			emit("OEnumAsync", listOb(p, ls), "enum")
		}
	}
	doReload := func() {
		d2, err := c.reload(p.ds, d)
		if err != nil {
			emit("OReload", "(BReload false)", "reload ERR "+err.Error())
			return
		}
		d = d2
		emit("OReload", "(BReload true)", "reload")
	}
	doDump := func() { emit("ODump", dump(t, p, d, pad), "dump") }

	pickName := func(wantPresent bool) string {
		pl := presentList()
		if wantPresent && len(pl) > 0 {
			return pl[r.Intn(len(pl))]
		}
		return nm.list[r.Intn(len(nm.list))]
	}

	if script != nil {
		for _, s := range script {
			f := strings.SplitN(s, " ", 3)
			switch f[0] {
			case "add":
				var vi int
				fmt.Sscan(f[2], &vi)
				doAdd(f[1], vi)
			case "addfail":
				var vi int
				fmt.Sscan(f[2], &vi)
				doAddFail(f[1], vi)
			case "rm":
				doRemove(f[1])
			case "find":
				doFind(f[1])
			case "links":
				doList(0)
			case "foreach":
				doList(1)
			case "enum":
				doList(2)
			case "reload":
				doReload()
			case "dump":
				doDump()
			case "setth": // raise the per-directory threshold (the model's size decision is an oracle: no model op)
				fmt.Sscan(f[1], &c.thresh)
				d.SetHAMTShardingSize(c.thresh)
				h.log = append(h.log, "SetHAMTShardingSize "+f[1])
			case "setglobal":
				var g int
				fmt.Sscan(f[1], &g)
				uio.HAMTShardingSize = g
				h.log = append(h.log, "HAMTShardingSize="+f[1])
			case "setml": // the model's MaxLinks is a constant of the case: from here on only the Go-side oracle judges
				fmt.Sscan(f[1], &c.maxLinks)
				d.SetMaxLinks(c.maxLinks)
				h.log = append(h.log, "SetMaxLinks "+f[1])
				cut = true
			}
		}
		return h
	}

	// phases: grow, churn, shrink — so that conversions happen in both directions
	for i := 0; i < nops; i++ {
		phase := i * 3 / nops
		x := r.Intn(100)
		addW, rmW := 40, 15
		if phase == 1 {
			addW, rmW = 25, 25
		} else if phase == 2 {
			addW, rmW = 12, 45
		}
		switch {
		case x < addW && r.Intn(10) == 0: // the store refuses the write
			doAddFail(pickName(r.Intn(2) == 0), r.Intn(len(p.nodes)))
			if r.Intn(2) == 0 {
				doList(r.Intn(3))
			}
		case x < addW:
			if r.Intn(4) == 0 {
				doAdd(pickName(true), r.Intn(len(p.nodes))) // replace
			} else {
				doAdd(pickName(false), r.Intn(len(p.nodes)))
			}
		case x < addW+rmW:
			if r.Intn(6) == 0 {
				doRemove(pickName(false)) // often missing
			} else {
				doRemove(pickName(true))
			}
		case x < addW+rmW+14:
			doFind(pickName(r.Intn(3) != 0))
		case x < addW+rmW+21:
			doList(r.Intn(3))
		case x < addW+rmW+27:
			doReload()
			if r.Intn(2) == 0 {
				doList(r.Intn(3))
			}
		case x < addW+rmW+31:
			doDump()
		default:
			doFind(pickName(true))
		}
	}
	// always end with the three enumerations, a reload, a listing and a dump
	doList(0)
	doList(1)
	doList(2)
	doReload()
	doList(1)
	doDump()
	for _, n := range nm.list {
		doFind(n)
	}
	return h
}

func (h *history) coq(nm *names) string {
	var b strings.Builder
	for i, s := range nm.list {
		fmt.Fprintf(&b, "let n%d := %s in ", i, nameLit(s))
	}
	for i, v := range curVals {
		fmt.Fprintf(&b, "let v%d := %s in ", i, v.lit())
	}
	b.WriteString("CHist " + h.cfg.coq() + " " + vh.Bool(h.cfg.hamt0) + " " + nm.tableCoq() + " " + vh.List(h.ops) + " " + vh.List(h.obs))
	return b.String()
}

func (nm *names) bind(p *pool) {
	curNames = map[string]int{}
	for i, s := range nm.list {
		curNames[s] = i
	}
	curVals = make([]valT, len(p.nodes))
	for i := range p.nodes {
		curVals[i] = p.valOfNode(i)
	}
}

// ---------- generators ----------

var widths = []int{8, 16, 32, 64, 128, 256, 512, 1024}

func genConfig(r *rand.Rand) config {
	c := config{width: widths[r.Intn(len(widths))], global: 256 * 1024}
	if r.Intn(3) == 0 {
		c.width = 8 // deep tries
	}
	switch r.Intn(10) {
	case 0, 1:
		c.kind = 1
		c.hamt0 = true
	case 2:
		c.kind = 2
	}
	switch r.Intn(3) {
	case 0:
		c.maxLinks = 0
	case 1:
		c.maxLinks = 1 + r.Intn(6)
	default:
		c.maxLinks = 4 + r.Intn(12)
	}
	c.mode = uio.SizeEstimationMode(r.Intn(3))
	switch r.Intn(6) {
	case 0:
		c.thresh = 0 // global threshold (large): only maxLinks converts
	case 1:
		c.thresh = 0
		c.global = 0 // sharding switched off
	default:
		c.thresh = 40 + r.Intn(700) // a few to a dozen entries
	}
	return c
}

func genNames(r *rand.Rand, c config, sorted []digested, synthetic bool) *names {
	nm := &names{digest: map[string][]byte{}}
	seen := map[string]bool{}
	add := func(s string) {
		if s != "" && !seen[s] {
			seen[s] = true
			nm.list = append(nm.list, s)
		}
	}
	n := 4 + r.Intn(20)
	l2 := lg2(c.width)
	if !synthetic {
		// colliding groups: same slot for 1..k levels under this width
		for tries := 0; tries < 3 && len(nm.list) < n; tries++ {
			depth := 1 + r.Intn(4)
			bits := depth * l2
			if bits > 30 {
				bits = 30
			}
			gs := collidingGroups(sorted, bits)
			if len(gs) == 0 {
				continue
			}
			g := gs[r.Intn(len(gs))]
			for i, s := range g {
				if i < 4 {
					add(s)
				}
			}
		}
	}
	for len(nm.list) < n {
		add(randName(r))
	}
	if synthetic {
		// digests sharing exactly p leading bits with a base digest (p = 64: identical)
		base := r.Uint64()
		for i, s := range nm.list {
			var h uint64
			switch {
			case i == 0:
				h = base
			case r.Intn(12) == 0:
				h = base // identical digest: "too deep" when both are stored in a HAMT
			case r.Intn(4) == 0:
				h = r.Uint64()
			default:
				pbits := r.Intn(64)
				if r.Intn(2) == 0 {
					pbits = l2 * (1 + r.Intn(64/l2)) // exactly at a level boundary
					if pbits > 63 {
						pbits = 63
					}
				}
				mask := ^uint64(0) >> uint(pbits) // the low 64-pbits bits
				h = (base &^ mask) | (r.Uint64() & mask)
				h ^= 1 << uint(63-pbits) // differ at bit pbits
				if r.Intn(3) == 0 {
					h = (base &^ mask) | ((base ^ (1 << uint(63-pbits))) & mask) // differ ONLY at bit pbits
				}
			}
			b := make([]byte, 8)
			binary.BigEndian.PutUint64(b, h)
			nm.digest[s] = b
		}
	} else {
		for _, s := range nm.list {
			nm.digest[s] = hamt.VerifHashOf(s)
		}
	}
	return nm
}

func TestC15(t *testing.T) {
	e := vh.Load(t)
	st := vh.NewStats("edit histories (10..60 ops + fixed epilogue) on the real Dynamic/HAMT/Basic directories over pools of 4..24 names " +
		"(murmur3 prefix-colliding groups, 1-char, 255-byte, UTF-8 and prefix-like names; second stream with synthetic digests up to identical); " +
		"non-trivial = at least 8 edits and (a conversion happened or the directory is a HAMT with a slot collision); distinct by (config, ops)")
	goViolate = func(desc string, replay any) { st.Violate(desc, "", replay) }
	defer func() { goViolate = nil }()
	cs := vh.NewCases(e, "From V Require Import model.M_C15.\nOpen Scope Z_scope.\nOpen Scope string_scope.", "case", "check_case", 40)
	r := e.Rng
	ds := &faultDS{DAGService: mdtest.Mock()}
	p := newPool(ds, 24)
	sorted := murmurSorted(e.Pick(60000, 300000))

	addHist := func(h *history, nm *names, tag string) {
		key := h.cfg.String() + "|" + strings.Join(h.log, ";")
		edits := h.kinds["add"] + h.kinds["remove"]
		nontrivial := edits >= 8 && (h.kinds["switch"] > 0 || strings.Contains(strings.Join(h.obs, ""), "PNode \"") && strings.Count(strings.Join(h.obs, ""), "PNode") > 1)
		rp := map[string]any{"kind": tag, "config": h.cfg.String(), "names": nm.list, "ops": h.log}
		cs.Add(h.coq(nm), rp)
		st.Case(key, nontrivial)
		st.Count("hist:" + tag)
		st.Count(fmt.Sprintf("width=%d", h.cfg.width))
		st.Count(fmt.Sprintf("mode=%d", h.cfg.mode))
		st.Count(fmt.Sprintf("kind=%d", h.cfg.kind))
		for k, v := range h.kinds {
			st.Distribution["op:"+k] += v
		}
		for _, o := range h.obs {
			switch {
			case strings.Contains(o, "EMaxLinks"):
				st.Count("err:maxlinks")
			case strings.Contains(o, "ETooDeep"):
				st.Count("err:toodeep")
			case strings.Contains(o, "ENotExist"):
				st.Count("err:notexist")
			case strings.Contains(o, "EOther"):
				st.Count("err:other")
			}
		}
		st.Sample(map[string]any{"kind": tag, "config": h.cfg.String(), "ops": len(h.log)}, 6)
	}

	// ---- corpus: the witness of finding C15-1 and hand-written boundary histories ----
	{
		// C15-1: a HAMT directory reloaded from its node counts the ROOT links as totalLinks;
		// with maxLinks set, removing an existing name then fails with "maxLinks reached".
		c := config{width: 8, maxLinks: 8, mode: uio.SizeEstimationDisabled, global: 256 * 1024}
		nm := &names{digest: map[string][]byte{}}
		var script []string
		for i := 0; i < 20; i++ {
			n := fmt.Sprintf("n%02d", i)
			nm.list = append(nm.list, n)
			nm.digest[n] = hamt.VerifHashOf(n)
			script = append(script, fmt.Sprintf("add %s %d", n, i%len(p.nodes)))
		}
		script = append(script, "reload", "rm n03", "links", "find n03")
		addHist(runHistory(t, r, p, c, nm, 0, script), nm, "corpus-C15-1")
		// same names, all three modes, no reload: plain grow / shrink through both conversions
		for mode := 0; mode < 3; mode++ {
			c := config{width: 16, maxLinks: 5, mode: uio.SizeEstimationMode(mode), thresh: 200, global: 256 * 1024}
			var script []string
			for i := 0; i < 12; i++ {
				script = append(script, fmt.Sprintf("add n%02d %d", i, i))
			}
			script = append(script, "dump", "links", "foreach", "enum")
			for i := 0; i < 12; i++ {
				script = append(script, fmt.Sprintf("rm n%02d", i), "foreach")
			}
			script = append(script, "rm n00", "dump")
			addHist(runHistory(t, r, p, c, nm, 0, script), nm, "corpus")
		}
	}

	// ---- directed: store-write faults (seeded change C15-4): AddChild of a new name and of an existing name while
	// the DAG service refuses writes, on basic, HAMT and dynamic directories; an AddChild that reports the error
	// must leave listing, Find and later RemoveChild as they were ----
	{
		nm := &names{digest: map[string][]byte{}}
		for _, n := range []string{"n00", "n01", "n02", "n03", "new1", "new2"} {
			nm.list = append(nm.list, n)
			nm.digest[n] = hamt.VerifHashOf(n)
		}
		sc := []string{"add n00 0", "add n01 3", "add n02 6", "addfail new1 4", "links", "foreach", "enum", "find new1", "rm new1",
			"addfail n01 9", "find n01", "links", "dump", "add n03 1", "addfail new2 5", "rm new2", "reload", "addfail new2 5",
			"foreach", "find new2", "rm n00", "addfail n00 2", "find n00", "rm n00", "dump"}
		for _, w := range []int{8, 256} {
			for _, c := range []config{
				{width: w, mode: uio.SizeEstimationLinks, global: 256 * 1024, kind: 1, hamt0: true}, // pure HAMT
				{width: w, mode: uio.SizeEstimationLinks, global: 256 * 1024, kind: 2},              // pure basic
				{width: w, mode: uio.SizeEstimationLinks, thresh: 60, global: 256 * 1024},           // dynamic, sharded early
				{width: w, mode: uio.SizeEstimationBlock, thresh: 150, global: 256 * 1024},          // dynamic, converts around the faults
				{width: w, mode: uio.SizeEstimationDisabled, maxLinks: 2, global: 256 * 1024},       // dynamic, sharded by MaxLinks
				{width: w, mode: uio.SizeEstimationLinks, thresh: 5000, global: 256 * 1024},         // dynamic, stays basic
			} {
				addHist(runHistory(t, r, p, c, nm, 0, sc), nm, "directed-storefault")
			}
		}
	}

	// ---- directed: a sharded directory that is ALREADY eligible for the downgrade, then RemoveChild of a missing
	// name: it must answer not-exist and change nothing (seeded change C15-3) ----
	{
		nm := &names{digest: map[string][]byte{}}
		for _, n := range []string{"n00", "n01", "n02", "n03", "xxxxxxxxxx", "yy", "absent", "gone"} {
			nm.list = append(nm.list, n)
			nm.digest[n] = hamt.VerifHashOf(n)
		}
		tail := []string{"rm absent", "links", "foreach", "find n00", "find absent", "dump", "rm gone", "add n03 5", "rm n03", "rm n03", "dump"}
		for _, w := range []int{8, 256} {
			for mode := 0; mode < 3; mode++ {
				m := uio.SizeEstimationMode(mode)
				build := []string{"add n00 0", "add n01 3", "add n02 6", "dump"} // three entries: a HAMT under the settings below
				if mode < 2 {
					// threshold raised while sharded (per-directory, then global), without and with a reload
					c := config{width: w, mode: m, thresh: 60, global: 256 * 1024}
					addHist(runHistory(t, r, p, c, nm, 0, append(append(append([]string{}, build...), "setth 5000"), tail...)), nm, "directed-eligible-th")
					addHist(runHistory(t, r, p, c, nm, 0, append(append(append([]string{}, build...), "setth 5000", "reload"), tail...)), nm, "directed-eligible-th-reload")
					addHist(runHistory(t, r, p, c, nm, 0, append(append(append([]string{}, build...), "reload", "setth 5000"), tail...)), nm, "directed-eligible-reload-th")
					c = config{width: w, mode: m, thresh: 0, global: 60}
					addHist(runHistory(t, r, p, c, nm, 0, append(append(append([]string{}, build...), "setglobal 5000"), tail...)), nm, "directed-eligible-global")
				}
				if mode == 0 {
					// a small HAMT kept by the sizeChange gate, reloaded (sizeChange restarts at 0): eligible as it is
					c := config{width: w, mode: m, thresh: 90, global: 256 * 1024}
					sc := []string{"add n00 0", "add n01 3", "add xxxxxxxxxx 6", "add yy 2", "rm xxxxxxxxxx", "dump", "reload"}
					addHist(runHistory(t, r, p, c, nm, 0, append(sc, tail...)), nm, "directed-eligible-reload")
				}
				// MaxLinks raised while sharded (the Coq case ends at the change; the Go-side map oracle judges the rest)
				c := config{width: w, maxLinks: 2, mode: m, thresh: 0, global: 256 * 1024}
				addHist(runHistory(t, r, p, c, nm, 0, append(append(append([]string{}, build...), "setml 10"), tail...)), nm, "directed-eligible-maxlinks")
				addHist(runHistory(t, r, p, c, nm, 0, append(append(append([]string{}, build...), "setml 10", "reload"), tail...)), nm, "directed-eligible-maxlinks-reload")
			}
		}
	}

	// ---- directed: exactly MaxLinks-1 .. MaxLinks+2 entries, sharded and basic, then replace / add / remove ----
	{
		nm := &names{digest: map[string][]byte{}}
		for i := 0; i < 12; i++ {
			n := fmt.Sprintf("n%02d", i)
			nm.list = append(nm.list, n)
			nm.digest[n] = hamt.VerifHashOf(n)
		}
		for mode := 0; mode < 3; mode++ {
			for _, m := range []int{1, 2, 3, 5} {
				for _, th := range []int{0, 2000} { // global threshold (large) / a per-directory threshold (large)
					c := config{width: 8, maxLinks: m, mode: uio.SizeEstimationMode(mode), thresh: th, global: 256 * 1024}
					var sc []string
					add := func(i, v int) { sc = append(sc, fmt.Sprintf("add n%02d %d", i, v%len(p.nodes))) }
					rm := func(i int) { sc = append(sc, fmt.Sprintf("rm n%02d", i)) }
					// grow to MaxLinks+2, replacing an existing name at every count on the way up
					for i := 0; i < m+2; i++ {
						add(i, i)
						add(0, i+7) // replace at count i+1
						if i >= m-2 {
							sc = append(sc, "dump")
						}
					}
					// shrink to MaxLinks-1, replacing at every count on the way down (M+1 -> replace, M -> replace, ...)
					for i := m + 1; i >= m-1 && i >= 1; i-- {
						rm(i)
						add(0, i+3)
						sc = append(sc, "dump")
					}
					// and up again across the boundary, with a removal of a missing name in between
					rm(11)
					for i := 1; i < m+2; i++ {
						if i >= m-1 {
							add(i, i+1)
							add(i, i+2)
							sc = append(sc, "links")
						}
					}
					sc = append(sc, "foreach", "dump")
					addHist(runHistory(t, r, p, c, nm, 0, sc), nm, "directed-maxlinks")
				}
			}
		}
	}

	// ---- random histories ----
	n := e.Pick(360, 2000)
	for i := 0; i < n; i++ {
		c := genConfig(r)
		synthetic := i%3 == 2
		nm := genNames(r, c, sorted, synthetic)
		var restore func()
		if synthetic {
			tbl := nm.digest
			restore = hamt.VerifSetHashFunc(func(b []byte) []byte {
				if d, ok := tbl[string(b)]; ok {
					return append([]byte(nil), d...)
				}
				return []byte{0, 0, 0, 0, 0, 0, 0, 0}
			})
		}
		nops := 10 + r.Intn(51)
		if r.Intn(5) == 0 {
			nops = 10 + r.Intn(15)
		}
		h := runHistory(t, r, p, c, nm, nops, nil)
		if restore != nil {
			restore()
		}
		tag := "murmur3"
		if synthetic {
			tag = "synthetic-digests"
		}
		addHist(h, nm, tag)
	}

	// ---- hashBits.Next against the transcribed next ----
	nn := e.Pick(400, 2000)
	for i := 0; i < nn; i++ {
		bl := 8
		if r.Intn(4) == 0 {
			bl = 1 + r.Intn(12)
		}
		b := make([]byte, bl)
		r.Read(b)
		if r.Intn(8) == 0 {
			for k := range b {
				b[k] = 0xff
			}
		}
		consumed := r.Intn(bl*8 + 1)
		w := 1 + r.Intn(16)
		if r.Intn(2) == 0 {
			w = 3 + r.Intn(8)
		}
		if i < 200 { // boundaries: the last bits of the digest
			consumed = bl*8 - w + (i%5 - 2)
			if consumed < 0 {
				consumed = 0
			}
		}
		out, nc, failed := hamt.VerifNext(b, consumed, w)
		res := "None"
		if !failed {
			res = vh.Opt(true, vh.Pair(vh.Z(int64(out)), vh.Z(int64(nc))))
		}
		cs.Add(vh.App("CNext", vh.Bytes(b), vh.Z(int64(consumed)), vh.Z(int64(w)), res),
			map[string]any{"kind": "next", "bytes": fmt.Sprintf("%x", b), "consumed": consumed, "i": w})
		st.Case(fmt.Sprintf("next|%x|%d|%d", b, consumed, w), w > 8-consumed%8)
		st.Count("next")
	}
	cs.Close()
	st.Write(e)
}
