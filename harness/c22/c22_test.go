// Correspondence harness for C22 (dspinner pin model): histories of Pin/PinWithMode/
// Unpin/Update — some with an injected fetch failure (a DAG service wrapper fails the Get
// of a chosen node during the call), some with an already cancelled context — over random
// DAGs with shared subtrees, interleaved with IsPinned/IsPinnedWithType/CheckIfPinned
// (WithType)/RecursiveKeys/DirectKeys queries.  Results and answers are compared inside
// Coq with the mechanism model (lib/PinModel.v, model/M_C22.v) and with the pin model.
package c22

import (
	"context"
	"errors"
	"fmt"
	"sort"
	"strings"
	"testing"

	ipfspinner "github.com/ipfs/boxo/pinning/pinner"
	"github.com/ipfs/boxo/pinning/pinner/dspinner"
	"github.com/ipfs/go-cid"
	ipld "github.com/ipfs/go-ipld-format"
	logging "github.com/ipfs/go-log/v2"

	"verif/harness/c23/pinh"
	"verif/harness/vh"
)

type op struct {
	kind      string // pin pinmode unpin update
	c, c2     int
	rec       bool
	name      int
	mode      int
	flag      bool
	failAt    int // node whose Get fails during the call, -1 none
	cancelled bool
}

type query struct {
	kind     string // is check keys
	c        int
	mode     int
	names    bool
	cs       []int
	rec, det bool
}

// descendants-or-self of node i
func closure(d *pinh.DAG, i int) []int {
	seen := map[int]bool{}
	var walk func(int)
	walk = func(j int) {
		if seen[j] {
			return
		}
		seen[j] = true
		for _, ch := range d.Links[j] {
			walk(ch)
		}
	}
	walk(i)
	out := make([]int, 0, len(seen))
	for j := range seen {
		out = append(out, j)
	}
	sort.Ints(out)
	return out
}

func (o op) coq(fetchOK bool) string {
	switch o.kind {
	case "pin":
		return fmt.Sprintf("(OPin %d %s %d %s)", o.c, vh.Bool(o.rec), o.name, vh.Bool(fetchOK))
	case "pinmode":
		return fmt.Sprintf("(OPinMode %d %d %d)", o.c, o.mode, o.name)
	case "unpin":
		return fmt.Sprintf("(OUnpin %d %s)", o.c, vh.Bool(o.rec))
	}
	return fmt.Sprintf("(OUpdate %d %d %s %s)", o.c, o.c2, vh.Bool(o.flag), vh.Bool(fetchOK))
}

func (o op) short() string {
	s := ""
	switch o.kind {
	case "pin":
		s = fmt.Sprintf("pin(%d,rec=%v,n%d)", o.c, o.rec, o.name)
	case "pinmode":
		s = fmt.Sprintf("pinmode(%d,m%d,n%d)", o.c, o.mode, o.name)
	case "unpin":
		s = fmt.Sprintf("unpin(%d,rec=%v)", o.c, o.rec)
	default:
		s = fmt.Sprintf("update(%d->%d,unpin=%v)", o.c, o.c2, o.flag)
	}
	if o.failAt >= 0 {
		s += fmt.Sprintf("!fail@%d", o.failAt)
	}
	if o.cancelled {
		s += "!cancelled"
	}
	return s
}

func (q query) coq() string {
	switch q.kind {
	case "is":
		return fmt.Sprintf("(QIsPinned %d %d)", q.c, q.mode)
	case "check":
		return fmt.Sprintf("(QCheck %d %s %s)", q.mode, vh.Bool(q.names), vh.ListOf(q.cs, func(i int) string { return fmt.Sprint(i) }))
	}
	return fmt.Sprintf("(QKeys %s %s)", vh.Bool(q.rec), vh.Bool(q.det))
}

func (q query) short() string {
	switch q.kind {
	case "is":
		return fmt.Sprintf("is(%d,m%d)", q.c, q.mode)
	case "check":
		return fmt.Sprintf("check(m%d,names=%v,%v)", q.mode, q.names, q.cs)
	}
	return fmt.Sprintf("keys(rec=%v,detailed=%v)", q.rec, q.det)
}

func nameIdx(s string) int {
	for i, n := range pinh.Names {
		if n == s {
			return i
		}
	}
	return 9997
}

func idxOf(d *pinh.DAG, c cid.Cid) int {
	if i, ok := d.Index[c]; ok {
		return i
	}
	return 9998
}

func runQuery(ctx context.Context, p ipfspinner.Pinner, d *pinh.DAG, q query) string {
	switch q.kind {
	case "is":
		var reason string
		var pinned bool
		var err error
		if q.mode == 5 && q.names { // plain IsPinned
			reason, pinned, err = p.IsPinned(ctx, d.Cids[q.c])
		} else {
			reason, pinned, err = p.IsPinnedWithType(ctx, d.Cids[q.c], ipfspinner.Mode(q.mode))
		}
		if err != nil {
			return "AErr"
		}
		kind, via := 0, "[]"
		switch {
		case !pinned:
		case reason == "recursive":
			kind = 1
		case reason == "direct":
			kind = 2
		default:
			kind = 3
			via = "[9999]"
			if rc, e := cid.Decode(reason); e == nil {
				via = fmt.Sprintf("[%d]", idxOf(d, rc))
			}
		}
		return fmt.Sprintf("(AIs %s %d %s)", vh.Bool(pinned), kind, via)
	case "check":
		cs := make([]cid.Cid, len(q.cs))
		for i, c := range q.cs {
			cs[i] = d.Cids[c]
		}
		var res []ipfspinner.Pinned
		var err error
		if q.mode == 5 && !q.names && q.rec { // plain CheckIfPinned
			res, err = p.CheckIfPinned(ctx, cs...)
		} else {
			res, err = p.CheckIfPinnedWithType(ctx, ipfspinner.Mode(q.mode), q.names, cs...)
		}
		if err != nil {
			return "AErr"
		}
		rows := make([]string, len(res))
		for i, r := range res {
			via := "[]"
			if r.Mode == ipfspinner.Indirect {
				via = fmt.Sprintf("[%d]", idxOf(d, r.Via))
			}
			rows[i] = fmt.Sprintf("(%d, %d, %d, %s)", idxOf(d, r.Key), int(r.Mode), nameIdx(r.Name), via)
		}
		sort.Strings(rows)
		return "(ACheck " + vh.List(rows) + ")"
	}
	var ch <-chan ipfspinner.StreamedPin
	if q.rec {
		ch = p.RecursiveKeys(ctx, q.det)
	} else {
		ch = p.DirectKeys(ctx, q.det)
	}
	var rows []string
	for sp := range ch {
		if sp.Err != nil {
			return "AErr"
		}
		if q.det {
			rows = append(rows, fmt.Sprintf("(%d, %d, %d)", idxOf(d, sp.Pin.Key), int(sp.Pin.Mode), nameIdx(sp.Pin.Name)))
		} else {
			rows = append(rows, fmt.Sprintf("(%d, 9, 0)", idxOf(d, sp.Pin.Key)))
		}
	}
	sort.Strings(rows)
	return "(AKeys " + vh.List(rows) + ")"
}

func genQuery(e *vh.Env, n int, pool []int) query {
	r := e.Rng
	c := func() int {
		if r.Intn(3) == 0 {
			return r.Intn(n)
		}
		return pool[r.Intn(len(pool))]
	}
	switch x := r.Intn(10); {
	case x < 5:
		return query{kind: "is", c: c(), mode: []int{0, 1, 2, 2, 2, 3, 5, 5, 5, 4, 6}[r.Intn(11)], names: r.Intn(2) == 0}
	case x < 8:
		k := 1 + r.Intn(5)
		perm := r.Perm(n)
		cs := append([]int(nil), perm[:min(k, n)]...)
		return query{kind: "check", mode: []int{0, 1, 2, 2, 3, 5, 5, 5, 7}[r.Intn(9)], names: r.Intn(2) == 0, rec: r.Intn(2) == 0, cs: cs}
	}
	return query{kind: "keys", rec: r.Intn(2) == 0, det: r.Intn(2) == 0}
}

func genOp(e *vh.Env, d *pinh.DAG, pool []int) op {
	r := e.Rng
	n := len(d.Cids)
	c := func() int {
		if r.Intn(5) == 0 {
			return r.Intn(n)
		}
		return pool[r.Intn(len(pool))]
	}
	o := op{failAt: -1}
	switch x := r.Intn(100); {
	case x < 42:
		o.kind, o.c, o.rec, o.name = "pin", c(), r.Intn(4) != 0, r.Intn(len(pinh.Names))
	case x < 55:
		o.kind, o.c, o.mode, o.name = "pinmode", c(), []int{0, 0, 1, 1, 2, 3, 5, 8}[r.Intn(8)], r.Intn(len(pinh.Names))
	case x < 78:
		o.kind, o.c, o.rec = "unpin", c(), r.Intn(4) != 0
	default:
		o.kind, o.c, o.c2, o.flag = "update", c(), c(), r.Intn(3) != 0
	}
	// inject a fetch failure into a third of the fetching calls: fail a node of the fetched graph
	if (o.kind == "pin" && o.rec || o.kind == "update") && r.Intn(3) == 0 {
		target := o.c
		if o.kind == "update" {
			target = o.c2
		}
		cl := closure(d, target)
		o.failAt = cl[r.Intn(len(cl))]
		if o.kind == "update" {
			o.failAt = target // DiffEnumerate always gets both roots; deeper nodes only when they differ
		}
	}
	if r.Intn(14) == 0 {
		o.cancelled = true
	}
	return o
}

type hist struct {
	nodes int
	evs   []any // op or query
}

func corpus() []hist {
	P := func(c int, rec bool, n int) op { return op{kind: "pin", c: c, rec: rec, name: n, failAt: -1} }
	return []hist{
		// C22-1: recursive re-pin under a new name whose fetch fails: the old pin is gone
		{8, []any{P(7, true, 1), query{kind: "is", c: 7, mode: 5},
			op{kind: "pin", c: 7, rec: true, name: 2, failAt: 7}, query{kind: "is", c: 7, mode: 5},
			query{kind: "keys", rec: true, det: true}, query{kind: "check", mode: 5, names: true, cs: []int{7, 6, 0}}}},
		// C22-2: IsPinnedWithType(Indirect) on a recursive root that lies below another root
		{8, []any{P(7, true, 1), P(6, true, 2), P(5, true, 0), P(4, true, 0), P(3, true, 0), P(2, true, 0), P(1, true, 0),
			query{kind: "is", c: 6, mode: 2}, query{kind: "is", c: 5, mode: 2}, query{kind: "is", c: 4, mode: 2}, query{kind: "is", c: 3, mode: 2},
			query{kind: "is", c: 2, mode: 2}, query{kind: "is", c: 1, mode: 2}, query{kind: "is", c: 0, mode: 2},
			query{kind: "check", mode: 2, cs: []int{0, 1, 2, 3, 4, 5, 6, 7}}}},
		// precedence, rejected calls, update onto a directly pinned CID, unpin of an indirect pin
		{8, []any{P(3, false, 1), P(3, true, 2), P(3, false, 3), query{kind: "is", c: 3, mode: 5, names: true},
			op{kind: "unpin", c: 3, rec: false, failAt: -1}, op{kind: "unpin", c: 0, rec: true, failAt: -1}, P(2, false, 1),
			op{kind: "update", c: 3, c2: 2, flag: true, failAt: -1}, query{kind: "keys", rec: true, det: true}, query{kind: "keys", rec: false, det: true},
			query{kind: "check", mode: 5, names: true, rec: true, cs: []int{2, 3, 1, 0}}, op{kind: "unpin", c: 2, rec: true, failAt: -1},
			query{kind: "check", mode: 5, names: false, rec: true, cs: []int{2, 3}},
			op{kind: "pinmode", c: 1, mode: 2, name: 1, failAt: -1}, op{kind: "pinmode", c: 1, mode: 0, name: 1, failAt: -1},
			op{kind: "pin", c: 5, rec: true, name: 1, failAt: -1, cancelled: true}, query{kind: "is", c: 5, mode: 5},
			op{kind: "update", c: 1, c2: 5, flag: false, failAt: 5}, query{kind: "keys", rec: true}}},
	}
}

func TestC22(t *testing.T) {
	logging.SetLogLevel("pin", "fatal")
	e := vh.Load(t)
	bg := context.Background()
	st := vh.NewStats("histories (up to 20 operations) of Pin/PinWithMode/Unpin/Update on a real dspinner over random DAGs (4..12 nodes, shared " +
		"subtrees); a third of the fetching calls get an injected Get failure on a node of the fetched graph, some calls an already cancelled " +
		"context, some an invalid mode; after every operation 0..3 random queries (IsPinned, IsPinnedWithType all modes, CheckIfPinned(WithType) " +
		"with/without names, RecursiveKeys/DirectKeys plain/detailed) and a full sweep at the end; non-trivial = at least 6 operations, at " +
		"least one failed call and at least one indirect answer; distinct by the event list")
	cs := vh.NewCases(e, "From V Require Import lib.PinModel model.M_C22.\nOpen Scope N_scope.", "case", "check_case", 50)
	nHist := e.Pick(350, 3000)
	corp := corpus()
	for h := 0; h < nHist; h++ {
		var hs hist
		if h < len(corp) {
			hs = corp[h]
		} else {
			hs.nodes = 4 + e.Rng.Intn(9)
		}
		var dag *pinh.DAG
		if h < len(corp) {
			// corpus DAG: node i links to i-1 and (i>=2) i-2: every node is below every larger one
			dag = chainDAG(hs.nodes)
		} else {
			dag = pinh.BuildDAG(e.Rng, hs.nodes, fmt.Sprint(h))
		}
		if h >= len(corp) {
			pool := []int{e.Rng.Intn(hs.nodes), e.Rng.Intn(hs.nodes), e.Rng.Intn(hs.nodes), hs.nodes - 1}
			nops := 1 + e.Rng.Intn(20)
			for i := 0; i < nops; i++ {
				hs.evs = append(hs.evs, genOp(e, dag, pool))
				for k := e.Rng.Intn(4); k > 0; k-- {
					hs.evs = append(hs.evs, genQuery(e, hs.nodes, pool))
				}
			}
			// final sweep
			all := make([]int, hs.nodes)
			for i := range all {
				all[i] = i
			}
			hs.evs = append(hs.evs, query{kind: "check", mode: 5, names: true, cs: all}, query{kind: "check", mode: 2, cs: all},
				query{kind: "keys", rec: true, det: true}, query{kind: "keys", rec: false, det: true})
			for i := range all {
				hs.evs = append(hs.evs, query{kind: "is", c: i, mode: 5}, query{kind: "is", c: i, mode: 2})
			}
		}
		dserv := pinh.NewDAGService(bg, dag)
		pc := pinh.NewCtx(dag)
		lds := pinh.NewLogDS()
		p, err := dspinner.New(bg, lds, dserv)
		if err != nil {
			t.Fatal(err)
		}
		var terms, shorts []string
		nOps, nFailed, nIndirect := 0, 0, 0
		for _, ev := range hs.evs {
			switch v := ev.(type) {
			case op:
				nOps++
				ctx := bg
				var cancel context.CancelFunc
				if v.cancelled {
					ctx, cancel = context.WithCancel(bg)
					cancel()
				}
				lds.Take()
				if v.failAt >= 0 {
					dserv.Arm(dag.Cids[v.failAt])
				}
				inj0 := dserv.Injected()
				var err error
				switch v.kind {
				case "pin":
					err = p.Pin(ctx, dag.Nodes[v.c], v.rec, pinh.Names[v.name])
				case "pinmode":
					err = p.PinWithMode(ctx, dag.Cids[v.c], ipfspinner.Mode(v.mode), pinh.Names[v.name])
				case "unpin":
					err = p.Unpin(ctx, dag.Cids[v.c], v.rec)
				case "update":
					err = p.Update(ctx, dag.Cids[v.c], dag.Cids[v.c2], v.flag)
				}
				injected := dserv.Injected() > inj0
				dserv.Disarm()
				newID := 0
				for _, w := range lds.Take() {
					if _, id, werr := pc.WriteCoq(w); werr == nil && id != 0 {
						newID = id
					}
				}
				cls := "ROk"
				switch {
				case err == nil:
				case errors.Is(err, ipfspinner.ErrNotPinned):
					cls = "RNotPinned"
				case injected:
					cls = "RFetch"
				default:
					cls = "RErr"
				}
				if err != nil {
					nFailed++
				}
				st.Count("op=" + v.kind)
				st.Count("res=" + cls)
				terms = append(terms, fmt.Sprintf("(EOp %s %d %s %s)", v.coq(v.failAt < 0), newID, vh.Bool(v.cancelled), cls))
				shorts = append(shorts, v.short())
			case query:
				a := runQuery(bg, p, dag, v)
				if strings.Contains(a, " 3 [") || strings.Contains(a, ", 2, 0, [") {
					nIndirect++
				}
				st.Count("query=" + v.kind)
				terms = append(terms, fmt.Sprintf("(EQuery %s %s)", v.coq(), a))
				shorts = append(shorts, v.short())
			}
		}
		p.Close()
		rp := map[string]any{"links": dag.Links, "events": shorts}
		cs.Add("(Case "+dag.LinksCoq()+" "+vh.List(terms)+")", rp)
		st.Case(strings.Join(shorts, ";"), nOps >= 6 && nFailed >= 1 && nIndirect >= 1)
		st.Count(fmt.Sprintf("ops/5=%d", nOps/5))
		st.Sample(rp, 3)
	}
	cs.Close()
	st.Write(e)
}

func chainDAG(n int) *pinh.DAG {
	return pinh.BuildFixed(n, func(i int) []int {
		switch {
		case i == 0:
			return nil
		case i == 1:
			return []int{0}
		}
		return []int{i - 2, i - 1}
	})
}

var _ ipld.Node // keep the import for documentation of the node type used by Pin
