// Correspondence harness for C31 (trustless gateway: raw block and CAR responses).
// Generated UnixFS worlds (files of varied layout, basic and HAMT directories,
// nested) are served by the real gateway handler on a BlocksBackend through
// httptest.  For generated (path, dag-scope, entity-bytes, dups) requests the CAR
// response is decoded, every block is re-hashed, the blocks are loaded into an
// OFFLINE blockstore and the requested path/scope/byte range is re-read from that
// store alone (path with the boxo resolver, file bytes with boxo's DagReader,
// directories with unixfs/io, dag-scope=all with a full walk) and compared with
// the original; failures are reported from here.  The block list of the CAR (as
// small ids), its root, the hash verdict and the stream error go into
// cases_*.v, where the Coq model (model/M_C31.v) computes the set of blocks the
// gateway's traversal emits and the specification the set that is required.
// Raw-block responses (?format=raw) are checked here: body hashes to the CID.
package c31

import (
	"bytes"
	"context"
	"fmt"
	"io"
	"math/rand"
	"net/http"
	"net/http/httptest"
	"sort"
	"strings"
	"testing"

	"github.com/ipfs/boxo/blockservice"
	"github.com/ipfs/boxo/blockstore"
	chunker "github.com/ipfs/boxo/chunker"
	"github.com/ipfs/boxo/exchange/offline"
	bsfetcher "github.com/ipfs/boxo/fetcher/impl/blockservice"
	"github.com/ipfs/boxo/gateway"
	dag "github.com/ipfs/boxo/ipld/merkledag"
	ft "github.com/ipfs/boxo/ipld/unixfs"
	"github.com/ipfs/boxo/ipld/unixfs/hamt"
	"github.com/ipfs/boxo/ipld/unixfs/importer/balanced"
	h "github.com/ipfs/boxo/ipld/unixfs/importer/helpers"
	"github.com/ipfs/boxo/ipld/unixfs/importer/trickle"
	uio "github.com/ipfs/boxo/ipld/unixfs/io"
	"github.com/ipfs/boxo/path"
	"github.com/ipfs/boxo/path/resolver"
	blocks "github.com/ipfs/go-block-format"
	cid "github.com/ipfs/go-cid"
	ds "github.com/ipfs/go-datastore"
	dssync "github.com/ipfs/go-datastore/sync"
	ipld "github.com/ipfs/go-ipld-format"
	"github.com/ipfs/go-unixfsnode"
	car "github.com/ipld/go-car/v2"
	dagpb "github.com/ipld/go-codec-dagpb"
	mh "github.com/multiformats/go-multihash"
	"github.com/prometheus/client_golang/prometheus"

	"verif/harness/vh"
)

var bg = context.Background()

// ---------- the store the gateway serves from ----------
type store struct {
	bs  blockstore.Blockstore
	bsv blockservice.BlockService
	dsv ipld.DAGService
}

func newStore() *store {
	bs := blockstore.NewBlockstore(dssync.MutexWrap(ds.NewMapDatastore()))
	bsv := blockservice.New(bs, offline.Exchange(bs))
	return &store{bs: bs, bsv: bsv, dsv: dag.NewDAGService(bsv)}
}

// ---------- world description (replayable) ----------
type fileSpec struct {
	Name   string `json:"name"`
	Size   int    `json:"size"`
	Chunk  int    `json:"chunk"`
	Width  int    `json:"width"`
	Layout string `json:"layout"`
	Raw    bool   `json:"raw_leaves"`
	CidV1  bool   `json:"cidv1"`
	Period int    `json:"period"` // >0: periodic content (duplicate blocks), 0: random
	Seed   int64  `json:"seed"`
}
type dirSpec struct {
	Name  string     `json:"name"`
	Hamt  int        `json:"hamt_width"` // 0 = basic directory
	Files []fileSpec `json:"files"`
	Dirs  []dirSpec  `json:"dirs"`
}

func (f fileSpec) data() []byte {
	b := make([]byte, f.Size)
	if f.Period > 0 {
		for i := range b {
			b[i] = byte('a' + i%f.Period)
		}
		return b
	}
	rand.New(rand.NewSource(f.Seed)).Read(b)
	return b
}

// ---------- the world as built ----------
type world struct {
	spec   dirSpec
	root   cid.Cid
	ids    map[string]int    // cid key -> block id
	names  map[string]int    // entry name -> name id
	term   string            // Coq term of the tree
	nblk   int
	files  map[string][]byte // path (joined with /) -> content
	kinds  map[string]string // path -> file | dir | hamt
	cids   map[string]cid.Cid
	below  map[string]map[string]bool // path -> set of cid keys of the whole DAG below
	listing map[string][]string       // dir path -> sorted entry names
	hsize  map[string]int64           // path -> size of the entity as Head measures it
	paths  []string
}

func (s *store) addFile(f fileSpec) (ipld.Node, []byte, error) {
	data := f.data()
	spl, err := chunker.FromString(bytes.NewReader(data), fmt.Sprintf("size-%d", f.Chunk))
	if err != nil {
		return nil, nil, err
	}
	var bld cid.Builder = cid.V0Builder{}
	if f.CidV1 {
		bld = cid.V1Builder{Codec: cid.DagProtobuf, MhType: mh.SHA2_256}
	}
	dbp := h.DagBuilderParams{Maxlinks: f.Width, RawLeaves: f.Raw, CidBuilder: bld, Dagserv: s.dsv}
	db, err := dbp.New(spl)
	if err != nil {
		return nil, nil, err
	}
	var nd ipld.Node
	if f.Layout == "trickle" {
		nd, err = trickle.Layout(db)
	} else {
		nd, err = balanced.Layout(db)
	}
	return nd, data, err
}

func (s *store) addDir(w *world, d dirSpec, prefix string) (ipld.Node, error) {
	type ent struct {
		name string
		nd   ipld.Node
	}
	var ents []ent
	for _, f := range d.Files {
		nd, data, err := s.addFile(f)
		if err != nil {
			return nil, err
		}
		p := strings.TrimPrefix(prefix+"/"+f.Name, "/")
		w.files[p] = data
		w.kinds[p] = "file"
		w.cids[p] = nd.Cid()
		w.paths = append(w.paths, p)
		ents = append(ents, ent{f.Name, nd})
	}
	for _, sd := range d.Dirs {
		p := strings.TrimPrefix(prefix+"/"+sd.Name, "/")
		nd, err := s.addDir(w, sd, p)
		if err != nil {
			return nil, err
		}
		ents = append(ents, ent{sd.Name, nd})
	}
	var out ipld.Node
	var names []string
	for _, e := range ents {
		names = append(names, e.name)
	}
	sort.Strings(names)
	if d.Hamt > 0 {
		sh, err := hamt.NewShard(s.dsv, d.Hamt)
		if err != nil {
			return nil, err
		}
		for _, e := range ents {
			if err := sh.Set(bg, e.name, e.nd); err != nil {
				return nil, err
			}
		}
		out, err = sh.Node()
		if err != nil {
			return nil, err
		}
		w.kinds[prefix] = "hamt"
	} else {
		dir, err := uio.NewDirectory(s.dsv)
		if err != nil {
			return nil, err
		}
		for _, e := range ents {
			if err := dir.AddChild(bg, e.name, e.nd); err != nil {
				return nil, err
			}
		}
		out, err = dir.GetNode()
		if err != nil {
			return nil, err
		}
		w.kinds[prefix] = "dir"
	}
	if err := s.dsv.Add(bg, out); err != nil {
		return nil, err
	}
	w.cids[prefix] = out.Cid()
	w.listing[prefix] = names
	w.paths = append(w.paths, prefix)
	return out, nil
}

// treeTerm walks the stored DAG block by block and renders it as the Coq rose tree; name = -1 for blocks that
// are not directory entries.
func (s *store) treeTerm(w *world, c cid.Cid, name int, padLen int) (string, error) {
	nd, err := s.dsv.Get(bg, c)
	if err != nil {
		return "", err
	}
	k := bkey(c)
	id, ok := w.ids[k]
	if !ok {
		id = len(w.ids)
		w.ids[k] = id
	}
	w.nblk++
	mk := func(kind string, ln int, kids []string) string {
		return vh.App("Nd", kind, vh.Z(int64(id)), vh.Z(int64(name)), vh.Z(int64(ln)), vh.List(kids))
	}
	switch n := nd.(type) {
	case *dag.RawNode:
		return mk("KRaw", len(n.RawData()), nil), nil
	case *dag.ProtoNode:
		fsn, err := ft.FSNodeFromBytes(n.Data())
		if err != nil {
			return "", err
		}
		var kids []string
		switch fsn.Type() {
		case ft.TFile, ft.TRaw:
			if len(n.Links()) == 0 {
				return mk("KLeaf", len(fsn.Data()), nil), nil
			}
			for _, l := range n.Links() {
				t, err := s.treeTerm(w, l.Cid, -1, 0)
				if err != nil {
					return "", err
				}
				kids = append(kids, t)
			}
			return mk("KFile", 0, kids), nil
		case ft.TDirectory:
			for _, l := range n.Links() {
				t, err := s.treeTerm(w, l.Cid, w.nameID(l.Name), 0)
				if err != nil {
					return "", err
				}
				kids = append(kids, t)
			}
			return mk("KDir", 0, kids), nil
		case ft.THAMTShard:
			pad := len(fmt.Sprintf("%X", fsn.Fanout()-1))
			for _, l := range n.Links() {
				var t string
				if len(l.Name) == pad {
					t, err = s.treeTerm(w, l.Cid, -1, pad)
				} else {
					t, err = s.treeTerm(w, l.Cid, w.nameID(l.Name[pad:]), 0)
				}
				if err != nil {
					return "", err
				}
				kids = append(kids, t)
			}
			return mk("KShard", 0, kids), nil
		}
		return "", fmt.Errorf("unexpected unixfs type %v", fsn.Type())
	}
	return "", fmt.Errorf("unexpected node type %T", nd)
}

// bkey identifies a block by its multihash: CIDv0 and CIDv1 of the same bytes are one block (blockstores and
// the CAR writer's de-duplication key by multihash too).
func bkey(c cid.Cid) string { return string(c.Hash()) }

func (w *world) nameID(n string) int {
	id, ok := w.names[n]
	if !ok {
		id = len(w.names)
		w.names[n] = id
	}
	return id
}

func (s *store) allBelow(c cid.Cid) (map[string]bool, error) {
	set := map[string]bool{}
	err := dag.Walk(bg, dag.GetLinksDirect(s.dsv), c, func(c cid.Cid) bool {
		if set[bkey(c)] {
			return false
		}
		set[bkey(c)] = true
		return true
	})
	return set, err
}

func (s *store) build(spec dirSpec) (*world, error) {
	w := &world{spec: spec, ids: map[string]int{}, names: map[string]int{}, files: map[string][]byte{}, kinds: map[string]string{},
		cids: map[string]cid.Cid{}, below: map[string]map[string]bool{}, listing: map[string][]string{}, hsize: map[string]int64{}}
	root, err := s.addDir(w, spec, "")
	if err != nil {
		return nil, err
	}
	w.root = root.Cid()
	w.term, err = s.treeTerm(w, w.root, -1, 0)
	if err != nil {
		return nil, err
	}
	for _, p := range w.paths {
		w.below[p], err = s.allBelow(w.cids[p])
		if err != nil {
			return nil, err
		}
		if data, ok := w.files[p]; ok {
			w.hsize[p] = int64(len(data))
		} else {
			// a directory: block length + the Tsize of every link (merkledag's cumulative size)
			nd, err := s.dsv.Get(bg, w.cids[p])
			if err != nil {
				return nil, err
			}
			sz := int64(len(nd.RawData()))
			for _, l := range nd.Links() {
				sz += int64(l.Size)
			}
			w.hsize[p] = sz
		}
	}
	return w, nil
}

// ---------- requests ----------
type request struct {
	Path   string `json:"path"`  // below the root CID, "" = the root itself
	Scope  string `json:"scope"` // "" (absent), block, entity, all
	Range  string `json:"entity_bytes"`
	HasRng bool   `json:"has_entity_bytes"`
	From   int64  `json:"from"`
	ToAll  bool   `json:"to_star"`
	To     int64  `json:"to"`
	Dups   string `json:"dups"` // "", y, n
	Accept bool   `json:"via_accept_header"`
	// gateway configuration of the handler that serves this request
	LimitKind string `json:"limit_kind"` // off ample exact below
	Limit     int64  `json:"max_unixfs_dag_response_size"`
	Trustless bool   `json:"deserialized_responses_off"`
	// further parameters the CAR handler accepts
	Order   string `json:"car_order"`   // "", dfs, unk
	Version string `json:"car_version"` // "", 1
	Bad     string `json:"bad_param"`   // "" or which parameter carries a value the handler rejects
	HSize   int64  `json:"head_size"`
}

func (rq request) url(root cid.Cid) string {
	u := "/ipfs/" + root.String()
	if rq.Path != "" {
		u += "/" + rq.Path
	}
	var q []string
	if !rq.Accept {
		q = append(q, "format=car")
	}
	if rq.Scope != "" && rq.Bad != "scope" {
		q = append(q, "dag-scope="+rq.Scope)
	}
	if rq.HasRng && !strings.HasPrefix(rq.Bad, "bytes") {
		q = append(q, "entity-bytes="+rq.Range)
	}
	if rq.Dups != "" && !rq.Accept && rq.Bad != "dups" {
		q = append(q, "car-dups="+rq.Dups)
	}
	if !rq.Accept {
		if rq.Order != "" && rq.Bad != "order" {
			q = append(q, "car-order="+rq.Order)
		}
		if rq.Version != "" && rq.Bad != "version" {
			q = append(q, "car-version="+rq.Version)
		}
	}
	switch rq.Bad {
	case "scope":
		q = append(q, "dag-scope=file")
	case "order":
		q = append(q, "car-order=bfs")
	case "dups":
		q = append(q, "car-dups=maybe")
	case "version":
		q = append(q, "car-version=2")
	case "bytes-syntax":
		q = append(q, "entity-bytes=5")
	case "bytes-words":
		q = append(q, "entity-bytes=a:b")
	}
	if len(q) > 0 {
		u += "?" + strings.Join(q, "&")
	}
	return u
}

func (rq request) accept() string {
	acc := "application/vnd.ipld.car"
	if rq.Version != "" {
		acc += "; version=" + rq.Version
	}
	if rq.Order != "" {
		acc += "; order=" + rq.Order
	}
	if rq.Dups != "" {
		acc += "; dups=" + rq.Dups
	}
	return acc
}

func (rq request) coq(w *world) string {
	var names []string
	if rq.Path != "" {
		for _, seg := range strings.Split(rq.Path, "/") {
			names = append(names, vh.Z(int64(w.names[seg])))
		}
	}
	sc := "SAll"
	switch rq.Scope {
	case "block":
		sc = "SBlock"
	case "entity":
		sc = "SEntity"
	}
	rng := "None"
	if rq.HasRng {
		to := "None"
		if !rq.ToAll {
			to = vh.Opt(true, vh.Z(rq.To))
		}
		rng = vh.Opt(true, vh.Pair(vh.Z(rq.From), to))
	}
	return vh.App("Build_creq", vh.List(names), sc, rng, vh.Bool(rq.Dups == "y"), vh.Z(rq.Limit), vh.Z(rq.HSize), vh.Bool(rq.Bad != ""))
}

// semantic byte range [lo, hi) of an entity-bytes request on a file of n bytes, written independently of the
// gateway's arithmetic: positions p with lo <= p <= to, both relative to the end when negative
func (rq request) semRange(n int64) (int64, int64) {
	if !rq.HasRng {
		return 0, n
	}
	lo := rq.From
	if lo < 0 {
		lo += n
	}
	hi := n
	if !rq.ToAll {
		t := rq.To
		if t < 0 {
			t += n
		}
		hi = t + 1
	}
	if lo < 0 {
		lo = 0
	}
	if hi > n {
		hi = n
	}
	if hi < lo {
		hi = lo
	}
	return lo, hi
}

// ---------- the offline re-read ----------
type carView struct {
	roots  []cid.Cid
	blocks []blocks.Block
	hashOK bool
	decErr error
}

func decodeCAR(body []byte) carView {
	v := carView{hashOK: true}
	br, err := car.NewBlockReader(bytes.NewReader(body), car.WithTrustedCAR(true))
	if err != nil {
		v.decErr = err
		return v
	}
	v.roots = br.Roots
	for {
		b, err := br.Next()
		if err == io.EOF {
			break
		}
		if err != nil {
			v.decErr = err
			break
		}
		// re-hash: the bytes must hash to the CID under the CID's own multihash function
		c2, err := b.Cid().Prefix().Sum(b.RawData())
		if err != nil || !c2.Equals(b.Cid()) {
			v.hashOK = false
		}
		v.blocks = append(v.blocks, b)
	}
	return v
}

func offlineStore(v carView) *store {
	s := newStore()
	for _, b := range v.blocks {
		if err := s.bs.Put(bg, b); err != nil {
			panic(err)
		}
	}
	return s
}

// reread re-reads what was requested from the CAR's blocks alone; "" = fine.
func reread(w *world, rq request, v carView) string {
	off := offlineStore(v)
	// 1. the path
	fc := bsfetcher.NewFetcherConfig(off.bsv)
	fc.PrototypeChooser = dagpb.AddSupportToChooser(bsfetcher.DefaultPrototypeChooser)
	res := resolver.NewBasicResolver(fc.WithReifier(unixfsnode.Reify))
	ps := "/ipfs/" + w.root.String()
	if rq.Path != "" {
		ps += "/" + rq.Path
	}
	p, err := path.NewPath(ps)
	if err != nil {
		return "harness: " + err.Error()
	}
	ip, err := path.NewImmutablePath(p)
	if err != nil {
		return "harness: " + err.Error()
	}
	last, rem, err := res.ResolveToLastNode(bg, ip)
	if err != nil {
		return "path cannot be resolved from the CAR alone: " + err.Error()
	}
	if len(rem) != 0 || !last.Equals(w.cids[rq.Path]) {
		return fmt.Sprintf("path resolves to %s (remainder %v) from the CAR, expected %s", last, rem, w.cids[rq.Path])
	}
	// 2. the scope
	has := func(c cid.Cid) bool { ok, _ := off.bs.Has(bg, c); return ok }
	if !has(last) {
		return "terminal block missing"
	}
	scope := rq.Scope
	if scope == "" {
		scope = "all"
	}
	switch scope {
	case "block":
		return ""
	case "all":
		seen, err := off.allBelow(last)
		if err != nil {
			return "dag-scope=all: DAG cannot be walked from the CAR alone: " + err.Error()
		}
		if len(seen) != len(w.below[rq.Path]) {
			return fmt.Sprintf("dag-scope=all: %d blocks reachable in the CAR, %d in the original", len(seen), len(w.below[rq.Path]))
		}
		return ""
	}
	nd, err := off.dsv.Get(bg, last)
	if err != nil {
		return err.Error()
	}
	switch w.kinds[rq.Path] {
	case "file":
		data := w.files[rq.Path]
		lo, hi := rq.semRange(int64(len(data)))
		if hi <= lo {
			return ""
		}
		dr, err := uio.NewDagReader(bg, nd, off.dsv)
		if err != nil {
			return "entity: file cannot be opened from the CAR alone: " + err.Error()
		}
		if _, err := dr.Seek(lo, io.SeekStart); err != nil {
			return fmt.Sprintf("entity: seek to %d failed on the CAR alone: %v", lo, err)
		}
		buf := make([]byte, hi-lo)
		if _, err := io.ReadFull(dr, buf); err != nil {
			return fmt.Sprintf("entity: bytes [%d,%d) cannot be read from the CAR alone: %v", lo, hi, err)
		}
		if !bytes.Equal(buf, data[lo:hi]) {
			return fmt.Sprintf("entity: bytes [%d,%d) read from the CAR differ from the file", lo, hi)
		}
	case "dir", "hamt":
		d, err := uio.NewDirectoryFromNode(off.dsv, nd)
		if err != nil {
			return "entity: directory cannot be opened from the CAR alone: " + err.Error()
		}
		links, err := d.Links(bg)
		if err != nil {
			return "entity: directory cannot be listed from the CAR alone: " + err.Error()
		}
		var names []string
		for _, l := range links {
			names = append(names, l.Name)
		}
		sort.Strings(names)
		if strings.Join(names, "/") != strings.Join(w.listing[rq.Path], "/") {
			return fmt.Sprintf("entity: listing from the CAR %v differs from %v", names, w.listing[rq.Path])
		}
	}
	return ""
}

// ---------- generators ----------
func genFileSpec(r *rand.Rand, name string) fileSpec {
	f := fileSpec{Name: name, Layout: "balanced", Width: 2 + r.Intn(3), Raw: r.Intn(2) == 0, CidV1: r.Intn(2) == 0, Seed: r.Int63n(1 << 40)}
	if r.Intn(3) == 0 {
		f.Layout = "trickle"
	}
	switch k := r.Intn(10); {
	case k == 0:
		f.Size = 0
	case k == 1:
		f.Size = 1 + r.Intn(5)
	case k < 6:
		f.Size = 6 + r.Intn(40)
	default:
		f.Size = 40 + r.Intn(160)
	}
	f.Chunk = []int{3, 4, 5, 8, 16, 32, 1024}[r.Intn(7)]
	for f.Size/f.Chunk > 24 {
		f.Chunk *= 2
	}
	if r.Intn(4) == 0 {
		f.Period = f.Chunk // every full chunk identical: duplicate blocks
	}
	return f
}

func genDirSpec(r *rand.Rand, name string, depth int) dirSpec {
	d := dirSpec{Name: name}
	nf := 1 + r.Intn(3)
	if r.Intn(5) < 2 {
		d.Hamt = 8
		nf = 6 + r.Intn(14) // enough entries for sub-shards
	}
	for i := 0; i < nf; i++ {
		var f fileSpec
		if d.Hamt > 0 && i >= 3 {
			f = fileSpec{Name: fmt.Sprintf("%s_s%d", name, i), Layout: "balanced", Width: 2, Chunk: 1024, Size: 1 + r.Intn(3), Seed: r.Int63n(1 << 40), Raw: r.Intn(2) == 0}
		} else {
			f = genFileSpec(r, fmt.Sprintf("%s_f%d", name, i))
		}
		d.Files = append(d.Files, f)
	}
	if depth > 0 {
		for i, n := 0, r.Intn(3); i < n; i++ {
			d.Dirs = append(d.Dirs, genDirSpec(r, fmt.Sprintf("%s_d%d", name, i), depth-1))
		}
	}
	return d
}

func corpusWorld() dirSpec {
	return dirSpec{Name: "r", Files: []fileSpec{
		{Name: "ten", Size: 10, Chunk: 3, Width: 2, Layout: "balanced", Raw: true, Period: 10},
		{Name: "one", Size: 5, Chunk: 1024, Width: 2, Layout: "balanced", Raw: false},
		{Name: "rawone", Size: 5, Chunk: 1024, Width: 2, Layout: "balanced", Raw: true, CidV1: true},
		{Name: "rep", Size: 24, Chunk: 4, Width: 3, Layout: "trickle", Raw: true, Period: 4},
		{Name: "empty", Size: 0, Chunk: 4, Width: 2, Layout: "balanced"},
	}, Dirs: []dirSpec{
		{Name: "sub", Files: []fileSpec{{Name: "deep", Size: 33, Chunk: 4, Width: 2, Layout: "balanced", Raw: false, CidV1: true, Seed: 7}},
			Dirs: []dirSpec{{Name: "h", Hamt: 8, Files: func() []fileSpec {
				var fs []fileSpec
				for i := 0; i < 14; i++ {
					fs = append(fs, fileSpec{Name: fmt.Sprintf("e%d", i), Size: 2 + i, Chunk: 4, Width: 2, Layout: "balanced", Raw: i%2 == 0, Seed: int64(i)})
				}
				return fs
			}()}}},
	}}
}

func pickOff(r *rand.Rand, size, chunk int) int64 {
	b := []int64{0, 1, int64(chunk) - 1, int64(chunk), int64(chunk) + 1, 2 * int64(chunk), int64(size) - 1, int64(size), int64(size) + 1,
		int64(size) / 2, int64(size) + 7, int64(size) - int64(chunk), int64(size) - int64(chunk) - 1}
	v := b[r.Intn(len(b))]
	if r.Intn(3) == 0 {
		v = int64(r.Intn(size + 2))
	}
	if v < 0 {
		v = 0
	}
	return v
}

// a valid entity-bytes value (NewDagByteRange accepts it) around the boundaries of the file
func genRange(r *rand.Rand, rq *request, size, chunk int) {
	rq.HasRng = true
	rq.From = pickOff(r, size, chunk)
	if r.Intn(4) == 0 {
		rq.From = -rq.From - int64(r.Intn(2))
	}
	if r.Intn(4) == 0 {
		rq.ToAll = true
		rq.Range = fmt.Sprintf("%d:*", rq.From)
		return
	}
	for tries := 0; ; tries++ {
		rq.To = pickOff(r, size, chunk)
		if r.Intn(3) == 0 {
			rq.To = rq.From + int64(r.Intn(chunk+2))
		}
		if r.Intn(4) == 0 {
			rq.To = -rq.To - int64(r.Intn(2))
		}
		okSame := !((rq.From >= 0 && rq.To >= 0 && rq.From > rq.To) || (rq.From < 0 && rq.To < 0 && rq.From > rq.To))
		if okSame {
			break
		}
	}
	rq.Range = fmt.Sprintf("%d:%d", rq.From, rq.To)
}

func TestC31(t *testing.T) {
	e := vh.Load(t)
	st := vh.NewStats("real gateway handler (BlocksBackend, httptest) serving generated UnixFS worlds (files balanced/trickle with raw or dag-pb " +
		"leaves, basic and HAMT directories, nested); CAR responses for generated (path, dag-scope, entity-bytes, dups) are decoded, every " +
		"block re-hashed, loaded into an offline blockstore and path/scope/byte range re-read from it alone (Go oracle); block id list, " +
		"root, hash verdict and stream error are evaluated in Coq against the model's emitted set and the required set; " +
		"non-trivial = path through at least one directory, or entity-bytes on a multi-block file, or a HAMT terminal; distinct by (world, request)")
	r := e.Rng
	s := newStore()
	be, err := gateway.NewBlocksBackend(s.bsv)
	if err != nil {
		t.Fatal(err)
	}
	type hkey struct {
		limit     int64
		trustless bool
	}
	handlers := map[hkey]http.Handler{}
	handler := func(limit int64, trustless bool) http.Handler {
		k := hkey{limit, trustless}
		if h, ok := handlers[k]; ok {
			return h
		}
		h := gateway.NewHandler(gateway.Config{DeserializedResponses: !trustless, MaxUnixFSDAGResponseSize: limit,
			MetricsRegistry: prometheus.NewRegistry()}, be)
		handlers[k] = h
		return h
	}
	setLimit := func(rq *request, w *world, kind string) {
		hs := w.hsize[rq.Path]
		rq.HSize = hs
		rq.LimitKind = kind
		switch kind {
		case "ample":
			rq.Limit = hs + 4096
		case "exact": // sz > limit is what is refused: a limit equal to the size passes
			rq.Limit = max(hs, 1)
		case "below":
			rq.Limit = hs - 1
			if rq.Limit <= 0 { // a limit of 0 means "off"
				rq.Limit, rq.LimitKind = max(hs, 1), "exact"
			}
		default:
			rq.Limit, rq.LimitKind = 0, "off"
		}
	}

	nWorlds, perWorld := e.Pick(5, 60), e.Pick(150, 260)
	specs := []dirSpec{corpusWorld()}
	for i := 0; i < nWorlds; i++ {
		specs = append(specs, genDirSpec(r, fmt.Sprintf("w%d", i), 2))
	}
	var worlds []*world
	var pre strings.Builder
	pre.WriteString("From V Require Import model.M_C31.\nOpen Scope Z_scope.\n")
	for i, sp := range specs {
		w, err := s.build(sp)
		if err != nil {
			t.Fatalf("world %d: %v", i, err)
		}
		if w.nblk > 400 {
			continue
		}
		fmt.Fprintf(&pre, "Definition w%d : node := %s.\n", len(worlds), w.term)
		worlds = append(worlds, w)
	}
	cs := vh.NewCases(e, pre.String(), "case", "check_case", 200)

	for wi, w := range worlds {
		sort.Strings(w.paths)
		st.Count(fmt.Sprintf("world_blocks<=%d", ((w.nblk+49)/50)*50))
		var rqs []request
		if wi == 0 {
			// the size-limit pre-check must not change what the CAR contains (seeded/C31-2: it dropped the path blocks)
			for _, p := range []string{"sub/deep", "sub/h/e7", "ten", "sub", "sub/h", ""} {
				for _, k := range []string{"ample", "exact", "below"} {
					for _, sc := range []string{"entity", "all", "block"} {
						rq := request{Path: p, Scope: sc, Trustless: k == "exact"}
						setLimit(&rq, w, k)
						rqs = append(rqs, rq)
					}
				}
			}
			for _, bad := range []string{"scope", "order", "dups", "version", "bytes-syntax", "bytes-words"} {
				rqs = append(rqs, request{Path: "ten", Bad: bad}, request{Path: "sub/deep", Scope: "entity", Bad: bad, Accept: bad == "scope"})
			}
			for _, rq := range []request{{Path: "ten", Scope: "entity", HasRng: true, From: 5, To: 2, Range: "5:2"},
				{Path: "ten", Scope: "entity", HasRng: true, From: -2, To: -5, Range: "-2:-5"},
				{Path: "sub/deep", Scope: "all", HasRng: true, From: 9, To: 0, Range: "9:0"},
				{Path: "ten", Order: "unk"}, {Path: "ten", Order: "dfs", Version: "1", Dups: "y", Accept: true},
				{Path: "sub/deep", Scope: "entity", Order: "unk", Version: "1", Dups: "n"}} {
				rqs = append(rqs, rq)
			}
			for _, p := range w.paths {
				for _, sc := range []string{"", "block", "entity", "all"} {
					for _, d := range []string{"", "y"} {
						rqs = append(rqs, request{Path: p, Scope: sc, Dups: d})
					}
				}
			}
			for _, rg := range [][3]int64{{0, 0, 0}, {0, 2, 0}, {3, 5, 0}, {3, 6, 0}, {2, 0, 1}, {9, 9, 0}, {10, 12, 0}, {-3, 0, 1}, {-4, -2, 0}, {0, -1, 0}, {0, -10, 0},
				{0, -11, 0}, {0, -12, 0}, {-100, 2, 0}, {-100, 0, 1}, {5, -3, 0}, {5, -6, 0}, {5, -7, 0}, {12, 0, 1}, {6, 8, 0}, {5, 5, 0}, {-1, 0, 1}, {-1, -1, 0}} {
				for _, p := range []string{"ten", "rep", "one", "rawone", "sub/deep", "empty", "sub"} {
					rq := request{Path: p, Scope: "entity", HasRng: true, From: rg[0], To: rg[1], ToAll: rg[2] == 1}
					if rq.ToAll {
						rq.Range = fmt.Sprintf("%d:*", rq.From)
					} else {
						rq.Range = fmt.Sprintf("%d:%d", rq.From, rq.To)
						if (rq.From >= 0 && rq.To >= 0 && rq.From > rq.To) || (rq.From < 0 && rq.To < 0 && rq.From > rq.To) {
							continue
						}
					}
					rqs = append(rqs, rq)
				}
			}
		}
		n := perWorld
		if wi == 0 {
			n = perWorld / 3
		}
		for i := 0; i < n; i++ {
			rq := request{Path: w.paths[r.Intn(len(w.paths))]}
			// files get most of the requests
			if w.kinds[rq.Path] == "dir" && r.Intn(2) == 0 {
				rq.Path = w.paths[r.Intn(len(w.paths))]
			}
			rq.Scope = []string{"", "block", "entity", "entity", "entity", "all"}[r.Intn(6)]
			rq.Dups = []string{"", "", "y", "n"}[r.Intn(4)]
			rq.Accept = r.Intn(4) == 0
			if data, isFile := w.files[rq.Path]; (isFile && rq.Scope == "entity" && r.Intn(5) != 0) || r.Intn(10) == 0 {
				chunk := 4
				if isFile {
					chunk = fileChunk(w.spec, rq.Path)
				}
				genRange(r, &rq, len(data), chunk)
				if r.Intn(12) == 0 && !rq.ToAll { // a range NewDagByteRange refuses: from after to, same sign
					rq.From, rq.To = rq.To+1+int64(r.Intn(3)), rq.From
					if (rq.From >= 0) != (rq.To >= 0) {
						rq.From, rq.To = 7, 3
					}
					rq.Range = fmt.Sprintf("%d:%d", rq.From, rq.To)
				}
			}
			rq.Order = []string{"", "", "dfs", "unk"}[r.Intn(4)]
			rq.Version = []string{"", "", "1"}[r.Intn(3)]
			if r.Intn(25) == 0 {
				rq.Bad = []string{"scope", "order", "dups", "version", "bytes-syntax", "bytes-words"}[r.Intn(6)]
				if rq.Bad == "bytes-syntax" || rq.Bad == "bytes-words" {
					rq.HasRng, rq.Range = false, ""
				}
			}
			rq.Trustless = r.Intn(4) == 0
			setLimit(&rq, w, []string{"off", "off", "ample", "ample", "exact", "below"}[r.Intn(6)])
			rqs = append(rqs, rq)
		}
		for _, rq := range rqs {
			if rq.LimitKind == "" {
				setLimit(&rq, w, "off")
			}
			req := httptest.NewRequest("GET", rq.url(w.root), nil)
			if rq.Accept {
				req.Header.Set("Accept", rq.accept())
			}
			rec := httptest.NewRecorder()
			handler(rq.Limit, rq.Trustless).ServeHTTP(rec, req)
			replay := map[string]any{"world": w.spec, "request": rq, "url": rq.url(w.root), "status": rec.Code}
			v := decodeCAR(rec.Body.Bytes())
			streamErr := rec.Header().Get("X-Stream-Error") != "" || v.decErr != nil
			rootID := -1
			if len(v.roots) == 1 {
				if id, ok := w.ids[bkey(v.roots[0])]; ok {
					rootID = id
				}
			}
			var ids []string
			for _, b := range v.blocks {
				id, ok := w.ids[bkey(b.Cid())]
				if !ok {
					id = -1
				}
				ids = append(ids, vh.Z(int64(id)))
			}
			replay["car_blocks"] = len(v.blocks)
			replay["stream_error"] = rec.Header().Get("X-Stream-Error")
			ob := vh.App("Build_cobs", vh.Z(int64(rec.Code)), vh.Z(int64(rootID)), vh.List(ids), vh.Bool(v.hashOK), vh.Bool(streamErr))
			cs.Add(vh.App("Case", fmt.Sprintf("w%d", wi), rq.coq(w), ob), replay)
			if rec.Code == 200 && v.decErr == nil {
				if msg := reread(w, rq, v); msg != "" {
					st.Violate("offline re-read of the CAR failed: "+msg, "", replay)
				}
				if ct := rec.Header().Get("Content-Type"); !strings.HasPrefix(ct, "application/vnd.ipld.car") {
					st.Violate("CAR response with Content-Type "+ct, "", replay)
				}
			}
			multi := w.kinds[rq.Path] == "file" && len(w.below[rq.Path]) > 1
			st.Case(fmt.Sprintf("%d|%+v", wi, rq), strings.Contains(rq.Path, "/") || (rq.HasRng && multi && rq.Scope == "entity") || w.kinds[rq.Path] == "hamt")
			sc := rq.Scope
			if sc == "" {
				sc = "absent"
			}
			st.Count("scope=" + sc)
			st.Count("terminal=" + w.kinds[rq.Path])
			st.Count("dups=" + rq.Dups)
			st.Count("limit=" + rq.LimitKind)
			st.Count(fmt.Sprintf("trustless-only=%v", rq.Trustless))
			if rq.Bad != "" {
				st.Count("bad-param=" + rq.Bad)
			}
			if rq.Order != "" {
				st.Count("car-order=" + rq.Order)
			}
			st.Count(fmt.Sprintf("status=%d", rec.Code))
			if rq.HasRng {
				switch {
				case rq.From < 0 && (rq.ToAll || rq.To < 0):
					st.Count("entity-bytes=from-end")
				case rq.From < 0 || (!rq.ToAll && rq.To < 0):
					st.Count("entity-bytes=mixed-sign")
				case rq.ToAll:
					st.Count("entity-bytes=open")
				default:
					st.Count("entity-bytes=closed")
				}
				if streamErr {
					st.Count("entity-bytes=stream-error")
				}
			}
			if rq.HasRng && multi {
				st.Sample(replay, 6)
			}
		}
		// raw block responses: the body is exactly the bytes that hash to the requested CID — by CID and by path,
		// on a trustless-only gateway, and under a size limit (at the block size: served; below: 410)
		rawGet := func(hd http.Handler, url string) *httptest.ResponseRecorder {
			rec := httptest.NewRecorder()
			hd.ServeHTTP(rec, httptest.NewRequest("GET", url, nil))
			st.Count("raw-block-requests")
			return rec
		}
		for _, p := range w.paths {
			c := w.cids[p]
			orig, _ := s.bs.Get(bg, c)
			if orig == nil {
				st.Violate("harness: block not in the store", "", map[string]any{"world": w.spec, "path": p})
				continue
			}
			bsz := int64(len(orig.RawData()))
			byPath := "/ipfs/" + w.root.String()
			if p != "" {
				byPath += "/" + p
			}
			type probe struct {
				what string
				hd   http.Handler
				url  string
				want int
			}
			probes := []probe{
				{"by CID", handler(0, false), "/ipfs/" + c.String() + "?format=raw", 200},
				{"by path", handler(0, false), byPath + "?format=raw", 200},
				{"by CID, trustless-only gateway", handler(0, true), "/ipfs/" + c.String() + "?format=raw", 200},
				{"by CID, limit = block size", handler(max(bsz, 1), false), "/ipfs/" + c.String() + "?format=raw", 200},
			}
			if p != "" {
				probes = append(probes, probe{"by path, trustless-only gateway", handler(0, true), byPath + "?format=raw", 406})
			}
			if bsz > 1 {
				probes = append(probes, probe{"by CID, limit below the block size", handler(bsz-1, r.Intn(2) == 0), "/ipfs/" + c.String() + "?format=raw", 410})
			}
			for _, pr := range probes {
				rec := rawGet(pr.hd, pr.url)
				rp := map[string]any{"world": w.spec, "path": p, "probe": pr.what, "url": pr.url, "status": rec.Code}
				if rec.Code != pr.want {
					st.Violate(fmt.Sprintf("raw block response (%s): status %d, expected %d", pr.what, rec.Code, pr.want), "", rp)
					continue
				}
				if pr.want != 200 {
					continue
				}
				c2, err := c.Prefix().Sum(rec.Body.Bytes())
				if err != nil || !c2.Equals(c) {
					st.Violate(fmt.Sprintf("raw block response (%s) for %s: body does not hash to the CID", pr.what, c), "", rp)
				}
				if !bytes.Equal(orig.RawData(), rec.Body.Bytes()) {
					st.Violate("raw block response ("+pr.what+") differs from the stored block", "", rp)
				}
			}
		}
	}
	cs.Close()
	st.Write(e)
	_ = http.StatusOK
}

func fileChunk(d dirSpec, p string) int {
	segs := strings.Split(p, "/")
	cur := d
	for i, sname := range segs {
		if i == len(segs)-1 {
			for _, f := range cur.Files {
				if f.Name == sname {
					return f.Chunk
				}
			}
			return 4
		}
		found := false
		for _, sd := range cur.Dirs {
			if sd.Name == sname {
				cur, found = sd, true
				break
			}
		}
		if !found {
			return 4
		}
	}
	return 4
}
