// Correspondence harness for C41 (filestore/fsrefstore.go): the real
// FileManager is created over many spellings of a root inside a temporary tree
// and asked to Put references to paths inside the root, in sibling directories
// sharing the root's name as a string prefix, behind ".." components, behind
// symlinks, and elsewhere. Observed: whether Put succeeded, the reference
// (DataObj.FilePath) found in the datastore, and what Get answered. Everything
// is compared inside Coq with the model (model/M_C41.v) and with the
// specification "an accepted reference resolves, by path components, inside
// the root".
package c41

import (
	"context"
	"errors"
	"fmt"
	"net/http"
	"net/http/httptest"
	"os"
	"path/filepath"
	"strings"
	"testing"
	"time"

	"github.com/ipfs/boxo/blockstore"
	dshelp "github.com/ipfs/boxo/datastore/dshelp"
	"github.com/ipfs/boxo/filestore"
	pb "github.com/ipfs/boxo/filestore/pb"
	posinfo "github.com/ipfs/boxo/filestore/posinfo"
	dag "github.com/ipfs/boxo/ipld/merkledag"
	ds "github.com/ipfs/go-datastore"
	ipld "github.com/ipfs/go-ipld-format"
	proto "google.golang.org/protobuf/proto"

	"verif/harness/vh"
)

func str(s string) string { return vh.BytesN([]byte(s)) }

type flags struct{ putFiles, putUrls, getFiles, getUrls bool }

func (f flags) String() string {
	return fmt.Sprintf("put(files=%v,urls=%v) get(files=%v,urls=%v)", f.putFiles, f.putUrls, f.getFiles, f.getUrls)
}

var allOn = flags{true, true, true, true}

type obs struct {
	root, path string
	fl         flags
	put        string // PStored / PRejected / PNotEnabled
	stored     string
	kind       string // FRegular FMissing FOther: what opening+reading the local path Join(root, stored) gives
	fetch      string // what fetching the stored string as a URL gives
	get        string
	verify     string
}

func (o obs) coq() string {
	put := o.put
	if put == "PStored" {
		put = vh.App("PStored", strLit(o.stored))
	}
	return vh.App("Case", strLit(o.root), strLit(o.path), vh.Bool(o.fl.putFiles), vh.Bool(o.fl.putUrls), put,
		vh.Bool(o.fl.getFiles), vh.Bool(o.fl.getUrls), o.kind, o.fetch, o.get, o.verify)
}

func classGet(blk interface{ RawData() []byte }, err error, data []byte) string {
	var cre *filestore.CorruptReferenceError
	switch {
	case err == nil && string(blk.RawData()) == string(data):
		return "GSame"
	case err == nil:
		return "GOther"
	case ipld.IsNotFound(err):
		return "GNone"
	case errors.Is(err, filestore.ErrFilestoreNotEnabled), errors.Is(err, filestore.ErrUrlstoreNotEnabled):
		return "GNotEnabled"
	case errors.As(err, &cre) && cre.Code == filestore.StatusFileNotFound:
		return "GNotFound"
	case errors.As(err, &cre) && cre.Code == filestore.StatusFileChanged:
		return "GChanged"
	}
	return "GOther"
}

func classVerify(st filestore.Status) string {
	switch st {
	case filestore.StatusOk:
		return "GSame"
	case filestore.StatusFileNotFound:
		return "GNotFound"
	case filestore.StatusFileChanged:
		return "GChanged"
	case filestore.StatusKeyNotFound:
		return "GNone"
	}
	return "GOther"
}

// tryBatch runs one PutMany of references to the given paths on a fresh FileManager, then Get and
// Verify of every element under the read-time flags. nil when two elements would share a CID.
func tryBatch(t *testing.T, root string, fulls []string, fl flags) []obs {
	ctx, cancel := context.WithTimeout(context.Background(), 4*time.Second)
	defer cancel()
	mds := ds.NewMapDatastore()
	fm := filestore.NewFileManager(mds, root)
	fm.AllowFiles, fm.AllowUrls = fl.putFiles, fl.putUrls
	os2 := make([]obs, len(fulls))
	datas := make([][]byte, len(fulls))
	nodes := make([]*posinfo.FilestoreNode, len(fulls))
	seen := map[string]bool{}
	for i, full := range fulls {
		local := filepath.Clean(full)
		if filestore.IsURL(full) {
			local = filepath.Join(root, full)
		}
		kind, data := kindOf(local)
		os2[i] = obs{root: root, path: full, fl: fl, kind: kind, fetch: "GOther", get: "GNone", verify: "GNone", put: "PRejected"}
		if filestore.IsURL(full) && strings.HasPrefix(full, srvURL+"/") { // exactly as in try: a genuine URL of the harness' server
			if b, ok := served[strings.TrimPrefix(full, srvURL)]; ok {
				data, os2[i].fetch = b, "GSame"
			}
		}
		if data == nil {
			counter++
			data = []byte(fmt.Sprintf("absent-%d", counter))
		}
		if seen[string(data)] {
			return nil
		}
		seen[string(data)] = true
		datas[i] = data
		nodes[i] = &posinfo.FilestoreNode{Node: dag.NewRawNode(data), PosInfo: &posinfo.PosInfo{FullPath: full, Offset: 0}}
	}
	err := fm.PutMany(ctx, nodes)
	for i := range fulls {
		if err != nil {
			continue
		}
		raw, gerr := mds.Get(ctx, filestore.FilestorePrefix.Child(dshelp.MultihashToDsKey(nodes[i].Cid().Hash())))
		if gerr != nil {
			t.Fatalf("PutMany succeeded but a reference is missing from the datastore: %v", gerr)
		}
		var dobj pb.DataObj
		if uerr := proto.Unmarshal(raw, &dobj); uerr != nil {
			t.Fatal(uerr)
		}
		os2[i].put, os2[i].stored = "PStored", dobj.GetFilePath()
	}
	fm.AllowFiles, fm.AllowUrls = fl.getFiles, fl.getUrls
	fstore := filestore.NewFilestore(blockstore.NewBlockstore(mds), fm, nil)
	for i := range fulls {
		blk, gerr := fm.Get(ctx, nodes[i].Cid())
		if gerr == nil {
			os2[i].get = classGet(blk, nil, datas[i])
		} else {
			os2[i].get = classGet(nil, gerr, datas[i])
		}
		os2[i].verify = classVerify(filestore.Verify(ctx, fstore, nodes[i].Cid()).Status)
	}
	return os2
}

// strLit renders a string as a list of N character codes (N_scope is open in the preamble).
func strLit(s string) string {
	items := make([]string, len(s))
	for i := 0; i < len(s); i++ {
		items[i] = fmt.Sprint(int(s[i]))
	}
	return "[" + strings.Join(items, ";") + "]"
}

// kindOf classifies what opening and reading the lexically cleaned path gives:
// FRegular (bytes returned too), FMissing (does not exist) or FOther (a
// directory, a path through a regular file, ...).
func kindOf(p string) (string, []byte) {
	f, err := os.Open(filepath.Clean(p))
	if os.IsNotExist(err) {
		return "FMissing", nil
	} else if err != nil {
		return "FOther", nil
	}
	defer f.Close()
	fi, err := f.Stat()
	if err != nil || !fi.Mode().IsRegular() {
		return "FOther", nil
	}
	b, err := os.ReadFile(filepath.Clean(p))
	if err != nil {
		return "FOther", nil
	}
	return "FRegular", b
}

var counter int

// bodies served by the harness' HTTP server, by request path
var served = map[string][]byte{}
var srvURL string

// try runs one Put on a fresh FileManager under the Put-time flags, reads the stored reference back
// from the datastore, switches to the read-time flags (same datastore) and runs Get and Verify.
func try(t *testing.T, root, full string, fl flags) obs {
	ctx, cancel := context.WithTimeout(context.Background(), 4*time.Second)
	defer cancel()
	mds := ds.NewMapDatastore()
	fm := filestore.NewFileManager(mds, root)
	fm.AllowFiles, fm.AllowUrls = fl.putFiles, fl.putUrls

	// the local path a file read of this reference would open: Join(root, stored) — for a file
	// reference the cleaned FullPath, for a URL-shaped one Join(root, <the URL string>)
	local := filepath.Clean(full)
	isURL := filestore.IsURL(full)
	if isURL {
		local = filepath.Join(root, full)
	}
	kind, data := kindOf(local)
	o := obs{root: root, path: full, fl: fl, kind: kind, fetch: "GOther", get: "GNone", verify: "GNone"}
	if isURL && strings.HasPrefix(full, srvURL+"/") {
		if b, ok := served[strings.TrimPrefix(full, srvURL)]; ok {
			data, o.fetch = b, "GSame"
		}
	}
	if data == nil {
		counter++
		data = []byte(fmt.Sprintf("absent-%d", counter))
	}
	node := dag.NewRawNode(data)
	err := fm.Put(ctx, &posinfo.FilestoreNode{Node: node, PosInfo: &posinfo.PosInfo{FullPath: full, Offset: 0}})
	switch {
	case err == nil:
		o.put = "PStored"
		raw, err := mds.Get(ctx, filestore.FilestorePrefix.Child(dshelp.MultihashToDsKey(node.Cid().Hash())))
		if err != nil {
			t.Fatalf("accepted reference not found in the datastore: %v", err)
		}
		var dobj pb.DataObj
		if err := proto.Unmarshal(raw, &dobj); err != nil {
			t.Fatal(err)
		}
		o.stored = dobj.GetFilePath()
	case errors.Is(err, filestore.ErrFilestoreNotEnabled), errors.Is(err, filestore.ErrUrlstoreNotEnabled):
		o.put = "PNotEnabled"
	default:
		o.put = "PRejected"
	}
	// a later run over the same datastore, possibly configured differently
	fm.AllowFiles, fm.AllowUrls = fl.getFiles, fl.getUrls
	blk, err := fm.Get(ctx, node.Cid())
	var cre *filestore.CorruptReferenceError
	switch {
	case err == nil && string(blk.RawData()) == string(data):
		o.get = "GSame"
	case err == nil:
		o.get = "GOther"
	case ipld.IsNotFound(err):
		o.get = "GNone"
	case errors.Is(err, filestore.ErrFilestoreNotEnabled), errors.Is(err, filestore.ErrUrlstoreNotEnabled):
		o.get = "GNotEnabled"
	case errors.As(err, &cre) && cre.Code == filestore.StatusFileNotFound:
		o.get = "GNotFound"
	case errors.As(err, &cre) && cre.Code == filestore.StatusFileChanged:
		o.get = "GChanged"
	default:
		o.get = "GOther"
	}
	fstore := filestore.NewFilestore(blockstore.NewBlockstore(mds), fm, nil)
	switch res := filestore.Verify(ctx, fstore, node.Cid()); res.Status {
	case filestore.StatusOk:
		o.verify = "GSame"
	case filestore.StatusFileNotFound:
		o.verify = "GNotFound"
	case filestore.StatusFileChanged:
		o.verify = "GChanged"
	case filestore.StatusKeyNotFound:
		o.verify = "GNone"
	default:
		o.verify = "GOther"
	}
	return o
}

func write(t *testing.T, p, content string) {
	if err := os.MkdirAll(filepath.Dir(p), 0o755); err != nil {
		t.Fatal(err)
	}
	if err := os.WriteFile(p, []byte(content), 0o644); err != nil {
		t.Fatal(err)
	}
}

// symlinkThenDotDot: lexical cleaning and the OS disagree on such paths, so the
// harness cannot say which file the reference is meant to denote; not generated.
func symlinkThenDotDot(p string) bool {
	seen := false
	for _, c := range strings.Split(p, "/") {
		if c == "link" || c == "flink" {
			seen = true
		}
		if c == ".." && seen {
			return true
		}
	}
	return false
}

func TestC41(t *testing.T) {
	e := vh.Load(t)
	st := vh.NewStats("FileManager.Put/Get on a temporary tree: roots spelled absolutely/relatively, with trailing slash, '.', '..' and doubled " +
		"slashes, the empty root, '.', '/' ; FullPaths inside the root, in siblings sharing the root's name as a string prefix (root-evil, rootx), " +
		"behind '..' components, file and directory names containing backslashes ('..\\x', '\\..\\x', 'sub\\b': single components on POSIX, with victims of the slash-spelled name outside), behind directory and file symlinks, absolute elsewhere, relative vs absolute mismatches, missing files; " +
		"URL-shaped references (http://../.., https://..//x, http:///.., '..' path segments, near-misses: one slash, upper-case scheme) and genuine URLs of a local HTTP server; " +
		"AllowFiles/AllowUrls chosen independently at Put time and at read time (same datastore); Get and Verify observed; " +
		"PutMany batches (inside-root files next to sibling-prefix / '..' / outside paths, both orders, every element observed); " +
		"non-trivial = FullPath has the root string as a string prefix and contains a '..' component or a sibling-prefix name or a symlink, " +
		"or is URL-shaped with a '..' segment or with different urlstore settings at Put and read time; distinct by (root, path, flags)")
	cs := vh.NewCases(e, "From V Require Import model.M_C41.\nOpen Scope N_scope.", "case", "check_case", 250)

	// the tree: <T>/root{/a,/sub/b,/sub/deep/c,/link -> ../other,/flink -> ../root-evil/secret}, <T>/root-evil/secret, <T>/rootx, <T>/x, <T>/other/x
	T := t.TempDir()
	if r, err := filepath.EvalSymlinks(T); err == nil {
		T = r
	}
	write(t, T+"/root/a", "inside-a")
	write(t, T+"/root/sub/b", "inside-sub-b")
	write(t, T+"/root/sub/deep/c", "inside-deep-c")
	write(t, T+"/root/..hidden", "inside-dotdot-hidden") // a real name that merely starts with ".."
	write(t, T+"/root/.../d", "inside-three-dots")
	// on POSIX a backslash is an ordinary file-name character: these are single components (or plain directories)
	// INSIDE the root; a victim with the slash-spelled name exists outside (or elsewhere), some with identical bytes
	write(t, T+"/outside.txt", "same-bytes-outside.txt")
	write(t, T+"/root/..\\outside.txt", "same-bytes-outside.txt")
	write(t, T+"/root/..\\x", "inside-bs-x")
	write(t, T+"/root/..\\root-evil\\secret", "OUTSIDE-secret") // same bytes as <T>/root-evil/secret
	write(t, T+"/root/sub\\b", "inside-bs-sub-b")
	write(t, T+"/root/\\..\\x", "OUTSIDE-x") // same bytes as <T>/x
	write(t, T+"/root/a\\..\\..\\outside.txt", "same-bytes-outside.txt")
	write(t, T+"/root/sub/..\\..\\outside.txt", "same-bytes-outside.txt")
	write(t, T+"/root/d\\e/f", "inside-bs-dir-f")
	write(t, T+"/root/sub/deep/\\", "inside-lone-backslash")
	write(t, T+"/root-evil/secret", "OUTSIDE-secret")
	write(t, T+"/rootx", "OUTSIDE-rootx")
	write(t, T+"/x", "OUTSIDE-x")
	write(t, T+"/other/x", "OUTSIDE-other-x")
	if err := os.Symlink("../other", T+"/root/link"); err != nil {
		t.Fatal(err)
	}
	if err := os.Symlink("../root-evil/secret", T+"/root/flink"); err != nil {
		t.Fatal(err)
	}
	t.Chdir(T)

	physOutside := 0
	netTries := 0
	emitF := func(root, full, kind string, fl flags) {
		if symlinkThenDotDot(full) {
			return
		}
		if filestore.IsURL(full) && fl.getUrls && fl.putUrls && !strings.HasPrefix(full, srvURL+"/") {
			// a hostile URL that the URL reader would really try to fetch (host ".."): only a few of those
			netTries++
			if netTries > 6 {
				fl.getUrls = false
			}
		}
		o := try(t, root, full, fl)
		rp := map[string]any{"root": root, "path": full, "flags": fl.String(), "put": o.put, "stored": o.stored, "get": o.get, "verify": o.verify, "kind": kind}
		cs.Add(vh.App("CSingle", o.coq()), rp)
		nt := (strings.HasPrefix(full, root) && (strings.Contains(full, "..") || strings.Contains(full, "root-evil") ||
			strings.Contains(full, "rootx") || strings.Contains(full, "link"))) ||
			(filestore.IsURL(full) && (strings.Contains(full, "..") || fl.putUrls != fl.getUrls))
		st.Case(root+"|"+full+"|"+fl.String(), nt)
		st.Count("kind=" + kind)
		st.Count(fmt.Sprintf("put=%s get=%s", o.put, o.get))
		if filestore.IsURL(full) {
			st.Count("url-shaped " + fl.String())
		}
		if o.put == "PStored" && o.get == "GSame" && !filestore.IsURL(o.stored) {
			// information only: where the bytes physically came from
			if rr, err := filepath.EvalSymlinks(filepath.Join(root, o.stored)); err == nil {
				if ra, err := filepath.Abs(rr); err == nil && !strings.HasPrefix(ra+"/", T+"/root/") {
					physOutside++
				}
			}
		}
		st.Sample(rp, 6)
	}
	emit := func(root, full, kind string) { emitF(root, full, kind, allOn) }
	emitBatch := func(root string, fulls []string, kind string, fl flags) {
		for _, f := range fulls {
			if symlinkThenDotDot(f) || (filestore.IsURL(f) && fl.getUrls && !strings.HasPrefix(f, srvURL+"/")) {
				return
			}
		}
		os2 := tryBatch(t, root, fulls, fl)
		if os2 == nil {
			return
		}
		var terms, outs []string
		nt := false
		for _, o := range os2 {
			terms = append(terms, o.coq())
			outs = append(outs, fmt.Sprintf("%s put=%s stored=%q get=%s verify=%s", o.path, o.put, o.stored, o.get, o.verify))
			nt = nt || strings.Contains(o.path, "..") || strings.Contains(o.path, "root-") || strings.Contains(o.path, "rootx")
		}
		rp := map[string]any{"root": root, "batch": fulls, "flags": fl.String(), "outcomes": outs, "kind": kind}
		cs.Add(vh.App("CBatch", vh.List(terms)), rp)
		st.Case("B|"+root+"|"+strings.Join(fulls, "|")+"|"+fl.String(), nt && len(fulls) >= 2)
		st.Count("kind=batch-" + kind)
		st.Count(fmt.Sprintf("batch size=%d stored=%v", len(fulls), len(os2) > 0 && os2[0].put == "PStored"))
		st.Sample(rp, 8)
	}

	// an HTTP server for genuine URL references
	served["/obj/a"] = []byte("served-a")
	served["/obj/x/../b"] = []byte("served-dotdot-b")
	served["/"] = []byte("served-root")
	srv := httptest.NewServer(http.HandlerFunc(func(w http.ResponseWriter, r *http.Request) {
		if b, ok := served[r.URL.Path]; ok {
			w.WriteHeader(206)
			w.Write(b)
			return
		}
		w.WriteHeader(404)
	}))
	defer srv.Close()
	srvURL = srv.URL

	// corpus: the finding's witnesses first, then boundary spellings
	R := T + "/root"
	// PutMany: every element is checked on its own; a neighbour in the root must not vouch for an outsider
	write(t, T+"/root-private/secret.txt", "OUTSIDE-private-secret")
	for _, b := range [][]string{
		{R + "/a", T + "/root-private/secret.txt"}, {T + "/root-private/secret.txt", R + "/a"},
		{R + "/a", T + "/root-evil/secret"}, {T + "/root-evil/secret", R + "/a"},
		{R + "/a", R + "/../x"}, {R + "/../x", R + "/a"},
		{R + "/sub/b", T + "/x"}, {T + "/x", R + "/sub/b"},
		{R + "/sub/b", R + "/sub/../../rootx"}, {R + "/a", T + "/rootx"},
		{R + "/sub/deep/c", R + "/sub/deep/../../../other/x"},
		{R + "/a", R + "/sub/b", R + "/sub/deep/c"}, {R + "/a"}, {},
		{R + "/a", R + "/sub/b", T + "/root-private/secret.txt", R + "/sub/deep/c"},
		{R + "/a", R + "/missing", R + "/sub/b"},
	} {
		emitBatch(R, b, "corpus", allOn)
	}
	emitBatch("root", []string{"root/a", "root-private/secret.txt"}, "corpus", allOn)
	emitBatch(R+"/sub", []string{R + "/sub/b", R + "/sub-x"}, "corpus", allOn)
	emitBatch(R, []string{R + "/a", T + "/root-private/secret.txt"}, "corpus", flags{true, true, true, false})
	// the seeded scenario: a URL-shaped reference made of ".." segments is stored while the urlstore is on; the same
	// datastore is later read with the urlstore off and the filestore on
	up := func(n int) string { return strings.Repeat("../", n) }
	abs := func(p string) string { return strings.TrimPrefix(p, "/") }
	later := flags{true, true, true, false}
	emitF(R, "http://"+up(64)+abs(T+"/root-evil/secret"), "corpus", later)
	emitF(R, "http://../../root-evil/secret", "corpus", later)
	emitF(R, "https://../../x", "corpus", later)
	emitF(R, "http://../a", "corpus", later)
	emitF(R, "https://..//..//other/x", "corpus", later)
	emitF(R, "http:///../../rootx", "corpus", later)
	emitF(R, "http://../../root-evil/secret", "corpus", flags{true, true, false, false})
	emitF(R, "http://../../root-evil/secret", "corpus", flags{false, true, true, false})
	emitF(R, "http://../../root-evil/secret", "corpus", flags{true, false, true, true})
	emitF(R, "http://../../root-evil/secret", "corpus", allOn)
	emitF(R, "http:/../../root-evil/secret", "corpus", later)  // not a URL: one slash
	emitF(R, "HTTP://../../root-evil/secret", "corpus", later) // not a URL: case
	emitF("", "HTTP://../x", "corpus", later)
	emitF("", "http://../x", "corpus", later)
	emitF(R, srvURL+"/obj/a", "corpus", allOn)
	emitF(R, srvURL+"/obj/a", "corpus", later)
	emitF(R, srvURL+"/obj/x/../b", "corpus", allOn)
	emitF(R, srvURL+"/missing", "corpus", allOn)
	emitF(R, R+"/a", "corpus", flags{true, true, false, true})
	emitF(R, R+"/a", "corpus", flags{false, true, true, true})
	emitF(R, R+"/a", "corpus", flags{true, false, true, false})
	emit(R, T+"/root-evil/secret", "corpus")
	emit(R, R+"/../x", "corpus")
	emit(R, T+"/rootx", "corpus")
	emit(R, R+"/a", "corpus")
	emit(R, R+"/sub/../../root-evil/secret", "corpus")
	emit(R, R+"/sub/../a", "corpus")
	emit(R, R+"/..hidden", "corpus")
	emit(R, R+"/..\\outside.txt", "corpus") // the reference must keep denoting this file, not <T>/outside.txt
	emit(R, R+"/..\\x", "corpus")
	emit(R, R+"/..\\root-evil\\secret", "corpus")
	emit(R, R+"/sub\\b", "corpus")
	emit(R, R+"/\\..\\x", "corpus")
	emit(R, R+"/a\\..\\..\\outside.txt", "corpus")
	emit(R, R+"/sub/..\\..\\outside.txt", "corpus")
	emit(R, R+"/d\\e/f", "corpus")
	emit(R, R+"/sub/deep/\\", "corpus")
	emit(R, R+"\\..\\outside.txt", "corpus") // string prefix of the root, then a backslash: the sibling "root\..\outside.txt"
	emit("root", "root/..\\outside.txt", "corpus")
	emit(R+"/sub", R+"/sub/..\\..\\outside.txt", "corpus")
	emit(R, R+"/.../d", "corpus")
	emit("root", "root/..hidden", "corpus")
	emit(R, R, "corpus")
	emit(R, R+"/", "corpus")
	emit(R, R+"/..", "corpus")
	emit(R, R+"/link/x", "corpus")
	emit(R, R+"/flink", "corpus")
	emit(R, T+"/other/x", "corpus")
	emit(R, "root/a", "corpus")
	emit(R, R+"/missing", "corpus")
	emit(R+"/", R+"/a", "corpus")
	emit(R+"/", T+"/root-evil/secret", "corpus")
	emit(R+"/.", R+"/./a", "corpus")
	emit(R+"/sub/..", R+"/sub/../a", "corpus")
	emit(R+"/sub/..", R+"/sub/../../x", "corpus")
	emit("root", "root/a", "corpus")
	emit("root", "root-evil/secret", "corpus")
	emit("root", "root/../x", "corpus")
	emit("root", R+"/a", "corpus")
	emit("./root", "./root/sub/b", "corpus")
	emit("", "root/a", "corpus")
	emit("", "../"+filepath.Base(T)+"/x", "corpus")
	emit("", R+"/a", "corpus")
	emit(".", "./x", "corpus")
	emit(".", "x", "corpus")
	emit("/", R+"/a", "corpus")
	emit("/", "/../"+strings.TrimPrefix(T, "/")+"/x", "corpus")
	emit(T, R+"/a", "corpus")
	emit(T+"/root/sub", T+"/root/sub/deep/../b", "corpus")
	emit(T+"/root/sub", T+"/root/sub/../a", "corpus")
	emit(T+"/root/sub", T+"/root/subx", "corpus")
	emit("..", "../"+filepath.Base(T)+"/x", "corpus")
	emit("../"+filepath.Base(T)+"/root", "../"+filepath.Base(T)+"/root/a", "corpus")
	emit("../"+filepath.Base(T)+"/root", "../"+filepath.Base(T)+"/root/../x", "corpus")

	base := filepath.Base(T)
	roots := []string{R, R + "/", R + "/.", T + "//root", R + "/sub/..", R + "/sub", "root", "./root", "root/", "", ".", "/", T, T + "/",
		"../" + base + "/root", R + "/sub/deep/../.."}
	// spellings of <T>/root to start a FullPath with (besides the root string itself)
	rootSpell := []string{R, R + "/", R + "/.", T + "//root", R + "/sub/..", "root", "./root", "../" + base + "/root", R + "/sub/deep/../.."}
	// interesting targets relative to <T>/root
	known := []string{"..\\outside.txt", "..\\x", "..\\root-evil\\secret", "sub\\b", "\\..\\x", "a\\..\\..\\outside.txt", "sub/..\\..\\outside.txt",
		"d\\e/f", "sub/deep/\\", "..\\missing", "sub\\..\\a", "../outside.txt", "a", "sub/b", "sub/deep/c", "link/x", "flink", "../root-evil/secret", "../x", "../rootx", "../other/x",
		"sub/../../x", "sub/deep/../../../root-evil/secret", "sub", "", "..", "missing", "a/b", "..hidden", ".../d", "sub/../..hidden", "../root/..hidden", "sub/deep/../b", "../root/a", "../root/../x"}
	segs := []string{"..\\outside.txt", "..\\x", "\\", "..\\", "d\\e", "sub\\b", "outside.txt", "a", "sub", "deep", "b", "c", "x", "..", "..", ".", "", "link", "flink", "missing", "root", "root-evil", "secret", "rootx", "other"}
	tails := []string{"-evil/secret", "x", "/", "/.", "/..", "-evil/../root/a"}
	noise := []string{".", "", "sub/..", "missing/..", "sub/deep/../..", "."}
	n := e.Pick(1500, 12000)
	if strings.HasPrefix(filepath.Base(e.Out), "search") {
		n = 3000 // the driver's search for a concrete failing input after a break
	}
	for i := 0; i < n; i++ {
		root := roots[e.Rng.Intn(len(roots))]
		var b strings.Builder
		switch x := e.Rng.Intn(12); {
		case x < 6:
			b.WriteString(root) // the root string itself: passes the string-prefix test whatever follows
		case x < 9:
			b.WriteString(rootSpell[e.Rng.Intn(len(rootSpell))])
		case x < 10:
			b.WriteString(T)
		case x < 11:
			// relative spelling
		default:
			b.WriteString("/")
		}
		if e.Rng.Intn(6) == 0 {
			b.WriteString(tails[e.Rng.Intn(len(tails))])
		}
		if e.Rng.Intn(3) != 0 {
			// a known target, with lexical noise between its components
			for _, c := range strings.Split(known[e.Rng.Intn(len(known))], "/") {
				if e.Rng.Intn(4) == 0 {
					b.WriteString("/" + noise[e.Rng.Intn(len(noise))])
				}
				b.WriteString("/" + c)
			}
		} else {
			k := e.Rng.Intn(6)
			for j := 0; j < k; j++ {
				if b.Len() > 0 || e.Rng.Intn(2) == 0 {
					b.WriteString("/")
				}
				b.WriteString(segs[e.Rng.Intn(len(segs))])
			}
		}
		if e.Rng.Intn(10) == 0 {
			b.WriteString(tails[e.Rng.Intn(len(tails))])
		}
		fl := allOn
		if e.Rng.Intn(4) == 0 {
			fl = flags{e.Rng.Intn(4) != 0, e.Rng.Intn(2) == 0, e.Rng.Intn(4) != 0, e.Rng.Intn(2) == 0}
		}
		full := b.String()
		if e.Rng.Intn(5) == 0 {
			// URL-shaped (or nearly URL-shaped) references: stored verbatim when the urlstore is on
			scheme := []string{"http://", "https://", "http://", "http:///", "https://..//", "http:/", "HTTP://", "Http://", "https:/", "http//", "htt://", "http://x/"}[e.Rng.Intn(12)]
			var u strings.Builder
			u.WriteString(scheme)
			u.WriteString(up(e.Rng.Intn(5)))
			switch e.Rng.Intn(6) {
			case 0:
				u.WriteString(abs(T) + "/")
			case 1:
				u.WriteString("root/")
			case 2:
				u.WriteString(up(60) + abs(T) + "/")
			}
			u.WriteString([]string{"a", "x", "root-evil/secret", "rootx", "other/x", "sub/b", "root/a", "missing", "", "..", "link/x"}[e.Rng.Intn(11)])
			full = u.String()
			if e.Rng.Intn(8) == 0 {
				full = srvURL + []string{"/obj/a", "/obj/x/../b", "/", "/nothing"}[e.Rng.Intn(4)]
			}
			fl = flags{e.Rng.Intn(4) != 0, e.Rng.Intn(4) != 0, e.Rng.Intn(4) != 0, e.Rng.Intn(3) == 0}
		}
		emitF(root, full, "random", fl)
		if i%10 == 0 {
			// a batch: one or two files inside <T>/root, an arbitrary path somewhere among them
			in := []string{R + "/a", R + "/sub/b", R + "/sub/deep/c", R + "/..hidden", R + "/.../d", "root/a", R + "//sub/./b"}
			bt := []string{in[e.Rng.Intn(len(in))]}
			if e.Rng.Intn(2) == 0 {
				bt = append(bt, in[e.Rng.Intn(len(in))])
			}
			pos := e.Rng.Intn(len(bt) + 1)
			bt = append(bt[:pos], append([]string{full}, bt[pos:]...)...)
			emitBatch(root, bt, "random", fl)
		}
	}
	st.Extra["accepted_lexically_inside_but_physically_outside_via_symlink"] = physOutside
	cs.Close()
	st.Write(e)
}
