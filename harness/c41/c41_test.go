// Correspondence harness for C41 (filestore/fsrefstore.go): the real
// FileManager is created over many spellings of a root inside a temporary tree
// and asked to Put references to paths inside the root, in sibling directories
// sharing the root's name as a string prefix, behind ".." components, behind
// symlinks, and elsewhere. Observed: whether Put succeeded, the reference
// (DataObj.FilePath) found in the datastore, and what Get answered. Everything
// is compared inside Coq with the model (model/M_C41.v) and with the
// specification "an accepted reference resolves, by path components, inside
// the root".
package c41

import (
	"context"
	"errors"
	"fmt"
	"os"
	"path/filepath"
	"strings"
	"testing"

	dshelp "github.com/ipfs/boxo/datastore/dshelp"
	"github.com/ipfs/boxo/filestore"
	pb "github.com/ipfs/boxo/filestore/pb"
	posinfo "github.com/ipfs/boxo/filestore/posinfo"
	dag "github.com/ipfs/boxo/ipld/merkledag"
	ds "github.com/ipfs/go-datastore"
	ipld "github.com/ipfs/go-ipld-format"
	proto "google.golang.org/protobuf/proto"

	"verif/harness/vh"
)

func str(s string) string { return vh.BytesN([]byte(s)) }

type obs struct {
	root, path string
	kind       string // FRegular FMissing FOther: what opening+reading the lexically cleaned FullPath gives
	accepted   bool
	stored     string
	get        string
}

func (o obs) coq() string {
	return vh.App("Case", strLit(o.root), strLit(o.path), o.kind, vh.Bool(o.accepted), strLit(o.stored), o.get)
}

// strLit renders a string as a list of N character codes (N_scope is open in the preamble).
func strLit(s string) string {
	items := make([]string, len(s))
	for i := 0; i < len(s); i++ {
		items[i] = fmt.Sprint(int(s[i]))
	}
	return "[" + strings.Join(items, ";") + "]"
}

// kindOf classifies what opening and reading the lexically cleaned path gives:
// FRegular (bytes returned too), FMissing (does not exist) or FOther (a
// directory, a path through a regular file, ...).
func kindOf(p string) (string, []byte) {
	f, err := os.Open(filepath.Clean(p))
	if os.IsNotExist(err) {
		return "FMissing", nil
	} else if err != nil {
		return "FOther", nil
	}
	defer f.Close()
	fi, err := f.Stat()
	if err != nil || !fi.Mode().IsRegular() {
		return "FOther", nil
	}
	b, err := os.ReadFile(filepath.Clean(p))
	if err != nil {
		return "FOther", nil
	}
	return "FRegular", b
}

var counter int

// try runs one Put (+ datastore lookup + Get) on a fresh FileManager.
func try(t *testing.T, root, full string) obs {
	ctx := context.Background()
	mds := ds.NewMapDatastore()
	fm := filestore.NewFileManager(mds, root)
	fm.AllowFiles = true

	kind, data := kindOf(full)
	o := obs{root: root, path: full, kind: kind, get: "GNone"}
	if kind != "FRegular" {
		counter++
		data = []byte(fmt.Sprintf("absent-%d", counter))
	}
	node := dag.NewRawNode(data)
	err := fm.Put(ctx, &posinfo.FilestoreNode{Node: node, PosInfo: &posinfo.PosInfo{FullPath: full, Offset: 0}})
	o.accepted = err == nil
	if o.accepted {
		raw, err := mds.Get(ctx, filestore.FilestorePrefix.Child(dshelp.MultihashToDsKey(node.Cid().Hash())))
		if err != nil {
			t.Fatalf("accepted reference not found in the datastore: %v", err)
		}
		var dobj pb.DataObj
		if err := proto.Unmarshal(raw, &dobj); err != nil {
			t.Fatal(err)
		}
		o.stored = dobj.GetFilePath()
	}
	blk, err := fm.Get(ctx, node.Cid())
	var cre *filestore.CorruptReferenceError
	switch {
	case err == nil && string(blk.RawData()) == string(data):
		o.get = "GSame"
	case err == nil:
		o.get = "GOther"
	case !o.accepted && ipld.IsNotFound(err):
		o.get = "GNone"
	case errors.As(err, &cre) && cre.Code == filestore.StatusFileNotFound:
		o.get = "GNotFound"
	case errors.As(err, &cre) && cre.Code == filestore.StatusFileChanged:
		o.get = "GChanged"
	default:
		o.get = "GOther"
	}
	return o
}

func write(t *testing.T, p, content string) {
	if err := os.MkdirAll(filepath.Dir(p), 0o755); err != nil {
		t.Fatal(err)
	}
	if err := os.WriteFile(p, []byte(content), 0o644); err != nil {
		t.Fatal(err)
	}
}

// symlinkThenDotDot: lexical cleaning and the OS disagree on such paths, so the
// harness cannot say which file the reference is meant to denote; not generated.
func symlinkThenDotDot(p string) bool {
	seen := false
	for _, c := range strings.Split(p, "/") {
		if c == "link" || c == "flink" {
			seen = true
		}
		if c == ".." && seen {
			return true
		}
	}
	return false
}

func TestC41(t *testing.T) {
	e := vh.Load(t)
	st := vh.NewStats("FileManager.Put/Get on a temporary tree: roots spelled absolutely/relatively, with trailing slash, '.', '..' and doubled " +
		"slashes, the empty root, '.', '/' ; FullPaths inside the root, in siblings sharing the root's name as a string prefix (root-evil, rootx), " +
		"behind '..' components, behind directory and file symlinks, absolute elsewhere, relative vs absolute mismatches, missing files; " +
		"non-trivial = FullPath has the root string as a string prefix and contains a '..' component or a sibling-prefix name or a symlink; distinct by (root, path)")
	cs := vh.NewCases(e, "From V Require Import model.M_C41.\nOpen Scope N_scope.", "case", "check_case", 250)

	// the tree: <T>/root{/a,/sub/b,/sub/deep/c,/link -> ../other,/flink -> ../root-evil/secret}, <T>/root-evil/secret, <T>/rootx, <T>/x, <T>/other/x
	T := t.TempDir()
	if r, err := filepath.EvalSymlinks(T); err == nil {
		T = r
	}
	write(t, T+"/root/a", "inside-a")
	write(t, T+"/root/sub/b", "inside-sub-b")
	write(t, T+"/root/sub/deep/c", "inside-deep-c")
	write(t, T+"/root/..hidden", "inside-dotdot-hidden") // a real name that merely starts with ".."
	write(t, T+"/root/.../d", "inside-three-dots")
	write(t, T+"/root-evil/secret", "OUTSIDE-secret")
	write(t, T+"/rootx", "OUTSIDE-rootx")
	write(t, T+"/x", "OUTSIDE-x")
	write(t, T+"/other/x", "OUTSIDE-other-x")
	if err := os.Symlink("../other", T+"/root/link"); err != nil {
		t.Fatal(err)
	}
	if err := os.Symlink("../root-evil/secret", T+"/root/flink"); err != nil {
		t.Fatal(err)
	}
	t.Chdir(T)

	physOutside := 0
	emit := func(root, full, kind string) {
		if symlinkThenDotDot(full) || strings.HasPrefix(full, "http") {
			return
		}
		o := try(t, root, full)
		rp := map[string]any{"root": root, "path": full, "accepted": o.accepted, "stored": o.stored, "get": o.get, "kind": kind}
		cs.Add(o.coq(), rp)
		nt := strings.HasPrefix(full, root) && (strings.Contains(full, "..") || strings.Contains(full, "root-evil") ||
			strings.Contains(full, "rootx") || strings.Contains(full, "link"))
		st.Case(root+"|"+full, nt)
		st.Count("kind=" + kind)
		st.Count(fmt.Sprintf("accepted=%v get=%s", o.accepted, o.get))
		if o.accepted && o.get == "GSame" {
			// information only: where the bytes physically came from
			if rr, err := filepath.EvalSymlinks(filepath.Join(root, o.stored)); err == nil {
				if ra, err := filepath.Abs(rr); err == nil && !strings.HasPrefix(ra+"/", T+"/root/") {
					physOutside++
				}
			}
		}
		st.Sample(rp, 6)
	}

	// corpus: the finding's witnesses first, then boundary spellings
	R := T + "/root"
	emit(R, T+"/root-evil/secret", "corpus")
	emit(R, R+"/../x", "corpus")
	emit(R, T+"/rootx", "corpus")
	emit(R, R+"/a", "corpus")
	emit(R, R+"/sub/../../root-evil/secret", "corpus")
	emit(R, R+"/sub/../a", "corpus")
	emit(R, R+"/..hidden", "corpus")
	emit(R, R+"/.../d", "corpus")
	emit("root", "root/..hidden", "corpus")
	emit(R, R, "corpus")
	emit(R, R+"/", "corpus")
	emit(R, R+"/..", "corpus")
	emit(R, R+"/link/x", "corpus")
	emit(R, R+"/flink", "corpus")
	emit(R, T+"/other/x", "corpus")
	emit(R, "root/a", "corpus")
	emit(R, R+"/missing", "corpus")
	emit(R+"/", R+"/a", "corpus")
	emit(R+"/", T+"/root-evil/secret", "corpus")
	emit(R+"/.", R+"/./a", "corpus")
	emit(R+"/sub/..", R+"/sub/../a", "corpus")
	emit(R+"/sub/..", R+"/sub/../../x", "corpus")
	emit("root", "root/a", "corpus")
	emit("root", "root-evil/secret", "corpus")
	emit("root", "root/../x", "corpus")
	emit("root", R+"/a", "corpus")
	emit("./root", "./root/sub/b", "corpus")
	emit("", "root/a", "corpus")
	emit("", "../"+filepath.Base(T)+"/x", "corpus")
	emit("", R+"/a", "corpus")
	emit(".", "./x", "corpus")
	emit(".", "x", "corpus")
	emit("/", R+"/a", "corpus")
	emit("/", "/../"+strings.TrimPrefix(T, "/")+"/x", "corpus")
	emit(T, R+"/a", "corpus")
	emit(T+"/root/sub", T+"/root/sub/deep/../b", "corpus")
	emit(T+"/root/sub", T+"/root/sub/../a", "corpus")
	emit(T+"/root/sub", T+"/root/subx", "corpus")
	emit("..", "../"+filepath.Base(T)+"/x", "corpus")
	emit("../"+filepath.Base(T)+"/root", "../"+filepath.Base(T)+"/root/a", "corpus")
	emit("../"+filepath.Base(T)+"/root", "../"+filepath.Base(T)+"/root/../x", "corpus")

	base := filepath.Base(T)
	roots := []string{R, R + "/", R + "/.", T + "//root", R + "/sub/..", R + "/sub", "root", "./root", "root/", "", ".", "/", T, T + "/",
		"../" + base + "/root", R + "/sub/deep/../.."}
	// spellings of <T>/root to start a FullPath with (besides the root string itself)
	rootSpell := []string{R, R + "/", R + "/.", T + "//root", R + "/sub/..", "root", "./root", "../" + base + "/root", R + "/sub/deep/../.."}
	// interesting targets relative to <T>/root
	known := []string{"a", "sub/b", "sub/deep/c", "link/x", "flink", "../root-evil/secret", "../x", "../rootx", "../other/x",
		"sub/../../x", "sub/deep/../../../root-evil/secret", "sub", "", "..", "missing", "a/b", "..hidden", ".../d", "sub/../..hidden", "../root/..hidden", "sub/deep/../b", "../root/a", "../root/../x"}
	segs := []string{"a", "sub", "deep", "b", "c", "x", "..", "..", ".", "", "link", "flink", "missing", "root", "root-evil", "secret", "rootx", "other"}
	tails := []string{"-evil/secret", "x", "/", "/.", "/..", "-evil/../root/a"}
	noise := []string{".", "", "sub/..", "missing/..", "sub/deep/../..", "."}
	n := e.Pick(1500, 12000)
	if strings.HasPrefix(filepath.Base(e.Out), "search") {
		n = 3000 // the driver's search for a concrete failing input after a break
	}
	for i := 0; i < n; i++ {
		root := roots[e.Rng.Intn(len(roots))]
		var b strings.Builder
		switch x := e.Rng.Intn(12); {
		case x < 6:
			b.WriteString(root) // the root string itself: passes the string-prefix test whatever follows
		case x < 9:
			b.WriteString(rootSpell[e.Rng.Intn(len(rootSpell))])
		case x < 10:
			b.WriteString(T)
		case x < 11:
			// relative spelling
		default:
			b.WriteString("/")
		}
		if e.Rng.Intn(6) == 0 {
			b.WriteString(tails[e.Rng.Intn(len(tails))])
		}
		if e.Rng.Intn(3) != 0 {
			// a known target, with lexical noise between its components
			for _, c := range strings.Split(known[e.Rng.Intn(len(known))], "/") {
				if e.Rng.Intn(4) == 0 {
					b.WriteString("/" + noise[e.Rng.Intn(len(noise))])
				}
				b.WriteString("/" + c)
			}
		} else {
			k := e.Rng.Intn(6)
			for j := 0; j < k; j++ {
				if b.Len() > 0 || e.Rng.Intn(2) == 0 {
					b.WriteString("/")
				}
				b.WriteString(segs[e.Rng.Intn(len(segs))])
			}
		}
		if e.Rng.Intn(10) == 0 {
			b.WriteString(tails[e.Rng.Intn(len(tails))])
		}
		emit(root, b.String(), "random")
	}
	st.Extra["accepted_lexically_inside_but_physically_outside_via_symlink"] = physOutside
	cs.Close()
	st.Write(e)
}
