// Correspondence harness for C17 (block-size estimation of a basic directory
// equals the exact serialised directory block).
//
// Real uio.BasicDirectory objects are created in SizeEstimationBlock mode with
// generated mode/mtime, driven with generated add / replace / remove / reload
// sequences (children are fake ipld.Nodes with freely chosen CID and Size), and
// after creation and after every operation the harness records the tracked
// estimate (read through export_verif.go), the tracked link count, the length
// of GetNode().RawData() and its Adler-32.  coqc replays the sequence on the
// model (model/M_C17.v: translated size functions + hand model of the tracking)
// and its own dag-pb/UnixFS encoder, and checks estimate == block length.
// The three size functions are also called directly on boundary arguments.
package c17

import (
	"context"
	"errors"
	"fmt"
	"hash/adler32"
	"math"
	"math/rand"
	"os"
	"path/filepath"
	"strings"
	"testing"
	"time"

	mdag "github.com/ipfs/boxo/ipld/merkledag"
	mdtest "github.com/ipfs/boxo/ipld/merkledag/test"
	uio "github.com/ipfs/boxo/ipld/unixfs/io"
	"github.com/ipfs/go-cid"
	ipld "github.com/ipfs/go-ipld-format"
	mh "github.com/multiformats/go-multihash"

	"verif/harness/vh"
)

const zeroSec = -62135596800

// ---------- a child node with freely chosen CID and cumulative size ----------
type fakeNode struct {
	c    cid.Cid
	size uint64
}

func (f *fakeNode) RawData() []byte                         { return nil }
func (f *fakeNode) Cid() cid.Cid                            { return f.c }
func (f *fakeNode) String() string                          { return "fake" }
func (f *fakeNode) Loggable() map[string]any                { return nil }
func (f *fakeNode) Resolve([]string) (any, []string, error) { return nil, nil, errors.New("no") }
func (f *fakeNode) Tree(string, int) []string               { return nil }
func (f *fakeNode) ResolveLink([]string) (*ipld.Link, []string, error) {
	return nil, nil, errors.New("no")
}
func (f *fakeNode) Copy() ipld.Node               { return f }
func (f *fakeNode) Links() []*ipld.Link           { return nil }
func (f *fakeNode) Stat() (*ipld.NodeStat, error) { return &ipld.NodeStat{}, nil }
func (f *fakeNode) Size() (uint64, error)         { return f.size, nil }

// ---------- compact Coq rendering of byte strings ----------
// seg renders a byte string as literal bytes ++ (rp n b) runs so that long
// names / digests stay short in the cases file.
func seg(b []byte) string {
	var parts []string
	i := 0
	for i < len(b) {
		j := i
		for j < len(b) && b[j] == b[i] {
			j++
		}
		if j-i >= 6 {
			parts = append(parts, fmt.Sprintf("rp %d%%nat %d", j-i, b[i]))
			i = j
			continue
		}
		// literal stretch until the next long run
		k := i
		for k < len(b) {
			r := k
			for r < len(b) && b[r] == b[k] {
				r++
			}
			if r-k >= 6 {
				break
			}
			k = r
		}
		parts = append(parts, vh.Bytes(b[i:k]))
		i = k
	}
	if len(parts) == 0 {
		return "[]"
	}
	return "(" + strings.Join(parts, " ++ ") + ")"
}

type entry struct {
	name  string
	c     cid.Cid
	tsize uint64
}

func (e entry) coq() string {
	return fmt.Sprintf("(Build_entry %s %s %s)", seg([]byte(e.name)), seg(e.c.Bytes()), vh.ZU(e.tsize))
}

// ---------- generators ----------
var tsizeEdges = []uint64{0, 1, 127, 128, 16383, 16384, 2097151, 2097152, 268435455, 268435456,
	1<<35 - 1, 1 << 35, 1<<42 - 1, 1 << 42, 1<<49 - 1, 1 << 49, 1<<56 - 1, 1 << 56, 1<<63 - 1, 1<<63 - 2, 262144, 1 << 20}

func genTsize(r *rand.Rand) uint64 {
	switch r.Intn(10) {
	case 0, 1, 2, 3:
		return tsizeEdges[r.Intn(len(tsizeEdges))]
	case 4, 5:
		return (r.Uint64() >> 1) >> uint(r.Intn(63))
	case 6:
		if r.Intn(4) == 0 {
			return 1<<63 + uint64(r.Intn(3)) // refused by ProtoNode.AddRawLink
		}
	}
	return uint64(r.Intn(1 << 22))
}

func genDigest(r *rand.Rand, n int) []byte {
	d := make([]byte, n)
	if n <= 4 || r.Intn(4) == 0 {
		r.Read(d)
		return d
	}
	b := byte(r.Intn(256))
	for i := range d {
		d[i] = b
	}
	return d
}

func genCid(r *rand.Rand) cid.Cid {
	switch r.Intn(10) {
	case 0, 1, 2: // CIDv0
		m, err := mh.Encode(genDigest(r, 32), mh.SHA2_256)
		if err != nil {
			panic(err)
		}
		return cid.NewCidV0(m)
	case 3, 4, 5: // CIDv1 sha2-256
		m, _ := mh.Encode(genDigest(r, 32), mh.SHA2_256)
		return cid.NewCidV1([]uint64{cid.DagProtobuf, cid.Raw, cid.DagCBOR}[r.Intn(3)], m)
	case 6: // sha2-512, 64-byte digest
		m, _ := mh.Encode(genDigest(r, 64), mh.SHA2_512)
		return cid.NewCidV1(cid.Raw, m)
	case 7: // identity, digest 0..64 (incl. lengths around nothing special: all one-byte varints)
		m, _ := mh.Encode(genDigest(r, r.Intn(65)), mh.IDENTITY)
		return cid.NewCidV1(cid.Raw, m)
	case 8: // multi-byte codec and hash code varints, truncated digests
		m, _ := mh.Encode(genDigest(r, []int{0, 1, 20, 28, 48}[r.Intn(5)]), []uint64{mh.BLAKE2B_MIN + 31, mh.SHA3_256, mh.KECCAK_512, 0x1e}[r.Intn(4)])
		return cid.NewCidV1([]uint64{0x0129, 0x0200, cid.GitRaw, 0x300000}[r.Intn(4)], m)
	default: // long identity digest: CID length crosses the 127/128 varint boundary
		m, _ := mh.Encode(genDigest(r, 120+r.Intn(12)), mh.IDENTITY)
		return cid.NewCidV1(cid.Raw, m)
	}
}

// genCidSafe: CIDs whose hash passes boxo's allowlist (the HAMT a dynamic
// directory converts to hands links to a block service that validates them).
func genCidSafe(r *rand.Rand) cid.Cid {
	for {
		c := genCid(r)
		p := c.Prefix()
		switch {
		case p.MhType == mh.SHA2_256 && p.MhLength == 32, p.MhType == mh.SHA2_512 && p.MhLength == 64,
			p.MhType == mh.IDENTITY && p.MhLength <= 128:
			return c
		}
	}
}

func genName(r *rand.Rand, long bool) string {
	if long || r.Intn(12) == 0 {
		n := []int{126, 127, 128, 129, 255, 256, 300, 120, 200}[r.Intn(9)]
		b := make([]byte, n)
		c := byte('a' + r.Intn(26))
		for i := range b {
			b[i] = c
		}
		// a distinguishing prefix so that long names differ
		copy(b, fmt.Sprintf("%d", r.Intn(1000)))
		return string(b)
	}
	if r.Intn(40) == 0 {
		return ""
	}
	n := 1 + r.Intn(10)
	b := make([]byte, n)
	for i := range b {
		switch r.Intn(12) {
		case 0:
			b[i] = byte(r.Intn(256))
		default:
			b[i] = "abcdefghijklmnopqrstuvwxyzABCXYZ0123456789._- "[r.Intn(46)]
		}
	}
	return string(b)
}

var secEdges = []int64{0, 1, -1, zeroSec, zeroSec + 1, 253402300799, math.MinInt64, math.MaxInt64, 127, 128, 16383, 16384,
	1<<31 - 1, 1 << 31, 1 << 35, 1<<35 - 1, 1700000000, -1700000000, 1<<56 - 1, 1 << 56, 1<<62 + 5, -(1 << 40)}

func genTime(r *rand.Rand) time.Time {
	if r.Intn(6) == 0 {
		return time.Time{}
	}
	var sec int64
	if r.Intn(2) == 0 {
		sec = secEdges[r.Intn(len(secEdges))]
	} else {
		sec = int64(r.Uint64()) >> uint(r.Intn(64))
	}
	nsec := []int64{0, 0, 1, 999999999, int64(r.Intn(1e9))}[r.Intn(5)]
	t := time.Unix(sec, nsec)
	if r.Intn(2) == 0 {
		t = t.UTC()
	}
	return t
}

func genMode(r *rand.Rand) os.FileMode {
	switch r.Intn(8) {
	case 0:
		return 0
	case 1:
		return os.ModeDir // a mode without permission bits: the stored field is 0
	case 2:
		return os.FileMode(r.Uint32())
	case 3:
		return os.ModeDir | os.FileMode([]uint32{0o755, 0o777, 0o700, 0o1777, 0o7777, 0o177, 0o200}[r.Intn(7)])
	}
	p := uint32(r.Intn(4096))
	m := os.FileMode(p & 0o777)
	if p&0o4000 != 0 {
		m |= os.ModeSetuid
	}
	if p&0o2000 != 0 {
		m |= os.ModeSetgid
	}
	if p&0o1000 != 0 {
		m |= os.ModeSticky
	}
	if r.Intn(2) == 0 {
		m |= os.ModeDir
	}
	return m
}

func timeCoq(t time.Time) string {
	return vh.Pair(vh.Z(t.Unix()), vh.Z(int64(t.Nanosecond())))
}

// ---------- one directory history ----------
type hist struct {
	mode  os.FileMode
	mtime time.Time
	d     *uio.BasicDirectory
	ops   []string
	trace []string
	names []string // names currently present (harness bookkeeping for choosing targets)
	bad   bool
}

func (h *hist) observe(ok bool) {
	nd, err := h.d.GetNode()
	if err != nil {
		panic(err)
	}
	raw := nd.RawData()
	h.trace = append(h.trace, fmt.Sprintf("(%s, %s, %s, %s, %s)",
		vh.Z(int64(uio.VerifEstimatedSize(h.d))), vh.Z(int64(uio.VerifTotalLinks(h.d))),
		vh.Z(int64(len(raw))), vh.ZU(uint64(adler32.Checksum(raw))), vh.Bool(ok)))
	if uio.VerifEstimatedSize(h.d) != len(raw) {
		h.bad = true
	}
}

func newHist(mode os.FileMode, mtime time.Time) *hist {
	d, err := uio.NewBasicDirectory(nil, uio.WithStat(mode, mtime), uio.WithSizeEstimationMode(uio.SizeEstimationBlock))
	if err != nil {
		panic(err)
	}
	h := &hist{mode: mode, mtime: mtime, d: d}
	h.observe(true)
	return h
}

func (h *hist) add(e entry) {
	err := h.d.AddChild(context.Background(), e.name, &fakeNode{c: e.c, size: e.tsize})
	h.ops = append(h.ops, vh.App("OAdd", e.coq()))
	h.dropName(e.name)
	if err == nil {
		h.names = append(h.names, e.name)
	}
	h.observe(err == nil)
}

func (h *hist) dropName(n string) {
	for i, x := range h.names {
		if x == n {
			h.names = append(h.names[:i], h.names[i+1:]...)
			return
		}
	}
}

func (h *hist) remove(name string) {
	err := h.d.RemoveChild(context.Background(), name)
	if err != nil && !errors.Is(err, os.ErrNotExist) {
		panic(err)
	}
	h.ops = append(h.ops, vh.App("ORemove", seg([]byte(name))))
	h.dropName(name)
	h.observe(err == nil)
}

func (h *hist) reload() {
	nd, _ := h.d.GetNode()
	pn, err := mdag.DecodeProtobuf(nd.RawData())
	if err != nil {
		panic(err)
	}
	h.d = uio.NewBasicDirectoryFromNode(nil, pn) // block mode through the global, see TestC17
	h.ops = append(h.ops, "OReload")
	h.observe(true)
}

type replay struct {
	Kind  string   `json:"kind"`
	Mode  uint32   `json:"mode"`
	Mtime string   `json:"mtime"`
	Ops   []string `json:"ops,omitempty"`
	Args  string   `json:"args,omitempty"`
}

func (h *hist) emit(cs *vh.Cases, st *vh.Stats, kind string) {
	term := vh.App("CDir", vh.ZU(uint64(uint32(h.mode))), timeCoq(h.mtime), vh.List(h.ops), vh.List(h.trace))
	rp := replay{Kind: kind, Mode: uint32(h.mode), Mtime: timeCoq(h.mtime), Ops: h.ops}
	cs.Add(term, rp)
	st.Case(fmt.Sprintf("%d|%s|%s", uint32(h.mode), timeCoq(h.mtime), strings.Join(h.ops, ";")), len(h.ops) > 0)
	st.Sample(rp, 6)
	st.Count("kind:" + kind)
	if h.bad {
		st.Count("estimate!=block in some step")
	}
}

func (h *hist) random(r *rand.Rand, st *vh.Stats, n int, reloads bool) {
	for i := 0; i < n; i++ {
		k := r.Intn(20)
		switch {
		case k < 9 || len(h.names) == 0:
			h.add(entry{genName(r, false), genCid(r), genTsize(r)})
			st.Count("op:add")
		case k < 13: // replacement of an existing entry
			h.add(entry{h.names[r.Intn(len(h.names))], genCid(r), genTsize(r)})
			st.Count("op:replace")
		case k < 17:
			h.remove(h.names[r.Intn(len(h.names))])
			st.Count("op:remove")
		case k < 18:
			h.remove(genName(r, false))
			st.Count("op:remove-missing")
		default:
			if reloads {
				h.reload()
				st.Count("op:reload")
			}
		}
	}
}

// ---------- dynamic directories: the Basic -> HAMT decision ----------
// A DynamicDirectory in block mode is driven next to a shadow BasicDirectory that
// performs the same edits and never converts: len(shadow.RawData()) after an edit
// is the exact size of the block the basic directory would serialise, i.e. what
// the documented rule compares with the threshold.
type dynOp struct {
	thr    int
	add    bool
	e      entry
	rmName string
}

func (o dynOp) coq() string {
	if o.add {
		return vh.Pair(vh.Z(int64(o.thr)), vh.App("OAdd", o.e.coq()))
	}
	return vh.Pair(vh.Z(int64(o.thr)), vh.App("ORemove", seg([]byte(o.rmName))))
}

func basicObs(d *uio.BasicDirectory, ok bool) (string, int) {
	nd, _ := d.GetNode()
	raw := nd.RawData()
	return fmt.Sprintf("(%s, %s, %s, %s, %s)",
		vh.Z(int64(uio.VerifEstimatedSize(d))), vh.Z(int64(uio.VerifTotalLinks(d))),
		vh.Z(int64(len(raw))), vh.ZU(uint64(adler32.Checksum(raw))), vh.Bool(ok)), len(raw)
}

// shadowSizes runs the edits on a pure basic directory and returns the block
// length after creation and after every edit.
func shadowSizes(mode os.FileMode, mtime time.Time, ops []dynOp) []int {
	sh, err := uio.NewBasicDirectory(nil, uio.WithStat(mode, mtime), uio.WithSizeEstimationMode(uio.SizeEstimationBlock))
	if err != nil {
		panic(err)
	}
	_, n := basicObs(sh, true)
	out := []int{n}
	for _, o := range ops {
		if o.add {
			sh.AddChild(context.Background(), o.e.name, &fakeNode{c: o.e.c, size: o.e.tsize})
		} else {
			sh.RemoveChild(context.Background(), o.rmName)
		}
		_, n = basicObs(sh, true)
		out = append(out, n)
	}
	return out
}

// runDyn drives the real DynamicDirectory and emits one CDyn case.
func runDyn(cs *vh.Cases, st *vh.Stats, kind string, mode os.FileMode, mtime time.Time, ops []dynOp) {
	ctx := context.Background()
	dir, err := uio.NewDirectory(mdtest.Mock(), uio.WithStat(mode, mtime), uio.WithSizeEstimationMode(uio.SizeEstimationBlock))
	if err != nil {
		panic(err)
	}
	dd := dir.(*uio.DynamicDirectory)
	shadow, err := uio.NewBasicDirectory(nil, uio.WithStat(mode, mtime), uio.WithSizeEstimationMode(uio.SizeEstimationBlock))
	if err != nil {
		panic(err)
	}
	first, _ := basicObs(dd.Directory.(*uio.BasicDirectory), true)
	var done, trace []string
	sharded := false
	for _, o := range ops {
		dd.SetHAMTShardingSize(o.thr)
		var e1, e2 error
		if o.add {
			e1 = shadow.AddChild(ctx, o.e.name, &fakeNode{c: o.e.c, size: o.e.tsize})
			e2 = dd.AddChild(ctx, o.e.name, &fakeNode{c: o.e.c, size: o.e.tsize})
		} else {
			e1 = shadow.RemoveChild(ctx, o.rmName)
			e2 = dd.RemoveChild(ctx, o.rmName)
		}
		_, w := basicObs(shadow, true)
		done = append(done, o.coq())
		if bd, ok := dd.Directory.(*uio.BasicDirectory); ok {
			if (e1 == nil) != (e2 == nil) {
				panic(fmt.Sprintf("shadow and dynamic directory disagree on the error: %v / %v", e1, e2))
			}
			ob, _ := basicObs(bd, e2 == nil)
			trace = append(trace, fmt.Sprintf("(false, %d, %s)", w, ob))
			if w > o.thr && o.thr > 0 {
				st.Count("dyn:basic above threshold")
			}
		} else {
			if e2 != nil {
				panic(e2)
			}
			trace = append(trace, fmt.Sprintf("(true, %d, no_obs)", w))
			sharded = true
			if w-o.thr <= 2 {
				st.Count("dyn:sharded within 2 bytes of the threshold")
			}
			break
		}
		if d := o.thr - w; d >= 0 && d <= 2 {
			st.Count("dyn:stayed basic within 2 bytes of the threshold")
		}
	}
	term := vh.App("CDyn", vh.ZU(uint64(uint32(mode))), timeCoq(mtime), vh.List(done), first, vh.List(trace))
	rp := replay{Kind: kind, Mode: uint32(mode), Mtime: timeCoq(mtime), Ops: done}
	cs.Add(term, rp)
	st.Case(fmt.Sprintf("dyn|%d|%s|%s", uint32(mode), timeCoq(mtime), strings.Join(done, ";")), len(done) > 0)
	st.Count("kind:" + kind)
	if sharded {
		st.Count("dyn:ended sharded")
	} else {
		st.Count("dyn:ended basic")
	}
}

// tsize representatives of every varint length class (1..9 bytes) and their edges
var tsizeClass = []uint64{0, 127, 128, 16383, 16384, 2097151, 2097152, 268435455, 268435456,
	1<<35 - 1, 1 << 35, 1<<42 - 1, 1 << 42, 1<<49 - 1, 1 << 49, 1<<56 - 1, 1 << 56, 1<<63 - 1}

// replaceAcrossClasses: a few entries, then the entry `name` (Tsize a) is replaced
// by a target with Tsize b under a threshold placed at the resulting block size + delta.
func replaceAcrossClasses(r *rand.Rand, cs *vh.Cases, st *vh.Stats, a, b uint64, delta int, mode os.FileMode, mtime time.Time) {
	nOthers := 1 + r.Intn(3)
	var ops []dynOp
	target := genName(r, false) + "t"
	pos := r.Intn(nOthers + 1)
	for i := 0; i <= nOthers; i++ {
		if i == pos {
			ops = append(ops, dynOp{add: true, e: entry{target, genCidSafe(r), a}})
		} else {
			ops = append(ops, dynOp{add: true, e: entry{fmt.Sprintf("o%d", i) + genName(r, false), genCidSafe(r), genTsize(r) &^ (1 << 63)}})
		}
	}
	newCid := genCidSafe(r)
	if r.Intn(2) == 0 {
		newCid = ops[pos].e.c // same CID, only the size class changes
	}
	ops = append(ops, dynOp{add: true, e: entry{target, newCid, b}})
	sizes := shadowSizes(mode, mtime, ops)
	final := sizes[len(sizes)-1]
	setup := 0
	for _, s := range sizes[:len(sizes)-1] {
		setup = max(setup, s)
	}
	for i := range ops {
		ops[i].thr = setup + 3 // generous while the directory is being filled
	}
	ops[len(ops)-1].thr = max(final+delta, 1)
	runDyn(cs, st, "dyn-replace", mode, mtime, ops)
}

func randomDyn(r *rand.Rand, cs *vh.Cases, st *vh.Stats) {
	mode, mtime := genMode(r), genTime(r)
	n := 2 + r.Intn(9)
	var ops []dynOp
	var names []string
	for i := 0; i < n; i++ {
		k := r.Intn(10)
		switch {
		case k < 5 || len(names) == 0:
			e := entry{genName(r, false), genCidSafe(r), genTsize(r) &^ (1 << 63)}
			names = append(names, e.name)
			ops = append(ops, dynOp{add: true, e: e})
		case k < 8:
			ts := tsizeClass[r.Intn(len(tsizeClass))]
			ops = append(ops, dynOp{add: true, e: entry{names[r.Intn(len(names))], genCidSafe(r), ts}})
		default:
			ops = append(ops, dynOp{rmName: names[r.Intn(len(names))]})
		}
	}
	sizes := shadowSizes(mode, mtime, ops)
	// threshold near the size after a chosen edit; earlier edits run under a
	// threshold near their own results too (one in three) or a generous one
	k := 1 + r.Intn(n)
	for i := range ops {
		switch {
		case i+1 == k || r.Intn(3) == 0:
			ops[i].thr = max(sizes[i+1]+r.Intn(5)-2, 1)
		default:
			ops[i].thr = sizes[i+1] + 3 + r.Intn(40)
		}
		if r.Intn(60) == 0 {
			ops[i].thr = 0 // per-directory threshold unset: the 256 KiB default applies
		}
	}
	runDyn(cs, st, "dyn-history", mode, mtime, ops)
}

// ---------- names around the varint boundaries of the link wrapper ----------
func vlenGo(v uint64) int {
	n := 1
	for v >= 128 {
		v >>= 7
		n++
	}
	return n
}

// fixedCid returns a CIDv0 (34 bytes) or a CIDv1 raw/sha2-256 (36 bytes) with a
// run-compressible digest.
func fixedCid(r *rand.Rand, v1 bool) cid.Cid {
	d := make([]byte, 32)
	b := byte(r.Intn(256))
	for i := range d {
		d[i] = b
	}
	m, _ := mh.Encode(d, mh.SHA2_256)
	if v1 {
		return cid.NewCidV1(cid.Raw, m)
	}
	return cid.NewCidV0(m)
}

func nameOfLen(r *rand.Rand, n int) string {
	b := make([]byte, n)
	c := byte('a' + r.Intn(26))
	for i := range b {
		b[i] = c
	}
	if n >= 8 {
		copy(b, fmt.Sprintf("%03d", r.Intn(1000)))
	}
	return string(b)
}

// nameLenForInner returns the name length that makes the PBLink message
// (Hash + Name + Tsize fields) exactly `inner` bytes long, or -1.
func nameLenForInner(inner, cidLen int, tsize uint64) int {
	rest := inner - (1 + vlenGo(uint64(cidLen)) + cidLen) - (1 + vlenGo(tsize)) - 1
	for vl := 1; vl <= 3; vl++ {
		n := rest - vl
		if n >= 0 && vlenGo(uint64(n)) == vl {
			return n
		}
	}
	return -1
}

var wrapperTsizes = []uint64{0, 127, 128, 16384, 2097152, 1 << 35, 1 << 56, 1<<63 - 1}

// boundaryEntries: for both CID lengths and several Tsize widths, the entries
// whose link message is 125..130 and 16381..16386 bytes long (the wrapper's
// length prefix grows at 128 and at 16384), the same with the Tsize field left
// out of the count (a length prefix computed too early), and every name length
// 1..300.
func boundaryEntries(r *rand.Rand, quick bool, seed int64) []entry {
	var out []entry
	for ci, v1 := range []bool{false, true} {
		cl := 34
		if v1 {
			cl = 36
		}
		for ti, ts := range wrapperTsizes {
			if quick && (ci+ti+int(seed))%2 != 0 {
				continue
			}
			for _, edge := range []int{128, 16384} {
				for d := -3; d <= 2; d++ {
					if n := nameLenForInner(edge+d, cl, ts); n >= 0 {
						out = append(out, entry{nameOfLen(r, n), fixedCid(r, v1), ts})
					}
					// boundary of Hash+Name alone, i.e. inner = edge+d+(Tsize field)
					if n := nameLenForInner(edge+d+1+vlenGo(ts), cl, ts); n >= 0 && (!quick || edge == 128) {
						out = append(out, entry{nameOfLen(r, n), fixedCid(r, v1), ts})
					}
				}
			}
		}
	}
	for n := 1; n <= 300; n++ {
		v1 := (n+int(seed))%2 == 0
		out = append(out, entry{nameOfLen(r, n), fixedCid(r, v1), wrapperTsizes[(n+int(seed))%len(wrapperTsizes)]})
		if n >= 70 && n <= 100 { // the window where Hash+Name+Tsize crosses 128: both CID kinds, all widths
			for k, ts := range wrapperTsizes {
				out = append(out, entry{nameOfLen(r, n), fixedCid(r, (k+n)%2 == 0), ts})
			}
		}
	}
	return out
}

func TestC17(t *testing.T) {
	env := vh.Load(t)
	r := env.Rng
	search := strings.HasPrefix(filepath.Base(env.Out), "search")
	// NewBasicDirectoryFromNode takes its estimation mode from the package global.
	old := uio.HAMTSizeEstimation
	uio.HAMTSizeEstimation = uio.SizeEstimationBlock
	defer func() { uio.HAMTSizeEstimation = old }()

	st := vh.NewStats("a directory history is non-trivial when it has at least one operation; a direct call of the size functions always; distinct = distinct (mode, mtime, op list) or argument tuple")
	cs := vh.NewCases(env, "From V Require Import lib.DagPb model.M_C17.\nOpen Scope Z_scope.\nDefinition rp (n : nat) (b : Z) : list Z := repeat b n.\n", "case", "check_case", 100)

	// ---- corpus ----
	{ // finding C17-1: a mode without permission bits, then reload
		h := newHist(os.ModeDir, time.Time{})
		h.reload()
		h.emit(cs, st, "corpus")
	}
	{ // the usual: 0755 directory with mtime, three entries, replace, remove
		h := newHist(os.ModeDir|0o755, time.Unix(1700000000, 5))
		c0, _ := cid.Decode("QmUNLLsPACCz1vLxQVkXqqLX5R1X345qqfHbsf67hvA3Nn")
		h.add(entry{"b.txt", c0, 262158})
		h.add(entry{"a.txt", cid.NewCidV1(cid.Raw, c0.Hash()), 12})
		h.add(entry{"sub", c0, 1 << 40})
		h.add(entry{"b.txt", c0, 127})
		h.remove("a.txt")
		h.reload()
		h.add(entry{"c", c0, 0})
		h.emit(cs, st, "corpus")
	}
	{ // negative seconds with nanoseconds: the 10-byte varint branch
		h := newHist(0o644, time.Unix(-1, 999999999))
		c0, _ := cid.Decode("QmUNLLsPACCz1vLxQVkXqqLX5R1X345qqfHbsf67hvA3Nn")
		h.add(entry{strings.Repeat("n", 128), c0, 1<<63 - 1})
		h.remove(strings.Repeat("n", 128))
		h.emit(cs, st, "corpus")
	}

	// ---- direct calls of the size functions on boundary arguments ----
	nfun := env.Pick(300, 4000)
	if search {
		nfun = 1500
	}
	for i := 0; i < nfun; i++ {
		var v uint64
		switch {
		case i < 2*65:
			b := uint(i / 2)
			if b == 0 {
				v = uint64(i % 2)
			} else if i%2 == 0 {
				v = 1<<b - 1
				if b == 64 {
					v = math.MaxUint64
				}
			} else if b < 64 {
				v = 1 << b
			} else {
				v = math.MaxUint64 - 1
			}
		default:
			v = r.Uint64() >> uint(r.Intn(64))
		}
		e := entry{genName(r, i%9 == 0), genCid(r), genTsize(r) &^ (1 << 63)}
		if i%3 == 0 {
			e.tsize = v &^ (1 << 63)
		}
		m, tm := genMode(r), genTime(r)
		term := vh.App("CFun", vh.ZU(v), vh.Z(int64(uio.VerifVarintLen(v))), e.coq(),
			vh.Z(int64(uio.VerifLinkSerializedSize(e.name, e.c, e.tsize))),
			vh.ZU(uint64(uint32(m))), timeCoq(tm), vh.Z(int64(uio.VerifDataFieldSerializedSize(m, tm))))
		rp := replay{Kind: "fun", Mode: uint32(m), Mtime: timeCoq(tm), Args: fmt.Sprintf("v=%d %s", v, e.coq())}
		cs.Add(term, rp)
		st.Case(term, true)
		st.Count("kind:fun")
	}

	// ---- link-wrapper boundaries and every name length 1..300: direct calls and one-entry directories ----
	for i, e := range boundaryEntries(r, !env.Thorough(), env.Seed) {
		m, tm := genMode(r), genTime(r)
		v := uint64(len(e.name))
		term := vh.App("CFun", vh.ZU(v), vh.Z(int64(uio.VerifVarintLen(v))), e.coq(),
			vh.Z(int64(uio.VerifLinkSerializedSize(e.name, e.c, e.tsize))),
			vh.ZU(uint64(uint32(m))), timeCoq(tm), vh.Z(int64(uio.VerifDataFieldSerializedSize(m, tm))))
		cs.Add(term, replay{Kind: "fun-boundary", Mode: uint32(m), Mtime: timeCoq(tm), Args: fmt.Sprintf("namelen=%d cidlen=%d tsize=%d", len(e.name), len(e.c.Bytes()), e.tsize)})
		st.Case(term, true)
		st.Count("kind:fun-boundary")
		if len(e.name) <= 300 && (env.Thorough() || i%3 == int(env.Seed%3+3)%3) {
			h := newHist(m, tm)
			h.add(e)
			if i%2 == 0 {
				h.add(entry{e.name, e.c, wrapperTsizes[i%len(wrapperTsizes)]}) // replacement across a Tsize width
			}
			h.emit(cs, st, "boundary-dir")
		} else if len(e.name) > 300 && i%4 == 0 {
			h := newHist(0, time.Time{})
			h.add(e)
			h.emit(cs, st, "boundary-dir")
		}
	}

	// ---- mode x mtime sweep on empty and one-entry directories ----
	sweepModes := []os.FileMode{0, os.ModeDir, 0o644, os.ModeDir | 0o755, os.ModeDir | os.ModeSetuid | os.ModeSetgid | os.ModeSticky | 0o777,
		os.ModeSticky, 0o177, 0o200, os.ModeSetgid | 0o070}
	for _, m := range sweepModes {
		for _, sec := range []int64{zeroSec, 0, 1, -1, 127, 128, 1700000000, math.MaxInt64, math.MinInt64} {
			for _, nsec := range []int64{0, 1, 999999999} {
				if !env.Thorough() && !search && (int(sec)+int(nsec)+int(m))%3 != int(env.Seed%3+3)%3 {
					continue
				}
				h := newHist(m, time.Unix(sec, nsec))
				h.add(entry{"x", genCid(r), genTsize(r) &^ (1 << 63)})
				if nsec == 1 {
					h.reload()
				}
				h.emit(cs, st, "stat-sweep")
			}
		}
	}

	// ---- random histories ----
	nh := env.Pick(500, 6000)
	if search {
		nh = 2500
	}
	for i := 0; i < nh; i++ {
		h := newHist(genMode(r), genTime(r))
		n := r.Intn(10)
		if i%25 == 0 {
			n = 20 + r.Intn(11) // up to 30 operations
		}
		h.random(r, st, n, i%3 != 0)
		h.emit(cs, st, "history")
		st.Count(fmt.Sprintf("len:%02d", min(len(h.ops)/3*3, 30)))
	}

	// ---- dynamic directories: thresholds at the exact resulting block size -2..+2 ----
	{ // corpus: three small entries, the first replaced by a target one varint class up, threshold = old size
		c0, _ := cid.Decode("QmUNLLsPACCz1vLxQVkXqqLX5R1X345qqfHbsf67hvA3Nn")
		mk := func(first uint64, last uint64, lastThr func(allSmall, withBig int) int) {
			ops := []dynOp{{add: true, e: entry{"a", c0, first}}, {add: true, e: entry{"b", c0, 4}}, {add: true, e: entry{"c", c0, 4}},
				{add: true, e: entry{"a", c0, last}}}
			sz := shadowSizes(0, time.Time{}, ops)
			small, big := min(sz[3], sz[4]), max(sz[3], sz[4])
			for i := range ops {
				ops[i].thr = big
			}
			ops[3].thr = lastThr(small, big)
			runDyn(cs, st, "corpus-dyn", 0, time.Time{}, ops)
		}
		mk(4, 311, func(s, b int) int { return s })     // grows over the threshold: must shard
		mk(311, 4, func(s, b int) int { return s })     // shrinks onto the threshold: must stay basic
		mk(4, 311, func(s, b int) int { return b })     // grows onto the threshold: must stay basic
		mk(311, 4, func(s, b int) int { return s - 1 }) // shrinks to one above: must shard
	}
	for i := 0; i+1 < len(tsizeClass); i++ {
		for _, dir := range []int{0, 1} {
			a, b := tsizeClass[i], tsizeClass[i+1]
			if dir == 1 {
				a, b = b, a
			}
			for delta := -2; delta <= 2; delta++ {
				if !env.Thorough() && !search && (i+dir+delta+int(env.Seed%2)+4)%2 != 0 {
					continue
				}
				replaceAcrossClasses(r, cs, st, a, b, delta, genMode(r), genTime(r))
			}
		}
	}
	nfar := env.Pick(60, 1500)
	if search {
		nfar = 300
	}
	for i := 0; i < nfar; i++ { // far apart classes: the error of a wrong old-entry size is up to 9 bytes
		a, b := tsizeClass[r.Intn(len(tsizeClass))], tsizeClass[r.Intn(len(tsizeClass))]
		replaceAcrossClasses(r, cs, st, a, b, r.Intn(21)-10, genMode(r), genTime(r))
	}
	ndyn := env.Pick(250, 4000)
	if search {
		ndyn = 1000
	}
	for i := 0; i < ndyn; i++ {
		randomDyn(r, cs, st)
	}

	cs.Close()
	st.Write(env)
}
