// Correspondence harness for C19 (mfs): generated operation sequences are run on a
// real MFS root (in-memory DAG service, several directory/CID configurations);
// what every operation returned — error classes, stat results, listings, file
// contents and, for every flush, the whole DAG of the returned node read back
// through the UnixFS readers — is written into cases_*.v and compared inside Coq
// with the tree specification and the mechanism model of model/M_C19.v.
package c19

import (
	"context"
	"errors"
	"fmt"
	"io"
	"math/rand"
	"os"
	"sort"
	"strings"
	"testing"
	"time"

	bserv "github.com/ipfs/boxo/blockservice"
	bstore "github.com/ipfs/boxo/blockstore"
	chunker "github.com/ipfs/boxo/chunker"
	offline "github.com/ipfs/boxo/exchange/offline"
	dag "github.com/ipfs/boxo/ipld/merkledag"
	ft "github.com/ipfs/boxo/ipld/unixfs"
	uio "github.com/ipfs/boxo/ipld/unixfs/io"
	"github.com/ipfs/boxo/mfs"
	cid "github.com/ipfs/go-cid"
	ds "github.com/ipfs/go-datastore"
	dssync "github.com/ipfs/go-datastore/sync"
	ipld "github.com/ipfs/go-ipld-format"

	"verif/harness/vh"
)

// ---------- names and paths ----------

var alphabet = []string{"a", "b", "x", "y", "f", "g"}

type path []int

func (p path) str() string {
	if len(p) == 0 {
		return "/"
	}
	var b strings.Builder
	for _, k := range p {
		b.WriteString("/")
		b.WriteString(alphabet[k])
	}
	return b.String()
}
func (p path) coq() string {
	return vh.ListOf([]int(p), func(k int) string { return vh.Z(int64(k)) })
}
func (p path) with(k int) path { return append(append(path{}, p...), k) }

func nameID(s string) int64 {
	for i, a := range alphabet {
		if a == s {
			return int64(i)
		}
	}
	return 99
}

// ---------- operations ----------

type op struct {
	Kind    string `json:"op"`
	P       path   `json:"p,omitempty"`
	Q       path   `json:"q,omitempty"`
	Path    string `json:"path"`
	Dst     string `json:"dst,omitempty"`
	Parents bool   `json:"parents,omitempty"`
	Flush   bool   `json:"flush,omitempty"`
	Sync    bool   `json:"sync,omitempty"`
	Slash   bool   `json:"slash,omitempty"`
	Data    []byte `json:"data,omitempty"`
	N       int64  `json:"n,omitempty"`
	Acts    []fdact `json:"acts,omitempty"` // "fd": what is done through the one write descriptor
	Out     string `json:"out,omitempty"`
}

// one call on an open write descriptor
type fdact struct {
	K    string `json:"k"` // write writeat trunc seek flush
	Data []byte `json:"data,omitempty"`
	N    int64  `json:"n,omitempty"`   // offset (writeat, seek) or size (trunc)
	Rel  bool   `json:"rel,omitempty"` // seek: io.SeekCurrent instead of io.SeekStart
}

func (a fdact) coq() string {
	switch a.K {
	case "write":
		return vh.App("AWrite", vh.Bytes(a.Data))
	case "writeat":
		return vh.App("AWriteAt", vh.Bytes(a.Data), vh.Z(a.N))
	case "trunc":
		return vh.App("ATrunc", vh.Z(a.N))
	case "seek":
		return vh.App("ASeek", vh.Bool(a.Rel), vh.Z(a.N))
	}
	return "AFlush"
}

func (o *op) coq() string {
	switch o.Kind {
	case "mkdir":
		return vh.App("OMkdir", o.P.coq(), vh.Bool(o.Parents), vh.Bool(o.Flush))
	case "create":
		return vh.App("OCreate", o.P.coq())
	case "write":
		return vh.App("OWrite", o.P.coq(), vh.Bytes(o.Data), vh.Bool(o.Sync))
	case "trunc":
		return vh.App("OTrunc", o.P.coq(), vh.Z(o.N), vh.Bool(o.Sync))
	case "mv":
		return vh.App("OMv", o.P.coq(), o.Q.coq(), vh.Bool(o.Slash))
	case "rm":
		return vh.App("ORm", o.P.coq())
	case "chmod":
		return vh.App("OChmod", o.P.coq(), vh.Z(o.N))
	case "touch":
		return vh.App("OTouch", o.P.coq(), vh.Z(o.N))
	case "flush":
		return vh.App("OFlush", o.P.coq())
	case "stat":
		return vh.App("OStat", o.P.coq())
	case "list":
		return vh.App("OList", o.P.coq())
	case "read":
		return vh.App("ORead", o.P.coq())
	case "fd":
		return vh.App("OFd", o.P.coq(), vh.Bool(o.Sync), vh.ListOf(o.Acts, func(a fdact) string { return a.coq() }))
	case "createx":
		return vh.App("OCreateX", o.P.coq())
	case "mvx":
		return vh.App("OMvX", o.P.coq(), o.Q.coq(), vh.Bool(o.Slash))
	}
	panic("op kind " + o.Kind)
}

// ---------- the real filesystem ----------

type config struct {
	Name     string
	V1       bool
	MaxLinks int
	HamtSize int
	Chunk    int
}

var configs = []config{
	{Name: "default-v0"},
	{Name: "cidv1-rawleaves", V1: true},
	{Name: "hamtsize120-v0", HamtSize: 120},
	{Name: "hamtsize64-chunk4-v1", V1: true, HamtSize: 64, Chunk: 4},
	// corpus only: with MaxLinks set, a HAMT directory reloaded from its node misbehaves in
	// ipld/unixfs/io (finding C19-3) in ways that have nothing to do with MFS; generated
	// histories therefore exercise HAMT directories through the size threshold instead
	{Name: "maxlinks2-hamt", MaxLinks: 2},
}

const genConfigs = 4 // configs[:genConfigs] are used for generated histories

// faultyDAG is the DAG service MFS gets: while [down] is set every Add/AddMany fails, as a
// store that is unavailable or full does; reads keep working.
type faultyDAG struct {
	ipld.DAGService
	down bool
	hits int
}

var errStoreDown = errors.New("injected: the DAG service cannot store the node")

func (d *faultyDAG) Add(ctx context.Context, n ipld.Node) error {
	if d.down {
		d.hits++
		return errStoreDown
	}
	return d.DAGService.Add(ctx, n)
}

func (d *faultyDAG) AddMany(ctx context.Context, ns []ipld.Node) error {
	if d.down {
		d.hits++
		return errStoreDown
	}
	return d.DAGService.AddMany(ctx, ns)
}

type fsys struct {
	fault   *faultyDAG
	ctx     context.Context
	dserv   ipld.DAGService
	rt      *mfs.Root
	builder cid.Builder
	lastPub cid.Cid
	npub    int
	lastErr error // the last non-nil error an MFS call returned
	rng     *rand.Rand
	growGap bool  // the last truncate grew a file to Size()==n but its DAG holds fewer bytes (finding C19-4)
}

func newFS(c config) (*fsys, error) {
	db := dssync.MutexWrap(ds.NewMapDatastore())
	bs := bstore.NewBlockstore(db)
	f := &fsys{ctx: context.Background(), dserv: dag.NewDAGService(bserv.New(bs, offline.Exchange(bs)))}
	f.builder = dag.V0CidPrefix()
	if c.V1 {
		f.builder = dag.V1CidPrefix()
	}
	opts := []mfs.Option{mfs.WithCidBuilder(f.builder)}
	if c.MaxLinks > 0 {
		opts = append(opts, mfs.WithMaxLinks(c.MaxLinks), mfs.WithMaxHAMTFanout(8))
	}
	if c.HamtSize > 0 {
		opts = append(opts, mfs.WithHAMTShardingSize(c.HamtSize), mfs.WithMaxHAMTFanout(8))
	}
	if c.Chunk > 0 {
		n := int64(c.Chunk)
		opts = append(opts, mfs.WithChunker(func(r io.Reader) chunker.Splitter { return chunker.NewSizeSplitter(r, n) }))
	}
	f.fault = &faultyDAG{DAGService: f.dserv}
	f.dserv = f.fault
	rt, err := mfs.NewEmptyRoot(f.ctx, f.dserv, func(_ context.Context, c cid.Cid) error {
		f.lastPub = c
		f.npub++
		return nil
	}, nil, opts...)
	if err != nil {
		return nil, err
	}
	f.rt = rt
	return f, nil
}

func (f *fsys) errOut(err error) string {
	if err != nil {
		f.lastErr = err
	}
	switch {
	case err == nil:
		return "ROk"
	case errors.Is(err, os.ErrNotExist):
		return "(RErr ENotExist)"
	case errors.Is(err, os.ErrExist):
		return "(RErr EExist)"
	case errors.Is(err, mfs.ErrDirExists):
		return "(RErr EDirExists)"
	}
	return "(RErr EOther)"
}

// mtime projection: unset = 0; the small instants the generator touches with are
// exact; anything else (the DAG modifier's time.Now()) is "set" = -1.
func mtimeZ(t time.Time) string {
	if t.IsZero() {
		return "0"
	}
	if u := t.Unix(); u > 0 && u < 10_000_000 && t.Nanosecond() == 0 {
		return vh.Z(u)
	}
	return "(-1)"
}

// dump reads the DAG under nd with the UnixFS readers and renders it as a Coq [node].
func (f *fsys) dump(nd ipld.Node, depth int) (string, error) {
	if depth > 12 {
		return "", errors.New("dump: too deep")
	}
	if raw, ok := nd.(*dag.RawNode); ok {
		return vh.App("NFile", vh.Bytes(raw.RawData()), "0", "0"), nil
	}
	fsn, err := ft.ExtractFSNode(nd)
	if err != nil {
		return "", err
	}
	mode := vh.Z(int64(fsn.Mode() & 0xFFF))
	mt := mtimeZ(fsn.ModTime())
	if fsn.IsDir() {
		d, err := uio.NewDirectoryFromNode(f.dserv, nd)
		if err != nil {
			return "", err
		}
		links, err := d.Links(f.ctx)
		if err != nil {
			return "", err
		}
		sort.Slice(links, func(i, j int) bool { return links[i].Name < links[j].Name })
		items := make([]string, 0, len(links))
		for _, l := range links {
			c, err := l.GetNode(f.ctx, f.dserv)
			if err != nil {
				return "", fmt.Errorf("link %q: %w", l.Name, err)
			}
			s, err := f.dump(c, depth+1)
			if err != nil {
				return "", err
			}
			items = append(items, "("+vh.Z(nameID(l.Name))+", "+s+")")
		}
		return vh.App("NDir", vh.List(items), mode, mt), nil
	}
	r, err := uio.NewDagReader(f.ctx, nd, f.dserv)
	if err != nil {
		return "", err
	}
	b, err := io.ReadAll(r)
	if err != nil {
		return "", err
	}
	return vh.App("NFile", vh.Bytes(b), mode, mt), nil
}

// exec runs one operation on the real MFS and returns the Coq rendering of its result.
// Every operation starts from the root by path: no MFS object is kept across operations.
func (f *fsys) exec(o *op, st *vh.Stats) (string, error) {
	switch o.Kind {
	case "mkdir":
		return f.errOut(mfs.Mkdir(f.rt, o.P.str(), mfs.MkdirOpts{Mkparents: o.Parents, Flush: o.Flush})), nil
	case "create":
		nd := dag.NodeWithData(ft.FilePBData(nil, 0))
		nd.SetCidBuilder(f.builder)
		return f.errOut(mfs.PutNode(f.rt, o.P.str(), nd)), nil
	case "write", "trunc":
		n, err := mfs.Lookup(f.rt, o.P.str())
		if err != nil {
			return f.errOut(err), nil
		}
		fi, ok := n.(*mfs.File)
		if !ok {
			return "(RErr EOther)", nil
		}
		fd, err := fi.Open(f.ctx, mfs.Flags{Write: true, Sync: o.Sync})
		if err != nil {
			return "", fmt.Errorf("open for write: %w", err)
		}
		if o.Kind == "write" {
			if err := fd.Truncate(0); err != nil {
				fd.Close()
				return "", fmt.Errorf("truncate(0): %w", err)
			}
			if k, err := fd.Write(o.Data); err != nil || k != len(o.Data) {
				fd.Close()
				return "", fmt.Errorf("write: %d %v", k, err)
			}
		} else if err := fd.Truncate(o.N); err != nil {
			fd.Close()
			return "", fmt.Errorf("truncate: %w", err)
		}
		before, _ := fi.Size()
		cerr := fd.Close()
		// Go-side consistency oracle (no MFS state involved): the recorded size of the
		// file's node against the bytes its DAG actually holds
		if cerr == nil {
			if nd, err := fi.GetNode(); err == nil {
				sz, _ := fi.Size()
				if r, err := uio.NewDagReader(f.ctx, nd, f.dserv); err == nil {
					b, _ := io.ReadAll(r)
					if int64(len(b)) != sz {
						if o.Kind == "trunc" && o.N > before && sz == o.N && int64(len(b)) < sz {
							f.growGap = true
						} else {
							st.Violate(fmt.Sprintf("after %s the file records size %d but its DAG holds %d bytes", o.Kind, sz, len(b)), "", o)
						}
					}
				}
			}
		}
		return f.errOut(cerr), nil
	case "createx", "mvx":
		// the same calls as create / mv while the DAG service fails every write
		f.fault.down, f.fault.hits = true, 0
		var err error
		if o.Kind == "createx" {
			nd := dag.NodeWithData(ft.FilePBData(nil, 0))
			nd.SetCidBuilder(f.builder)
			err = mfs.PutNode(f.rt, o.P.str(), nd)
		} else {
			dst := o.Q.str()
			if o.Slash && len(o.Q) > 0 {
				dst += "/"
			}
			err = mfs.Mv(f.rt, o.P.str(), dst)
		}
		f.fault.down = false
		st.Count(fmt.Sprintf("store-fault-hit:%v", f.fault.hits > 0))
		return f.errOut(err), nil
	case "fd":
		n, err := mfs.Lookup(f.rt, o.P.str())
		if err != nil {
			return f.errOut(err), nil
		}
		fi, ok := n.(*mfs.File)
		if !ok {
			return "(RErr EOther)", nil
		}
		// shape of the node before: a leaf holding its data inline (finding C19-4 / C10-8 territory)
		inlineLeaf, size0 := false, int64(0)
		if nd, err := fi.GetNode(); err == nil {
			if pn, ok := nd.(*dag.ProtoNode); ok && len(pn.Links()) == 0 {
				if fsn, err := ft.FSNodeFromBytes(pn.Data()); err == nil && len(fsn.Data()) > 0 {
					inlineLeaf = true
				}
			}
			size0, _ = fi.Size()
		}
		fd, err := fi.Open(f.ctx, mfs.Flags{Write: true, Sync: o.Sync})
		if err != nil {
			return "", fmt.Errorf("open for write: %w", err)
		}
		generate := o.Acts == nil
		nacts := len(o.Acts)
		if generate {
			nacts = 1 + f.rng.Intn(7)
		}
		var seen []string
		grew, low := false, size0
		observe := func(what string) error { // File.node as the DAG holds it, after a Flush / the Close
			nd, err := fi.GetNode()
			if err != nil {
				return err
			}
			sz, _ := fi.Size()
			r, err := uio.NewDagReader(f.ctx, nd, f.dserv)
			if err != nil {
				return err
			}
			b, err := io.ReadAll(r)
			if err != nil {
				return err
			}
			if sz > size0 {
				grew = true
			}
			if int64(len(b)) != sz {
				if inlineLeaf && grew {
					f.growGap = true
				} else {
					st.Violate(fmt.Sprintf("after %s the file records size %d but its DAG holds %d bytes", what, sz, len(b)), "", o)
				}
			}
			seen = append(seen, vh.Bytes(b))
			return nil
		}
		pos, afterFlush := int64(0), false
		for k := 0; k < nacts; k++ {
			var a fdact
			if !generate {
				a = o.Acts[k]
			} else {
				size, err := fd.Size()
				if err != nil {
					fd.Close()
					return "", fmt.Errorf("fd.Size: %w", err)
				}
				x := f.rng.Intn(100)
				if afterFlush && f.rng.Intn(2) == 0 {
					x = 50 // a truncate right after a flush
				}
				switch {
				case x < 28:
					a = fdact{K: "write", Data: randBytes(f.rng, 1+f.rng.Intn(9))}
				case x < 42:
					a = fdact{K: "writeat", Data: randBytes(f.rng, 1+f.rng.Intn(6)), N: f.rng.Int63n(size + 3)}
				case x < 68:
					cands := []int64{0, size, size + 1, size + 4, size / 2}
					if size > 0 {
						cands = append(cands, size-1)
					}
					a = fdact{K: "trunc", N: cands[f.rng.Intn(len(cands))]}
				case x < 78: // a seek inside the file (never beyond its end, never SeekEnd: C10's subject)
					tgt := f.rng.Int63n(size + 1)
					if f.rng.Intn(2) == 0 {
						a = fdact{K: "seek", N: tgt}
					} else {
						a = fdact{K: "seek", Rel: true, N: tgt - pos}
					}
				default:
					a = fdact{K: "flush"}
				}
				if size > 40 && a.K != "flush" { // keep files small
					a = fdact{K: "trunc", N: 3}
				}
				o.Acts = append(o.Acts, a)
			}
			afterFlush = false
			var aerr error
			panicked := false
			func() {
				// an inline-data leaf that was grown is an inconsistent DAG (finding C19-4 / C10-8): a later
				// Truncate of it can even hand a nil node to the DAG service and panic
				defer func() {
					if r := recover(); r != nil {
						panicked = true
						aerr = fmt.Errorf("panic: %v", r)
					}
				}()
				switch a.K {
				case "write":
					_, aerr = fd.Write(a.Data)
					pos += int64(len(a.Data))
				case "writeat":
					_, aerr = fd.WriteAt(a.Data, a.N)
					pos = a.N + int64(len(a.Data))
				case "trunc":
					aerr = fd.Truncate(a.N)
				case "seek":
					wh := io.SeekStart
					if a.Rel {
						wh = io.SeekCurrent
						pos += a.N
					} else {
						pos = a.N
					}
					_, aerr = fd.Seek(a.N, wh)
				case "flush":
					if aerr = fd.Flush(); aerr == nil {
						aerr = observe("fd.Flush")
					}
					afterFlush = true
				}
			}()
			// "the history grows the file": above the smallest size the descriptor has had so far
			if sz, err := fd.Size(); err == nil {
				if sz > low {
					grew = true
				} else {
					low = sz
				}
			}
			if aerr != nil && inlineLeaf && grew {
				f.growGap = true // cut short as C19-4
				st.Count("C19-4-as-error-or-panic")
				if !panicked {
					fd.Close()
				}
				return "", nil
			}
			if aerr != nil {
				fd.Close()
				return "", fmt.Errorf("descriptor act %s: %w", a.K, aerr)
			}
		}
		if o.Acts == nil {
			o.Acts = []fdact{}
		}
		if err := fd.Close(); err != nil {
			return "", fmt.Errorf("close: %w", err)
		}
		if err := observe("Close"); err != nil {
			return "", fmt.Errorf("reading File.node: %w", err)
		}
		return vh.App("RSess", vh.List(seen)), nil
	case "mv":
		dst := o.Q.str()
		if o.Slash && len(o.Q) > 0 {
			dst += "/"
		}
		return f.errOut(mfs.Mv(f.rt, o.P.str(), dst)), nil
	case "rm":
		par, name := o.P[:len(o.P)-1], alphabet[o.P[len(o.P)-1]]
		n, err := mfs.Lookup(f.rt, par.str())
		if err != nil {
			return f.errOut(err), nil
		}
		d, ok := n.(*mfs.Directory)
		if !ok {
			return "(RErr EOther)", nil
		}
		return f.errOut(d.Unlink(name)), nil
	case "chmod":
		return f.errOut(mfs.Chmod(f.rt, o.P.str(), os.FileMode(o.N))), nil
	case "touch":
		return f.errOut(mfs.Touch(f.rt, o.P.str(), time.Unix(o.N, 0))), nil
	case "flush":
		nd, err := mfs.FlushPath(f.ctx, f.rt, o.P.str())
		if err != nil {
			return f.errOut(err), nil
		}
		s, err := f.dump(nd, 0)
		if err != nil {
			return "", fmt.Errorf("reading the flushed DAG: %w", err)
		}
		if len(o.P) == 0 && f.npub > 0 && !f.lastPub.Equals(nd.Cid()) {
			st.Violate("after FlushPath(\"/\") the republisher's last published CID is not the root's CID", "", o)
		}
		return vh.App("RNode", s), nil
	case "stat":
		n, err := mfs.Lookup(f.rt, o.P.str())
		if err != nil {
			return f.errOut(err), nil
		}
		switch x := n.(type) {
		case *mfs.File:
			sz, err1 := x.Size()
			m, err2 := x.Mode()
			mt, err3 := x.ModTime()
			// a file stored as a bare raw leaf carries no metadata: File.Mode/ModTime answer
			// ErrNotProtoNode for it, which is read here as "mode 0, mtime unset"
			if errors.Is(err2, ft.ErrNotProtoNode) && errors.Is(err3, ft.ErrNotProtoNode) {
				m, mt, err2, err3 = 0, time.Time{}, nil, nil
				st.Count("stat-of-raw-leaf-file")
			}
			if err1 != nil || err2 != nil || err3 != nil {
				return "", fmt.Errorf("file stat: %v %v %v", err1, err2, err3)
			}
			return vh.App("RStat", "false", vh.Z(sz), vh.Z(int64(m)), mtimeZ(mt)), nil
		case *mfs.Directory:
			m, err2 := x.Mode()
			mt, err3 := x.ModTime()
			if err2 != nil || err3 != nil {
				return "", fmt.Errorf("dir stat: %v %v", err2, err3)
			}
			return vh.App("RStat", "true", "0", vh.Z(int64(m)), mtimeZ(mt)), nil
		}
		return "", errors.New("unknown FSNode type")
	case "list":
		n, err := mfs.Lookup(f.rt, o.P.str())
		if err != nil {
			return f.errOut(err), nil
		}
		d, ok := n.(*mfs.Directory)
		if !ok {
			return "(RErr EOther)", nil
		}
		names, err := d.ListNames(f.ctx)
		if err != nil {
			return "", fmt.Errorf("ListNames: %w", err)
		}
		sort.Strings(names)
		return vh.App("RList", vh.ListOf(names, func(s string) string { return vh.Z(nameID(s)) })), nil
	case "read":
		n, err := mfs.Lookup(f.rt, o.P.str())
		if err != nil {
			return f.errOut(err), nil
		}
		fi, ok := n.(*mfs.File)
		if !ok {
			return "(RErr EOther)", nil
		}
		fd, err := fi.Open(f.ctx, mfs.Flags{Read: true})
		if err != nil {
			return "", fmt.Errorf("open for read: %w", err)
		}
		b, err := io.ReadAll(fd)
		cerr := fd.Close()
		if err != nil || cerr != nil {
			return "", fmt.Errorf("read: %v close: %v", err, cerr)
		}
		return vh.App("RData", vh.Bytes(b)), nil
	}
	return "", errors.New("unknown op " + o.Kind)
}

// ---------- generator (keeps a shadow tree only to aim at interesting paths) ----------

type snode struct {
	dir  bool
	kids map[int]*snode
}

func (s *snode) get(p path) *snode {
	cur := s
	for _, k := range p {
		if cur == nil || !cur.dir {
			return nil
		}
		cur = cur.kids[k]
	}
	return cur
}
func (s *snode) all(prefix path, dirs, files *[]path) {
	if s.dir {
		*dirs = append(*dirs, append(path{}, prefix...))
		ks := make([]int, 0, len(s.kids))
		for k := range s.kids {
			ks = append(ks, k)
		}
		sort.Ints(ks)
		for _, k := range ks {
			s.kids[k].all(prefix.with(k), dirs, files)
		}
	} else {
		*files = append(*files, append(path{}, prefix...))
	}
}

type gen struct {
	e       *vh.Env
	shadow  *snode
	pending []*op // follow-ups of a descriptor session: what later reads and the flushed root show
}

func (g *gen) randPath(maxLen int) path {
	n := 1 + g.e.Rng.Intn(maxLen)
	p := make(path, n)
	for i := range p {
		p[i] = g.e.Rng.Intn(len(alphabet))
	}
	return p
}
func (g *gen) pick(ps []path) path { return ps[g.e.Rng.Intn(len(ps))] }

// anyPath: mostly an existing path, sometimes below a file, sometimes random
func (g *gen) anyPath(dirs, files []path, wantFile, allowRoot bool) path {
	r := g.e.Rng
	x := r.Intn(20)
	switch {
	case x < 12 && wantFile && len(files) > 0:
		return g.pick(files)
	case x < 12 && !wantFile:
		p := g.pick(dirs)
		if len(p) > 0 || allowRoot {
			return p
		}
	case x < 15 && len(files) > 0:
		return g.pick(files)
	case x < 17:
		p := g.pick(dirs)
		if len(p) > 0 || allowRoot {
			return p
		}
	case x < 18 && len(files) > 0:
		return g.pick(files).with(r.Intn(len(alphabet))) // below a file
	}
	return g.randPath(3)
}

func (g *gen) next() *op {
	r := g.e.Rng
	if len(g.pending) > 0 {
		o := g.pending[0]
		g.pending = g.pending[1:]
		return o
	}
	var dirs, files []path
	g.shadow.all(nil, &dirs, &files)
	freshIn := func() path { return g.pick(dirs).with(r.Intn(len(alphabet))) }
	o := &op{}
	switch x := r.Intn(100); {
	case x < 14:
		o.Kind, o.Parents, o.Flush = "mkdir", r.Intn(2) == 0, r.Intn(4) == 0
		if r.Intn(3) == 0 {
			o.P = g.randPath(3)
		} else {
			o.P = freshIn()
			if r.Intn(4) == 0 {
				o.P = o.P.with(r.Intn(len(alphabet)))
			}
		}
	case x < 24:
		o.Kind = "create"
		if r.Intn(5) == 0 {
			o.P = g.randPath(3)
		} else {
			o.P = freshIn()
		}
	case x < 30 && len(files) > 0:
		// a descriptor session (acts are drawn while it runs, from the descriptor's current size)
		o.Kind, o.Sync = "fd", r.Intn(2) == 0
		o.P = g.anyPath(dirs, files, true, false)
		if r.Intn(3) != 0 {
			g.pending = append(g.pending, mustOp("read", o.P))
		}
		if r.Intn(3) == 0 {
			g.pending = append(g.pending, mustOp("flush", path{}))
		}
	case x < 36:
		o.Kind, o.Sync = "write", r.Intn(2) == 0
		o.P = g.anyPath(dirs, files, true, false)
		n := []int{0, 1, 3, 4, 5, 8, 9, 13}[r.Intn(8)]
		o.Data = make([]byte, n)
		for i := range o.Data {
			o.Data[i] = byte(1 + r.Intn(250))
		}
	case x < 41:
		o.Kind, o.Sync = "trunc", r.Intn(2) == 0
		o.P = g.anyPath(dirs, files, true, false)
		o.N = int64([]int{0, 1, 2, 3, 4, 5, 7, 8, 9, 12}[r.Intn(10)])
	case x < 61:
		o.Kind = "mv"
		// source: an existing file or directory, rarely something else
		if y := r.Intn(10); y < 5 && len(files) > 0 {
			o.P = g.pick(files)
		} else if y < 9 && len(dirs) > 1 {
			o.P = g.pick(dirs[1:])
		} else {
			o.P = g.randPath(3)
		}
		switch y := r.Intn(20); {
		case y < 5: // into an existing directory (with or without trailing slash)
			o.Q, o.Slash = g.pick(dirs), r.Intn(2) == 0
			if len(o.Q) == 0 {
				o.Slash = true
			}
		case y < 9: // a new name in an existing directory
			o.Q = freshIn()
		case y < 12 && len(files) > 0: // onto an existing file
			o.Q = g.pick(files)
		case y < 15: // the same last names under another parent
			d := g.pick(dirs)
			if len(o.P) >= 2 {
				o.Q = d.with(o.P[len(o.P)-2]).with(o.P[len(o.P)-1])
			} else {
				o.Q = d.with(o.P[len(o.P)-1])
			}
		case y < 16: // onto itself
			o.Q = append(path{}, o.P...)
			o.Slash = r.Intn(3) == 0
		case y < 17: // below itself
			o.Q = o.P.with(r.Intn(len(alphabet)))
			o.Slash = r.Intn(2) == 0
		default:
			o.Q, o.Slash = g.randPath(3), r.Intn(4) == 0
		}
		// a destination at or below the source directory is the C19-2 territory: keep it rare
		// (about one move of a directory in 25), otherwise pick a destination outside the source
		landsIn := func(q path, slash bool) path { // the directory the source would be linked into
			dir, name := q, o.P[len(o.P)-1]
			if !slash && len(q) > 0 {
				dir, name = q[:len(q)-1], q[len(q)-1]
			}
			if t := g.shadow.get(dir.with(name)); t != nil && t.dir {
				return dir.with(name)
			}
			return dir
		}
		if sn := g.shadow.get(o.P); sn != nil && sn.dir && (hasPrefix(o.Q, o.P) || hasPrefix(landsIn(o.Q, o.Slash), o.P)) && r.Intn(25) != 0 {
			var outside []path
			for _, d := range dirs {
				if !hasPrefix(d, o.P) {
					outside = append(outside, d)
				}
			}
			d := g.pick(outside) // the root is always outside
			switch r.Intn(3) {
			case 0:
				o.Q, o.Slash = d, true
			case 1:
				o.Q, o.Slash = d.with(r.Intn(len(alphabet))), false
			default:
				o.Q, o.Slash = d.with(o.P[len(o.P)-1]), false
			}
			if hasPrefix(o.Q, o.P) || hasPrefix(landsIn(o.Q, o.Slash), o.P) { // e.g. the same name under the same parent
				o.Q, o.Slash = d.with((o.P[len(o.P)-1]+1+r.Intn(len(alphabet)-1))%len(alphabet)), false
			}
		}
		if len(o.Q) == 0 {
			o.Slash = true
		}
	case x < 67:
		o.Kind = "rm"
		o.P = g.anyPath(dirs, files, r.Intn(2) == 0, false)
	case x < 72:
		o.Kind, o.N = "chmod", int64([]int{0o644, 0o755, 0o600, 0o1, 0o777, 0o750}[r.Intn(6)])
		o.P = g.anyPath(dirs, files, r.Intn(2) == 0, true)
	case x < 77:
		o.Kind, o.N = "touch", int64(1000+r.Intn(5))
		o.P = g.anyPath(dirs, files, r.Intn(2) == 0, true)
	case x < 83:
		o.Kind = "flush"
		o.P = g.anyPath(dirs, files, r.Intn(3) == 0, true)
		if r.Intn(3) == 0 {
			o.P = path{}
		}
	case x < 89:
		o.Kind = "stat"
		o.P = g.anyPath(dirs, files, r.Intn(2) == 0, true)
	case x < 94:
		o.Kind = "list"
		o.P = g.anyPath(dirs, files, false, true)
	default:
		o.Kind = "read"
		o.P = g.anyPath(dirs, files, true, false)
	}
	if (o.Kind == "create" || o.Kind == "mv") && r.Intn(6) == 0 {
		o.Kind += "x" // the same call while the store fails
	}
	o.Path = o.P.str()
	if o.Kind == "mv" || o.Kind == "mvx" {
		o.Dst = o.Q.str()
		if o.Slash && len(o.Q) > 0 {
			o.Dst += "/"
		}
	}
	return o
}

// apply updates the shadow after an operation the implementation accepted
// (approximation of the specification; used only to aim the generator).
func (g *gen) apply(o *op, ok bool) {
	if !ok {
		return
	}
	switch o.Kind {
	case "mkdir":
		cur := g.shadow
		for _, k := range o.P {
			if !cur.dir {
				return
			}
			if cur.kids[k] == nil {
				cur.kids[k] = &snode{dir: true, kids: map[int]*snode{}}
			}
			cur = cur.kids[k]
		}
	case "create":
		if d := g.shadow.get(o.P[:len(o.P)-1]); d != nil && d.dir && d.kids[o.P[len(o.P)-1]] == nil {
			d.kids[o.P[len(o.P)-1]] = &snode{}
		}
	case "rm":
		if d := g.shadow.get(o.P[:len(o.P)-1]); d != nil && d.dir {
			delete(d.kids, o.P[len(o.P)-1])
		}
	case "mv":
		sd := g.shadow.get(o.P[:len(o.P)-1])
		if sd == nil || !sd.dir || sd.kids[o.P[len(o.P)-1]] == nil {
			return
		}
		n := sd.kids[o.P[len(o.P)-1]]
		ddir, dname := o.Q, o.P[len(o.P)-1]
		if !o.Slash {
			ddir, dname = o.Q[:len(o.Q)-1], o.Q[len(o.Q)-1]
		}
		dd := g.shadow.get(ddir)
		if dd == nil || !dd.dir {
			return
		}
		if t := dd.kids[dname]; t != nil && t.dir {
			dd, dname = t, o.P[len(o.P)-1]
		}
		// a directory moved below itself disappears in the current code; drop it from the shadow too
		delete(sd.kids, o.P[len(o.P)-1])
		if !n.contains(dd) {
			dd.kids[dname] = n
		}
	}
}

func (s *snode) contains(x *snode) bool {
	if s == x {
		return true
	}
	for _, k := range s.kids {
		if k.contains(x) {
			return true
		}
	}
	return false
}

func hasPrefix(q, p path) bool {
	if len(q) < len(p) {
		return false
	}
	for i := range p {
		if q[i] != p[i] {
			return false
		}
	}
	return true
}

func randBytes(r *rand.Rand, n int) []byte {
	b := make([]byte, n)
	for i := range b {
		b[i] = byte(1 + r.Intn(250))
	}
	return b
}

func mustOp(kind string, p path) *op { return &op{Kind: kind, P: p, Path: p.str()} }

// corpus: hand-written histories; the finding witnesses come first.
func corpus() [][]*op {
	a, b, x, y, f, gg := 0, 1, 2, 3, 4, 5
	_ = y
	mk := func(p path, parents bool) *op {
		o := mustOp("mkdir", p)
		o.Parents = parents
		return o
	}
	wr := func(p path, s string, sync bool) *op {
		o := mustOp("write", p)
		o.Data, o.Sync = []byte(s), sync
		return o
	}
	mv := func(p, q path, slash bool) *op {
		o := mustOp("mv", p)
		o.Q, o.Slash, o.Dst = q, slash, q.str()
		if slash && len(q) > 0 {
			o.Dst += "/"
		}
		return o
	}
	num := func(kind string, p path, n int64) *op {
		o := mustOp(kind, p)
		o.N = n
		return o
	}
	root := path{}
	fdop := func(p path, sync bool, acts ...fdact) *op {
		o := mustOp("fd", p)
		o.Sync, o.Acts = sync, acts
		return o
	}
	W := func(s string) fdact { return fdact{K: "write", Data: []byte(s)} }
	WA := func(s string, at int64) fdact { return fdact{K: "writeat", Data: []byte(s), N: at} }
	T := func(n int64) fdact { return fdact{K: "trunc", N: n} }
	S := func(rel bool, n int64) fdact { return fdact{K: "seek", Rel: rel, N: n} }
	FL := fdact{K: "flush"}
	return [][]*op{
		// store faults: PutNode / Mv while DAGService.Add fails must answer an error and change nothing
		// (listing, later operations, flushed root); the third Mv is the witness of finding C19-5
		{mk(path{a}, false), mustOp("create", path{f}), mustOp("createx", path{gg}), mustOp("createx", path{a, f}), mustOp("list", root), mustOp("list", path{a}),
			func() *op { o := mv(path{f}, path{a, f}, false); o.Kind = "mvx"; return o }(), mustOp("list", root), mustOp("list", path{a}),
			func() *op { o := mv(path{f}, path{a}, true); o.Kind = "mvx"; return o }(), mustOp("flush", root),
			mustOp("create", path{gg}), func() *op { o := mv(path{f}, path{gg}, false); o.Kind = "mvx"; return o }(), mustOp("list", root), mustOp("flush", root)},
		// descriptor-level histories: write, flush, truncate, close without a further write (the truncate
		// must reach File.node, the parent and the root), flush-then-write, truncate larger / smaller /
		// equal, several flushes, seeks, non-sync and sync close; reads and the flushed root after each
		{mk(path{x}, false), mustOp("create", path{x, f}), fdop(path{x, f}, false, W("hello world"), FL, T(5)), mustOp("read", path{x, f}),
			mustOp("flush", root), fdop(path{x, f}, true, W("hello world"), FL, T(5)), mustOp("read", path{x, f}), mustOp("flush", root)},
		{mustOp("create", path{f}), fdop(path{f}, true, W("abcdef"), FL, T(9), FL, T(9), FL, T(2), FL), mustOp("read", path{f}),
			fdop(path{f}, false, FL, T(4)), mustOp("stat", path{f}), mustOp("flush", root),
			fdop(path{f}, false, FL, W("XY"), FL, FL, WA("Q", 6), T(7)), mustOp("read", path{f}), mustOp("flush", root)},
		{mk(path{a}, false), mustOp("create", path{a, gg}), fdop(path{a, gg}, false, W("0123456789"), S(false, 2), W("ab"), FL, S(true, 3), W("c"), FL, S(false, 0), T(6)),
			mustOp("read", path{a, gg}), fdop(path{a, gg}, true), mustOp("read", path{a, gg}), fdop(path{a, gg}, false, T(0)), mustOp("read", path{a, gg}),
			fdop(path{a}, true, W("no")), fdop(path{a, x}, true, FL), mustOp("flush", root)},
		// C19-1: mv /a/x/f /b/x/f — parents compared by name
		{mk(path{a, x}, true), mk(path{b, x}, true), mustOp("create", path{a, x, f}), wr(path{a, x, f}, "hi", false),
			mv(path{a, x, f}, path{b, x, f}, false), mustOp("list", path{a, x}), mustOp("list", path{b, x}), mustOp("flush", root)},
		// C19-1 variant: into the same-named directory by trailing slash, and /x/f -> /x/x/f
		{mk(path{a, x}, true), mk(path{b, x}, true), mustOp("create", path{a, x, gg}),
			mv(path{a, x, gg}, path{b, x}, true), mustOp("stat", path{a, x, gg}), mustOp("flush", root)},
		{mk(path{x, x}, true), mustOp("create", path{x, f}), mv(path{x, f}, path{x, x, f}, false), mustOp("list", path{x}), mustOp("flush", root)},
		// C19-2: a directory moved onto / below itself
		{mk(path{a}, false), mustOp("create", path{a, f}), mv(path{a}, path{a}, false), mustOp("list", root), mustOp("flush", root)},
		{mk(path{b, x}, true), mv(path{b}, path{b, x}, true), mustOp("list", root), mustOp("flush", root)},
		// same path move of a file, overwrite of a file, move into a directory, rename of a directory with content
		{mk(path{a}, false), mustOp("create", path{a, f}), wr(path{a, f}, "one", true), mv(path{a, f}, path{a, f}, false),
			mustOp("create", path{a, gg}), wr(path{a, gg}, "two", false), mv(path{a, f}, path{a, gg}, false), mustOp("read", path{a, gg}),
			mk(path{b}, false), mv(path{a, gg}, path{b}, false), mustOp("read", path{b, gg}), mv(path{b}, path{x}, false),
			mustOp("read", path{x, gg}), mustOp("flush", root)},
		// failing operations, then the whole tree
		{mk(path{a, b}, false), mk(path{a}, false), mk(path{a}, false), mk(path{a}, true), mustOp("create", path{a, f}),
			mustOp("create", path{a, f}), mk(path{a, f}, true), mk(path{a, f, x}, true), mustOp("create", path{b, f}),
			mustOp("rm", path{a, gg}), mustOp("rm", path{b, gg}), mv(path{a, gg}, path{a, x}, false), mv(path{a, f}, path{b, x}, false),
			wr(path{a}, "no", true), mustOp("read", path{a}), mustOp("list", path{a, f}), mustOp("stat", path{a, f, x}), mustOp("flush", path{b}),
			mustOp("flush", root)},
		// metadata, unsynced writes, sub-path flushes
		{mk(path{a, x}, true), mustOp("create", path{a, x, f}), num("chmod", path{a, x, f}, 0o640), num("touch", path{a, x, f}, 1001),
			wr(path{a, x, f}, "abcdefghi", false), mustOp("stat", path{a, x, f}), num("trunc", path{a, x, f}, 4), num("trunc", path{a, x, f}, 7),
			num("chmod", path{a}, 0o750), num("touch", path{a, x}, 1002), num("chmod", root, 0o711), mustOp("stat", path{a}), mustOp("stat", path{a, x}),
			mustOp("flush", path{a, x}), mustOp("flush", path{a, x, f}), mustOp("stat", root), mustOp("flush", root)},
		// C19-3 (MaxLinks=2 configuration): touch rebuilds the HAMT root from its node; the next sync fails
		{mustOp("create", path{a}), mustOp("create", path{f}), mustOp("create", path{gg}), mustOp("flush", root), num("touch", root, 1001),
			wr(path{f}, "hello", false), mustOp("flush", root)},
		// C19-4 (CIDv1 configurations): raw-leaf file, touch wraps it into an inline-data leaf, grow-truncate
		{mustOp("create", path{b}), func() *op { o := num("trunc", path{b}, 4); o.Sync = true; return o }(), num("touch", path{b}, 1001),
			num("trunc", path{b}, 9), mustOp("stat", path{b}), mustOp("read", path{b}), mustOp("flush", root)},
		// enough entries for the HAMT configurations, removal back below the threshold
		{mk(path{a}, false), mustOp("create", path{a, a}), mustOp("create", path{a, b}), mustOp("create", path{a, x}), mustOp("create", path{a, y}),
			mk(path{a, f}, false), mustOp("create", path{a, f, gg}), wr(path{a, f, gg}, "deep", false), mustOp("list", path{a}), mustOp("flush", path{a}),
			mustOp("rm", path{a, a}), mustOp("rm", path{a, b}), mv(path{a, x}, path{a, f}, true), mustOp("rm", path{a, y}), mustOp("list", path{a}),
			mustOp("read", path{a, f, gg}), mustOp("flush", root)},
	}
}

func TestC19(t *testing.T) {
	e := vh.Load(t)
	st := vh.NewStats("operation sequences (corpus of 15 hand-written histories incl. the finding witnesses, then generated ones of " +
		"length 4..30 over the names a,b,x,y,f,g at depth <= 3, aimed at existing paths by a shadow tree; besides whole-file writes, descriptor sessions of 1..7 Write/WriteAt/Truncate/Seek/Flush calls on one write descriptor, each followed by reads and root flushes) run on a fresh MFS root in " +
		"4 configurations (CIDv0, CIDv1+raw leaves, 120-byte HAMT threshold, 64-byte HAMT threshold + 4-byte chunks + CIDv1; the corpus also with MaxLinks=2); every history ends with " +
		"FlushPath(/) whose DAG is read back with the UnixFS readers; non-trivial = at least 6 operations, at least one successful mv " +
		"and at least 3 successful structural operations; distinct by (config, ops)")
	cs := vh.NewCases(e, "From V Require Import model.M_C19.\nOpen Scope Z_scope.", "case", "check_case", 100)
	n := e.Pick(700, 8000)
	corp := corpus()
	total := 0
	for i := 0; i < n; i++ {
		cfg := configs[i%genConfigs]
		var script []*op
		if i < len(corp)*len(configs) {
			cfg = configs[i/len(corp)]
			script = corp[i%len(corp)]
		}
		f, err := newFS(cfg)
		if err != nil {
			t.Fatal(err)
		}
		f.rng = e.Rng
		g := &gen{e: e, shadow: &snode{dir: true, kids: map[int]*snode{}}}
		length := len(script)
		if script == nil {
			length = 4 + e.Rng.Intn(27)
			if e.Rng.Intn(6) == 0 {
				length = 4 + e.Rng.Intn(6)
			}
		}
		var ops, outs []string
		var hist []*op
		nmv, nstruct := 0, 0
		for k := 0; k < length; k++ {
			var o *op
			switch {
			case script != nil:
				c := *script[k]
				o = &c
			case k == length-1:
				o = mustOp("flush", path{})
			default:
				o = g.next()
			}
			f.lastErr, f.growGap = nil, false
			out, err := f.exec(o, st)
			if le := f.lastErr; le != nil && strings.Contains(le.Error(), "maxLinks reached") ||
				err != nil && strings.Contains(err.Error(), "maxLinks reached") {
				// finding C19-3 (signature: this error text, only possible with MaxLinks configured)
				o.Out = "error: BasicDirectory: cannot add child: maxLinks reached"
				hist = append(hist, o)
				st.Violate("an MFS operation failed with 'BasicDirectory: cannot add child: maxLinks reached' (HAMT directory reloaded from its node, then converted back to a basic directory above MaxLinks)",
					"C19-3", map[string]any{"config": cfg.Name, "ops": hist})
				st.Count("cut-short-by-C19-3")
				break
			}
			if f.growGap {
				// finding C19-4 (cause in ipld/unixfs/mod): cut the history before this operation
				o.Out = "growing an inline-data leaf: recorded size > bytes in the DAG"
				hist = append(hist, o)
				st.Violate("growing (Truncate, Write or WriteAt past the end) a file whose node is a leaf with inline data (a raw-leaf file after chmod/touch) records the new size but the DAG holds fewer bytes",
					"C19-4", map[string]any{"config": cfg.Name, "ops": hist})
				st.Count("cut-short-by-C19-4")
				break
			}
			if err != nil {
				o.Out = "harness-error: " + err.Error()
				hist = append(hist, o)
				st.Violate("operation failed in a way the specification has no result for: "+err.Error(), "",
					map[string]any{"config": cfg.Name, "ops": hist})
				break
			}
			o.Out = out
			if len(out) > 120 {
				o.Out = out[:120] + "..."
			}
			ok := !strings.HasPrefix(out, "(RErr")
			g.apply(o, ok)
			if ok {
				switch o.Kind {
				case "mv":
					nmv++
					nstruct++
				case "mkdir", "create", "rm", "write", "trunc", "fd":
					nstruct++
				}
			}
			st.Count("op:" + o.Kind)
			if !ok {
				st.Count("failed:" + o.Kind)
			}
			hist = append(hist, o)
			ops = append(ops, o.coq())
			outs = append(outs, out)
			total++
		}
		f.rt.Close()
		term := vh.App("Case", vh.List(ops), vh.List(outs))
		rp := map[string]any{"config": cfg.Name, "ops": hist}
		cs.Add(term, rp)
		st.Case(cfg.Name+"|"+strings.Join(ops, ";"), len(ops) >= 6 && nmv >= 1 && nstruct >= 3)
		st.Count("config:" + cfg.Name)
		st.Count(fmt.Sprintf("len:%02d-%02d", len(ops)/10*10, len(ops)/10*10+9))
		if i%len(corp) == 0 || i > len(corp)*len(configs) {
			st.Sample(rp, 4)
		}
	}
	st.Extra["operations_executed"] = total
	cs.Close()
	st.Write(e)
}
