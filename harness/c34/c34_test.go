// Correspondence harness for C34 (bitswap/message): messages are built through
// the public API of the real package, sent through ToNetV1/ToNetV0 and FromNet,
// and hostile/mutated wire bytes are fed to FromNet; what the real code answered
// is written into cases_*.v and compared inside Coq with the model
// (model/M_C34.v) and with the round-trip / self-certification specification.
package c34

import (
	"bytes"
	"encoding/binary"
	"fmt"
	"math"
	"sort"
	"strings"
	"testing"

	bsmsg "github.com/ipfs/boxo/bitswap/message"
	pb "github.com/ipfs/boxo/bitswap/message/pb"
	blocks "github.com/ipfs/go-block-format"
	cid "github.com/ipfs/go-cid"
	mh "github.com/multiformats/go-multihash"
	"google.golang.org/protobuf/proto"

	"verif/harness/vh"
)

// ---------- rendering ----------

// Byte strings of 6 bytes or more are bound once per case with a Coq let, so a
// CID that occurs in the ops, the observed contents and the oracle table is
// written (and type-checked by coqc) only once.
type dict struct {
	names map[string]string
	defs  []string
}

var cur *dict

func newDict() { cur = &dict{names: map[string]string{}} }

func bz(b []byte) string {
	if cur == nil || len(b) < 6 {
		return vh.Bytes(b)
	}
	if n, ok := cur.names[string(b)]; ok {
		return n
	}
	n := fmt.Sprintf("k%d", len(cur.defs))
	cur.names[string(b)] = n
	cur.defs = append(cur.defs, "let "+n+" : bytes := "+vh.Bytes(b)+" in ")
	return n
}

func wrap(term string) string {
	t := strings.Join(cur.defs, "") + term
	cur = nil
	return t
}

type prefixKey struct {
	v, codec, mht uint64
	l             int
}

func pkOf(p cid.Prefix) prefixKey { return prefixKey{p.Version, p.Codec, p.MhType, p.MhLength} }
func (k prefixKey) coq() string {
	return fmt.Sprintf("(%s, %s, %s, %s)", vh.ZU(k.v), vh.ZU(k.codec), vh.ZU(k.mht), vh.Z(int64(k.l)))
}
func (k prefixKey) prefix() cid.Prefix {
	return cid.Prefix{Version: k.v, Codec: k.codec, MhType: k.mht, MhLength: k.l}
}

// htab is the hash oracle table: (prefix, data) -> Prefix.Sum result.
type htab struct {
	keys []string
	rows map[string]string
	bad  []string // violations of the go-cid law "Sum is stable under the CID's own prefix"
}

func newHtab() *htab { return &htab{rows: map[string]string{}} }

func safeSum(p cid.Prefix, d []byte) (c cid.Cid, ok bool) {
	defer func() {
		if r := recover(); r != nil {
			ok = false
		}
	}()
	c, err := p.Sum(d)
	return c, err == nil
}

func (h *htab) add(k prefixKey, d []byte) {
	key := k.coq() + "|" + string(d)
	if _, ok := h.rows[key]; ok {
		return
	}
	c, ok := safeSum(k.prefix(), d)
	res := "None"
	if ok {
		res = "(Some " + bz(c.Bytes()) + ")"
	}
	h.keys = append(h.keys, key)
	h.rows[key] = "(" + k.coq() + ", " + bz(d) + ", " + res + ")"
	if ok {
		k2 := pkOf(c.Prefix())
		if k2 != k {
			c2, ok2 := safeSum(k2.prefix(), d)
			if !ok2 || !c2.Equals(c) {
				h.bad = append(h.bad, key)
			}
			h.add(k2, d)
		}
	}
}
func (h *htab) coq() string {
	items := make([]string, len(h.keys))
	for i, k := range h.keys {
		items[i] = h.rows[k]
	}
	return vh.List(items)
}

var v0pk = prefixKey{0, cid.DagProtobuf, mh.SHA2_256, 32}

// contents of a message, sorted by CID bytes
type content struct {
	full    bool
	wl      []bsmsg.Entry
	blks    []blocks.Block
	pres    []bsmsg.BlockPresence
	pending int32
}

func contentsOf(m bsmsg.BitSwapMessage) *content {
	c := &content{full: m.Full(), wl: m.Wantlist(), blks: m.Blocks(), pres: m.BlockPresences(), pending: m.PendingBytes()}
	sort.Slice(c.wl, func(i, j int) bool { return bytes.Compare(c.wl[i].Cid.Bytes(), c.wl[j].Cid.Bytes()) < 0 })
	sort.Slice(c.blks, func(i, j int) bool { return bytes.Compare(c.blks[i].Cid().Bytes(), c.blks[j].Cid().Bytes()) < 0 })
	sort.Slice(c.pres, func(i, j int) bool { return bytes.Compare(c.pres[i].Cid.Bytes(), c.pres[j].Cid.Bytes()) < 0 })
	return c
}

func (c *content) coq(h *htab) string {
	wl := vh.ListOf(c.wl, func(e bsmsg.Entry) string {
		return "(" + bz(e.Cid.Bytes()) + ", " + vh.App("mkent", vh.Z(int64(e.Priority)), vh.Z(int64(e.WantType)),
			vh.Bool(e.Cancel), vh.Bool(e.SendDontHave)) + ")"
	})
	bl := vh.ListOf(c.blks, func(b blocks.Block) string {
		h.add(pkOf(b.Cid().Prefix()), b.RawData())
		return "(" + bz(b.Cid().Bytes()) + ", " + bz(b.RawData()) + ")"
	})
	pr := vh.ListOf(c.pres, func(p bsmsg.BlockPresence) string {
		return "(" + bz(p.Cid.Bytes()) + ", " + vh.Z(int64(p.Type)) + ")"
	})
	return vh.App("mkmsg", vh.Bool(c.full), wl, bl, pr, vh.Z(int64(c.pending)))
}

func frame(body []byte) []byte {
	buf := make([]byte, binary.MaxVarintLen64)
	n := binary.PutUvarint(buf, uint64(len(body)))
	return append(buf[:n], body...)
}

// fromNet runs the real decoder; a panic is reported as such.
func fromNet(wire []byte) (m bsmsg.BitSwapMessage, err error, panicked bool) {
	defer func() {
		if r := recover(); r != nil {
			m, err, panicked = nil, fmt.Errorf("panic: %v", r), true
		}
	}()
	m, _, err = bsmsg.FromNet(bytes.NewReader(wire))
	return m, err, false
}

func optContents(m bsmsg.BitSwapMessage, err error, h *htab) string {
	if err != nil || m == nil {
		return "None"
	}
	return "(Some " + contentsOf(m).coq(h) + ")"
}

// ---------- CID / block material ----------

type gen struct {
	e    *vh.Env
	cids []cid.Cid // pool for want-list entries and presences
}

func (g *gen) intn(n int) int { return g.e.Rng.Intn(n) }

func (g *gen) data() []byte {
	n := g.intn(7)
	if g.intn(10) == 0 {
		n = 0
	}
	d := make([]byte, n)
	for i := range d {
		d[i] = byte(g.intn(256))
	}
	if g.intn(6) == 0 && n > 0 {
		d[0] = byte(g.intn(3)) // frequent equal data
	}
	return d
}

// prefixes that Sum accepts in this process
func (g *gen) goodPrefix() cid.Prefix {
	// short CIDs (identity, truncated digests) are preferred: coqc's cost is per byte written
	switch g.intn(24) {
	case 0, 1:
		return cid.Prefix{Version: 0, Codec: cid.DagProtobuf, MhType: mh.SHA2_256, MhLength: 32}
	case 2:
		return cid.Prefix{Version: 1, Codec: cid.DagProtobuf, MhType: mh.SHA2_256, MhLength: 32} // v1 alias of v0
	case 3:
		return cid.Prefix{Version: 1, Codec: cid.Raw, MhType: mh.SHA2_256, MhLength: 32}
	case 4, 5, 6, 7, 8, 9:
		return cid.Prefix{Version: 1, Codec: cid.Raw, MhType: mh.IDENTITY, MhLength: -1}
	case 10, 11, 12, 13, 14, 15:
		return cid.Prefix{Version: 1, Codec: cid.Raw, MhType: mh.SHA2_256, MhLength: 1 + g.intn(4)} // truncated digest
	case 16:
		return cid.Prefix{Version: 1, Codec: cid.DagCBOR, MhType: mh.SHA2_256, MhLength: []int{20, 31}[g.intn(2)]}
	case 17:
		if g.intn(4) == 0 {
			return cid.Prefix{Version: 1, Codec: cid.DagCBOR, MhType: mh.SHA2_512, MhLength: 64}
		}
		return cid.Prefix{Version: 1, Codec: cid.DagCBOR, MhType: mh.SHA2_512, MhLength: 3}
	case 18, 19:
		return cid.Prefix{Version: 1, Codec: 0x0129, MhType: mh.SHA1, MhLength: 2 + g.intn(2)} // two-byte codec varint
	case 20:
		return cid.Prefix{Version: 1, Codec: cid.Raw, MhType: mh.DBL_SHA2_256, MhLength: 5}
	case 21:
		return cid.Prefix{Version: 1, Codec: 0x300000, MhType: mh.IDENTITY, MhLength: -1} // four-byte codec varint
	default:
		return cid.Prefix{Version: 1, Codec: cid.DagProtobuf, MhType: mh.SHA2_256, MhLength: 2}
	}
}

func (g *gen) honestBlock() blocks.Block {
	for {
		d := g.data()
		c, ok := safeSum(g.goodPrefix(), d)
		if !ok {
			continue
		}
		b, err := blocks.NewBlockWithCid(d, c)
		if err != nil {
			continue
		}
		return b
	}
}

func (g *gen) newCid() cid.Cid { return g.honestBlock().Cid() }

func (g *gen) fillPool(n int) {
	g.cids = g.cids[:0]
	for len(g.cids) < n {
		c := g.newCid()
		g.cids = append(g.cids, c)
		// v0/v1 aliases of the same multihash
		if c.Version() == 0 && g.intn(2) == 0 {
			g.cids = append(g.cids, cid.NewCidV1(cid.DagProtobuf, c.Hash()))
		}
	}
}
func (g *gen) poolCid() cid.Cid { return g.cids[g.intn(len(g.cids))] }

func (g *gen) prio() int32 {
	switch g.intn(10) {
	case 0:
		return 0
	case 1:
		return math.MaxInt32
	case 2:
		return math.MinInt32
	case 3:
		return -1
	default:
		return int32(g.intn(20))
	}
}
func (g *gen) wantType() pb.Message_Wantlist_WantType {
	switch g.intn(16) {
	case 0:
		return 2 // unknown enum value: proto3 enums are open
	case 1:
		return -1
	default:
		return pb.Message_Wantlist_WantType(g.intn(2))
	}
}
func (g *gen) presType() pb.Message_BlockPresenceType {
	if g.intn(16) == 0 {
		return 5
	}
	return pb.Message_BlockPresenceType(g.intn(2))
}
func (g *gen) pending() int32 {
	switch g.intn(6) {
	case 0:
		return 0
	case 1:
		return math.MaxInt32
	case 2:
		return -int32(g.intn(5)) - 1
	default:
		return int32(g.intn(100000))
	}
}

// ---------- structured stream: build through the API, round-trip ----------

type opRec struct {
	coq  string
	text string
}

func (g *gen) buildCase(h *htab, nops int, corpus []func(m bsmsg.BitSwapMessage) opRec) (string, map[string]any, *content, bool, bool) {
	full := g.intn(3) == 0
	m := bsmsg.New(full)
	var ops []opRec
	dishonest := false
	if corpus != nil {
		for _, f := range corpus {
			ops = append(ops, f(m))
		}
	}
	var blks []blocks.Block
	for i := 0; i < nops; i++ {
		var o opRec
		switch x := g.intn(100); {
		case x < 38:
			c, p, wt, sdh := g.poolCid(), g.prio(), g.wantType(), g.intn(2) == 0
			m.AddEntry(c, p, wt, sdh)
			o = opRec{vh.App("OAddEntry", bz(c.Bytes()), vh.Z(int64(p)), vh.Z(int64(wt)), vh.Bool(sdh)),
				fmt.Sprintf("AddEntry(%s,%d,%d,%v)", c, p, wt, sdh)}
		case x < 48:
			c := g.poolCid()
			m.Cancel(c)
			o = opRec{vh.App("OCancel", bz(c.Bytes())), fmt.Sprintf("Cancel(%s)", c)}
		case x < 53:
			c := g.poolCid()
			m.Remove(c)
			o = opRec{vh.App("ORemove", bz(c.Bytes())), fmt.Sprintf("Remove(%s)", c)}
		case x < 75:
			var b blocks.Block
			switch y := g.intn(20); {
			case y == 0 && len(blks) > 0: // same CID again (possibly other bytes: dishonest)
				old := blks[g.intn(len(blks))]
				d := g.data()
				b, _ = blocks.NewBlockWithCid(d, old.Cid())
				if !bytes.Equal(d, old.RawData()) {
					dishonest = true
				}
			case y == 1: // block that claims a pool CID it does not hash to
				b, _ = blocks.NewBlockWithCid(g.data(), g.poolCid())
				dishonest = true
			case y < 5: // block for a CID that may have a presence / entry already
				b = g.honestBlock()
				g.cids[g.intn(len(g.cids))] = b.Cid()
			case y >= 7 && y < 10: // CIDv0 next to CIDv1 dag-pb/sha2-256: prefixes that differ in the version only
				pf := cid.Prefix{Version: uint64(g.intn(2)), Codec: cid.DagProtobuf, MhType: mh.SHA2_256, MhLength: 32}
				d := g.data()
				if len(blks) > 0 && g.intn(3) == 0 {
					d = blks[g.intn(len(blks))].RawData()
				}
				c, _ := safeSum(pf, d)
				b, _ = blocks.NewBlockWithCid(d, c)
			case y < 7 && len(blks) > 0: // same data under another prefix
				old := blks[g.intn(len(blks))]
				if c, ok := safeSum(g.goodPrefix(), old.RawData()); ok {
					b, _ = blocks.NewBlockWithCid(old.RawData(), c)
				} else {
					b = g.honestBlock()
				}
			default:
				b = g.honestBlock()
			}
			blks = append(blks, b)
			h.add(pkOf(b.Cid().Prefix()), b.RawData())
			m.AddBlock(b)
			o = opRec{vh.App("OAddBlock", bz(b.Cid().Bytes()), bz(b.RawData())), fmt.Sprintf("AddBlock(%s,%x)", b.Cid(), b.RawData())}
		case x < 93:
			c := g.poolCid()
			if len(blks) > 0 && g.intn(4) == 0 {
				c = blks[g.intn(len(blks))].Cid()
			}
			t := g.presType()
			switch {
			case t == pb.Message_Have && g.intn(2) == 0:
				m.AddHave(c)
			case t == pb.Message_DontHave && g.intn(2) == 0:
				m.AddDontHave(c)
			default:
				m.AddBlockPresence(c, t)
			}
			o = opRec{vh.App("OAddPresence", bz(c.Bytes()), vh.Z(int64(t))), fmt.Sprintf("AddBlockPresence(%s,%d)", c, t)}
		case x < 98:
			n := g.pending()
			m.SetPendingBytes(n)
			o = opRec{vh.App("OSetPending", vh.Z(int64(n))), fmt.Sprintf("SetPendingBytes(%d)", n)}
		default:
			f := g.intn(2) == 0
			m.Reset(f)
			blks = blks[:0]
			o = opRec{vh.App("OReset", vh.Bool(f)), fmt.Sprintf("Reset(%v)", f)}
		}
		ops = append(ops, o)
	}
	obs := contentsOf(m)
	for _, b := range obs.blks {
		h.add(v0pk, b.RawData())
	}
	var w1, w0 bytes.Buffer
	if err := m.ToNetV1(&w1); err != nil {
		panic(err)
	}
	if err := m.ToNetV0(&w0); err != nil {
		panic(err)
	}
	m1, err1, p1 := fromNet(w1.Bytes())
	m0, err0, p0 := fromNet(w0.Bytes())
	term := vh.App("CBuild", "HT", vh.Bool(full),
		vh.ListOf(ops, func(o opRec) string { return o.coq }),
		obs.coq(h), optContents(m1, err1, h), optContents(m0, err0, h))
	term = strings.Replace(term, "HT", h.coq(), 1)
	texts := make([]string, len(ops))
	for i, o := range ops {
		texts[i] = o.text
	}
	rp := map[string]any{"kind": "build", "full": full, "ops": texts}
	return term, rp, obs, dishonest, p1 || p0
}

// ---------- hostile stream ----------

func (g *gen) badCidBytes() []byte {
	good := g.poolCid().Bytes()
	switch g.intn(14) {
	case 0:
		return nil
	case 1:
		return good[:len(good)-1] // truncated digest
	case 2:
		return append(append([]byte{}, good...), byte(g.intn(256))) // trailing byte
	case 3:
		return []byte{0x12, 0x20} // v0 head only
	case 4:
		b := make([]byte, 33) // v0 head, one byte short
		b[0], b[1] = 0x12, 0x20
		return b
	case 5:
		b := make([]byte, 35) // v0 head, one byte long
		b[0], b[1] = 0x12, 0x20
		return b
	case 6:
		return []byte{2, 0x55, 0x00, 0x01, 0xaa} // version 2
	case 7:
		return []byte{0x81, 0x00, 0x55, 0x00, 0x01, 0xaa} // non-minimal version varint
	case 8:
		return []byte{1, 0x55, 0x00, 0x00} // identity, empty digest: valid
	case 9:
		return []byte{1, 0x55, 0x00} // multihash too short
	case 10:
		return []byte{1, 0x80, 0x80, 0x80, 0x80, 0x80, 0x80, 0x80, 0x80, 0x80, 0x01, 0x00, 0x00} // codec varint of 10 bytes
	case 11:
		return []byte{1, 0xff, 0xff, 0xff, 0xff, 0xff, 0xff, 0xff, 0xff, 0x7f, 0x00, 0x01, 0x07} // 9-byte codec varint: valid
	case 12:
		return []byte{1, 0x55, 0x00, 0x88, 0x80, 0x80, 0x80, 0x08, 0x01} // digest length 2^31: too long
	default:
		b := append([]byte{}, good...)
		b[g.intn(len(b))] ^= byte(1 << g.intn(8))
		return b
	}
}

func (g *gen) anyPrefixBytes() []byte {
	switch g.intn(14) {
	case 0:
		return nil
	case 1:
		return []byte{1, 0x55, 0x12} // three varints only
	case 2:
		return []byte{1, 0x55, 0x12, 0x21} // sha2-256 with length 33
	case 3:
		return []byte{1, 0x55, 0x12, 0x00} // length 0
	case 4:
		return []byte{0, 0x55, 0x12, 0x20} // v0 with raw codec
	case 5:
		return []byte{0, 0x70, 0x13, 0x40} // v0 with sha2-512
	case 6:
		return []byte{0, 0x70, 0x12, 0x1f} // v0 with length 31
	case 7:
		return []byte{2, 0x55, 0x12, 0x20} // version 2
	case 8:
		return []byte{1, 0x55, 0xd5, 0xaa, 0x01, 0x20} // unknown hash code
	case 9:
		return []byte{1, 0x55, 0x00, 0x03} // identity with a length that is ignored
	case 10:
		return []byte{1, 0x55, 0x12, 0x20, 0xff, 0x01} // trailing bytes (ignored)
	case 11:
		return []byte{1, 0x55, 0x12, 0x80, 0x00} // non-minimal length varint
	case 12:
		return []byte{1, 0x55, 0x12, 0xff, 0xff, 0xff, 0xff, 0xff, 0xff, 0xff, 0xff, 0x7f} // length 2^63-1
	default:
		return g.goodPrefix().Bytes()
	}
}

// hostilePb builds a pb.Message with duplicates, alias CIDs and (sometimes) bad items.
func (g *gen) hostilePb(allowBad bool) *pb.Message {
	m := &pb.Message{}
	bad := func() bool { return allowBad && g.intn(12) == 0 }
	if g.intn(8) != 0 {
		m.Wantlist = &pb.Message_Wantlist{Full: g.intn(3) == 0}
		for i, n := 0, g.intn(7); i < n; i++ {
			cb := g.poolCid().Bytes()
			if bad() {
				cb = g.badCidBytes()
			}
			m.Wantlist.Entries = append(m.Wantlist.Entries, &pb.Message_Wantlist_Entry{
				Block: cb, Priority: g.prio(), Cancel: g.intn(4) == 0, WantType: g.wantType(), SendDontHave: g.intn(2) == 0})
		}
	}
	for i, n := 0, g.intn(3); i < n && g.intn(2) == 0; i++ {
		m.Blocks = append(m.Blocks, g.data())
	}
	for i, n := 0, g.intn(5); i < n; i++ {
		pfx := g.goodPrefix().Bytes()
		if bad() {
			pfx = g.anyPrefixBytes()
		}
		d := g.data()
		m.Payload = append(m.Payload, &pb.Message_Block{Prefix: pfx, Data: d})
		if g.intn(3) == 0 { // make a presence / entry for the very CID this block will get
			if p, err := cid.PrefixFromBytes(pfx); err == nil {
				if c, ok := safeSum(p, d); ok {
					g.cids[g.intn(len(g.cids))] = c
				}
			}
		}
	}
	for i, n := 0, g.intn(5); i < n; i++ {
		cb := g.poolCid().Bytes()
		if bad() {
			cb = g.badCidBytes()
		}
		m.BlockPresences = append(m.BlockPresences, &pb.Message_BlockPresence{Cid: cb, Type: g.presType()})
	}
	if g.intn(2) == 0 {
		m.PendingBytes = g.pending()
	}
	return m
}

func (g *gen) mutate(body []byte) []byte {
	b := append([]byte{}, body...)
	for k, n := 0, 1+g.intn(2); k < n; k++ {
		if len(b) == 0 {
			return []byte{byte(g.intn(256))}
		}
		i := g.intn(len(b))
		switch g.intn(7) {
		case 0:
			b[i] ^= byte(1 << g.intn(8))
		case 1:
			b[i] = []byte{0, 1, 0x7f, 0x80, 0xff, 0x12, 0x20}[g.intn(7)]
		case 2:
			b = append(b[:i], b[i+1:]...)
		case 3:
			b = append(b[:i], append([]byte{byte(g.intn(256))}, b[i:]...)...)
		case 4:
			b = b[:i]
		case 5:
			b[i]++
		default:
			b[i]--
		}
	}
	return b
}

func pbCoq(m *pb.Message, h *htab) string {
	wl := "None"
	if m.Wantlist != nil {
		es := vh.ListOf(m.Wantlist.Entries, func(e *pb.Message_Wantlist_Entry) string {
			return vh.App("mkpe", bz(e.GetBlock()), vh.Z(int64(e.GetPriority())), vh.Bool(e.GetCancel()),
				vh.Z(int64(e.GetWantType())), vh.Bool(e.GetSendDontHave()))
		})
		wl = "(Some (" + es + ", " + vh.Bool(m.Wantlist.Full) + "))"
	}
	bl := vh.ListOf(m.Blocks, func(d []byte) string { h.add(v0pk, d); return bz(d) })
	pl := vh.ListOf(m.Payload, func(b *pb.Message_Block) string {
		if p, err := cid.PrefixFromBytes(b.GetPrefix()); err == nil {
			h.add(pkOf(p), b.GetData())
		}
		return "(" + bz(b.GetPrefix()) + ", " + bz(b.GetData()) + ")"
	})
	pr := vh.ListOf(m.BlockPresences, func(p *pb.Message_BlockPresence) string {
		return "(" + bz(p.GetCid()) + ", " + vh.Z(int64(p.GetType())) + ")"
	})
	return vh.App("mkpb", wl, bl, pl, pr, vh.Z(int64(m.PendingBytes)))
}

func TestC34(t *testing.T) {
	e := vh.Load(t)
	g := &gen{e: e}
	st := vh.NewStats("structured stream: messages built by random sequences of AddEntry/Cancel/Remove/AddBlock/AddBlockPresence/" +
		"AddHave/AddDontHave/SetPendingBytes/Reset over a small CID pool (v0/v1 aliases, identity, truncated digests, multi-byte codec, " +
		"colliding CIDs, dishonest blocks), then FromNet(ToNetV1) and FromNet(ToNetV0); hostile stream: pb.Message values with duplicate " +
		"and malformed items marshalled to the wire, and byte-level mutations of encoded messages, all through FromNet; " +
		"non-trivial = build case with >= 4 ops and a non-empty message, or wire case that proto.Unmarshal accepts with >= 2 items; " +
		"distinct by the Coq term of the case")
	cs := vh.NewCases(e, "From V Require Import model.M_C34.\nOpen Scope Z_scope.", "case", "check_case", 60)

	nBuild := e.Pick(350, 3000)
	nWire := e.Pick(650, 6000)

	// ---- corpus: merge rules of addEntry, block/presence exclusion ----
	g.fillPool(6)
	c0, c1 := g.cids[0], g.cids[1]
	mk := func(f func(m bsmsg.BitSwapMessage) opRec) func(m bsmsg.BitSwapMessage) opRec { return f }
	addE := func(c cid.Cid, p int32, wt pb.Message_Wantlist_WantType, sdh bool) func(m bsmsg.BitSwapMessage) opRec {
		return mk(func(m bsmsg.BitSwapMessage) opRec {
			m.AddEntry(c, p, wt, sdh)
			return opRec{vh.App("OAddEntry", bz(c.Bytes()), vh.Z(int64(p)), vh.Z(int64(wt)), vh.Bool(sdh)), fmt.Sprintf("AddEntry(%s,%d,%d,%v)", c, p, wt, sdh)}
		})
	}
	cancel := func(c cid.Cid) func(m bsmsg.BitSwapMessage) opRec {
		return mk(func(m bsmsg.BitSwapMessage) opRec {
			m.Cancel(c)
			return opRec{vh.App("OCancel", bz(c.Bytes())), fmt.Sprintf("Cancel(%s)", c)}
		})
	}
	hb := g.honestBlock()
	addB := func(b blocks.Block) func(m bsmsg.BitSwapMessage) opRec {
		return mk(func(m bsmsg.BitSwapMessage) opRec {
			m.AddBlock(b)
			return opRec{vh.App("OAddBlock", bz(b.Cid().Bytes()), bz(b.RawData())), fmt.Sprintf("AddBlock(%s,%x)", b.Cid(), b.RawData())}
		})
	}
	addP := func(c cid.Cid, ty pb.Message_BlockPresenceType) func(m bsmsg.BitSwapMessage) opRec {
		return mk(func(m bsmsg.BitSwapMessage) opRec {
			m.AddBlockPresence(c, ty)
			return opRec{vh.App("OAddPresence", bz(c.Bytes()), vh.Z(int64(ty))), fmt.Sprintf("AddBlockPresence(%s,%d)", c, ty)}
		})
	}
	H, B := pb.Message_Wantlist_Have, pb.Message_Wantlist_Block
	corpus := [][]func(m bsmsg.BitSwapMessage) opRec{
		{addE(c0, 5, H, false), addE(c0, 7, B, true)},                        // have then block: upgraded, priority kept, sdh set
		{addE(c0, 5, B, true), addE(c0, 7, H, false)},                        // block then have: stays block, priority kept
		{addE(c0, 5, H, false), addE(c0, 7, H, false)},                       // same type: priority replaced
		{addE(c0, 5, B, false), cancel(c0), addE(c0, 9, B, false)},           // cancel is sticky
		{cancel(c0), addE(c0, 9, H, true)},                                   // cancel first
		{addE(c0, 5, H, true), addE(c0, 6, B, false), addE(c0, 7, H, false)}, // after upgrade a have no longer sets priority
		{addP(hb.Cid(), pb.Message_Have), addB(hb)},                          // block removes presence
		{addB(hb), addP(hb.Cid(), pb.Message_DontHave), addP(c1, 1)},         // presence for a held block ignored
		{addE(c0, 1, B, false), addE(c1, 2, H, true), addB(hb), addP(c1, 0)}, // plain mixed message
	}

	// directed: blocks whose CID prefixes agree on codec / hash / length and differ in the CID version
	mkB := func(v uint64, codec uint64, d []byte) blocks.Block {
		c, ok := safeSum(cid.Prefix{Version: v, Codec: codec, MhType: mh.SHA2_256, MhLength: 32}, d)
		if !ok {
			t.Fatal("Prefix.Sum failed for a sha2-256 prefix")
		}
		b, err := blocks.NewBlockWithCid(d, c)
		if err != nil {
			t.Fatal(err)
		}
		return b
	}
	pbc := uint64(cid.DagProtobuf)
	d1, d2, d3 := []byte{1, 2, 3}, []byte{4, 5}, []byte{6}
	versionCorpus := [][]func(m bsmsg.BitSwapMessage) opRec{
		{addB(mkB(0, pbc, d1)), addB(mkB(1, pbc, d2))},                            // v0 + v1 dag-pb, different data
		{addB(mkB(1, pbc, d1)), addB(mkB(0, pbc, d2))},                            // v1 dag-pb + v0
		{addB(mkB(0, pbc, d1)), addB(mkB(1, pbc, d2)), addB(mkB(1, cid.Raw, d3))}, // v0 + v1 dag-pb + v1 raw
		{addB(mkB(0, pbc, d1)), addB(mkB(1, pbc, d1))},                            // the same data under v0 and v1
		{addB(mkB(1, pbc, d1)), addB(mkB(0, pbc, d2)), addB(mkB(1, pbc, d3)), addB(mkB(0, pbc, d3))},
	}
	for rep := 0; rep < 4; rep++ { // Go map iteration: several runs so that both orders occur
		corpus = append(corpus, versionCorpus...)
	}

	emitBuild := func(nops int, cp []func(m bsmsg.BitSwapMessage) opRec) {
		h := newHtab()
		newDict()
		term, rp, obs, odd, panicked := g.buildCase(h, nops, cp)
		term = wrap(term)
		if panicked {
			st.Violate("FromNet panicked on the encoding of a message built through the API", "", rp)
		}
		for _, k := range h.bad {
			st.Violate("go-cid: Prefix.Sum is not stable under the prefix of the CID it produced: "+k, "", rp)
		}
		cs.Add(term, rp)
		total := len(obs.wl) + len(obs.blks) + len(obs.pres)
		st.Case(term, nops+len(cp) >= 4 && total > 0)
		st.Count("build")
		st.Count(fmt.Sprintf("build.items<=%d", bucket(total)))
		if odd {
			st.Count("build.dishonest-block")
		}
		st.Sample(rp, 2)
	}
	for _, cp := range corpus {
		emitBuild(0, cp)
	}
	for i := 0; i < nBuild; i++ {
		g.fillPool(2 + g.intn(10))
		nops := g.intn(14)
		switch {
		case i%40 == 0:
			nops = 60 + g.intn(60) // up to ~50 entries/blocks/presences
		case i%7 == 0:
			nops = g.intn(3)
		}
		emitBuild(nops, nil)
	}

	// ---- hostile stream ----
	emitWire := func(body []byte, kind string) {
		wire := frame(body)
		var pm pb.Message
		uerr := proto.Unmarshal(body, &pm)
		m, err, panicked := fromNet(wire)
		rp := map[string]any{"kind": kind, "wire": fmt.Sprintf("%x", wire)}
		if panicked {
			st.Violate("FromNet panicked on wire bytes: "+err.Error(), "", rp)
			return
		}
		if uerr != nil {
			st.Count("wire.unmarshal-reject")
			if err == nil {
				st.Violate("FromNet accepted bytes that are not a protobuf message", "", rp)
			}
			return
		}
		h := newHtab()
		newDict()
		pbterm := pbCoq(&pm, h)
		res := optContents(m, err, h)
		term := wrap(vh.App("CWire", h.coq(), pbterm, res))
		for _, k := range h.bad {
			st.Violate("go-cid: Prefix.Sum is not stable under the prefix of the CID it produced: "+k, "", rp)
		}
		cs.Add(term, rp)
		items := len(pm.Blocks) + len(pm.Payload) + len(pm.BlockPresences)
		if pm.Wantlist != nil {
			items += len(pm.Wantlist.Entries)
		}
		st.Case(term, items >= 2)
		st.Count("wire." + kind)
		if err != nil {
			st.Count("wire.rejected")
		} else {
			st.Count("wire.accepted")
		}
		st.Sample(rp, 6)
	}
	// corpus: every malformed CID / prefix form once, alone in an otherwise good message
	g.fillPool(6)
	for k := 0; k < 60; k++ {
		pm := g.hostilePb(false)
		switch k % 3 {
		case 0:
			if pm.Wantlist == nil {
				pm.Wantlist = &pb.Message_Wantlist{}
			}
			pm.Wantlist.Entries = append(pm.Wantlist.Entries, &pb.Message_Wantlist_Entry{Block: g.badCidBytes(), Priority: 1})
		case 1:
			pm.Payload = append(pm.Payload, &pb.Message_Block{Prefix: g.anyPrefixBytes(), Data: g.data()})
		default:
			pm.BlockPresences = append(pm.BlockPresences, &pb.Message_BlockPresence{Cid: g.badCidBytes()})
		}
		body, err := proto.Marshal(pm)
		if err != nil {
			t.Fatal(err)
		}
		emitWire(body, "corpus")
	}
	for i := 0; i < nWire; i++ {
		if i%16 == 0 {
			g.fillPool(2 + g.intn(8))
		}
		pm := g.hostilePb(i%2 == 0)
		body, err := proto.Marshal(pm)
		if err != nil {
			t.Fatal(err)
		}
		if i%3 == 2 {
			emitWire(g.mutate(body), "mutated")
		} else {
			emitWire(body, "hostile-pb")
		}
	}
	// raw garbage and broken frames: only "no panic, error or a message"
	for i := 0; i < e.Pick(300, 5000); i++ {
		n := g.intn(40)
		raw := make([]byte, n)
		for j := range raw {
			raw[j] = byte(g.intn(256))
		}
		if _, _, panicked := fromNet(raw); panicked {
			st.Violate("FromNet panicked on raw bytes", "", map[string]any{"kind": "raw", "wire": fmt.Sprintf("%x", raw)})
		}
		st.Count("raw")
	}
	cs.Close()
	st.Write(e)
}

func bucket(n int) int {
	for _, b := range []int{0, 2, 5, 10, 20, 50} {
		if n <= b {
			return b
		}
	}
	return 1000
}
