// Correspondence harness for C35 (bitswap client message queue): the real
// MessageQueue is driven along one chosen schedule at a time — producer calls
// (AddWants / AddBroadcastWantHaves / AddCancels) placed before a send, between
// rebroadcast's refresh and the snapshot (the fake sender parks in SupportsHave),
// or inside extractOutgoingMessage's unlocked window (verifhook "mq.window") —
// the lists of the real queue are dumped after every atomic step and the messages
// handed to the fake MessageSender are recorded. Coq replays the model along the
// same step sequence, compares every dump and message, and evaluates the
// convergence specification on the final idle state.
package c35

import (
	"context"
	"fmt"
	"sort"
	"strings"
	"testing"
	"time"

	bsclient "github.com/ipfs/boxo/bitswap/client"
	bswl "github.com/ipfs/boxo/bitswap/client/wantlist"
	bsmsg "github.com/ipfs/boxo/bitswap/message"
	pb "github.com/ipfs/boxo/bitswap/message/pb"
	bsnet "github.com/ipfs/boxo/bitswap/network"
	cid "github.com/ipfs/go-cid"
	peer "github.com/libp2p/go-libp2p/core/peer"
	"github.com/libp2p/go-libp2p/p2p/protocol/ping"
	mh "github.com/multiformats/go-multihash"

	"verif/harness/vh"
)

// ---------- fakes and the scheduler ----------

type sched struct {
	at     chan string   // the sender goroutine announces the point it parked at
	resume chan struct{} // released by the main goroutine
	active bool
}

func (s *sched) park(name string) {
	if !s.active {
		return
	}
	s.at <- name
	<-s.resume
}

type fakeSender struct {
	sh   bool
	sc   *sched
	sent [][]bsmsg.Entry
}

func (f *fakeSender) SendMsg(_ context.Context, m bsmsg.BitSwapMessage) error {
	f.sent = append(f.sent, m.Wantlist())
	return nil
}
func (f *fakeSender) Reset() error { return nil }
func (f *fakeSender) SupportsHave() bool {
	f.sc.park("presnap")
	return f.sh
}

type fakeNet struct{ s *fakeSender }

func (n *fakeNet) Connect(context.Context, peer.AddrInfo) error { return nil }
func (n *fakeNet) NewMessageSender(context.Context, peer.ID, *bsnet.MessageSenderOpts) (bsnet.MessageSender, error) {
	return n.s, nil
}
func (n *fakeNet) Latency(peer.ID) time.Duration             { return 0 }
func (n *fakeNet) Ping(context.Context, peer.ID) ping.Result { return ping.Result{} }
func (n *fakeNet) Self() peer.ID                             { return "" }

// ---------- schedule language ----------

type prod struct {
	kind   string // wants bcast cancel
	blocks []int
	haves  []int
}

type action struct {
	kind    string // prod send rebroadcast
	p       prod
	presnap []prod // producers run between refresh / sender initialisation and the snapshot
	window  []prod // producers run inside the unlocked window
}

type world struct {
	t    *testing.T
	mq   *bsclient.VerifMessageQueue
	snd  *fakeSender
	sc   *sched
	cids []cid.Cid
	idx  map[cid.Cid]int
	evs  []string // Coq (ev, dump) pairs
	log  []string // replay text
	last bsclient.VerifMQDump
	nmsg int
}

func mkCids(n int) []cid.Cid {
	out := make([]cid.Cid, n)
	for i := range out {
		h, _ := mh.Sum([]byte{byte(i), 0x35}, mh.SHA2_256, -1)
		out[i] = cid.NewCidV1(cid.Raw, h)
	}
	return out
}

func (w *world) pick(ix []int) []cid.Cid {
	out := make([]cid.Cid, len(ix))
	for i, x := range ix {
		out[i] = w.cids[x]
	}
	return out
}

func zl(ix []int) string { return vh.ListOf(ix, func(i int) string { return vh.Z(int64(i)) }) }

func (w *world) wlCoq(es []bswl.Entry) string {
	cp := append([]bswl.Entry(nil), es...)
	sort.Slice(cp, func(i, j int) bool { return w.idx[cp[i].Cid] < w.idx[cp[j].Cid] })
	return vh.ListOf(cp, func(e bswl.Entry) string {
		return fmt.Sprintf("(%d, (%d, %d))", w.idx[e.Cid], e.Priority, e.WantType)
	})
}

func (w *world) dumpCoq(d bsclient.VerifMQDump) string {
	cs := make([]int, len(d.Cancels))
	for i, c := range d.Cancels {
		cs[i] = w.idx[c]
	}
	sort.Ints(cs)
	return vh.App("mkdump", w.wlCoq(d.PeerPending), w.wlCoq(d.PeerSent), w.wlCoq(d.BcstPending), w.wlCoq(d.BcstSent), zl(cs))
}

func (w *world) emit(ev, text string) {
	d := w.mq.VerifDump()
	w.last = d
	w.evs = append(w.evs, "("+ev+", "+w.dumpCoq(d)+")")
	w.log = append(w.log, text)
}

func (w *world) runProd(p prod) {
	switch p.kind {
	case "wants":
		w.mq.AddWants(w.pick(p.blocks), w.pick(p.haves))
		w.emit(vh.App("EWants", zl(p.blocks), zl(p.haves)), fmt.Sprintf("AddWants(blocks=%v,haves=%v)", p.blocks, p.haves))
	case "bcast":
		w.mq.AddBroadcastWantHaves(w.pick(p.haves))
		w.emit(vh.App("EBcast", zl(p.haves)), fmt.Sprintf("AddBroadcastWantHaves(%v)", p.haves))
	case "cancel":
		w.mq.AddCancels(w.pick(p.haves))
		w.emit(vh.App("ECancel", zl(p.haves)), fmt.Sprintf("AddCancels(%v)", p.haves))
	}
}

func gone(before, after []bswl.Entry, idx map[cid.Cid]int) []int {
	in := map[cid.Cid]bool{}
	for _, e := range after {
		in[e.Cid] = true
	}
	var out []int
	for _, e := range before {
		if !in[e.Cid] {
			out = append(out, idx[e.Cid])
		}
	}
	sort.Ints(out)
	return out
}

// runSender executes one sendMessage (or one rebroadcast) of the real queue,
// stopping it at the two schedule points.
func (w *world) runSender(a action) {
	done := make(chan struct{})
	w.sc.active = true
	go func() {
		if a.kind == "rebroadcast" {
			w.mq.VerifRebroadcast()
		} else {
			w.mq.VerifSendMessage()
		}
		close(done)
	}()
	wait := func() string {
		select {
		case n := <-w.sc.at:
			return n
		case <-done:
			return "done"
		case <-time.After(20 * time.Second):
			w.t.Fatalf("sender goroutine neither parked nor finished: %v", w.log)
			return ""
		}
	}
	before := w.last
	at := wait()
	if a.kind == "rebroadcast" {
		d := w.mq.VerifDump()
		pl, bl := gone(before.PeerSent, d.PeerSent, w.idx), gone(before.BcstSent, d.BcstSent, w.idx)
		w.emit(vh.App("ERefresh", zl(pl), zl(bl)), fmt.Sprintf("rebroadcast: refreshed peer=%v bcst=%v", pl, bl))
	}
	if at == "done" { // rebroadcast with nothing to refresh
		w.sc.active = false
		return
	}
	if at != "presnap" {
		w.t.Fatalf("unexpected schedule point %q", at)
	}
	for _, p := range a.presnap {
		w.runProd(p)
	}
	w.sc.resume <- struct{}{}
	if at = wait(); at != "mq.window" {
		w.t.Fatalf("expected the window, got %q", at)
	}
	w.emit("ESnap", "snapshot")
	for _, p := range a.window {
		w.runProd(p)
	}
	w.sc.resume <- struct{}{}
	if at = wait(); at != "done" {
		w.t.Fatalf("expected the send to finish, got %q", at)
	}
	w.sc.active = false
	var msg []bsmsg.Entry
	if len(w.snd.sent) > w.nmsg {
		if len(w.snd.sent) != w.nmsg+1 {
			w.t.Fatalf("more than one message in one sendMessage")
		}
		msg = w.snd.sent[w.nmsg]
		w.nmsg++
	}
	sort.Slice(msg, func(i, j int) bool { return w.idx[msg[i].Cid] < w.idx[msg[j].Cid] })
	m := vh.ListOf(msg, func(e bsmsg.Entry) string {
		return fmt.Sprintf("(%d, (%d, %d, %s, %s))", w.idx[e.Cid], e.Priority, e.WantType, vh.Bool(e.Cancel), vh.Bool(e.SendDontHave))
	})
	w.emit(vh.App("ESend", m), fmt.Sprintf("send %d entries", len(msg)))
}

func idle(d bsclient.VerifMQDump) bool {
	return len(d.PeerPending) == 0 && len(d.BcstPending) == 0 && len(d.Cancels) == 0
}

// runSchedule executes the actions on a fresh queue, then sends until idle.
func runSchedule(t *testing.T, sh bool, ncid, maxSize int, acts []action) (string, map[string]any, *world) {
	sc := &sched{at: make(chan string), resume: make(chan struct{})}
	snd := &fakeSender{sh: sh, sc: sc}
	cids := mkCids(ncid)
	w := &world{t: t, snd: snd, sc: sc, cids: cids, idx: map[cid.Cid]int{}}
	for i, c := range cids {
		w.idx[c] = i
	}
	bsclient.VerifSetHook(func(name string) {
		if name == "mq.window" {
			sc.park(name)
		}
	})
	defer bsclient.VerifSetHook(nil)
	ctx, cancel := context.WithCancel(context.Background())
	defer cancel()
	w.mq = bsclient.VerifNewMessageQueue(ctx, peer.ID("verif-peer"), &fakeNet{s: snd}, maxSize)
	w.last = w.mq.VerifDump()
	for _, a := range acts {
		if a.kind == "prod" {
			w.runProd(a.p)
		} else {
			w.runSender(a)
		}
	}
	// Send until idle. A sendMessage with no producer step in between must make progress
	// (send something or change the lists); if it does not, or if maxSends passes are not
	// enough, the schedule ends NOT idle and the specification judges that observation
	// ("a current want is never left unsent").
	const maxSends = 64
	stuck := ""
	for i := 0; !idle(w.mq.VerifDump()); i++ {
		if i >= maxSends {
			stuck = fmt.Sprintf("not idle after %d sends without producer steps", maxSends)
			break
		}
		before, nb := w.dumpCoq(w.mq.VerifDump()), len(snd.sent)
		w.runSender(action{kind: "send"})
		if len(snd.sent) == nb && w.dumpCoq(w.mq.VerifDump()) == before {
			stuck = "a send with nothing else running sent nothing and changed nothing, yet the queue is not idle"
			break
		}
	}
	if stuck != "" {
		w.log = append(w.log, "STUCK: "+stuck)
	}
	// the peer: replay every sent message onto a real want-list
	peerWl := bswl.New()
	for _, m := range snd.sent {
		for _, e := range m {
			if e.Cancel {
				peerWl.Remove(e.Cid)
			} else {
				peerWl.Add(e.Cid, e.Priority, e.WantType)
			}
		}
	}
	univ := make([]int, ncid)
	for i := range univ {
		univ[i] = i
	}
	term := vh.App("CSched", vh.Bool(sh), zl(univ), vh.List(w.evs), w.wlCoq(peerWl.Entries()))
	rp := map[string]any{"supportsHave": sh, "cids": ncid, "maxMessageSize": maxSize, "steps": w.log}
	return term, rp, w
}

// ---------- generators ----------

func subset(e *vh.Env, n, max int) []int {
	k := 1 + e.Rng.Intn(max)
	seen := map[int]bool{}
	var out []int
	for i := 0; i < k; i++ {
		x := e.Rng.Intn(n)
		if !seen[x] {
			seen[x] = true
			out = append(out, x)
		}
	}
	return out
}

func genProd(e *vh.Env, n int) prod {
	switch x := e.Rng.Intn(10); {
	case x < 4:
		p := prod{kind: "wants"}
		switch e.Rng.Intn(3) {
		case 0:
			p.blocks = subset(e, n, 3)
		case 1:
			p.haves = subset(e, n, 3)
		default:
			p.blocks, p.haves = subset(e, n, 2), subset(e, n, 2)
		}
		return p
	case x < 6:
		return prod{kind: "bcast", haves: subset(e, n, 3)}
	default:
		return prod{kind: "cancel", haves: subset(e, n, 3)}
	}
}

func genProds(e *vh.Env, n, max int) []prod {
	k := e.Rng.Intn(max + 1)
	out := make([]prod, k)
	for i := range out {
		out[i] = genProd(e, n)
	}
	return out
}

// sameCid is the biased pattern: want-block c, send, want-have of the same c, a send pass, cancel c
// (each stage optionally inside a window), mixed into random schedules.
func sameCid(e *vh.Env, n int) []action {
	c := e.Rng.Intn(n)
	blk, hv, cn := prod{kind: "wants", blocks: []int{c}}, prod{kind: "wants", haves: []int{c}}, prod{kind: "cancel", haves: []int{c}}
	var out []action
	stage := func(p prod) {
		if e.Rng.Intn(3) == 0 {
			out = append(out, action{kind: "send", window: []prod{p}})
		} else {
			out = append(out, action{kind: "prod", p: p}, action{kind: "send"})
		}
	}
	if e.Rng.Intn(4) == 0 {
		stage(hv)
	}
	stage(blk)
	stage(hv)
	if e.Rng.Intn(3) == 0 {
		out = append(out, action{kind: "rebroadcast"})
	}
	if e.Rng.Intn(3) == 0 {
		out = append(out, action{kind: "prod", p: genProd(e, n)})
	}
	out = append(out, action{kind: "prod", p: cn})
	return out
}

func genActs(e *vh.Env, n int) []action {
	k := 2 + e.Rng.Intn(9)
	var out []action
	if e.Rng.Intn(4) == 0 {
		out = append(out, sameCid(e, n)...)
		k = e.Rng.Intn(4)
	}
	for i := 0; i < k; i++ {
		switch x := e.Rng.Intn(10); {
		case x < 6:
			out = append(out, action{kind: "prod", p: genProd(e, n)})
		case x < 9:
			a := action{kind: "send"}
			if e.Rng.Intn(3) == 0 {
				a.presnap = genProds(e, n, 2)
			}
			if e.Rng.Intn(2) == 0 {
				a.window = genProds(e, n, 3)
			}
			out = append(out, a)
		default:
			a := action{kind: "rebroadcast"}
			if e.Rng.Intn(2) == 0 {
				a.presnap = genProds(e, n, 2)
			}
			if e.Rng.Intn(3) == 0 {
				a.window = genProds(e, n, 2)
			}
			out = append(out, a)
		}
	}
	return out
}

func TestC35(t *testing.T) {
	e := vh.Load(t)
	st := vh.NewStats("schedules of the real MessageQueue (fake MessageSender, run loop replaced by explicit sendMessage / rebroadcast calls): " +
		"2-10 actions over 2-6 CIDs; producer calls before sends, between refresh and snapshot, and inside the unlocked window of " +
		"extractOutgoingMessage; message size limits from one entry up; with and without HAVE support; every schedule ends with sends until idle; " +
		"non-trivial = at least one producer call inside a window or before a snapshot, or a rebroadcast that refreshed something; distinct by Coq term")
	cs := vh.NewCases(e, "From V Require Import model.M_C35.\nOpen Scope Z_scope.", "case", "check_case", 60)

	W := func(b, h []int) prod { return prod{kind: "wants", blocks: b, haves: h} }
	B := func(h ...int) prod { return prod{kind: "bcast", haves: h} }
	C := func(k ...int) prod { return prod{kind: "cancel", haves: k} }
	P := func(p prod) action { return action{kind: "prod", p: p} }
	send := action{kind: "send"}
	type cc struct {
		name string
		sh   bool
		n    int
		max  int
		acts []action
	}
	corpus := []cc{
		// finding C35-1 (three forms): the record that the peer holds the want is lost
		{"forget: cancel; want; cancel between two sends", true, 2, 1 << 21,
			[]action{P(W([]int{0}, nil)), send, P(C(0)), P(W([]int{0}, nil)), P(C(0)), send}},
		{"forget: want and cancel inside the window after the cancel was snapshotted (DESIGN 4.3)", true, 2, 1 << 21,
			[]action{P(W([]int{0}, nil)), send, P(C(0)), {kind: "send", window: []prod{W([]int{0}, nil), C(0)}}}},
		{"forget: cancel between rebroadcast's refresh and the re-send", true, 2, 1 << 21,
			[]action{P(W([]int{0}, nil)), send, {kind: "rebroadcast", presnap: []prod{C(0)}}}},
		// finding C35-2: entry of a CID marked sent from one list is removed because the other list's candidate changed
		{"merge: peer want-have and broadcast want-have of one CID; cancel + re-broadcast inside the window", true, 2, 1 << 21,
			[]action{P(W(nil, []int{0})), P(B(0)), {kind: "send", window: []prod{C(0), B(0)}}}},
		// plain behaviours
		{"upgrade have to block", true, 2, 1 << 21, []action{P(W(nil, []int{0})), send, P(W([]int{0}, nil)), send}},
		{"one entry per message", true, 4, 1, []action{P(W([]int{0, 1}, []int{2})), P(B(3)), send, P(C(1, 2)), send}},
		{"no HAVE support", false, 3, 1 << 21, []action{P(W([]int{0}, []int{1})), P(B(2)), send, P(C(0, 1, 2)), send}},
		// peers without HAVE support: want-block and want-have of the SAME cid
		{"no HAVE: want-block sent, want-have of the same cid purged at the next snapshot, then cancel", false, 2, 1 << 21,
			[]action{P(W([]int{0}, nil)), send, P(W(nil, []int{0})), send, P(C(0)), send}},
		{"no HAVE: as above with the want-have arriving inside the window and one more send pass", false, 2, 1 << 21,
			[]action{P(W([]int{0}, nil)), {kind: "send", window: []prod{W(nil, []int{0})}}, send, P(C(0))}},
		{"no HAVE: want-block sent, want-have + broadcast of the same cid, rebroadcast, cancel", false, 3, 1,
			[]action{P(W([]int{0, 1}, nil)), send, send, P(W(nil, []int{0, 1})), P(B(0)), send, {kind: "rebroadcast"}, P(C(0, 1)), send}},
		{"no HAVE: want-have first (never sent), then want-block of the same cid, cancel", false, 2, 1 << 21,
			[]action{P(W(nil, []int{0})), send, P(W([]int{0}, nil)), send, P(W(nil, []int{0})), send, P(C(0))}},
		{"one entry per message: cancel alone in a message while a want-have waits, then upgrade it to want-block", true, 2, 1,
			[]action{P(W([]int{0}, nil)), send, P(C(0)), P(W(nil, []int{1})), send, P(W([]int{1}, nil)), send}},
		{"upgrade of a pending want-have inside the window, then again after the send", true, 2, 1 << 21,
			[]action{P(W(nil, []int{0, 1})), {kind: "send", window: []prod{W([]int{0}, nil)}}, P(W([]int{1}, nil)), send}},
		{"rebroadcast", true, 3, 1 << 21, []action{P(W([]int{0}, []int{1})), P(B(1, 2)), send, {kind: "rebroadcast"}, P(C(1))}},
	}
	emit := func(sh bool, n, max int, acts []action, name string) {
		term, rp, w := runSchedule(t, sh, n, max, acts)
		if name != "" {
			rp["name"] = name
		}
		cs.Add(term, rp)
		interesting := false
		for _, a := range acts {
			if len(a.presnap) > 0 || len(a.window) > 0 {
				interesting = true
			}
		}
		if strings.Contains(strings.Join(w.log, ";"), "refreshed peer=[") && !strings.Contains(strings.Join(w.log, ";"), "refreshed peer=[] bcst=[]") {
			interesting = true
		}
		st.Case(term, interesting)
		st.Count(fmt.Sprintf("supportsHave=%v", sh))
		st.Count(fmt.Sprintf("maxMessageSize=%d", max))
		st.Count(fmt.Sprintf("messages<=%d", (len(w.snd.sent)+3)/4*4))
		for _, a := range acts {
			st.Count("action." + a.kind)
			if len(a.window) > 0 {
				st.Count("producers-in-window")
			}
			if len(a.presnap) > 0 {
				st.Count("producers-before-snapshot")
			}
		}
		st.Sample(rp, 4)
	}
	for _, c := range corpus {
		emit(c.sh, c.n, c.max, c.acts, c.name)
	}
	limits := []int{1, 1, 60, 110, 160, 300, 1 << 21, 1 << 21, 1 << 21}
	for i := 0; i < e.Pick(450, 5000); i++ {
		n := 2 + e.Rng.Intn(5)
		if e.Rng.Intn(10) == 0 {
			n = 10
		}
		emit(e.Rng.Intn(3) != 0, n, limits[e.Rng.Intn(len(limits))], genActs(e, n), "")
	}
	// ---- wantlist.Wantlist on its own: op sequences with Entries() between mutations ----
	wlCase := func(script []int, n int) {
		cids := mkCids(n)
		idx := map[cid.Cid]int{}
		for i, c := range cids {
			idx[c] = i
		}
		w := bswl.New()
		var items, text []string
		add := func(op, ob, tx string) { items = append(items, "("+op+", "+ob+")"); text = append(text, tx) }
		for k := 0; k+3 < len(script); k += 4 {
			c, p, ty := script[k+1]%n, int32(script[k+2]%6), pb.Message_Wantlist_WantType(script[k+3]%2)
			if script[k+3]%23 == 0 {
				ty = 2
			}
			switch script[k] % 12 {
			case 0, 1, 2, 3:
				r := w.Add(cids[c], p, ty)
				add(fmt.Sprintf("WAdd %d %d %d", c, p, ty), "OBool "+vh.Bool(r), fmt.Sprintf("Add(%d,%d,%d)=%v", c, p, ty, r))
			case 4:
				w.Remove(cids[c])
				add(fmt.Sprintf("WRemove %d", c), "OUnit", fmt.Sprintf("Remove(%d)", c))
			case 5, 6:
				r := w.RemoveType(cids[c], ty)
				add(fmt.Sprintf("WRemType %d %d", c, ty), "OBool "+vh.Bool(r), fmt.Sprintf("RemoveType(%d,%d)=%v", c, ty, r))
			case 7, 8, 9:
				es := w.Entries()
				add("WEntries", "OEntries "+vh.ListOf(es, func(e bswl.Entry) string {
					return fmt.Sprintf("(%d, (%d, %d))", idx[e.Cid], e.Priority, e.WantType)
				}), fmt.Sprintf("Entries()=%d", len(es)))
			case 10:
				g, ok := w.Get(cids[c])
				add(fmt.Sprintf("WGet %d", c), "OGet "+vh.Opt(ok, fmt.Sprintf("(%d, %d)", g.Priority, g.WantType)), fmt.Sprintf("Get(%d)=%v", c, ok))
				h := w.Has(cids[c])
				add(fmt.Sprintf("WHas %d", c), "OBool "+vh.Bool(h), fmt.Sprintf("Has(%d)=%v", c, h))
			default:
				l := w.Len()
				add("WLen", fmt.Sprintf("OLen %d", l), fmt.Sprintf("Len()=%d", l))
			}
		}
		term := vh.App("CWl", vh.List(items))
		rp := map[string]any{"kind": "wantlist", "ops": text}
		cs.Add(term, rp)
		st.Case(term, len(items) >= 6)
		st.Count("wantlist-differential")
		st.Sample(rp, 5)
	}
	// corpus: Entries, upgrade want-have -> want-block, Entries again (the cache must follow)
	wlCase([]int{0, 0, 3, 1, 7, 0, 0, 0, 0, 0, 5, 0, 7, 0, 0, 0, 10, 0, 0, 0, 5, 0, 0, 1, 7, 0, 0, 0, 4, 0, 0, 0, 7, 0, 0, 0, 11, 0, 0, 0}, 2)
	for i := 0; i < e.Pick(250, 3000); i++ {
		k := 4 * (3 + e.Rng.Intn(14))
		script := make([]int, k)
		for j := range script {
			script[j] = e.Rng.Intn(1000)
		}
		wlCase(script, 1+e.Rng.Intn(4))
	}
	cs.Close()
	st.Write(e)
}
