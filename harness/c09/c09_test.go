// Correspondence harness for C09 (ipld/unixfs/io DagReader): file DAGs made by the
// real importers (balanced / trickle, many widths, chunk sizes, raw and dag-pb leaves),
// by the real DagModifier, and a few hand-built ones with wrong recorded sizes are read
// through the real DagReader with generated Read / CtxReadFull / Seek / WriteTo
// sequences.  The harness walks the blocks of every DAG itself and writes the tree
// (recorded sizes, leaf data), the calls and what they returned into cases_*.v; Coq
// compares them with the model (model/M_C09.v) and the byte-reader specification.
package c09

import (
	"bytes"
	"context"
	"errors"
	"fmt"
	"hash/fnv"
	"io"
	"math/rand"
	"strings"
	"testing"
	"time"

	chunker "github.com/ipfs/boxo/chunker"
	mdag "github.com/ipfs/boxo/ipld/merkledag"
	mdagmock "github.com/ipfs/boxo/ipld/merkledag/test"
	ft "github.com/ipfs/boxo/ipld/unixfs"
	"github.com/ipfs/boxo/ipld/unixfs/importer/balanced"
	help "github.com/ipfs/boxo/ipld/unixfs/importer/helpers"
	"github.com/ipfs/boxo/ipld/unixfs/importer/trickle"
	uio "github.com/ipfs/boxo/ipld/unixfs/io"
	"github.com/ipfs/boxo/ipld/unixfs/mod"
	cid "github.com/ipfs/go-cid"
	ipld "github.com/ipfs/go-ipld-format"
	mh "github.com/multiformats/go-multihash"

	"verif/harness/vh"
)

// ---- deterministic byte streams, mirrored by gen/ex in M_C10.v ----
func genByte(seed, i int) byte { return byte(1 + (i*i*7+i*(2*seed+3)+seed*101)%251) }

func stream(seed, n int) []byte {
	b := make([]byte, n)
	for i := range b {
		b[i] = genByte(seed, i)
	}
	return b
}

type src struct{ seed, n int }

func matchAt(b []byte, seed, off, n int) int {
	k := 0
	for k < len(b) && off+k < n && genByte(seed, off+k) == b[k] {
		k++
	}
	return k
}

// encode renders a byte string as a Coq [list seg] term (expanded by M_C10.ex). hint (if
// >= 0) is the offset in srcs[0] where the string is expected to come from.
func encode(b []byte, srcs []src, hint int) string {
	var segs []string
	var lit []byte
	flush := func() {
		if len(lit) > 0 {
			segs = append(segs, vh.App("SLit", vh.Bytes(lit)))
			lit = nil
		}
	}
	for p := 0; p < len(b); {
		bestLen, best := 0, ""
		if hint >= 0 && len(srcs) > 0 {
			if k := matchAt(b[p:], srcs[0].seed, hint+p, srcs[0].n); k >= 3 {
				bestLen, best = k, vh.App("SGen", vh.Z(int64(srcs[0].seed)), vh.Z(int64(hint+p)), vh.Z(int64(k)))
			}
		}
		if bestLen == 0 && b[p] == 0 {
			k := p
			for k < len(b) && b[k] == 0 {
				k++
			}
			bestLen, best = k-p, vh.App("SZero", vh.Z(int64(k-p)))
		}
		if bestLen == 0 {
			for _, s := range srcs {
				for off := 0; off < s.n; off++ {
					if genByte(s.seed, off) != b[p] {
						continue
					}
					if k := matchAt(b[p:], s.seed, off, s.n); k > bestLen {
						bestLen, best = k, vh.App("SGen", vh.Z(int64(s.seed)), vh.Z(int64(off)), vh.Z(int64(k)))
					}
				}
			}
		}
		if bestLen >= 3 {
			flush()
			segs = append(segs, best)
			p += bestLen
		} else {
			lit = append(lit, b[p])
			p++
		}
	}
	flush()
	return vh.App("ex", vh.List(segs))
}

// ---- configuration ----
type config struct {
	Kind   string `json:"kind"` // importer | modifier | handbuilt
	Seed   int    `json:"seed"`
	Len    int    `json:"len"`
	Layout string `json:"layout"` // balanced | trickle
	Chunk  int    `json:"chunk"`
	Width  int    `json:"width"`
	Raw    bool   `json:"raw"`
	Prefix string `json:"prefix"`          // v0 | v1 | blake
	Mods   []mop  `json:"mods,omitempty"`  // modifier: the calls that shaped the DAG
	Shape  string `json:"shape,omitempty"` // handbuilt: the tree as text
	RSeed  int64  `json:"rseed,omitempty"` // handbuilt: seed of the shape
}

type mop struct {
	Kind string `json:"k"` // writeat truncate seekwrite
	Off  int64  `json:"off"`
	Seed int    `json:"seed,omitempty"`
	Len  int    `json:"len,omitempty"`
}

type op struct {
	Kind   string `json:"k"` // read ctxread seek writeto
	N      int    `json:"n,omitempty"`
	Off    int64  `json:"off,omitempty"`
	Whence int    `json:"wh,omitempty"`
}

func prefixOf(name string) cid.Prefix {
	switch name {
	case "v1":
		return mdag.V1CidPrefix()
	case "blake":
		p := mdag.V1CidPrefix()
		p.MhType = mh.Names["blake2b-256"]
		p.MhLength = -1
		return p
	}
	return mdag.V0CidPrefix()
}

func sizeSplitter(n int) chunker.SplitterGen {
	return func(r io.Reader) chunker.Splitter { return chunker.NewSizeSplitter(r, int64(n)) }
}

func importFile(c *config, ds ipld.DAGService) (ipld.Node, error) {
	dbp := help.DagBuilderParams{Dagserv: ds, Maxlinks: c.Width, CidBuilder: prefixOf(c.Prefix), RawLeaves: c.Raw}
	db, err := dbp.New(sizeSplitter(c.Chunk)(bytes.NewReader(stream(c.Seed, c.Len))))
	if err != nil {
		return nil, err
	}
	if c.Layout == "balanced" {
		return balanced.Layout(db)
	}
	return trickle.Layout(db)
}

func newRand(seed int64) *rand.Rand { return rand.New(rand.NewSource(seed)) }

// ---- hand-built trees with (possibly wrong) recorded sizes ----
type hnode struct {
	data []byte
	kids []*hnode
	recs []uint64
}

func genShape(r interface{ Intn(int) int }, depth int, next *int) *hnode {
	if depth == 0 || r.Intn(3) == 0 {
		n := r.Intn(7)
		d := make([]byte, n)
		for i := range d {
			*next++
			d[i] = byte(1 + *next%250)
		}
		return &hnode{data: d}
	}
	h := &hnode{}
	for i, k := 0, 1+r.Intn(4); i < k; i++ {
		ch := genShape(r, depth-1, next)
		h.kids = append(h.kids, ch)
		real := ch.size()
		rec := real
		switch r.Intn(6) {
		case 0:
			rec = real + 1
		case 1:
			if real > 0 {
				rec = real - 1
			}
		case 2:
			rec = uint64(r.Intn(12))
		}
		h.recs = append(h.recs, rec)
	}
	return h
}

func (h *hnode) size() uint64 {
	if len(h.kids) == 0 {
		return uint64(len(h.data))
	}
	var s uint64
	for _, k := range h.kids {
		s += k.size()
	}
	return s
}

func (h *hnode) build(ctx context.Context, ds ipld.DAGService, raw bool) (ipld.Node, error) {
	if len(h.kids) == 0 {
		var nd ipld.Node
		if raw {
			nd = mdag.NewRawNode(h.data)
		} else {
			nd = mdag.NodeWithData(ft.FilePBData(h.data, uint64(len(h.data))))
		}
		return nd, ds.Add(ctx, nd)
	}
	fsn := ft.NewFSNode(ft.TFile)
	pn := mdag.NodeWithData(nil)
	for i, k := range h.kids {
		ch, err := k.build(ctx, ds, raw)
		if err != nil {
			return nil, err
		}
		if err := pn.AddNodeLink("", ch); err != nil {
			return nil, err
		}
		fsn.AddBlockSize(h.recs[i])
	}
	b, err := fsn.GetBytes()
	if err != nil {
		return nil, err
	}
	pn.SetData(b)
	return pn, ds.Add(ctx, pn)
}

// ---- the tree as the blocks say ----
type walkInfo struct {
	leaves  int
	content []byte
}

func treeCoq(ctx context.Context, nd ipld.Node, ds ipld.DAGService, srcs []src, hinted bool, w *walkInfo) (string, error) {
	leaf := func(d []byte) string {
		hint := -1
		if hinted {
			hint = len(w.content)
		}
		w.leaves++
		s := vh.App("Leaf", encode(d, srcs, hint))
		w.content = append(w.content, d...)
		return s
	}
	switch n := nd.(type) {
	case *mdag.RawNode:
		return leaf(n.RawData()), nil
	case *mdag.ProtoNode:
		fsn, err := ft.FSNodeFromBytes(n.Data())
		if err != nil {
			return "", err
		}
		if len(n.Links()) == 0 {
			return leaf(fsn.Data()), nil
		}
		if fsn.NumChildren() != len(n.Links()) {
			return "", fmt.Errorf("links=%d blocksizes=%d", len(n.Links()), fsn.NumChildren())
		}
		kids := make([]string, len(n.Links()))
		for i, l := range n.Links() {
			ch, err := l.GetNode(ctx, ds)
			if err != nil {
				return "", err
			}
			if kids[i], err = treeCoq(ctx, ch, ds, srcs, hinted, w); err != nil {
				return "", err
			}
		}
		f := "FNil"
		for i := len(kids) - 1; i >= 0; i-- {
			f = vh.App("FCons", vh.ZU(fsn.BlockSize(i)), kids[i], f)
		}
		return vh.App("Node", f), nil
	}
	return "", fmt.Errorf("unexpected node type %T", nd)
}

func errClass(err error) string {
	switch err {
	case nil:
		return "ENone"
	case io.EOF:
		return "EEOF"
	}
	return "EOther"
}

// ---- generators ----
func genImporter(e *vh.Env) *config {
	r := e.Rng
	c := &config{Kind: "importer", Seed: r.Intn(250)}
	c.Layout = []string{"balanced", "trickle"}[r.Intn(2)]
	c.Width = 2 + r.Intn(7)
	if r.Intn(8) == 0 {
		c.Width = []int{16, 174, 1024}[r.Intn(3)]
	}
	c.Prefix = []string{"v0", "v1", "blake"}[r.Intn(3)]
	c.Raw = c.Prefix != "v0" || r.Intn(2) == 0
	switch x := r.Intn(20); {
	case x == 0:
		c.Len, c.Chunk = 0, 1+r.Intn(64)
	case x < 8: // tiny chunks: deep trees
		c.Chunk = 1 + r.Intn(8)
		c.Len = r.Intn(60 * c.Chunk)
		if c.Width > 8 {
			c.Width = 2 + r.Intn(4)
		}
	case x < 17:
		c.Chunk = []int{16, 31, 32, 64, 100, 256, 512}[r.Intn(7)]
		c.Len = r.Intn(40*c.Chunk + 1)
	case x < 19 || r.Intn(4) != 0:
		c.Chunk = []int{1024, 4096}[r.Intn(2)]
		c.Len = r.Intn(10*c.Chunk + 1)
	default: // large files, few leaves (every byte costs Coq time: rare, more in the thorough tier)
		c.Chunk = []int{16384, 65536, 262144}[r.Intn(3)]
		c.Len = r.Intn(e.Pick(100000, 600000))
		if e.Thorough() && r.Intn(10) == 0 {
			c.Len = r.Intn(1200000)
		}
	}
	if r.Intn(6) == 0 && c.Chunk > 0 { // exact multiples of the chunk size
		c.Len = (c.Len / c.Chunk) * c.Chunk
	}
	return c
}

func genModifier(e *vh.Env) *config {
	r := e.Rng
	c := &config{Kind: "modifier", Seed: r.Intn(250), Layout: "trickle"}
	if r.Intn(4) == 0 {
		c.Layout = "balanced"
	}
	c.Width = 2 + r.Intn(7)
	c.Chunk = []int{4, 5, 7, 8, 16, 32, 64}[r.Intn(7)]
	c.Len = r.Intn(30*c.Chunk + 1)
	c.Prefix = []string{"v0", "v1", "blake"}[r.Intn(3)]
	c.Raw = c.Prefix != "v0" || r.Intn(2) == 0
	size := int64(c.Len)
	seed := 1000 + r.Intn(500)
	for i, k := 0, 1+r.Intn(5); i < k; i++ {
		seed += 1 + r.Intn(4)
		m := mop{Seed: seed, Len: 1 + r.Intn(3*c.Chunk)}
		switch r.Intn(4) {
		case 0, 1:
			m.Kind, m.Off = "writeat", int64(r.Intn(int(size)+33))
			size = max(size, m.Off+int64(m.Len))
		case 2:
			m.Kind, m.Off, m.Len = "truncate", int64(r.Intn(int(size)+17)), 0
			size = m.Off
		default:
			m.Kind, m.Off = "seekwrite", size+int64(r.Intn(40))
			size = m.Off + int64(m.Len)
		}
		c.Mods = append(c.Mods, m)
	}
	return c
}

// build returns the root of the DAG of a configuration and the streams its bytes come from.
func build(ctx context.Context, c *config, ds ipld.DAGService) (root ipld.Node, srcs []src, err error) {
	defer func() {
		// DagModifier can panic on the DAGs of finding C10-8 (Truncate of a grown inline-data
		// root); that is C10's business: such a DAG is simply not available to read
		if r := recover(); r != nil {
			root, err = nil, fmt.Errorf("%w: %v", errBuildPanic, r)
		}
	}()
	switch c.Kind {
	case "importer":
		nd, err := importFile(c, ds)
		return nd, []src{{c.Seed, c.Len}}, err
	case "modifier":
		nd, err := importFile(c, ds)
		if err != nil {
			return nil, nil, err
		}
		srcs := []src{{c.Seed, c.Len}}
		dm, err := mod.NewDagModifier(ctx, nd, ds, sizeSplitter(c.Chunk))
		if err != nil {
			return nil, nil, err
		}
		dm.MaxLinks = c.Width
		for _, m := range c.Mods {
			switch m.Kind {
			case "writeat":
				_, err = dm.WriteAt(stream(m.Seed, m.Len), m.Off)
				srcs = append(srcs, src{m.Seed, m.Len})
			case "truncate":
				err = dm.Truncate(m.Off)
			case "seekwrite":
				if _, err = dm.Seek(m.Off, io.SeekStart); err == nil {
					_, err = dm.Write(stream(m.Seed, m.Len))
				}
				srcs = append(srcs, src{m.Seed, m.Len})
			}
			if err != nil {
				return nil, nil, err
			}
		}
		out, err := dm.GetNode()
		return out, srcs, err
	}
	rr := newRand(c.RSeed)
	next := 0
	h := genShape(rr, 3, &next)
	if len(h.kids) == 0 { // make sure the root is an internal node
		h = &hnode{kids: []*hnode{h}, recs: []uint64{h.size() + uint64(rr.Intn(2))}}
	}
	nd, err := h.build(ctx, ds, c.Raw)
	return nd, nil, err
}

func genOps(e *vh.Env, size, chunk int) []op {
	r := e.Rng
	n := 1 + r.Intn(30)
	if size > 16384 { // long histories over big files cost Coq minutes
		n = 1 + r.Intn(10)
	}
	pos := int64(0)
	anyTarget := func() int64 {
		switch r.Intn(10) {
		case 0:
			return 0
		case 1:
			return int64(size)
		case 2:
			return int64(size) + int64(r.Intn(3))
		case 3:
			return int64(r.Intn(5)) - 4 - int64(r.Intn(2)*size) // before the start, down to -size-4
		case 4, 5: // a leaf boundary, or one byte around it
			if chunk > 0 && size > 0 {
				return int64((r.Intn(size/chunk+1))*chunk + r.Intn(3) - 1)
			}
			return 0
		case 6: // close to the current position (inside the partially consumed leaf)
			return pos + int64(r.Intn(2*chunk+1)-chunk)
		}
		return int64(r.Intn(size+3)) - 1
	}
	var ops []op
	for i := 0; i < n; i++ {
		switch x := r.Intn(100); {
		case x < 50:
			k := "read"
			if r.Intn(3) == 0 {
				k = "ctxread"
			}
			var ln int
			switch y := r.Intn(12); {
			case y == 0:
				ln = 0
			case y < 4:
				ln = 1 + r.Intn(3)
			case y < 10:
				ln = r.Intn(2*chunk + 1)
			case y == 10:
				ln = chunk
			default:
				ln = size + r.Intn(3)
			}
			ops = append(ops, op{Kind: k, N: ln})
			if rest := int64(size) - pos; rest > 0 {
				pos += min(rest, int64(ln))
			}
		case x < 92:
			wh := r.Intn(3)
			if r.Intn(30) == 0 {
				wh = []int{3, -1, 9}[r.Intn(3)]
			}
			t := anyTarget()
			o := op{Kind: "seek", Whence: wh, Off: t}
			switch wh {
			case 1:
				o.Off = t - pos
			case 2:
				o.Off = t - int64(size)
			}
			if wh >= 0 && wh <= 2 && t >= 0 {
				pos = t
			}
			ops = append(ops, o)
		default:
			ops = append(ops, op{Kind: "writeto"})
			if pos < int64(size) {
				pos = int64(size)
			}
		}
	}
	return ops
}

func (o op) coq() string {
	switch o.Kind {
	case "read", "ctxread":
		return vh.App("ORead", vh.Z(int64(o.N)))
	case "seek":
		return vh.App("OSeek", vh.Z(o.Off), vh.Z(int64(o.Whence)))
	}
	return "OWriteTo"
}

func describe(ops []op) string {
	var sb strings.Builder
	for _, o := range ops {
		switch o.Kind {
		case "read", "ctxread":
			fmt.Fprintf(&sb, "R%d ", o.N)
		case "seek":
			fmt.Fprintf(&sb, "S%d/%d ", o.Off, o.Whence)
		default:
			sb.WriteString("WT ")
		}
	}
	return sb.String()
}

// runCase builds the DAG, drives the real reader and renders the Coq case.
func runCase(e *vh.Env, c *config, ops []op) (term string, info walkInfo, size uint64, err error) {
	ctx, cancel := context.WithCancel(context.Background())
	defer cancel()
	ds := mdagmock.Mock()
	root, srcs, err := build(ctx, c, ds)
	if err != nil {
		return "", info, 0, fmt.Errorf("building the DAG: %w", err)
	}
	tree, err := treeCoq(ctx, root, ds, srcs, c.Kind == "importer", &info)
	if err != nil {
		return "", info, 0, fmt.Errorf("walking the DAG: %w", err)
	}
	dr, err := uio.NewDagReader(ctx, root, ds)
	if err != nil {
		return "", info, 0, fmt.Errorf("NewDagReader: %w", err)
	}
	size = dr.Size()
	if ops == nil {
		ops = genOps(e, len(info.content), max(c.Chunk, 1))
	}
	obs := make([]string, 0, len(ops))
	for i, o := range ops {
		// watchdog: a call that does not return ends the case with a harness-level failure
		var opErr error
		fin := make(chan struct{})
		go func() {
			defer close(fin)
			defer func() {
				if r := recover(); r != nil {
					opErr = fmt.Errorf("call %d (%s) panicked: %v", i, o.Kind, r)
				}
			}()
			opErr = doOp(ctx, dr, o, srcs, &obs)
		}()
		select {
		case <-fin:
		case <-time.After(opTimeout):
			hangs++
			return "", info, size, fmt.Errorf("call %d (%s) did not return within %s", i, o.Kind, opTimeout)
		}
		if opErr != nil {
			return "", info, size, opErr
		}
	}
	expect, kind := "None", 0
	switch c.Kind {
	case "importer":
		expect = vh.Opt(true, vh.App("ex", vh.List([]string{vh.App("SGen", vh.Z(int64(c.Seed)), "0", vh.Z(int64(c.Len)))})))
	case "modifier":
		kind = 1
	default:
		kind = 2
	}
	term = vh.App("Build_case", tree, vh.ZU(size), expect, vh.N(uint64(kind)),
		vh.ListOf(ops, func(o op) string { return o.coq() }), vh.List(obs))
	lastOps = ops // the executed calls, for the replay record
	return term, info, size, nil
}

var errBuildPanic = errors.New("building the DAG panicked")

const opTimeout = 20 * time.Second

var hangs int

// doOp performs one call on the real reader and appends what it returned.
func doOp(ctx context.Context, dr uio.DagReader, o op, srcs []src, out *[]string) error {
	obs := *out
	defer func() { *out = obs }()
	{
		switch o.Kind {
		case "read":
			b := make([]byte, o.N)
			n, err := dr.Read(b)
			obs = append(obs, vh.App("BRead", encode(b[:n], srcs, -1), errClass(err)))
		case "ctxread":
			b := make([]byte, o.N)
			n, err := dr.CtxReadFull(ctx, b)
			obs = append(obs, vh.App("BRead", encode(b[:n], srcs, -1), errClass(err)))
		case "seek":
			p, err := dr.Seek(o.Off, o.Whence)
			obs = append(obs, vh.App("BSeek", vh.Z(p), vh.Bool(err == nil)))
		case "writeto":
			var buf bytes.Buffer
			n, err := dr.WriteTo(&buf)
			obs = append(obs, vh.App("BWrite", encode(buf.Bytes(), srcs, -1), vh.Z(n), errClass(err)))
		}
	}
	return nil
}

var lastOps []op

func TestC09(t *testing.T) {
	e := vh.Load(t)
	st := vh.NewStats("call sequences of 1..30 Read/CtxReadFull (buffers 0..2x chunk, whole file), Seek (3 whences + invalid, targets in " +
		"[-size-4, size+2], leaf boundaries +-1, near the position) and WriteTo on the real DagReader over DAGs from balanced/trickle import " +
		"(width 2..8,16,174,1024; chunk 1..256Ki; raw/dag-pb leaves; CIDv0/v1/blake2b; 0..100 KB quick, ..2 MB thorough), from DagModifier " +
		"histories, and hand-built trees with wrong recorded sizes; non-trivial = at least 4 calls incl. a seek and a read on a DAG with >= 3 leaves; " +
		"distinct by (config, calls)")
	cs := vh.NewCases(e, "From V Require Import model.M_C10 model.M_C09.\nOpen Scope Z_scope.", "case", "check_case", 50)
	n := e.Pick(500, 12000)
	type job struct {
		c   *config
		ops []op
	}
	var jobs []job
	// corpus: boundary shapes with fixed call sequences
	fixed := []op{{Kind: "read", N: 3}, {Kind: "seek", Off: -1, Whence: 1}, {Kind: "read", N: 0}, {Kind: "read", N: 4},
		{Kind: "seek", Off: -2, Whence: 2}, {Kind: "writeto"}, {Kind: "read", N: 1}, {Kind: "seek", Off: -1, Whence: 0},
		{Kind: "seek", Off: 1000, Whence: 0}, {Kind: "ctxread", N: 2}, {Kind: "seek", Off: 4, Whence: 0}, {Kind: "writeto"},
		{Kind: "seek", Off: 0, Whence: 1}, {Kind: "seek", Off: 0, Whence: 2}, {Kind: "read", N: 0}, {Kind: "seek", Off: 5, Whence: 7}}
	for _, c := range []*config{
		{Kind: "importer", Seed: 1, Len: 0, Layout: "balanced", Chunk: 4, Width: 2, Prefix: "v0"},
		{Kind: "importer", Seed: 1, Len: 0, Layout: "trickle", Chunk: 4, Width: 2, Prefix: "v1", Raw: true},
		{Kind: "importer", Seed: 2, Len: 3, Layout: "balanced", Chunk: 4, Width: 2, Prefix: "v1", Raw: true},
		{Kind: "importer", Seed: 2, Len: 3, Layout: "balanced", Chunk: 4, Width: 2, Prefix: "v0"},
		{Kind: "importer", Seed: 3, Len: 9, Layout: "balanced", Chunk: 2, Width: 2, Prefix: "v0"},
		{Kind: "importer", Seed: 3, Len: 9, Layout: "trickle", Chunk: 2, Width: 2, Prefix: "v1", Raw: true},
		{Kind: "importer", Seed: 4, Len: 64, Layout: "trickle", Chunk: 1, Width: 3, Prefix: "v0", Raw: true},
		// the DagModifier keeps the inline data of a grown dag-pb leaf root (finding C09-1 / C10-8)
		{Kind: "modifier", Seed: 5, Len: 18, Layout: "balanced", Chunk: 64, Width: 4, Prefix: "v0", Mods: []mop{{Kind: "writeat", Off: 30, Seed: 1000, Len: 53}}},
		{Kind: "modifier", Seed: 6, Len: 40, Layout: "trickle", Chunk: 8, Width: 2, Prefix: "v1", Raw: true, Mods: []mop{{Kind: "truncate", Off: 16}, {Kind: "seekwrite", Off: 30, Seed: 1001, Len: 9}}},
	} {
		jobs = append(jobs, job{c, fixed})
	}
	for len(jobs) < n {
		var c *config
		switch x := e.Rng.Intn(20); {
		case x < 14:
			c = genImporter(e)
		case x < 18:
			c = genModifier(e)
		default:
			c = &config{Kind: "handbuilt", RSeed: e.Rng.Int63(), Raw: e.Rng.Intn(2) == 0}
		}
		jobs = append(jobs, job{c, nil})
	}
	for _, j := range jobs {
		if hangs >= 3 {
			break
		}
		term, info, size, err := runCase(e, j.c, j.ops)
		rp := map[string]any{"config": j.c, "ops": lastOps}
		if err != nil && j.c.Kind == "modifier" && errors.Is(err, errBuildPanic) {
			st.Count("dag:modifier panicked while making the DAG (C10-8), skipped")
			continue
		}
		if err != nil {
			st.Violate("the harness could not run the case: "+err.Error(), "", map[string]any{"config": j.c})
			continue
		}
		cs.Add(term, rp)
		hk := fnv.New64a()
		fmt.Fprintf(hk, "%v|%v", *j.c, lastOps)
		seeks, reads := 0, 0
		for _, o := range lastOps {
			switch o.Kind {
			case "seek":
				seeks++
				st.Count(fmt.Sprintf("op:seek/%d", min(max(o.Whence, -1), 3)))
			case "read", "ctxread":
				reads++
				st.Count("op:" + o.Kind)
			default:
				st.Count("op:writeto")
			}
		}
		st.Case(fmt.Sprintf("%x", hk.Sum64()), len(lastOps) >= 4 && seeks >= 1 && reads >= 1 && info.leaves >= 3)
		st.Count("dag:" + j.c.Kind)
		if j.c.Kind != "handbuilt" {
			st.Count("layout:" + j.c.Layout)
		}
		switch l := int(size); {
		case l == 0:
			st.Count("size:0")
		case l <= 512:
			st.Count("size:1-512")
		case l <= 16384:
			st.Count("size:513-16Ki")
		default:
			st.Count("size:>16Ki")
		}
		switch l := info.leaves; {
		case l <= 1:
			st.Count("leaves:1")
		case l <= 8:
			st.Count("leaves:2-8")
		case l <= 64:
			st.Count("leaves:9-64")
		default:
			st.Count("leaves:>64")
		}
		st.Sample(map[string]any{"dag": fmt.Sprintf("%s %s chunk=%d width=%d raw=%v len=%d leaves=%d", j.c.Kind, j.c.Layout, j.c.Chunk, j.c.Width, j.c.Raw, size, info.leaves), "calls": describe(lastOps)}, 6)
	}
	cs.Close()
	st.Write(e)
}
