// Correspondence harness for C18 (UnixFS metadata round-trips).
//
// Histories: a real unixfs.FSNode is built by NewFSNode or from the bytes of one
// of the static constructors, a generated sequence of setters is applied (with
// real GetBytes/FSNodeFromBytes round trips in between), and what the accessors
// answer before and after a final serialisation — plus the serialised bytes
// themselves — is written into cases_*.v.  coqc compares them with the model
// (model/M_C18.v: FSNode over the protobuf model lib/UnixFsPb.v, permission
// shuffles translated from files/util.go) and with the specification (the
// abstract metadata the history determines).
// Foreign stream: hand-assembled wire messages (any field order, duplicates,
// packed block sizes, out-of-range nanos, missing required fields, unknown
// fields, truncation) are given to FSNodeFromBytes/DataSize and compared with
// the model's decoder.
package c18

import (
	"fmt"
	"math"
	"math/rand"
	"os"
	"path/filepath"
	"strings"
	"testing"
	"time"

	ft "github.com/ipfs/boxo/ipld/unixfs"
	pb "github.com/ipfs/boxo/ipld/unixfs/pb"
	"google.golang.org/protobuf/encoding/protowire"

	"verif/harness/vh"
)

const zeroSec = -62135596800

// gtime is the model's view of a time.Time.
type gtime struct{ sec, nsec int64 }

func viewTime(t time.Time) gtime { return gtime{t.Unix(), int64(t.Nanosecond())} }
func (g gtime) coq() string     { return vh.Pair(vh.Z(g.sec), vh.Z(g.nsec)) }

func optBytes(b []byte) string { return vh.Opt(b != nil, vh.Bytes(b)) }

// ---------- view ----------
func viewCoq(n *ft.FSNode) string {
	mt := n.ModTime()
	d := n.Data()
	// positional constructor: record syntax elaborates several times slower in coqc
	return fmt.Sprintf("(Build_view %s %s %s %s %s %s %s %s)",
		vh.Z(int64(n.Type())), vh.ZU(uint64(uint32(n.Mode()))), vh.ZU(uint64(n.ExtendedMode())),
		viewTime(mt).coq(), vh.Bool(mt.IsZero()), vh.ZU(n.FileSize()),
		vh.Opt(d != nil, vh.Z(int64(len(d)))), vh.ListOf(n.BlockSizes(), vh.ZU))
}

func dsizeCoq(b []byte) string {
	if b == nil {
		return "(0, false)"
	}
	s, err := ft.DataSize(b)
	if err != nil {
		return "(0, false)"
	}
	return vh.Pair(vh.ZU(s), "true")
}

// ---------- generators ----------
var u64Edges = []uint64{0, 1, 127, 128, 16383, 16384, 2097151, 2097152, 268435455, 268435456,
	1<<35 - 1, 1 << 35, 1<<42 - 1, 1 << 42, 1<<49 - 1, 1 << 49, 1<<56 - 1, 1 << 56,
	1<<63 - 1, 1 << 63, math.MaxUint64 - 1, math.MaxUint64, 1<<32 - 1, 1 << 32, 262144, 1 << 20}

func genU64(r *rand.Rand) uint64 {
	switch r.Intn(3) {
	case 0:
		return u64Edges[r.Intn(len(u64Edges))]
	case 1:
		return r.Uint64() >> uint(r.Intn(64))
	}
	return uint64(r.Intn(1 << 20))
}

var secEdges = []int64{0, 1, -1, zeroSec, zeroSec + 1, zeroSec - 1, 253402300799, 253402300800,
	math.MinInt64, math.MaxInt64, math.MinInt64 + 1, math.MaxInt64 - 1, 1<<31 - 1, 1 << 31, -(1 << 31), 1 << 32,
	127, 128, -128, 1700000000, -1700000000, 1<<62 + 12345, -(1 << 62), 1 << 56, -(1 << 56)}
var nsecEdges = []int64{0, 0, 1, 999999999, 999999998, 500000000, 1000, 2}

func genTime(r *rand.Rand) time.Time {
	if r.Intn(10) == 0 {
		return time.Time{}
	}
	var sec int64
	switch r.Intn(3) {
	case 0:
		sec = secEdges[r.Intn(len(secEdges))]
	case 1:
		sec = int64(r.Uint64()) >> uint(r.Intn(64))
	default:
		sec = int64(r.Intn(4e9)) - 2e9
	}
	var nsec int64
	if r.Intn(2) == 0 {
		nsec = nsecEdges[r.Intn(len(nsecEdges))]
	} else {
		nsec = int64(r.Intn(1e9))
	}
	t := time.Unix(sec, nsec)
	switch r.Intn(3) {
	case 0:
		t = t.UTC()
	case 1:
		t = t.In(time.FixedZone("x", (r.Intn(27)-13)*3600+r.Intn(2)*1800))
	}
	return t
}

// spread maps a 12-bit unix permission word to FileMode permission bits.
func spread(p uint32) os.FileMode {
	m := os.FileMode(p & 0o777)
	if p&0o4000 != 0 {
		m |= os.ModeSetuid
	}
	if p&0o2000 != 0 {
		m |= os.ModeSetgid
	}
	if p&0o1000 != 0 {
		m |= os.ModeSticky
	}
	return m
}

var typeBits = []os.FileMode{0, 0, os.ModeDir, os.ModeSymlink, os.ModeDir | os.ModeAppend, os.ModeNamedPipe | os.ModeDevice,
	os.ModeIrregular | os.ModeTemporary, 0xFFFFFFFF &^ 0xD001FF}

func genMode(r *rand.Rand) os.FileMode {
	switch r.Intn(6) {
	case 0:
		return os.FileMode(r.Uint32())
	case 1:
		return []os.FileMode{0, 0o644, 0o755, 0o777, os.ModeDir, os.ModeSticky, os.ModeSetuid, os.ModeSetgid,
			os.ModeDir | 0o755, os.ModeSymlink | 0o777, 0xFFFFFFFF, 1 << 9, 1 << 10, 1 << 11, 1 << 21}[r.Intn(15)]
	}
	return spread(uint32(r.Intn(4096))) | typeBits[r.Intn(len(typeBits))]
}

func genUnix(r *rand.Rand) uint32 {
	switch r.Intn(5) {
	case 0:
		return r.Uint32()
	case 1:
		return []uint32{0, 0x1000, 0xFFFFF000, 0xFFF, 0x200, 0x400, 0x800, 0xFFFFFFFF}[r.Intn(8)]
	}
	return uint32(r.Intn(4096))
}

func genExt(r *rand.Rand) uint32 {
	switch r.Intn(4) {
	case 0:
		return r.Uint32()
	case 1:
		return uint32(r.Intn(1 << 20))
	}
	return []uint32{0, 1, 0xFFFFF, 0x100000, 0xFFFFFFFF, 0x80000, 0x8}[r.Intn(7)]
}

func genData(r *rand.Rand) []byte {
	switch r.Intn(5) {
	case 0:
		return nil
	case 1:
		return []byte{}
	}
	n := r.Intn(12)
	if r.Intn(10) == 0 {
		n = 126 + r.Intn(5) // around the one/two byte length varint boundary
	}
	b := make([]byte, n)
	r.Read(b)
	return b
}

// ---------- one history ----------
type hist struct {
	init string   // Coq term of type init
	ops  []string // Coq terms of type op
	n    *ft.FSNode
	set  bool // some metadata or content setter was applied
	ok   bool
}

func fromBytes(b []byte, err error) *ft.FSNode {
	if err != nil {
		panic(err)
	}
	n, err := ft.FSNodeFromBytes(b)
	if err != nil {
		panic(err)
	}
	return n
}

func genInit(r *rand.Rand, forceType int) *hist {
	h := &hist{ok: true}
	k := r.Intn(14)
	if forceType >= 0 {
		k = 0
	}
	switch {
	case k < 6:
		t := forceType
		if t < 0 {
			t = r.Intn(6)
		}
		h.init = vh.App("INew", vh.Z(int64(t)))
		h.n = ft.NewFSNode(pb.Data_DataType(t))
	case k == 6:
		d, tot := genData(r), genU64(r)
		if r.Intn(2) == 0 {
			tot = uint64(len(d))
		}
		h.init = vh.App("IFile", optBytes(d), vh.ZU(tot))
		h.n = fromBytes(ft.FilePBData(d, tot), nil)
	case k == 7 || k == 8:
		d, m, t := genData(r), genMode(r), genTime(r)
		tot := uint64(len(d))
		if r.Intn(4) == 0 {
			tot = genU64(r)
		}
		h.init = vh.App("IFileStat", optBytes(d), vh.ZU(tot), vh.ZU(uint64(uint32(m))), viewTime(t).coq())
		h.n = fromBytes(ft.FilePBDataWithStat(d, tot, m, t), nil)
		h.set = true
	case k == 9:
		h.init = "IFolder"
		h.n = fromBytes(ft.FolderPBData(), nil)
	case k == 10:
		m, t := genMode(r), genTime(r)
		h.init = vh.App("IFolderStat", vh.ZU(uint64(uint32(m))), viewTime(t).coq())
		h.n = fromBytes(ft.FolderPBDataWithStat(m, t), nil)
		h.set = true
	case k == 11:
		d := genData(r)
		h.init = vh.App("IWrap", optBytes(d))
		h.n = fromBytes(ft.WrapData(d), nil)
	case k == 12:
		d := genData(r)
		if d == nil {
			d = []byte{}
		}
		h.init = vh.App("ISymlink", vh.Bytes(d))
		h.n = fromBytes(ft.SymlinkData(string(d)))
	default:
		d, fo, ht, m, t := genData(r), genU64(r), genU64(r), genMode(r), genTime(r)
		h.init = vh.App("IHamt", optBytes(d), vh.ZU(fo), vh.ZU(ht), vh.ZU(uint64(uint32(m))), viewTime(t).coq())
		h.n = fromBytes(ft.HAMTShardDataWithStat(d, fo, ht, m, t))
		h.set = true
	}
	return h
}

func (h *hist) roundTrip() bool {
	b, err := h.n.GetBytes()
	if err != nil {
		return false
	}
	n, err := ft.FSNodeFromBytes(b)
	if err != nil {
		return false
	}
	h.n = n
	h.ops = append(h.ops, "ORoundTrip")
	return true
}

func (h *hist) applyRandom(r *rand.Rand, st *vh.Stats) {
	k := r.Intn(20)
	switch {
	case k < 3:
		m := genMode(r)
		h.n.SetMode(m)
		h.ops = append(h.ops, vh.App("OSetMode", vh.ZU(uint64(uint32(m)))))
		h.set = true
		st.Count("op:SetMode")
	case k < 5:
		u := genUnix(r)
		h.n.SetModeFromUnixPermissions(u)
		h.ops = append(h.ops, vh.App("OSetModeUnix", vh.ZU(uint64(u))))
		h.set = true
		st.Count("op:SetModeFromUnixPermissions")
	case k < 7:
		x := genExt(r)
		h.n.SetExtendedMode(x)
		h.ops = append(h.ops, vh.App("OSetExtMode", vh.ZU(uint64(x))))
		h.set = true
		st.Count("op:SetExtendedMode")
	case k < 11:
		t := genTime(r)
		h.n.SetModTime(t)
		h.ops = append(h.ops, vh.App("OSetModTime", viewTime(t).coq()))
		h.set = true
		st.Count("op:SetModTime")
	case k < 13:
		d := genData(r)
		h.n.SetData(d)
		h.ops = append(h.ops, vh.App("OSetData", optBytes(d)))
		h.set = true
		st.Count("op:SetData")
	case k < 15:
		s := genU64(r)
		h.n.AddBlockSize(s)
		h.ops = append(h.ops, vh.App("OAddBlock", vh.ZU(s)))
		h.set = true
		st.Count("op:AddBlockSize")
	case k == 15:
		if c := h.n.NumChildren(); c > 0 {
			i := r.Intn(c)
			h.n.RemoveBlockSize(i)
			h.ops = append(h.ops, vh.App("ORemoveBlock", vh.Nat(i)))
			st.Count("op:RemoveBlockSize")
		}
	case k == 16:
		h.n.RemoveAllBlockSizes()
		h.ops = append(h.ops, "ORemoveAll")
		st.Count("op:RemoveAllBlockSizes")
	case k == 17:
		if r.Intn(3) == 0 {
			d := int64(r.Intn(2001) - 1000)
			h.n.UpdateFilesize(d)
			h.ops = append(h.ops, vh.App("OUpdateFilesize", vh.Z(d)))
			st.Count("op:UpdateFilesize")
		}
	default:
		if h.roundTrip() {
			st.Count("op:roundtrip")
		}
	}
}

type replay struct {
	Kind string   `json:"kind"`
	Init string   `json:"init,omitempty"`
	Ops  []string `json:"ops,omitempty"`
	Hex  string   `json:"bytes_hex,omitempty"`
}

func (h *hist) emit(cs *vh.Cases, st *vh.Stats) {
	pre := viewCoq(h.n)
	b, err := h.n.GetBytes()
	bytesC, postC := "None", "None"
	var bb []byte
	if err == nil {
		bb = b
		if bb == nil {
			bb = []byte{}
		}
		bytesC = vh.App("Some", vh.Bytes(bb))
		if n2, err2 := ft.FSNodeFromBytes(bb); err2 == nil {
			postC = vh.App("Some", viewCoq(n2))
			// Go-side oracle: the instant survives, judged by time.Time.Equal
			if !n2.ModTime().Equal(h.n.ModTime()) {
				st.Violate("ModTime after serialisation is a different instant", "", replay{Kind: "hist", Init: h.init, Ops: h.ops})
			}
		}
	}
	term := vh.App("CHist", h.init, vh.List(h.ops), pre, bytesC, postC, dsizeCoq(bb))
	cs.Add(term, replay{Kind: "hist", Init: h.init, Ops: h.ops})
	st.Case(h.init+"|"+strings.Join(h.ops, ";"), h.set && err == nil)
	st.Sample(replay{Kind: "hist", Init: h.init, Ops: h.ops}, 6)
}

// ---------- foreign wire messages ----------
func genForeign(r *rand.Rand, st *vh.Stats) []byte {
	var b []byte
	nf := r.Intn(8)
	hasType := r.Intn(8) != 0
	if hasType && r.Intn(3) > 0 {
		b = protowire.AppendTag(b, 1, protowire.VarintType)
		b = protowire.AppendVarint(b, uint64(r.Intn(6)))
		hasType = false
	}
	ts := func() []byte {
		var t []byte
		for i, n := 0, r.Intn(4); i < n; i++ {
			switch r.Intn(6) {
			case 0, 1, 2:
				t = protowire.AppendTag(t, 1, protowire.VarintType)
				t = protowire.AppendVarint(t, uint64(viewTime(genTime(r)).sec))
			case 3, 4:
				t = protowire.AppendTag(t, 2, protowire.Fixed32Type)
				t = protowire.AppendFixed32(t, []uint32{0, 1, 999999999, 1000000000, 0xFFFFFFFF, uint32(r.Intn(1e9))}[r.Intn(6)])
			default:
				t = protowire.AppendTag(t, protowire.Number(3+r.Intn(3)), protowire.VarintType)
				t = protowire.AppendVarint(t, genU64(r))
			}
		}
		return t
	}
	for i := 0; i < nf; i++ {
		switch r.Intn(14) {
		case 0:
			b = protowire.AppendTag(b, 1, protowire.VarintType)
			b = protowire.AppendVarint(b, uint64(r.Intn(6)))
			hasType = false
		case 1:
			b = protowire.AppendTag(b, 2, protowire.BytesType)
			b = protowire.AppendBytes(b, genData(r))
		case 2:
			b = protowire.AppendTag(b, 3, protowire.VarintType)
			b = protowire.AppendVarint(b, genU64(r))
		case 3:
			b = protowire.AppendTag(b, 4, protowire.VarintType)
			b = protowire.AppendVarint(b, genU64(r))
		case 4: // packed blocksizes
			var p []byte
			for j, n := 0, r.Intn(4); j < n; j++ {
				p = protowire.AppendVarint(p, genU64(r))
			}
			if r.Intn(8) == 0 {
				p = append(p, 0x80) // truncated varint inside the packed field
			}
			b = protowire.AppendTag(b, 4, protowire.BytesType)
			b = protowire.AppendBytes(b, p)
		case 5:
			b = protowire.AppendTag(b, protowire.Number(5+r.Intn(2)), protowire.VarintType)
			b = protowire.AppendVarint(b, genU64(r))
		case 6, 7:
			b = protowire.AppendTag(b, 7, protowire.VarintType)
			v := uint64(genUnix(r))
			if r.Intn(4) == 0 {
				v |= uint64(r.Uint32()) << 32 // beyond uint32: truncated by the decoder
			}
			b = protowire.AppendVarint(b, v)
		case 8, 9, 10:
			b = protowire.AppendTag(b, 8, protowire.BytesType)
			b = protowire.AppendBytes(b, ts())
		case 11: // unknown field numbers
			switch r.Intn(3) {
			case 0:
				b = protowire.AppendTag(b, protowire.Number(9+r.Intn(40)), protowire.VarintType)
				b = protowire.AppendVarint(b, genU64(r))
			case 1:
				b = protowire.AppendTag(b, protowire.Number(9+r.Intn(4000)), protowire.BytesType)
				b = protowire.AppendBytes(b, genData(r))
			default:
				b = protowire.AppendTag(b, 100, protowire.Fixed64Type)
				b = protowire.AppendFixed64(b, r.Uint64())
			}
		case 12: // known number, foreign wire type: skipped as unknown
			switch r.Intn(4) {
			case 0:
				b = protowire.AppendTag(b, 7, protowire.Fixed32Type)
				b = protowire.AppendFixed32(b, r.Uint32())
			case 1:
				b = protowire.AppendTag(b, 2, protowire.VarintType)
				b = protowire.AppendVarint(b, genU64(r))
			case 2:
				b = protowire.AppendTag(b, 8, protowire.VarintType)
				b = protowire.AppendVarint(b, genU64(r))
			default:
				b = protowire.AppendTag(b, 3, protowire.Fixed64Type)
				b = protowire.AppendFixed64(b, r.Uint64())
			}
		default: // non-minimal varint for the mode
			b = protowire.AppendTag(b, 7, protowire.VarintType)
			b = append(b, 0xa4, 0x83, 0x80, 0x00)
		}
	}
	if hasType {
		b = protowire.AppendTag(b, 1, protowire.VarintType)
		b = protowire.AppendVarint(b, uint64(r.Intn(6)))
	}
	if len(b) > 0 && r.Intn(12) == 0 {
		b = b[:r.Intn(len(b))]
		st.Count("foreign:truncated")
	}
	return b
}

func emitForeign(cs *vh.Cases, st *vh.Stats, b []byte) {
	postC := "None"
	n, err := ft.FSNodeFromBytes(b)
	if err == nil {
		postC = vh.App("Some", viewCoq(n))
		st.Count("foreign:accepted")
	} else {
		st.Count("foreign:rejected")
	}
	cs.Add(vh.App("CDecode", vh.Bytes(b), postC, dsizeCoq(append([]byte{}, b...))), replay{Kind: "decode", Hex: fmt.Sprintf("%x", b)})
	st.Case(fmt.Sprintf("decode|%x", b), err == nil && len(b) > 2)
}

func TestC18(t *testing.T) {
	env := vh.Load(t)
	r := env.Rng
	// The driver's search-after-a-break runs the thorough tier into out/C18/searchN
	// under a short time box: use a medium volume there (full permission sweep once,
	// a few thousand histories) so that the evaluation of the cases stays bounded.
	search := strings.HasPrefix(filepath.Base(env.Out), "search")
	st := vh.NewStats("a history is non-trivial when at least one metadata/content setter (or a WithStat constructor) was applied and the final GetBytes succeeded; a foreign message when it has more than 2 bytes and FSNodeFromBytes accepted it; distinct = distinct (constructor, op list) or distinct byte string")
	cs := vh.NewCases(env, "From V Require Import lib.UnixFsPb model.M_C18.\nOpen Scope Z_scope.\n", "case", "check_case", 250)

	// ---- corpus: hand-written cases first ----
	corpus := []func() *hist{
		func() *hist { // the typical case
			h := genInit(r, 2)
			h.n.SetMode(0o644)
			h.ops = append(h.ops, "(OSetMode 420)")
			tm := time.Unix(1700000000, 123456789)
			h.n.SetModTime(tm)
			h.ops = append(h.ops, vh.App("OSetModTime", viewTime(tm).coq()))
			h.set = true
			return h
		},
		func() *hist { // negative seconds with nanoseconds, directory, all special bits
			h := genInit(r, 1)
			m := os.ModeDir | os.ModeSetuid | os.ModeSetgid | os.ModeSticky | 0o777
			h.n.SetMode(m)
			h.ops = append(h.ops, vh.App("OSetMode", vh.ZU(uint64(uint32(m)))))
			tm := time.Unix(-1, 999999999)
			h.n.SetModTime(tm)
			h.ops = append(h.ops, vh.App("OSetModTime", viewTime(tm).coq()))
			h.set = true
			return h
		},
		func() *hist { // extended bits survive SetMode(0) and keep the field alive
			h := genInit(r, 2)
			h.n.SetExtendedMode(0xFFFFF)
			h.ops = append(h.ops, "(OSetExtMode 1048575)")
			h.n.SetMode(0)
			h.ops = append(h.ops, "(OSetMode 0)")
			h.set = true
			return h
		},
		func() *hist { // zero time = unset, after a time had been set
			h := genInit(r, 4)
			tm := time.Unix(5, 0)
			h.n.SetModTime(tm)
			h.ops = append(h.ops, vh.App("OSetModTime", viewTime(tm).coq()))
			h.n.SetModTime(time.Time{})
			h.ops = append(h.ops, vh.App("OSetModTime", viewTime(time.Time{}).coq()))
			h.n.SetData([]byte("target"))
			h.ops = append(h.ops, vh.App("OSetData", optBytes([]byte("target"))))
			h.set = true
			return h
		},
		func() *hist { // one nanosecond after the zero instant is a real time
			h := genInit(r, 0)
			tm := time.Unix(zeroSec, 1)
			h.n.SetModTime(tm)
			h.ops = append(h.ops, vh.App("OSetModTime", viewTime(tm).coq()))
			h.set = true
			return h
		},
		func() *hist { // year 9999, extreme seconds
			h := genInit(r, 2)
			for _, tm := range []time.Time{time.Date(9999, 12, 31, 23, 59, 59, 999999999, time.UTC), time.Unix(math.MinInt64, 1)} {
				h.n.SetModTime(tm)
				h.ops = append(h.ops, vh.App("OSetModTime", viewTime(tm).coq()))
				h.roundTrip()
			}
			h.set = true
			return h
		},
		func() *hist { // file sizes with blocks
			h := genInit(r, 2)
			h.n.SetData([]byte("abc"))
			h.ops = append(h.ops, vh.App("OSetData", optBytes([]byte("abc"))))
			for _, s := range []uint64{262144, 127, 1 << 40} {
				h.n.AddBlockSize(s)
				h.ops = append(h.ops, vh.App("OAddBlock", vh.ZU(s)))
			}
			h.n.RemoveBlockSize(1)
			h.ops = append(h.ops, "(ORemoveBlock 1%nat)")
			h.set = true
			return h
		},
	}
	for _, f := range corpus {
		h := f()
		h.emit(cs, st)
		st.Count("kind:corpus")
	}

	// ---- permission words via both setters: thorough = every 12-bit value three
	// times (each type / extended-bit pattern / setter); quick = every 4th word
	// (offset chosen by the seed) plus all words with at most two bits set.  The
	// translated shuffles themselves are swept exhaustively inside Coq on every run.
	exts := []uint32{0, 1, 0xFFFFF}
	rounds := env.Pick(1, 3)
	if search {
		rounds = 1
	}
	off := int(uint64(env.Seed) % 4)
	fewBits := func(p int) bool { return p&(p-1) == 0 || (p&(p-1))&((p&(p-1))-1) == 0 }
	for round := 0; round < rounds; round++ {
		for p := 0; p < 4096; p++ {
			if !env.Thorough() && p%4 != off && !fewBits(p) {
				continue
			}
			ty := []int{2, 1, 4, 0, 5, 3}[(p+round)%6]
			h := genInit(r, ty)
			x := exts[(p+round)%3]
			if x != 0 {
				h.n.SetExtendedMode(x)
				h.ops = append(h.ops, vh.App("OSetExtMode", vh.ZU(uint64(x))))
			}
			if (p+round)%2 == 0 {
				m := spread(uint32(p)) | typeBits[(p/2)%len(typeBits)]
				h.n.SetMode(m)
				h.ops = append(h.ops, vh.App("OSetMode", vh.ZU(uint64(uint32(m)))))
			} else {
				u := uint32(p)
				if p%8 == 1 {
					u |= r.Uint32() << 12 // bits above the permission word are ignored
				}
				h.n.SetModeFromUnixPermissions(u)
				h.ops = append(h.ops, vh.App("OSetModeUnix", vh.ZU(uint64(u))))
			}
			h.set = true
			h.emit(cs, st)
			st.Count("kind:perm-sweep")
		}
	}

	// ---- mtime sweep: sign classes x nanosecond classes ----
	for _, sec := range secEdges {
		for _, nsec := range []int64{0, 1, 999999999, 123456789} {
			h := genInit(r, r.Intn(6))
			tm := time.Unix(sec, nsec)
			if r.Intn(2) == 0 {
				tm = tm.UTC()
			}
			h.n.SetModTime(tm)
			h.ops = append(h.ops, vh.App("OSetModTime", viewTime(tm).coq()))
			h.set = true
			h.emit(cs, st)
			st.Count("kind:mtime-sweep")
		}
	}

	// ---- random histories ----
	nh := env.Pick(900, 12000)
	if search {
		nh = 3000
	}
	for i := 0; i < nh; i++ {
		h := genInit(r, -1)
		for j, n := 0, r.Intn(9); j < n; j++ {
			h.applyRandom(r, st)
		}
		h.emit(cs, st)
		st.Count("kind:history")
		st.Count(fmt.Sprintf("len:%d", min(len(h.ops), 8)))
	}

	// ---- foreign messages ----
	foreignCorpus := [][]byte{
		{},                       // no Type: rejected
		{8, 2},                   // minimal file
		{8, 1, 66, 2, 21, 0},     // truncated nanos
		{8, 1, 66, 5, 21, 5, 0, 0, 0}, // mtime without seconds: rejected
		{8, 1, 66, 2, 8, 7, 66, 5, 21, 0, 0, 0, 0}, // merged mtime, nanos present but 0: unset
		{8, 2, 56, 255, 255, 255, 255, 31},          // mode with every bit set
	}
	for _, b := range foreignCorpus {
		emitForeign(cs, st, b)
	}
	nf := env.Pick(400, 5000)
	if search {
		nf = 1500
	}
	for i := 0; i < nf; i++ {
		emitForeign(cs, st, genForeign(r, st))
		st.Count("kind:foreign")
	}

	cs.Close()
	st.Write(env)
}
