package c29

import (
	"encoding/json"
	"fmt"
	"os"
	"testing"

	"verif/harness/vh"
)

// TestC29Replay re-runs one recorded case (C29_REPLAY = a JSON file holding the
// "replay" object of a violation report, i.e. {"cfg":…, "ops":[…]}) against the
// real name system and prints what it answers.  Not part of ./check.
func TestC29Replay(t *testing.T) {
	f := os.Getenv("C29_REPLAY")
	if f == "" {
		t.Skip("C29_REPLAY not set")
	}
	raw, err := os.ReadFile(f)
	if err != nil {
		t.Fatal(err)
	}
	var rp struct {
		Replay *struct {
			Cfg config `json:"cfg"`
			Ops []op   `json:"ops"`
		} `json:"replay"`
		Cfg config `json:"cfg"`
		Ops []op   `json:"ops"`
	}
	if err := json.Unmarshal(raw, &rp); err != nil {
		t.Fatal(err)
	}
	if rp.Replay != nil {
		rp.Cfg, rp.Ops = rp.Replay.Cfg, rp.Replay.Ops
	}
	e := vh.Load(t)
	w := newWorld(t, e)
	done, obs := runCase(t, w, rp.Cfg, rp.Ops)
	for i, s := range describe(w, done) {
		fmt.Printf("%-2d %s\n   => %s\n", i, s, obs[i])
	}
}
