// Correspondence harness for C29 (namesys): histories of Publish / Resolve /
// sleep / restart are run against a real name system (namesys.NewNameSystem over
// the in-memory offline router, a fake DNSLink TXT lookup, WithCache /
// WithMaxCacheTTL configurations); after every Publish the record stored in
// routing and in the publisher's datastore is read back.  Everything observed is
// written into cases_*.v and compared inside Coq with the model (model/M_C29.v)
// and with the specification of the property.
package c29

import (
	"context"
	"errors"
	"fmt"
	"net"
	"runtime"
	"sort"
	"strings"
	"sync"
	"testing"
	"time"

	"github.com/ipfs/boxo/ipns"
	"github.com/ipfs/boxo/namesys"
	"github.com/ipfs/boxo/path"
	offroute "github.com/ipfs/boxo/routing/offline"
	"github.com/ipfs/go-cid"
	ds "github.com/ipfs/go-datastore"
	dssync "github.com/ipfs/go-datastore/sync"
	"github.com/libp2p/go-libp2p-kad-dht/records"
	record "github.com/libp2p/go-libp2p-record"
	ci "github.com/libp2p/go-libp2p/core/crypto"
	"github.com/libp2p/go-libp2p/core/peer"
	mh "github.com/multiformats/go-multihash"

	"verif/harness/vh"
)

// ---------- the model's vocabulary (mirrors M_C29.v) ----------

type root struct {
	Kind string `json:"kind"` // imm name dns bad
	LD   bool   `json:"ld,omitempty"`
	ID   int    `json:"id"`
	Enc  int    `json:"enc,omitempty"` // 0 EB36, 1 EB58, 2 EB32
}
type mpath struct {
	Root  root  `json:"root"`
	Segs  []int `json:"segs"`
	Slash bool  `json:"slash,omitempty"`
}

var encNames = []string{"EB36", "EB58", "EB32"}

func (r root) coq() string {
	switch r.Kind {
	case "imm":
		return fmt.Sprintf("(RImm %s %d%%N)", vh.Bool(r.LD), r.ID)
	case "name":
		return fmt.Sprintf("(RName %d%%N %s)", r.ID, encNames[r.Enc])
	case "dns":
		return fmt.Sprintf("(RDns %d%%N)", r.ID)
	}
	return fmt.Sprintf("(RBad %d%%N)", r.ID)
}
func (p mpath) coq() string {
	return fmt.Sprintf("(mkPath %s %s %s)", p.Root.coq(), vh.ListOf(p.Segs, func(i int) string { return fmt.Sprintf("%d%%N", i) }), vh.Bool(p.Slash))
}
func (p mpath) mutable() bool { return p.Root.Kind != "imm" }

type dnsEntry struct {
	D   int   `json:"d"`
	V   mpath `json:"v"`
	TTL int64 `json:"ttl"`
}
type config struct {
	Size int        `json:"size"`
	Max  *int64     `json:"max"`
	DNS  []dnsEntry `json:"dns"`
}

func (c config) coq() string {
	mx := "None"
	if c.Max != nil {
		mx = "(Some " + vh.Z(*c.Max) + ")"
	}
	return fmt.Sprintf("(mkCfg %d %s %s)", c.Size, mx, vh.ListOf(c.DNS, func(e dnsEntry) string {
		return fmt.Sprintf("(%d%%N, (%s, %s))", e.D, e.V.coq(), vh.Z(e.TTL))
	}))
}

type op struct {
	Kind  string  `json:"kind"` // publish resolve sleep restart
	K     int     `json:"k,omitempty"`
	V     *mpath  `json:"v,omitempty"`
	TTL   int64   `json:"ttl,omitempty"`
	EOL   int64   `json:"eol,omitempty"` // hours after the base EOL
	Seq   *uint64 `json:"seq,omitempty"`
	P     *mpath  `json:"p,omitempty"`
	Depth uint    `json:"depth,omitempty"`
	D     int64   `json:"d,omitempty"`
	// overlap: publish (K, V, TTL, EOL, Seq) is parked inside its datastore Put while
	// publish (K, V2, TTL2, EOL2, Seq2) is started
	V2   *mpath  `json:"v2,omitempty"`
	TTL2 int64   `json:"ttl2,omitempty"`
	EOL2 int64   `json:"eol2,omitempty"`
	Seq2 *uint64 `json:"seq2,omitempty"`
}

const hour = int64(time.Hour)

func (o op) coq() string {
	switch o.Kind {
	case "publish":
		sq := "None"
		if o.Seq != nil {
			sq = "(Some " + vh.ZU(*o.Seq) + ")"
		}
		return fmt.Sprintf("(OPublish %d%%N %s %s %s %s)", o.K, o.V.coq(), vh.Z(o.TTL), vh.Z(o.EOL*hour), sq)
	case "resolve":
		return fmt.Sprintf("(OResolve %s %d)", o.P.coq(), o.Depth)
	case "sleep":
		return fmt.Sprintf("(OSleep %s)", vh.Z(o.D))
	case "overlap":
		sq := func(x *uint64) string {
			if x == nil {
				return "None"
			}
			return "(Some " + vh.ZU(*x) + ")"
		}
		return fmt.Sprintf("(OOverlap %d%%N %s %s %s %s %s %s %s %s)", o.K, o.V.coq(), vh.Z(o.TTL), vh.Z(o.EOL*hour), sq(o.Seq),
			o.V2.coq(), vh.Z(o.TTL2), vh.Z(o.EOL2*hour), sq(o.Seq2))
	}
	return "ORestart"
}

// ---------- concrete tables ----------

const (
	nKeys = 5
	nCids = 6
	nDns  = 4
	nBad  = 2
	nSegs = 6
)

type world struct {
	keys     []ci.PrivKey
	names    []ipns.Name
	nameStr  [][3]string // per key: base36 CID, base58 peer id, base32 CID
	cids     []string
	domains  []string
	bads     []string
	segs     []string
	revName  map[string][2]int
	revCid   map[string]int
	revDns   map[string]int
	revBad   map[string]int
	revSeg   map[string]int
	parseErr int
}

func newWorld(t *testing.T, e *vh.Env) *world {
	w := &world{revName: map[string][2]int{}, revCid: map[string]int{}, revDns: map[string]int{}, revBad: map[string]int{}, revSeg: map[string]int{}}
	for i := 0; i < nKeys; i++ {
		var priv ci.PrivKey
		var err error
		switch i {
		case 3:
			priv, _, err = ci.GenerateKeyPair(ci.RSA, 2048) // peer id = sha256 multihash; public key is published under /pk/
		case 4:
			priv, _, err = ci.GenerateKeyPair(ci.Secp256k1, 0)
		default:
			priv, _, err = ci.GenerateKeyPair(ci.Ed25519, 0)
		}
		if err != nil {
			t.Fatal(err)
		}
		pid, err := peer.IDFromPrivateKey(priv)
		if err != nil {
			t.Fatal(err)
		}
		n := ipns.NameFromPeer(pid)
		b32, err := n.Cid().StringOfBase('b')
		if err != nil {
			t.Fatal(err)
		}
		forms := [3]string{n.String(), pid.String(), b32}
		w.keys = append(w.keys, priv)
		w.names = append(w.names, n)
		w.nameStr = append(w.nameStr, forms)
		for j, f := range forms {
			if _, dup := w.revName[f]; dup {
				t.Fatalf("name forms collide: %s", f)
			}
			w.revName[f] = [2]int{i, j}
		}
	}
	for i := 0; i < nCids; i++ {
		h, err := mh.Sum([]byte(fmt.Sprintf("c29-cid-%d", i)), mh.SHA2_256, -1)
		if err != nil {
			t.Fatal(err)
		}
		var s string
		switch i % 3 {
		case 0:
			s = cid.NewCidV1(cid.Raw, h).String() // bafkrei...
		case 1:
			s = cid.NewCidV0(h).String() // Qm...
		default:
			s, _ = cid.NewCidV1(cid.DagProtobuf, h).StringOfBase('k') // base36
		}
		w.cids = append(w.cids, s)
		w.revCid[s] = i
	}
	for i := 0; i < nDns; i++ {
		d := fmt.Sprintf("d%d.example.com", i)
		if i == 1 {
			d = "sub.d1-example.org"
		}
		w.domains = append(w.domains, d)
		w.revDns[d] = i
	}
	for i := 0; i < nBad; i++ {
		b := strings.Repeat("x", 70) + fmt.Sprint(i) // one label > 63 bytes: not a domain name, not a name
		w.bads = append(w.bads, b)
		w.revBad[b] = i
	}
	w.segs = []string{"a", "b", "c.txt", "dir", "ü", "x y"}
	for i, s := range w.segs {
		w.revSeg[s] = i
	}
	return w
}

func (w *world) rootStr(r root) string {
	switch r.Kind {
	case "imm":
		if r.LD {
			return "/ipld/" + w.cids[r.ID]
		}
		return "/ipfs/" + w.cids[r.ID]
	case "name":
		return "/ipns/" + w.nameStr[r.ID][r.Enc]
	case "dns":
		return "/ipns/" + w.domains[r.ID]
	}
	return "/ipns/" + w.bads[r.ID]
}

func (w *world) str(p mpath) string {
	s := w.rootStr(p.Root)
	for _, g := range p.Segs {
		s += "/" + w.segs[g]
	}
	if p.Slash {
		s += "/"
	}
	return s
}

func (w *world) real(t *testing.T, p mpath) path.Path {
	rp, err := path.NewPath(w.str(p))
	if err != nil {
		t.Fatalf("harness path %q: %v", w.str(p), err)
	}
	return rp
}

// parse maps a path string answered by the implementation back to the model's vocabulary.
func (w *world) parse(s string) mpath {
	bad := mpath{Root: root{Kind: "bad", ID: 999999}}
	if !strings.HasPrefix(s, "/") {
		w.parseErr++
		return bad
	}
	slash := strings.HasSuffix(s, "/")
	parts := strings.Split(strings.TrimSuffix(s[1:], "/"), "/")
	if len(parts) < 2 {
		w.parseErr++
		return bad
	}
	var r root
	switch parts[0] {
	case "ipfs", "ipld":
		id, ok := w.revCid[parts[1]]
		if !ok {
			w.parseErr++
			return bad
		}
		r = root{Kind: "imm", LD: parts[0] == "ipld", ID: id}
	case "ipns":
		if ke, ok := w.revName[parts[1]]; ok {
			r = root{Kind: "name", ID: ke[0], Enc: ke[1]}
		} else if d, ok := w.revDns[parts[1]]; ok {
			r = root{Kind: "dns", ID: d}
		} else if b, ok := w.revBad[parts[1]]; ok {
			r = root{Kind: "bad", ID: b}
		} else {
			w.parseErr++
			return bad
		}
	default:
		w.parseErr++
		return bad
	}
	out := mpath{Root: r, Slash: slash, Segs: []int{}}
	for _, g := range parts[2:] {
		id, ok := w.revSeg[g]
		if !ok {
			w.parseErr++
			return bad
		}
		out.Segs = append(out.Segs, id)
	}
	return out
}

// ---------- running one history on the real name system ----------

// gateDS is the publisher's datastore.  When armed, the next IPNS-record Puts stop at
// a gate (announce arrival, wait for release) so that the harness decides the schedule
// of two overlapping Publish calls.  It also remembers the records handed to Put.
type gateDS struct {
	ds.Datastore
	mu      sync.Mutex
	gates   []*gate // gates still to be taken, in order of arrival
	written [][]byte
}
type gate struct {
	arrived chan struct{}
	release chan struct{}
}

func newGate() *gate { return &gate{arrived: make(chan struct{}), release: make(chan struct{})} }

func (d *gateDS) Put(ctx context.Context, key ds.Key, value []byte) error {
	if strings.HasPrefix(key.String(), "/ipns/") {
		d.mu.Lock()
		d.written = append(d.written, value)
		var g *gate
		if len(d.gates) > 0 {
			g, d.gates = d.gates[0], d.gates[1:]
		}
		d.mu.Unlock()
		if g != nil {
			close(g.arrived)
			<-g.release
		}
	}
	return d.Datastore.Put(ctx, key, value)
}

func (d *gateDS) arm(gs ...*gate) {
	d.mu.Lock()
	d.gates, d.written = gs, nil
	d.mu.Unlock()
}
func (d *gateDS) disarm() [][]byte {
	d.mu.Lock()
	defer d.mu.Unlock()
	d.gates = nil
	return d.written
}

// publishB is the second of two overlapping publishes; its name marks the goroutine.
//
//go:noinline
func publishB(f func() error) error { return f() }

// blockedOnPublisherMutex reports whether the goroutine running publishB is waiting for
// a sync.Mutex inside IPNSPublisher.updateRecord.
func blockedOnPublisherMutex() bool {
	buf := make([]byte, 1<<20)
	buf = buf[:runtime.Stack(buf, true)]
	for _, g := range strings.Split(string(buf), "\n\n") {
		if !strings.Contains(g, "c29.publishB") {
			continue
		}
		head, _, _ := strings.Cut(g, "\n")
		return (strings.Contains(head, "sync.Mutex.Lock") || strings.Contains(head, "semacquire")) &&
			strings.Contains(g, "updateRecord")
	}
	return false
}

type system struct {
	ns  namesys.NameSystem
	pds *gateDS
}

func classifyPub(err error) string {
	switch {
	case err == nil:
		return "PNone"
	case errors.Is(err, namesys.ErrInvalidSequence):
		return "PInvalidSeq"
	case errors.Is(err, records.ErrOldRecord):
		return "POld"
	}
	return "POther"
}
func classifyRes(err error) string {
	switch {
	case err == nil:
		return "ENone"
	case errors.Is(err, namesys.ErrResolveRecursion):
		return "ERecursion"
	case errors.Is(err, namesys.ErrResolveFailed):
		return "EFailed"
	}
	return "EOther"
}

// runCase executes ops (mutating it: a restart is inserted after a failed resolve on
// a caching name system, see below) and returns the executed ops and the Coq
// observations.
func runCase(t *testing.T, w *world, cfg config, ops []op) ([]op, []string) {
	ctx := context.Background()
	rds := dssync.MutexWrap(ds.NewMapDatastore())
	router := offroute.NewOfflineRouter(rds, record.NamespacedValidator{"ipns": ipns.Validator{}, "pk": record.PublicKeyValidator{}})
	dnsTable := map[string]dnsEntry{}
	for _, e := range cfg.DNS {
		dnsTable["_dnslink."+w.domains[e.D]+"."] = e
	}
	lookup := func(ctx context.Context, name string) ([]string, time.Duration, error) {
		e, ok := dnsTable[name]
		if !ok {
			return nil, 0, &net.DNSError{Err: "no such host", Name: name, IsNotFound: true}
		}
		return []string{"v=spf1 -all", "dnslink=" + w.str(e.V)}, time.Duration(e.TTL), nil
	}
	newSystem := func() system {
		pds := &gateDS{Datastore: dssync.MutexWrap(ds.NewMapDatastore())}
		opts := []namesys.Option{namesys.WithDatastore(pds), namesys.WithDNSResolverWithTTL(lookup)}
		if cfg.Size > 0 {
			opts = append(opts, namesys.WithCache(cfg.Size))
		}
		if cfg.Max != nil {
			opts = append(opts, namesys.WithMaxCacheTTL(time.Duration(*cfg.Max)))
		}
		ns, err := namesys.NewNameSystem(router, opts...)
		if err != nil {
			t.Fatal(err)
		}
		return system{ns, pds}
	}
	sys := newSystem()
	baseEOL := time.Now().Add(72 * time.Hour)

	pubOpts := func(eol, ttl int64, seq *uint64) []namesys.PublishOption {
		po := []namesys.PublishOption{
			namesys.PublishWithEOL(baseEOL.Add(time.Duration(eol) * time.Hour)),
			namesys.PublishWithTTL(time.Duration(ttl)),
		}
		if seq != nil {
			po = append(po, namesys.PublishWithSequence(*seq))
		}
		return po
	}
	recView := func(raw []byte, withTTL bool) string {
		rec, uerr := ipns.UnmarshalRecord(raw)
		if uerr != nil {
			t.Fatal(uerr)
		}
		sq, _ := rec.Sequence()
		v, verr := rec.Value()
		if verr != nil {
			t.Fatal(verr)
		}
		if withTTL {
			ttl, _ := rec.TTL()
			return fmt.Sprintf("(%s, %s, %s)", vh.ZU(sq), w.parse(v.String()).coq(), vh.Z(int64(ttl)))
		}
		return fmt.Sprintf("(%s, %s)", vh.ZU(sq), w.parse(v.String()).coq())
	}
	storedViews := func(k int) (string, string) {
		rt, dsv := "None", "None"
		if raw, gerr := router.GetValue(ctx, string(w.names[k].RoutingKey())); gerr == nil {
			rt = "(Some " + recView(raw, true) + ")"
		}
		if raw, gerr := sys.pds.Datastore.Get(ctx, namesys.IpnsDsKey(w.names[k])); gerr == nil {
			dsv = "(Some " + recView(raw, false) + ")"
		}
		return rt, dsv
	}

	var done []op
	var obs []string
	for i := 0; i < len(ops); i++ {
		o := ops[i]
		done = append(done, o)
		switch o.Kind {
		case "publish":
			popts := []namesys.PublishOption{
				namesys.PublishWithEOL(baseEOL.Add(time.Duration(o.EOL) * time.Hour)),
				namesys.PublishWithTTL(time.Duration(o.TTL)),
			}
			if o.Seq != nil {
				popts = append(popts, namesys.PublishWithSequence(*o.Seq))
			}
			err := sys.ns.Publish(ctx, w.keys[o.K], w.real(t, *o.V), popts...)
			rt := "None"
			if raw, gerr := router.GetValue(ctx, string(w.names[o.K].RoutingKey())); gerr == nil {
				rec, uerr := ipns.UnmarshalRecord(raw)
				if uerr != nil {
					t.Fatal(uerr)
				}
				s, _ := rec.Sequence()
				v, verr := rec.Value()
				ttl, _ := rec.TTL()
				if verr != nil {
					t.Fatal(verr)
				}
				rt = fmt.Sprintf("(Some (%s, %s, %s))", vh.ZU(s), w.parse(v.String()).coq(), vh.Z(int64(ttl)))
			}
			dsv := "None"
			if raw, gerr := sys.pds.Get(ctx, namesys.IpnsDsKey(w.names[o.K])); gerr == nil {
				rec, uerr := ipns.UnmarshalRecord(raw)
				if uerr != nil {
					t.Fatal(uerr)
				}
				s, _ := rec.Sequence()
				v, verr := rec.Value()
				if verr != nil {
					t.Fatal(verr)
				}
				dsv = fmt.Sprintf("(Some (%s, %s))", vh.ZU(s), w.parse(v.String()).coq())
			}
			obs = append(obs, fmt.Sprintf("(BPub %s %s %s)", classifyPub(err), rt, dsv))
		case "resolve":
			rctx, cancel := context.WithTimeout(ctx, 20*time.Second)
			res, err := sys.ns.Resolve(rctx, w.real(t, *o.P), namesys.ResolveWithDepth(o.Depth))
			timedOut := rctx.Err() != nil
			cancel()
			if timedOut {
				t.Fatalf("resolve of %s (depth %d) did not terminate", w.str(*o.P), o.Depth)
			}
			ps := "None"
			if res.Path != nil {
				ps = "(Some " + w.parse(res.Path.String()).coq() + ")"
			}
			obs = append(obs, fmt.Sprintf("(BRes %s %s %s false)", ps, vh.Z(int64(res.TTL)), classifyRes(err)))
			// A Resolve that returns an error cancels its context while the goroutines
			// that store the hops' results in the cache may still be running, so the
			// cache content afterwards depends on scheduling.  On a caching name system
			// the history therefore continues on a fresh name system (same routing).
			if err != nil && cfg.Size > 0 && i+1 < len(ops) && ops[i+1].Kind != "restart" {
				done = append(done, op{Kind: "restart"})
				obs = append(obs, "BUnit")
				sys = newSystem()
			}
		case "overlap":
			// Publish A is parked inside its datastore Put; Publish B is started.  We wait —
			// without relying on time — until B either waits for the publisher's mutex
			// (the code as it should be) or arrives at its own datastore Put (B got past
			// the mutex while A holds the record), or finishes without writing.
			gA, gB := newGate(), newGate()
			sys.pds.arm(gA, gB)
			var errA, errB error
			doneA, doneB := make(chan struct{}), make(chan struct{})
			cur := sys
			go func() {
				defer close(doneA)
				errA = cur.ns.Publish(ctx, w.keys[o.K], w.real(t, *o.V), pubOpts(o.EOL, o.TTL, o.Seq)...)
			}()
			inside := false
			select {
			case <-doneA: // A was refused before writing anything: nothing to overlap with
				sys.pds.arm()
				errB = cur.ns.Publish(ctx, w.keys[o.K], w.real(t, *o.V2), pubOpts(o.EOL2, o.TTL2, o.Seq2)...)
				close(doneB)
			case <-gA.arrived:
				go func() {
					defer close(doneB)
					errB = publishB(func() error {
						return cur.ns.Publish(ctx, w.keys[o.K], w.real(t, *o.V2), pubOpts(o.EOL2, o.TTL2, o.Seq2)...)
					})
				}()
				deadline := time.Now().Add(60 * time.Second)
				state := ""
				for state == "" {
					select {
					case <-gB.arrived:
						state = "inside"
					case <-doneB:
						state = "done"
					default:
						if blockedOnPublisherMutex() {
							state = "blocked"
						} else if time.Now().After(deadline) {
							t.Fatalf("overlapping publishes: the second publish neither blocks nor proceeds")
						} else {
							time.Sleep(200 * time.Microsecond)
						}
					}
				}
				switch state {
				case "blocked": // A first, then B
					close(gA.release)
					<-doneA
					select {
					case <-gB.arrived:
						close(gB.release)
					case <-doneB:
					}
					<-doneB
				case "inside": // B overtook A: let B finish, then A
					inside = true
					close(gB.release)
					<-doneB
					close(gA.release)
					<-doneA
				case "done": // B finished while A is parked (it was refused, or it never stopped at a Put)
					inside = true
					close(gA.release)
					<-doneA
				}
			}
			var writes []string
			for _, raw := range sys.pds.disarm() {
				writes = append(writes, recView(raw, false))
			}
			rt, dsv := storedViews(o.K)
			obs = append(obs, fmt.Sprintf("(BOverlap %s %s %s %s %s %s)", classifyPub(errA), classifyPub(errB), rt, dsv, vh.List(writes), vh.Bool(inside)))
		case "sleep":
			// real time must advance at least as far as the model clock
			time.Sleep(time.Duration(o.D) + 3*time.Millisecond)
			obs = append(obs, "BUnit")
		case "restart":
			sys = newSystem()
			obs = append(obs, "BUnit")
		}
	}
	return done, obs
}

// ---------- generators ----------

type gen struct {
	e *vh.Env
	w *world
}

func (g *gen) n(k int) int { return g.e.Rng.Intn(k) }
func (g *gen) coin(p float64) bool {
	return g.e.Rng.Float64() < p
}

func (g *gen) segsRnd(max int) []int {
	k := 0
	if g.coin(0.5) {
		k = 1 + g.n(max)
	}
	out := []int{}
	for i := 0; i < k; i++ {
		out = append(out, g.n(nSegs))
	}
	return out
}

func (g *gen) immPath() mpath {
	return mpath{Root: root{Kind: "imm", LD: g.coin(0.15), ID: g.n(nCids)}, Segs: g.segsRnd(2), Slash: g.coin(0.2)}
}
func (g *gen) namePath(k int) mpath {
	return mpath{Root: root{Kind: "name", ID: k, Enc: g.n(3)}, Segs: g.segsRnd(2), Slash: g.coin(0.2)}
}
func (g *gen) mutPath() mpath {
	switch x := g.n(10); {
	case x < 7:
		return g.namePath(g.n(nKeys))
	case x < 9:
		return mpath{Root: root{Kind: "dns", ID: g.n(nDns)}, Segs: g.segsRnd(2), Slash: g.coin(0.2)}
	}
	return mpath{Root: root{Kind: "bad", ID: g.n(nBad)}, Segs: g.segsRnd(1)}
}

const minute = int64(time.Minute)

// ttl choices: exact values are only used without a cache (a cache hit reports the
// remaining lifetime, which the model can only follow for whole minutes)
func (g *gen) ttl(cache bool) int64 {
	if cache {
		switch x := g.n(10); {
		case x == 0:
			return -int64(time.Second)
		case x <= 2:
			return 0
		}
		return minute * int64(1+g.n(90))
	}
	switch g.n(9) {
	case 0:
		return -int64(time.Second)
	case 1:
		return 0
	case 2:
		return 1
	case 3:
		return int64(time.Second)
	case 4:
		return 90 * int64(time.Second)
	case 5:
		return 10 * minute
	case 6:
		return int64(time.Hour)
	}
	return 1 + g.e.Rng.Int63n(24*int64(time.Hour))
}

func (g *gen) dns(cache, chains bool) []dnsEntry {
	var out []dnsEntry
	for d := 0; d < nDns-1; d++ { // the last domain never has a record
		if g.coin(0.25) {
			continue
		}
		var v mpath
		if chains && g.coin(0.6) {
			v = g.mutPath()
		} else {
			v = g.immPath()
		}
		out = append(out, dnsEntry{D: d, V: v, TTL: g.ttl(cache)})
	}
	return out
}

const shortCap = 20 * int64(time.Millisecond)

func (g *gen) config(regime string) config {
	c := config{}
	switch regime {
	case "small": // small caches: eviction; only one-hop resolutions (see DESIGN of the race)
		c.Size = 1 + g.n(3)
	case "chain":
		if g.coin(0.55) {
			c.Size = 64
		}
	default:
		c.Size = []int{0, 0, 64, 64, 64, 8 + 32}[g.n(6)]
	}
	switch x := g.n(10); {
	case x < 5:
	case x == 5:
		z := int64(0)
		c.Max = &z
	case x == 6:
		z := -int64(time.Second)
		c.Max = &z
	default:
		z := minute * int64(1+g.n(30))
		c.Max = &z
	}
	c.DNS = g.dns(c.Size > 0, regime != "small")
	return c
}

// shadow of what routing holds, kept by the generator to aim explicit sequence
// numbers at the boundaries and to avoid unlimited-depth resolution on cycles
type shadow struct {
	seq map[int]uint64
	has map[int]bool
	val map[int]mpath
}

func (g *gen) seqChoice(sh *shadow, k int) *uint64 {
	cur, has := sh.seq[k], sh.has[k]
	var s uint64
	switch x := g.n(12); {
	case x == 0:
		s = 0
	case x == 1:
		s = cur
	case x == 2 && cur > 0:
		s = cur - 1
	case x <= 4:
		s = cur + 1
	case x == 5:
		s = ^uint64(0)
	case x == 6:
		s = ^uint64(0) - 1
	case x == 7:
		s = cur + 2 + uint64(g.n(1000))
	case x == 8:
		s = uint64(g.e.Rng.Int63())
	default:
		s = cur + 1
	}
	_ = has
	return &s
}

func (g *gen) terminates(cfg config, sh *shadow, p mpath) bool {
	for hops := 0; hops < 40; hops++ {
		switch p.Root.Kind {
		case "imm", "bad":
			return true
		case "name":
			if !sh.has[p.Root.ID] {
				return true
			}
			p = sh.val[p.Root.ID]
		case "dns":
			found, id := false, p.Root.ID
			for _, e := range cfg.DNS {
				if e.D == id {
					p, found = e.V, true
					break
				}
			}
			if !found {
				return true
			}
		}
	}
	return false
}

// history: publishes (same / different value, explicit sequence numbers at the
// boundaries) interleaved with resolves of the name just published (all three
// textual forms), other resolves, restarts and sleeps.
func (g *gen) history(regime string) (config, []op) {
	cfg := g.config(regime)
	cache := cfg.Size > 0
	n := 3 + g.n(13)
	var ops []op
	eol := int64(0)
	lastVal := map[int]mpath{}
	for len(ops) < n {
		switch x := g.n(20); {
		case x < 10:
			k := g.n(nKeys)
			if g.coin(0.6) {
				k = g.n(2) // concentrate on two keys so that values get replaced
			}
			var v mpath
			if old, ok := lastVal[k]; ok && g.coin(0.3) {
				v = old // same value again
			} else if regime == "small" || g.coin(0.8) {
				v = g.immPath()
			} else {
				v = g.mutPath()
			}
			lastVal[k] = v
			eol += 2
			o := op{Kind: "publish", K: k, V: &v, TTL: g.ttl(cache), EOL: eol}
			if g.coin(0.04) && eol > 4 {
				// an EOL earlier than that of an earlier publish: routing may refuse the record.
				// Odd, hence never equal to another EOL of the history (a tie on sequence and
				// EOL is decided by comparing record bytes, which the model does not follow).
				o.EOL = eol - 3
			}
			ops = append(ops, o)
			if g.coin(0.65) { // read your publish
				p := g.namePath(k)
				ops = append(ops, op{Kind: "resolve", P: &p, Depth: g.depth(regime)})
			}
		case x < 15:
			var p mpath
			if g.coin(0.1) {
				p = g.immPath()
			} else {
				p = g.mutPath()
			}
			ops = append(ops, op{Kind: "resolve", P: &p, Depth: g.depth(regime)})
		case x < 16:
			if g.coin(0.5) {
				ops = append(ops, op{Kind: "restart"})
				break
			}
			// two overlapping publishes of one key (different values mostly; sometimes explicit sequences)
			k := g.n(2)
			vA, vB := g.immPath(), g.immPath()
			if old, ok := lastVal[k]; ok && g.coin(0.2) {
				vA = old
			}
			if g.coin(0.1) {
				vB = vA
			}
			lastVal[k] = vB
			eol += 4
			o := op{Kind: "overlap", K: k, V: &vA, TTL: g.ttl(cache), EOL: eol - 2, V2: &vB, TTL2: g.ttl(cache), EOL2: eol}
			if g.coin(0.2) {
				o.Seq = new(uint64)
			}
			if g.coin(0.3) {
				o.Seq2 = new(uint64)
			}
			ops = append(ops, o)
		default:
			// handled below (explicit sequence numbers need the shadow: done in fixSeqs)
			k := g.n(2)
			v := g.immPath()
			if old, ok := lastVal[k]; ok && g.coin(0.5) {
				v = old
			}
			lastVal[k] = v
			eol += 2
			ops = append(ops, op{Kind: "publish", K: k, V: &v, TTL: g.ttl(cache), EOL: eol, Seq: new(uint64)})
		}
	}
	return cfg, ops
}

func (g *gen) depth(regime string) uint {
	if regime == "small" {
		return uint(1 + g.n(3))
	}
	switch x := g.n(10); {
	case x < 5:
		return uint(1 + g.n(7))
	case x < 8:
		return namesys.DefaultDepthLimit
	}
	return uint(1 + g.n(3))
}

// chain: a chain (or cycle) of up to 6 names / DNSLinks with per-hop TTLs and
// remainders is published, then resolved at depths around its length.
func (g *gen) chain() (config, []op) {
	cfg := g.config("chain")
	cache := cfg.Size > 0
	L := 1 + g.n(6)
	perm := g.e.Rng.Perm(nKeys)
	var ops []op
	// hop i is key perm[i%nKeys]; a chain longer than nKeys goes through a DNSLink first
	var hops []root
	if L > nKeys || g.coin(0.3) {
		// start at a domain whose dnslink points at the first key
		d := g.n(nDns - 1)
		first := mpath{Root: root{Kind: "name", ID: perm[0], Enc: g.n(3)}, Segs: g.segsRnd(1), Slash: g.coin(0.1)}
		var dns []dnsEntry
		for _, e := range cfg.DNS {
			if e.D != d {
				dns = append(dns, e)
			}
		}
		cfg.DNS = append(dns, dnsEntry{D: d, V: first, TTL: g.ttl(cache)})
		sort.Slice(cfg.DNS, func(i, j int) bool { return cfg.DNS[i].D < cfg.DNS[j].D })
		hops = append(hops, root{Kind: "dns", ID: d})
		L--
	}
	if L > nKeys {
		L = nKeys
	}
	if L < 1 {
		L = 1
	}
	for i := 0; i < L; i++ {
		hops = append(hops, root{Kind: "name", ID: perm[i]})
	}
	ending := g.n(10)
	eol := int64(0)
	for i := 0; i < L; i++ {
		var v mpath
		if i+1 < L {
			v = mpath{Root: root{Kind: "name", ID: perm[i+1], Enc: g.n(3)}, Segs: g.segsRnd(1), Slash: g.coin(0.1)}
		} else {
			switch {
			case ending < 6:
				v = g.immPath()
			case ending < 8: // cycle back into the chain
				v = mpath{Root: root{Kind: "name", ID: perm[g.n(L)], Enc: g.n(3)}, Segs: g.segsRnd(1)}
			case ending == 8: // dangling: a name without a record or a domain without dnslink
				if g.coin(0.5) && L < nKeys {
					v = mpath{Root: root{Kind: "name", ID: perm[L], Enc: g.n(3)}}
				} else {
					v = mpath{Root: root{Kind: "dns", ID: nDns - 1}, Segs: g.segsRnd(1)}
				}
			default:
				v = mpath{Root: root{Kind: "bad", ID: g.n(nBad)}}
			}
		}
		eol++
		ops = append(ops, op{Kind: "publish", K: perm[i], V: &v, TTL: g.ttl(cache), EOL: eol})
	}
	g.e.Rng.Shuffle(len(ops), func(i, j int) { ops[i], ops[j] = ops[j], ops[i] })
	total := len(hops)
	nres := 2 + g.n(4)
	for r := 0; r < nres; r++ {
		start := hops[0]
		if g.coin(0.3) {
			start = hops[g.n(len(hops))]
		}
		p := mpath{Root: start, Segs: g.segsRnd(2), Slash: g.coin(0.2)}
		if p.Root.Kind == "name" {
			p.Root.Enc = g.n(3)
		}
		var depth uint
		switch x := g.n(10); {
		case x < 5:
			depth = uint(max(1, total-1+g.n(3))) // length-1, length, length+1
		case x < 7:
			depth = uint(1 + g.n(7))
		case x < 8:
			depth = namesys.DefaultDepthLimit
		default:
			depth = 0 // unlimited: replaced below when the chain does not terminate
		}
		ops = append(ops, op{Kind: "resolve", P: &p, Depth: depth})
		if g.coin(0.25) && r+1 < nres { // republish one hop with another value / ttl in between
			i := g.n(L)
			v := g.immPath()
			eol++
			ops = append(ops, op{Kind: "publish", K: perm[i], V: &v, TTL: g.ttl(cache), EOL: eol})
		}
	}
	return cfg, ops
}

// finalize walks the ops with a shadow of the routing content: picks the explicit
// sequence numbers, removes unlimited depth where the resolution would not
// terminate (or where a cache could make it not terminate), and inserts the sleeps
// that the short-lived-cache configurations need.
func (g *gen) finalize(cfg config, ops []op, short bool) []op {
	sh := &shadow{seq: map[int]uint64{}, has: map[int]bool{}, val: map[int]mpath{}}
	var out []op
	for _, o := range ops {
		switch o.Kind {
		case "publish":
			if o.Seq != nil {
				o.Seq = g.seqChoice(sh, o.K)
			}
			// optimistic shadow (exact while routing accepts, which is what matters for aiming)
			cur, has := sh.seq[o.K], sh.has[o.K]
			switch {
			case o.Seq != nil && (!has && *o.Seq > 0 || has && *o.Seq > cur):
				sh.seq[o.K], sh.has[o.K], sh.val[o.K] = *o.Seq, true, *o.V
			case o.Seq == nil && !has:
				sh.seq[o.K], sh.has[o.K], sh.val[o.K] = 0, true, *o.V
			case o.Seq == nil:
				if g.w.str(sh.val[o.K]) != g.w.str(*o.V) && cur != ^uint64(0) {
					sh.seq[o.K] = cur + 1
				}
				if cur != ^uint64(0) || g.w.str(sh.val[o.K]) == g.w.str(*o.V) {
					sh.val[o.K] = *o.V
				}
			}
		case "overlap":
			step := func(v mpath, seq *uint64) *uint64 {
				cur, has := sh.seq[o.K], sh.has[o.K]
				if seq != nil {
					seq = g.seqChoice(sh, o.K)
					if !has && *seq > 0 || has && *seq > cur {
						sh.seq[o.K], sh.has[o.K], sh.val[o.K] = *seq, true, v
					}
					return seq
				}
				switch {
				case !has:
					sh.seq[o.K], sh.has[o.K], sh.val[o.K] = 0, true, v
				case g.w.str(sh.val[o.K]) != g.w.str(v) && cur != ^uint64(0):
					sh.seq[o.K], sh.val[o.K] = cur+1, v
				}
				return nil
			}
			o.Seq = step(*o.V, o.Seq)
			o.Seq2 = step(*o.V2, o.Seq2)
		case "resolve":
			if o.Depth == 0 && (cfg.Size > 0 || !g.terminates(cfg, sh, *o.P)) {
				o.Depth = uint(1 + g.n(7))
			}
			if short {
				out = append(out, op{Kind: "sleep", D: shortCap + int64(g.n(3))*int64(time.Millisecond)})
			}
		}
		out = append(out, o)
	}
	return out
}

// ---------- corpus (finding witnesses first) ----------

func u64(x uint64) *uint64 { return &x }

func corpus() []struct {
	name string
	cfg  config
	ops  []op
} {
	A := mpath{Root: root{Kind: "imm", ID: 0}, Segs: []int{}}
	B := mpath{Root: root{Kind: "imm", ID: 1}, Segs: []int{0}}
	n0 := func(enc int) *mpath { return &mpath{Root: root{Kind: "name", ID: 0, Enc: enc}, Segs: []int{}} }
	n0x := &mpath{Root: root{Kind: "name", ID: 0, Enc: 0}, Segs: []int{3, 2}, Slash: true}
	n1 := &mpath{Root: root{Kind: "name", ID: 1, Enc: 1}, Segs: []int{1}}
	viaN0 := mpath{Root: root{Kind: "name", ID: 0, Enc: 2}, Segs: []int{4}}
	h := int64(time.Hour)
	tenMin := 10 * minute
	return []struct {
		name string
		cfg  config
		ops  []op
	}{
		// C29-1: resolve, publish another value, resolve again -> still the old value
		{"C29-1 witness", config{Size: 8}, []op{
			{Kind: "publish", K: 0, V: &A, TTL: h, EOL: 1},
			{Kind: "resolve", P: n0(0), Depth: 32},
			{Kind: "publish", K: 0, V: &B, TTL: h, EOL: 2},
			{Kind: "resolve", P: n0(0), Depth: 32},
		}},
		{"C29-1 witness, other textual forms, remainder, max ttl", config{Size: 8, Max: &tenMin}, []op{
			{Kind: "publish", K: 0, V: &A, TTL: h, EOL: 1},
			{Kind: "resolve", P: n0(1), Depth: 32},
			{Kind: "resolve", P: n0(2), Depth: 32},
			{Kind: "publish", K: 0, V: &B, TTL: h, EOL: 2},
			{Kind: "resolve", P: n0(1), Depth: 32},
			{Kind: "resolve", P: n0x, Depth: 32},
			{Kind: "resolve", P: n0(2), Depth: 32},
		}},
		{"C29-1 through a chain", config{Size: 64}, []op{
			{Kind: "publish", K: 0, V: &A, TTL: h, EOL: 1},
			{Kind: "publish", K: 1, V: &viaN0, TTL: 2 * h, EOL: 2},
			{Kind: "resolve", P: n1, Depth: 32},
			{Kind: "publish", K: 0, V: &B, TTL: h, EOL: 3},
			{Kind: "resolve", P: n1, Depth: 32},
		}},
		// the same history without a cache is fine
		{"no cache", config{Size: 0}, []op{
			{Kind: "publish", K: 0, V: &A, TTL: h, EOL: 1},
			{Kind: "resolve", P: n0(0), Depth: 32},
			{Kind: "publish", K: 0, V: &B, TTL: h, EOL: 2},
			{Kind: "resolve", P: n0(0), Depth: 32},
		}},
		// C29-2 (repaired): explicit sequence 2^64-1, then a changed value
		{"C29-2 witness", config{Size: 0}, []op{
			{Kind: "publish", K: 0, V: &A, TTL: h, EOL: 1},
			{Kind: "publish", K: 0, V: &A, TTL: h, EOL: 2, Seq: u64(^uint64(0))},
			{Kind: "publish", K: 0, V: &B, TTL: h, EOL: 3},
			{Kind: "resolve", P: n0(0), Depth: 32},
			{Kind: "publish", K: 0, V: &A, TTL: h, EOL: 4},
			{Kind: "publish", K: 0, V: &B, TTL: h, EOL: 5, Seq: u64(^uint64(0))},
		}},
		{"C29-2 witness on a fresh name", config{Size: 8}, []op{
			{Kind: "publish", K: 2, V: &A, TTL: h, EOL: 1, Seq: u64(^uint64(0))},
			{Kind: "publish", K: 2, V: &B, TTL: h, EOL: 2},
			{Kind: "restart"},
			{Kind: "publish", K: 2, V: &B, TTL: h, EOL: 3},
		}},
		// overlapping publishes: serialised by the publisher's mutex
		{"overlapping publishes of different values", config{Size: 0}, []op{
			{Kind: "publish", K: 0, V: &A, TTL: h, EOL: 1},
			{Kind: "overlap", K: 0, V: &B, TTL: h, EOL: 2, V2: &A, TTL2: h, EOL2: 3},
			{Kind: "resolve", P: n0(0), Depth: 32},
			{Kind: "overlap", K: 0, V: &B, TTL: h, EOL: 5, V2: &viaN0, TTL2: h, EOL2: 4},
		}},
		{"overlapping publishes on a fresh name, explicit sequence equal to the one being written", config{Size: 8}, []op{
			{Kind: "overlap", K: 1, V: &A, TTL: h, EOL: 1, V2: &B, TTL2: h, EOL2: 2},
			{Kind: "overlap", K: 1, V: &A, TTL: h, EOL: 3, V2: &B, TTL2: h, EOL2: 4, Seq2: u64(2)},
			{Kind: "overlap", K: 1, V: &A, TTL: h, EOL: 5, Seq: u64(1), V2: &B, TTL2: h, EOL2: 6},
			{Kind: "restart"},
			{Kind: "overlap", K: 1, V: &B, TTL: h, EOL: 7, V2: &A, TTL2: h, EOL2: 8, Seq2: u64(9)},
		}},
		{"explicit sequence numbers", config{Size: 0}, []op{
			{Kind: "publish", K: 1, V: &A, TTL: 0, EOL: 1, Seq: u64(0)},
			{Kind: "publish", K: 1, V: &A, TTL: 0, EOL: 2, Seq: u64(1)},
			{Kind: "publish", K: 1, V: &A, TTL: 0, EOL: 3, Seq: u64(1)},
			{Kind: "publish", K: 1, V: &B, TTL: 0, EOL: 4, Seq: u64(0)},
			{Kind: "publish", K: 1, V: &B, TTL: 0, EOL: 5},
			{Kind: "publish", K: 1, V: &B, TTL: 0, EOL: 6},
			{Kind: "restart"},
			{Kind: "publish", K: 1, V: &A, TTL: 0, EOL: 7},
			{Kind: "publish", K: 1, V: &A, TTL: 0, EOL: 8, Seq: u64(3)},
			{Kind: "publish", K: 1, V: &A, TTL: 0, EOL: 9, Seq: u64(4)},
		}},
	}
}

// ---------- the test ----------

func nontrivial(ops []op) bool {
	pubs, res := 0, 0
	for _, o := range ops {
		switch o.Kind {
		case "publish":
			pubs++
		case "overlap":
			pubs += 2
			res++
		case "resolve":
			if o.P.mutable() {
				res++
			}
		}
	}
	return pubs >= 2 && res >= 1
}

func TestC29(t *testing.T) {
	e := vh.Load(t)
	w := newWorld(t, e)
	g := &gen{e: e, w: w}
	st := vh.NewStats("histories of Publish (with/without explicit sequence, same/different value, per-record TTL) / Resolve (three textual " +
		"forms of a name, DNSLink, remainders, depth) / sleep / restart on a real namesys over the offline router; " +
		"non-trivial = at least two publishes and one resolve of a mutable path; distinct by configuration and operation list")
	cs := vh.NewCases(e, "From V Require Import model.M_C29.\nOpen Scope Z_scope.", "case", "check_case", 100)

	emit := func(kind string, cfg config, ops []op) {
		done, obs := runCase(t, w, cfg, ops)
		term := fmt.Sprintf("(Case %s %s %s)", cfg.coq(), vh.ListOf(done, func(o op) string { return o.coq() }), vh.List(obs))
		rp := map[string]any{"kind": kind, "cfg": cfg, "ops": done, "strings": describe(w, done)}
		cs.Add(term, rp)
		st.Case(cfg.coq()+vh.ListOf(done, func(o op) string { return o.coq() }), nontrivial(done))
		st.Count("case:" + kind)
		st.Count(fmt.Sprintf("cache=%d", cfg.Size))
		if cfg.Max == nil {
			st.Count("maxttl=nil")
		} else if *cfg.Max <= 0 {
			st.Count("maxttl<=0")
		} else if *cfg.Max < minute {
			st.Count("maxttl=short")
		} else {
			st.Count("maxttl>0")
		}
		for i, o := range done {
			st.Count("op:" + o.Kind)
			if o.Kind == "publish" && o.Seq != nil {
				st.Count("op:publish-explicit-seq")
			}
			if o.Kind == "resolve" {
				st.Count(fmt.Sprintf("depth=%d", o.Depth))
				parts := strings.Fields(strings.Trim(obs[i], "()"))
				st.Count("resolve:" + parts[len(parts)-2])
			}
			if o.Kind == "publish" {
				st.Count("publish:" + strings.Fields(strings.Trim(obs[i], "()"))[1])
			}
		}
		st.Sample(rp, 6)
	}

	for _, c := range corpus() {
		emit("corpus", c.cfg, c.ops)
	}
	nHist, nSmall, nChain, nShort := e.Pick(170, 5000), e.Pick(40, 1200), e.Pick(170, 5000), e.Pick(5, 60)
	for i := 0; i < nHist; i++ {
		cfg, ops := g.history("hist")
		emit("history", cfg, g.finalize(cfg, ops, false))
	}
	for i := 0; i < nSmall; i++ {
		cfg, ops := g.history("small")
		emit("small-cache", cfg, g.finalize(cfg, ops, false))
	}
	for i := 0; i < nChain; i++ {
		cfg, ops := g.chain()
		emit("chain", cfg, g.finalize(cfg, ops, false))
	}
	for i := 0; i < nShort; i++ {
		// a cache whose entries live 20ms; the history sleeps past that before every resolve
		var cfg config
		var ops []op
		if i%2 == 0 {
			cfg, ops = g.history("hist")
		} else {
			cfg, ops = g.chain()
		}
		cfg.Size = 64
		z := shortCap
		cfg.Max = &z
		cfg.DNS = g.dns(true, true)
		if len(ops) > 8 {
			ops = ops[:8]
		}
		for j := range ops {
			if ops[j].Kind == "publish" && ops[j].TTL > 0 {
				ops[j].TTL = minute * int64(1+g.n(90))
			}
		}
		emit("short-lived-cache", cfg, g.finalize(cfg, ops, true))
	}
	cs.Close()
	st.Extra["unparsed_paths"] = w.parseErr
	st.Write(e)
	if w.parseErr > 0 {
		t.Logf("%d path(s) answered by the implementation are outside the harness vocabulary", w.parseErr)
	}
}

func describe(w *world, ops []op) []string {
	var out []string
	for _, o := range ops {
		switch o.Kind {
		case "publish":
			s := fmt.Sprintf("publish key%d -> %s ttl=%s eol=+%dh", o.K, w.str(*o.V), time.Duration(o.TTL), o.EOL)
			if o.Seq != nil {
				s += fmt.Sprintf(" seq=%d", *o.Seq)
			}
			out = append(out, s)
		case "resolve":
			out = append(out, fmt.Sprintf("resolve %s depth=%d", w.str(*o.P), o.Depth))
		case "sleep":
			out = append(out, "sleep "+time.Duration(o.D).String())
		case "overlap":
			sq := func(x *uint64) string {
				if x == nil {
					return ""
				}
				return fmt.Sprintf(" seq=%d", *x)
			}
			out = append(out, fmt.Sprintf("overlapping: publish key%d -> %s ttl=%s eol=+%dh%s (parked in its datastore Put) || publish key%d -> %s ttl=%s eol=+%dh%s",
				o.K, w.str(*o.V), time.Duration(o.TTL), o.EOL, sq(o.Seq), o.K, w.str(*o.V2), time.Duration(o.TTL2), o.EOL2, sq(o.Seq2)))
		default:
			out = append(out, "new name system over the same routing")
		}
	}
	return out
}
