// Correspondence harness for C11 (ipld/merkledag ProtoNode): random mutation
// histories with interleaved reads are run on real ProtoNodes; every answer
// (Cid, RawData bytes, Links, Data, Tree, DecodeProtobuf(RawData)) is written
// into cases_*.v and compared inside Coq with the cache model (model/M_C11.v),
// with the cache-free specification and byte-exactly with the Coq dag-pb
// encoder/decoder (lib/C11_DagPb.v).  A second stream feeds DecodeProtobuf with
// non-canonical and malformed encodings and compares with the Coq decoder.
package c11

import (
	"bytes"
	"fmt"
	"math"
	"strings"
	"testing"

	"github.com/ipfs/boxo/ipld/merkledag"
	blocks "github.com/ipfs/go-block-format"
	cid "github.com/ipfs/go-cid"
	format "github.com/ipfs/go-ipld-format"
	mh "github.com/multiformats/go-multihash"

	"verif/harness/vh"
)

// ---------- builders ----------

// wrapped is a cid.Builder that is neither cid.Prefix nor *cid.Prefix, so that
// SetCidBuilder takes its default branch (probing Sum).
type wrapped struct{ p cid.Prefix }

func (w wrapped) Sum(d []byte) (cid.Cid, error)    { return w.p.Sum(d) }
func (w wrapped) GetCodec() uint64                  { return w.p.Codec }
func (w wrapped) WithCodec(c uint64) cid.Builder    { q := w.p; q.Codec = c; return wrapped{q} }

type bld struct {
	id   int
	name string
	mk   func() cid.Builder // what is handed to SetCidBuilder
	sum  cid.Prefix         // the function it computes after WithCodec(DagProtobuf)
}

func pfx(ver, mhType uint64) cid.Prefix {
	return cid.Prefix{Version: ver, Codec: cid.DagProtobuf, MhType: mhType, MhLength: -1}
}

var builders = []bld{
	{0, "v0", func() cid.Builder { return merkledag.V0CidPrefix() }, pfx(0, mh.SHA2_256)},
	{1, "v1-sha256", func() cid.Builder { return merkledag.V1CidPrefix() }, pfx(1, mh.SHA2_256)},
	{2, "v1-blake2b256", func() cid.Builder { return pfx(1, mh.BLAKE2B_MIN+31) }, pfx(1, mh.BLAKE2B_MIN+31)},
	{3, "v1-identity", func() cid.Builder { return pfx(1, mh.IDENTITY) }, pfx(1, mh.IDENTITY)},
	{4, "ptr-v1-sha512-rawcodec", func() cid.Builder {
		p := cid.Prefix{Version: 1, Codec: cid.Raw, MhType: mh.SHA2_512, MhLength: -1}
		return &p
	}, pfx(1, mh.SHA2_512)},
	{5, "wrapped-v1-sha3", func() cid.Builder {
		return wrapped{cid.Prefix{Version: 1, Codec: cid.Raw, MhType: mh.SHA3_256, MhLength: -1}}
	}, pfx(1, mh.SHA3_256)},
}

// ---------- pools ----------

func mustSum(p cid.Prefix, d []byte) cid.Cid {
	c, err := p.Sum(d)
	if err != nil {
		panic(err)
	}
	return c
}

var linkCids = func() []cid.Cid {
	raw := func(d string) cid.Cid {
		return mustSum(cid.Prefix{Version: 1, Codec: cid.Raw, MhType: mh.IDENTITY, MhLength: -1}, []byte(d))
	}
	return []cid.Cid{
		raw(""), raw("x"), raw("y"), raw("zz"), raw("q"), raw("r"),
		mustSum(pfx(0, mh.SHA2_256), []byte("x")),
		mustSum(pfx(0, mh.SHA2_256), []byte("y")),
		mustSum(pfx(1, mh.SHA2_256), []byte("x")),
		mustSum(cid.Prefix{Version: 1, Codec: cid.Raw, MhType: mh.BLAKE2B_MIN + 31, MhLength: -1}, []byte("x")),
	}
}()

var names = []string{"", "a", "b", "a", "ab", "B", "é", "\xff", "a\x00", "a", "b", "c", "aa", strings.Repeat("n", 130)}

var sizes = []uint64{0, 1, 2, 127, 128, 129, 300, 16383, 16384, 1<<21 - 1, 1 << 21, 1<<28 - 1, 1 << 28, 1 << 35, 1<<42 - 1,
	1 << 49, 1<<56 - 1, 1 << 56, 1<<62 + 5, math.MaxInt64 - 1, math.MaxInt64}
var badSizes = []uint64{math.MaxInt64 + 1, math.MaxUint64, 1<<63 + 12345}

type lnk struct {
	name string
	size uint64
	c    cid.Cid
}

func (l lnk) coq() string {
	return vh.App("mkLink", B([]byte(l.name)), vh.ZU(l.size), cidCoq(l.c))
}
func (l lnk) String() string { return fmt.Sprintf("%q/%d/%s", l.name, l.size, l.c) }

func cidCoq(c cid.Cid) string {
	if !c.Defined() {
		return "[]"
	}
	return B(c.Bytes())
}

func dataCoq(d []byte) string { return vh.Opt(d != nil, B(d)) }

// ---------- compact rendering of byte strings ----------
// Type-checking long literal lists dominates the cost of a cases file, so byte
// strings of the fixed pools are defined once in the preamble (globalSyms) and
// byte strings that occur more than once in a case are let-bound in that case.
var (
	globalSyms   = map[string]string{}
	preambleDefs []string
)

// lit renders a byte string literally, runs of 8 or more equal bytes as [repeat].
func lit(b []byte) string {
	var segs []string
	var plain []byte
	flush := func() {
		if len(plain) > 0 {
			segs = append(segs, vh.Bytes(plain))
			plain = nil
		}
	}
	for i := 0; i < len(b); {
		j := i
		for j < len(b) && b[j] == b[i] {
			j++
		}
		if j-i >= 8 {
			flush()
			segs = append(segs, fmt.Sprintf("repeat %d %d%%nat", b[i], j-i))
		} else {
			plain = append(plain, b[i:j]...)
		}
		i = j
	}
	flush()
	switch len(segs) {
	case 0:
		return "[]"
	case 1:
		if strings.HasPrefix(segs[0], "[") {
			return segs[0]
		}
	}
	return "(" + strings.Join(segs, " ++ ") + ")"
}

func defGlobal(name string, b []byte) {
	if _, ok := globalSyms[string(b)]; ok || len(b) < 4 {
		return
	}
	globalSyms[string(b)] = name
	preambleDefs = append(preambleDefs, "Definition "+name+" : bytes := "+lit(b)+".")
}

type interner struct {
	idx   map[string]int
	items [][]byte
	count []int
}

var cur *interner

func newInterner() *interner { return &interner{idx: map[string]int{}} }

// B renders a byte string: a preamble name, a per-case placeholder, or a literal.
func B(b []byte) string {
	if name, ok := globalSyms[string(b)]; ok {
		return name
	}
	if len(b) < 8 || cur == nil {
		return lit(b)
	}
	i, ok := cur.idx[string(b)]
	if !ok {
		i = len(cur.items)
		cur.idx[string(b)] = i
		cur.items = append(cur.items, append([]byte(nil), b...))
		cur.count = append(cur.count, 0)
	}
	cur.count[i]++
	return fmt.Sprintf("@@%d@@", i)
}

// finish replaces the placeholders of one case: let-bound when used twice or more.
func (in *interner) finish(term string) string {
	var lets strings.Builder
	for i, b := range in.items {
		tok := fmt.Sprintf("@@%d@@", i)
		if in.count[i] >= 2 {
			fmt.Fprintf(&lets, "let r%d : bytes := %s in ", i, lit(b))
			term = strings.ReplaceAll(term, tok, fmt.Sprintf("r%d", i))
		} else {
			term = strings.ReplaceAll(term, tok, lit(b))
		}
	}
	if lets.Len() > 0 {
		return "(" + lets.String() + term + ")"
	}
	return term
}

func initSyms() {
	for i, c := range linkCids {
		defGlobal(fmt.Sprintf("K%d", i), c.Bytes())
	}
	for i := 0; i < 6; i++ {
		defGlobal(fmt.Sprintf("CH%d", i), child(i).Cid().Bytes())
	}
	defGlobal("NLONG", []byte(names[len(names)-1]))
	for _, n := range []int{127, 128, 129} {
		defGlobal(fmt.Sprintf("D80x%d", n), bytes.Repeat([]byte{0x80}, n))
	}
	defGlobal("DFEx200", bytes.Repeat([]byte{0xfe}, 200))
	defGlobal("D07x1024", bytes.Repeat([]byte{7}, 1024))
}

func linksCoq(ls []*format.Link) string {
	return vh.ListOf(ls, func(l *format.Link) string { return lnk{l.Name, l.Size, l.Cid}.coq() })
}

func decodedCoq(n *merkledag.ProtoNode, err error) string {
	if err != nil {
		return "None"
	}
	return "(Some (" + dataCoq(n.Data()) + ", " + linksCoq(n.Links()) + "))"
}

// ---------- one history ----------

type opk int

const (
	kAdd opk = iota
	kAddNode
	kRemove
	kSetData
	kSetBuilder
	kSetBuilderBad
	kSetLinks
	kCopy
	kUpdate
	kRedecode
	kReblock
	kFork
	kForkUpdate
	kCid
	kRaw
	kLinks
	kData
	kTree
	kDecode
)

type hop struct {
	node int // family histories: index of the node the call goes to
	k    opk
	l    lnk    // add / update / remove(name)
	data []byte // setdata
	bid  int    // setbuilder: -1 = nil
	ls   []lnk  // setlinks
}

func (o hop) String() string {
	switch o.k {
	case kAdd:
		return "AddRawLink(" + o.l.String() + ")"
	case kAddNode:
		return "AddNodeLink(" + o.l.String() + ")"
	case kRemove:
		return fmt.Sprintf("RemoveNodeLink(%q)", o.l.name)
	case kSetData:
		if o.data == nil {
			return "SetData(nil)"
		}
		return fmt.Sprintf("SetData(%d bytes)", len(o.data))
	case kSetBuilder:
		if o.bid < 0 {
			return "SetCidBuilder(nil)"
		}
		return "SetCidBuilder(" + builders[o.bid].name + ")"
	case kSetBuilderBad:
		return "SetCidBuilder(bad hasher)"
	case kSetLinks:
		return fmt.Sprintf("SetLinks(%v)", o.ls)
	case kCopy:
		return "Copy"
	case kUpdate:
		return "UpdateNodeLink(" + o.l.String() + ")"
	case kRedecode:
		return "n=DecodeProtobuf(n.RawData())"
	case kReblock:
		return "n=DecodeProtobufBlock(block(n.RawData(),n.Cid()))"
	case kFork:
		return "new=Copy()"
	case kForkUpdate:
		return "new=UpdateNodeLink(" + o.l.String() + ")"
	case kCid:
		return "Cid"
	case kRaw:
		return "RawData"
	case kLinks:
		return "Links"
	case kData:
		return "Data"
	case kTree:
		return "Tree"
	}
	return "DecodeProtobuf(RawData)"
}

// child builds a small real ProtoNode whose link (size, cid) AddNodeLink / UpdateNodeLink compute themselves.
func child(i int) *merkledag.ProtoNode {
	c := merkledag.NodeWithData([]byte{byte('c'), byte(i)})
	if i%2 == 1 {
		c.AddRawLink("k", &format.Link{Size: uint64(1000 * i), Cid: linkCids[i%len(linkCids)]})
	}
	if i%3 == 0 {
		c.SetCidBuilder(merkledag.V1CidPrefix())
	}
	return c
}

type history struct {
	multi bool // a family of nodes: ops carry a node index, kFork/kForkUpdate append nodes
	d0  []byte
	ops []hop
}

type runResult struct {
	term       string
	obsKinds   []string
	nontrivial bool
	key        string
}

// runHistory applies h to a real ProtoNode and renders the CRun case.
func runHistory(t *testing.T, h history) runResult {
	cur = newInterner()
	defer func() { cur = nil }()
	n := merkledag.NodeWithData(h.d0)
	used := map[int]bool{0: true}
	for _, o := range h.ops {
		if o.k == kSetBuilder && o.bid >= 0 {
			used[builders[o.bid].id] = true
		}
	}
	intern := map[string]int{}
	cidID := func(c cid.Cid) int {
		s := c.String()
		if id, ok := intern[s]; ok {
			return id
		}
		intern[s] = len(intern) + 1
		return intern[s]
	}
	seen := map[string]bool{}
	var tab []string
	table := func(raw []byte) {
		if seen[string(raw)] {
			return
		}
		seen[string(raw)] = true
		var row []string
		for _, b := range builders {
			if used[b.id] {
				row = append(row, "("+vh.Z(int64(b.id))+", "+vh.Z(int64(cidID(mustSum(b.sum, raw))))+")")
			}
		}
		tab = append(tab, "("+B(raw)+", "+vh.List(row)+")")
	}
	var ops, obs []string
	okErr := func(err error) string {
		if err != nil {
			return "BErr"
		}
		return "BOk"
	}
	mutations, reads, staleWindow := 0, 0, false
	nodes := []*merkledag.ProtoNode{n}
	for _, o := range h.ops {
		n = nodes[o.node]
		nops := len(ops)
		switch o.k {
		case kFork:
			ops = append(ops, fmt.Sprintf("(MFork %d%%nat)", o.node))
			nodes = append(nodes, n.Copy().(*merkledag.ProtoNode))
			obs = append(obs, "BOk")
		case kForkUpdate:
			ch := child(int(o.l.size))
			sz, err := ch.Size()
			if err != nil {
				t.Fatal(err)
			}
			ops = append(ops, vh.App("MForkUpdate", fmt.Sprintf("%d%%nat", o.node), B([]byte(o.l.name)), vh.ZU(sz), cidCoq(ch.Cid())))
			nn, err := n.UpdateNodeLink(o.l.name, ch)
			if err == nil {
				nodes = append(nodes, nn)
			}
			obs = append(obs, okErr(err))
			mutations++
		case kAdd:
			ops = append(ops, vh.App("OAdd", B([]byte(o.l.name)), vh.ZU(o.l.size), cidCoq(o.l.c)))
			obs = append(obs, okErr(n.AddRawLink(o.l.name, &format.Link{Name: "ignored", Size: o.l.size, Cid: o.l.c})))
			mutations++
		case kAddNode:
			// o.l.size indexes the child; the model gets the (size, cid) MakeLink computes
			ch := child(int(o.l.size))
			sz, err := ch.Size()
			if err != nil {
				t.Fatal(err)
			}
			ops = append(ops, vh.App("OAdd", B([]byte(o.l.name)), vh.ZU(sz), cidCoq(ch.Cid())))
			obs = append(obs, okErr(n.AddNodeLink(o.l.name, ch)))
			mutations++
		case kRemove:
			ops = append(ops, vh.App("ORemove", B([]byte(o.l.name))))
			obs = append(obs, okErr(n.RemoveNodeLink(o.l.name)))
			mutations++
		case kSetData:
			ops = append(ops, vh.App("OSetData", dataCoq(o.data)))
			n.SetData(o.data)
			obs = append(obs, "BOk")
			mutations++
		case kSetBuilder:
			if o.bid < 0 {
				ops = append(ops, "(OSetBuilder None)")
				obs = append(obs, okErr(n.SetCidBuilder(nil)))
			} else {
				ops = append(ops, "(OSetBuilder (Some "+vh.Z(int64(builders[o.bid].id))+"))")
				obs = append(obs, okErr(n.SetCidBuilder(builders[o.bid].mk())))
			}
			mutations++
			staleWindow = true
		case kSetBuilderBad:
			ops = append(ops, "OSetBuilderBad")
			obs = append(obs, okErr(n.SetCidBuilder(cid.Prefix{Version: 1, Codec: cid.DagProtobuf, MhType: 0x7ffe, MhLength: -1})))
		case kSetLinks:
			ops = append(ops, vh.App("OSetLinks", vh.ListOf(o.ls, lnk.coq)))
			fl := make([]*format.Link, len(o.ls))
			for i, l := range o.ls {
				fl[i] = &format.Link{Name: l.name, Size: l.size, Cid: l.c}
			}
			obs = append(obs, okErr(n.SetLinks(fl)))
			mutations++
		case kCopy:
			ops = append(ops, "OCopy")
			n = n.Copy().(*merkledag.ProtoNode)
			obs = append(obs, "BOk")
		case kUpdate:
			ch := child(int(o.l.size))
			sz, err := ch.Size()
			if err != nil {
				t.Fatal(err)
			}
			ops = append(ops, vh.App("OUpdate", B([]byte(o.l.name)), vh.ZU(sz), cidCoq(ch.Cid())))
			nn, err := n.UpdateNodeLink(o.l.name, ch)
			if err == nil {
				n = nn
			}
			obs = append(obs, okErr(err))
			mutations++
		case kRedecode:
			ops = append(ops, "ORedecode")
			raw := n.RawData()
			table(raw)
			nn, err := merkledag.DecodeProtobuf(raw)
			if err == nil {
				n = nn
			}
			obs = append(obs, okErr(err))
		case kReblock:
			ops = append(ops, "OReblock")
			raw := n.RawData()
			table(raw)
			blk, err := blocks.NewBlockWithCid(raw, n.Cid())
			if err != nil {
				t.Fatal(err)
			}
			nn, err := merkledag.DecodeProtobufBlock(blk)
			if err == nil {
				n = nn.(*merkledag.ProtoNode)
			}
			obs = append(obs, okErr(err))
		case kCid:
			ops = append(ops, "RCid")
			c := n.Cid()
			obs = append(obs, vh.App("BCid", vh.Z(int64(cidID(c)))))
			table(n.RawData())
			reads++
		case kRaw:
			ops = append(ops, "RRaw")
			raw := n.RawData()
			obs = append(obs, vh.App("BRaw", B(raw)))
			table(raw)
			reads++
		case kLinks:
			ops = append(ops, "RLinks")
			obs = append(obs, vh.App("BLinks", linksCoq(n.Links())))
			reads++
		case kData:
			ops = append(ops, "RData")
			obs = append(obs, vh.App("BData", dataCoq(n.Data())))
		case kTree:
			ops = append(ops, "RTree")
			obs = append(obs, vh.App("BTree", vh.ListOf(n.Tree("", -1), func(s string) string { return B([]byte(s)) })))
			reads++
		case kDecode:
			ops = append(ops, "RDecode")
			raw := n.RawData()
			table(raw)
			obs = append(obs, vh.App("BDecode", decodedCoq(merkledag.DecodeProtobuf(raw))))
			reads++
		}
		nodes[o.node] = n
		if h.multi && o.k != kFork && o.k != kForkUpdate {
			ops[nops] = fmt.Sprintf("(MOp %d%%nat %s)", o.node, ops[nops])
		}
	}
	ctor := "CRun"
	if h.multi {
		ctor = "CMulti"
	}
	term := cur.finish(vh.App(ctor, dataCoq(h.d0), vh.List(tab), vh.List(ops), vh.List(obs)))
	return runResult{term: term, nontrivial: mutations >= 3 && reads >= 3 && (staleWindow || h.multi),
		key: strings.Join(ops, ";") + "|" + dataCoq(h.d0)}
}

var finalReads = []hop{{k: kCid}, {k: kRaw}, {k: kLinks}, {k: kData}, {k: kDecode}}

// ---------- generators ----------

func genData(e *vh.Env) []byte {
	r := e.Rng
	switch x := r.Intn(20); {
	case x < 4:
		return nil
	case x < 7:
		return []byte{}
	case x < 15:
		d := make([]byte, 1+r.Intn(6))
		r.Read(d)
		return d
	case x < 17:
		return bytes.Repeat([]byte{0x80}, 127+r.Intn(3)) // varint length boundary 127/128/129
	case x < 19:
		d := make([]byte, 8+r.Intn(40))
		r.Read(d)
		return d
	}
	if e.Thorough() && r.Intn(4) == 0 {
		return bytes.Repeat([]byte{7}, 1024)
	}
	return bytes.Repeat([]byte{0xfe}, 200)
}

func genName(e *vh.Env) string {
	r := e.Rng
	if r.Intn(12) == 0 {
		al := []byte{'a', 'b', 0, 0xff, 'A'}
		b := make([]byte, r.Intn(4))
		for i := range b {
			b[i] = al[r.Intn(len(al))]
		}
		return string(b)
	}
	i := r.Intn(len(names))
	if i == len(names)-1 && r.Intn(3) != 0 { // the long name only now and then
		i = r.Intn(len(names) - 1)
	}
	return names[i]
}

func genLink(e *vh.Env, allowBad bool) lnk {
	r := e.Rng
	l := lnk{name: genName(e), size: sizes[r.Intn(len(sizes))], c: linkCids[r.Intn(6)]}
	if r.Intn(5) == 0 {
		l.c = linkCids[r.Intn(len(linkCids))]
	}
	if r.Intn(3) == 0 {
		l.size = uint64(r.Intn(1 << 20))
	}
	if allowBad {
		switch r.Intn(25) {
		case 0:
			l.size = badSizes[r.Intn(len(badSizes))]
		case 1:
			l.c = cid.Undef
		}
	}
	return l
}

func genHistory(e *vh.Env) history {
	r := e.Rng
	h := history{d0: genData(e)}
	n := r.Intn(21)
	// a per-history pool of two builders keeps the hash table small
	b1, b2 := r.Intn(len(builders)), r.Intn(len(builders))
	var present []string // names added so far (for removals that hit)
	for i := 0; i < n; i++ {
		var o hop
		switch x := r.Intn(100); {
		case x < 24:
			o = hop{k: kAdd, l: genLink(e, true)}
			present = append(present, o.l.name)
		case x < 30:
			o = hop{k: kAddNode, l: lnk{name: genName(e), size: uint64(r.Intn(6))}}
			present = append(present, o.l.name)
		case x < 40:
			nm := genName(e)
			if len(present) > 0 && r.Intn(4) != 0 {
				nm = present[r.Intn(len(present))]
			}
			o = hop{k: kRemove, l: lnk{name: nm}}
		case x < 48:
			o = hop{k: kSetData, data: genData(e)}
		case x < 60:
			switch r.Intn(5) {
			case 0, 1:
				o = hop{k: kSetBuilder, bid: -1}
			case 2, 3:
				o = hop{k: kSetBuilder, bid: b1}
			default:
				o = hop{k: kSetBuilder, bid: b2}
			}
		case x < 61:
			o = hop{k: kSetBuilderBad}
		case x < 64:
			ls := make([]lnk, r.Intn(5))
			for j := range ls {
				ls[j] = genLink(e, r.Intn(6) == 0)
				present = append(present, ls[j].name)
			}
			o = hop{k: kSetLinks, ls: ls}
		case x < 67:
			o = hop{k: kCopy}
		case x < 71:
			nm := genName(e)
			if len(present) > 0 && r.Intn(2) == 0 {
				nm = present[r.Intn(len(present))]
			}
			o = hop{k: kUpdate, l: lnk{name: nm, size: uint64(r.Intn(6))}}
			present = append(present, nm)
		case x < 73:
			o = hop{k: kRedecode}
		case x < 75:
			o = hop{k: kReblock}
		case x < 83:
			o = hop{k: kCid}
		case x < 89:
			o = hop{k: kRaw}
		case x < 93:
			o = hop{k: kLinks}
		case x < 95:
			o = hop{k: kData}
		case x < 97:
			o = hop{k: kTree}
		default:
			o = hop{k: kDecode}
		}
		h.ops = append(h.ops, o)
	}
	h.ops = append(h.ops, finalReads...)
	return h
}

// genWide: 13..40 links over three names (many duplicates) with short CIDs, so that
// an unstable or non-bytewise sort shows (Go's sorts are insertion sorts below 13 elements).
func genWide(e *vh.Env) history {
	r := e.Rng
	h := history{d0: []byte{byte(r.Intn(256))}}
	n := 13 + r.Intn(28)
	mk := func(i int) lnk {
		return lnk{name: []string{"a", "b", "", "a", "ab"}[r.Intn(5)], size: uint64(i), c: linkCids[r.Intn(6)]}
	}
	if r.Intn(2) == 0 {
		ls := make([]lnk, n)
		for i := range ls {
			ls[i] = mk(i)
		}
		h.ops = append(h.ops, hop{k: kSetLinks, ls: ls})
	} else {
		for i := 0; i < n; i++ {
			h.ops = append(h.ops, hop{k: kAdd, l: mk(i)})
			if r.Intn(12) == 0 {
				h.ops = append(h.ops, hop{k: []opk{kLinks, kCid, kTree}[r.Intn(3)]})
			}
		}
	}
	switch r.Intn(4) {
	case 0:
		h.ops = append(h.ops, hop{k: kCopy})
	case 1:
		h.ops = append(h.ops, hop{k: kRemove, l: lnk{name: "b"}})
	case 2:
		h.ops = append(h.ops, hop{k: kSetBuilder, bid: 1}, hop{k: kReblock})
	}
	h.ops = append(h.ops, hop{k: kCid}, hop{k: kRaw}, hop{k: kLinks})
	return h
}


// genFamily: a family of nodes related by Copy / UpdateNodeLink.  Node 0 gets a few
// links and is usually read (so its links are in sorted order); then forks and
// mutations of any member alternate, and after every mutation ALL OTHER members
// are read back (Links, and Cid or DecodeProtobuf(RawData)); now and then another
// member is forced to re-encode (SetData) before its Cid is read.
func genFamily(e *vh.Env) history {
	r := e.Rng
	h := history{multi: true, d0: []byte{byte(r.Intn(256))}}
	pool := []string{"a", "b", "c", "d", "e", "", "ab"}
	count := 1
	var present []string
	add := func(node int) {
		nm := pool[r.Intn(len(pool))]
		h.ops = append(h.ops, hop{node: node, k: kAdd, l: lnk{name: nm, size: uint64(r.Intn(300)), c: linkCids[r.Intn(6)]}})
		present = append(present, nm)
	}
	for i, n := 0, 2+r.Intn(5); i < n; i++ {
		add(0)
	}
	if r.Intn(5) != 0 {
		h.ops = append(h.ops, hop{node: 0, k: []opk{kCid, kLinks, kRaw, kTree}[r.Intn(4)]})
	}
	sweep := func(except int) {
		for j := 0; j < count; j++ {
			if j == except {
				continue
			}
			h.ops = append(h.ops, hop{node: j, k: kLinks})
			switch r.Intn(6) {
			case 0, 1:
				h.ops = append(h.ops, hop{node: j, k: kCid})
			case 2:
				h.ops = append(h.ops, hop{node: j, k: kDecode})
			case 3:
				h.ops = append(h.ops, hop{node: j, k: kSetData, data: []byte{byte(r.Intn(4))}}, hop{node: j, k: kCid})
			}
		}
	}
	for step, n := 0, 4+r.Intn(9); step < n; step++ {
		i := r.Intn(count)
		switch x := r.Intn(20); {
		case x < 5 && count < 4:
			h.ops = append(h.ops, hop{node: i, k: kFork})
			count++
		case x < 8 && count < 4:
			nm := pool[r.Intn(len(pool))]
			if len(present) > 0 && r.Intn(3) != 0 {
				nm = present[r.Intn(len(present))]
			}
			h.ops = append(h.ops, hop{node: i, k: kForkUpdate, l: lnk{name: nm, size: uint64(r.Intn(6))}})
			present = append(present, nm)
			count++ // UpdateNodeLink with a real child cannot fail
		case x < 14:
			nm := pool[r.Intn(len(pool))]
			if len(present) > 0 && r.Intn(5) != 0 {
				nm = present[r.Intn(len(present))]
			}
			h.ops = append(h.ops, hop{node: i, k: kRemove, l: lnk{name: nm}})
			if r.Intn(3) == 0 {
				add(i)
			}
			if r.Intn(2) == 0 {
				h.ops = append(h.ops, hop{node: i, k: []opk{kLinks, kCid, kTree}[r.Intn(3)]})
			}
			sweep(i)
		case x < 18:
			add(i)
			h.ops = append(h.ops, hop{node: i, k: []opk{kLinks, kCid, kRaw}[r.Intn(3)]})
			sweep(i)
		case x < 19:
			h.ops = append(h.ops, hop{node: i, k: kUpdate, l: lnk{name: pool[r.Intn(len(pool))], size: uint64(r.Intn(6))}})
			sweep(i)
		default:
			h.ops = append(h.ops, hop{node: i, k: []opk{kRedecode, kReblock, kCopy}[r.Intn(3)]})
			sweep(i)
		}
	}
	for j := 0; j < count; j++ {
		h.ops = append(h.ops, hop{node: j, k: kLinks}, hop{node: j, k: kCid}, hop{node: j, k: kDecode})
	}
	return h
}

func familyCorpus() []history {
	A := func(node int, name string, size uint64) hop {
		return hop{node: node, k: kAdd, l: lnk{name, size, linkCids[1]}}
	}
	O := func(node int, k opk) hop { return hop{node: node, k: k} }
	Rm := func(node int, name string) hop { return hop{node: node, k: kRemove, l: lnk{name: name}} }
	hs := []history{
		// remove on the copy, read the original (also after a forced re-encode)
		{d0: []byte("f"), ops: []hop{A(0, "a", 1), A(0, "b", 2), A(0, "c", 3), O(0, kCid), O(0, kFork), Rm(1, "a"), O(0, kLinks), O(0, kDecode),
			{node: 0, k: kSetData, data: []byte("g")}, O(0, kCid), O(0, kDecode), O(1, kLinks)}},
		// UpdateNodeLink on an existing name works on a copy
		{d0: []byte("f"), ops: []hop{A(0, "a", 1), A(0, "b", 2), A(0, "c", 3), O(0, kLinks), {node: 0, k: kForkUpdate, l: lnk{name: "a", size: 2}},
			O(0, kLinks), O(0, kCid), O(0, kDecode), O(1, kLinks), O(1, kCid)}},
		// remove on the original, read the copy
		{d0: nil, ops: []hop{A(0, "a", 1), A(0, "b", 2), A(0, "c", 3), O(0, kRaw), O(0, kFork), Rm(0, "b"), O(0, kLinks), O(1, kLinks), O(1, kCid), O(1, kDecode)}},
		// add to the original (spare capacity) with a name sorting first, sort, read the copy
		{d0: nil, ops: []hop{A(0, "b", 1), A(0, "c", 2), A(0, "d", 3), O(0, kLinks), O(0, kFork), A(0, "a", 4), O(0, kLinks), O(1, kLinks), O(1, kDecode), O(1, kCid)}},
		// remove + add + sort on a copy of a copy
		{d0: []byte("x"), ops: []hop{A(0, "a", 1), A(0, "b", 2), A(0, "c", 3), A(0, "d", 4), O(0, kTree), O(0, kFork), O(1, kFork), Rm(2, "b"), A(2, "", 9), O(2, kLinks),
			O(0, kLinks), O(1, kLinks), O(0, kCid), O(1, kCid)}},
	}
	for i := range hs {
		hs[i].multi = true
		cnt := 1
		for _, o := range hs[i].ops {
			if o.k == kFork || o.k == kForkUpdate {
				cnt++
			}
		}
		for j := 0; j < cnt; j++ {
			hs[i].ops = append(hs[i].ops, hop{node: j, k: kLinks}, hop{node: j, k: kCid})
		}
	}
	return hs
}

func corpus() []history {
	v1, bl, id := 1, 2, 3
	A := func(name string, size uint64, ci int) hop {
		return hop{k: kAdd, l: lnk{name, size, linkCids[ci]}}
	}
	SB := func(b int) hop { return hop{k: kSetBuilder, bid: b} }
	R := func(k opk) hop { return hop{k: k} }
	hs := []history{
		// finding C11-1: v1 CID survives SetCidBuilder(nil)
		{d0: []byte("x"), ops: []hop{SB(v1), R(kCid), SB(-1), R(kCid)}},
		{d0: nil, ops: []hop{A("a", 5, 1), SB(bl), R(kRaw), SB(-1), R(kCid), R(kRaw)}},
		{d0: []byte{}, ops: []hop{SB(id), R(kDecode), SB(-1), R(kCid), {k: kSetData, data: []byte("y")}, R(kCid)}},
		// every other builder change
		{d0: []byte("x"), ops: []hop{R(kCid), SB(v1), R(kCid), SB(0), R(kCid), SB(4), R(kCid), SB(5), R(kCid), SB(bl), R(kCid)}},
		// stale-encoding candidates: read, mutate, read
		{d0: []byte("d"), ops: []hop{R(kCid), A("b", 1, 1), R(kCid), A("a", 2, 2), R(kCid), {k: kRemove, l: lnk{name: "b"}}, R(kCid),
			{k: kSetData, data: nil}, R(kCid), {k: kSetData, data: []byte{}}, R(kCid)}},
		// insertion order independence / sorting
		{d0: []byte("s"), ops: []hop{A("c", 1, 1), A("b", 2, 2), A("a", 3, 3), R(kRaw)}},
		{d0: []byte("s"), ops: []hop{A("a", 3, 3), A("b", 2, 2), A("c", 1, 1), R(kRaw)}},
		// equal names keep insertion order, also across an intermediate in-place sort
		{d0: nil, ops: []hop{A("a", 1, 1), A("", 9, 4), A("a", 2, 2), R(kLinks), A("a", 3, 3), A("", 8, 5), R(kRaw), R(kTree)}},
		{d0: nil, ops: []hop{A("é", 1, 1), A("z", 2, 2), A("\xff", 3, 3), A("B", 4, 4), A("a\x00", 5, 5), A("a", 6, 0), R(kLinks)}},
		// Tsize varint classes and the two refusals
		{d0: nil, ops: []hop{A("t", 0, 1), A("t", 127, 1), A("t", 128, 1), A("t", 16384, 1), A("t", math.MaxInt64, 1),
			A("t", math.MaxInt64+1, 1), {k: kAdd, l: lnk{"u", 1, cid.Undef}}, R(kRaw)}},
		// data nil / empty / Copy normalisation / redecode resets the builder
		{d0: []byte{}, ops: []hop{R(kRaw), R(kCopy), R(kRaw), {k: kSetData, data: []byte{}}, R(kDecode)}},
		{d0: []byte("r"), ops: []hop{SB(v1), A("a", 1, 1), R(kCid), R(kRedecode), R(kCid), A("0", 1, 2), R(kCid)}},
		{d0: []byte("u"), ops: []hop{A("a", 1, 1), A("b", 1, 2), {k: kUpdate, l: lnk{name: "a", size: 3}}, R(kLinks), R(kCid)}},
		{d0: nil, ops: []hop{{k: kSetLinks, ls: []lnk{{"z", 1, linkCids[1]}, {"a", 2, linkCids[2]}}}, R(kCid),
			{k: kSetLinks, ls: []lnk{{"z", math.MaxUint64, linkCids[1]}}}, R(kCid), {k: kSetLinks, ls: nil}, R(kCid)}},
		{d0: nil, ops: []hop{A(strings.Repeat("n", 130), 1, 8), R(kRaw)}},
		{d0: []byte("k"), ops: []hop{SB(bl), A("a", 1, 1), R(kReblock), R(kCid), A("b", 1, 2), R(kCid), SB(-1), R(kCid), R(kReblock), R(kCid)}},
	}
	for i := range hs {
		hs[i].ops = append(hs[i].ops, finalReads...)
	}
	return hs
}

// ---------- decode stream: non-canonical and malformed encodings ----------

func pbVarint(v uint64) []byte {
	var b []byte
	for v >= 0x80 {
		b = append(b, byte(v)|0x80)
		v >>= 7
	}
	return append(b, byte(v))
}

// padded varint: n extra continuation bytes (non-minimal)
func pbVarintPad(v uint64, pad int) []byte {
	b := pbVarint(v)
	for i := 0; i < pad; i++ {
		b[len(b)-1] |= 0x80
		b = append(b, 0)
	}
	return b
}

func pbField(tag byte, payload []byte) []byte {
	return append(append([]byte{tag}, pbVarint(uint64(len(payload)))...), payload...)
}

func genEncoding(e *vh.Env) ([]byte, string) {
	r := e.Rng
	link := func() []byte {
		var parts [][]byte
		c := linkCids[r.Intn(len(linkCids))].Bytes()
		if r.Intn(12) == 0 {
			c = append(c, byte(r.Intn(256))) // trailing byte after the CID
		}
		if r.Intn(25) == 0 && len(c) > 3 {
			c = c[:len(c)-1-r.Intn(2)]
		}
		hash := pbField(0x0a, c)
		name := pbField(0x12, []byte(genName(e)))
		ts := append([]byte{0x18}, pbVarintPad([]uint64{0, 1, 300, 1 << 62, 1 << 63, math.MaxUint64}[r.Intn(6)], r.Intn(8)/7*r.Intn(3))...)
		if r.Intn(15) != 0 {
			parts = append(parts, hash)
		}
		if r.Intn(4) != 0 {
			parts = append(parts, name)
		}
		if r.Intn(4) != 0 {
			parts = append(parts, ts)
		}
		switch r.Intn(30) {
		case 0:
			parts = append(parts, name)
		case 1:
			parts = append(parts, ts)
		case 2:
			parts = append(parts, hash)
		case 3:
			if len(parts) > 1 {
				i, j := r.Intn(len(parts)), r.Intn(len(parts))
				parts[i], parts[j] = parts[j], parts[i]
			}
		case 4:
			parts = append(parts, []byte{byte(r.Intn(8)<<3 | r.Intn(8)), 0})
		case 5:
			parts = append(parts, []byte{0x1a, 0}) // Tsize with wire type 2
		}
		return bytes.Join(parts, nil)
	}
	var segs [][]byte
	nl := r.Intn(4)
	for i := 0; i < nl; i++ {
		segs = append(segs, pbField(0x12, link()))
	}
	kind := "links"
	if r.Intn(3) != 0 {
		dd := genData(e)
		if len(dd) > 12 {
			dd = dd[:12]
		}
		d := pbField(0x0a, dd)
		pos := len(segs)
		switch r.Intn(6) {
		case 0:
			pos = 0
			kind = "data-first"
		case 1:
			pos = r.Intn(len(segs) + 1)
			kind = "data-anywhere"
		default:
			kind = "links-data"
		}
		segs = append(segs[:pos], append([][]byte{d}, segs[pos:]...)...)
		if r.Intn(20) == 0 {
			segs = append(segs, d)
			kind = "dup-data"
		}
	}
	bs := bytes.Join(segs, nil)
	switch r.Intn(12) {
	case 0:
		if len(bs) > 0 {
			bs = bs[:r.Intn(len(bs))]
			kind = "truncated"
		}
	case 1:
		if len(bs) > 0 {
			bs = append([]byte(nil), bs...)
			bs[r.Intn(len(bs))] ^= byte(1 << r.Intn(8))
			kind = "bitflip"
		}
	case 2:
		bs = append(append([]byte(nil), bs...), byte(r.Intn(256)))
		kind = "trailing"
	case 3:
		if len(bs) > 0 {
			bs = append([]byte(nil), bs...)
			bs[r.Intn(len(bs))] = byte(r.Intn(256))
			kind = "bytesub"
		}
	}
	return bs, kind
}

func decodeCorpus() [][]byte {
	c1 := linkCids[1].Bytes()
	c0 := linkCids[6].Bytes()
	join := func(p ...[]byte) []byte { return bytes.Join(p, nil) }
	tenth := func(last byte) []byte { // 10-byte varint
		return append(bytes.Repeat([]byte{0xff}, 9), last)
	}
	return [][]byte{
		{},
		{0x0a, 0x00},
		pbField(0x12, pbField(0x0a, c1)),                                           // no Name, no Tsize
		pbField(0x12, join(pbField(0x0a, c1), []byte{0x18, 0x05})),                 // no Name
		pbField(0x12, join(pbField(0x12, []byte("a")), pbField(0x0a, c1))),         // Name before Hash
		pbField(0x12, join(pbField(0x0a, c1), []byte{0x18, 0x05}, pbField(0x12, []byte("a")))), // Tsize before Name
		pbField(0x12, pbField(0x12, []byte("a"))),                                  // no Hash
		join(pbField(0x12, join(pbField(0x0a, c1), pbField(0x12, []byte("b")))), pbField(0x12, join(pbField(0x0a, c0), pbField(0x12, []byte("a"))))), // unsorted
		join(pbField(0x0a, []byte("d")), pbField(0x12, pbField(0x0a, c1))),         // Data first
		join(pbField(0x12, pbField(0x0a, c1)), pbField(0x0a, []byte("d")), pbField(0x12, pbField(0x0a, c1))), // Links, Data, Links
		join(pbField(0x0a, []byte("d")), pbField(0x0a, []byte("e"))),               // duplicate Data
		pbField(0x12, join(pbField(0x0a, c1), append([]byte{0x18}, tenth(0x01)...))), // Tsize = 2^64-1
		pbField(0x12, join(pbField(0x0a, c1), append([]byte{0x18}, tenth(0x02)...))), // varint overflow
		pbField(0x12, join(pbField(0x0a, c1), append([]byte{0x18}, pbVarintPad(5, 3)...))), // non-minimal Tsize
		pbField(0x12, pbField(0x0a, append(append([]byte(nil), c0...), 1, 2, 3))), // CIDv0 with trailing bytes
		pbField(0x12, pbField(0x0a, c0[:33])),                                      // short CIDv0
		pbField(0x12, pbField(0x0a, []byte{0x01, 0x55, 0x00, 0x05, 0x01})),         // digest shorter than announced
		pbField(0x12, pbField(0x0a, []byte{0x02, 0x55, 0x00, 0x00})),               // CID version 2
		pbField(0x12, pbField(0x0a, []byte{0x81, 0x00, 0x55, 0x00, 0x00})),         // non-minimal version varint
		{0x08, 0x01},       // field 1 wire type 0
		{0x1a, 0x00},       // field 3
		{0x02, 0x00},       // field 0
		{0x0a, 0x05, 0x01}, // truncated Data
		{0x0a},
		{0x12, 0x80},
	}
}

// ---------- entry point ----------

func TestC11(t *testing.T) {
	e := vh.Load(t)
	st := vh.NewStats("histories of 0..20 random ProtoNode calls (AddRawLink/AddNodeLink/RemoveNodeLink/SetData/SetCidBuilder/SetLinks/" +
		"Copy/UpdateNodeLink/re-decode, reads Cid/RawData/Links/Data/Tree/DecodeProtobuf interleaved) + 5 final reads, every answer compared; " +
		"non-trivial = at least 3 mutations, 3 reads and one builder change (families: 3 mutations and 3 reads); distinct by op sequence. " +
		"Every 5th history is a family of up to 4 nodes forked by Copy/UpdateNodeLink: after every mutation of one member all other members are read back. " +
		"Second stream: DecodeProtobuf on non-canonical / malformed encodings against the Coq decoder")
	initSyms()
	cs := vh.NewCases(e, "From V Require Import lib.C11_DagPb model.M_C11.\nOpen Scope Z_scope.\n"+strings.Join(preambleDefs, "\n"), "case", "check_case", 250)
	nRun := e.Pick(1000, 12000)
	nDec := e.Pick(750, 8000)
	hs := append(corpus(), familyCorpus()...)
	for i := 0; i < nRun; i++ {
		var h history
		if i < len(hs) {
			h = hs[i]
			st.Count("corpus")
		} else if i%25 == 7 {
			h = genWide(e)
			st.Count("wide")
		} else if i%5 == 3 {
			h = genFamily(e)
		} else {
			h = genHistory(e)
		}
		res := runHistory(t, h)
		desc := make([]string, len(h.ops))
		for j, o := range h.ops {
			desc[j] = o.String()
			st.Count("op:" + strings.SplitN(desc[j], "(", 2)[0])
			if h.multi {
				desc[j] = fmt.Sprintf("n%d.%s", o.node, desc[j])
			}
		}
		kind := "history"
		if h.multi {
			kind = "family"
			st.Count("family")
		}
		rp := map[string]any{"kind": kind, "data0": h.d0, "data0_nil": h.d0 == nil, "ops": desc}
		cs.Add(res.term, rp)
		st.Case(res.key, res.nontrivial)
		st.Count(fmt.Sprintf("len=%d", min(max(len(h.ops)-len(finalReads), 0)/5*5, 60)))
		st.Sample(rp, 4)
	}
	dc := decodeCorpus()
	for i := 0; i < nDec; i++ {
		var bs []byte
		kind := "corpus"
		if i < len(dc) {
			bs = dc[i]
		} else {
			bs, kind = genEncoding(e)
		}
		n, err := merkledag.DecodeProtobuf(bs)
		cur = newInterner()
		term := cur.finish(vh.App("CDec", lit(bs), decodedCoq(n, err)))
		cur = nil
		rp := map[string]any{"kind": "decode", "bytes": fmt.Sprintf("%x", bs), "gen": kind, "accepted": err == nil}
		cs.Add(term, rp)
		st.Case("D|"+string(bs), len(bs) > 4)
		st.Count("decode:" + kind)
		if err == nil {
			st.Count("decode-accepted")
		} else {
			st.Count("decode-rejected")
		}
		st.Sample(rp, 6)
	}
	cs.Close()
	st.Write(e)
}
