// Correspondence harness for C13 (dag/walker): real dag-pb / dag-cbor / raw
// blocks (with sharing, CIDv0/v1 aliases, cross-codec aliases, identity CIDs,
// missing blocks, locality predicates) are put into a real blockstore and walked
// with WalkDAG / WalkEntityRoots through the blockstore-backed fetchers; a second
// stream drives the same entry points with synthetic fetchers over arbitrary
// (also cyclic) link graphs.  The emitted CID sequences, returned errors and the
// tracker's Has answers are written into cases_*.v and compared inside Coq with
// the stack-machine model, the recursive reference and the set-level
// specification (model/M_C13.v).  BloomTracker chains are driven past several
// growth steps (small capacities through the verif export, the public
// constructor with a Go-side oracle).
package c13

import (
	"context"
	"crypto/sha256"
	"errors"
	"fmt"
	"strings"
	"testing"

	blockstore "github.com/ipfs/boxo/blockstore"
	"github.com/ipfs/boxo/dag/walker"
	"github.com/ipfs/boxo/ipld/merkledag"
	ft "github.com/ipfs/boxo/ipld/unixfs"
	blocks "github.com/ipfs/go-block-format"
	cid "github.com/ipfs/go-cid"
	ds "github.com/ipfs/go-datastore"
	dssync "github.com/ipfs/go-datastore/sync"
	format "github.com/ipfs/go-ipld-format"
	_ "github.com/ipld/go-codec-dagpb"
	"github.com/ipld/go-ipld-prime/codec/dagcbor"
	_ "github.com/ipld/go-ipld-prime/codec/raw"
	"github.com/ipld/go-ipld-prime/datamodel"
	"github.com/ipld/go-ipld-prime/fluent/qp"
	cidlink "github.com/ipld/go-ipld-prime/linking/cid"
	basicnode "github.com/ipld/go-ipld-prime/node/basic"
	mh "github.com/multiformats/go-multihash"

	"verif/harness/vh"
)

// ---------- the harness' own description of a graph (mirrors M_C13.v) ----------

type mnode struct {
	c     cid.Cid
	codec string // CPb CRaw CCbor
	ufs   string // "" or URaw UDirectory UFile UMetadata USymlink UHAMT
	ident bool
	loc   string // LYes LNo LErr
	links []cid.Cid
	open  bool // links valid (fetch succeeds)
}

type world struct {
	nodes  []*mnode
	byCid  map[string]*mnode
	mhID   map[string]int
	bs     blockstore.Blockstore // nil for synthetic worlds
	synEnt map[string]walker.EntityType
}

func newWorld() *world {
	return &world{byCid: map[string]*mnode{}, mhID: map[string]int{}, synEnt: map[string]walker.EntityType{}}
}

func (w *world) mh(c cid.Cid) int {
	k := string(c.Hash())
	if id, ok := w.mhID[k]; ok {
		return id
	}
	id := len(w.mhID) + 1
	w.mhID[k] = id
	return id
}

func variant(c cid.Cid) int {
	if c.Version() == 0 {
		return 0
	}
	switch c.Prefix().Codec {
	case cid.DagProtobuf:
		return 1
	case cid.Raw:
		return 2
	case cid.DagCBOR:
		return 3
	}
	return 9
}

func (w *world) cidCoq(c cid.Cid) string {
	return fmt.Sprintf("(cC %d %d)", variant(c), w.mh(c))
}

func (w *world) cidArgs(c cid.Cid) string { return fmt.Sprintf("%d %d", variant(c), w.mh(c)) }

func (w *world) add(n *mnode) *mnode {
	if old, ok := w.byCid[n.c.KeyString()]; ok {
		return old
	}
	w.byCid[n.c.KeyString()] = n
	w.nodes = append(w.nodes, n)
	w.mh(n.c)
	return n
}

func (w *world) graphCoq() string {
	items := make([]string, len(w.nodes))
	for i, n := range w.nodes {
		ufs := "None"
		if n.ufs != "" {
			ufs = "(Some " + n.ufs + ")"
		}
		links := "None"
		if n.open {
			links = "(Some " + vh.ListOf(n.links, w.cidCoq) + ")"
		}
		items[i] = fmt.Sprintf("(cG %s (mkNode %s %s %s %s %s))", w.cidArgs(n.c), n.codec, ufs, vh.Bool(n.ident), n.loc, links)
	}
	return vh.List(items)
}

// entity type by the harness' own table (for synthetic NodeFetchers)
func entityOf(codec, ufs string) walker.EntityType {
	switch codec {
	case "CRaw":
		return walker.EntityFile
	case "CCbor":
		return walker.EntityUnknown
	}
	switch ufs {
	case "UFile", "URaw":
		return walker.EntityFile
	case "UDirectory":
		return walker.EntityDirectory
	case "UHAMT":
		return walker.EntityHAMTShard
	case "USymlink":
		return walker.EntitySymlink
	}
	return walker.EntityUnknown
}

// ---------- block-backed worlds ----------

var ufsKinds = []string{"UFile", "UFile", "UDirectory", "UDirectory", "UHAMT", "USymlink", "URaw", "UMetadata", "", "garbage"}

func pbData(kind string, uniq int) []byte {
	tag := []byte(fmt.Sprintf("n%d", uniq))
	var t = ft.TFile
	switch kind {
	case "":
		return nil
	case "garbage":
		return append([]byte{0x0f}, tag...) // field 1, wire type 7: not a protobuf
	case "UFile":
		t = ft.TFile
	case "URaw":
		t = ft.TRaw
	case "UDirectory":
		t = ft.TDirectory
	case "UHAMT":
		t = ft.THAMTShard
	case "USymlink":
		t = ft.TSymlink
	case "UMetadata":
		t = ft.TMetadata
	}
	fsn := ft.NewFSNode(t)
	fsn.SetData(tag)
	b, err := fsn.GetBytes()
	if err != nil {
		panic(err)
	}
	return b
}

type blockGen struct {
	e    *vh.Env
	w    *world
	uniq int
	pool []cid.Cid // CIDs that later nodes may link to
	loc  map[string]string
}

func (g *blockGen) locOf(c cid.Cid, useLoc bool) string {
	k := string(c.Hash())
	if v, ok := g.loc[k]; ok {
		return v
	}
	v := "LYes"
	if useLoc {
		switch x := g.e.Rng.Intn(20); {
		case x < 2:
			v = "LNo"
		case x == 2:
			v = "LErr"
		}
	}
	g.loc[k] = v
	return v
}

func (g *blockGen) pickLinks(max int) []cid.Cid {
	r := g.e.Rng
	if len(g.pool) == 0 {
		return nil
	}
	n := r.Intn(max + 1)
	out := make([]cid.Cid, 0, n)
	for i := 0; i < n; i++ {
		var j int
		if r.Intn(3) == 0 {
			j = r.Intn(len(g.pool))
		} else { // recent ones: deeper DAGs
			k := 6
			if k > len(g.pool) {
				k = len(g.pool)
			}
			j = len(g.pool) - 1 - r.Intn(k)
		}
		out = append(out, g.pool[j])
	}
	return out
}

func idCid(codec uint64, data []byte) cid.Cid {
	h, err := mh.Encode(data, mh.IDENTITY)
	if err != nil {
		panic(err)
	}
	return cid.NewCidV1(codec, h)
}

func shaMh(data []byte) mh.Multihash {
	h, err := mh.Sum(data, mh.SHA2_256, -1)
	if err != nil {
		panic(err)
	}
	return h
}

// addBlock creates one block and registers the CID forms under which later
// nodes may link to it.  crossCodec allows the raw-codec alias of a dag-pb block.
func (g *blockGen) addBlock(useLoc, crossCodec bool) {
	r := g.e.Rng
	g.uniq++
	ctx := context.Background()
	stored := r.Intn(10) != 0
	inline := r.Intn(9) == 0
	var data []byte
	var links []cid.Cid
	var codec uint64
	codecName, ufs := "", ""
	switch k := r.Intn(10); {
	case k < 6: // dag-pb
		codec, codecName = cid.DagProtobuf, "CPb"
		kind := ufsKinds[r.Intn(len(ufsKinds))]
		links = g.pickLinks(4)
		if kind == "" && len(links) == 0 {
			kind = "garbage"
		}
		nd := merkledag.NodeWithData(pbData(kind, g.uniq))
		sameName := r.Intn(5) == 0 // equal names: the stable sort keeps insertion order
		for i, l := range links {
			name := fmt.Sprintf("k%04d-%02d", g.uniq, i)
			if sameName {
				name = fmt.Sprintf("k%04d", g.uniq)
			}
			if err := nd.AddRawLink(name, &format.Link{Cid: l}); err != nil {
				panic(err)
			}
		}
		data = nd.RawData()
		if kind != "" && kind != "garbage" {
			ufs = kind
		}
	case k < 8: // dag-cbor: {"a": [l0, {"x": l1}], "b": l2, "c": "name", "d": [[l3]]}
		codec, codecName = cid.DagCBOR, "CCbor"
		links = g.pickLinks(4)
		lk := func(i int) qp.Assemble { return qp.Link(cidlink.Link{Cid: links[i]}) }
		nd, err := qp.BuildMap(basicnode.Prototype.Any, -1, func(ma datamodel.MapAssembler) {
			qp.MapEntry(ma, "a", qp.List(-1, func(la datamodel.ListAssembler) {
				if len(links) > 0 {
					qp.ListEntry(la, lk(0))
				}
				if len(links) > 1 {
					qp.ListEntry(la, qp.Map(-1, func(mb datamodel.MapAssembler) { qp.MapEntry(mb, "x", lk(1)) }))
				}
			}))
			if len(links) > 2 {
				qp.MapEntry(ma, "b", lk(2))
			}
			qp.MapEntry(ma, "c", qp.String(fmt.Sprintf("c%d", g.uniq)))
			if len(links) > 3 {
				qp.MapEntry(ma, "d", qp.List(-1, func(la datamodel.ListAssembler) {
					qp.ListEntry(la, qp.List(-1, func(lb datamodel.ListAssembler) { qp.ListEntry(lb, lk(3)) }))
				}))
			}
		})
		if err != nil {
			panic(err)
		}
		var sb strings.Builder
		if err := dagcbor.Encode(nd, &sb); err != nil {
			panic(err)
		}
		data = []byte(sb.String())
	default: // raw leaf
		codec, codecName = cid.Raw, "CRaw"
		data = []byte(fmt.Sprintf("raw-%d", g.uniq))
	}
	if inline && len(data) < 200 {
		c := idCid(codec, data)
		g.w.add(&mnode{c: c, codec: codecName, ufs: ufs, ident: true, loc: g.locOf(c, useLoc), links: links, open: true})
		g.pool = append(g.pool, c)
		return
	}
	h := shaMh(data)
	if stored {
		blk, err := blocks.NewBlockWithCid(data, cid.NewCidV1(codec, h))
		if err != nil {
			panic(err)
		}
		if err := g.w.bs.Put(ctx, blk); err != nil {
			panic(err)
		}
	}
	reg := func(c cid.Cid, cn, u string, ls []cid.Cid) {
		g.w.add(&mnode{c: c, codec: cn, ufs: u, loc: g.locOf(c, useLoc), links: ls, open: stored})
		g.pool = append(g.pool, c)
	}
	switch codec {
	case cid.DagProtobuf:
		v0, v1 := cid.NewCidV0(h), cid.NewCidV1(cid.DagProtobuf, h)
		switch r.Intn(4) {
		case 0:
			reg(v0, codecName, ufs, links)
		case 1:
			reg(v1, codecName, ufs, links)
		case 2:
			reg(v0, codecName, ufs, links)
			reg(v1, codecName, ufs, links)
		default:
			reg(v1, codecName, ufs, links)
			reg(v0, codecName, ufs, links)
		}
		if crossCodec && r.Intn(3) == 0 {
			// the same bytes seen through the raw codec: no links, a "file"
			c := cid.NewCidV1(cid.Raw, h)
			g.w.add(&mnode{c: c, codec: "CRaw", loc: g.locOf(c, useLoc), links: nil, open: stored})
			// linked to from a random earlier or later position
			if r.Intn(2) == 0 {
				g.pool = append(g.pool, c)
			} else {
				g.pool = append(g.pool[:len(g.pool)-1], c, g.pool[len(g.pool)-1])
			}
		}
	default:
		reg(cid.NewCidV1(codec, h), codecName, ufs, links)
	}
}

func newBS() blockstore.Blockstore {
	return blockstore.NewBlockstore(dssync.MutexWrap(ds.NewMapDatastore()))
}

func genBlockWorld(e *vh.Env, nblocks int, useLoc, crossCodec bool) (*world, *blockGen) {
	w := newWorld()
	w.bs = newBS()
	g := &blockGen{e: e, w: w, loc: map[string]string{}}
	for i := 0; i < nblocks; i++ {
		g.addBlock(useLoc, crossCodec)
	}
	return w, g
}

// ---------- synthetic worlds: arbitrary link graphs behind custom fetchers ----------

func genSynWorld(e *vh.Env, n int, useLoc bool) *world {
	r := e.Rng
	w := newWorld()
	tag := r.Int63()
	var cids []cid.Cid
	for i := 0; i < n; i++ {
		sum := sha256.Sum256([]byte(fmt.Sprintf("syn-%d-%d", tag, i)))
		h, _ := mh.Encode(sum[:], mh.SHA2_256)
		var c cid.Cid
		switch r.Intn(8) {
		case 0:
			c = cid.NewCidV0(h)
		case 1:
			c = cid.NewCidV1(cid.Raw, h)
		case 2:
			c = cid.NewCidV1(cid.DagCBOR, h)
		case 3:
			c = idCid(cid.DagProtobuf, []byte(fmt.Sprintf("i%d-%d", tag, i)))
		default:
			c = cid.NewCidV1(cid.DagProtobuf, h)
		}
		cids = append(cids, c)
		if r.Intn(6) == 0 { // an alias of the same multihash with its own links
			switch {
			case c.Version() == 0:
				cids = append(cids, cid.NewCidV1(cid.DagProtobuf, h))
			case c.Prefix().MhType != mh.IDENTITY:
				cids = append(cids, cid.NewCidV0(h))
			}
		}
	}
	locs := map[string]string{}
	// CIDs of one block under one codec (CIDv0 / CIDv1 dag-pb) are the same node to every
	// fetcher; the same multihash under another codec is free to differ
	sameNode := map[string]*mnode{}
	for _, c := range cids {
		class := variant(c)
		if class == 0 {
			class = 1
		}
		nodeKey := fmt.Sprintf("%d|%s", class, string(c.Hash()))
		if twin, ok := sameNode[nodeKey]; ok {
			m := &mnode{c: c, codec: twin.codec, ufs: twin.ufs, ident: twin.ident, loc: twin.loc, links: twin.links, open: twin.open}
			w.add(m)
			w.synEnt[c.KeyString()] = entityOf(m.codec, m.ufs)
			continue
		}
		codecs := []string{"CPb", "CPb", "CPb", "CRaw", "CCbor"}
		codec := codecs[r.Intn(len(codecs))]
		ufs := ""
		if codec == "CPb" {
			ufs = []string{"", "UFile", "UDirectory", "UDirectory", "UHAMT", "USymlink", "URaw", "UMetadata"}[r.Intn(8)]
		}
		loc, ok := locs[string(c.Hash())]
		if !ok {
			loc = "LYes"
			if useLoc {
				switch x := r.Intn(20); {
				case x < 2:
					loc = "LNo"
				case x == 2:
					loc = "LErr"
				}
			}
			locs[string(c.Hash())] = loc
		}
		nl := r.Intn(5)
		links := make([]cid.Cid, 0, nl)
		for k := 0; k < nl; k++ {
			links = append(links, cids[r.Intn(len(cids))]) // cycles, self links, duplicates
		}
		m := &mnode{c: c, codec: codec, ufs: ufs, ident: c.Prefix().MhType == mh.IDENTITY, loc: loc, links: links, open: r.Intn(9) != 0}
		w.add(m)
		sameNode[nodeKey] = m
		w.synEnt[c.KeyString()] = entityOf(codec, ufs)
	}
	return w
}

var errSyn = errors.New("synthetic fetch failure")

// ---------- running walks ----------

type walkSpec struct {
	root   cid.Cid
	entity bool
	loc    bool
	stop   string // "never" "false" "cancel"
	k      int
}

func (ws walkSpec) coq(w *world) string {
	stop := "SNever"
	switch ws.stop {
	case "false":
		stop = fmt.Sprintf("(SFalseAt %d)", ws.k)
	case "cancel":
		stop = fmt.Sprintf("(SCancelAt %d)", ws.k)
	}
	return fmt.Sprintf("(mkWalk %s %s %s %s)", w.cidCoq(ws.root), vh.Bool(ws.entity), vh.Bool(ws.loc), stop)
}

type walkObs struct {
	emitted []cid.Cid
	res     string
}

func runWalk(t *testing.T, w *world, tr walker.VisitedTracker, ws walkSpec) walkObs {
	ctx, cancel := context.WithCancel(context.Background())
	defer cancel()
	var opts []walker.Option
	if tr != nil {
		opts = append(opts, walker.WithVisitedTracker(tr))
	}
	if ws.loc {
		opts = append(opts, walker.WithLocality(func(_ context.Context, c cid.Cid) (bool, error) {
			n := w.byCid[c.KeyString()]
			if n == nil {
				return false, fmt.Errorf("locality asked for a CID outside the graph")
			}
			switch n.loc {
			case "LYes":
				return true, nil
			case "LNo":
				return false, nil
			}
			return false, errSyn
		}))
	}
	var obs walkObs
	calls := 0
	emit := func(c cid.Cid) bool {
		calls++
		obs.emitted = append(obs.emitted, c)
		if ws.stop == "cancel" && calls >= ws.k {
			cancel()
		}
		if ws.stop == "false" && calls == ws.k {
			return false
		}
		return true
	}
	if ws.stop == "cancel" && ws.k == 0 {
		cancel()
	}
	var err error
	switch {
	case w.bs != nil && ws.entity:
		err = walker.WalkEntityRoots(ctx, ws.root, walker.NodeFetcherFromBlockstore(w.bs), emit, opts...)
	case w.bs != nil:
		err = walker.WalkDAG(ctx, ws.root, walker.LinksFetcherFromBlockstore(w.bs), emit, opts...)
	case ws.entity:
		err = walker.WalkEntityRoots(ctx, ws.root, func(_ context.Context, c cid.Cid) ([]cid.Cid, walker.EntityType, error) {
			n := w.byCid[c.KeyString()]
			if n == nil || !n.open {
				return nil, walker.EntityUnknown, errSyn
			}
			return append([]cid.Cid(nil), n.links...), w.synEnt[c.KeyString()], nil
		}, emit, opts...)
	default:
		err = walker.WalkDAG(ctx, ws.root, func(_ context.Context, c cid.Cid) ([]cid.Cid, error) {
			n := w.byCid[c.KeyString()]
			if n == nil || !n.open {
				return nil, errSyn
			}
			return append([]cid.Cid(nil), n.links...), nil
		}, emit, opts...)
	}
	switch {
	case err == nil:
		obs.res = "RNil"
	case errors.Is(err, context.Canceled):
		obs.res = "RCanceled"
	default:
		t.Fatalf("walk returned an unexpected error: %v", err)
	}
	return obs
}

// size of the tree unfolding below c (walk without a tracker), capped
func unfoldSize(w *world, c cid.Cid, ent, loc bool, budget *int) {
	*budget--
	if *budget < 0 {
		return
	}
	n := w.byCid[c.KeyString()]
	if n == nil || !n.open || (loc && n.loc != "LYes") {
		return
	}
	if ent {
		if et := entityOf(n.codec, n.ufs); et == walker.EntityFile || et == walker.EntitySymlink {
			return
		}
	}
	for _, l := range n.links {
		unfoldSize(w, l, ent, loc, budget)
		if *budget < 0 {
			return
		}
	}
}

type caseOut struct {
	term    string
	replay  map[string]any
	key     string
	nontriv bool
}

func runCase(t *testing.T, e *vh.Env, st *vh.Stats, w *world, tk string, specs []walkSpec, label string) (caseOut, bool) {
	var tr walker.VisitedTracker
	switch tk {
	case "TMap":
		tr = walker.NewMapTracker()
	case "TCidSet":
		tr = cid.NewSet()
	case "TBloom":
		bt, err := walker.NewBloomTracker(walker.MinBloomCapacity, walker.DefaultBloomFPRate)
		if err != nil {
			t.Fatal(err)
		}
		tr = bt
	}
	fuel := 0
	if tk == "TNone" {
		for _, s := range specs {
			if w.bs == nil { // synthetic graphs may be cyclic: no tracker, no termination
				return caseOut{}, false
			}
			b := 600
			unfoldSize(w, s.root, s.entity, s.loc, &b)
			if b < 0 {
				return caseOut{}, false
			}
			if 600-b+2 > fuel {
				fuel = 600 - b + 2
			}
		}
	}
	var obsCoq []string
	total := 0
	var rp []any
	for _, s := range specs {
		o := runWalk(t, w, tr, s)
		for _, c := range o.emitted {
			if w.byCid[c.KeyString()] == nil {
				st.Violate("the walker emitted a CID that is not in the graph: "+c.String(), "", map[string]any{"label": label})
				return caseOut{}, false
			}
		}
		total += len(o.emitted)
		obsCoq = append(obsCoq, "(cO "+vh.ListOf(o.emitted, w.cidCoq)+" "+o.res+")")
		rp = append(rp, map[string]any{"root": s.root.String(), "entity": s.entity, "locality": s.loc, "stop": s.stop, "k": s.k,
			"emitted": len(o.emitted), "res": o.res})
	}
	var has []string
	if tr != nil {
		for _, n := range w.nodes {
			has = append(has, "(cH "+w.cidArgs(n.c)+" "+vh.Bool(tr.Has(n.c))+")")
		}
	}
	term := vh.App("CWalks", w.graphCoq(), tk, vh.Nat(fuel), vh.ListOf(specs, func(s walkSpec) string { return s.coq(w) }),
		vh.List(obsCoq), vh.List(has))
	shared := 0
	seen := map[string]int{}
	for _, n := range w.nodes {
		for _, l := range n.links {
			seen[l.KeyString()]++
		}
	}
	for _, v := range seen {
		if v > 1 {
			shared++
		}
	}
	return caseOut{term: term,
		replay:  map[string]any{"kind": label, "tracker": tk, "nodes": len(w.nodes), "walks": rp, "graph": w.graphCoq()},
		key:     term,
		nontriv: total >= 4 && shared >= 1}, true
}

func pickRoots(e *vh.Env, w *world, pool []cid.Cid, n int) []cid.Cid {
	r := e.Rng
	out := make([]cid.Cid, 0, n)
	for i := 0; i < n; i++ {
		if len(pool) > 0 && r.Intn(4) != 0 {
			k := 5
			if k > len(pool) {
				k = len(pool)
			}
			out = append(out, pool[len(pool)-1-r.Intn(k)])
		} else {
			out = append(out, w.nodes[r.Intn(len(w.nodes))].c)
		}
	}
	return out
}

func genSpecs(e *vh.Env, roots []cid.Cid, useLoc bool, mixed, stops bool) []walkSpec {
	r := e.Rng
	ent := r.Intn(2) == 0
	specs := make([]walkSpec, len(roots))
	for i, rt := range roots {
		s := walkSpec{root: rt, entity: ent, loc: useLoc, stop: "never"}
		if mixed {
			s.entity = r.Intn(2) == 0
			s.loc = useLoc && r.Intn(2) == 0
		}
		if stops && r.Intn(2) == 0 {
			if r.Intn(2) == 0 {
				s.stop, s.k = "false", 1+r.Intn(6)
			} else {
				s.stop, s.k = "cancel", r.Intn(6)
			}
		}
		specs[i] = s
	}
	return specs
}

// ---------- corpus ----------

// finding C13-1: root -> [raw(X), pb(X)], X = dag-pb directory -> Y.  The raw
// alias is visited first, the dag-pb view of X is skipped as "visited", Y is lost.
func corpusCrossCodec(entity bool, order int) (*world, []walkSpec) {
	ctx := context.Background()
	w := newWorld()
	w.bs = newBS()
	put := func(data []byte, c cid.Cid) {
		blk, _ := blocks.NewBlockWithCid(data, c)
		if err := w.bs.Put(ctx, blk); err != nil {
			panic(err)
		}
	}
	yData := []byte("corpus-leaf-Y")
	y := cid.NewCidV1(cid.Raw, shaMh(yData))
	put(yData, y)
	x := merkledag.NodeWithData(ft.FolderPBData())
	x.AddRawLink("y", &format.Link{Cid: y})
	xh := shaMh(x.RawData())
	xPb, xRaw := cid.NewCidV1(cid.DagProtobuf, xh), cid.NewCidV1(cid.Raw, xh)
	put(x.RawData(), xPb)
	w.add(&mnode{c: y, codec: "CRaw", loc: "LYes", open: true})
	w.add(&mnode{c: xPb, codec: "CPb", ufs: "UDirectory", loc: "LYes", links: []cid.Cid{y}, open: true})
	w.add(&mnode{c: xRaw, codec: "CRaw", loc: "LYes", open: true})
	switch order {
	case 0, 1: // one root linking to both views
		rt := merkledag.NodeWithData(ft.FolderPBData())
		first, second := xRaw, xPb
		if order == 1 {
			first, second = xPb, xRaw
		}
		rt.AddRawLink("a", &format.Link{Cid: first})
		rt.AddRawLink("b", &format.Link{Cid: second})
		rc := cid.NewCidV1(cid.DagProtobuf, shaMh(rt.RawData()))
		put(rt.RawData(), rc)
		w.add(&mnode{c: rc, codec: "CPb", ufs: "UDirectory", loc: "LYes", links: []cid.Cid{first, second}, open: true})
		return w, []walkSpec{{root: rc, entity: entity, stop: "never"}}
	default: // two pins sharing the tracker: the raw view first, then the dag-pb view
		return w, []walkSpec{{root: xRaw, entity: entity, stop: "never"}, {root: xPb, entity: entity, stop: "never"}}
	}
}

// identity directory with a normal child, v0/v1 aliases, a missing block, a chunked file
func corpusBasics() (*world, *blockGen) {
	ctx := context.Background()
	w := newWorld()
	w.bs = newBS()
	g := &blockGen{w: w, loc: map[string]string{}}
	putNode := func(nd *merkledag.ProtoNode) mh.Multihash {
		h := shaMh(nd.RawData())
		blk, _ := blocks.NewBlockWithCid(nd.RawData(), cid.NewCidV0(h))
		if err := w.bs.Put(ctx, blk); err != nil {
			panic(err)
		}
		return h
	}
	leafData := []byte("corpus-chunk")
	leaf := cid.NewCidV1(cid.Raw, shaMh(leafData))
	blk, _ := blocks.NewBlockWithCid(leafData, leaf)
	w.bs.Put(ctx, blk)
	w.add(&mnode{c: leaf, codec: "CRaw", loc: "LYes", open: true})
	missing := cid.NewCidV1(cid.Raw, shaMh([]byte("corpus-never-stored")))
	w.add(&mnode{c: missing, codec: "CRaw", loc: "LYes", open: false})
	file := merkledag.NodeWithData(pbData("UFile", 9001))
	file.AddRawLink("", &format.Link{Cid: leaf})
	file.AddRawLink("", &format.Link{Cid: missing})
	fh := putNode(file)
	f0, f1 := cid.NewCidV0(fh), cid.NewCidV1(cid.DagProtobuf, fh)
	w.add(&mnode{c: f0, codec: "CPb", ufs: "UFile", loc: "LYes", links: []cid.Cid{leaf, missing}, open: true})
	w.add(&mnode{c: f1, codec: "CPb", ufs: "UFile", loc: "LYes", links: []cid.Cid{leaf, missing}, open: true})
	idDir := merkledag.NodeWithData(ft.FolderPBData())
	idDir.AddRawLink("f", &format.Link{Cid: f1})
	idc := idCid(cid.DagProtobuf, idDir.RawData())
	w.add(&mnode{c: idc, codec: "CPb", ufs: "UDirectory", ident: true, loc: "LYes", links: []cid.Cid{f1}, open: true})
	root := merkledag.NodeWithData(ft.FolderPBData())
	root.AddRawLink("a", &format.Link{Cid: f0})
	root.AddRawLink("b", &format.Link{Cid: idc})
	root.AddRawLink("c", &format.Link{Cid: leaf})
	rh := putNode(root)
	rc := cid.NewCidV0(rh)
	w.add(&mnode{c: rc, codec: "CPb", ufs: "UDirectory", loc: "LYes", links: []cid.Cid{f0, idc, leaf}, open: true})
	g.pool = []cid.Cid{leaf, missing, f0, f1, idc, rc}
	return w, g
}

// ---------- Bloom chains ----------

func bloomCase(e *vh.Env, st *vh.Stats, capacity uint64, fpRate uint, nops, universe int) (string, map[string]any, string) {
	r := e.Rng
	bpe, hl := walker.BloomParams(fpRate)
	bt, err := walker.VerifNewBloomTracker(capacity, bpe, hl)
	if err != nil {
		panic(err)
	}
	tag := r.Int63()
	keyCid := func(k int, alias bool) cid.Cid {
		sum := sha256.Sum256([]byte(fmt.Sprintf("bloom-%d-%d", tag, k)))
		h, _ := mh.Encode(sum[:], mh.SHA2_256)
		if alias {
			return cid.NewCidV0(h)
		}
		return cid.NewCidV1(cid.DagProtobuf, h)
	}
	ops := make([]string, 0, nops)
	visited := map[int]bool{}
	next := 0
	for i := 0; i < nops; i++ {
		var k int
		if r.Intn(3) != 0 || next == 0 { // mostly new keys, so that the chain grows
			k = next
			next++
			if next > universe {
				next = universe
				k = r.Intn(universe)
			}
		} else {
			k = r.Intn(next)
		}
		c := keyCid(k, r.Intn(2) == 0)
		if r.Intn(4) != 0 {
			ans := bt.Visit(c)
			if visited[k] && ans {
				st.Violate(fmt.Sprintf("BloomTracker.Visit reported a visited CID as new (capacity %d)", capacity), "", map[string]any{"kind": "bloom-small"})
			}
			visited[k] = true
			ops = append(ops, fmt.Sprintf("(%d%%N, true, %s)", k, vh.Bool(ans)))
		} else {
			ans := bt.Has(c)
			ops = append(ops, fmt.Sprintf("(%d%%N, false, %s)", k, vh.Bool(ans)))
		}
	}
	n, lc, ci, tot, dd := bt.VerifCounters()
	if bt.Count() != tot || bt.Deduplicated() != dd {
		st.Violate("Count/Deduplicated disagree with the tracker's counters", "", map[string]any{"kind": "bloom-small"})
	}
	final := fmt.Sprintf("(%d%%nat, %d%%N, %d%%N, %d%%N, %d%%N)", n-1, lc, ci, tot, dd)
	term := vh.App("CBloom", vh.N(capacity), vh.List(ops), final)
	st.Count(fmt.Sprintf("bloom growth steps=%d", min(n-1, 6)))
	return term, map[string]any{"kind": "bloom-small", "capacity": capacity, "fpRate": fpRate, "ops": nops, "growths": n - 1},
		fmt.Sprintf("B|%d|%d|%s", capacity, fpRate, strings.Join(ops, ""))
}

// the public constructor (capacity >= 10000) driven past several growth steps,
// checked against a Go map: no false negatives, counters add up
func bloomBig(t *testing.T, e *vh.Env, st *vh.Stats, growths int) {
	r := e.Rng
	bt, err := walker.NewBloomTracker(walker.MinBloomCapacity, []uint{walker.DefaultBloomFPRate, 1000, 1_000_000}[r.Intn(3)])
	if err != nil {
		t.Fatal(err)
	}
	target := 0
	capn := walker.MinBloomCapacity
	for i := 0; i < growths; i++ {
		target += capn + 1
		capn *= walker.BloomGrowthFactor
	}
	target += 500
	tag := r.Int63()
	mk := func(i int, v0 bool) cid.Cid {
		var buf [40]byte
		copy(buf[:], fmt.Sprintf("%d-%d", tag, i))
		sum := sha256.Sum256(buf[:])
		h, _ := mh.Encode(sum[:], mh.SHA2_256)
		if v0 {
			return cid.NewCidV0(h)
		}
		return cid.NewCidV1(cid.DagProtobuf, h)
	}
	visits, fresh := uint64(0), uint64(0)
	bad := 0
	for i := 0; i < target; i++ {
		if bt.Visit(mk(i, i%2 == 0)) {
			fresh++
		}
		visits++
		if i%7 == 0 { // revisit an old key through the other CID version
			j := r.Intn(i + 1)
			if bt.Visit(mk(j, j%2 != 0)) {
				bad++
			}
			visits++
			if !bt.Has(mk(j, r.Intn(2) == 0)) {
				bad++
			}
		}
	}
	for i := 0; i < target; i += 13 {
		if !bt.Has(mk(i, true)) || bt.Visit(mk(i, false)) {
			bad++
		}
		visits++
	}
	n, lastCap, cur, tot, dd := bt.VerifCounters()
	if bad > 0 {
		st.Violate(fmt.Sprintf("BloomTracker false negative: %d visited CIDs reported unvisited after %d growth steps", bad, n-1), "",
			map[string]any{"kind": "bloom-big", "growths": growths})
	}
	if tot != fresh || tot+dd != visits || bt.Count() != tot {
		st.Violate("BloomTracker counters do not add up", "", map[string]any{"kind": "bloom-big", "total": tot, "dedup": dd, "visits": visits})
	}
	// chain shape from the insert count alone (false positives only lower [fresh])
	wantN, c, left := 1, uint64(walker.MinBloomCapacity), fresh
	for left > c {
		left -= c + 1
		c *= walker.BloomGrowthFactor
		wantN++
	}
	if n != wantN || lastCap != c || cur != left {
		st.Violate(fmt.Sprintf("BloomTracker chain shape: %d filters cap %d cur %d, expected %d/%d/%d after %d inserts", n, lastCap, cur, wantN, c, left, fresh), "",
			map[string]any{"kind": "bloom-big"})
	}
	if n-1 < growths {
		st.Violate(fmt.Sprintf("BloomTracker did not grow: %d filters after %d inserts", n, fresh), "", map[string]any{"kind": "bloom-big"})
	}
	st.Count(fmt.Sprintf("bloom-big growth steps=%d", n-1))
	st.Extra["bloom_big_visits"] = visits
}

// ---------- entry point ----------

func TestC13(t *testing.T) {
	e := vh.Load(t)
	st := vh.NewStats("real blocks (dag-pb with every UnixFS type / dag-cbor with nested links / raw; sharing, CIDv0/v1 and raw-codec aliases, identity CIDs, " +
		"missing blocks, locality yes/no/error) walked by WalkDAG/WalkEntityRoots through the blockstore fetchers, plus synthetic fetchers over " +
		"arbitrary cyclic link graphs; 1-3 walks share a MapTracker/cid.Set/BloomTracker/no tracker; some walks stopped by emit=false or cancellation; " +
		"BloomTracker chains driven past growth steps. Non-trivial walk case = at least 4 emissions and at least one CID linked more than once; " +
		"non-trivial Bloom case = at least one growth step. Distinct by the full case term.")
	cs := vh.NewCases(e, "From V Require Import model.M_C13.", "case", "check_case", 250)
	add := func(c caseOut, bucket string) {
		cs.Add(c.term, c.replay)
		st.Case(c.key, c.nontriv)
		st.Count(bucket)
		st.Sample(map[string]any{"kind": c.replay["kind"], "tracker": c.replay["tracker"], "nodes": c.replay["nodes"], "walks": c.replay["walks"]}, 6)
	}
	// corpus: finding witness first
	for _, ent := range []bool{false, true} {
		for order := 0; order < 3; order++ {
			for _, tk := range []string{"TMap", "TBloom", "TCidSet"} {
				w, specs := corpusCrossCodec(ent, order)
				if c, ok := runCase(t, e, st, w, tk, specs, fmt.Sprintf("corpus-cross-codec-%d", order)); ok {
					add(c, "corpus")
				}
			}
		}
	}
	for _, tk := range []string{"TMap", "TCidSet", "TBloom", "TNone"} {
		for _, ent := range []bool{false, true} {
			w, g := corpusBasics()
			root := g.pool[len(g.pool)-1]
			if c, ok := runCase(t, e, st, w, tk, []walkSpec{{root: root, entity: ent, stop: "never"}}, "corpus-basics"); ok {
				add(c, "corpus")
			}
			w, g = corpusBasics()
			if c, ok := runCase(t, e, st, w, tk, []walkSpec{{root: g.pool[3], entity: ent, stop: "never"}, {root: g.pool[5], entity: ent, stop: "never"}}, "corpus-basics-2"); ok {
				add(c, "corpus")
			}
		}
	}
	nWalk := e.Pick(1500, 20000)
	trackers := []string{"TMap", "TMap", "TMap", "TCidSet", "TBloom", "TNone"}
	for i := 0; i < nWalk; i++ {
		r := e.Rng
		useLoc := r.Intn(3) == 0
		tk := trackers[r.Intn(len(trackers))]
		nw := 1 + r.Intn(3)
		mixed := r.Intn(8) == 0
		stops := r.Intn(5) == 0
		var w *world
		var roots []cid.Cid
		label := "blocks"
		if r.Intn(4) == 0 {
			label = "synthetic"
			n := 1 + r.Intn(25)
			if r.Intn(6) == 0 {
				n = 1 + r.Intn(3)
			}
			w = genSynWorld(e, n, useLoc)
			roots = pickRoots(e, w, nil, nw)
		} else {
			n := 1 + r.Intn(45)
			if r.Intn(8) == 0 {
				n = 1 + r.Intn(4)
			}
			if tk == "TNone" {
				n = 1 + r.Intn(14)
			}
			cross := r.Intn(6) == 0
			if cross {
				label = "blocks-cross-codec"
			}
			var g *blockGen
			w, g = genBlockWorld(e, n, useLoc, cross)
			roots = pickRoots(e, w, g.pool, nw)
		}
		specs := genSpecs(e, roots, useLoc, mixed, stops)
		c, ok := runCase(t, e, st, w, tk, specs, label)
		if !ok {
			st.Count("skipped (no tracker on a graph too large to unfold)")
			continue
		}
		add(c, label+"/"+tk)
		if stops {
			st.Count("with early stops")
		}
		if mixed {
			st.Count("mixed options")
		}
		if useLoc {
			st.Count("with locality")
		}
		st.Count(fmt.Sprintf("walks=%d", nw))
	}
	// Bloom chains with small capacities (verif export): many growth steps
	nBloom := e.Pick(120, 1500)
	caps := []uint64{0, 1, 1, 2, 3, 4, 5, 8, 13, 40}
	rates := []uint{2, 16, 1000, 4_750_000}
	for i := 0; i < nBloom; i++ {
		capn := caps[e.Rng.Intn(len(caps))]
		nops := 20 + e.Rng.Intn(180)
		term, rp, key := bloomCase(e, st, capn, rates[e.Rng.Intn(len(rates))], nops, 30+e.Rng.Intn(200))
		cs.Add(term, rp)
		st.Case(key, rp["growths"].(int) >= 1)
		st.Count("bloom-small")
	}
	bloomBig(t, e, st, e.Pick(2, 3))
	if e.Thorough() {
		bloomBig(t, e, st, 3)
	}
	cs.Close()
	st.Write(e)
}
