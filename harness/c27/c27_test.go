// Correspondence harness for C27 (IPNS record selection): generated multisets of
// marshalled IPNS records with colliding (v2 signature, sequence, expiry) keys are
// handed to the real Validator.Select in many orders; the observed index/error per
// order is written into cases_*.v and compared inside Coq with the model
// (model/M_C27.v: compare + selectRecord) and with the specification (selected
// record maximal in the lexicographic order, selected bytes order-independent).
package c27

import (
	"bytes"
	"encoding/binary"
	"encoding/hex"
	"fmt"
	"math/big"
	"math/rand"
	"sort"
	"strings"
	"testing"
	"time"

	"github.com/ipfs/boxo/ipns"
	"github.com/ipfs/boxo/path"
	ic "github.com/libp2p/go-libp2p/core/crypto"

	"verif/harness/vh"
)

// ---------- tiny protobuf / dag-cbor writers (the harness controls every byte) ----------

func uvarint(x uint64) []byte {
	var b [10]byte
	n := binary.PutUvarint(b[:], x)
	return b[:n]
}
func pbBytes(field int, v []byte) []byte {
	out := uvarint(uint64(field)<<3 | 2)
	out = append(out, uvarint(uint64(len(v)))...)
	return append(out, v...)
}
func pbVarint(field int, v uint64) []byte {
	return append(uvarint(uint64(field)<<3|0), uvarint(v)...)
}

func cborHead(major byte, n uint64) []byte {
	switch {
	case n < 24:
		return []byte{major<<5 | byte(n)}
	case n < 1<<8:
		return []byte{major<<5 | 24, byte(n)}
	case n < 1<<16:
		return []byte{major<<5 | 25, byte(n >> 8), byte(n)}
	case n < 1<<32:
		b := []byte{major<<5 | 26, 0, 0, 0, 0}
		binary.BigEndian.PutUint32(b[1:], uint32(n))
		return b
	}
	b := []byte{major<<5 | 27, 0, 0, 0, 0, 0, 0, 0, 0}
	binary.BigEndian.PutUint64(b[1:], n)
	return b
}
func cborInt(v int64) []byte {
	if v >= 0 {
		return cborHead(0, uint64(v))
	}
	return cborHead(1, uint64(-(v + 1)))
}
func cborText(s string) []byte  { return append(cborHead(3, uint64(len(s))), s...) }
func cborBytes(b []byte) []byte { return append(cborHead(2, uint64(len(b))), b...) }

type kv struct {
	k string
	v []byte // encoded value
}

func cborMap(kvs []kv, canonical bool) []byte {
	if canonical {
		sort.SliceStable(kvs, func(i, j int) bool {
			if len(kvs[i].k) != len(kvs[j].k) {
				return len(kvs[i].k) < len(kvs[j].k)
			}
			return kvs[i].k < kvs[j].k
		})
	}
	out := cborHead(5, uint64(len(kvs)))
	for _, e := range kvs {
		out = append(out, cborText(e.k)...)
		out = append(out, e.v...)
	}
	return out
}

// ---------- record specifications (ground truth of the generator) ----------

type recSpec struct {
	v2      bool   // field 8 present (possibly empty)
	seqOK   bool   // Sequence() readable
	seqI    int64  // the int64 stored under "Sequence"
	eolOK   bool   // Validity() readable
	eolSec  int64  // instant
	eolNsec int64  //
	raw     []byte // marshalled record
	note    string
}

func (r recSpec) eolBig() *big.Int {
	b := new(big.Int).Mul(big.NewInt(r.eolSec), big.NewInt(1_000_000_000))
	return b.Add(b, big.NewInt(r.eolNsec))
}
func (r recSpec) coq() string {
	return vh.App("mkRec", vh.Bool(r.v2), vh.Opt(r.seqOK, vh.Z(r.seqI)), vh.Opt(r.eolOK, vh.ZBig(r.eolBig())), vh.Bytes(r.raw))
}
func (r recSpec) keyString() string {
	return fmt.Sprintf("%v|%v|%d|%v|%d.%d", r.v2, r.seqOK, uint64(r.seqI), r.eolOK, r.eolSec, r.eolNsec)
}

var seqPool = []uint64{0, 1, 2, 3, 255, 256, 1<<63 - 1, 1 << 63, 1<<63 + 1, 1<<64 - 2, 1<<64 - 1}

type instant struct{ sec, nsec int64 }

var eolPool = []instant{
	{1893456000, 0},         // 2030-01-01T00:00:00Z
	{1893456000, 1},         // + 1ns
	{1893456000, 999999999}, //
	{1893456001, 0},         // + 1s
	{1893455999, 999999999}, // - 1ns
	{253402300799, 999999999}, // 9999-12-31T23:59:59.999999999Z
	{-1, 500000000},         // 1969-12-31T23:59:59.5Z (before the epoch)
	{0, 0},
}

// formatInstant renders the instant as RFC3339Nano in one of several zones: the
// same instant has several textual forms, all of which Validity() must map to one key.
func formatInstant(i instant, form int) string {
	t := time.Unix(i.sec, i.nsec)
	if i.sec > 253402300799-86400 && form%4 == 1 {
		form = 2 // a positive offset would print year 10000, which RFC3339 cannot parse
	}
	switch form % 4 {
	case 0:
		return t.UTC().Format(time.RFC3339Nano)
	case 1:
		return t.In(time.FixedZone("", 3600)).Format(time.RFC3339Nano)
	case 2:
		return t.In(time.FixedZone("", -5*3600-1800)).Format(time.RFC3339Nano)
	}
	// explicit nine fractional digits, UTC
	return t.UTC().Format("2006-01-02T15:04:05.000000000Z07:00")
}

type genOpts struct {
	v2Mode   int // 0 normal signature, 1 present but empty, 2 absent
	seqMode  int // 0 int64 reinterpretation, 1 missing, 2 text, 3 cbor unsigned > MaxInt64 (only for seq >= 2^63)
	eolMode  int // 0 ok, 1 malformed text, 2 validity type 1, 3 Validity missing, 4 ValidityType missing
	form     int
	v1       bool // legacy fields present
	noncanon bool // CBOR keys in non-canonical order
	unknown  int  // trailing unknown protobuf field (0 = none)
	fieldRev bool // protobuf fields emitted in descending order
	value    string
	ttl      int64
	sigByte  byte
}

func build(seq uint64, eol instant, o genOpts) recSpec {
	r := recSpec{v2: o.v2Mode != 2, seqOK: true, seqI: int64(seq), eolOK: true, eolSec: eol.sec, eolNsec: eol.nsec}
	validity := formatInstant(eol, o.form)
	var kvs []kv
	kvs = append(kvs, kv{"Value", cborBytes([]byte(o.value))})
	kvs = append(kvs, kv{"TTL", cborInt(o.ttl)})
	switch o.seqMode {
	case 0:
		kvs = append(kvs, kv{"Sequence", cborInt(int64(seq))})
	case 1:
		r.seqOK = false
	case 2:
		kvs = append(kvs, kv{"Sequence", cborText("7")})
		r.seqOK = false
	case 3:
		if seq > 1<<63-1 {
			kvs = append(kvs, kv{"Sequence", cborHead(0, seq)})
			r.seqOK = false
		} else {
			kvs = append(kvs, kv{"Sequence", cborHead(0, seq)})
		}
	}
	switch o.eolMode {
	case 0:
		kvs = append(kvs, kv{"Validity", cborBytes([]byte(validity))}, kv{"ValidityType", cborInt(0)})
	case 1:
		kvs = append(kvs, kv{"Validity", cborBytes([]byte("2030-01-01 00:00:00"))}, kv{"ValidityType", cborInt(0)})
		r.eolOK = false
	case 2:
		kvs = append(kvs, kv{"Validity", cborBytes([]byte(validity))}, kv{"ValidityType", cborInt(1)})
		r.eolOK = false
	case 3:
		kvs = append(kvs, kv{"ValidityType", cborInt(0)})
		r.eolOK = false
	case 4:
		kvs = append(kvs, kv{"Validity", cborBytes([]byte(validity))})
		r.eolOK = false
	}
	if o.noncanon {
		for i, j := 0, len(kvs)-1; i < j; i, j = i+1, j-1 {
			kvs[i], kvs[j] = kvs[j], kvs[i]
		}
	}
	data := cborMap(kvs, !o.noncanon)
	var fields [][]byte
	if o.v1 {
		fields = append(fields, pbBytes(1, []byte(o.value)), pbBytes(2, []byte{o.sigByte, 1}), pbVarint(3, 0),
			pbBytes(4, []byte(validity)), pbVarint(5, seq), pbVarint(6, uint64(o.ttl)))
	}
	switch o.v2Mode {
	case 0:
		fields = append(fields, pbBytes(8, []byte{o.sigByte, 2, 3}))
	case 1:
		fields = append(fields, pbBytes(8, nil))
	}
	fields = append(fields, pbBytes(9, data))
	if o.unknown != 0 {
		fields = append(fields, pbVarint(15, uint64(o.unknown)))
	}
	if o.fieldRev {
		for i, j := 0, len(fields)-1; i < j; i, j = i+1, j-1 {
			fields[i], fields[j] = fields[j], fields[i]
		}
	}
	r.raw = bytes.Join(fields, nil)
	r.note = fmt.Sprintf("seq=%d eol=%d.%09d %+v", seq, eol.sec, eol.nsec, o)
	return r
}

// realRecord issues a record with the library itself (Ed25519), optionally strips
// the v2 signature afterwards.
func realRecord(sk ic.PrivKey, seq uint64, eol instant, ttl time.Duration, v1 bool, value string) recSpec {
	p, err := path.NewPath(value)
	if err != nil {
		panic(err)
	}
	rec, err := ipns.NewRecord(sk, p, seq, time.Unix(eol.sec, eol.nsec), ttl, ipns.WithV1Compatibility(v1))
	if err != nil {
		panic(err)
	}
	raw, err := ipns.MarshalRecord(rec)
	if err != nil {
		panic(err)
	}
	return recSpec{v2: true, seqOK: true, seqI: int64(seq), eolOK: true, eolSec: eol.sec, eolNsec: eol.nsec, raw: raw,
		note: fmt.Sprintf("library record seq=%d eol=%d.%09d v1=%v", seq, eol.sec, eol.nsec, v1)}
}

// ---------- permutations ----------

func allPerms(n int) [][]int {
	var out [][]int
	p := make([]int, n)
	for i := range p {
		p[i] = i
	}
	var rec func(k int)
	rec = func(k int) {
		if k == n {
			out = append(out, append([]int(nil), p...))
			return
		}
		for i := k; i < n; i++ {
			p[k], p[i] = p[i], p[k]
			rec(k + 1)
			p[k], p[i] = p[i], p[k]
		}
	}
	rec(0)
	return out
}

func somePerms(rng *rand.Rand, n, k int) [][]int {
	id := make([]int, n)
	rev := make([]int, n)
	for i := range id {
		id[i], rev[i] = i, n-1-i
	}
	out := [][]int{id, rev}
	for s := 1; s < n; s++ { // rotations: every record is first once
		rot := make([]int, n)
		for i := range rot {
			rot[i] = (i + s) % n
		}
		out = append(out, rot)
	}
	for len(out) < k {
		out = append(out, rng.Perm(n))
	}
	return out
}

type rngReader struct{ r *rand.Rand }

func (r rngReader) Read(p []byte) (int, error) { return r.r.Read(p) }

func TestC27(t *testing.T) {
	e := vh.Load(t)
	rng := e.Rng
	st := vh.NewStats("multisets of 0..8 marshalled IPNS records (hand-encoded protobuf+dag-cbor and library-issued Ed25519 records) " +
		"with colliding sequence numbers (incl. 2^63-1, 2^63, 2^64-1), colliding expiries (same instant in several RFC3339 forms), " +
		"with/without/empty v2 signature, duplicates, same-key-different-bytes variants and unreadable sequence/validity; " +
		"each handed to Validator.Select under all permutations (n<=4 always, n=5,6 for a share) or identity+reverse+rotations+random ones; " +
		"non-trivial = n>=3 and two records with different bytes share (v2,seq,eol); distinct by (multiset bytes, orders)")
	cs := vh.NewCases(e, "From V Require Import lib.Lex model.M_C27.\nOpen Scope Z_scope.", "case", "check_case", 40)

	sk, _, err := ic.GenerateEd25519Key(rngReader{rng})
	if err != nil {
		t.Fatal(err)
	}
	v := ipns.Validator{}

	emitAcc := func(r recSpec) {
		rec, err := ipns.UnmarshalRecord(r.raw)
		if err != nil {
			t.Fatalf("generated record does not unmarshal: %v (%s)", err, r.note)
		}
		seq, eol := "None", "None"
		if s, err := rec.Sequence(); err == nil {
			seq = "(Some " + vh.ZU(s) + ")"
		}
		if tm, err := rec.Validity(); err == nil {
			b := new(big.Int).Mul(big.NewInt(tm.Unix()), big.NewInt(1_000_000_000))
			b.Add(b, big.NewInt(int64(tm.Nanosecond())))
			eol = "(Some " + vh.ZBig(b) + ")"
		}
		cs.Add(vh.App("CAcc", r.coq(), seq, eol), map[string]any{"kind": "accessors", "raw": hex.EncodeToString(r.raw), "note": r.note})
		st.Case("A|"+hex.EncodeToString(r.raw), false)
		st.Count("accessor-case")
	}

	run := func(recs []recSpec, perms [][]int, label string) {
		obs := make([]string, len(perms))
		var keyb strings.Builder
		for k, p := range perms {
			vals := make([][]byte, len(p))
			for i, ix := range p {
				vals[i] = recs[ix].raw
			}
			i, err := v.Select("/ipns/x", vals)
			if err != nil {
				if i != -1 {
					t.Fatalf("Select returned index %d with error %v", i, err)
				}
				obs[k] = "OErr"
			} else {
				if i < 0 || i >= len(p) {
					// out-of-range index without error: let Coq flag it (OIdx beyond the list)
					if i < 0 {
						t.Fatalf("Select returned negative index %d without error", i)
					}
				}
				obs[k] = vh.App("OIdx", vh.Nat(i))
			}
			fmt.Fprintf(&keyb, "%v;", p)
		}
		term := vh.App("CSel", vh.ListOf(recs, func(r recSpec) string { return r.coq() }),
			vh.ListOf(perms, func(p []int) string { return vh.ListOf(p, func(i int) string { return vh.Nat(i) }) }),
			vh.List(obs))
		hexes := make([]string, len(recs))
		notes := make([]string, len(recs))
		for i, r := range recs {
			hexes[i] = hex.EncodeToString(r.raw)
			notes[i] = r.note
		}
		rp := map[string]any{"kind": "select", "label": label, "records_hex": hexes, "records": notes, "orders": len(perms)}
		cs.Add(term, rp)
		nontrivial := false
		if len(recs) >= 3 {
			seen := map[string][]byte{}
			for _, r := range recs {
				if prev, ok := seen[r.keyString()]; ok && !bytes.Equal(prev, r.raw) {
					nontrivial = true
				}
				seen[r.keyString()] = r.raw
			}
		}
		st.Case(strings.Join(hexes, ",")+"|"+keyb.String(), nontrivial)
		st.Count(fmt.Sprintf("n=%d", len(recs)))
		st.Count("orders-total")
		for range perms[1:] {
			st.Count("orders-total")
		}
		wfAll := true
		for _, r := range recs {
			if !r.seqOK || !r.eolOK {
				wfAll = false
			}
		}
		if !wfAll {
			st.Count("with-unreadable-seq-or-validity")
		}
		st.Sample(rp, 4)
	}

	base := genOpts{value: "/ipfs/bafkqaaa", ttl: 300, sigByte: 9}
	with := func(f func(o *genOpts)) genOpts { o := base; f(&o); return o }
	I := eolPool[0]

	// ---- corpus: hand-written boundary multisets, all permutations ----
	corpus := [][]recSpec{
		{}, // no records: error
		{build(5, I, with(func(o *genOpts) { o.seqMode = 1 }))}, // single record, unreadable sequence: index 0, no comparison
		// tie on everything but the bytes
		{build(5, I, base), build(5, I, with(func(o *genOpts) { o.sigByte = 10 })), build(5, I, with(func(o *genOpts) { o.unknown = 1 }))},
		// identical bytes twice + a smaller one
		{build(5, I, base), build(5, I, base), build(4, eolPool[3], base)},
		// sequence numbers around 2^63: uint64 order, not int64 order
		{build(1<<63-1, I, base), build(1<<63, I, base), build(1<<64-1, I, base), build(0, I, base)},
		// expiry decides; same instant in different textual forms ties
		{build(7, eolPool[0], base), build(7, eolPool[1], base), build(7, eolPool[1], with(func(o *genOpts) { o.form = 1 })), build(7, eolPool[4], base)},
		// v2 beats sequence beats expiry; empty-but-present v2 counts as present
		{build(9, eolPool[3], with(func(o *genOpts) { o.v2Mode = 2; o.v1 = true })), build(1, eolPool[0], with(func(o *genOpts) { o.v2Mode = 1 })), build(1, eolPool[0], base), build(0, eolPool[5], base)},
		// valid-looking records, one without Sequence: error in every order
		{build(5, I, base), build(6, I, with(func(o *genOpts) { o.seqMode = 1 })), build(7, I, base)},
		// unreadable validity is only reached when v2 and sequence tie: order-dependent error (outside the property's domain, model must agree)
		{build(1, I, with(func(o *genOpts) { o.eolMode = 1 })), build(1, I, base), build(2, I, base)},
		{build(1, I, with(func(o *genOpts) { o.v2Mode = 2; o.seqMode = 2 })), build(1, I, base), build(2, I, base)},
		// library-issued records
		{realRecord(sk, 3, eolPool[0], time.Minute, true, "/ipfs/bafkqaaa"), realRecord(sk, 3, eolPool[0], time.Hour, true, "/ipfs/bafkqaaa"),
			realRecord(sk, 3, eolPool[0], time.Minute, false, "/ipfs/bafkqaaa"), realRecord(sk, 1<<63, eolPool[4], time.Minute, false, "/ipfs/bafkqaaa")},
	}
	for ci, recs := range corpus {
		perms := allPerms(len(recs))
		run(recs, perms, fmt.Sprintf("corpus-%d", ci))
		for _, r := range recs {
			emitAcc(r)
		}
	}

	// ---- generated multisets ----
	nCases := e.Pick(260, 2400)
	fullBudget5, fullBudget6 := e.Pick(6, 40), e.Pick(2, 12)
	for c := 0; c < nCases; c++ {
		n := 2 + rng.Intn(7) // 2..8
		if rng.Intn(12) == 0 {
			n = rng.Intn(2)
		}
		// a family with few distinct sequence numbers / expiries so keys collide
		nSeq, nEol := 1+rng.Intn(3), 1+rng.Intn(2)
		seqs := make([]uint64, nSeq)
		for i := range seqs {
			if rng.Intn(5) == 0 {
				seqs[i] = rng.Uint64()
			} else {
				seqs[i] = seqPool[rng.Intn(len(seqPool))]
			}
		}
		eols := make([]instant, nEol)
		for i := range eols {
			eols[i] = eolPool[rng.Intn(len(eolPool))]
		}
		hostile := rng.Intn(7) == 0
		recs := make([]recSpec, 0, n)
		for len(recs) < n {
			if len(recs) > 0 && rng.Intn(6) == 0 { // exact duplicate
				recs = append(recs, recs[rng.Intn(len(recs))])
				continue
			}
			seq, eol := seqs[rng.Intn(nSeq)], eols[rng.Intn(nEol)]
			if rng.Intn(8) == 0 {
				recs = append(recs, realRecord(sk, seq, eol, time.Duration(rng.Intn(3))*time.Minute, rng.Intn(2) == 0, "/ipfs/bafkqaaa"))
				continue
			}
			o := base
			o.form = rng.Intn(4)
			o.sigByte = byte(rng.Intn(3))
			o.ttl = int64(rng.Intn(2))
			o.v1 = rng.Intn(4) == 0
			if rng.Intn(5) == 0 {
				o.v2Mode = 1 + rng.Intn(2)
			}
			if rng.Intn(6) == 0 {
				o.unknown = 1 + rng.Intn(2)
			}
			if rng.Intn(10) == 0 {
				o.noncanon = true
			}
			if rng.Intn(10) == 0 {
				o.fieldRev = true
			}
			if rng.Intn(3) == 0 {
				o.value = "/ipfs/bafkqaaa/" + string(rune('a'+rng.Intn(2)))
			}
			if seq > 1<<63-1 && rng.Intn(10) == 0 || seq <= 1<<63-1 && rng.Intn(3) == 0 {
				o.seqMode = 3
			}
			if hostile && rng.Intn(4) == 0 {
				if rng.Intn(2) == 0 {
					o.seqMode = 1 + rng.Intn(2)
				} else {
					o.eolMode = 1 + rng.Intn(4)
				}
			}
			recs = append(recs, build(seq, eol, o))
		}
		var perms [][]int
		switch {
		case n <= 4:
			perms = allPerms(n)
		case n == 5 && fullBudget5 > 0:
			fullBudget5--
			perms = allPerms(n)
		case n == 6 && fullBudget6 > 0:
			fullBudget6--
			perms = allPerms(n)
		default:
			perms = somePerms(rng, n, 40)
		}
		run(recs, perms, fmt.Sprintf("gen-%d", c))
		if c%4 == 0 {
			for _, r := range recs {
				emitAcc(r)
			}
		}
	}
	cs.Close()
	st.Write(e)
}
