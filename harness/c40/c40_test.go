// Correspondence harness for C40 (keystore/keystore.go, keystore/memkeystore.go).
//
// Every case runs one generated sequence of Put/Get/Has/Delete/List on a real
// FSKeystore (in a fresh temp directory with decoy siblings) and on a real
// MemKeystore, records both answer sequences, the final listing of the keystore
// directory (file name, which key its content is) and whether anything outside the
// keystore directory changed.  Coq replays the sequence on the model and checks the
// specification (FS agrees with memory, everything confined).
package c40

import (
	"bytes"
	"crypto/sha256"
	"encoding/base32"
	"errors"
	"fmt"
	"io/fs"
	"math/rand"
	"os"
	"path/filepath"
	"sort"
	"strings"
	"syscall"
	"testing"

	"github.com/ipfs/boxo/keystore"
	ci "github.com/libp2p/go-libp2p/core/crypto"

	"verif/harness/vh"
)

const nKeys = 6 // key ids 0..4 are used by operations, 5 is the content of pre-existing files

type op struct {
	kind string // Put Get Has Del Lst
	name string
	key  int
}

// bn renders a byte string: printable ASCII as a string literal, anything else as a list (N_scope is open in the cases files)
func bn(s string) string {
	if s != "" {
		if lit, ok := vh.Str(s); ok {
			return "(sb " + lit + "%string)"
		}
	}
	return vh.Bytes([]byte(s))
}

func (o op) coq() string {
	switch o.kind {
	case "Put":
		return "(Put " + bn(o.name) + " " + fmt.Sprint(o.key) + ")"
	case "Lst":
		return "Lst"
	}
	return "(" + o.kind + " " + bn(o.name) + ")"
}

type world struct {
	keys    []ci.PrivKey
	marshal [][]byte
}

func (w *world) keyID(k ci.PrivKey) int {
	for i, x := range w.keys {
		if x.Equals(k) {
			return i
		}
	}
	return 999
}
func (w *world) contentID(b []byte) int {
	for i, x := range w.marshal {
		if bytes.Equal(x, b) {
			return i
		}
	}
	return 999
}

func errClass(err error) string {
	switch {
	case err == nil:
		return "ROk"
	case errors.Is(err, keystore.ErrKeyExists):
		return "RExists"
	case errors.Is(err, keystore.ErrNoSuchKey):
		return "RNoKey"
	}
	return "ROther"
}

func apply(w *world, ks keystore.Keystore, o op) string {
	switch o.kind {
	case "Put":
		return errClass(ks.Put(o.name, w.keys[o.key]))
	case "Get":
		k, err := ks.Get(o.name)
		if err != nil {
			return errClass(err)
		}
		return fmt.Sprintf("(RKey %d)", w.keyID(k))
	case "Has":
		b, err := ks.Has(o.name)
		if err != nil {
			return errClass(err)
		}
		return "(RBool " + vh.Bool(b) + ")"
	case "Del":
		return errClass(ks.Delete(o.name))
	}
	l, err := ks.List()
	if err != nil {
		return errClass(err)
	}
	sort.Strings(l)
	return "(RList " + vh.ListOf(l, bn) + ")"
}

// snapshot of everything under root except root/skip: path -> type|mode|size|sha256
func snapshot(root, skip string) map[string]string {
	out := map[string]string{}
	filepath.Walk(root, func(p string, info fs.FileInfo, err error) error {
		if err != nil {
			out[p] = "ERR"
			return nil
		}
		if p == skip {
			out[p] = "KS|" + info.Mode().String()
			return filepath.SkipDir
		}
		d := fmt.Sprintf("%s|%d", info.Mode().String(), info.Size())
		if info.Mode().IsRegular() {
			b, _ := os.ReadFile(p)
			d += fmt.Sprintf("|%x", sha256.Sum256(b))
		}
		if info.IsDir() {
			d = info.Mode().String()
		}
		out[p] = d
		return nil
	})
	return out
}

func sameSnap(a, b map[string]string) bool {
	if len(a) != len(b) {
		return false
	}
	for k, v := range a {
		if b[k] != v {
			return false
		}
	}
	return true
}

// ---- generators ----
var hostile = []string{
	"a", "A", "b", "foo", "Foo", "FOO", "bar", "..", ".", "/", "../x", "../../x", "../secret", "a/b", "/etc/passwd", "sub/inner",
	"\x00", "a\x00b", "é", "e\u0301", "ß", "ss", "key_", "key_mfrgg", "mfrgg", "MFRGG", "abc", "ab", "abcd", "abcde", "abcdef",
	" ", "a ", " a", "\n", "a\n", "\r\n", "~", "*", "?", "\\", "C:\\x", "con", "nul", ".hidden", "a.", "=", "a=", "\xff", "\xff\xfe\xfd",
	"🥳", "secret", "ks", "decoy",
}

func genName(r *rand.Rand, longOK bool) string {
	switch r.Intn(12) {
	case 0:
		// lengths around the file name limit: 4 + ceil(8n/5) <= 255 <=> n <= 156
		ls := []int{150, 154, 155, 156, 156, 157, 158, 160, 200, 255, 300}
		if !longOK {
			ls = ls[:5]
		}
		n := ls[r.Intn(len(ls))]
		c := "ax/\x00."[r.Intn(5)]
		return strings.Repeat(string([]byte{c}), n)
	case 1:
		b := make([]byte, 1+r.Intn(8))
		r.Read(b)
		return string(b)
	case 2:
		return hostile[r.Intn(len(hostile))] + hostile[r.Intn(len(hostile))]
	case 3:
		return "" // outside the property: both keystores refuse it on Put, they differ on the rest
	}
	return hostile[r.Intn(len(hostile))]
}

type foreign struct {
	name string
}

var foreignNames = []string{"README", "key_", "key_!!", "key_MFRGG", "key_mfrgg", "KEY_mfrgg", "key_ma", "key_m\xc3\xa9", "key_mfrggzdf", "key", "key_mfrgg.tmp", ".key_mfrgg", "key_mf======"}

// Where the keystore directory lives: its name (possibly containing glob metacharacters) and sibling directories
// that hold FOREIGN key files. Whatever the path looks like, the keystore must behave as the same map and must
// never report (or read) the siblings' keys.
type place struct {
	name     string
	siblings []string
}

var places = []place{
	{"ks", nil},
	{"keys[1]", []string{"keys1"}},
	{"k*", []string{"ks", "kx", "k"}},
	{"a?b", []string{"axb", "a1b"}},
	{"[a-z]", []string{"k", "a"}},
	{"k\\s", []string{"ks"}},
	{"keys[1", []string{"keys1"}},
	{"*", []string{"other", "sub2"}},
	{"ks[!x]", []string{"ksy"}},
}

func keyFileName(name string) string {
	return "key_" + strings.ToLower(base32.StdEncoding.WithPadding(base32.NoPadding).EncodeToString([]byte(name)))
}

func runCase(t *testing.T, e *vh.Env, w *world, cs *vh.Cases, st *vh.Stats, ops []op, d0 []string, pl place, tag string) {
	root := t.TempDir()
	ksdir := filepath.Join(root, pl.name)
	for _, sib := range pl.siblings {
		os.MkdirAll(filepath.Join(root, sib), 0o700)
		for _, fn := range []string{"foreign", "other/key", "a"} {
			if err := os.WriteFile(filepath.Join(root, sib, keyFileName(fn)), w.marshal[nKeys-1], 0o400); err != nil {
				t.Fatalf("harness: sibling key file: %v", err)
			}
		}
	}
	os.WriteFile(filepath.Join(root, "secret"), []byte("s3cret"), 0o600)
	os.WriteFile(filepath.Join(root, "x"), []byte("x"), 0o644)
	os.WriteFile(filepath.Join(root, "key_mfrgg"), []byte("decoy"), 0o644)
	os.MkdirAll(filepath.Join(root, "sub"), 0o755)
	os.WriteFile(filepath.Join(root, "sub", "inner"), []byte("inner"), 0o644)
	os.MkdirAll(filepath.Join(root, "etc"), 0o755)
	if len(d0) > 0 {
		os.Mkdir(ksdir, 0o700)
		for _, f := range d0 {
			if err := os.WriteFile(filepath.Join(ksdir, f), w.marshal[nKeys-1], 0o400); err != nil {
				t.Fatalf("harness: cannot create pre-existing file %q: %v", f, err)
			}
		}
	}
	fsks, err := keystore.NewFSKeystore(ksdir)
	if err != nil {
		t.Fatalf("NewFSKeystore: %v", err)
	}
	before := snapshot(root, ksdir)
	mem := keystore.NewMemKeystore()
	fsRes := make([]string, len(ops))
	memRes := make([]string, len(ops))
	for i, o := range ops {
		fsRes[i] = apply(w, fsks, o)
		memRes[i] = apply(w, mem, o)
		st.Count("op/" + o.kind)
		st.Count("fs/" + strings.Trim(strings.SplitN(fsRes[i], " ", 2)[0], "("))
	}
	after := snapshot(root, ksdir)
	outsideOK := sameSnap(before, after)
	// final listing of the keystore directory
	ents, err := os.ReadDir(ksdir)
	if err != nil {
		t.Fatalf("ReadDir: %v", err)
	}
	final := make([]string, 0, len(ents))
	for _, en := range ents {
		id := 998 // not a regular file
		if en.Type().IsRegular() {
			b, _ := os.ReadFile(filepath.Join(ksdir, en.Name()))
			id = w.contentID(b)
		}
		final = append(final, "("+bn(en.Name())+", "+fmt.Sprint(id)+")")
	}
	d0c := vh.ListOf(d0, func(f string) string { return "(" + bn(f) + ", " + fmt.Sprint(nKeys-1) + ")" })
	term := "(COps " + d0c + " " + vh.ListOf(ops, op.coq) + " " + vh.List(fsRes) + " " + vh.List(memRes) + " " +
		vh.List(final) + " " + vh.Bool(outsideOK) + ")"
	desc := make([]string, len(ops))
	for i, o := range ops {
		desc[i] = fmt.Sprintf("%s %q %d", o.kind, o.name, o.key)
	}
	rp := map[string]any{"ops": desc, "preexisting": d0, "keystore_dir": pl.name, "sibling_dirs_with_foreign_keys": pl.siblings, "from": tag}
	st.Count("ksdir/" + pl.name)
	cs.Add(term, rp)
	distinct := map[string]bool{}
	puts := 0
	for _, o := range ops {
		distinct[o.name] = true
		if o.kind == "Put" {
			puts++
		}
	}
	st.Case(strings.Join(desc, ";")+"|"+strings.Join(d0, ";")+"|"+pl.name, len(ops) >= 4 && puts >= 1)
	st.Count(fmt.Sprintf("len=%d0s", len(ops)/10))
	if len(d0) > 0 {
		st.Count("preexisting-files")
	}
	st.Sample(rp, 5)
}

func TestC40(t *testing.T) {
	e := vh.Load(t)
	w := &world{}
	kr := rand.New(rand.NewSource(e.Seed*7919 + 17))
	for i := 0; i < nKeys; i++ {
		k, _, err := ci.GenerateEd25519Key(kr)
		if err != nil {
			t.Fatal(err)
		}
		b, err := ci.MarshalPrivateKey(k)
		if err != nil {
			t.Fatal(err)
		}
		w.keys = append(w.keys, k)
		w.marshal = append(w.marshal, b)
	}
	// the model assumes NAME_MAX = 255; probe the temp file system
	probe := t.TempDir()
	e255 := os.WriteFile(filepath.Join(probe, strings.Repeat("n", 255)), nil, 0o600)
	e256 := os.WriteFile(filepath.Join(probe, strings.Repeat("n", 256)), nil, 0o600)
	longOK := e255 == nil && errors.Is(e256, syscall.ENAMETOOLONG)

	st := vh.NewStats("sequences of <= 30 Put/Get/Has/Delete/List on FSKeystore and MemKeystore over a per-case pool of 2..6 names " +
		"(slashes, dot-dot, NUL, unicode and its normalisation/case variants, base32 look-alikes, every base32 tail length, " +
		"lengths 150..300 around the 255-byte file name limit, occasionally the empty name), 5 keys; a fifth of the cases start " +
		"from a keystore directory with pre-existing files (undecodable, upper-case, valid); decoy files next to the keystore " +
		"directory are snapshotted before/after; a third of the cases keep the keystore in a directory whose path contains glob " +
		"metacharacters (keys[1], k*, a?b, [a-z], k\\s, keys[1, *, ks[!x]) next to sibling directories holding foreign key files. non-trivial = >= 4 operations including a Put; distinct by (ops, pre-existing files)")
	st.Extra["name_max_255"] = longOK
	cs := vh.NewCases(e, "From V Require Import model.M_C40.\nOpen Scope N_scope.", "case", "check_case", 250)

	P := func(n string, k int) op { return op{"Put", n, k} }
	G := func(n string) op { return op{"Get", n, 0} }
	H := func(n string) op { return op{"Has", n, 0} }
	D := func(n string) op { return op{"Del", n, 0} }
	L := op{"Lst", "", 0}
	long156, long157 := strings.Repeat("a", 156), strings.Repeat("a", 157)
	corpus := []struct {
		ops []op
		d0  []string
	}{
		{[]op{D("a")}, nil}, // witness of finding C40-1
		{[]op{P("a", 0), D("a"), D("a"), L}, nil},
		{[]op{L, P("foo", 0), P("foo", 1), G("foo"), H("foo"), H("bar"), G("bar"), L, D("foo"), H("foo"), L}, nil},
		{[]op{P("../secret", 0), P("/etc/passwd", 1), P("..", 2), P(".", 3), P("a/b", 4), L, G("../secret"), D("../secret"), H("../secret"), L}, nil},
		{[]op{P("Foo", 0), P("foo", 1), P("FOO", 2), G("Foo"), G("foo"), G("FOO"), L}, nil},
		{[]op{P("é", 0), P("e\u0301", 1), G("é"), G("e\u0301"), L}, nil},
		{[]op{P("a\x00b", 0), P("a", 1), P("a\x00", 2), G("a"), G("a\x00b"), L}, nil},
		{[]op{P("a", 0), P("ab", 1), P("abc", 2), P("abcd", 3), P("abcde", 4), P("abcdef", 0), L, D("abc"), L}, nil},
		{[]op{P("mfrgg", 0), P("abc", 1), P("key_mfrgg", 2), L, G("abc")}, nil},
	}
	if longOK {
		corpus = append(corpus, struct {
			ops []op
			d0  []string
		}{[]op{P(long156, 0), P(long157, 1), G(long156), G(long157), H(long157), D(long157), L, D(long156), L}, nil})
	}
	corpus = append(corpus, struct {
		ops []op
		d0  []string
	}{[]op{L, G("abc"), P("abc", 0), D("abc"), L, G("abc"), H("")}, foreignNames})
	for i, c := range corpus {
		runCase(t, e, w, cs, st, c.ops, c.d0, places[0], fmt.Sprintf("corpus%d", i))
	}
	// the same map behaviour in directories whose PATH contains glob metacharacters, next to directories with foreign keys
	for i, pl := range places[1:] {
		runCase(t, e, w, cs, st, []op{P("mine", 0), P("a/b", 1), P("..", 2), L, G("mine"), H("foreign"), G("foreign"), D("mine"), L, P("foreign", 3), L},
			nil, pl, fmt.Sprintf("corpus-place%d", i))
	}
	n := e.Pick(900, 10000)
	r := e.Rng
	for i := 0; i < n; i++ {
		pool := make([]string, 2+r.Intn(5))
		for j := range pool {
			pool[j] = genName(r, longOK)
		}
		nops := r.Intn(31)
		ops := make([]op, nops)
		for j := range ops {
			nm := pool[r.Intn(len(pool))]
			switch x := r.Intn(20); {
			case x < 7:
				ops[j] = P(nm, r.Intn(nKeys-1))
			case x < 11:
				ops[j] = G(nm)
			case x < 14:
				ops[j] = H(nm)
			case x < 18:
				ops[j] = D(nm)
			default:
				ops[j] = L
			}
		}
		var d0 []string
		if r.Intn(5) == 0 {
			for _, f := range foreignNames {
				if r.Intn(3) == 0 {
					d0 = append(d0, f)
				}
			}
		}
		pl := places[0]
		if r.Intn(3) == 0 {
			pl = places[1+r.Intn(len(places)-1)]
		}
		runCase(t, e, w, cs, st, ops, d0, pl, "gen")
	}
	cs.Close()
	st.Write(e)
}
