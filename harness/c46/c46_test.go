// Correspondence harness for C46 (peering): a real peerHandler (built as AddPeer builds it) is
// driven through generated orders of its steps — notifications, deferred
// startIfDisconnected/stopIfConnected calls, timer expiries, dial outcomes, stop — against a fake
// host whose Connect parks until the harness releases it.  After every step the timer state,
// the backoff value and the dial counts are observed and written into cases_*.v, where Coq
// replays the same event list on the model variants and judges the observed trace against the
// specification (model/M_C46.v).  A second part drives the real PeeringService (real goroutines)
// through schedule-independent scenarios to tie the glue (Start/Stop/AddPeer/RemovePeer/notifee).
package c46

import (
	"context"
	"errors"
	"fmt"
	"strings"
	"sync"
	"testing"
	"time"

	"github.com/ipfs/boxo/peering"
	"github.com/libp2p/go-libp2p/core/connmgr"
	"github.com/libp2p/go-libp2p/core/host"
	"github.com/libp2p/go-libp2p/core/network"
	"github.com/libp2p/go-libp2p/core/peer"
	"github.com/libp2p/go-libp2p/core/test"

	"verif/harness/vh"
)

// ---- fake host ----
type fakeNet struct {
	network.Network
	mu        sync.Mutex
	connected map[peer.ID]bool
	notifiees []network.Notifiee
	onQuery   func() // one-shot: runs right after the next Connectedness query has read the state
}

func (n *fakeNet) Connectedness(p peer.ID) network.Connectedness {
	n.mu.Lock()
	c := n.connected[p]
	hook := n.onQuery
	n.onQuery = nil
	n.mu.Unlock()
	if hook != nil {
		hook()
	}
	if c {
		return network.Connected
	}
	return network.NotConnected
}
func (n *fakeNet) set(p peer.ID, c bool) {
	n.mu.Lock()
	n.connected[p] = c
	n.mu.Unlock()
}
func (n *fakeNet) Notify(f network.Notifiee) {
	n.mu.Lock()
	n.notifiees = append(n.notifiees, f)
	n.mu.Unlock()
}
func (n *fakeNet) StopNotify(f network.Notifiee) {
	n.mu.Lock()
	defer n.mu.Unlock()
	for i, g := range n.notifiees {
		if g == f {
			n.notifiees = append(n.notifiees[:i], n.notifiees[i+1:]...)
			return
		}
	}
}
func (n *fakeNet) notify(p peer.ID, up bool) {
	n.mu.Lock()
	fs := append([]network.Notifiee(nil), n.notifiees...)
	n.mu.Unlock()
	for _, f := range fs {
		if up {
			f.Connected(n, fakeConn{p: p})
		} else {
			f.Disconnected(n, fakeConn{p: p})
		}
	}
}

type fakeConn struct {
	network.Conn
	p peer.ID
}

func (c fakeConn) RemotePeer() peer.ID { return c.p }

type dialReq struct{ release chan int } // 0 = fail, 1 = ok, 2 = ok but the peer drops again before Connect returns

type fakeHost struct {
	host.Host
	net    *fakeNet
	parked chan dialReq // a Connect call announces itself here and waits for release
	mu     sync.Mutex
	live   int
	dead   int
	auto   *bool // when non-nil: do not park, answer with *auto (service-level scenarios)
}

func newFakeHost() *fakeHost {
	return &fakeHost{net: &fakeNet{connected: map[peer.ID]bool{}}, parked: make(chan dialReq)}
}
func (h *fakeHost) Network() network.Network         { return h.net }
func (h *fakeHost) ConnManager() connmgr.ConnManager { return connmgr.NullConnMgr{} }
func (h *fakeHost) Connect(ctx context.Context, pi peer.AddrInfo) error {
	ok := 0
	if h.auto != nil {
		if *h.auto {
			ok = 1
		}
	} else {
		req := dialReq{release: make(chan int)}
		h.parked <- req
		ok = <-req.release
	}
	h.mu.Lock()
	defer h.mu.Unlock()
	if err := ctx.Err(); err != nil {
		h.dead++
		return err
	}
	h.live++
	switch ok {
	case 1:
		h.net.set(pi.ID, true)
		return nil
	case 2:
		h.net.set(pi.ID, false)
		return nil
	}
	return errors.New("dial failed")
}
func (h *fakeHost) counts() (int, int) {
	h.mu.Lock()
	defer h.mu.Unlock()
	return h.live, h.dead
}

// ---- one handler-level run ----
type runner struct {
	t          *testing.T
	host       *fakeHost
	h          *peering.VerifHandler
	p          peer.ID
	registered bool
	connected  bool
	pstart     int
	pstop      int
	inDial     *dialReq
	done       chan struct{}
	events     []string // Coq (ev, observed) pairs
	obs        []string
	desc       []string
}

func newRunner(t *testing.T, conn0 bool) *runner {
	p, err := test.RandPeerID()
	if err != nil {
		t.Fatal(err)
	}
	h := newFakeHost()
	h.net.set(p, conn0)
	return &runner{t: t, host: h, p: p, h: peering.VerifNewHandler(h, peer.AddrInfo{ID: p}),
		registered: true, connected: conn0, pstart: 1}
}

func (r *runner) observe() string {
	ex, sch := r.h.TimerState()
	live, dead := r.host.counts()
	return fmt.Sprintf("{| o_exists := %s; o_scheduled := %s; o_delay := %d; o_live := %d%%nat; o_dead := %d%%nat |}",
		vh.Bool(ex), vh.Bool(sch), int64(r.h.NextDelay()), live, dead)
}
func (r *runner) emit(ev string, observed bool, desc string) {
	r.events = append(r.events, "("+ev+", "+vh.Bool(observed)+")")
	if observed {
		r.obs = append(r.obs, r.observe())
	}
	r.desc = append(r.desc, desc)
}

// do performs one event if it is enabled; it reports whether it was.
func (r *runner) do(kind string) bool {
	switch kind {
	case "conn":
		r.host.net.set(r.p, true)
		r.connected = true
		if r.registered {
			r.pstop++
		}
		r.emit("EConn", true, "conn")
	case "disc":
		r.host.net.set(r.p, false)
		r.connected = false
		if r.registered {
			r.pstart++
		}
		r.emit("EDisc", true, "disc")
	case "runstart":
		if r.pstart == 0 {
			return false
		}
		r.pstart--
		r.h.StartIfDisconnected()
		r.emit(fmt.Sprintf("(ERunStart %d)", int64(r.h.NextDelay())), true, "runstart")
	case "runstop":
		if r.pstop == 0 {
			return false
		}
		r.pstop--
		r.h.StopIfConnected()
		r.emit("ERunStop", true, "runstop")
	case "runstopflap":
		// the deferred stopIfConnected call runs while the peer is connected; right after it has read the
		// connection state the connection drops and the Disconnected notification's startIfDisconnected is
		// attempted concurrently (it can only run once stopIfConnected has released the handler's lock)
		if r.pstop == 0 || !r.connected || !r.registered || r.inDial != nil {
			return false
		}
		r.pstop--
		flapDone := make(chan struct{})
		r.host.net.mu.Lock()
		r.host.net.onQuery = func() {
			go func() {
				r.host.net.set(r.p, false)
				r.h.StartIfDisconnected()
				close(flapDone)
			}()
			select {
			case <-flapDone:
			case <-time.After(10 * time.Millisecond):
			}
		}
		r.host.net.mu.Unlock()
		r.h.StopIfConnected()
		r.host.net.mu.Lock()
		unused := r.host.net.onQuery != nil
		r.host.net.onQuery = nil
		r.host.net.mu.Unlock()
		if unused {
			// no timer: stopIfConnected did not look at the connection state, nothing flapped
			r.emit("ERunStop", true, "runstop")
			return true
		}
		select {
		case <-flapDone:
		case <-time.After(30 * time.Second):
			r.t.Fatalf("startIfDisconnected did not return")
		}
		r.connected = false
		r.emit("ERunStop", false, "runstop (peer drops right after the state was read)")
		r.emit("EDisc", false, "disc")
		r.emit(fmt.Sprintf("(ERunStart %d)", int64(r.h.NextDelay())), true, "runstart")
	case "fire":
		if r.inDial != nil {
			return false
		}
		if !r.h.Fire() {
			return false
		}
		r.done = make(chan struct{})
		go func() { r.h.Reconnect(); close(r.done) }()
		select {
		case req := <-r.host.parked:
			r.inDial = &req
		case <-time.After(30 * time.Second):
			r.t.Fatalf("reconnect did not reach Connect")
		}
		r.emit("EFire", true, "fire")
	case "dialok", "dialfail", "dialdrop":
		if r.inDial == nil {
			return false
		}
		rel := map[string]int{"dialfail": 0, "dialok": 1, "dialdrop": 2}[kind]
		cancelledBefore := !r.registered
		if cancelledBefore {
			rel = 0 // Connect fails on the cancelled context whatever the network would do
		}
		r.inDial.release <- rel
		select {
		case <-r.done:
		case <-time.After(30 * time.Second):
			r.t.Fatalf("reconnect did not return")
		}
		r.inDial = nil
		r.emit(fmt.Sprintf("(EDialRet %s)", vh.Bool(rel != 0)), false, kind)
		if rel != 0 {
			r.connected = true
			if r.registered {
				r.pstop++
			}
		}
		if rel == 2 {
			// the connection came up (Connect returns nil) and went down again before reconnect's tail
			r.connected = false
			if r.registered {
				r.pstart++
			}
			r.emit("EDisc", false, "drop")
		}
		r.emit(fmt.Sprintf("(ETail1 %d)", int64(r.h.NextDelay())), false, "tail1")
		r.emit("ETail2", true, "tail2")
	case "stop":
		r.h.Stop()
		r.registered = false
		r.emit("EStop", true, "stop")
	}
	return true
}

// finish releases a parked dial so that no goroutine is left behind.
func (r *runner) finish() {
	if r.inDial != nil {
		r.do("dialfail")
	}
	r.h.Stop()
}

var kinds = []string{"conn", "disc", "runstart", "runstart", "runstop", "runstopflap", "fire", "fire", "dialok", "dialfail", "dialfail", "dialdrop", "stop"}

func TestC46(t *testing.T) {
	e := vh.Load(t)
	st := vh.NewStats("handler level: a real peerHandler driven through generated step orders (<= 30 steps) of " +
		"conn/disc notifications, deferred start/stop calls, timer expiry, dial ok/fail (Connect parked by the fake host), stop; " +
		"observed after every step: timer exists/scheduled, backoff value, Connect calls with live/cancelled context; " +
		"non-trivial = contains a timer expiry and (a stop with work still pending, or a connect/disconnect while a dial is parked); " +
		"service level: real PeeringService scenarios with real goroutines judged by a Go oracle")
	cs := vh.NewCases(e, "From V Require Import model.M_C46.\nOpen Scope Z_scope.", "tcase", "check_tcase", 200)
	sk, err := skeletons()
	if err != nil {
		t.Fatalf("cannot read the handler methods: %v", err)
	}
	for _, name := range []string{"stop", "stopIfConnected", "startIfDisconnected", "reconnect"} {
		q, _ := vh.Str(sk[name])
		cs.Add(vh.App("TSkel", "\""+name+"\"%string", q+"%string"), map[string]any{"kind": "atomic-section skeleton", "method": name, "skeleton": sk[name]})
		st.Case("skel-"+name, false)
		st.Count("skeleton")
	}

	corpus := [][]string{
		{"stop", "runstart"},                                                                         // C46-1: deferred start after stop
		{"runstart", "fire", "stop", "dialfail"},                                                     // stop during a dial
		{"runstart", "fire", "dialok", "disc", "runstart"},                                           // reconnect, drop, re-arm
		{"runstart", "fire", "dialdrop", "runstart", "runstop"},                                      // C46-2: Connect succeeds, peer drops before the tail
		{"runstart", "fire", "dialfail", "fire", "dialfail", "fire", "dialfail", "fire", "dialfail"}, // growing backoff
		{"runstart", "conn", "runstopflap"},                                                          // connect-then-drop flap inside stopIfConnected
		{"runstart", "fire", "dialok", "runstart", "runstopflap", "fire", "dialfail"},
		{"conn", "runstart", "runstop", "disc", "runstart", "stop", "conn", "disc", "runstart", "runstop"},
		// 18 consecutive failed dials: the backoff reaches the 10-minute cap and its jitter band
		{"runstart", "fire", "dialfail", "fire", "dialfail", "fire", "dialfail", "fire", "dialfail", "fire", "dialfail", "fire", "dialfail",
			"fire", "dialfail", "fire", "dialfail", "fire", "dialfail", "fire", "dialfail", "fire", "dialfail", "fire", "dialfail",
			"fire", "dialfail", "fire", "dialfail", "fire", "dialfail", "fire", "dialfail", "fire", "dialfail", "fire", "dialfail"},
	}
	n := e.Pick(600, 12000)
	for i := 0; i < n; i++ {
		conn0 := false
		var script []string
		if i < len(corpus) {
			script = corpus[i]
		} else {
			conn0 = e.Rng.Intn(4) == 0
			l := 3 + e.Rng.Intn(28)
			for k := 0; k < l; k++ {
				script = append(script, kinds[e.Rng.Intn(len(kinds))])
			}
			// most runs stop late or never, so that the running phase is explored in depth
			if e.Rng.Intn(3) != 0 {
				for k := range script {
					if script[k] == "stop" && k < l-3 {
						script[k] = "disc"
					}
				}
			}
		}
		r := newRunner(t, conn0)
		hasFire, stopPending, midDial := false, false, false
		for _, k := range script {
			if (k == "conn" || k == "disc") && r.inDial != nil {
				midDial = true
			}
			if k == "stop" && (r.pstart > 0 || r.inDial != nil) {
				stopPending = true
			}
			if r.do(k) && k == "fire" {
				hasFire = true
			}
		}
		r.finish()
		term := fmt.Sprintf("(TRun {| c_conn0 := %s; c_events := %s; c_obs := %s |})", vh.Bool(conn0), vh.List(r.events), vh.List(r.obs))
		rp := map[string]any{"initially_connected": conn0, "steps": strings.Join(r.desc, " ")}
		cs.Add(term, rp)
		st.Case(strings.Join(r.desc, " "), hasFire && (stopPending || midDial))
		st.Count(fmt.Sprintf("steps=%d", len(r.desc)/8*8))
		if hasFire {
			st.Count("with-timer-expiry")
		}
		if stopPending {
			st.Count("stop-with-work-pending")
		}
		st.Sample(rp, 6)
	}
	cs.Close()

	serviceScenarios(t, e, st)
	st.Write(e)
}

// eventually polls cond for up to 20 s (only a failing run waits that long).
func eventually(cond func() bool) bool {
	deadline := time.Now().Add(20 * time.Second)
	for time.Now().Before(deadline) {
		if cond() {
			return true
		}
		time.Sleep(2 * time.Millisecond)
	}
	return cond()
}

// serviceScenarios ties the service glue: outcomes here do not depend on the goroutine schedule.
func serviceScenarios(t *testing.T, e *vh.Env, st *vh.Stats) {
	rounds := e.Pick(20, 200)
	for i := 0; i < rounds; i++ {
		h := newFakeHost()
		fail := false
		h.auto = &fail
		ps := peering.NewPeeringService(h)
		np := 1 + e.Rng.Intn(4)
		var ids []peer.ID
		for k := 0; k < np; k++ {
			p, _ := test.RandPeerID()
			ids = append(ids, p)
			if e.Rng.Intn(2) == 0 { // some before Start, some after
				ps.AddPeer(peer.AddrInfo{ID: p})
			}
		}
		if err := ps.Start(); err != nil {
			t.Fatal(err)
		}
		for _, p := range ids {
			ps.AddPeer(peer.AddrInfo{ID: p}) // idempotent for those already added
		}
		scheduled := func(p peer.ID) bool {
			v := peering.VerifServiceHandler(ps, p)
			if v == nil {
				return false
			}
			_, s := v.TimerState()
			return s
		}
		exists := func(p peer.ID) bool {
			v := peering.VerifServiceHandler(ps, p)
			if v == nil {
				return false
			}
			x, _ := v.TimerState()
			return x
		}
		rp := map[string]any{"kind": "service", "peers": np, "round": i}
		// every disconnected peer gets a reconnect scheduled
		for _, p := range ids {
			if !eventually(func() bool { return scheduled(p) }) {
				st.Violate("service: a disconnected peering peer has no reconnect scheduled after Start/AddPeer", "", rp)
			}
		}
		// a connection notification clears the timer; a disconnection re-arms it
		p0 := ids[e.Rng.Intn(np)]
		h.net.set(p0, true)
		h.net.notify(p0, true)
		if !eventually(func() bool { return !exists(p0) }) {
			st.Violate("service: timer still present after the peer connected", "", rp)
		}
		h.net.set(p0, false)
		h.net.notify(p0, false)
		if !eventually(func() bool { return scheduled(p0) }) {
			st.Violate("service: no reconnect scheduled after the peer disconnected", "", rp)
		}
		// remove one peer, stop the service: handlers must end with no timer
		var removed *peering.VerifHandler
		if np > 1 {
			removed = peering.VerifServiceHandler(ps, ids[0])
			ps.RemovePeer(ids[0])
		}
		handlers := []*peering.VerifHandler{}
		for _, p := range ids {
			if v := peering.VerifServiceHandler(ps, p); v != nil {
				handlers = append(handlers, v)
			}
		}
		ps.Stop()
		if removed != nil {
			handlers = append(handlers, removed)
		}
		time.Sleep(5 * time.Millisecond) // let deferred goroutines run
		for _, v := range handlers {
			if x, s := v.TimerState(); x || s {
				st.Violate("service: a timer exists after Stop/RemovePeer", "", rp)
			}
		}
		st.Case(fmt.Sprintf("service-%d-%d", np, i), true)
		st.Count("service-scenario")
	}
}
