package c46

import (
	"go/ast"
	"go/parser"
	"go/printer"
	"go/token"
	"os"
	"path/filepath"
	"strings"
)

// skeletons extracts, for the peerHandler methods the model treats as atomic steps, the order of
// context cancellation, lock operations, timer operations, Connect and the tests guarding them.
// The model's step structure (M_C46.v) is justified only while these skeletons are what the model
// file records; a difference is reported as a broken correspondence.
func skeletons() (map[string]string, error) {
	repo := os.Getenv("VERIF_REPO")
	if repo == "" {
		repo = "/repo"
	}
	fset := token.NewFileSet()
	f, err := parser.ParseFile(fset, filepath.Join(repo, "peering", "peering.go"), nil, 0)
	if err != nil {
		return nil, err
	}
	src := func(n ast.Node) string {
		var b strings.Builder
		printer.Fprint(&b, fset, n)
		return b.String()
	}
	var stmts func(list []ast.Stmt) []string
	classifyCall := func(s string, deferred bool) string {
		p := ""
		if deferred {
			p = "defer-"
		}
		switch {
		case strings.HasPrefix(s, "logger."):
			return ""
		case s == "ph.cancel()":
			return p + "cancel"
		case s == "ph.mu.Lock()":
			return p + "lock"
		case s == "ph.mu.Unlock()":
			return p + "unlock"
		case s == "ph.reconnectTimer.Stop()":
			return p + "tstop"
		case strings.HasPrefix(s, "ph.reconnectTimer.Reset("):
			return p + "treset"
		case s == "ph.stopIfConnected()":
			return p + "call-stopIfConnected"
		case s == "ph.startIfDisconnected()":
			return p + "call-startIfDisconnected"
		}
		return p + "other"
	}
	cond := func(e ast.Expr) string {
		s := src(e)
		var parts []string
		if strings.Contains(s, "ph.ctx.Err()") {
			parts = append(parts, "ctx")
		}
		if strings.Contains(s, "ph.reconnectTimer == nil") {
			parts = append(parts, "timer-nil")
		}
		if strings.Contains(s, "ph.reconnectTimer != nil") {
			parts = append(parts, "timer-set")
		}
		if strings.Contains(s, "Connectedness(ph.peer) == network.Connected") {
			parts = append(parts, "connected")
		}
		if strings.Contains(s, "Connectedness(ph.peer) != network.Connected") {
			parts = append(parts, "disconnected")
		}
		if strings.Contains(s, "err != nil") {
			parts = append(parts, "err")
		}
		if len(parts) == 0 {
			return "other"
		}
		return strings.Join(parts, "&")
	}
	stmts = func(list []ast.Stmt) []string {
		var out []string
		for _, st := range list {
			switch s := st.(type) {
			case *ast.ExprStmt:
				if t := classifyCall(src(s.X), false); t != "" {
					out = append(out, t)
				}
			case *ast.DeferStmt:
				if t := classifyCall(src(s.Call), true); t != "" {
					out = append(out, t)
				}
			case *ast.IfStmt:
				t := "if[" + cond(s.Cond) + "]{" + strings.Join(stmts(s.Body.List), " ") + "}"
				if s.Else != nil {
					if blk, ok := s.Else.(*ast.BlockStmt); ok {
						t += "else{" + strings.Join(stmts(blk.List), " ") + "}"
					} else {
						t += "else{" + strings.Join(stmts([]ast.Stmt{s.Else}), " ") + "}"
					}
				}
				out = append(out, t)
			case *ast.AssignStmt:
				txt := src(s)
				switch {
				case strings.Contains(txt, "ph.host.Connect(ph.ctx,"):
					out = append(out, "connect")
				case txt == "ph.reconnectTimer = nil":
					out = append(out, "tnil")
				case strings.HasPrefix(txt, "ph.reconnectTimer = time.AfterFunc(ph.nextBackoff(), ph.reconnect)"):
					out = append(out, "tarm")
				case txt == "ph.nextDelay = initialDelay":
					out = append(out, "dinit")
				case strings.HasPrefix(txt, "addrs :="):
				default:
					out = append(out, "other")
				}
			case *ast.ReturnStmt:
				out = append(out, "return")
			default:
				out = append(out, "other")
			}
		}
		return out
	}
	want := map[string]bool{"stop": true, "stopIfConnected": true, "startIfDisconnected": true, "reconnect": true}
	res := map[string]string{}
	for _, d := range f.Decls {
		fd, ok := d.(*ast.FuncDecl)
		if !ok || fd.Recv == nil || !want[fd.Name.Name] || fd.Body == nil {
			continue
		}
		if src(fd.Recv.List[0].Type) != "*peerHandler" {
			continue
		}
		res[fd.Name.Name] = strings.Join(stmts(fd.Body.List), " ")
	}
	return res, nil
}
