// Correspondence harness for C30 (gateway: status, Content-Range, Content-Length
// and body of a UnixFS file response).  Generated UnixFS files (balanced/trickle,
// chunk size, fan-out, raw or dag-pb leaves, CIDv0/v1, with/without mtime, bare or
// below a directory) are served by the real gateway handler on a BlocksBackend
// through httptest; generated requests (GET/HEAD, Range headers from a grammar,
// If-Range, If-None-Match) are sent and status / Content-Range / Content-Length /
// body length go into cases_*.v, where the Coq model of both range parsers and of
// httpServeContent (model/M_C30.v) and the specification are evaluated.  The body
// bytes stay here: the harness reports at which candidate offsets of the file the
// body is found (0 and every number of the Range header counted from the start and
// from the end), Coq decides whether the offset the model / the specification
// demands is among them.
package c30

import (
	"bytes"
	"context"
	"fmt"
	"math/big"
	"math/rand"
	"net/http"
	"net/http/httptest"
	"regexp"
	"sort"
	"strconv"
	"strings"
	"testing"
	"time"

	"github.com/ipfs/boxo/blockservice"
	"github.com/ipfs/boxo/blockstore"
	chunker "github.com/ipfs/boxo/chunker"
	"github.com/ipfs/boxo/exchange/offline"
	"github.com/ipfs/boxo/gateway"
	dag "github.com/ipfs/boxo/ipld/merkledag"
	"github.com/ipfs/boxo/ipld/unixfs/importer/balanced"
	h "github.com/ipfs/boxo/ipld/unixfs/importer/helpers"
	"github.com/ipfs/boxo/ipld/unixfs/importer/trickle"
	uio "github.com/ipfs/boxo/ipld/unixfs/io"
	cid "github.com/ipfs/go-cid"
	ds "github.com/ipfs/go-datastore"
	dssync "github.com/ipfs/go-datastore/sync"
	ipld "github.com/ipfs/go-ipld-format"
	mh "github.com/multiformats/go-multihash"
	"github.com/prometheus/client_golang/prometheus"

	"verif/harness/vh"
)

// ---------- files ----------
type fileCfg struct {
	Layout string `json:"layout"` // balanced | trickle
	Width  int    `json:"width"`
	Raw    bool   `json:"raw_leaves"`
	Chunk  int    `json:"chunk"`
	CidV1  bool   `json:"cidv1"`
	HasMt  bool   `json:"has_mtime"`
	Size   int    `json:"size"`
	Seed   int64  `json:"data_seed"`
	Digits bool   `json:"digits"` // content "0123456789..." instead of random bytes
	Name   string `json:"name"`   // "" = /ipfs/<cid>, else /ipfs/<dir>/<name>
}

type world struct {
	dsv ipld.DAGService
	hd  http.Handler
}

func newWorld(t testing.TB) *world {
	bs := blockstore.NewBlockstore(dssync.MutexWrap(ds.NewMapDatastore()))
	bsv := blockservice.New(bs, offline.Exchange(bs))
	be, err := gateway.NewBlocksBackend(bsv)
	if err != nil {
		t.Fatal(err)
	}
	hd := gateway.NewHandler(gateway.Config{DeserializedResponses: true, MetricsRegistry: prometheus.NewRegistry()}, be)
	return &world{dsv: dag.NewDAGService(bsv), hd: hd}
}

func (c fileCfg) data() []byte {
	b := make([]byte, c.Size)
	if c.Digits {
		for i := range b {
			b[i] = byte('0' + i%10)
		}
		return b
	}
	rand.New(rand.NewSource(c.Seed)).Read(b)
	return b
}

type file struct {
	cfg  fileCfg
	data []byte
	url  string
	etag string // from the probe
	lmod string
}

func (w *world) add(c fileCfg) (*file, error) {
	data := c.data()
	spl, err := chunker.FromString(bytes.NewReader(data), fmt.Sprintf("size-%d", c.Chunk))
	if err != nil {
		return nil, err
	}
	var bld cid.Builder = cid.V0Builder{}
	if c.CidV1 {
		bld = cid.V1Builder{Codec: cid.DagProtobuf, MhType: mh.SHA2_256}
	}
	dbp := h.DagBuilderParams{Maxlinks: c.Width, RawLeaves: c.Raw, CidBuilder: bld, Dagserv: w.dsv}
	if c.HasMt {
		dbp.FileModTime = time.Unix(1700000000+c.Seed%100000, 0)
	}
	db, err := dbp.New(spl)
	if err != nil {
		return nil, err
	}
	var nd ipld.Node
	if c.Layout == "trickle" {
		nd, err = trickle.Layout(db)
	} else {
		nd, err = balanced.Layout(db)
	}
	if err != nil {
		return nil, err
	}
	f := &file{cfg: c, data: data, url: "/ipfs/" + nd.Cid().String()}
	if c.Name != "" {
		dir, err := uio.NewDirectory(w.dsv)
		if err != nil {
			return nil, err
		}
		if err := dir.AddChild(context.Background(), c.Name, nd); err != nil {
			return nil, err
		}
		dn, err := dir.GetNode()
		if err != nil {
			return nil, err
		}
		if err := w.dsv.Add(context.Background(), dn); err != nil {
			return nil, err
		}
		f.url = "/ipfs/" + dn.Cid().String() + "/" + c.Name
	}
	return f, nil
}

// ---------- requests ----------
type request struct {
	Method string `json:"method"`
	Range  string `json:"range"`
	IfR    string `json:"if_range_kind"` // none etag weak other date olddate garbage
	INM    string `json:"if_none_match_kind"` // none exact weak star list other
}

type observed struct {
	status int
	cr     string
	cl     string
	body   []byte
}

func (w *world) do(f *file, rq request) observed {
	req := httptest.NewRequest(rq.Method, f.url, nil)
	if rq.Range != "" {
		req.Header.Set("Range", rq.Range)
	}
	switch rq.IfR {
	case "etag":
		req.Header.Set("If-Range", f.etag)
	case "weak":
		req.Header.Set("If-Range", "W/"+f.etag)
	case "other":
		req.Header.Set("If-Range", `"QmNotTheEtag"`)
	case "date":
		req.Header.Set("If-Range", f.lmod)
	case "olddate":
		req.Header.Set("If-Range", "Mon, 02 Jan 2006 15:04:05 GMT")
	case "garbage":
		req.Header.Set("If-Range", "yesterday")
	}
	switch rq.INM {
	case "exact":
		req.Header.Set("If-None-Match", f.etag)
	case "weak":
		req.Header.Set("If-None-Match", "W/"+f.etag)
	case "star":
		req.Header.Set("If-None-Match", "*")
	case "list":
		req.Header.Set("If-None-Match", `"abc", `+f.etag)
	case "other":
		req.Header.Set("If-None-Match", `"QmNotTheEtag", W/"x"`)
	}
	rec := httptest.NewRecorder()
	w.hd.ServeHTTP(rec, req)
	hdr := rec.Result().Header
	return observed{status: rec.Code, cr: hdr.Get("Content-Range"), cl: hdr.Get("Content-Length"), body: rec.Body.Bytes()}
}

// ifrOutcome / inmOutcome: the outcome of the precondition by construction of the header value.
func (f *file) ifrOutcome(rq request) string {
	switch rq.IfR {
	case "none":
		return "IfrNone"
	case "etag", "date":
		return "IfrTrue"
	}
	return "IfrFalse"
}
func inmOutcome(rq request) bool {
	switch rq.INM {
	case "exact", "weak", "star", "list":
		return true
	}
	return false
}

var (
	// numbers of any length and sign: an overflowed Content-Range / Content-Length must reach Coq as what it says
	reCR     = regexp.MustCompile(`^bytes (-?\d{1,40})-(-?\d{1,40})/(-?\d{1,40})$`)
	reCRStar = regexp.MustCompile(`^bytes \*/(-?\d{1,40})$`)
	reNum    = regexp.MustCompile(`\d+`)
	reCL     = regexp.MustCompile(`^-?\d{1,40}$`)
)

func bigZ(d string) string {
	b, ok := new(big.Int).SetString(d, 10)
	if !ok {
		panic("bigZ: " + d)
	}
	return vh.ZBig(b)
}

func crCoq(s string) string {
	if s == "" {
		return "CRNone"
	}
	if m := reCR.FindStringSubmatch(s); m != nil {
		return vh.App("CRRange", bigZ(m[1]), bigZ(m[2]), bigZ(m[3]))
	}
	if m := reCRStar.FindStringSubmatch(s); m != nil {
		return vh.App("CRStar", bigZ(m[1]))
	}
	return "CRBad"
}

// candidates: 0 and every number n of the header as n and size-n, inside [0, size].
func candidates(rng string, size int) []int {
	set := map[int]bool{0: true}
	for _, d := range reNum.FindAllString(rng, -1) {
		if len(d) > 12 {
			continue
		}
		n, _ := strconv.Atoi(d)
		if n <= size {
			set[n] = true
			set[size-n] = true
		}
	}
	out := make([]int, 0, len(set))
	for k := range set {
		out = append(out, k)
	}
	sort.Ints(out)
	return out
}

func (f *file) caseTerm(rq request, o observed) (string, bool) {
	size := len(f.data)
	var match []int
	for _, c := range candidates(rq.Range, size) {
		if c+len(o.body) <= size && bytes.Equal(f.data[c:c+len(o.body)], o.body) {
			match = append(match, c)
		}
	}
	cl := "None"
	ok := true
	if o.cl != "" {
		if reCL.MatchString(o.cl) {
			cl = vh.Opt(true, bigZ(o.cl))
		} else {
			ok = false // unparsable Content-Length: reported by the caller
		}
	}
	hdr := vh.Bytes([]byte(rq.Range))
	if lit, printable := vh.Str(rq.Range); printable && rq.Range != "" {
		hdr = "(s2l " + lit + "%string)" // a string literal is much cheaper for coqc than a list of numbers
	}
	q := vh.App("Build_req", rq.Method, vh.Z(int64(size)), hdr, f.ifrOutcome(rq), vh.Bool(inmOutcome(rq)))
	ob := vh.App("Build_obs", vh.Z(int64(o.status)), crCoq(o.cr), cl, vh.Z(int64(len(o.body))),
		vh.ListOf(match, func(i int) string { return vh.Z(int64(i)) }))
	return vh.App("Case", q, ob), ok
}

// ---------- generators ----------
func pickNum(r *rand.Rand, size, chunk int) int64 {
	b := []int64{0, 1, 2, int64(chunk) - 1, int64(chunk), int64(chunk) + 1, int64(size) - 2, int64(size) - 1, int64(size),
		int64(size) + 1, 2 * int64(size), int64(size) / 2, 2*int64(chunk) - 1, 2 * int64(chunk), 3 * int64(chunk)}
	var v int64
	switch k := r.Intn(10); {
	case k < 6:
		v = b[r.Intn(len(b))]
	case k < 9:
		v = int64(r.Intn(size + 2))
	default:
		v = int64(size) + int64(r.Intn(1000))
	}
	if v < 0 {
		v = 0
	}
	return v
}

func fmtNum(r *rand.Rand, v int64) string {
	s := strconv.FormatInt(v, 10)
	switch r.Intn(24) {
	case 0:
		s = "00" + s
	case 1:
		s = "+" + s
	}
	return s
}

func ws(r *rand.Rand) string {
	switch r.Intn(12) {
	case 0:
		return " "
	case 1:
		return "\t"
	case 2:
		return "  "
	}
	return ""
}

var malformed = []string{"5", "a-b", "--5", "-", "- 5", "5-6-7", "5-x", "x-5", "-x", "99999999999999999999-", "-99999999999999999999",
	"9223372036854775807-", "-9223372036854775807", "-9223372036854775808", "0-9223372036854775808", "1-+", "+-1", "5 6-7", "0x1-", "1_0-", "-+3", "3-+8", "١-٢"}

// numbers at the int64 / int32 boundaries: 2^63-1 and 2^63-2 parse, 2^63 and above are ParseInt range errors
var bigNums = []string{"9223372036854775807", "9223372036854775807", "9223372036854775806", "9223372036854775808", "9223372036854775809",
	"4294967295", "4294967296", "4294967297", "2147483647", "2147483648", "18446744073709551615", "18446744073709551616",
	"4611686018427387904", "9223372036854775797"}

func bigNum(r *rand.Rand) string { return bigNums[r.Intn(len(bigNums))] }

func smallNum(r *rand.Rand, size, chunk int) string {
	switch r.Intn(6) {
	case 0, 1:
		return "0"
	case 2:
		return "1"
	case 3:
		return strconv.Itoa(size - 1 + r.Intn(3))
	}
	return fmtNum(r, pickNum(r, size, chunk))
}

// a spec with a number at the int64 boundary: start, end or suffix length
func genBoundarySpec(r *rand.Rand, size, chunk int) string {
	switch r.Intn(8) {
	case 0, 1, 2, 3:
		return smallNum(r, size, chunk) + "-" + bigNum(r)
	case 4:
		return bigNum(r) + "-" + bigNum(r)
	case 5:
		return bigNum(r) + "-"
	case 6:
		return "-" + bigNum(r)
	}
	return ws(r) + smallNum(r, size, chunk) + ws(r) + "-" + ws(r) + bigNum(r) + ws(r)
}

func genSpec(r *rand.Rand, size, chunk int) string {
	if r.Intn(9) == 0 {
		return genBoundarySpec(r, size, chunk)
	}
	switch k := r.Intn(100); {
	case k < 36: // from-to
		a := pickNum(r, size, chunk)
		var b int64
		switch r.Intn(6) {
		case 0:
			b = a
		case 1:
			b = a + int64(r.Intn(8))
		case 2:
			b = a + int64(chunk)
		case 3:
			b = a - 1 - int64(r.Intn(3)) // reversed: invalid
			if b < 0 {
				b = 0
			}
		default:
			b = pickNum(r, size, chunk)
			if b < a && r.Intn(4) != 0 {
				a, b = b, a
			}
		}
		return ws(r) + fmtNum(r, a) + ws(r) + "-" + ws(r) + fmtNum(r, b) + ws(r)
	case k < 58: // from-
		return ws(r) + fmtNum(r, pickNum(r, size, chunk)) + ws(r) + "-" + ws(r)
	case k < 82: // suffix
		return ws(r) + "-" + ws(r) + fmtNum(r, pickNum(r, size, chunk)) + ws(r)
	case k < 87:
		return ws(r)
	case k < 90:
		return "-0"
	default:
		return malformed[r.Intn(len(malformed))]
	}
}

func genRange(r *rand.Rand, size, chunk int) string {
	if r.Intn(12) == 0 {
		return ""
	}
	n := 1
	switch k := r.Intn(100); {
	case k < 50:
		n = 1
	case k < 78:
		n = 2
	case k < 92:
		n = 3
	default:
		n = 4 + r.Intn(3)
	}
	specs := make([]string, n)
	for i := range specs {
		specs[i] = genSpec(r, size, chunk)
	}
	prefix := "bytes="
	if r.Intn(40) == 0 {
		prefix = []string{"bytes =", "Bytes=", "bits=", "bytes", "", " bytes=", "bytes=="}[r.Intn(7)]
	}
	return prefix + strings.Join(specs, ",")
}

func genRequest(r *rand.Rand, f *file) request {
	rq := request{Method: "GET", IfR: "none", INM: "none"}
	if r.Intn(10) < 3 {
		rq.Method = "HEAD"
	}
	rq.Range = genRange(r, len(f.data), f.cfg.Chunk)
	if r.Intn(10) < 4 {
		kinds := []string{"etag", "etag", "weak", "other", "other", "olddate", "garbage"}
		if f.lmod != "" {
			kinds = append(kinds, "date", "date")
		}
		rq.IfR = kinds[r.Intn(len(kinds))]
	}
	if r.Intn(12) == 0 {
		rq.INM = []string{"exact", "weak", "star", "list", "other", "other", "other"}[r.Intn(7)]
	}
	return rq
}

func genFile(r *rand.Rand, maxSize int) fileCfg {
	c := fileCfg{Layout: "balanced", Width: []int{2, 3, 4, 8, 174}[r.Intn(5)], Raw: r.Intn(2) == 0, CidV1: r.Intn(2) == 0,
		HasMt: r.Intn(4) == 0, Seed: r.Int63n(1 << 40)}
	if r.Intn(3) == 0 {
		c.Layout = "trickle"
	}
	switch k := r.Intn(20); {
	case k == 0:
		c.Size = 0
	case k == 1:
		c.Size = 1
	case k < 6:
		c.Size = 2 + r.Intn(30)
	case k < 12:
		c.Size = 32 + r.Intn(4000)
	case k < 18:
		c.Size = 4000 + r.Intn(60000)
	default:
		c.Size = 60000 + r.Intn(maxSize)
	}
	chunks := []int{1, 2, 3, 5, 16, 256, 1024, 4096, 65536, 262144}
	for {
		c.Chunk = chunks[r.Intn(len(chunks))]
		if c.Size/c.Chunk <= 3000 {
			break
		}
	}
	// land on chunk boundaries now and then
	if c.Size > c.Chunk && r.Intn(4) == 0 {
		c.Size -= c.Size % c.Chunk
	}
	switch r.Intn(5) {
	case 0:
		c.Name = "f.bin"
	case 1:
		c.Name = "noext"
	}
	return c
}

func corpusRequests() []request {
	g := func(m, rng, ifr, inm string) request { return request{Method: m, Range: rng, IfR: ifr, INM: inm} }
	var out []request
	for _, m := range []string{"GET", "HEAD"} {
		out = append(out,
			g(m, "bytes=100-,2-5", "none", "none"), // C30-1 witness
			g(m, "bytes=5-", "other", "none"),       // C30-2 witness
			g(m, "bytes=5-9,0-9", "none", "none"),   // C30-3 witness
			g(m, "bytes=-20", "none", "none"),       // C30-4 witness
			g(m, "bytes=-0", "none", "none"),        // C30-5 witness
			g(m, "", "none", "none"), g(m, "bytes=2-5", "none", "none"), g(m, "bytes=-3", "none", "none"),
			g(m, "bytes=10-", "none", "none"), g(m, "bytes=9-", "none", "none"), g(m, "bytes=100-abc", "none", "none"),
			g(m, "bytes=5-2", "none", "none"), g(m, "bytes=0-0,-1", "none", "none"), g(m, "bits=1-2", "none", "none"),
			g(m, "bytes=", "none", "none"), g(m, "bytes=,", "none", "none"), g(m, "bytes= 2 - 5 , 7-", "none", "none"),
			g(m, "bytes=2-5", "none", "star"), g(m, "bytes=2-5", "none", "exact"), g(m, "bytes=2-5", "none", "other"),
			g(m, "bytes=-3,100-", "none", "none"), g(m, "bytes=0-", "other", "none"), g(m, "bytes=-20,0-", "none", "none"),
			g(m, "bytes=2-5", "etag", "none"), g(m, "bytes=2-5", "weak", "none"), g(m, "bytes=2-5", "garbage", "none"),
			g(m, "bytes=-0,2-5", "none", "none"), g(m, "bytes=2-5,-0", "none", "none"), g(m, "bytes=100-,-0", "none", "none"),
			g(m, "bytes=-20", "other", "none"), g(m, "bytes=abc", "other", "none"), g(m, "bytes=0-4,5-9", "none", "none"),
			g(m, "bytes=0-4,5-9,0-0", "none", "none"), g(m, "bytes=9-100", "none", "none"), g(m, "bytes=+2-+5", "none", "none"),
			g(m, "bytes=10-,11-", "none", "none"), g(m, "bytes=-10", "none", "none"), g(m, "bytes=-11", "none", "none"),
			g(m, "bytes=3-,1-2", "none", "none"), g(m, "bytes=1-2,3-", "none", "none"), g(m, "bytes=-1,-2", "none", "none"),
			// int64 boundaries: ends/starts/suffix lengths at 2^63-1, 2^63-2, 2^63 (ParseInt error), 2^32+-1, sums across ranges
			g(m, "bytes=0-9223372036854775807", "none", "none"), g(m, "bytes=1-9223372036854775807", "none", "none"),
			g(m, "bytes=0-9223372036854775806", "none", "none"), g(m, "bytes=0-9223372036854775808", "none", "none"),
			g(m, "bytes=9-9223372036854775807", "none", "none"), g(m, "bytes=10-9223372036854775807", "none", "none"),
			g(m, "bytes=9223372036854775807-", "none", "none"), g(m, "bytes=9223372036854775806-9223372036854775807", "none", "none"),
			g(m, "bytes=9223372036854775807-9223372036854775807", "none", "none"), g(m, "bytes=-9223372036854775807", "none", "none"),
			g(m, "bytes=-9223372036854775806", "none", "none"), g(m, "bytes=-9223372036854775808", "none", "none"),
			g(m, "bytes=0-4294967295", "none", "none"), g(m, "bytes=0-4294967296", "none", "none"), g(m, "bytes=0-4294967297", "none", "none"),
			g(m, "bytes=4294967296-", "none", "none"), g(m, "bytes=-4294967297", "none", "none"), g(m, "bytes=0-2147483648", "none", "none"),
			g(m, "bytes=0-9223372036854775807,0-9223372036854775807", "none", "none"),
			g(m, "bytes=2-9223372036854775807,0-0", "none", "none"), g(m, "bytes=0-0,0-9223372036854775807", "none", "none"),
			g(m, "bytes=5-9223372036854775807,6-9223372036854775806,7-4611686018427387904", "none", "none"),
			g(m, "bytes=-9223372036854775807,-9223372036854775807", "none", "none"),
			g(m, "bytes=0-9223372036854775807", "other", "none"), g(m, "bytes=0-9223372036854775807", "etag", "none"),
		)
	}
	return out
}

func bucketStatus(s int) string { return fmt.Sprintf("status=%d", s) }

func TestC30(t *testing.T) {
	e := vh.Load(t)
	st := vh.NewStats("real gateway handler (NewHandler on a BlocksBackend, httptest) serving generated UnixFS files; " +
		"generated GET/HEAD requests with Range (grammar: from-to, from-, suffix, lists, whitespace, malformed; offsets around 0, " +
		"chunk and size), If-Range and If-None-Match; status/Content-Range/Content-Length/body length and the offsets at which " +
		"the body matches the file are evaluated in Coq against model and specification; " +
		"non-trivial = request carries a Range header; distinct by (file, request)")
	cs := vh.NewCases(e, "From V Require Import model.M_C30.\nOpen Scope Z_scope.", "case", "check_case", 250)
	w := newWorld(t)
	r := e.Rng

	nFiles, perFile := e.Pick(28, 350), e.Pick(40, 80)
	maxSize := e.Pick(300_000, 2_000_000)

	cfgs := []fileCfg{
		{Layout: "balanced", Width: 2, Raw: true, Chunk: 3, Size: 10, Digits: true},              // the finding witnesses' file
		{Layout: "trickle", Width: 2, Raw: false, Chunk: 3, Size: 10, Digits: true, CidV1: true}, // same content, other shape
		{Layout: "balanced", Width: 174, Raw: true, Chunk: 262144, Size: 10, Digits: true, CidV1: true}, // one raw block
		{Layout: "balanced", Width: 174, Raw: false, Chunk: 262144, Size: 0},
	}
	for i := 0; i < nFiles; i++ {
		cfgs = append(cfgs, genFile(r, maxSize))
	}
	for fi, c := range cfgs {
		f, err := w.add(c)
		if err != nil {
			st.Violate("import failed: "+err.Error(), "", c)
			continue
		}
		// probe: plain GET gives ETag and Last-Modified
		{
			req := httptest.NewRequest("GET", f.url, nil)
			rec := httptest.NewRecorder()
			w.hd.ServeHTTP(rec, req)
			f.etag = rec.Result().Header.Get("Etag")
			f.lmod = rec.Result().Header.Get("Last-Modified")
			if rec.Code != 200 || f.etag == "" || !bytes.Equal(rec.Body.Bytes(), f.data) {
				st.Violate(fmt.Sprintf("plain GET of the file: status %d, etag %q, body equal: %v", rec.Code, f.etag,
					bytes.Equal(rec.Body.Bytes(), f.data)), "", c)
				continue
			}
		}
		var rqs []request
		if fi < 3 {
			rqs = corpusRequests()
		}
		n := perFile
		if fi < 4 {
			n = perFile / 2
		}
		for i := 0; i < n; i++ {
			rqs = append(rqs, genRequest(r, f))
		}
		// every file (any size and layout) also gets the int64 end boundary and one more boundary request
		rqs = append(rqs, request{Method: []string{"GET", "GET", "HEAD"}[r.Intn(3)], Range: "bytes=0-9223372036854775807", IfR: "none", INM: "none"},
			request{Method: "GET", Range: "bytes=" + genBoundarySpec(r, len(f.data), f.cfg.Chunk), IfR: "none", INM: "none"})
		for _, rq := range rqs {
			o := w.do(f, rq)
			term, ok := f.caseTerm(rq, o)
			replay := map[string]any{"file": c, "request": rq, "status": o.status, "content_range": o.cr,
				"content_length": o.cl, "body_len": len(o.body)}
			if !ok {
				st.Violate("unparsable Content-Length "+strconv.Quote(o.cl), "", replay)
			}
			cs.Add(term, replay)
			st.Case(fmt.Sprintf("%+v|%+v", c, rq), rq.Range != "")
			st.Count(bucketStatus(o.status))
			st.Count("method=" + rq.Method)
			st.Count("if-range=" + rq.IfR)
			st.Count("if-none-match=" + rq.INM)
			switch nr := strings.Count(rq.Range, ","); {
			case rq.Range == "":
				st.Count("range=absent")
			case nr == 0:
				st.Count("range=single")
			default:
				st.Count("range=multi")
			}
			if o.status == 206 || o.status == 416 {
				st.Sample(replay, 6)
			}
		}
		switch {
		case c.Size == 0:
			st.Count("filesize=0")
		case c.Size <= c.Chunk:
			st.Count("file=one-block")
		case c.Size <= c.Chunk*c.Width:
			st.Count("file=one-level")
		default:
			st.Count("file=multi-level")
		}
		st.Count("layout=" + c.Layout)
		st.Count(fmt.Sprintf("raw_leaves=%v", c.Raw))
	}
	cs.Close()
	st.Write(e)
}
