// Correspondence harness for C39 (files/multifilereader.go, files/multipartfile.go).
//
// CTree cases: a generated tree of real files.Node values is serialized by the real
// NewMultiFileReader; the produced stream is (a) split into raw parts whose
// Content-Disposition text, content type and body are compared in Coq with the
// model serializer, and (b) parsed by the real NewFileFromPartReader and walked to
// the end; the walked tree is compared in Coq with the model parser and with the
// round-trip specification.
// File contents sit behind different reader kinds (incl. readers that return their last bytes together with
// io.EOF); half of the trees take a second hop: the parsed directory itself is re-serialized and parsed again.
// CParse cases: hand-made (hostile) part sequences are parsed by the real code and
// compared with the model parser.
package c39

import (
	"bytes"
	"fmt"
	"io"
	"math"
	"mime"
	"mime/multipart"
	"net/textproto"
	"os"
	"strings"
	"testing"
	"testing/iotest"
	"time"

	"github.com/ipfs/boxo/files"

	"verif/harness/vh"
)

const (
	kFile = iota
	kLink
	kDir
)

const zeroSec = -62135596800

type meta struct {
	mode uint32
	sec  int64
	nsec int64
}
type node struct {
	kind int
	m    meta
	data []byte
	es   []entry
	rk   int // files only: how the content reader delivers its bytes (readerKinds)
}

// How a file node's reader hands out its content. bytes.Reader never returns data together with io.EOF;
// iotest.DataErrReader returns the final bytes and io.EOF in the same call (as mime/multipart.Part and
// many network readers do).
var readerKinds = []string{"bytes.Reader", "one-byte", "half", "data+EOF", "data+EOF over half"}

func contentReader(data []byte, rk int) io.Reader {
	switch rk {
	case 1:
		return iotest.OneByteReader(bytes.NewReader(data))
	case 2:
		return iotest.HalfReader(bytes.NewReader(data))
	case 3:
		return iotest.DataErrReader(bytes.NewReader(data))
	case 4:
		return iotest.DataErrReader(iotest.HalfReader(bytes.NewReader(data)))
	}
	return bytes.NewReader(data)
}

func readersOf(es []entry, acc []string) []string {
	for _, e := range es {
		switch e.n.kind {
		case kFile:
			acc = append(acc, readerKinds[e.n.rk])
		case kDir:
			acc = readersOf(e.n.es, acc)
		}
	}
	return acc
}
type entry struct {
	name []byte
	n    *node
}

// bc renders a byte string: printable ASCII as a Coq string literal (cheap to parse), anything else as a list.
func bc(b []byte) string {
	if len(b) > 0 {
		if lit, ok := vh.Str(string(b)); ok {
			return "(bs " + lit + "%string)"
		}
	}
	return vh.Bytes(b)
}

func (m meta) coq() string {
	return "(Build_meta " + vh.ZU(uint64(m.mode)) + " " + vh.Z(m.sec) + " " + vh.Z(m.nsec) + ")"
}
func (n *node) coq() string {
	switch n.kind {
	case kFile:
		return "(NFile " + n.m.coq() + " " + bc(n.data) + ")"
	case kLink:
		return "(NLink " + n.m.coq() + " " + bc(n.data) + ")"
	}
	return "(NDir " + n.m.coq() + " " + entriesCoq(n.es) + ")"
}
func entriesCoq(es []entry) string {
	return vh.ListOf(es, func(e entry) string { return "(" + bc(e.name) + ", " + e.n.coq() + ")" })
}

func metaOf(n files.Node) meta {
	t := n.ModTime()
	return meta{mode: uint32(n.Mode()), sec: t.Unix(), nsec: int64(t.Nanosecond())}
}

// ---- a minimal os.FileInfo ----
type fi struct {
	mode os.FileMode
	mt   time.Time
}

func (f *fi) Name() string       { return "" }
func (f *fi) Size() int64        { return 0 }
func (f *fi) Mode() os.FileMode  { return f.mode }
func (f *fi) ModTime() time.Time { return f.mt }
func (f *fi) IsDir() bool        { return f.mode.IsDir() }
func (f *fi) Sys() any           { return nil }

func mkTime(m meta) time.Time {
	if m.sec == zeroSec && m.nsec == 0 {
		return time.Time{}
	}
	return time.Unix(m.sec, m.nsec)
}

// build turns a generated node into real files.Node values.
func build(n *node, useNilStat bool) files.Node {
	unset := n.m.mode == 0 && n.m.sec == zeroSec && n.m.nsec == 0
	switch n.kind {
	case kFile:
		if unset && useNilStat {
			if n.rk == 0 {
				return files.NewBytesFile(n.data)
			}
			return files.NewReaderFile(contentReader(n.data, n.rk))
		}
		return files.NewReaderStatFile(contentReader(n.data, n.rk), &fi{mode: os.FileMode(n.m.mode), mt: mkTime(n.m)})
	case kLink:
		return files.NewSymlinkFile(string(n.data), mkTime(n.m))
	}
	ents := make([]files.DirEntry, len(n.es))
	for i, e := range n.es {
		ents[i] = files.FileEntry(string(e.name), build(e.n, useNilStat))
	}
	if unset && useNilStat {
		return files.NewSliceDirectory(ents)
	}
	return files.NewSliceStatDirectory(ents, &fi{mode: os.FileMode(n.m.mode), mt: mkTime(n.m)})
}

// observeInput re-reads the metadata the serializer will see from the real nodes.
func observeInput(n *node, real files.Node) {
	n.m = metaOf(real)
	if n.kind == kDir {
		it := real.(files.Directory).Entries()
		for i := 0; it.Next(); i++ {
			observeInput(n.es[i].n, it.Node())
		}
	}
}

// walk is the consumer: a full pre-order walk that reads every file to the end and
// aborts on the first error.
func walk(t *testing.T, d files.Directory, budget *int) ([]entry, bool) {
	var out []entry
	it := d.Entries()
	for it.Next() {
		*budget--
		if *budget < 0 {
			panic("walk of the parsed directory does not terminate")
		}
		name := []byte(it.Name())
		switch f := it.Node().(type) {
		case *files.Symlink:
			out = append(out, entry{name, &node{kind: kLink, m: metaOf(f), data: []byte(f.Target)}})
		case files.Directory:
			m := metaOf(f)
			sub, bad := walk(t, f, budget)
			out = append(out, entry{name, &node{kind: kDir, m: m, es: sub}})
			if bad {
				return out, true
			}
		case files.File:
			m := metaOf(f)
			b, err := io.ReadAll(f)
			if err != nil {
				return out, true
			}
			out = append(out, entry{name, &node{kind: kFile, m: m, data: b}})
		default:
			panic(fmt.Sprintf("unexpected node type %T", f))
		}
	}
	return out, it.Err() != nil
}

// parseAndWalk returns fail != "" when the implementation panicked or looped (reported as a violation with a replay).
func parseAndWalk(t *testing.T, stream []byte, boundary string) (out []entry, bad bool, fail string) {
	defer func() {
		if r := recover(); r != nil {
			fail = fmt.Sprint(r)
		}
	}()
	d, err := files.NewFileFromPartReader(multipart.NewReader(bytes.NewReader(stream), boundary), "multipart/form-data")
	if err != nil {
		return nil, false, "NewFileFromPartReader: " + err.Error()
	}
	budget := 20000
	out, bad = walk(t, d, &budget)
	return out, bad, ""
}

var ctypeText = map[string]string{
	"CtDir": "application/x-directory", "CtFormData": "multipart/form-data", "CtLink": "application/symlink",
	"CtFile": "application/octet-stream", "CtOther": "text/plain; charset=utf-8", "CtBad": "text/plain; charset",
}

func classOf(ct string, present bool) string {
	if !present {
		return "CtNone"
	}
	for k, v := range ctypeText {
		if v == ct && k != "CtOther" && k != "CtBad" {
			return k
		}
	}
	return "CtOther"
}

// rawParts splits a multipart stream into (Content-Disposition text, content type class, body).
func rawParts(t *testing.T, stream []byte, boundary string) []string {
	r := multipart.NewReader(bytes.NewReader(stream), boundary)
	var out []string
	for {
		p, err := r.NextRawPart()
		if err == io.EOF {
			return out
		}
		if err != nil {
			t.Fatalf("raw part: %v", err)
		}
		body, err := io.ReadAll(p)
		if err != nil {
			t.Fatalf("raw body: %v", err)
		}
		_, has := p.Header["Content-Type"]
		out = append(out, "("+bc([]byte(p.Header.Get("Content-Disposition")))+", "+
			classOf(p.Header.Get("Content-Type"), has)+", "+bc(body)+")")
	}
}

// ---- generators ----
var namePieces = []string{
	"a", "b", "ab", "file.txt", "a b", "a+b", "a%b", "%41", "%2F", "%2f", "%", "%zz", "%2e%2e", "%2E", "\"q\"", "'", "\\",
	"é", "🥳", "\x00", "\r\n", "x\ny", "...", "..a", ".a", "a.", ". ", " ", "+", "-", "~", "_", "&=;?#", ":", "*", "=", ";",
	"name=\"x\"", "filename", "\x7f", "\xff\xfe", "A", "file?mode=0777", "a\tb", "<>", "(", "@", ",", "$", "!",
}

func genName(e *vh.Env) []byte {
	r := e.Rng
	for {
		var n []byte
		switch r.Intn(10) {
		case 0:
			k := 1 + r.Intn(6)
			for i := 0; i < k; i++ {
				n = append(n, byte(r.Intn(256)))
			}
		case 1:
			n = []byte(namePieces[r.Intn(len(namePieces))] + namePieces[r.Intn(len(namePieces))])
		case 2:
			n = bytes.Repeat([]byte{byte("ab%+ .é"[r.Intn(7)])}, 1+r.Intn(40))
		default:
			n = []byte(namePieces[r.Intn(len(namePieces))])
		}
		if len(n) == 0 || bytes.IndexByte(n, '/') >= 0 || string(n) == "." || string(n) == ".." {
			continue
		}
		return n
	}
}

var modes = []uint32{0, 0, 0, 1, 0o644, 0o755, 0o777, 0o7777, 0o4755, 0o1777, 0o10, 0o100, 0o7, 1 << 31, 1<<31 | 0o755, 1<<27 | 0o777, 0xFFFFFFFF, 1 << 23}

func genMode(e *vh.Env) uint32 {
	if e.Rng.Intn(3) == 0 {
		return uint32(e.Rng.Intn(0o10000))
	}
	return modes[e.Rng.Intn(len(modes))]
}

var times = [][2]int64{
	{zeroSec, 0}, {zeroSec, 0}, {zeroSec, 0}, {0, 0}, {0, 1}, {1, 0}, {-1, 999999999}, {1604320500, 55555}, {1604320500, 0},
	{zeroSec, 5}, {zeroSec + 1, 0}, {zeroSec - 1, 999999999}, {math.MaxInt64, 0}, {math.MinInt64, 0}, {math.MaxInt64, 999999999},
	{9, 999999999}, {10, 100000000}, {-62135596801, 0}, {253402300800, 1}, {1 << 62, 7},
}

func genTime(e *vh.Env) (int64, int64) {
	if e.Rng.Intn(4) == 0 {
		return e.Rng.Int63n(4000000000) - 2000000000, int64(e.Rng.Intn(1000000000))
	}
	t := times[e.Rng.Intn(len(times))]
	return t[0], t[1]
}

func genMeta(e *vh.Env) meta {
	s, n := genTime(e)
	return meta{mode: genMode(e), sec: s, nsec: n}
}

var bodies = []string{"", "x", "hello", "\r\n", "--", "\r\n--boundary--\r\n", "Content-Type: x\r\n\r\n", "\x00\xff", "line1\nline2\n"}

func genBody(e *vh.Env) []byte {
	if e.Rng.Intn(3) == 0 {
		b := make([]byte, e.Rng.Intn(24))
		e.Rng.Read(b)
		return b
	}
	return []byte(bodies[e.Rng.Intn(len(bodies))])
}

func genNode(e *vh.Env, depth int) *node {
	r := e.Rng
	k := r.Intn(10)
	switch {
	case k < 5 || (depth <= 0 && k < 8):
		return &node{kind: kFile, m: genMeta(e), data: genBody(e), rk: r.Intn(len(readerKinds))}
	case k < 7 || depth <= 0:
		m := genMeta(e)
		m.mode = 1<<27 | 0o777
		targets := []string{"", "a", "../x", "/abs/path", "a b", "\x00", "é", "\r\n"}
		return &node{kind: kLink, m: m, data: []byte(targets[r.Intn(len(targets))])}
	}
	return &node{kind: kDir, m: genMeta(e), es: genEntries(e, depth-1, 4)}
}

func genEntries(e *vh.Env, depth, maxN int) []entry {
	n := e.Rng.Intn(maxN + 1)
	es := make([]entry, n)
	for i := range es {
		es[i] = entry{genName(e), genNode(e, depth)}
		if i > 0 && e.Rng.Intn(12) == 0 {
			// prefix-related and duplicate sibling names
			prev := es[i-1].name
			switch e.Rng.Intn(3) {
			case 0:
				es[i].name = append(append([]byte{}, prev...), 'x')
			case 1:
				es[i].name = append([]byte{}, prev...)
			default:
				if len(prev) > 1 {
					es[i].name = append([]byte{}, prev[:len(prev)-1]...)
					if string(es[i].name) == "." || string(es[i].name) == ".." || bytes.IndexByte(es[i].name, '/') >= 0 {
						es[i].name = []byte("p")
					}
				}
			}
		}
	}
	return es
}

func f(m meta, data string) *node { return &node{kind: kFile, m: m, data: []byte(data)} }
func l(sec, nsec int64, target string) *node {
	return &node{kind: kLink, m: meta{1<<27 | 0o777, sec, nsec}, data: []byte(target)}
}
func d(m meta, es ...entry) *node { return &node{kind: kDir, m: m, es: es} }
func en(name string, n *node) entry { return entry{[]byte(name), n} }

var unset = meta{0, zeroSec, 0}

// corpus: hand-written trees; the first one is the witness of finding C39-1.
var corpus = [][]entry{
	// a file whose reader returns its last bytes together with io.EOF (all of them in one call with a large buffer)
	{en("f", &node{kind: kFile, m: unset, data: []byte("data"), rk: 3}), en("g", &node{kind: kFile, m: meta{0o644, 1604320500, 0}, data: []byte("0123456789"), rk: 4}),
		en("e", &node{kind: kFile, m: unset, data: nil, rk: 3})},
	{en("f", f(meta{0o644, zeroSec, 0}, "data"))},
	{en("l", l(zeroSec, 0, "target"))},
	{en("d", d(meta{0o755, zeroSec, 0}, en("x", f(unset, ""))))},
	{en("f", f(meta{0, 0, 0}, "epoch"))},
	{en("f", f(meta{0o644, 0, 0}, "epoch+mode"))},
	{en("f", f(meta{0, zeroSec, 1}, "zero+1ns"))},
	{en("f", f(meta{0o7777, 1604320500, 55555}, "both"))},
	{en("f", f(meta{0xFFFFFFFF, math.MaxInt64, 999999999}, "max"))},
	{en("f", f(meta{1, math.MinInt64, 0}, "min"))},
	{},
	{en("e", d(unset)), en("e2", d(unset)), en("z", f(unset, "z"))},
	{en("a", d(unset, en("b", d(unset, en("c", d(unset, en("deep", f(unset, "!"))))))))},
	{en("a", d(unset)), en("ab", f(unset, "1")), en("a b", f(unset, "2")), en("a%2Fb", f(unset, "3"))},
	{en("x", f(unset, "file")), en("x", d(unset, en("y", f(unset, "under dir x"))))},
	{en("..a", f(unset, "")), en("...", d(unset, en(". .", l(5, 5, "..")))), en("%2e%2e", f(unset, "pct"))},
	{en("beep.txt", f(meta{0o754, 1604320500, 55555}, "beep")), en("boop", d(meta{0o755, 1604320500, 0},
		en("a.txt", f(meta{0o754, 1604320500, 55555}, "bleep")), en("résumé🥳.txt", f(unset, "bloop")))), en("file.txt", f(unset, "Some text! :)"))},
}

// drain reads a MultiFileReader to the end with the given buffer size.
func drain(t *testing.T, mfr *files.MultiFileReader, bufSize int, tag string) []byte {
	var stream bytes.Buffer
	buf := make([]byte, bufSize)
	// NOTE: once the closing delimiter has been written, Read appends another closing delimiter on every
	// call for which its internal buffer is not drained by that call, so a reader with a buffer smaller than
	// the delimiter (68 bytes) never sees io.EOF. This is outside C39 (the first closing delimiter ends the
	// multipart body); with small buffers the harness stops at the first complete closing delimiter.
	trailer := []byte("\r\n--" + mfr.Boundary() + "--\r\n")
	for guard := 0; ; guard++ {
		n, err := mfr.Read(buf)
		stream.Write(buf[:n])
		if err == io.EOF {
			break
		}
		if err != nil {
			t.Fatalf("MultiFileReader.Read: %v", err)
		}
		if len(buf) < 100 && bytes.HasSuffix(stream.Bytes(), trailer) {
			break
		}
		if guard > 1000000 {
			t.Fatalf("MultiFileReader does not terminate: %s buf=%d len=%d", tag, len(buf), stream.Len())
		}
	}
	return stream.Bytes()
}

var bufSizes = []int{1, 2, 3, 5, 7, 16, 64, 67, 68, 69, 100, 512, 4096, 32768}

// serializeAndCheck serializes the real directory [real] (whose model description is [es]) with the real
// MultiFileReader, emits one CTree case (raw parts + walked parse result) and returns the stream.
func serializeAndCheck(t *testing.T, e *vh.Env, cs *vh.Cases, st *vh.Stats, es []entry, real files.Directory, form bool, tag, hop string) (stream []byte, boundary string, out []entry, ok bool) {
	r := e.Rng
	mfr := files.NewMultiFileReader(real, form, r.Intn(2) == 0)
	bufSize := bufSizes[r.Intn(len(bufSizes))]
	stream = drain(t, mfr, bufSize, tag)
	boundary = mfr.Boundary()
	raws := rawParts(t, stream, boundary)
	readers := readersOf(es, nil)
	if hop == "hop2" {
		for i := range readers {
			readers[i] = "multipart.Part" // the file nodes of a parsed directory read straight from the multipart body
		}
	}
	rp := map[string]any{"kind": "tree", "hop": hop, "form": form, "tree": entriesCoq(es), "readers": readers,
		"read_buffer": bufSize, "from": tag}
	out, bad, fail := parseAndWalk(t, stream, boundary)
	if fail != "" {
		st.Violate("parsing the serialized tree: "+fail, "", rp)
		return nil, "", nil, false
	}
	term := "(CTree " + vh.Bool(form) + " " + entriesCoq(es) + " " + vh.List(raws) + " " + entriesCoq(out) + " " + vh.Bool(bad) + ")"
	cs.Add(term, rp)
	nparts, depth, metas := shape(es, 1)
	st.Case(fmt.Sprintf("T%s|%v|%s|%v", hop, form, entriesCoq(es), readers), nparts >= 2 && (metas > 0 || !form))
	st.Count("tree/" + hop + "/" + map[bool]string{true: "form", false: "attachment"}[form])
	st.Count(fmt.Sprintf("tree/depth=%d", depth))
	st.Count(fmt.Sprintf("tree/parts=%s", bucket(nparts)))
	st.Count(fmt.Sprintf("read-buffer=%d", bufSize))
	for _, k := range readers {
		st.Count("file-reader/" + hop + "/" + k)
	}
	st.Sample(rp, 3)
	return stream, boundary, out, !bad
}

// runTree: hop 1 serializes a generated tree of real nodes and parses it back; hop 2 (when asked) parses the
// hop-1 stream again WITHOUT walking it and hands that parsed directory itself to a second MultiFileReader
// (its file nodes are multipart parts, whose Read returns the last bytes together with io.EOF), then parses
// and walks the second stream: contents are compared after both hops.
func runTree(t *testing.T, e *vh.Env, cs *vh.Cases, st *vh.Stats, es []entry, form bool, hop2 bool, tag string) {
	r := e.Rng
	rootNode := &node{kind: kDir, m: unset, es: es}
	real := build(rootNode, r.Intn(2) == 0).(files.Directory)
	observeInput(rootNode, build(rootNode, false)) // metadata as the nodes report it (independent instance: iterators are one-shot)
	stream, boundary, out, ok := serializeAndCheck(t, e, cs, st, es, real, form, tag, "hop1")
	if !ok || !hop2 {
		return
	}
	parsed, err := files.NewFileFromPartReader(multipart.NewReader(bytes.NewReader(stream), boundary), "multipart/form-data")
	if err != nil {
		t.Fatalf("NewFileFromPartReader: %v", err)
	}
	// the model description of the parsed directory is what the walk of the same bytes saw: [out]
	form2 := form
	if r.Intn(4) == 0 {
		form2 = !form
	}
	serializeAndCheck(t, e, cs, st, out, parsed, form2, tag, "hop2")
}

func bucket(n int) string {
	switch {
	case n == 0:
		return "0"
	case n <= 2:
		return "1-2"
	case n <= 6:
		return "3-6"
	case n <= 15:
		return "7-15"
	}
	return "16+"
}

func shape(es []entry, depth int) (parts, maxDepth, metas int) {
	if len(es) > 0 {
		maxDepth = depth
	}
	for _, e := range es {
		parts++
		if e.n.m.mode != 0 && e.n.kind != kLink || !(e.n.m.sec == zeroSec && e.n.m.nsec == 0) {
			metas++
		}
		if e.n.kind == kDir {
			p, dd, m := shape(e.n.es, depth+1)
			parts += p
			metas += m
			if dd > maxDepth {
				maxDepth = dd
			}
		}
	}
	return
}

// ---- hostile part sequences ----
type part struct {
	disp     string // DForm DAttach DBad
	formname string
	filename string
	ctype    string
	body     []byte
}

func (p part) coq() string {
	return "(Build_part " + p.disp + " " + bc([]byte(p.formname)) + " " + bc([]byte(p.filename)) + " " + p.ctype + " " + bc(p.body) + ")"
}

var comps = []string{"a", "b", "ab", "c", "..", ".", "", "%2F", "a%2fb", "%zz", "+", " ", "a%", "%2e%2e", "%2E", "d e"}

func genFilename(e *vh.Env, prev []string) string {
	r := e.Rng
	if len(prev) > 0 && r.Intn(3) == 0 {
		// related to an earlier name: child, sibling, parent, same
		p := prev[r.Intn(len(prev))]
		switch r.Intn(5) {
		case 0:
			return p + "/" + comps[r.Intn(len(comps))]
		case 1:
			return p + "/" + comps[r.Intn(len(comps))] + "/" + comps[r.Intn(len(comps))]
		case 2:
			return p
		case 3:
			if i := strings.LastIndexByte(p, '/'); i >= 0 {
				return p[:i]
			}
			return p + "x"
		default:
			return p + comps[r.Intn(len(comps))]
		}
	}
	k := r.Intn(4)
	var sb strings.Builder
	if r.Intn(6) == 0 {
		sb.WriteString("/")
	}
	for i := 0; i <= k; i++ {
		if i > 0 {
			sb.WriteString([]string{"/", "/", "/", "//", "%2F"}[r.Intn(5)])
		}
		sb.WriteString(comps[r.Intn(len(comps))])
	}
	if r.Intn(8) == 0 {
		sb.WriteString("/")
	}
	return sb.String()
}

var qkeys = []string{"mode", "mtime", "mtime-nsecs", "mode", "mtime", "mtime-nsecs", "x", "", "m%6fde", "mtime%2dnsecs", "MODE", "mtime-nsec"}
var qvals = []string{"0644", "644", "0", "", "8", "0777", "07777", "37777777777", "40000000000", "-1", "+5", "5", "1604320500",
	"-62135596800", "9223372036854775807", "9223372036854775808", "-9223372036854775808", "-9223372036854775809",
	"99999999999999999999", "1e3", "0x1f", "1_0", "%31%32", "7;", "999999999", "1000000000", "-1000000001", "1999999999",
	"+", "-", "12a", " 1", "0o7", "%zz", "%", "1+1"}

func genFormname(e *vh.Env) string {
	r := e.Rng
	switch r.Intn(10) {
	case 0:
		return "file"
	case 1:
		return ""
	case 2:
		return "file?"
	}
	var sb strings.Builder
	sb.WriteString([]string{"file", "file", "file", "", "x?y"}[r.Intn(5)])
	sb.WriteString("?")
	k := 1 + r.Intn(4)
	for i := 0; i < k; i++ {
		if i > 0 {
			sb.WriteString([]string{"&", "&", "&", "&&", ";"}[r.Intn(5)])
		}
		sb.WriteString(qkeys[r.Intn(len(qkeys))])
		if r.Intn(10) != 0 {
			sb.WriteString("=")
			if r.Intn(4) == 0 {
				sb.WriteString(fmt.Sprintf("%d", r.Int63n(100000)-1000))
			} else {
				sb.WriteString(qvals[r.Intn(len(qvals))])
			}
		}
	}
	return sb.String()
}

func genParts(e *vh.Env) []part {
	r := e.Rng
	n := r.Intn(9)
	ps := make([]part, n)
	var prev []string
	for i := range ps {
		p := part{disp: "DForm", ctype: "CtFile"}
		switch x := r.Intn(20); {
		case x == 0:
			p.disp = "DBad"
		case x < 4:
			p.disp = "DAttach"
		}
		switch x := r.Intn(20); {
		case x < 7:
			p.ctype = "CtDir"
		case x < 9:
			p.ctype = "CtLink"
		case x == 9:
			p.ctype = "CtFormData"
		case x == 10:
			p.ctype = "CtNone"
		case x == 11:
			p.ctype = "CtOther"
		case x == 12 && r.Intn(3) == 0:
			p.ctype = "CtBad"
		}
		p.formname = genFormname(e)
		p.filename = genFilename(e, prev)
		prev = append(prev, p.filename)
		if p.ctype != "CtDir" || r.Intn(4) == 0 {
			p.body = genBody(e)
			if len(p.body) > 8 {
				p.body = p.body[:8]
			}
		}
		ps[i] = p
	}
	return ps
}

func dispText(p part, r interface{ Intn(int) int }) (string, bool) {
	switch p.disp {
	case "DForm":
		if p.filename == "" && r.Intn(2) == 0 {
			return "form-data; name=\"" + p.formname + "\"", true
		}
		return "form-data; name=\"" + p.formname + "\"; filename=\"" + p.filename + "\"", true
	case "DAttach":
		if r.Intn(2) == 0 {
			return "attachment; name=\"" + p.formname + "\"; filename=\"" + p.filename + "\"", true
		}
		return "inline; filename=\"" + p.filename + "\"", true
	}
	if r.Intn(2) == 0 {
		return "", false
	}
	return "form-data; name=\"file\"; filename", true // mime: invalid media parameter
}

func runParts(t *testing.T, e *vh.Env, cs *vh.Cases, st *vh.Stats, ps []part, tag string) {
	var stream bytes.Buffer
	w := multipart.NewWriter(&stream)
	for _, p := range ps {
		h := textproto.MIMEHeader{}
		if txt, ok := dispText(p, e.Rng); ok {
			h.Set("Content-Disposition", txt)
			// the transport assumption of the model: mime gives the parameters back as written
			_, params, err := mime.ParseMediaType(txt)
			if p.disp == "DBad" {
				if err == nil {
					t.Fatalf("harness: %q was meant to be unparseable", txt)
				}
			} else if err != nil || params["filename"] != p.filename || (p.disp == "DForm" && params["name"] != p.formname) {
				t.Fatalf("harness: mime.ParseMediaType(%q) = %v, %v", txt, params, err)
			}
		}
		if p.ctype != "CtNone" {
			h.Set("Content-Type", ctypeText[p.ctype])
		}
		pw, err := w.CreatePart(h)
		if err != nil {
			t.Fatal(err)
		}
		pw.Write(p.body)
	}
	w.Close()
	out, bad, fail := parseAndWalk(t, stream.Bytes(), w.Boundary())
	if fail != "" {
		hs := make([]string, len(ps))
		for i, p := range ps {
			hs[i] = fmt.Sprintf("%s|%s|%s|%s", p.disp, p.formname, p.filename, p.ctype)
		}
		st.Violate("parsing a hand-made part sequence: "+fail, "", map[string]any{"kind": "parts", "parts": hs, "from": tag})
		return
	}
	term := "(CParse " + vh.ListOf(ps, part.coq) + " " + entriesCoq(out) + " " + vh.Bool(bad) + ")"
	desc := make([]string, len(ps))
	for i, p := range ps {
		desc[i] = fmt.Sprintf("%s|%s|%s|%s", p.disp, p.formname, p.filename, p.ctype)
	}
	rp := map[string]any{"kind": "parts", "parts": desc, "from": tag}
	cs.Add(term, rp)
	nOut, _, _ := shape(out, 1)
	st.Case("P|"+strings.Join(desc, ";"), len(ps) >= 2 && nOut >= 1)
	st.Count("parts/n=" + bucket(len(ps)))
	if bad {
		st.Count("parts/aborted")
	}
	st.Sample(rp, 6)
}

func fp(formname, filename, ctype, body string) part {
	return part{"DForm", formname, filename, ctype, []byte(body)}
}

var partsCorpus = [][]part{
	{fp("file?mode=0644", "f", "CtFile", "x")},                                  // mode only: mtime must stay unset
	{fp("file?mtime-nsecs=5", "f", "CtFile", "x")},                              // nsecs only
	{fp("file?mtime=7&mtime-nsecs=1999999999", "f", "CtFile", "x")},             // nsec normalisation
	{fp("file?mtime=9223372036854775807&mtime-nsecs=1000000000", "f", "CtFile", "")}, // wrap
	{fp("file?mtime=1&mtime-nsecs=-1", "f", "CtLink", "t")},
	{fp("file?mtime=x&mode=7", "f", "CtFile", "")},
	{fp("file?mode=0644;mtime=3", "f", "CtFile", "")},
	{fp("file?mode=%zz", "f", "CtDir", "")},
	{fp("file?mtime-nsecs=99999999999999999999&mtime=0", "f", "CtFile", "")},
	{fp("file", "a/b/c", "CtFile", "deep"), fp("file", "a/b/d", "CtFile", "2"), fp("file", "a/e", "CtFile", "3"), fp("file", "f", "CtFile", "4")},
	{fp("file", "x", "CtFile", "1"), fp("file", "x/y", "CtFile", "skipped"), fp("file", "z", "CtFile", "2")},
	{fp("file", "a", "CtDir", ""), fp("file", "b", "CtFile", "1"), fp("file", "a/c", "CtFile", "2")},
	{fp("file", "", "CtFile", "noname"), fp("file", "a", "CtFile", "1")},
	{fp("file", "", "CtDir", ""), fp("file", "a", "CtFile", "1"), fp("file", "/", "CtDir", ""), fp("file", "b", "CtFile", "2")},
	{fp("file", "../../etc/passwd", "CtFile", "1"), fp("file", "a/../b", "CtFile", "2"), fp("file", "a//b/./c", "CtFile", "3")},
	{fp("file", "a", "CtDir", ""), fp("file", "a/b", "CtBad", ""), fp("file", "a/c", "CtFile", "1")},
	{fp("file", "a", "CtFile", "1"), {"DBad", "", "", "CtFile", []byte("2")}, fp("file", "b", "CtFile", "3")},
	{fp("file", "a%2Fb", "CtFile", "1"), fp("file", "a%2fc", "CtFile", "2"), fp("file", "a%zz", "CtFile", "3")},
	{fp("file", "a/b", "CtFile", "1"), fp("file", "a", "CtDir", ""), fp("file", "a/b", "CtFile", "2")},
}

func TestC39(t *testing.T) {
	e := vh.Load(t)
	st := vh.NewStats("CTree: generated trees (depth <= 3, <= 4 entries per directory, hostile names, modes incl. type bits, " +
		"unset/boundary/random mtimes; file contents behind bytes.Reader / one-byte / half / data-together-with-EOF readers) serialized by " +
		"NewMultiFileReader in form and attachment mode with read buffers of 1..32768 bytes, and (hop2, half of the trees) the parsed " +
		"directory itself re-serialized by a second MultiFileReader and parsed again, " +
		"raw parts and the walked NewFileFromPartReader result compared with the model and the round-trip specification; " +
		"CParse: hand-made part sequences (implicit directories, out-of-order and repeated names, dot-dot, bad escapes, " +
		"hostile query strings, bad headers) parsed by the real code and compared with the model. " +
		"non-trivial = CTree with >= 2 parts and (some metadata set or attachment mode), CParse with >= 2 parts and >= 1 walked entry; " +
		"distinct by (mode, tree) / part headers")
	cs := vh.NewCases(e, "From V Require Import model.M_C39.\nOpen Scope Z_scope.", "case", "check_case", 200)
	for i, es := range corpus {
		runTree(t, e, cs, st, es, true, true, fmt.Sprintf("corpus%d/form", i))
		runTree(t, e, cs, st, es, false, true, fmt.Sprintf("corpus%d/attachment", i))
	}
	for i, ps := range partsCorpus {
		runParts(t, e, cs, st, ps, fmt.Sprintf("partscorpus%d", i))
	}
	nTree, nParts := e.Pick(500, 9000), e.Pick(800, 14000)
	for i := 0; i < nTree; i++ {
		es := genEntries(e, 2, 4)
		runTree(t, e, cs, st, es, e.Rng.Intn(4) != 0, e.Rng.Intn(2) == 0, "gen")
	}
	for i := 0; i < nParts; i++ {
		runParts(t, e, cs, st, genParts(e), "gen")
	}
	cs.Close()
	st.Write(e)
}
