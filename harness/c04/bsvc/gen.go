package bsvc

import (
	"fmt"
	"math/rand"

	"github.com/ipfs/go-cid"
	mh "github.com/multiformats/go-multihash"
)

// Profile steers the history generator.
type Profile struct {
	InvalidBias int // percent of pool CIDs the default allowlist rejects
	HostileBias int // percent of exchange answers that are not an honest subset/permutation
	FaultBias   int // percent of operations with an injected store/exchange fault
	MaxOps      int
	MaxKeys     int
}

// Pools of allowlists used by the history generator (the validator sweep of C04 has its own, larger pool).
func ALPool() []*AL {
	def := &AL{Kind: 0}
	return []*AL{
		def,
		{Kind: 2, Override: def, Set: []KV{{mh.SHA2_256, false}, {mh.MD5, true}}},
		{Kind: 2, Set: []KV{{mh.SHA2_256, true}, {mh.IDENTITY, true}, {mh.MD5, true}, {mh.SHA2_512, false}}, ViaNew: true},
		{Kind: 2, Set: []KV{{mh.SHA2_256, true}, {0xb213, true}}},
		{Kind: 1, Allowed: []uint64{mh.SHA2_256, mh.IDENTITY, mh.MD5, 0x9999}, Min: 16, Max: 32},
		{Kind: 2, Override: &AL{Kind: 1, Allowed: []uint64{mh.SHA2_256, mh.SHA2_512}, Min: 19, Max: 129}, Set: []KV{{mh.IDENTITY, true}, {mh.SHA2_512, false}}},
	}
}

// Gen generates histories.
type Gen struct {
	R    *rand.Rand
	U    *Universe
	P    Profile
	Pool []*ACid
}

type cidShape struct {
	ver    int
	codec  uint64
	code   uint64
	length int
}

var validShapes = []cidShape{
	{1, cid.Raw, mh.SHA2_256, 32}, {1, cid.DagProtobuf, mh.SHA2_256, 32}, {0, cid.DagProtobuf, mh.SHA2_256, 32},
	{1, cid.Raw, mh.SHA2_256, 32}, {1, cid.Raw, mh.SHA2_512, 64}, {1, cid.DagCBOR, 0xb220, 32},
	{1, cid.Raw, mh.IDENTITY, 7}, {1, cid.Raw, mh.IDENTITY, 128}, {1, cid.Raw, mh.IDENTITY, 0},
	{1, cid.Raw, mh.SHA2_256, 20}, {1, cid.Raw, mh.SHA1, 20}, {1, cid.Raw, mh.SHA2_512, 128}, {1, cid.Raw, 0xb214, 20},
	{1, cid.Raw, mh.BLAKE3, 32}, {1, cid.Raw, mh.BLAKE3, 128},
}
var invalidShapes = []cidShape{
	{1, cid.Raw, mh.MD5, 16}, {1, cid.Raw, mh.SHA2_256, 19}, {1, cid.Raw, mh.IDENTITY, 129}, {1, cid.Raw, mh.SHA2_256, 129},
	{1, cid.Raw, 0xb213, 19}, {1, cid.Raw, 0xb213, 32}, {1, cid.DagProtobuf, 0x9999, 32}, {1, cid.Raw, mh.SHA2_256, 0},
	{1, cid.Raw, mh.MURMUR3X64_64, 8}, {1, cid.Raw, mh.SHAKE_128, 32}, {1, cid.Raw, 0xb253, 19}, {1, cid.Raw, 0xb261, 32},
	{1, cid.Raw, mh.MD5, 32}, {1, cid.Raw, mh.BLAKE3, 129},
}

// NewPool draws the CIDs a history works with: few digests, several shapes per
// digest, so that distinct CIDs with the same multihash occur.
func (g *Gen) NewPool(n int) {
	g.Pool = g.Pool[:0]
	ndig := 2 + g.R.Intn(4)
	for len(g.Pool) < n {
		var sh cidShape
		if g.R.Intn(100) < g.P.InvalidBias {
			sh = invalidShapes[g.R.Intn(len(invalidShapes))]
		} else {
			sh = validShapes[g.R.Intn(len(validShapes))]
		}
		g.Pool = append(g.Pool, g.U.Cid(sh.ver, sh.codec, sh.code, sh.length, g.R.Intn(ndig)))
	}
}

func (g *Gen) pick() *ACid { return g.Pool[g.R.Intn(len(g.Pool))] }

// GoodBlock is the block whose bytes hash to c.
func (g *Gen) GoodBlock(c *ACid) *ABlk { return g.U.Block(c, c.Dig) }

// BadBlock has CID c but other bytes.
func (g *Gen) BadBlock(c *ACid) *ABlk { return g.U.Block(c, c.Dig+1+g.R.Intn(3)) }

func (g *Gen) Config() Config {
	pool := ALPool()
	al := pool[0]
	if g.R.Intn(2) == 0 {
		al = pool[g.R.Intn(len(pool))]
	}
	exk := 1 + g.R.Intn(2)
	if g.R.Intn(6) == 0 {
		exk = 0
	}
	return Config{Al: al, CheckFirst: g.R.Intn(3) != 0, Ex: exk, ExplicitDefault: g.R.Intn(2) == 0}
}

func (g *Gen) faults() Faults {
	var f Faults
	if g.R.Intn(100) >= g.P.FaultBias {
		return f
	}
	n := 1 + g.R.Intn(2)
	for i := 0; i < n; i++ {
		c := g.pick()
		switch g.R.Intn(4) {
		case 0:
			f.Get = append(f.Get, c)
		case 1:
			f.Has = append(f.Has, c)
		case 2:
			f.Put = append(f.Put, c)
		default:
			f.Notify = append(f.Notify, c)
		}
	}
	return f
}

// AnswerN builds the exchange's answer to GetBlocks(misses) from a private RNG
// (the script runs inside the service's goroutine).
func (g *Gen) AnswerN(seed int64, hostile bool) func(ks []*ACid) ([]*ABlk, bool) {
	return func(ks []*ACid) ([]*ABlk, bool) {
		r := rand.New(rand.NewSource(seed))
		if r.Intn(12) == 0 {
			return nil, true
		}
		var resp []*ABlk
		// honest part: any subset, any order, occasionally a duplicate delivery
		mode := r.Intn(4)
		for _, k := range ks {
			if mode == 0 || r.Intn(4) != 0 {
				resp = append(resp, g.U.Block(k, k.Dig))
			}
		}
		if mode >= 2 {
			r.Shuffle(len(resp), func(i, j int) { resp[i], resp[j] = resp[j], resp[i] })
		}
		if mode == 3 && len(resp) > 0 {
			resp = append(resp, resp[r.Intn(len(resp))])
		}
		if hostile {
			n := 1 + r.Intn(3)
			for i := 0; i < n; i++ {
				var b *ABlk
				switch r.Intn(4) {
				case 0, 1: // a block nobody asked for (possibly with a CID the validator rejects, possibly same multihash as a requested one)
					c := g.Pool[r.Intn(len(g.Pool))]
					b = g.U.Block(c, c.Dig)
				case 2: // requested CID, wrong bytes
					if len(ks) > 0 {
						k := ks[r.Intn(len(ks))]
						b = g.U.Block(k, k.Dig+1+r.Intn(3))
					}
				default: // unrequested and wrong bytes
					c := g.Pool[r.Intn(len(g.Pool))]
					b = g.U.Block(c, c.Dig+1+r.Intn(3))
				}
				if b != nil {
					at := r.Intn(len(resp) + 1)
					resp = append(resp[:at], append([]*ABlk{b}, resp[at:]...)...)
				}
			}
		}
		return resp, false
	}
}

// Answer1 builds the exchange's answer to GetBlock(c).
func (g *Gen) Answer1(seed int64, hostile bool) func(c *ACid) X1 {
	return func(c *ACid) X1 {
		r := rand.New(rand.NewSource(seed))
		if hostile {
			switch r.Intn(3) {
			case 0:
				o := g.Pool[r.Intn(len(g.Pool))]
				return X1{Blk: g.U.Block(o, o.Dig)}
			case 1:
				return X1{Blk: g.U.Block(c, c.Dig+1+r.Intn(3))}
			default:
				o := g.Pool[r.Intn(len(g.Pool))]
				return X1{Blk: g.U.Block(o, o.Dig+1)}
			}
		}
		switch r.Intn(6) {
		case 0:
			return X1{Err: "RNotFound"}
		case 1:
			return X1{Err: "ROther"}
		}
		return X1{Blk: g.U.Block(c, c.Dig)}
	}
}

// Keys draws a request list (duplicates likely).
func (g *Gen) Keys(max int) []*ACid {
	n := g.R.Intn(max + 1)
	ks := make([]*ACid, n)
	for i := range ks {
		ks[i] = g.pick()
	}
	return ks
}

// Op draws one operation.
func (g *Gen) Op() *Op {
	op := &Op{Faults: g.faults(), Path: g.R.Intn(NPaths)}
	hostile := g.R.Intn(100) < g.P.HostileBias
	op.On1 = g.Answer1(g.R.Int63(), hostile)
	op.OnN = g.AnswerN(g.R.Int63(), hostile)
	switch x := g.R.Intn(20); {
	case x < 3:
		op.Kind, op.Blk = "Add", g.GoodBlock(g.pick())
	case x < 6:
		op.Kind = "AddMany"
		n := g.R.Intn(5)
		for i := 0; i < n; i++ {
			op.Blks = append(op.Blks, g.GoodBlock(g.pick()))
		}
	case x < 11:
		op.Kind, op.Cid = "Get", g.pick()
	case x < 19:
		op.Kind, op.Keys = "GetMany", g.Keys(g.P.MaxKeys)
	default:
		op.Kind, op.Cid = "Del", g.pick()
	}
	return op
}

// History runs a random history on a fresh service and returns the observations.
func (g *Gen) History(cfg Config) []*Obs {
	s := NewSvc(g.U, cfg)
	n := 1 + g.R.Intn(g.P.MaxOps)
	var obs []*Obs
	for i := 0; i < n; i++ {
		obs = append(obs, s.Do(g.Op()))
	}
	return obs
}

// Run runs the given operations on a fresh service.
func Run(u *Universe, cfg Config, ops []*Op) []*Obs {
	s := NewSvc(u, cfg)
	var obs []*Obs
	for _, op := range ops {
		obs = append(obs, s.Do(op))
	}
	return obs
}

// Key is a canonical string of a history (for distinctness statistics).
func Key(cfg Config, obs []*Obs) string {
	s := cfg.String()
	for _, o := range obs {
		s += "|" + fmt.Sprint(o.Replay())
	}
	return s
}
