// Package bsvc is the part of the correspondence harness that C04 and C05 share:
// an abstract universe of CIDs/blocks mirrored in coq/lib/BlockSvc.v, a logging and
// fault-injecting wrapper around the real boxo blockstore, a scriptable fake
// exchange (plain and session flavours), and a runner that drives the REAL
// blockservice one operation at a time and renders what it did as a Coq [obs] term.
package bsvc

import (
	"context"
	"crypto/sha256"
	"encoding/binary"
	"errors"
	"fmt"
	"sort"
	"strings"
	"sync"

	"github.com/ipfs/boxo/blockservice"
	"github.com/ipfs/boxo/blockstore"
	"github.com/ipfs/boxo/exchange"
	"github.com/ipfs/boxo/verifcid"
	blocks "github.com/ipfs/go-block-format"
	"github.com/ipfs/go-cid"
	ds "github.com/ipfs/go-datastore"
	dssync "github.com/ipfs/go-datastore/sync"
	ipld "github.com/ipfs/go-ipld-format"
	mh "github.com/multiformats/go-multihash"

	"verif/harness/vh"
)

// ---------- abstract universe ----------

// ACid is a CID together with its image in the model.
type ACid struct {
	Ver, Codec int64
	Code       uint64
	Len        int
	Dig        int
	C          cid.Cid
	Real       bool // digest really is hash(payload Dig) (possibly truncated); false = fabricated digest bytes
}

// ABlk is a block together with its image in the model.
type ABlk struct {
	Cid  *ACid
	Data int
	B    blocks.Block
}

// Universe registers every CID / multihash / payload the harness creates so that
// what the implementation returns can be projected back into the model's terms.
type Universe struct {
	mu    sync.Mutex // the scripted exchange runs inside the service's goroutine
	cids  map[string]*ACid
	mhs   map[string]*ACid
	datas map[string]int
}

func NewUniverse() *Universe {
	return &Universe{cids: map[string]*ACid{}, mhs: map[string]*ACid{}, datas: map[string]int{}}
}

// Payload is the byte string with identifier i.
func Payload(i int) []byte { return []byte(fmt.Sprintf("verif-payload-%d", i)) }

func stream(code uint64, dig int, n int) []byte {
	out := make([]byte, 0, n+32)
	var ctr uint32
	for len(out) < n {
		var seed [20]byte
		binary.BigEndian.PutUint64(seed[0:], code)
		binary.BigEndian.PutUint64(seed[8:], uint64(dig))
		binary.BigEndian.PutUint32(seed[16:], ctr)
		h := sha256.Sum256(seed[:])
		out = append(out, h[:]...)
		ctr++
	}
	return out[:n]
}

// Cid builds (or returns the registered) CID with the given prefix and digest identifier.
// ver 0 is only possible for (dag-pb, sha2-256, 32).
func (u *Universe) Cid(ver int, codec uint64, code uint64, length int, dig int) *ACid {
	u.mu.Lock()
	defer u.mu.Unlock()
	var m mh.Multihash
	realDigest := false
	if code != mh.IDENTITY {
		if s, err := mh.Sum(Payload(dig), code, length); err == nil {
			if d, err := mh.Decode(s); err == nil && d.Length == length {
				m, realDigest = s, true
			}
		}
	}
	if m == nil {
		var err error
		m, err = mh.Encode(stream(code, dig, length), code)
		if err != nil {
			panic(err)
		}
		realDigest = code == mh.IDENTITY
	}
	var c cid.Cid
	if ver == 0 {
		if codec != cid.DagProtobuf || code != mh.SHA2_256 || length != 32 {
			panic("no such CIDv0")
		}
		c = cid.NewCidV0(m)
	} else {
		c = cid.NewCidV1(codec, m)
	}
	key := string(c.Bytes())
	if a, ok := u.cids[key]; ok {
		return a
	}
	a := &ACid{Ver: int64(ver), Codec: int64(codec), Code: code, Len: length, Dig: dig, C: c, Real: realDigest}
	u.cids[key] = a
	if _, ok := u.mhs[string(c.Hash())]; !ok {
		u.mhs[string(c.Hash())] = a
	}
	return a
}

// goodBytes are the bytes that hash to c.
func (u *Universe) goodBytes(c *ACid) []byte {
	if c.Code == mh.IDENTITY {
		return stream(c.Code, c.Dig, c.Len)
	}
	return Payload(c.Dig)
}

// Block builds a block with CID c whose bytes are payload `data` (the bytes that
// hash to c when data == c.Dig).
func (u *Universe) Block(c *ACid, data int) *ABlk {
	var raw []byte
	if data == c.Dig {
		raw = u.goodBytes(c)
	} else {
		raw = Payload(data)
	}
	u.mu.Lock()
	u.datas[string(raw)] = data
	u.mu.Unlock()
	b, err := blocks.NewBlockWithCid(raw, c.C)
	if err != nil {
		panic(err)
	}
	return &ABlk{Cid: c, Data: data, B: b}
}

var unknownCid = &ACid{Ver: -1, Codec: -1, Len: -1}

// AbsCid projects a CID returned by the implementation.
func (u *Universe) AbsCid(c cid.Cid) *ACid {
	u.mu.Lock()
	defer u.mu.Unlock()
	if a, ok := u.cids[string(c.Bytes())]; ok {
		return a
	}
	return unknownCid
}

// AbsBlk projects a block returned by the implementation.
func (u *Universe) AbsBlk(b blocks.Block) *ABlk {
	u.mu.Lock()
	d, ok := u.datas[string(b.RawData())]
	u.mu.Unlock()
	if !ok {
		d = 999999
	}
	return &ABlk{Cid: u.AbsCid(b.Cid()), Data: d, B: b}
}

// ReallyGood re-hashes the block where that is possible; ok=false when the digest was fabricated.
func ReallyGood(b *ABlk) (good bool, ok bool) {
	if !b.Cid.Real {
		return false, false
	}
	c2, err := b.Cid.C.Prefix().Sum(b.B.RawData())
	if err != nil {
		return false, false
	}
	return c2.Equals(b.Cid.C), true
}

// Names abbreviates the CIDs of one case: the case term becomes
// (let k0 := mkcid .. in let k1 := .. in <body>), which keeps the case files small.
type Names struct {
	m    map[*ACid]string
	defs []string
}

var cur *Names

// WithNames renders body with CID abbreviations and wraps it in the let-bindings.
func WithNames(body func() string) string {
	cur = &Names{m: map[*ACid]string{}}
	b := body()
	defs := cur.defs
	cur = nil
	return "(" + strings.Join(defs, " ") + " " + b + ")"
}

func (c *ACid) raw() string {
	return fmt.Sprintf("(mkcid %s %s %s %s %s)", vh.Z(c.Ver), vh.Z(c.Codec), vh.ZU(c.Code), vh.Z(int64(c.Len)), vh.N(uint64(c.Dig)))
}
func (c *ACid) Coq() string {
	if cur == nil {
		return c.raw()
	}
	name, ok := cur.m[c]
	if !ok {
		name = fmt.Sprintf("k%d", len(cur.m))
		cur.m[c] = name
		cur.defs = append(cur.defs, "let "+name+" := "+c.raw()+" in")
	}
	return name
}
func (c *ACid) MhCoq() string { return "(mh_of " + c.Coq() + ")" }
func (c *ACid) String() string {
	return fmt.Sprintf("v%d/%#x/%#x/%d/#%d", c.Ver, c.Codec, c.Code, c.Len, c.Dig)
}
func (b *ABlk) Coq() string    { return fmt.Sprintf("(mkblk %s %s)", b.Cid.Coq(), vh.N(uint64(b.Data))) }
func (b *ABlk) String() string { return fmt.Sprintf("%s=%d", b.Cid, b.Data) }
func CidsCoq(cs []*ACid) string {
	return vh.ListOf(cs, func(c *ACid) string { return c.Coq() })
}
func BlksCoq(bs []*ABlk) string {
	return vh.ListOf(bs, func(b *ABlk) string { return b.Coq() })
}
func cidsStr(cs []*ACid) string {
	s := make([]string, len(cs))
	for i, c := range cs {
		s[i] = c.String()
	}
	return strings.Join(s, ",")
}
func blksStr(bs []*ABlk) string {
	s := make([]string, len(bs))
	for i, b := range bs {
		s[i] = b.String()
	}
	return strings.Join(s, ",")
}

// ---------- allowlists ----------

type KV struct {
	Code uint64
	Good bool
}

// AL mirrors M_C04.alist.
type AL struct {
	Kind     int // 0 ADefault, 1 AConst, 2 ACustom
	Allowed  []uint64
	Min, Max int
	Override *AL
	Set      []KV
	ViaNew   bool // build an override-less ACustom with NewAllowlist instead of NewOverridingAllowlist(nil, ..)
}

type constAL struct {
	allowed  map[uint64]bool
	min, max int
}

func (c constAL) IsAllowed(code uint64) bool { return c.allowed[code] }
func (c constAL) MinDigestSize(uint64) int   { return c.min }
func (c constAL) MaxDigestSize(uint64) int   { return c.max }

func (a *AL) Build() verifcid.Allowlist {
	switch a.Kind {
	case 0:
		return verifcid.DefaultAllowlist
	case 1:
		m := map[uint64]bool{}
		for _, c := range a.Allowed {
			m[c] = true
		}
		return constAL{m, a.Min, a.Max}
	}
	m := map[uint64]bool{}
	for _, kv := range a.Set {
		m[kv.Code] = kv.Good
	}
	if a.Override == nil {
		if a.ViaNew {
			return verifcid.NewAllowlist(m)
		}
		return verifcid.NewOverridingAllowlist(nil, m)
	}
	return verifcid.NewOverridingAllowlist(a.Override.Build(), m)
}

func (a *AL) Coq() string {
	switch a.Kind {
	case 0:
		return "ADefault"
	case 1:
		return vh.App("AConst", vh.ListOf(a.Allowed, vh.ZU), vh.Z(int64(a.Min)), vh.Z(int64(a.Max)))
	}
	ov := "None"
	if a.Override != nil {
		ov = "(Some " + a.Override.Coq() + ")"
	}
	return vh.App("ACustom", ov, vh.ListOf(a.Set, func(kv KV) string { return "(" + vh.ZU(kv.Code) + ", " + vh.Bool(kv.Good) + ")" }))
}

// VerrClass classifies ValidateCid's result.
func VerrClass(err error) string {
	switch {
	case err == nil:
		return "EOk"
	case errors.Is(err, verifcid.ErrPossiblyInsecureHashFunction):
		return "EInsecure"
	case errors.Is(err, verifcid.ErrDigestTooSmall):
		return "ETooSmall"
	case errors.Is(err, verifcid.ErrDigestTooLarge):
		return "ETooLarge"
	}
	return "EOther" // not a constructor of verr: makes the case file fail to compile, i.e. break loudly
}

var ErrFault = errors.New("verif: injected fault")

// ErrClass classifies an error of the block service.
func ErrClass(err error) string {
	switch {
	case err == nil:
		return "RNil"
	case errors.Is(err, verifcid.ErrPossiblyInsecureHashFunction):
		return "RInsecure"
	case errors.Is(err, verifcid.ErrDigestTooSmall):
		return "RTooSmall"
	case errors.Is(err, verifcid.ErrDigestTooLarge):
		return "RTooLarge"
	case ipld.IsNotFound(err):
		return "RNotFound"
	}
	return "ROther"
}

// ---------- event log ----------

type Ev struct {
	Kind string // Has Get Put PutMany Del NewSession Fetch1 FetchN Notify Foreign
	In   *Ev    // Foreign: the call that reached ANOTHER block service's blockstore / exchange
	Cid  *ACid
	Blk  *ABlk
	Blks []*ABlk
	Cids []*ACid
	Via  bool
}

func (e Ev) Coq() string {
	switch e.Kind {
	case "Foreign":
		return vh.App("EvForeign", e.In.Coq())
	case "Has", "Get", "Del":
		return vh.App("Ev"+e.Kind, e.Cid.Coq())
	case "Put":
		return vh.App("EvPut", e.Blk.Coq())
	case "PutMany", "Notify":
		return vh.App("Ev"+e.Kind, BlksCoq(e.Blks))
	case "NewSession":
		return "EvNewSession"
	case "Fetch1":
		return vh.App("EvFetch1", vh.Bool(e.Via), e.Cid.Coq())
	case "FetchN":
		return vh.App("EvFetchN", vh.Bool(e.Via), CidsCoq(e.Cids))
	}
	panic(e.Kind)
}
func (e Ev) String() string {
	switch e.Kind {
	case "Foreign":
		return "OTHER-SERVICE:" + e.In.String()
	case "Has", "Get", "Del":
		return e.Kind + "(" + e.Cid.String() + ")"
	case "Put":
		return "Put(" + e.Blk.String() + ")"
	case "PutMany", "Notify":
		return e.Kind + "(" + blksStr(e.Blks) + ")"
	case "Fetch1":
		return fmt.Sprintf("Fetch1[%v](%s)", e.Via, e.Cid)
	case "FetchN":
		return fmt.Sprintf("FetchN[%v](%s)", e.Via, cidsStr(e.Cids))
	}
	return e.Kind
}

type evlog struct {
	mu  sync.Mutex
	evs []Ev
	to  *evlog // non-nil: this is the log of the OTHER block service; its calls are recorded in [to] as Foreign
}

func (l *evlog) add(e Ev) {
	if l.to != nil {
		l.to.add(Ev{Kind: "Foreign", In: &e})
		return
	}
	l.mu.Lock()
	l.evs = append(l.evs, e)
	l.mu.Unlock()
}
func (l *evlog) take() []Ev {
	l.mu.Lock()
	defer l.mu.Unlock()
	e := l.evs
	l.evs = nil
	return e
}

// Faults mirrors BlockSvc.faults: multihashes on which the named call fails.
type Faults struct{ Get, Has, Put, Notify []*ACid }

func mhset(cs []*ACid) map[string]bool {
	m := map[string]bool{}
	for _, c := range cs {
		m[string(c.C.Hash())] = true
	}
	return m
}
func mhsCoq(cs []*ACid) string { return vh.ListOf(cs, func(c *ACid) string { return c.MhCoq() }) }
func (f Faults) Coq() string {
	if len(f.Get)+len(f.Has)+len(f.Put)+len(f.Notify) == 0 {
		return "no_faults"
	}
	return fmt.Sprintf("{| f_get := %s; f_has := %s; f_put := %s; f_notify := %s |}",
		mhsCoq(f.Get), mhsCoq(f.Has), mhsCoq(f.Put), mhsCoq(f.Notify))
}
func (f Faults) Any() bool { return len(f.Get)+len(f.Has)+len(f.Put)+len(f.Notify) > 0 }

// ---------- logging / fault-injecting blockstore around the real one ----------

type wstore struct {
	blockstore.Blockstore
	u                 *Universe
	log               *evlog
	fget, fhas, fput map[string]bool
}

func (w *wstore) Has(ctx context.Context, c cid.Cid) (bool, error) {
	w.log.add(Ev{Kind: "Has", Cid: w.u.AbsCid(c)})
	if w.fhas[string(c.Hash())] {
		return false, ErrFault
	}
	return w.Blockstore.Has(ctx, c)
}
func (w *wstore) Get(ctx context.Context, c cid.Cid) (blocks.Block, error) {
	w.log.add(Ev{Kind: "Get", Cid: w.u.AbsCid(c)})
	if w.fget[string(c.Hash())] {
		return nil, ErrFault
	}
	return w.Blockstore.Get(ctx, c)
}
func (w *wstore) Put(ctx context.Context, b blocks.Block) error {
	w.log.add(Ev{Kind: "Put", Blk: w.u.AbsBlk(b)})
	if w.fput[string(b.Cid().Hash())] {
		return ErrFault
	}
	return w.Blockstore.Put(ctx, b)
}
func (w *wstore) PutMany(ctx context.Context, bs []blocks.Block) error {
	abs := make([]*ABlk, len(bs))
	fail := false
	for i, b := range bs {
		abs[i] = w.u.AbsBlk(b)
		fail = fail || w.fput[string(b.Cid().Hash())]
	}
	w.log.add(Ev{Kind: "PutMany", Blks: abs})
	if fail {
		return ErrFault
	}
	return w.Blockstore.PutMany(ctx, bs)
}
func (w *wstore) DeleteBlock(ctx context.Context, c cid.Cid) error {
	w.log.add(Ev{Kind: "Del", Cid: w.u.AbsCid(c)})
	return w.Blockstore.DeleteBlock(ctx, c)
}

// ---------- scriptable fake exchange ----------

// X1 is the scripted answer to Fetcher.GetBlock.
type X1 struct {
	Err string // "" = deliver Blk; otherwise "RNotFound" or "ROther"
	Blk *ABlk
}

func (x X1) Coq() string {
	if x.Err != "" {
		return vh.App("XErr", x.Err)
	}
	return vh.App("XBlk", x.Blk.Coq())
}

type fakeFetcher struct {
	ex  *fakeEx
	via bool
}

type fakeEx struct {
	u       *Universe
	log     *evlog
	fnotify map[string]bool
	// scripts for the current operation; they see the request
	on1 func(c *ACid) X1
	onN func(ks []*ACid) (resp []*ABlk, fail bool)
	// what was answered (the oracle that goes into the case)
	got1 *X1
	gotN []*ABlk
	errN bool
	hadN bool
	closed int
}

func (f fakeFetcher) GetBlock(ctx context.Context, c cid.Cid) (blocks.Block, error) {
	a := f.ex.u.AbsCid(c)
	f.ex.log.add(Ev{Kind: "Fetch1", Via: f.via, Cid: a})
	x := f.ex.on1(a)
	f.ex.got1 = &x
	switch x.Err {
	case "":
		return x.Blk.B, nil
	case "RNotFound":
		return nil, ipld.ErrNotFound{Cid: c}
	}
	return nil, ErrFault
}

func (f fakeFetcher) GetBlocks(ctx context.Context, ks []cid.Cid) (<-chan blocks.Block, error) {
	as := make([]*ACid, len(ks))
	for i, k := range ks {
		as[i] = f.ex.u.AbsCid(k)
	}
	f.ex.log.add(Ev{Kind: "FetchN", Via: f.via, Cids: as})
	resp, fail := f.ex.onN(as)
	f.ex.hadN, f.ex.gotN, f.ex.errN = true, resp, fail
	if fail {
		return nil, ErrFault
	}
	ch := make(chan blocks.Block, len(resp))
	for _, b := range resp {
		ch <- b.B
	}
	close(ch)
	return ch, nil
}

func (e *fakeEx) GetBlock(ctx context.Context, c cid.Cid) (blocks.Block, error) {
	return fakeFetcher{e, false}.GetBlock(ctx, c)
}
func (e *fakeEx) GetBlocks(ctx context.Context, ks []cid.Cid) (<-chan blocks.Block, error) {
	return fakeFetcher{e, false}.GetBlocks(ctx, ks)
}
func (e *fakeEx) NotifyNewBlocks(ctx context.Context, bs ...blocks.Block) error {
	abs := make([]*ABlk, len(bs))
	fail := false
	for i, b := range bs {
		abs[i] = e.u.AbsBlk(b)
		fail = fail || e.fnotify[string(b.Cid().Hash())]
	}
	e.log.add(Ev{Kind: "Notify", Blks: abs})
	if fail {
		return ErrFault
	}
	return nil
}
func (e *fakeEx) Close() error { e.closed++; return nil }

type fakeSessEx struct{ *fakeEx }

func (e fakeSessEx) NewSession(ctx context.Context) exchange.Fetcher {
	e.log.add(Ev{Kind: "NewSession"})
	return fakeFetcher{e.fakeEx, true}
}

var (
	_ exchange.Interface       = (*fakeEx)(nil)
	_ exchange.SessionExchange = fakeSessEx{}
)

// ---------- the runner ----------

// Config mirrors M_C04.config.
type Config struct {
	Al         *AL
	CheckFirst bool
	Ex         int // 0 XNone, 1 XPlain, 2 XSess
	// Go only: pass the default allowlist explicitly through WithAllowlist instead of relying on New's default
	ExplicitDefault bool
}

var exNames = []string{"XNone", "XPlain", "XSess"}
var pathNames = []string{"PPlain", "PSession", "PCtxSession", "PForeignCtx", "PForeignSession"}

// NPaths is the number of ways a getter is reached (index into the names above):
// 3 = bs.GetX(ContextWithSession(ctx, OTHER)), 4 = NewSession(ContextWithSession(ctx, OTHER), bs).GetX
const NPaths = 5

func (c Config) Coq() string {
	return fmt.Sprintf("{| cf_al := %s; cf_checkfirst := %s; cf_ex := %s |}", c.Al.Coq(), vh.Bool(c.CheckFirst), exNames[c.Ex])
}
func (c Config) String() string {
	return fmt.Sprintf("al=%s checkFirst=%v ex=%s", c.Al.Coq(), c.CheckFirst, exNames[c.Ex])
}

// Op is one operation with the scripts for the exchange and the faults to inject.
type Op struct {
	Kind   string // Add AddMany Get GetMany Del
	Blk    *ABlk
	Blks   []*ABlk
	Path   int
	Cid    *ACid
	Keys   []*ACid
	On1    func(c *ACid) X1
	OnN    func(ks []*ACid) ([]*ABlk, bool)
	Faults Faults
}

// Emitted is one block received from GetBlocks with the blockstore's Has at that moment.
type Emitted struct {
	Blk    *ABlk
	Cached bool
}

// StoreEnt is one blockstore entry: a CID carrying the multihash key, and the payload id stored.
type StoreEnt struct {
	Key  *ACid
	Data int
}

// Obs is what the real block service did for one Op.
type Obs struct {
	Op      *Op
	X1      X1      // oracle used (Get)
	XN      []*ABlk // oracle used (GetMany)
	XNErr   bool
	Fetched bool // the exchange was asked
	Evs     []Ev
	Err     string
	Blk     *ABlk
	Emitted []Emitted
	Store   []StoreEnt // sorted by multihash
}

type Svc struct {
	U     *Universe
	Cfg   Config
	inner blockstore.Blockstore
	ws    *wstore
	ex    *fakeEx
	log   *evlog
	BS    blockservice.BlockService
	// Other is a second, independent block service (own blockstore, own honest exchange, same
	// allowlist). Contexts carrying one of ITS sessions are used on BS (paths 3, 4); every call that
	// reaches its blockstore or exchange is logged as Foreign.
	Other blockservice.BlockService
}

func NewSvc(u *Universe, cfg Config) *Svc {
	s := &Svc{U: u, Cfg: cfg, log: &evlog{}}
	s.inner = blockstore.NewBlockstore(dssync.MutexWrap(ds.NewMapDatastore()))
	s.ws = &wstore{Blockstore: s.inner, u: u, log: s.log}
	s.ex = &fakeEx{u: u, log: s.log}
	var ex exchange.Interface
	switch cfg.Ex {
	case 1:
		ex = s.ex
	case 2:
		ex = fakeSessEx{s.ex}
	}
	opts := []blockservice.Option{blockservice.WriteThrough(!cfg.CheckFirst)}
	if cfg.Al.Kind != 0 || cfg.ExplicitDefault {
		opts = append(opts, blockservice.WithAllowlist(cfg.Al.Build()))
	}
	s.BS = blockservice.New(s.ws, ex, opts...)

	flog := &evlog{to: s.log}
	ows := &wstore{Blockstore: blockstore.NewBlockstore(dssync.MutexWrap(ds.NewMapDatastore())), u: u, log: flog}
	oex := &fakeEx{u: u, log: flog}
	oex.on1 = func(c *ACid) X1 { return X1{Blk: u.Block(c, c.Dig)} }
	oex.onN = func(ks []*ACid) ([]*ABlk, bool) {
		r := make([]*ABlk, len(ks))
		for i, k := range ks {
			r[i] = u.Block(k, k.Dig)
		}
		return r, false
	}
	var oexi exchange.Interface = oex
	if cfg.Ex == 2 {
		oexi = fakeSessEx{oex}
	}
	s.Other = blockservice.New(ows, oexi, opts...)
	return s
}

func (s *Svc) snapshot() []StoreEnt {
	ctx := context.Background()
	ch, err := s.inner.AllKeysChan(ctx)
	if err != nil {
		panic(err)
	}
	var ents []StoreEnt
	for c := range ch {
		b, err := s.inner.Get(ctx, c)
		if err != nil {
			panic(err)
		}
		s.U.mu.Lock()
		k, ok := s.U.mhs[string(c.Hash())]
		d, ok2 := s.U.datas[string(b.RawData())]
		s.U.mu.Unlock()
		if !ok {
			k = unknownCid
		}
		if !ok2 {
			d = 999999
		}
		ents = append(ents, StoreEnt{k, d})
	}
	sort.Slice(ents, func(i, j int) bool {
		a, b := ents[i].Key, ents[j].Key
		if a.Code != b.Code {
			return a.Code < b.Code
		}
		if a.Len != b.Len {
			return a.Len < b.Len
		}
		return a.Dig < b.Dig
	})
	return ents
}

// Do runs one operation on the real block service.
func (s *Svc) Do(op *Op) *Obs {
	ctx := context.Background()
	s.ws.fget, s.ws.fhas, s.ws.fput = mhset(op.Faults.Get), mhset(op.Faults.Has), mhset(op.Faults.Put)
	s.ex.fnotify = mhset(op.Faults.Notify)
	s.ex.on1, s.ex.onN = op.On1, op.OnN
	s.ex.got1, s.ex.gotN, s.ex.errN, s.ex.hadN = nil, nil, false, false
	s.log.take()
	o := &Obs{Op: op}
	var getter blockservice.BlockGetter = s.BS
	gctx := ctx
	switch op.Path {
	case 1:
		getter = blockservice.NewSession(ctx, s.BS)
	case 2:
		gctx = blockservice.ContextWithSession(ctx, s.BS)
	case 3:
		gctx = blockservice.ContextWithSession(ctx, s.Other)
	case 4:
		gctx = blockservice.ContextWithSession(ctx, s.Other)
		getter = blockservice.NewSession(gctx, s.BS)
	}
	switch op.Kind {
	case "Add":
		o.Err = ErrClass(s.BS.AddBlock(ctx, op.Blk.B))
	case "AddMany":
		bs := make([]blocks.Block, len(op.Blks))
		for i, b := range op.Blks {
			bs[i] = b.B
		}
		o.Err = ErrClass(s.BS.AddBlocks(ctx, bs))
	case "Get":
		b, err := getter.GetBlock(gctx, op.Cid.C)
		o.Err = ErrClass(err)
		if b != nil {
			o.Blk = s.U.AbsBlk(b)
		}
		if s.ex.got1 != nil {
			o.X1, o.Fetched = *s.ex.got1, true
		} else {
			o.X1 = X1{Err: "RNotFound"}
		}
	case "GetMany":
		ks := make([]cid.Cid, len(op.Keys))
		for i, k := range op.Keys {
			ks[i] = k.C
		}
		orig := append([]cid.Cid(nil), ks...)
		for b := range getter.GetBlocks(gctx, ks) {
			has, err := s.inner.Has(ctx, b.Cid())
			o.Emitted = append(o.Emitted, Emitted{s.U.AbsBlk(b), has && err == nil})
		}
		for i := range ks {
			if !ks[i].Equals(orig[i]) {
				panic("GetBlocks clobbered the caller's key slice")
			}
		}
		o.XN, o.XNErr, o.Fetched = s.ex.gotN, s.ex.errN, s.ex.hadN
	case "Del":
		if err := s.BS.DeleteBlock(ctx, op.Cid.C); err != nil {
			panic(err)
		}
	default:
		panic(op.Kind)
	}
	o.Evs = s.log.take()
	o.Store = s.snapshot()
	return o
}

func (o *Obs) opCoq() string {
	op := o.Op
	switch op.Kind {
	case "Add":
		return vh.App("OAdd", op.Blk.Coq())
	case "AddMany":
		return vh.App("OAddMany", BlksCoq(op.Blks))
	case "Get":
		return vh.App("OGet", pathNames[op.Path], op.Cid.Coq(), o.X1.Coq())
	case "GetMany":
		x := "None"
		if !o.XNErr {
			x = "(Some " + BlksCoq(o.XN) + ")"
		}
		return vh.App("OGetMany", pathNames[op.Path], CidsCoq(op.Keys), x)
	}
	return vh.App("ODel", op.Cid.Coq())
}

func (o *Obs) outCoq() string {
	switch o.Op.Kind {
	case "Add", "AddMany":
		return vh.App("RAdd", o.Err)
	case "Get":
		b := "None"
		if o.Blk != nil {
			b = "(Some " + o.Blk.Coq() + ")"
		}
		return vh.App("RGet", o.Err, b)
	case "GetMany":
		return vh.App("RGetMany", vh.ListOf(o.Emitted, func(e Emitted) string { return "(" + e.Blk.Coq() + ", " + vh.Bool(e.Cached) + ")" }))
	}
	return "RDel"
}

// Coq renders the observation as a BlockSvc/M_C04 [obs] record.
func (o *Obs) Coq() string {
	return fmt.Sprintf("{| o_op := %s; o_faults := %s; o_evs := %s; o_out := %s; o_store := %s |}",
		o.opCoq(), o.Op.Faults.Coq(),
		vh.ListOf(o.Evs, func(e Ev) string { return e.Coq() }), o.outCoq(),
		vh.ListOf(o.Store, func(e StoreEnt) string { return "(" + e.Key.MhCoq() + ", " + vh.N(uint64(e.Data)) + ")" }))
}

// Replay is a compact human-readable description (goes into the replay file).
func (o *Obs) Replay() map[string]any {
	op := o.Op
	m := map[string]any{"op": op.Kind}
	switch op.Kind {
	case "Add":
		m["block"] = op.Blk.String()
	case "AddMany":
		m["blocks"] = blksStr(op.Blks)
	case "Get":
		m["path"], m["cid"] = pathNames[op.Path], op.Cid.String()
		if o.Fetched {
			if o.X1.Err != "" {
				m["exchange_answers"] = o.X1.Err
			} else {
				m["exchange_answers"] = o.X1.Blk.String()
			}
		}
		m["err"] = o.Err
		if o.Blk != nil {
			m["got"] = o.Blk.String()
		}
	case "GetMany":
		m["path"], m["keys"] = pathNames[op.Path], cidsStr(op.Keys)
		if o.Fetched {
			if o.XNErr {
				m["exchange_answers"] = "error"
			} else {
				m["exchange_answers"] = blksStr(o.XN)
			}
		}
		em := make([]string, len(o.Emitted))
		for i, e := range o.Emitted {
			em[i] = fmt.Sprintf("%s cached=%v", e.Blk, e.Cached)
		}
		m["emitted"] = strings.Join(em, ",")
	case "Del":
		m["cid"] = op.Cid.String()
	}
	if op.Faults.Any() {
		m["faults"] = fmt.Sprintf("get=%s has=%s put=%s notify=%s", cidsStr(op.Faults.Get), cidsStr(op.Faults.Has), cidsStr(op.Faults.Put), cidsStr(op.Faults.Notify))
	}
	evs := make([]string, len(o.Evs))
	for i, e := range o.Evs {
		evs[i] = e.String()
	}
	m["calls"] = strings.Join(evs, " ")
	return m
}
