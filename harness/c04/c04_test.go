// Correspondence harness for C04 (verifcid + the guards of blockservice).
//
//  1. Validator sweep: verifcid.ValidateCid on the real allowlist implementations for every
//     multihash code registered in go-multihash plus unknown codes, every digest length
//     0..256 (and some beyond), default / custom / overriding / nested / user-implemented
//     allowlists.  One case per (allowlist, code): the run-length encoded verdicts.
//  2. Block-service histories: AddBlock/AddBlocks/GetBlock/GetBlocks/DeleteBlock through the
//     plain, session and context-embedded-session paths on the REAL blockservice with a
//     logging blockstore and a scripted exchange that offers (and pushes) blocks with
//     rejected CIDs; every store/exchange call, every result and the store contents go to Coq.
package c04

import (
	"fmt"
	"sort"
	"testing"

	"github.com/ipfs/boxo/verifcid"
	"github.com/ipfs/go-cid"
	mh "github.com/multiformats/go-multihash"

	"verif/harness/c04/bsvc"
	"verif/harness/vh"
)

func sweepAllowlists() []*bsvc.AL {
	def := &bsvc.AL{Kind: 0}
	c1 := &bsvc.AL{Kind: 1, Allowed: []uint64{mh.SHA2_256, mh.IDENTITY, mh.MD5, 0x9999, 0xb213}, Min: 16, Max: 32}
	als := []*bsvc.AL{
		def,
		{Kind: 2, ViaNew: true},
		{Kind: 2},
		{Kind: 2, Override: def},
		{Kind: 2, Override: def, Set: []bsvc.KV{{Code: mh.SHA2_256, Good: false}, {Code: mh.MD5, Good: true}, {Code: mh.IDENTITY, Good: false}, {Code: 0xb213, Good: true}}},
		{Kind: 2, Set: []bsvc.KV{{Code: mh.SHA2_256, Good: true}, {Code: mh.IDENTITY, Good: true}, {Code: mh.MD5, Good: true}, {Code: mh.SHA2_512, Good: false}}, ViaNew: true},
		{Kind: 2, Set: []bsvc.KV{{Code: mh.SHA2_256, Good: true}, {Code: 0xb213, Good: true}, {Code: 1 << 40, Good: true}}},
		c1,
		{Kind: 1, Allowed: []uint64{mh.SHA2_256, mh.IDENTITY}, Min: 0, Max: 0},
		{Kind: 1, Allowed: []uint64{mh.SHA2_256, mh.IDENTITY}, Min: 33, Max: 32},
		{Kind: 1, Allowed: []uint64{mh.SHA2_256, mh.SHA1}, Min: -1, Max: 256},
		{Kind: 1, Allowed: []uint64{mh.SHA2_256}, Min: 255, Max: 1 << 40},
		{Kind: 2, Override: c1, Set: []bsvc.KV{{Code: mh.IDENTITY, Good: false}, {Code: mh.SHA2_512, Good: true}}},
		{Kind: 2, Override: &bsvc.AL{Kind: 2, Override: def, Set: []bsvc.KV{{Code: mh.MD5, Good: true}, {Code: mh.SHA1, Good: false}}},
			Set: []bsvc.KV{{Code: mh.SHA1, Good: true}, {Code: mh.SHA3_256, Good: false}}},
		{Kind: 2, Override: &bsvc.AL{Kind: 2, Set: []bsvc.KV{{Code: mh.MD5, Good: true}}, ViaNew: true}, Set: []bsvc.KV{{Code: mh.SHA2_256, Good: true}}},
	}
	return als
}

func sweepCodes(e *vh.Env) (registered []uint64, unknown []uint64) {
	for c := range mh.Codes {
		registered = append(registered, c)
	}
	sort.Slice(registered, func(i, j int) bool { return registered[i] < registered[j] })
	seen := map[uint64]bool{}
	for _, c := range registered {
		seen[c] = true
	}
	cand := []uint64{0x01, 0x02, 0x10, 0x1f, 0x20, 0x21, 0x55, 0x57, 0x7f, 0x80, 0xd4, 0xd6, 0xff, 0x100, 0x1011, 0x1013,
		0xb200, 0xb1ff, 0xb261, 0xb262, 0xb300, 0xb400, 0x9999, 0x3fff, 0x4000, 1 << 21, 1<<32 - 1, 1 << 32, 1 << 40, 1 << 62, 1<<63 - 1}
	for len(cand) < 200 {
		switch e.Rng.Intn(3) {
		case 0:
			cand = append(cand, uint64(e.Rng.Intn(0x200)))
		case 1:
			cand = append(cand, 0xb1f0+uint64(e.Rng.Intn(0x90)))
		default:
			cand = append(cand, uint64(e.Rng.Int63()))
		}
	}
	for _, c := range cand {
		if !seen[c] && len(unknown) < 64 {
			seen[c] = true
			unknown = append(unknown, c)
		}
	}
	return
}

func rle(vs []string) string {
	var items []string
	for i := 0; i < len(vs); {
		j := i
		for j < len(vs) && vs[j] == vs[i] {
			j++
		}
		items = append(items, fmt.Sprintf("(%s, %s)", vs[i], vh.Nat(j-i)))
		i = j
	}
	return vh.List(items)
}

func positionCorpus(g *bsvc.Gen) [][]*bsvc.Op {
	u := g.U
	valid := []*bsvc.ACid{
		u.Cid(1, cid.Raw, mh.SHA2_256, 32, 0), u.Cid(1, cid.Raw, mh.SHA2_256, 32, 1), u.Cid(0, cid.DagProtobuf, mh.SHA2_256, 32, 2),
		u.Cid(1, cid.Raw, mh.IDENTITY, 128, 3), u.Cid(1, cid.Raw, mh.SHA2_256, 20, 4), u.Cid(1, cid.Raw, 0xb214, 20, 5),
		u.Cid(1, cid.Raw, mh.SHA2_512, 128, 0),
	}
	invalid := []*bsvc.ACid{
		u.Cid(1, cid.Raw, mh.MD5, 16, 0), u.Cid(1, cid.Raw, mh.SHA2_256, 19, 1), u.Cid(1, cid.Raw, mh.IDENTITY, 129, 2),
		u.Cid(1, cid.Raw, 0xb213, 19, 3), u.Cid(1, cid.Raw, mh.SHA2_256, 129, 4),
	}
	g.Pool = append(append([]*bsvc.ACid{}, valid...), invalid...)
	honest := func(ks []*bsvc.ACid) ([]*bsvc.ABlk, bool) {
		var r []*bsvc.ABlk
		for _, k := range ks {
			r = append(r, u.Block(k, k.Dig))
		}
		return r, false
	}
	pushInvalid := func(ks []*bsvc.ACid) ([]*bsvc.ABlk, bool) { // honest answers interleaved with unrequested rejected-CID blocks
		var r []*bsvc.ABlk
		for i, k := range ks {
			r = append(r, u.Block(invalid[i%len(invalid)], invalid[i%len(invalid)].Dig), u.Block(k, k.Dig))
		}
		return r, false
	}
	one := func(c *bsvc.ACid) bsvc.X1 { return bsvc.X1{Blk: u.Block(c, c.Dig)} }
	var out [][]*bsvc.Op
	// every batch length 1..6, one invalid key at every position; stored prefix so both local hits and misses occur
	for n := 1; n <= 6; n++ {
		for p := 0; p <= n; p++ { // p == n: no invalid key at all
			var ks []*bsvc.ACid
			for i := 0; i < n; i++ {
				if i == p {
					ks = append(ks, invalid[(n+p)%len(invalid)])
				} else {
					ks = append(ks, valid[i%len(valid)])
				}
			}
			ops := []*bsvc.Op{
				{Kind: "AddMany", Blks: []*bsvc.ABlk{u.Block(valid[0], valid[0].Dig), u.Block(valid[2], valid[2].Dig)}, OnN: honest, On1: one},
				{Kind: "GetMany", Path: (n + p) % 3, Keys: ks, OnN: honest, On1: one},
			}
			out = append(out, ops)
		}
	}
	// two and more invalid keys, all invalid, invalid first/last, hostile exchange pushing rejected CIDs
	mixes := [][]int{{-1, -2}, {-1, 0, -2, 1}, {0, -1, -1, 1, -3}, {-1, -2, -3, -4, -5}, {0, 1, 2, -1}, {-4, 0, 1, 2, 3, 4, 5, 6, -5, 0, -1, 3}}
	for i, m := range mixes {
		var ks []*bsvc.ACid
		for _, x := range m {
			if x < 0 {
				ks = append(ks, invalid[-x-1])
			} else {
				ks = append(ks, valid[x])
			}
		}
		out = append(out, []*bsvc.Op{{Kind: "GetMany", Path: i % 3, Keys: ks, OnN: pushInvalid, On1: one}})
	}
	// single-call guards: add / get of rejected CIDs, exchange handing a rejected block for a valid request
	for i, c := range invalid {
		wrong := func(*bsvc.ACid) bsvc.X1 { return bsvc.X1{Blk: u.Block(c, c.Dig)} }
		out = append(out, []*bsvc.Op{
			{Kind: "Add", Blk: u.Block(c, c.Dig), OnN: honest, On1: one},
			{Kind: "AddMany", Blks: []*bsvc.ABlk{u.Block(valid[1], valid[1].Dig), u.Block(c, c.Dig), u.Block(valid[3], valid[3].Dig)}, OnN: honest, On1: one},
			{Kind: "Get", Path: i % 3, Cid: c, OnN: honest, On1: one},
			{Kind: "Get", Path: (i + 1) % 3, Cid: valid[i%len(valid)], OnN: honest, On1: wrong},
			{Kind: "GetMany", Path: (i + 2) % 3, Keys: []*bsvc.ACid{valid[1], valid[3], c}, OnN: honest, On1: one},
		})
	}
	return out
}

func TestC04(t *testing.T) {
	e := vh.Load(t)
	st := vh.NewStats("(a) validator sweep: one case per (allowlist, multihash code) holding ValidateCid's verdicts for digest lengths 0..256 " +
		"(+ a band above), all codes of mh.Codes + 64 unknown codes; (b) block-service histories (1..8 ops, batches <= 12 keys, plain/session/" +
		"context-session paths, honest and hostile scripted exchange, injected store faults) on the real blockservice. " +
		"non-trivial = sweep case with at least two different verdicts, or history in which a rejected CID was offered (as key, block or exchange answer); " +
		"distinct by full case text")
	cs := vh.NewCases(e, "From V Require Import lib.BlockSvc model.M_C04.\nOpen Scope Z_scope.", "case", "check_case", 250)

	// ---- (a) validator sweep ----
	registered, unknown := sweepCodes(e)
	codes := append(append([]uint64{}, registered...), unknown...)
	st.Extra["registered_codes"] = len(registered)
	st.Extra["unknown_codes"] = len(unknown)
	maxLen := 256 + 8
	als := sweepAllowlists()
	cidCache := map[[2]uint64]cid.Cid{}
	mkcid := func(code uint64, n int) cid.Cid {
		k := [2]uint64{code, uint64(n)}
		if c, ok := cidCache[k]; ok {
			return c
		}
		m, err := mh.Encode(make([]byte, n), code)
		if err != nil {
			t.Fatal(err)
		}
		c := cid.NewCidV1(cid.Raw, m)
		if n == 32 && code == mh.SHA2_256 {
			c = cid.NewCidV0(m)
		}
		cidCache[k] = c
		return c
	}
	calls := 0
	for ai, al := range als {
		real := al.Build()
		inSet := map[uint64]bool{}
		for a := al; a != nil; a = a.Override {
			for _, kv := range a.Set {
				inSet[kv.Code] = true
			}
			for _, c := range a.Allowed {
				inSet[c] = true
			}
		}
		for ci, code := range codes {
			// quick tier: every code on the default allowlist; on the others every code they mention plus a rotating third
			if ai > 0 && !e.Thorough() && !inSet[code] && (ci+ai+int(e.Seed))%3 != 0 {
				continue
			}
			vs := make([]string, 0, maxLen+1)
			for n := 0; n <= maxLen; n++ {
				vs = append(vs, bsvc.VerrClass(verifcid.ValidateCid(real, mkcid(code, n))))
				calls++
			}
			term := vh.App("CValidate", al.Coq(), vh.ZU(code), "0", rle(vs))
			rp := map[string]any{"kind": "validate", "allowlist": al.Coq(), "code": code, "verdicts_by_length_rle": rle(vs)}
			cs.Add(term, rp)
			distinct := false
			for _, v := range vs {
				distinct = distinct || v != vs[0]
			}
			st.Case(term, distinct)
			st.Count("validate")
			if distinct {
				st.Sample(rp, 2)
			}
		}
		// a band of big lengths (int range) on a few codes
		for _, code := range []uint64{mh.SHA2_256, mh.IDENTITY, mh.MD5} {
			from := 1<<16 - 2
			var vs []string
			for n := from; n < from+4; n++ {
				vs = append(vs, bsvc.VerrClass(verifcid.ValidateCid(real, mkcid(code, n))))
				calls++
			}
			cs.Add(vh.App("CValidate", al.Coq(), vh.ZU(code), vh.Z(int64(from)), rle(vs)),
				map[string]any{"kind": "validate", "allowlist": al.Coq(), "code": code, "from": from, "verdicts_by_length_rle": rle(vs)})
			st.Case(fmt.Sprint("big", ai, code), false)
			st.Count("validate-big")
		}
	}
	st.Extra["validate_calls"] = calls

	// ---- (b) block-service histories ----
	g := &bsvc.Gen{R: e.Rng, U: bsvc.NewUniverse(), P: bsvc.Profile{InvalidBias: 35, HostileBias: 25, FaultBias: 12, MaxOps: 8, MaxKeys: 12}}
	emit := func(cfg bsvc.Config, obs []*bsvc.Obs, kind string) {
		term := bsvc.WithNames(func() string {
			return vh.App("CTrace", cfg.Coq(), vh.ListOf(obs, func(o *bsvc.Obs) string { return o.Coq() }))
		})
		steps := make([]map[string]any, len(obs))
		offered := false
		bad := func(c *bsvc.ACid) bool { return verifcid.ValidateCid(cfg.Al.Build(), c.C) != nil }
		for i, o := range obs {
			steps[i] = o.Replay()
			st.Count("op:" + o.Op.Kind)
			if o.Op.Kind == "Get" || o.Op.Kind == "GetMany" {
				st.Count("path:" + []string{"plain", "session", "ctx-session", "foreign-ctx", "foreign-ctx-session"}[o.Op.Path])
			}
			if o.Fetched {
				st.Count("exchange-asked")
			}
			if o.Op.Faults.Any() {
				st.Count("with-fault")
			}
			for _, k := range o.Op.Keys {
				offered = offered || bad(k)
			}
			if o.Op.Cid != nil {
				offered = offered || bad(o.Op.Cid)
			}
			if o.Op.Blk != nil {
				offered = offered || bad(o.Op.Blk.Cid)
			}
			for _, b := range o.Op.Blks {
				offered = offered || bad(b.Cid)
			}
			for _, b := range o.XN {
				offered = offered || bad(b.Cid)
			}
			if o.Fetched && o.X1.Blk != nil {
				offered = offered || bad(o.X1.Blk.Cid)
			}
		}
		rp := map[string]any{"kind": kind, "config": cfg.String(), "steps": steps}
		cs.Add(term, rp)
		st.Case(term, offered)
		st.Count(kind)
		st.Sample(rp, 6)
	}
	def := &bsvc.AL{Kind: 0}
	for i, ops := range positionCorpus(g) {
		cfg := bsvc.Config{Al: def, CheckFirst: i%2 == 0, Ex: 1 + i%2, ExplicitDefault: i%3 == 0}
		emit(cfg, bsvc.Run(g.U, cfg, ops), "history-corpus")
	}
	// the corpus again without an exchange and under a custom allowlist
	for i, ops := range positionCorpus(g) {
		if i%4 == 0 {
			cfg := bsvc.Config{Al: def, CheckFirst: true, Ex: 0}
			emit(cfg, bsvc.Run(g.U, cfg, ops), "history-corpus")
			cfg = bsvc.Config{Al: bsvc.ALPool()[1+i%5], CheckFirst: false, Ex: 2}
			emit(cfg, bsvc.Run(g.U, cfg, ops), "history-corpus")
		}
	}
	n := e.Pick(700, 12000)
	for i := 0; i < n; i++ {
		g.NewPool(4 + g.R.Intn(9))
		cfg := g.Config()
		emit(cfg, g.History(cfg), "history-random")
	}
	cs.Close()
	st.Write(e)
}
