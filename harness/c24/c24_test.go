// Correspondence harness for C24 (pinning/pinner/dsindex): random sequences of
// Add/Delete/DeleteKey/DeleteAll/ForEach/HasValue/HasAny/Search are run on a real
// dsindex.Indexer over a namespaced MapDatastore; what it answered is written into
// cases_*.v and compared inside Coq with the datastore-level model and with the
// multimap specification (model/M_C24.v).
package c24

import (
	"context"
	"errors"
	"fmt"
	"sort"
	"strings"
	"testing"

	"github.com/ipfs/boxo/pinning/pinner/dsindex"
	ds "github.com/ipfs/go-datastore"

	"verif/harness/vh"
)

type op struct {
	kind string // add del delkey delall each eachstop hasvalue hasany search
	k, v string
	n    int
}

func bsCoq(s string) string {
	if s == "" {
		return "[]"
	}
	return "(bs " + vh.Bytes([]byte(s)) + ")"
}

func (o op) coq() string {
	switch o.kind {
	case "add":
		return vh.App("OAdd", bsCoq(o.k), bsCoq(o.v))
	case "del":
		return vh.App("ODelete", bsCoq(o.k), bsCoq(o.v))
	case "delkey":
		return vh.App("ODeleteKey", bsCoq(o.k))
	case "delall":
		return "ODeleteAll"
	case "each":
		return vh.App("OForEach", bsCoq(o.k))
	case "eachstop":
		return vh.App("OForEachStop", bsCoq(o.k), vh.Nat(o.n))
	case "hasvalue":
		return vh.App("OHasValue", bsCoq(o.k), bsCoq(o.v))
	case "hasany":
		return vh.App("OHasAny", bsCoq(o.k))
	}
	return vh.App("OSearch", bsCoq(o.k))
}

func (o op) short() string {
	return fmt.Sprintf("%s(%x,%x,%d)", o.kind, o.k, o.v, o.n)
}

func errClass(err error) string {
	switch {
	case err == nil:
		return "ENone"
	case errors.Is(err, dsindex.ErrEmptyKey):
		return "EEmptyKey"
	case errors.Is(err, dsindex.ErrEmptyValue):
		return "EEmptyValue"
	}
	return "EOther"
}

func pairsCoq(ps [][2]string) string {
	sort.Slice(ps, func(i, j int) bool {
		if ps[i][0] != ps[j][0] {
			return ps[i][0] < ps[j][0]
		}
		return ps[i][1] < ps[j][1]
	})
	return vh.ListOf(ps, func(p [2]string) string { return vh.Pair(bsCoq(p[0]), bsCoq(p[1])) })
}

// apply runs one operation on the real indexer and renders what it answered.
// listing reports the number of entries a listing operation returned.
func apply(ctx context.Context, x dsindex.Indexer, o op) (obs string, listing int) {
	switch o.kind {
	case "add":
		return vh.App("BErr", errClass(x.Add(ctx, o.k, o.v))), 0
	case "del":
		return vh.App("BErr", errClass(x.Delete(ctx, o.k, o.v))), 0
	case "delkey":
		n, err := x.DeleteKey(ctx, o.k)
		return vh.App("BCount", vh.ZU(uint64(n)), errClass(err)), 0
	case "delall":
		n, err := x.DeleteAll(ctx)
		return vh.App("BCount", vh.ZU(uint64(n)), errClass(err)), 0
	case "each", "eachstop":
		var ps [][2]string
		err := x.ForEach(ctx, o.k, func(k, v string) bool {
			ps = append(ps, [2]string{k, v})
			return o.kind == "each" || len(ps) < o.n
		})
		return vh.App("BPairs", pairsCoq(ps), errClass(err)), len(ps)
	case "hasvalue":
		b, err := x.HasValue(ctx, o.k, o.v)
		return vh.App("BBool", vh.Bool(b), errClass(err)), 0
	case "hasany":
		b, err := x.HasAny(ctx, o.k)
		return vh.App("BBool", vh.Bool(b), errClass(err)), 0
	}
	vs, err := x.Search(ctx, o.k)
	vs = append([]string(nil), vs...)
	sort.Strings(vs)
	return vh.App("BVals", vh.ListOf(vs, bsCoq), errClass(err)), len(vs)
}

// string pools: prefix-related strings (their base64url encodings are prefixes of one
// another at 3-byte boundaries), strings that look like encoded keys or path syntax,
// bytes outside ASCII, and the empty string (rejected by the indexer).
var fixedPool = []string{
	"a", "ab", "abc", "abcd", "abcde", "abcdef", "abcdefg", "abc\x00", "abc/", "abcabc",
	"", "/", "//", ".", "..", "a/b", "/a", "a/", "u", "uYWJj", "YWJj", "uYWJj/uYQ", "\x00", "\x00\x00", "\x00\x00\x00",
	"\xff", "\xff\xff", "\xff\xff\xff", "\xfb\xff", "\xfb\xef\xbe", "\xfb\xef\xbe\xfb", "-_", "\n", "a\n", " ", "%2F",
}

func randBytes(e *vh.Env) string {
	n := e.Rng.Intn(9)
	b := make([]byte, n)
	special := []byte{0, '/', 0xff, '.', 'u', '\n', 0x80, 'A', '-', '_', '='}
	for i := range b {
		if e.Rng.Intn(3) == 0 {
			b[i] = special[e.Rng.Intn(len(special))]
		} else {
			b[i] = byte(e.Rng.Intn(256))
		}
	}
	return string(b)
}

func genPool(e *vh.Env, n int) []string {
	p := make([]string, 0, n)
	// a chain of prefix-related strings is likely
	if e.Rng.Intn(2) == 0 {
		base := randBytes(e)
		for len(base)%3 != 0 || base == "" {
			base += string(rune('a' + e.Rng.Intn(3)))
		}
		p = append(p, base, base+"x", base+"xyz", base+base)
	}
	for len(p) < n {
		switch e.Rng.Intn(3) {
		case 0:
			p = append(p, randBytes(e))
		default:
			p = append(p, fixedPool[e.Rng.Intn(len(fixedPool))])
		}
	}
	e.Rng.Shuffle(len(p), func(i, j int) { p[i], p[j] = p[j], p[i] })
	return p[:n]
}

func genOps(e *vh.Env, maxLen int) []op {
	r := e.Rng
	keys := genPool(e, 2+r.Intn(4))
	vals := genPool(e, 2+r.Intn(4))
	if r.Intn(3) == 0 { // values and keys from the same pool: key/value confusion is observable
		vals = keys
	}
	k := func() string {
		if r.Intn(12) == 0 {
			return ""
		}
		return keys[r.Intn(len(keys))]
	}
	v := func() string {
		if r.Intn(14) == 0 {
			return ""
		}
		return vals[r.Intn(len(vals))]
	}
	n := 1 + r.Intn(maxLen)
	ops := make([]op, 0, n)
	for i := 0; i < n; i++ {
		switch x := r.Intn(100); {
		case x < 38:
			ops = append(ops, op{kind: "add", k: k(), v: v()})
		case x < 48:
			ops = append(ops, op{kind: "del", k: k(), v: v()})
		case x < 54:
			ops = append(ops, op{kind: "delkey", k: k()})
		case x < 56:
			ops = append(ops, op{kind: "delall"})
		case x < 66:
			ops = append(ops, op{kind: "each", k: k()})
		case x < 70:
			ops = append(ops, op{kind: "each", k: ""})
		case x < 75:
			ops = append(ops, op{kind: "eachstop", k: k(), n: 1 + r.Intn(3)})
		case x < 83:
			ops = append(ops, op{kind: "hasvalue", k: k(), v: v()})
		case x < 89:
			ops = append(ops, op{kind: "hasany", k: k()})
		default:
			ops = append(ops, op{kind: "search", k: k()})
		}
	}
	return ops
}

// corpus: hand-written histories around the prefix boundary and the error paths.
func corpus() [][]op {
	a := func(k, v string) op { return op{kind: "add", k: k, v: v} }
	all := op{kind: "each"}
	return [][]op{
		// enc("abc") = uYWJj is a string prefix of enc("abcd") = uYWJjZA
		{a("abc", "1"), a("abcd", "2"), a("abcdef", "3"), {kind: "search", k: "abc"}, {kind: "search", k: "abcd"},
			{kind: "each", k: "abc"}, {kind: "hasany", k: "ab"}, {kind: "delkey", k: "abc"}, all,
			{kind: "delkey", k: "abcdef"}, all, {kind: "delall"}, all},
		// values that are prefixes of one another; delete one
		{a("k", "abc"), a("k", "abcd"), a("k", "abc"), {kind: "del", k: "k", v: "abc"}, {kind: "search", k: "k"},
			{kind: "hasvalue", k: "k", v: "abc"}, {kind: "hasvalue", k: "k", v: "abcd"}, {kind: "delkey", k: "k"}, {kind: "hasany", k: ""}},
		// empty keys / values
		{a("", "v"), a("k", ""), a("", ""), {kind: "del", k: "", v: "v"}, {kind: "del", k: "k", v: ""}, {kind: "delkey", k: ""},
			{kind: "hasvalue", k: "", v: "v"}, {kind: "hasvalue", k: "k", v: ""}, {kind: "search", k: ""}, {kind: "hasany", k: ""}, all, {kind: "delall"}},
		// key and value swapped, raw strings that look like encoded components or paths
		{a("x", "y"), {kind: "hasvalue", k: "y", v: "x"}, {kind: "search", k: "y"}, a("uYWJj", "uYQ"), a("abc", "a"), a("uYWJj/uYQ", "/"),
			a("/", "uYWJj/uYQ"), a("..", "."), {kind: "search", k: "abc"}, {kind: "search", k: "uYWJj"}, all, {kind: "delkey", k: "uYWJj"}, all,
			{kind: "eachstop", k: "", n: 2}, {kind: "eachstop", k: "abc", n: 1}},
		// bytes whose encodings use '-' and '_' and zero bytes of every length class
		{a("\xfb\xef\xbe", "\xff"), a("\xfb\xef\xbe\xfb", "\xff\xff"), a("\x00", "\x00\x00"), a("\x00\x00", "\x00"), a("\x00\x00\x00", "\x00\x00\x00"),
			{kind: "search", k: "\xfb\xef\xbe"}, {kind: "search", k: "\x00"}, {kind: "search", k: "\x00\x00"}, all,
			{kind: "del", k: "\x00", v: "\x00"}, {kind: "del", k: "\x00", v: "\x00\x00"}, all, {kind: "delall"}, {kind: "delall"}},
	}
}

func TestC24(t *testing.T) {
	e := vh.Load(t)
	st := vh.NewStats("random histories (1..40 ops) of Add/Delete/DeleteKey/DeleteAll/ForEach(all, key, early stop)/HasValue/HasAny/Search " +
		"on a real dsindex.Indexer over namespace.Wrap(MapDatastore) that also holds two sibling indexes with prefix-related names; " +
		"keys/values from small per-history pools of prefix-related strings, path/encoding look-alikes, random bytes and the empty string; " +
		"non-trivial = at least 8 operations and at least one listing that returned two or more entries; distinct by the operation list")
	cs := vh.NewCases(e, "From V Require Import model.M_C24.\nOpen Scope N_scope.", "case", "check_case", 100)
	ctx := context.Background()
	n := e.Pick(700, 5000)
	corp := corpus()
	names := []string{"/idx", "/pins/index/cidRindex", "/i", "/data/nameindex"}
	for i := 0; i < n; i++ {
		var ops []op
		if i < len(corp) {
			ops = corp[i]
		} else {
			ops = genOps(e, 40)
		}
		name := names[e.Rng.Intn(len(names))]
		store := ds.NewMapDatastore()
		// sibling indexes in the same datastore: a name that extends ours and one that ours extends
		sibA := dsindex.New(store, ds.NewKey(name+"2"))
		sibName := "/j"
		if len(name) > 2 {
			sibName = name[:len(name)-1]
		}
		sibB := dsindex.New(store, ds.NewKey(sibName))
		for _, o := range ops {
			if o.kind == "add" && o.k != "" && o.v != "" {
				sibA.Add(ctx, o.k, o.v+"s")
				sibB.Add(ctx, o.k+"abc", o.v)
			}
		}
		sibBefore := dump(ctx, sibA) + "|" + dump(ctx, sibB)
		x := dsindex.New(store, ds.NewKey(name))
		obs := make([]string, len(ops))
		opc := make([]string, len(ops))
		shorts := make([]string, len(ops))
		maxListing := 0
		for j, o := range ops {
			var l int
			obs[j], l = apply(ctx, x, o)
			if l > maxListing {
				maxListing = l
			}
			opc[j] = o.coq()
			shorts[j] = o.short()
			st.Count("op=" + o.kind)
		}
		rp := map[string]any{"index": name, "ops": shorts}
		if sibBefore != dump(ctx, sibA)+"|"+dump(ctx, sibB) {
			st.Violate("operations on index "+name+" changed a sibling index in the same datastore", "", rp)
		}
		cs.Add(vh.App("Case", vh.List(opc), vh.List(obs)), rp)
		key := strings.Join(shorts, ";")
		st.Case(key, len(ops) >= 8 && maxListing >= 2)
		st.Count(fmt.Sprintf("len/10=%d", len(ops)/10))
		st.Count(fmt.Sprintf("maxlisting=%d", min(maxListing, 6)))
		st.Sample(rp, 4)
	}
	cs.Close()
	st.Write(e)
}

func dump(ctx context.Context, x dsindex.Indexer) string {
	var ps []string
	x.ForEach(ctx, "", func(k, v string) bool {
		ps = append(ps, fmt.Sprintf("%x=%x", k, v))
		return true
	})
	sort.Strings(ps)
	return strings.Join(ps, ",")
}
